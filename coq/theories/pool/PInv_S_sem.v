(** Layer S — the semaphore primitives: wake_next, sem_release, enqueue / dequeue, register,
    try_start, and the spawner loop. *)
From TP Require Import PInv PInv_S_base.
From Coq Require Import Lia.
Import ListNotations.

Ltac fx1 :=
  lazymatch goal with
  | |- framex _ _ (finish_p _ _ _) => apply fx_finish_p
  | |- framex _ _ (suspend_p _ _ _ _) => apply fx_suspend_p
  | |- framex _ _ (finish_d _ _ _ _) => apply fx_finish_d
  | |- framex _ _ (cancel_p _ _) => apply fx_cancel_p
  | |- framex _ _ (fold_left cancel_p _ _) => apply fx_fold_cancel_p
  | |- framex _ _ (wake_closed _ _) => apply fx_wake_closed
  | |- framex _ _ (fold_left sched _ _) => apply fx_fold_sched
  | |- framex _ _ (sched_cbs _ _) => apply fx_sched_cbs
  | |- framex _ _ (emit _ _) => apply fx_emit
  | |- framex _ _ (sched _ _) => apply fx_sched
  | |- framex _ _ (unsched _ _) => apply fx_unsched
  | |- framex _ _ (put_p _ _ _) => apply fx_put_p
  | |- framex _ _ (know _ _) => apply fx_know
  | |- framex _ _ (set_res _ _) => apply fx_set_res
  | |- framex _ _ (set_evs _ _) => apply fx_set_evs
  | |- framex _ _ (set_ctl _ _) => apply fx_set_ctl
  | |- framex _ _ (set_ready _ _) => apply fx_set_ready
  | |- framex _ _ (set_groups _ _) => apply fx_set_groups
  | |- framex _ _ (set_known _ _) => apply fx_set_known
  | |- framex _ _ (set_gmeta _ _) => apply fx_set_gmeta
  | |- framex _ _ (set_meta_cancelled _ _) => apply fx_set_meta_cancelled
  | |- framex _ _ (set_start_calls _ _) => apply fx_set_start_calls
  | |- framex _ _ (set_locked _ _) => apply fx_set_locked
  | |- framex _ _ (set_closed _ _) => apply fx_set_closed
  | |- framex _ _ (set_closed_waiters _ _) => apply fx_set_closed_waiters
  | |- framex _ _ (set_n_forgotten _ _) => apply fx_set_n_forgotten
  | |- framex _ _ (set_taint_self _ _) => apply fx_set_taint_self
  | |- framex _ _ (set_taint_iter _ _) => apply fx_set_taint_iter
  | |- framex _ _ (set_taint_unlock _ _) => apply fx_set_taint_unlock
  | |- framex _ _ (set_n_gac _ _) => apply fx_set_n_gac
  | |- framex _ _ (set_ptasks _ _) => apply fx_set_ptasks
  | |- framex _ _ (set_t_ended _ _) => apply fx_set_t_ended
  end.
Ltac fxs := repeat fx1; apply framex_refl.

(** peel the frame-only outer layers of the state expression in the goal *)
Ltac jframe := eapply J_frame; [ fxs | ].
Ltac jframem := eapply J_framem; [ repeat first [ apply fx_put_m | apply fx_set_ctl | apply fx_sched
                                              | apply fx_emit | apply fx_sched_cbs ];
                                  apply framex_refl | ].

Lemma NoDup_snoc (l : list nat) m : NoDup l -> ~ In m l -> NoDup (l ++ [m]).
Proof.
  induction 1 as [|h t Hn Hd IH]; simpl; intros Hm.
  - constructor; auto. constructor.
  - constructor.
    + rewrite in_app_iff. simpl. intuition.
    + apply IH. tauto.
Qed.

Lemma fut_pending_true f : fut_pending f = true -> f = Some FPending.
Proof. destruct f as [[]|]; simpl; congruence. Qed.

Lemma fut_pending_false f : fut_pending f = false -> f <> Some FPending.
Proof. destruct f as [[]|]; simpl; congruence. Qed.

Lemma first_pending_some s l m :
  first_pending s l = Some m -> In m l /\ m_fw_of s m = Some FPending.
Proof.
  induction l as [|h t IH]; simpl; [discriminate|].
  destruct (fut_pending (m_fw_of s h)) eqn:E.
  - intros X; inversion X; subst. split; auto. apply fut_pending_true; auto.
  - intros X. destruct (IH X). auto.
Qed.

Lemma first_pending_none s l :
  first_pending s l = None -> forall m, In m l -> m_fw_of s m <> Some FPending.
Proof.
  induction l as [|h t IH]; simpl; [tauto|].
  destruct (fut_pending (m_fw_of s h)) eqn:E; [discriminate|].
  intros X m [->|Hm]; auto. apply fut_pending_false; auto.
Qed.

Lemma ninf_is0_true v : ninf_is0 v = true -> v = Fin 0.
Proof. destruct v as [[|n]|]; simpl; congruence. Qed.

Lemma J_drop_none s m k : J s (Some m) k -> get_m s m = None -> J s None k.
Proof.
  intros H E. eapply J_drop_ex; eauto. intros pc f Hv. unfold mview in Hv. rewrite E in Hv.
  discriminate.
Qed.

Lemma m_fw_of_put_m_neq s m x m' : m <> m' -> m_fw_of (put_m s m x) m' = m_fw_of s m'.
Proof. intros. rewrite !m_fw_of_mview, mview_put_m_neq; auto. Qed.

Lemma m_fw_of_put_m_eq s m x x0 : get_m s m = Some x0 -> m_fw_of (put_m s m x) m = m_fw x.
Proof. intros H. rewrite m_fw_of_mview. erewrite mview_put_m_eq; eauto. Qed.

Lemma mview_fw s m pc f : mview s m = Some (pc, f) -> m_fw_of s m = f.
Proof. intros H. rewrite m_fw_of_mview, H. auto. Qed.

(** *** wake_next *)
Lemma wake_next_J s ex k :
  Jw s ex k -> ninf_is0 (sem_value s) = false -> J (wake_next s) ex k.
Proof.
  intros H Hpos. unfold wake_next.
  destruct (first_pending s (sem_waiters s)) as [m|] eqn:E.
  - destruct (first_pending_some _ _ _ E) as [Hin Hf].
    destruct (get_m s m) as [x|] eqn:G.
    2:{ unfold m_fw_of in Hf. rewrite G in Hf. discriminate. }
    jframe.
    set (s1 := set_sem_value s (ninf_pred (sem_value s))).
    set (x' := set_m_fw x (Some FOk)).
    assert (G1 : get_m s1 m = Some x) by exact G.
    destruct (Ji1 H m Hin) as [Hex [f [Hv Hwf]]].
    assert (Hpc : m_pc x = MWaitPool).
    { unfold mview in Hv. rewrite G in Hv. inversion Hv; auto. }
    assert (Hv1 : mview (put_m s1 m x') m = Some (MWaitPool, Some FOk)).
    { rewrite (mview_put_m_eq s1 m x' x G1). cbn. rewrite Hpc. auto. }
    assert (Hv2 : forall m', m <> m' -> mview (put_m s1 m x') m' = mview s m').
    { intros m' Hne. rewrite mview_put_m_neq; auto. }
    assert (Hu : in_use (put_m s1 m x') = S (in_use s)).
    { unfold in_use. cbn [put_m]. change (t_running (put_m s1 m x')) with (t_running s).
      change (t_cancelled (put_m s1 m x')) with (t_cancelled s).
      change (sem_waiters (put_m s1 m x')) with (sem_waiters s).
      assert (Hc : count (fun m0 => match m_fw_of (put_m s1 m x') m0 with Some FOk => true | _ => false end)
                     (sem_waiters s) =
                   S (count (fun m0 => match m_fw_of s m0 with Some FOk => true | _ => false end)
                        (sem_waiters s))).
      { apply count_upd1 with (m := m); auto.
        - apply (Jn H).
        - rewrite Hf. auto.
        - rewrite (mview_fw _ _ _ _ Hv1). auto.
        - intros y Hy. rewrite !m_fw_of_mview, Hv2; auto. }
      rewrite Hc. lia. }
    split.
    + constructor.
      * apply (Jn H).
      * intros m' Hm'. change (In m' (sem_waiters s)) in Hm'.
        destruct (Nat.eq_dec m m') as [<-|Hne].
        -- split; auto. exists (Some FOk). split; auto. right; left; auto.
        -- rewrite Hv2 by auto. apply (Ji1 H); auto.
      * intros m' f' Hm' Hx. change (In m' (sem_waiters s)).
        destruct (Nat.eq_dec m m') as [<-|Hne]; auto.
        rewrite Hv2 in Hm' by auto. eapply (Ji2 H); eauto.
      * intros m' f' Hm' Hx.
        destruct (Nat.eq_dec m m') as [<-|Hne]; [congruence|].
        rewrite Hv2 in Hm' by auto. eapply (Jmap H); eauto.
      * pose proof (Jsl H) as Hs. unfold slots_k in *. rewrite Hu.
        change (cap (put_m s1 m x')) with (cap s).
        change (sem_value (put_m s1 m x')) with (ninf_pred (sem_value s)).
        destruct (sem_value s) as [[|v]|]; try discriminate; destruct (cap s); simpl; auto. lia.
      * apply (Jcap H).
      * intros Ht Hv'. change (sem_value (put_m s1 m x')) with (ninf_pred (sem_value s)) in Hv'.
        apply (Jinf H); auto. destruct (sem_value s); simpl in *; congruence.
      * apply (Jlt H).
      * apply (Jd H).
    + intros _ m0 _ _. right. exists m. split; auto. apply (mview_fw _ _ _ _ Hv1).
  - split; auto. intros _ m Hm Hf. exfalso. eapply first_pending_none; eauto.
Qed.

(** *** sem_release: one slot too many is accounted for, then handed over *)
Lemma Jw_succ s ex k : Jw s ex (S k) -> Jw (set_sem_value s (ninf_succ (sem_value s))) ex k.
Proof.
  intros H. constructor; try apply H.
  - pose proof (Jsl H) as Hs. unfold slots_k in *.
    change (in_use (set_sem_value s (ninf_succ (sem_value s)))) with (in_use s).
    cbn [sem_value cap set_sem_value].
    destruct (sem_value s), (cap s); simpl; auto. lia.
  - cbn [sem_value set_sem_value]. intros Ht Hv. apply (Jinf H); auto.
    destruct (sem_value s); simpl in *; congruence.
Qed.

Lemma sem_release_J s ex k : Jw s ex (S k) -> J (sem_release s) ex k.
Proof.
  intros H. unfold sem_release. apply wake_next_J.
  - apply Jw_succ; auto.
  - cbn. destruct (sem_value s) as [[|v]|]; auto.
Qed.

(** *** dequeue (the head of run_m in state MWaitPool) *)
Lemma dequeue_J s m :
  J s None 0 -> In m (sem_waiters s) ->
  let s1 := set_sem_waiters s (remove1 m (sem_waiters s)) in
  (m_fw_of s m = Some FOk -> Jw s1 (Some m) 1) /\
  (m_fw_of s m <> Some FOk -> J s1 (Some m) 0).
Proof.
  intros [H W] Hin s1.
  assert (Hu : in_use s = in_use s1 +
                          (if match m_fw_of s m with Some FOk => true | _ => false end
                           then 1 else 0)).
  { unfold in_use. cbn [s1 t_running t_cancelled sem_waiters set_sem_waiters].
    rewrite (count_remove1 _ m (sem_waiters s) Hin).
    change (m_fw_of s1) with (m_fw_of s). lia. }
  assert (B : forall k, slots_k s1 k -> Jw s1 (Some m) k).
  { intros k Hk. constructor; auto; try apply H.
    - apply NoDup_remove1, (Jn H).
    - intros m' Hm'. cbn in Hm'. split.
      + intros E; inversion E; subst. eapply NoDup_remove1_notin; [apply (Jn H)|eauto].
      + apply (Ji1 H). eapply In_remove1; eauto.
    - intros m' f Hv Hne. cbn. apply In_remove1_neq; [congruence|]. eapply (Ji2 H); eauto.
      discriminate.
    - intros m' f Hv Hne. eapply (Jmap H); eauto. discriminate.
    - cbn. intros Ht Hv. rewrite (Jinf H Ht Hv). auto. }
  pose proof (Jsl H) as Hs. unfold slots_k in Hs.
  split.
  - intros Hf. apply B. unfold slots_k. change (sem_value s1) with (sem_value s).
    change (cap s1) with (cap s). rewrite Hf in Hu.
    destruct (sem_value s), (cap s); auto. lia.
  - intros Hf. split.
    + apply B. unfold slots_k. change (sem_value s1) with (sem_value s).
      change (cap s1) with (cap s).
      assert (in_use s = in_use s1).
      { destruct (m_fw_of s m) as [[]|]; try lia. congruence. }
      destruct (sem_value s), (cap s); auto. lia.
    + intros Ht m' Hm' Hp. cbn in Hm'. change (m_fw_of s1 m') with (m_fw_of s m') in Hp.
      destruct (W Ht m' (In_remove1 _ _ _ Hm') Hp) as [|[m2 [Hi2 Hf2]]]; auto.
      right. exists m2. split; auto. cbn. apply In_remove1_neq; auto. congruence.
Qed.

(** *** register *)
Lemma J_register s m x k : J s (Some m) (S k) -> J (register s m x) (Some m) k.
Proof.
  intros [H W]. unfold register. cbv zeta. jframem.
  match goal with |- J ?s2 _ _ => set (s' := s2) end.
  assert (Hn : mem (num_started s) (t_running s) = false).
  { apply mem_false_In. intros Hi. apply (Jlt H) in Hi. lia. }
  assert (Hr : t_running s' = t_running s ++ [num_started s]).
  { unfold s'. cbn. unfold dict_add. rewrite Hn. auto. }
  split.
  - constructor; try apply H.
    + pose proof (Jsl H) as Hs. unfold slots_k in *.
      change (sem_value s') with (sem_value s). change (cap s') with (cap s).
      assert (in_use s' = S (in_use s)).
      { unfold in_use. rewrite Hr, app_length. simpl.
        change (t_cancelled s') with (t_cancelled s).
        change (sem_waiters s') with (sem_waiters s).
        change (m_fw_of s') with (m_fw_of s). lia. }
      destruct (sem_value s), (cap s); auto. lia.
    + rewrite Hr. change (num_started s') with (S (num_started s)).
      intros t Ht. apply in_app_iff in Ht. destruct Ht as [Ht|[<-|[]]]; [|lia].
      apply (Jlt H) in Ht. lia.
  - exact W.
Qed.

(** *** try_start *)
Lemma sem_locked_false s : sem_locked s = false -> ninf_is0 (sem_value s) = false.
Proof. unfold sem_locked. intros H. apply orb_false_iff in H. tauto. Qed.

Lemma J_take s ex :
  J s ex 0 -> ninf_is0 (sem_value s) = false ->
  J (set_sem_value s (ninf_pred (sem_value s))) ex 1.
Proof.
  intros [H W] Hp. split.
  - constructor; try apply H.
    + pose proof (Jsl H) as Hs. unfold slots_k in *.
      change (in_use (set_sem_value s (ninf_pred (sem_value s)))) with (in_use s).
      cbn [sem_value cap set_sem_value].
      destruct (sem_value s) as [[|v]|], (cap s); simpl in *; auto; try discriminate. lia.
    + cbn [sem_value set_sem_value]. intros Ht Hv. apply (Jinf H); auto.
      destruct (sem_value s); simpl in *; congruence.
  - intros Ht m Hm Hf. destruct (W Ht m Hm Hf) as [E|?]; auto.
    rewrite E in Hp. discriminate.
Qed.

Lemma J_enqueue s m x x0 f :
  J s (Some m) 0 -> get_m s m = Some x0 -> sem_locked s = true ->
  m_pc x = MWaitPool -> m_fw x = Some f -> (f = FPending \/ f = FCancelled) ->
  J (put_m (set_sem_waiters s (sem_waiters s ++ [m])) m x) None 0.
Proof.
  intros [H W] G L Hpc Hfw Hf.
  set (s1 := set_sem_waiters s (sem_waiters s ++ [m])).
  assert (G1 : get_m s1 m = Some x0) by exact G.
  pose proof (J_ex_notin _ _ _ H) as Hnin.
  assert (Hv1 : mview (put_m s1 m x) m = Some (MWaitPool, Some f)).
  { rewrite (mview_put_m_eq s1 m x x0 G1). congruence. }
  assert (Hv2 : forall m', m <> m' -> mview (put_m s1 m x) m' = mview s m').
  { intros m' Hne. rewrite mview_put_m_neq; auto. }
  assert (Hf2 : forall m', m <> m' -> m_fw_of (put_m s1 m x) m' = m_fw_of s m').
  { intros m' Hne. rewrite !m_fw_of_mview, Hv2; auto. }
  assert (Hwf : waiting_fut (Some f)).
  { destruct Hf; subst; [left|right;right]; auto. }
  (* the state of the queue that justified blocking *)
  assert (Hlock : sem_value s = Fin 0 \/
                  (sem_waiters s <> [] /\
                   (taint_size s = false ->
                    sem_value s = Fin 0 \/
                    exists m', In m' (sem_waiters s) /\ m_fw_of s m' = Some FOk))).
  { unfold sem_locked in L. apply orb_true_iff in L. destruct L as [L|L].
    - left. apply ninf_is0_true; auto.
    - right. apply existsb_exists in L. destruct L as [w [Hw Hc]]. split.
      + intros E. rewrite E in Hw. inversion Hw.
      + intros Ht. destruct (Ji1 H w Hw) as [_ [fw [Hv Hwt]]].
        rewrite (mview_fw _ _ _ _ Hv) in Hc.
        destruct Hwt as [-> | [-> | ->]]; try discriminate.
        * apply (W Ht w Hw). apply (mview_fw _ _ _ _ Hv).
        * right. exists w. split; auto. apply (mview_fw _ _ _ _ Hv). }
  split.
  - constructor.
    + change (NoDup (sem_waiters s ++ [m])). apply NoDup_snoc; auto. apply (Jn H).
    + intros m' Hm'. change (In m' (sem_waiters s ++ [m])) in Hm'. split; [discriminate|].
      apply in_app_iff in Hm'. destruct Hm' as [Hm'|[<-|[]]].
      * assert (m <> m') by (intro; subst; tauto). rewrite Hv2 by auto.
        apply (Ji1 H); auto.
      * exists (Some f). auto.
    + intros m' f' Hv _. change (In m' (sem_waiters s ++ [m])). apply in_app_iff.
      destruct (Nat.eq_dec m m') as [<-|Hne]; [right; simpl; auto|left].
      rewrite Hv2 in Hv by auto. eapply (Ji2 H); eauto. congruence.
    + intros m' f' Hv _.
      destruct (Nat.eq_dec m m') as [<-|Hne]; [congruence|].
      rewrite Hv2 in Hv by auto. eapply (Jmap H); eauto. congruence.
    + pose proof (Jsl H) as Hs. unfold slots_k in *.
      change (sem_value (put_m s1 m x)) with (sem_value s).
      change (cap (put_m s1 m x)) with (cap s).
      assert (in_use (put_m s1 m x) = in_use s).
      { unfold in_use. change (t_running (put_m s1 m x)) with (t_running s).
        change (t_cancelled (put_m s1 m x)) with (t_cancelled s).
        change (sem_waiters (put_m s1 m x)) with (sem_waiters s ++ [m]).
        rewrite count_app. simpl. rewrite (mview_fw _ _ _ _ Hv1).
        rewrite (count_ext _ (fun m0 => match m_fw_of s m0 with Some FOk => true | _ => false end)).
        - destruct Hf; subst; lia.
        - intros y Hy. rewrite Hf2; auto. intro; subst; tauto. }
      rewrite H0. auto.
    + apply (Jcap H).
    + change (taint_size (put_m s1 m x)) with (taint_size s).
      change (sem_value (put_m s1 m x)) with (sem_value s).
      intros Ht Hv. exfalso. destruct Hlock as [E|[Hne _]]; [congruence|].
      apply Hne. apply (Jinf H); auto.
    + apply (Jlt H).
    + apply (Jd H).
  - intros Ht _ _ _.
    change (sem_value (put_m s1 m x)) with (sem_value s).
    change (taint_size (put_m s1 m x)) with (taint_size s) in Ht.
    destruct Hlock as [E|[_ Hl]]; auto.
    destruct (Hl Ht) as [E|[w [Hw Hfw']]]; auto.
    right. exists w. split.
    + change (In w (sem_waiters s ++ [m])). apply in_app_iff; auto.
    + rewrite Hf2; auto. intro; subst; tauto.
Qed.

Lemma J_finish_m s m x exc k : J s (Some m) k -> J (finish_m s m x exc) None k.
Proof.
  intros H. unfold finish_m. cbv zeta. jframe.
  apply J_put_done; auto; cbn; discriminate.
Qed.

Lemma J_try_start s m x x0 s' c :
  J s (Some m) 0 -> get_m s m = Some x0 -> try_start s m x = (s', c) ->
  (c = true -> J s' (Some m) 0 /\ get_m s' m <> None) /\ (c = false -> J s' None 0).
Proof.
  intros H G T. unfold try_start in T.
  destruct (closed s).
  { inversion T; subst. split; [discriminate|]. intros _. apply J_finish_m; auto. }
  destruct (sem_locked s) eqn:L.
  - inversion T; subst. split; [discriminate|]. intros _.
    unfold suspend_m. destruct (m_mc x); jframe.
    + eapply (J_enqueue s m _ x0 FCancelled); eauto; cbn; auto.
    + eapply (J_enqueue s m _ x0 FPending); eauto; cbn; auto.
  - inversion T; subst. split; [|discriminate]. intros _. split.
    + apply J_register. apply J_take; auto. apply sem_locked_false; auto.
    + unfold register. cbv zeta. unfold put_m, get_m. cbn [mtasks set_mtasks].
      intros E. apply nth_error_None in E. rewrite upd_length in E.
      revert E. unfold sched. destruct (is_ready _ _); cbn; intros E;
        assert (m < length (mtasks s)) by (apply nth_error_Some; unfold get_m in G; congruence);
        lia.
Qed.

(** *** the spawner's loop *)
Lemma J_apply_loop rem : forall s m, J s (Some m) 0 -> J (apply_loop rem s m) None 0.
Proof.
  induction rem as [|r IH]; intros s m H; simpl.
  - destruct (get_m s m) eqn:G; [apply J_finish_m; auto|eapply J_drop_none; eauto].
  - destruct (get_m s m) as [x|] eqn:G; [|eapply J_drop_none; eauto].
    destruct (nth (m_idx x) (m_bad x) false).
    + apply IH. jframem. auto.
    + destruct (try_start s m x) as [s' c] eqn:T.
      destruct (J_try_start _ _ _ _ _ _ H G T) as [H1 H2].
      destruct c; [apply IH; apply H1; auto|apply H2; auto].
Qed.

Lemma J_to_iter s m k : J s (Some m) k -> J (to_iter s m) None k.
Proof.
  intros H. unfold to_iter. destruct (get_m s m) eqn:G; [|eapply J_drop_none; eauto].
  jframe. apply J_put_done; auto; cbn; discriminate.
Qed.

Lemma J_spawn_next s m : J s (Some m) 0 -> J (spawn_next s m) None 0.
Proof.
  intros H. unfold spawn_next. destruct (get_m s m) eqn:G; [|eapply J_drop_none; eauto].
  destruct (m_kind m0); try apply J_apply_loop; auto. apply J_to_iter; auto.
Qed.

Lemma J_start_then_next s m x x0 :
  J s (Some m) 0 -> get_m s m = Some x0 -> J (start_then_next s m x) None 0.
Proof.
  intros H G. unfold start_then_next.
  destruct (try_start s m x) as [s' c] eqn:T.
  destruct (J_try_start _ _ _ _ _ _ H G T) as [H1 H2].
  destruct c; [apply J_spawn_next; apply H1; auto|apply H2; auto].
Qed.

Lemma notin_waiters s m x k :
  Jw s None k -> get_m s m = Some x -> m_pc x <> MWaitPool -> ~ In m (sem_waiters s).
Proof.
  intros H G Hp Hi. destruct (Ji1 H m Hi) as [_ [f [Hv _]]].
  unfold mview in Hv. rewrite G in Hv. inversion Hv. congruence.
Qed.

Lemma J_suspend_m_map s m x k : J s (Some m) k -> J (suspend_m s m x MWaitMap) None k.
Proof.
  intros H. unfold suspend_m. destruct (m_mc x); jframe; apply J_put_done; auto; cbn;
    try discriminate; intros _; unfold waiting_fut; auto.
Qed.

Lemma J_continue_m s m : J s None 0 -> J (continue_m s m) None 0.
Proof.
  intros H. unfold continue_m. destruct (get_m s m) as [x|] eqn:G; auto.
  destruct (m_pc x) eqn:P; auto.
  assert (Hn : ~ In m (sem_waiters s)).
  { eapply notin_waiters; eauto. apply H. congruence. }
  pose proof (J_add_ex _ _ _ H Hn) as H'.
  destruct (nth_error (m_els x) (m_idx x)) as [e|]; [|apply J_finish_m; auto].
  destruct (e_bad e).
  - apply J_to_iter. jframem. auto.
  - destruct (m_mapval x).
    + apply J_suspend_m_map; auto.
    + eapply J_start_then_next; eauto.
Qed.

(** *** run_m *)
Lemma J_run_m s m :
  J s None 0 ->
  (forall x, get_m s m = Some x -> m_pc x = MWaitPool -> m_fw x <> Some FPending) ->
  J (run_m s m) None 0.
Proof.
  intros H Hrdy. unfold run_m. destruct (get_m s m) as [x0|] eqn:G; auto.
  cbv zeta.
  destruct (m_pc x0) eqn:P; auto.
  - (* MNotStarted *)
    assert (Hn : ~ In m (sem_waiters s)).
    { eapply notin_waiters; eauto. apply H. congruence. }
    pose proof (J_add_ex _ _ _ H Hn) as H'.
    destruct (task_input (m_mc x0) (m_fw x0)); try (apply J_finish_m; auto).
    apply J_spawn_next. jframem. auto.
  - (* MWaitMap *)
    assert (Hn : ~ In m (sem_waiters s)).
    { eapply notin_waiters; eauto. apply H. congruence. }
    pose proof (J_add_ex _ _ _ H Hn) as H'.
    destruct (task_input (m_mc x0) (m_fw x0)); try (apply J_finish_m; auto).
    eapply J_start_then_next; eauto.
  - (* MWaitPool *)
    assert (Hv : mview s m = Some (MWaitPool, m_fw x0)).
    { unfold mview. rewrite G, P. auto. }
    assert (Hin : In m (sem_waiters s)).
    { destruct H as [H _]. eapply (Ji2 H); eauto. discriminate. }
    assert (Hwf : waiting_fut (m_fw x0)).
    { destruct H as [H _]. destruct (Ji1 H m Hin) as [_ [f [Hv' Hw]]]. congruence. }
    pose proof (Hrdy x0 eq_refl P) as Hnp.
    pose proof (mview_fw _ _ _ _ Hv) as Hfo.
    destruct (dequeue_J s m H Hin) as [D1 D2]. rewrite Hfo in D1, D2.
    set (x := set_m_mc (set_m_fw x0 None) false) in *.
    destruct Hwf as [E|[E|E]]; [congruence| |]; rewrite E in *.
    + (* woken: holds a slot *)
      specialize (D1 eq_refl).
      assert (D1' : Jw (put_m (set_sem_waiters s (remove1 m (sem_waiters s))) m x) (Some m) 1).
      { eapply Jw_framem; [|exact D1]. apply fx_put_m, framex_refl. }
      set (s1 := put_m (set_sem_waiters s (remove1 m (sem_waiters s))) m x) in *.
      destruct (m_mc x0); simpl.
      * (* cancelled while holding the slot: release *)
        apply J_finish_m. apply sem_release_J. auto.
      * apply J_spawn_next. apply J_register.
        unfold ninf_pos.
        assert (Zs : sem_value s1 = sem_value s) by reflexivity.
        destruct (ninf_is0 (sem_value s)) eqn:Z; simpl.
        -- split; auto. intros _ ? _ _. left. rewrite Zs. apply ninf_is0_true; auto.
        -- apply wake_next_J; auto.
    + (* the wait itself was cancelled *)
      assert (D2' : J (put_m (set_sem_waiters s (remove1 m (sem_waiters s))) m x) (Some m) 0).
      { jframem. apply D2. discriminate. }
      destruct (m_mc x0); simpl; apply J_finish_m; auto.
Qed.
