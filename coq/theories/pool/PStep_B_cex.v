(** Neither [C07_no_late] nor [C07_op] follows from [WF] alone: two (non-reachable) states that
    satisfy every clause of [WF].  This is why [Extra_D] and [Extra_C] (PStep_B_inv.v) are needed.
    Not used by other files. *)
From TP Require Import PSpecStep.

Ltac no_p := let t := fresh in let x := fresh in let H := fresh in
  intros t x H; destruct t; discriminate H.
Ltac mcases m H :=
  destruct m as [|m]; [injection H as <-|destruct m; discriminate H].

Definition cx_cfg : config :=
  {| cf_size := Fin 1; cf_kind := KTask; cf_bad := []; cf_w := default_w;
     cf_ecb := CbNone; cf_ccb := CbNone |}.

(** ** 1. A map consumer at its iterator's user point whose group was cancelled earlier, with a
    cancellation pending ([m_mc]) and [taint_iter = false]: [continue_m] ignores [m_mc] and
    creates a task. *)
Definition cxd_y : mtask :=
  mk_mtask (MMap 0) (GUser 0) 0 [] [{| e_bad := false; e_w := default_w |}] default_w
           CbNone CbNone MAtIter 0 None true None 1 false 0 true 1.

Definition cxd_s : state :=
  mk_state cx_cfg 0 false false [] [] [] (Fin 1) [] [] [] [] 0
           [] [cxd_y] [] [] [] (CUser (TM 0)) [] RNone [] (Fin 1) 0 false false false false 0.

Lemma cxd_WF : WF cxd_s.
Proof.
  constructor.
  - (* I1 *) constructor; cbn; auto; try constructor; try (intros t []).
  - (* I2 *) constructor; no_p.
  - (* IH *) constructor; try no_p. intros _. no_p.
  - (* I3 *) constructor; cbn; auto; try discriminate.
  - (* I4 *) constructor; cbn.
    + constructor.
    + intros m. split; [intros []|]. intros (x & Hx & Hpc). mcases m Hx. discriminate Hpc.
    + intros m x H. mcases m H. cbn. intros [Hq|Hq]; discriminate Hq.
    + intros _ m [].
  - (* I5 *) constructor.
    + cbn. constructor.
    + intros h [].
    + no_p.
    + no_p.
    + intros t x H. destruct t; discriminate H.
    + intros m x H. mcases m H. cbn. split; [intros []|].
      intros [Hq|[[Hq|Hq] _]]; discriminate Hq.
    + intros m x H. mcases m H. cbn. split; [intros [Hq|Hq]; discriminate Hq|congruence].
    + intros m x H. mcases m H. cbn. split; auto.
    + intros m x H. mcases m H. cbn. discriminate.
    + intros m x H. mcases m H. cbn. split; [congruence|discriminate].
    + no_p.
    + no_p.
    + intros d; cbn; discriminate.
    + intros t; cbn; discriminate.
    + intros m; cbn. intros [= <-]. lia.
  - (* IM *) constructor; cbn.
    + intros m x H. mcases m H. discriminate.
    + intros m [].
    + constructor.
    + constructor.
    + intros _ m x H. mcases m H. auto.
    + intros m x H. mcases m H. discriminate.
  - (* IG *) constructor.
    + intros d x g H. destruct d; discriminate H.
    + intros d x g H. destruct d; discriminate H.
    + intros d x H. destruct d; discriminate H.
    + intros d x H. destruct d; discriminate H.
    + intros d x g H. destruct d; discriminate H.
    + intros d x g H. destruct d; discriminate H.
    + intros d c [].
    + intros d x re g H. destruct d; discriminate H.
    + intros d x re H. destruct d; discriminate H.
    + intros d x re H. destruct d; discriminate H.
    + cbn. discriminate.
  - (* IR *) constructor; try no_p.
    + intros t u x y H. destruct t; discriminate H.
    + intros m y H. mcases m H. reflexivity.
    + intros m y H. mcases m H. cbn. auto.
    + intros m y H. mcases m H. exact I.
    + intros m y H. mcases m H. reflexivity.
  - (* IGr *) constructor; try no_p; cbn.
    + constructor.
    + constructor.
    + intros t [].
    + intros g ids t x H. discriminate H.
    + intros t x y H. destruct t; discriminate H.
    + intros m y H. mcases m H. discriminate.
Qed.

Theorem C07_no_late_not_from_WF :
  exists s l, WF s /\ clean (step s l) /\ ~ C07_no_late s (step s l).
Proof.
  exists cxd_s, LGo. split; [apply cxd_WF|]. split; [reflexivity|]. intros H.
  assert (Hy' : exists y', get_m (step cxd_s LGo) 0 = Some y' /\ m_ncreated y' = 1).
  { eexists. split; vm_compute; reflexivity. }
  destruct Hy' as (y' & Hy' & Hn).
  destruct (H eq_refl 0 cxd_y y' eq_refl eq_refl Hy') as (Hc & _).
  rewrite Hn in Hc. discriminate Hc.
Qed.

(** ** 2. An (unstarted, already dead) spawner of group [user-0] filed under [gmeta[user-1]]:
    cancelling group [user-1] requests its cancellation too. *)
Definition cxc_y : mtask :=
  mk_mtask MApply (GUser 0) 1 [] [] default_w CbNone CbNone MNotStarted 0 None
           false None 0 false 0 true 0.

Definition cxc_s : state :=
  mk_state cx_cfg 0 false false [] [] [] (Fin 1) [] [(GUser 1, [])] [(GUser 1, [0])] [] 0
           [] [cxc_y] [] [] [HT (TM 0)] CIdle [] RNone [] (Fin 1) 0 false true false false 0.

Lemma cxc_WF : WF cxc_s.
Proof.
  constructor.
  - (* I1 *) constructor; cbn; auto; try constructor; try (intros t []).
  - (* I2 *) constructor; no_p.
  - (* IH *) constructor; try no_p. intros _. no_p.
  - (* I3 *) constructor; cbn; auto; try discriminate.
  - (* I4 *) constructor; cbn.
    + constructor.
    + intros m. split; [intros []|]. intros (x & Hx & Hpc). mcases m Hx. discriminate Hpc.
    + intros m x H. mcases m H. cbn. intros [Hq|Hq]; discriminate Hq.
    + intros _ m [].
  - (* I5 *) constructor.
    + cbn. constructor; [intros []|constructor].
    + intros h [<-|[]]. cbn. lia.
    + no_p.
    + no_p.
    + intros t x H. destruct t; discriminate H.
    + intros m x H. mcases m H. cbn. split; auto.
    + intros m x H. mcases m H. cbn. split; [intros [Hq|Hq]; discriminate Hq|congruence].
    + intros m x H. mcases m H. cbn. split; discriminate.
    + intros m x H. mcases m H. cbn. discriminate.
    + intros m x H. mcases m H. cbn. split; [congruence|discriminate].
    + no_p.
    + no_p.
    + intros d; cbn; discriminate.
    + intros t; cbn; discriminate.
    + intros m; cbn; discriminate.
  - (* IM *) constructor; cbn.
    + intros m x H. mcases m H. discriminate.
    + intros m [<-|[]]. lia.
    + constructor; [intros []|constructor].
    + constructor; [intros []|constructor].
    + discriminate.
    + intros m x H. mcases m H. discriminate.
  - (* IG *) constructor.
    + intros d x g H. destruct d; discriminate H.
    + intros d x g H. destruct d; discriminate H.
    + intros d x H. destruct d; discriminate H.
    + intros d x H. destruct d; discriminate H.
    + intros d x g H. destruct d; discriminate H.
    + intros d x g H. destruct d; discriminate H.
    + intros d c [Hq|[]]. discriminate Hq.
    + intros d x re g H. destruct d; discriminate H.
    + intros d x re H. destruct d; discriminate H.
    + intros d x re H. destruct d; discriminate H.
    + cbn. discriminate.
  - (* IR *) constructor; try no_p.
    + intros t u x y H. destruct t; discriminate H.
    + intros m y H. mcases m H. reflexivity.
    + intros m y H. mcases m H. cbn. auto.
    + intros m y H. mcases m H. exact I.
    + intros m y H. mcases m H. cbn. auto.
  - (* IGr *) constructor; try no_p; cbn.
    + constructor; [intros []|constructor].
    + constructor.
    + intros t [].
    + intros g ids t x H Hin Hx. destruct t; discriminate Hx.
    + intros t x y H. destruct t; discriminate H.
    + intros m y H. mcases m H. discriminate.
Qed.

Theorem C07_op_not_from_WF : exists s g, WF s /\ res s = RNone /\ ~ C07_op s g.
Proof.
  exists cxc_s, (GUser 1). split; [apply cxc_WF|]. split; [reflexivity|]. intros H.
  destruct (c07_known _ _ H [] eq_refl) as (_ & _ & _ & _ & _ & Hm & _).
  specialize (Hm 0 cxc_y eq_refl ltac:(discriminate)).
  assert (Hy' : exists y', get_m (do_op cxc_s (OpCancelGroup (GUser 1))) 0 = Some y' /\
                           m_mc y' = true).
  { eexists. split; vm_compute; reflexivity. }
  destruct Hy' as (y' & Hy' & Hmc). rewrite Hm in Hy'. injection Hy' as <-. discriminate Hmc.
Qed.
