(** Monitor soundness, C09 — the model side:
    (1) [closed] only changes in the step in which a gather_and_close driver logs
        [EvDriverDone d OResult];
    (2) a generated group name is free;
    (3) the result of a spawn request, as a function [mexp] of the state before. *)
From TP Require Import PInv PInv_P_base PInv_P PSpecStep PStep_B_c09 PStep_C_drv
  PStep_D_base PStep_D_k PStep_D_drv PStep_D PMon PMonSound_kn PMonSound_C06_mod PMonSound_C06
  PMonSound_C07.
From Coq Require Import Lia FinFun.
Import ListNotations.

(** ** (1) closed *)
Definition CL (d : nat) (k : dkind) (s s' : state) : Prop :=
  closed s' = closed s \/
  (closed s' = true /\ (exists re, k = DGatherClose re) /\
   In (EvDriverDone d OResult) (evs s')).

Lemma CL_finish_d s s1 d k x e : closed s1 = closed s -> CL d k s (finish_d s1 d x e).
Proof. intros H. left. exact H. Qed.

Lemma CL_after_g2 s0 s d x outer :
  closed s = closed s0 -> CL d (d_kind x) s0 (after_g2 s d x outer).
Proof.
  intros H. unfold after_g2.
  assert (Hgac : forall kd re, kd = DGatherClose re ->
    CL d kd s0
       (let n := length (t_ended s) + length (t_cancelled s) + length (t_running s) in
        let s1 := set_n_forgotten (set_t_running (set_t_cancelled (set_t_ended s []) []) [])
                                  (n_forgotten s + n) in
        let s2 := set_closed s1 true in
        let s3 := wake_closed s2 (closed_waiters s2) in
        finish_d s3 d x None)).
  { intros kd re Ek. cbv zeta. right. split; [|split].
    - match goal with |- closed (finish_d ?a _ _ _) = _ =>
        change (closed a = true) end.
      match goal with |- closed (wake_closed ?a ?b) = _ =>
        destruct (wake_closed_frame b a) as (_ & _ & E & _); rewrite E end.
      reflexivity.
    - eauto.
    - rewrite ev_finish_d, in_app_iff. right. left. reflexivity. }
  destruct outer; try (now apply CL_finish_d); destruct (d_kind x) eqn:Ek;
    try (now apply CL_finish_d); try (apply (Hgac _ re eq_refl)).
Qed.

Lemma CL_start_g2 s0 s d x cs re :
  closed s = closed s0 -> CL d (d_kind x) s0 (start_g2 s d x cs re).
Proof.
  intros H. unfold start_g2. destruct (make_gather _ _ _) as [g outer].
  destruct outer;
    try (apply (CL_after_g2 s0 s d (set_d_snap (set_d_g2 x (Some g)) cs)); exact H).
  left. exact H.
Qed.

Lemma CL_after_g1 s0 s d x outer :
  closed s = closed s0 -> CL d (d_kind x) s0 (after_g1 s d x outer).
Proof.
  intros H. unfold after_g1. destruct (d_kind x) eqn:Ek; rewrite <- Ek.
  - assert (Hgo : forall cs, CL d (d_kind x) s0 (start_g2 (set_meta_cancelled s []) d x cs re))
      by (intros cs; apply (CL_start_g2 s0 (set_meta_cancelled s []) d x cs re H)).
    destruct outer as [| |e|]; auto. destruct e; auto using CL_finish_d.
  - destruct (if re then None else _); [now apply CL_finish_d|].
    apply (CL_start_g2 s0 (set_gmeta (set_meta_cancelled s []) []) d x _ re H).
  - now apply CL_finish_d.
Qed.

Lemma CL_start_g1 s0 s d x cs re :
  closed s = closed s0 -> CL d (d_kind x) s0 (start_g1 s d x cs re).
Proof.
  intros H. unfold start_g1. destruct (make_gather _ _ _) as [g outer].
  destruct outer; try (apply (CL_after_g1 s0 s d (set_d_g1 x (Some g))); exact H).
  left. exact H.
Qed.

Lemma CL_run_d s d x0 : get_d s d = Some x0 -> CL d (d_kind x0) s (run_d s d).
Proof.
  intros Hx. unfold run_d. rewrite Hx. destruct (d_pc x0).
  - change (d_kind x0) with (d_kind (set_d_fw x0 None)).
    destruct (d_kind (set_d_fw x0 None)) eqn:Ek; rewrite <- Ek.
    + destruct (pop_ended s (gmeta s)) as [gm ended].
      apply (CL_start_g1 s (set_gmeta s gm) d (set_d_fw x0 None)). reflexivity.
    + apply (CL_start_g1 s (set_locked s true) d (set_d_fw x0 None)). reflexivity.
    + destruct (closed s) eqn:Ec; [apply CL_finish_d; reflexivity|]. left. reflexivity.
  - apply (CL_after_g1 s s d (set_d_fw x0 None)). reflexivity.
  - apply (CL_after_g2 s s d (set_d_fw x0 None)). reflexivity.
  - apply CL_finish_d. reflexivity.
  - left. reflexivity.
Qed.

Lemma closed_sched s h : closed (sched s h) = closed s.
Proof. unfold sched. destruct (is_ready s h); reflexivity. Qed.

Lemma closed_run_g s d c : closed (run_g s d c) = closed s.
Proof. unfold run_g. repeat (first [reflexivity | rewrite closed_sched | dmatch]). Qed.

#[local] Arguments I2_final {s}. #[local] Arguments wf2 {s}.

(** [closed] changes only when a gather_and_close driver returns normally *)
Lemma closed_step s l :
  WF s -> Extra_D s ->
  closed (step s l) = closed s \/
  (closed (step s l) = true /\
   exists d x re, l = LRun (HT (TD d)) /\ get_d s d = Some x /\ d_kind x = DGatherClose re /\
                  In (EvDriverDone d OResult) (evs (step s l))).
Proof.
  intros W ED.
  pose proof (K_init s ED) as K0.
  assert (Hnd : forall t y, get_p s t = Some y -> p_pc y <> PDone -> p_final y = None).
  { intros t y G Hp. destruct (p_final y) eqn:F; auto. exfalso. apply Hp.
    apply (I2_final (wf2 W) t y G). congruence. }
  unfold step. cbv zeta.
  set (s' := set_res (set_evs s []) RNone).
  assert (K' : K s s') by (unfold s'; ks; exact K0).
  destruct (negb (enabled s' l)) eqn:En; [left; reflexivity|].
  apply negb_false_iff in En.
  destruct l as [h| |o].
  - assert (KU : K s (unsched s' h)) by (ks; exact K').
    destruct h as [[t|m|d]|d c]; cbn [run_handle].
    + left. apply (k_c (K_run_p s _ t KU (Hnd t))).
    + left. apply (k_c (K_run_m s _ m KU)).
    + destruct (get_d s d) as [x0|] eqn:Hx0.
      * destruct (CL_run_d (unsched s' (HT (TD d))) d x0 Hx0) as [E|(E & (re & Hk) & Hin)].
        -- left. exact E.
        -- right. split; [exact E|]. exists d, x0, re. auto.
      * left. unfold run_d. change (get_d (unsched s' (HT (TD d))) d) with (get_d s d).
        rewrite Hx0. reflexivity.
    + left. rewrite closed_run_g. reflexivity.
  - left. change (ctl s') with (ctl s). destruct (ctl s) as [|[t|m|d]]; try reflexivity.
    + apply (k_c (K_continue_p s _ t K' (Hnd t))).
    + apply (k_c (K_continue_m s _ m K')).
  - left. cbn [enabled] in En.
    destruct o; try (apply (k_c (K_do_op s s' _ K' En I))).
    unfold do_op. rewrite closed_sched. destruct k; reflexivity.
Qed.

(** ** (2) generated names are free *)
Lemma find_free_spec meth gs : forall fuel i,
  ghas (GGen meth (find_free meth gs fuel i)) gs = false \/
  (forall n, i <= n < i + fuel -> ghas (GGen meth n) gs = true).
Proof.
  induction fuel as [|f IH]; intros i; simpl.
  - right. intros n Hn. lia.
  - destruct (ghas (GGen meth i) gs) eqn:E; [|left; exact E].
    destruct (IH (S i)) as [H|H]; [left; exact H|].
    right. intros n Hn. destruct (Nat.eq_dec n i) as [->|Hne]; [exact E|]. apply H. lia.
Qed.

Lemma ghas_In g gs : ghas g gs = true -> In g (map fst gs).
Proof.
  unfold ghas. destruct (glookup g gs) as [ids|] eqn:E; [|discriminate]. intros _.
  apply glookup_In in E. apply in_map_iff. exists (g, ids). auto.
Qed.

Lemma find_free_free meth gs :
  ghas (GGen meth (find_free meth gs (S (length gs)) 0)) gs = false.
Proof.
  destruct (find_free_spec meth gs (S (length gs)) 0) as [H|H]; [exact H|]. exfalso.
  assert (Hnd : NoDup (map (GGen meth) (seq 0 (S (length gs))))).
  { apply Injective_map_NoDup; [|apply seq_NoDup]. intros a b Hab. congruence. }
  assert (Hincl : incl (map (GGen meth) (seq 0 (S (length gs)))) (map fst gs)).
  { intros g Hg. apply in_map_iff in Hg. destruct Hg as (n & <- & Hn). apply in_seq in Hn.
    apply ghas_In, H. lia. }
  pose proof (NoDup_incl_length Hnd Hincl) as Hl. rewrite !map_length, seq_length in Hl. lia.
Qed.

Lemma gen_name_fresh s meth : ghas (gen_name s meth) (groups s) = false.
Proof. unfold gen_name. apply find_free_free. Qed.

(** ** (3) spawn requests *)
Definition mexp (s : state) (noncoro nc_bad : bool) (g : option gname) : option errclass :=
  if noncoro then Some ErrNotCoroutineFunction
  else if closed s then Some ErrPoolIsClosed
  else if locked s then Some ErrPoolIsLocked
  else if nc_bad then Some ErrValueError
  else match g with
       | Some n => if ghas n (groups s) then Some ErrGroupExists else None
       | None => None
       end.

Definition spawn_res (s : state) (og : option gname) (noncoro nc_bad : bool) (s' : state)
  : Prop :=
  match mexp s noncoro nc_bad og with
  | Some e => s' = set_res (kn s og) (RErr e)
  | None => exists n, res s' = RName n
  end.

Lemma apply_res s num bad noncoro w ecb ccb og :
  spawn_res s og noncoro false (do_op s (OpApply num bad noncoro w ecb ccb og)).
Proof.
  unfold spawn_res. rewrite do_apply_eq. cbv zeta. rewrite check_start_kn, groups_kn.
  unfold mexp, check_start.
  destruct noncoro; [reflexivity|]. destruct (closed s); [reflexivity|].
  destruct (locked s); [reflexivity|].
  destruct og as [g|]; cbn [kn].
  - destruct (ghas g (groups s)); [reflexivity|]. eexists. reflexivity.
  - rewrite gen_name_fresh. eexists. reflexivity.
Qed.

Lemma map_res s stars els nc noncoro ecb ccb og :
  spawn_res s og noncoro (Nat.eqb nc 0) (do_op s (OpMap stars els nc noncoro ecb ccb og)).
Proof.
  unfold spawn_res. rewrite do_map_eq. cbv zeta. rewrite check_start_kn, groups_kn.
  unfold mexp, check_start.
  destruct noncoro; [reflexivity|]. destruct (closed s); [reflexivity|].
  destruct (locked s); [reflexivity|]. destruct (Nat.eqb nc 0); [reflexivity|].
  destruct og as [g|]; cbn [kn].
  - destruct (ghas g (groups s)); [reflexivity|]. eexists. reflexivity.
  - rewrite gen_name_fresh. eexists. reflexivity.
Qed.

Lemma start_res s num : spawn_res s None false false (do_op s (OpStart num)).
Proof.
  unfold spawn_res, do_op, mexp, check_start.
  destruct (closed s); [reflexivity|]. destruct (locked s); [reflexivity|].
  eexists. reflexivity.
Qed.

(** a rejected request changes nothing an observer can see *)
Lemma same_public_kn s og r l l' en en' :
  same_public (obs_of s l en) (obs_of (set_res (kn (pre s) og) r) l' en') = true.
Proof.
  destruct og as [g|]; cbn [kn]; [apply same_public_know|].
  apply same_public_incl; try reflexivity. apply incl_refl.
Qed.
