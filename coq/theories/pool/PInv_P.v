(** Preservation of the layers I1, I2, IH of WF (PInv.v).

    I1 is inductive relative to WF as stated.  I2 and IH need three facts that no clause of WF
    provides ([Extra_P]): (a) a pool task's awaited future never holds an exception
    ([p_fw x <> Some (FExc e)]); (b) while [taint_self] is unset no task carries a stored
    CancelledError and a task at the start of a final worker segment has no pending
    [_must_cancel]; (c) a driver waiting on its second gather has a future ([d_fw x <> None]).
    [Extra_P] is itself inductive relative to WF ([Extra_P_init], [Extra_P_step]). *)
From TP Require Import PInv PInv_P_base PInv_P_view PInv_P_inv PInv_P_tok PInv_P_tok2
  PInv_P_leaf PInv_P_chain PInv_P_step PInv_P_ed.
From TP Require Export PInv_P_mono.  (* clean_step_inv, taint_self_step_inv *)

Definition Extra_P (s : state) : Prop := ExtraT s /\ ExtraD s.

(** ** init *)
Lemma get_p_init c t : get_p (init c) t = None.
Proof. unfold get_p. cbn. now destruct t. Qed.

Lemma I1_init : forall c, I1 (init c).
Proof. intros c. constructor; cbn; auto. constructor. intros t []. Qed.

Lemma I2_init : forall c, I2 (init c).
Proof. intros c. constructor; intros t x H; rewrite get_p_init in H; discriminate. Qed.

Lemma IH_init : forall c, IH (init c).
Proof. intros c. constructor; intros; rewrite get_p_init in *; discriminate. Qed.

Lemma Extra_P_init : forall c, Extra_P (init c).
Proof.
  intros c. split; [split|]; intros; try (rewrite get_p_init in *; discriminate).
  intros d x H. unfold get_d in H. cbn in H. now destruct d.
Qed.

(** ** step *)
Definition pre (s : state) : state := set_res (set_evs s []) RNone.

Lemma I1_after_g2 s d x outer : I1 s -> I1 (after_g2 s d x outer).
Proof.
  intros H. apply I1_iff, I1v_core. change (I1v (pcore (after_g2 s d x outer))).
  rewrite pc_after_g2. apply I1v_core, I1v_after_g2, I1_iff, H.
Qed.

Lemma I1_step : forall s l, WF s -> clean (step s l) -> I1 (step s l).
Proof.
  intros s l W _. pose proof (wf1 _ W) as H.
  assert (H1 : I1 (pre s)) by (eapply I1_pv; [|exact H]; reflexivity).
  unfold step. fold (pre s). destruct (negb (enabled (pre s) l)); auto.
  destruct l as [h| |o].
  - assert (H2 : I1 (unsched (pre s) h)) by (eapply I1_pv; [apply pv_unsched|exact H1]).
    destruct h as [[t|m|d]|d c]; cbn [run_handle].
    + now apply I1_run_p.
    + apply (Q_run_m I1 (Qpc_Qpv _ I1_Qpc) I1_Qreg); auto.
    + apply (Q_run_d I1 I1_Qpc I1_Qag2); auto.
      intros x0 _ _. now apply I1_after_g2.
    + eapply I1_Qpc; [apply pc_run_g|auto].
  - destruct (ctl (pre s)) as [|[t|m|d]]; auto.
    + now apply I1_continue_p.
    + apply (Q_continue_m I1 (Qpc_Qpv _ I1_Qpc) I1_Qreg); auto.
  - now apply I1_do_op.
Qed.

Lemma tref_eqb_eq a b : tref_eqb a b = true -> a = b.
Proof. destruct a, b; cbn; try discriminate; intros H; apply Nat.eqb_eq in H; congruence. Qed.

Lemma hid_eqb_eq a b : hid_eqb a b = true -> a = b.
Proof.
  destruct a, b; cbn; try discriminate.
  - intros H. apply tref_eqb_eq in H. congruence.
  - intros H. apply andb_true_iff in H. destruct H as [H1 H2].
    apply Nat.eqb_eq in H1. apply tref_eqb_eq in H2. congruence.
Qed.

Lemma is_ready_In s h : is_ready s h = true -> In h (ready s).
Proof.
  unfold is_ready. rewrite existsb_exists. intros (x & Hin & He).
  apply hid_eqb_eq in He. congruence.
Qed.

(** the precondition of [after_g2] when a ready driver resumes from its second gather *)
Lemma ag2pre_ready s d x0 :
  WF s -> ExtraD s -> In (HT (TD d)) (ready s) -> get_d s d = Some x0 -> d_pc x0 = DWaitG2 ->
  ag2pre_s s (set_d_fw x0 None) (match d_fw x0 with Some f => f | None => FOk end).
Proof.
  intros W ED Hr Hx Hpc h1 h2.
  pose proof (ED d x0 Hx Hpc) as Hfw.
  destruct (d_fw x0) as [f|] eqn:Ef; [|congruence].
  destruct f as [| |e|]; try congruence.
  - exfalso. apply (I5_d _ (wf5 _ W) d x0 Hx) in Hr. destruct Hr as [Hr|[_ Hr]]; congruence.
  - destruct (IG_has2 _ (wfg _ W) d x0 Hx Hpc) as (g & Hg & Hch).
    pose proof (IG_ok2 _ (wfg _ W) d x0 g Hx Hpc Ef Hg) as Hok.
    split.
    + cbn [d_snap set_d_fw]. intros t Ht.
      assert (Hin : In (TP t) (g_children g)) by (rewrite Hch; now apply in_map).
      apply Hok in Hin. unfold tref_done, tref_final in Hin.
      destruct (get_p s t) as [y|]; [|discriminate]. exists y. split; auto.
      destruct (p_final y); [discriminate|discriminate].
    + cbn [d_snap d_kind set_d_fw]. intros re Hk.
      apply (IG_gac2 _ (wfg _ W) d x0 re Hx Hk Hpc).
Qed.

Lemma PI_step s l : WF s -> Extra_P s -> PI (step s l).
Proof.
  intros W [ET ED].
  assert (HPI : PI s).
  { split; [apply I1_iff, (wf1 _ W)|apply TOK_intro; auto using (wf2 _ W), (wfh _ W)]. }
  assert (HPU : PU s).
  { intros t x Hx Hp. apply (I5_puser _ (wf5 _ W) t x Hx). exact Hp. }
  assert (Hfw : forall t x, get_p s t = Some x -> pfwc x).
  { intros t x Hx. apply (I5_pfw _ (wf5 _ W) t x Hx). }
  assert (HCI : CI (pre s)) by (eapply CI_same; [| |split; eauto]; reflexivity).
  unfold step. fold (pre s). destruct (negb (enabled (pre s) l)) eqn:En; [apply HCI|].
  apply negb_false_iff in En.
  destruct l as [h| |o].
  - assert (H2 : PI (unsched (pre s) h)).
    { eapply PI_Qpc; [apply pcore_of_pview, pv_unsched|apply HCI]. }
    cbn [enabled] in En. destruct (ctl (pre s)); [|discriminate].
    apply is_ready_In in En. change (In h (ready s)) in En.
    destruct h as [[t|m|d]|d c]; cbn [run_handle].
    + apply PI_run_p; auto. intros x Hx. apply (Hfw t x). exact Hx.
    + apply (Q_run_m PI (Qpc_Qpv _ PI_Qpc) PI_Qreg); auto.
    + apply (Q_run_d PI PI_Qpc PI_Qag2); auto.
      intros x0 Hx Hpc. apply PI_Qag2; auto.
      change (get_d s d = Some x0) in Hx.
      pose proof (ag2pre_ready s d x0 W ED En Hx Hpc) as Hp.
      exact Hp.
    + eapply PI_Qpc; [apply pc_run_g|auto].
  - destruct (ctl (pre s)) as [|[t|m|d]]; try apply HCI.
    + apply PI_continue_p; [apply HCI|]. intros x Hx. apply (Hfw t x). exact Hx.
    + apply (Q_continue_m PI (Qpc_Qpv _ PI_Qpc) PI_Qreg); apply HCI.
  - now apply PI_do_op.
Qed.

Lemma ED_step s l : ExtraD s -> ExtraD (step s l).
Proof.
  intros H.
  assert (H1 : ExtraD (pre s)) by (eapply ED_dt; [|exact H]; reflexivity).
  unfold step. fold (pre s). destruct (negb (enabled (pre s) l)); auto.
  destruct l as [h| |o].
  - assert (H2 : ExtraD (unsched (pre s) h)) by (eapply ED_dt; [|exact H1]; reflexivity).
    destruct h as [[t|m|d]|d c]; cbn [run_handle].
    + eapply ED_dt; [apply dt_run_p|auto].
    + apply (Q_run_m ExtraD ED_Qpv ED_Qreg); auto.
    + now apply ED_run_d.
    + now apply ED_run_g.
  - destruct (ctl (pre s)) as [|[t|m|d]]; auto.
    + eapply ED_dt; [apply dt_continue_p|auto].
    + apply (Q_continue_m ExtraD ED_Qpv ED_Qreg); auto.
  - now apply ED_do_op.
Qed.

Lemma I2_step : forall s l, WF s -> Extra_P s -> clean (step s l) -> I2 (step s l).
Proof. intros s l W E _. destruct (PI_step s l W E) as [_ H]. apply TOK_elim in H. tauto. Qed.

Lemma IH_step : forall s l, WF s -> Extra_P s -> clean (step s l) -> IH (step s l).
Proof. intros s l W E _. destruct (PI_step s l W E) as [_ H]. apply TOK_elim in H. tauto. Qed.

Lemma Extra_P_step : forall s l, WF s -> Extra_P s -> clean (step s l) -> Extra_P (step s l).
Proof.
  intros s l W E _. split.
  - destruct (PI_step s l W E) as [_ H]. apply TOK_elim in H. tauto.
  - apply ED_step, E.
Qed.

(** Audit *)
