(** Extra invariant, part 8: when the pool closes every live spawner is dead. *)
From TP Require Export PInv_Q_x7.
Set Implicit Arguments. Unset Strict Implicit.

Definition ge_outer (r : nat * fut * list tref) : fut := snd (fst r).

Lemma gather_eager_lt s cs : forall n nfin cbs,
  nfin + length cs < n -> ge_outer (gather_eager s cs true n nfin FPending cbs) = FPending.
Proof.
  induction cs as [|c t IH]; intros n nfin cbs Hlt; cbn [gather_eager length] in *; auto.
  destruct (tref_final s c) as [o|].
  - change (gather_cb true n o nfin FPending)
      with (S nfin, if Nat.eqb (S nfin) n then FOk else FPending).
    cbv iota beta. destruct (Nat.eqb_spec (S nfin) n) as [E|E]; [lia|].
    apply IH. lia.
  - apply IH. lia.
Qed.

Lemma gather_eager_pending s cs : forall n nfin cbs,
  nfin + length cs <= n -> (exists c, In c cs /\ tref_final s c = None) ->
  ge_outer (gather_eager s cs true n nfin FPending cbs) = FPending.
Proof.
  induction cs as [|c t IH]; intros n nfin cbs Hle [c0 [Hin Hnf]];
    cbn [gather_eager length In] in *; [tauto|].
  destruct (tref_final s c) as [o|] eqn:Hc.
  - destruct Hin as [->|Hin]; [congruence|].
    assert (1 <= length t) by (destruct t; simpl in *; [tauto|lia]).
    change (gather_cb true n o nfin FPending)
      with (S nfin, if Nat.eqb (S nfin) n then FOk else FPending).
    cbv iota beta. destruct (Nat.eqb_spec (S nfin) n) as [E|E]; [lia|].
    apply IH; eauto. lia.
  - apply gather_eager_lt. lia.
Qed.

Lemma make_gather_done s cs :
  snd (make_gather s cs true) <> FPending -> forall c, In c cs -> tref_final s c <> None.
Proof.
  intros H c Hin Hnf. apply H. unfold make_gather. destruct cs as [|c0 t]; [destruct Hin|].
  pose proof (@gather_eager_pending s (c0 :: t) (length (c0 :: t)) 0 [] (le_n _)
                (ex_intro _ c (conj Hin Hnf))) as E.
  unfold ge_outer in E.
  destruct (gather_eager s (c0 :: t) true (length (c0 :: t)) 0 FPending []) as [[a b] cc].
  simpl in *. exact E.
Qed.

(** where [closed] can become true *)
Lemma after_g2_closed s d x o :
  closed (after_g2 s d x o) = true -> closed s = true \/ exists re, d_kind x = DGatherClose re.
Proof.
  unfold after_g2. destruct o; autorewrite with fr; auto;
    destruct (d_kind x); autorewrite with fr; cbn; eauto.
Qed.

Lemma start_g2_closed s d x cs re :
  closed (start_g2 s d x cs re) = true -> closed s = true \/ exists re, d_kind x = DGatherClose re.
Proof.
  unfold start_g2. destruct (make_gather s (map TP cs) re) as [g o].
  destruct o; try (intros H; apply after_g2_closed in H; exact H).
  cbn. autorewrite with fr. auto.
Qed.

Lemma after_g1_closed s d x o :
  closed (after_g1 s d x o) = true -> closed s = true \/ exists re, d_kind x = DGatherClose re.
Proof.
  unfold after_g1. destruct (d_kind x) eqn:K.
  - destruct o as [| |[]|]; autorewrite with fr; auto;
      intros H; apply start_g2_closed in H; destruct H as [H|[re0 H]]; auto; congruence.
  - eauto.
  - autorewrite with fr. auto.
Qed.

Lemma start_g1_closed s d x cs re :
  closed (start_g1 s d x cs re) = true ->
  closed s = true \/
  ((exists re', d_kind x = DGatherClose re') /\ snd (make_gather s (map TM cs) re) <> FPending).
Proof.
  unfold start_g1. destruct (make_gather s (map TM cs) re) as [g o]. simpl.
  destruct o; try (intros H; apply after_g1_closed in H; destruct H as [H|H]; auto;
                   right; split; auto; discriminate).
  cbn. autorewrite with fr. auto.
Qed.

Lemma run_d_closed s d :
  closed (run_d s d) = true ->
  closed s = true \/
  exists x re, get_d s d = Some x /\ d_kind x = DGatherClose re /\
    (d_pc x = DWaitG2 \/ d_pc x = DWaitG1 \/
     (d_pc x = DNotStarted /\
      snd (make_gather (set_locked s true)
             (map TM (meta_cancelled s ++ concat (map snd (gmeta s)))) true) <> FPending)).
Proof.
  unfold run_d. destruct (get_d s d) as [x0|] eqn:Hx; auto. cbv zeta.
  destruct (d_pc x0) eqn:Hpc.
  - cbn [d_kind set_d_fw]. destruct (d_kind x0) eqn:K.
    + destruct (pop_ended s (gmeta s)) as [gm ended]. intros H.
      apply start_g1_closed in H. destruct H as [H|[[re' H] _]]; auto. cbn in H. congruence.
    + intros H. apply start_g1_closed in H. destruct H as [H|[_ H]]; auto.
      right. exists x0, re. split; [reflexivity|]. split; [exact K|]. right; right.
      split; [exact Hpc|exact H].
    + destruct (closed s) eqn:Ec; auto. frw. rewrite Ec. auto.
  - intros H. apply after_g1_closed in H. destruct H as [H|[re H]]; auto.
    right. exists x0, re. cbn in H. auto 10.
  - intros H. apply after_g2_closed in H. destruct H as [H|[re H]]; auto.
    right. exists x0, re. cbn in H. auto 10.
  - frw. auto.
  - auto.
Qed.

Lemma tref_final_TM s m : tref_final s (TM m) = match get_m s m with Some y => m_final y | None => None end.
Proof. reflexivity. Qed.

Lemma meta_in_concat s m g : meta_in_group s m g -> In m (concat (map snd (gmeta s))).
Proof. intros [ms [Hl Hi]]. eapply (@glookup_gcat g (gmeta s) ms m); eauto. Qed.

Lemma closing_all_dead s sb d :
  WF s -> Extra_IR s -> eqf s sb -> In (HT (TD d)) (ready s) ->
  closed (run_d sb d) = true -> closed s = false ->
  forall m y, get_m s m = Some y -> m_final y = None -> m_dead y = true.
Proof.
  intros HW HX He Hr Hc Hcl m y Hy Hl.
  destruct (m_dead y) eqn:Hd; auto. exfalso.
  apply run_d_closed in Hc. rewrite (ef_c He) in Hc. destruct Hc as [Hc|[x [re [Hx [Hk Hcase]]]]]; [congruence|].
  unfold get_d in Hx. rewrite (ef_d He) in Hx. fold (get_d s d) in Hx.
  destruct Hcase as [Hp|[Hp|[Hp Hg]]].
  - destruct (IG_gac2 _ (wfg _ HW) _ _ _ Hx Hk Hp) as [_ [H _]].
    rewrite (H _ _ Hy Hl) in Hd. discriminate.
  - destruct (d_g1 x) as [g|] eqn:Hg1.
    2:{ apply (IG_has1 _ (wfg _ HW) _ _ Hx Hp). auto. }
    destruct (X_gac HX Hx Hk Hp) as [[Hf|Hf] _].
    + apply (I5_d _ (wf5 _ HW) _ _ Hx) in Hr. destruct Hr as [Hr|[_ Hr]]; congruence.
    + destruct (IG_gac1 _ (wfg _ HW) _ _ _ _ Hx Hk Hp Hg1) as [_ Hin].
      pose proof (IG_ok1 _ (wfg _ HW) _ _ _ Hx Hp Hf Hg1 _ (Hin _ _ Hy Hl Hd)) as Hdone.
      unfold tref_done in Hdone. rewrite tref_final_TM, Hy, Hl in Hdone. discriminate.
  - pose proof (IM_reg _ (wfm _ HW) _ _ Hy Hl Hd) as Hreg. apply meta_in_concat in Hreg.
    rewrite (ef_mcn He), (ef_gm He) in Hg.
    eapply (make_gather_done Hg) with (c := TM m).
    + apply in_map. apply in_app_iff. auto.
    + rewrite tref_final_TM. unfold get_m. cbn. rewrite (ef_m He). fold (get_m s m).
      rewrite Hy. exact Hl.
Qed.

Lemma Extra_run_d s sb d :
  WF s -> Extra_IR s -> eqf s sb -> ctl s = CIdle -> In (HT (TD d)) (ready s) ->
  Extra_IR (run_d sb d).
Proof.
  intros HW HX He Hctl Hr. destruct (Extra_parts HX) as [A [B C]].
  assert (Em : mtasks (run_d sb d) = mtasks s) by (rewrite run_d_mtasks; apply (ef_m He)).
  assert (Et : taint_iter (run_d sb d) = taint_iter s)
    by (rewrite run_d_taint_iter; apply (ef_t He)).
  apply Extra_of_parts.
  - intros m y Hy. unfold get_m in Hy. rewrite Em in Hy. fold (get_m s m) in Hy.
    destruct (A _ _ Hy) as [P [Q1 [Q2 Q3]]]. unfold xs_ok. rewrite Et.
    split; [|split; [|split]]; auto.
    intros Hc Hl. destruct (closed s) eqn:Hcl; [apply Q3; auto|].
    split.
    + eapply closing_all_dead; eauto.
    + intros Hpc. apply (I5_muser _ (wf5 _ HW) _ _ Hy) in Hpc. congruence.
  - eapply xfile_gsub; [exact Em| |exact B].
    eapply gsub_trans; [apply run_d_gsub|]. rewrite (ef_gm He). apply gsub_refl.
  - apply xgac_run_d. eapply xgac_same; [|exact C]. apply (ef_d He).
Qed.
