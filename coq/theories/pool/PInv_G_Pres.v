(** Generic preservation: what follows from the summary relations. *)
From TP Require Export PInv_G_A.

Lemma gvF_mono_false s s' c : gvF s s' -> tref_done s' c = false -> tref_done s c = false.
Proof.
  intros G H. destruct (tref_done s c) eqn:E; auto. apply (gv_mono _ _ G) in E. congruence.
Qed.

Lemma get_d_gvF s s' d : gvF s s' -> get_d s' d = get_d s d.
Proof. intros G. unfold get_d. rewrite (gv_d _ _ G). reflexivity. Qed.

Lemma gather_has_cb_true g c :
  gather_has_cb g c = true <-> exists x, g = Some x /\ In c (g_cb x).
Proof.
  unfold gather_has_cb. destruct g as [x|].
  - rewrite existsb_tref_In. split; [eauto|]. intros [y [E H]]. inversion E; subst; auto.
  - split; [discriminate|]. intros [y [E _]]. discriminate.
Qed.

Lemma cbs_of_In0 s d c x :
  get_d s d = Some x ->
  gather_has_cb (d_g1 x) c || gather_has_cb (d_g2 x) c = true ->
  In (HG d c) (cbs_of (dtasks s) 0 c).
Proof. intros H E. apply (cbs_of_In_conv (dtasks s) 0 c d x H E). Qed.

Lemma gather_ok_gvF s s' d x g :
  gvF s s' -> get_d s d = Some x -> (d_g1 x = Some g \/ d_g2 x = Some g) ->
  gather_ok s d g -> gather_ok s' d g.
Proof.
  intros G Hx Hg [N [C1 [C2 C3]]]. unfold gather_ok. repeat split; auto.
  - intros c Hc Hd. apply C2; auto. eapply gvF_mono_false; eauto.
  - rewrite C3. apply count_ext_in. intros c Hc. unfold cb_ran.
    destruct (tref_done s c) eqn:E.
    + rewrite (gv_mono _ _ G c E). simpl. f_equal.
      destruct (existsb (hid_eqb (HG d c)) (ready s)) eqn:E1.
      * apply existsb_hid_In in E1. symmetry. apply existsb_hid_In. apply (gv_hg _ _ G). auto.
      * apply existsb_hid_false in E1. symmetry. apply existsb_hid_false. intros HH.
        apply (gv_hg _ _ G) in HH. destruct HH as [HH|[HH _]]; [tauto|congruence].
    + simpl. destruct (tref_done s' c) eqn:E'; auto. simpl.
      assert (HI : In (HG d c) (ready s')).
      { apply (gv_hg _ _ G). right. repeat split; auto.
        eapply cbs_of_In0; eauto. specialize (C2 c Hc E).
        destruct Hg as [Hg|Hg]; rewrite Hg; simpl.
        - apply orb_true_iff. left. apply existsb_tref_In; auto.
        - apply orb_true_iff. right. apply existsb_tref_In; auto. }
      apply existsb_hid_In in HI. rewrite HI. reflexivity.
Qed.

(** the clauses of IG / Extra_G that only depend on drivers, outcomes and callback handles *)
Record IGg (s : state) : Prop := {
  Gg_g1 : forall d x g, get_d s d = Some x -> d_pc x = DWaitG1 -> d_fw x = Some FPending ->
                        d_g1 x = Some g -> gather_ok s d g;
  Gg_g2 : forall d x g, get_d s d = Some x -> d_pc x = DWaitG2 -> d_fw x = Some FPending ->
                        d_g2 x = Some g -> gather_ok s d g;
  Gg_has1 : forall d x, get_d s d = Some x -> d_pc x = DWaitG1 -> d_g1 x <> None;
  Gg_has2 : forall d x, get_d s d = Some x -> d_pc x = DWaitG2 ->
                        exists g, d_g2 x = Some g /\ g_children g = map TP (d_snap x);
  Gg_ok1 : forall d x g, get_d s d = Some x -> d_pc x = DWaitG1 -> d_fw x = Some FOk ->
                         d_g1 x = Some g -> forall c, In c (g_children g) -> tref_done s c = true;
  Gg_ok2 : forall d x g, get_d s d = Some x -> d_pc x = DWaitG2 -> d_fw x = Some FOk ->
                         d_g2 x = Some g -> forall c, In c (g_children g) -> tref_done s c = true;
  Gg_hg : forall d c, In (HG d c) (ready s) -> tref_done s c = true;
  Gg_xhg : forall d c, In (HG d c) (ready s) ->
           exists x, get_d s d = Some x /\
             match c with
             | TM _ => exists g, d_g1 x = Some g /\ In c (g_children g)
             | TP _ => exists g, d_g2 x = Some g /\ In c (g_children g)
             | TD _ => False
             end;
  Gg_gath1 : forall d x g, get_d s d = Some x -> d_g1 x = Some g ->
              (forall c, In c (g_cb g) -> In c (g_children g)) /\
              (forall c, In c (g_children g) -> exists m, c = TM m);
  Gg_gath2 : forall d x g, get_d s d = Some x -> d_g2 x = Some g ->
              (forall c, In c (g_cb g) -> In c (g_children g)) /\
              (forall c, In c (g_children g) -> exists t, c = TP t);
  Gg_none1 : forall d x, get_d s d = Some x -> d_pc x = DNotStarted ->
              d_g1 x = None /\ d_g2 x = None;
  Gg_none2 : forall d x, get_d s d = Some x -> d_pc x = DWaitG1 -> d_g2 x = None
}.

Lemma IGg_of s : IG s -> Extra_G s -> IGg s.
Proof.
  intros G X. constructor.
  - apply (IG_g1 _ G). - apply (IG_g2 _ G). - apply (IG_has1 _ G). - apply (IG_has2 _ G).
  - apply (IG_ok1 _ G). - apply (IG_ok2 _ G). - apply (IG_hg _ G). - apply (X_hg _ X).
  - apply (X_gath1 _ X). - apply (X_gath2 _ X). - apply (X_none1 _ X). - apply (X_none2 _ X).
Qed.

Lemma IGg_gvF s s' : gvF s s' -> IGg s -> IGg s'.
Proof.
  intros G I. constructor.
  - intros d x g. rewrite (get_d_gvF _ _ _ G). intros. eapply gather_ok_gvF; eauto.
    eapply (Gg_g1 _ I); eauto.
  - intros d x g. rewrite (get_d_gvF _ _ _ G). intros. eapply gather_ok_gvF; eauto.
    eapply (Gg_g2 _ I); eauto.
  - intros d x. rewrite (get_d_gvF _ _ _ G). apply (Gg_has1 _ I).
  - intros d x. rewrite (get_d_gvF _ _ _ G). apply (Gg_has2 _ I).
  - intros d x g. rewrite (get_d_gvF _ _ _ G). intros. apply (gv_mono _ _ G).
    eapply (Gg_ok1 _ I); eauto.
  - intros d x g. rewrite (get_d_gvF _ _ _ G). intros. apply (gv_mono _ _ G).
    eapply (Gg_ok2 _ I); eauto.
  - intros d c H. apply (gv_hg _ _ G) in H. destruct H as [H|[_ [H _]]]; auto.
    apply (gv_mono _ _ G). eapply (Gg_hg _ I); eauto.
  - intros d c H. rewrite (get_d_gvF _ _ _ G). apply (gv_hg _ _ G) in H.
    destruct H as [H|[_ [_ H]]]; [eapply (Gg_xhg _ I); eauto|].
    destruct (cbs_of_In _ _ _ _ H) as [d' [x [Eq [_ [Hn Hg]]]]]. inversion Eq; subst d'.
    rewrite Nat.sub_0_r in Hn. exists x. split; [exact Hn|].
    apply orb_true_iff in Hg. destruct Hg as [Hg|Hg]; apply gather_has_cb_true in Hg;
      destruct Hg as [g [Eg Hc]].
    + destruct (Gg_gath1 _ I d x g Hn Eg) as [A B]. destruct (B c (A c Hc)) as [m ->]. eauto.
    + destruct (Gg_gath2 _ I d x g Hn Eg) as [A B]. destruct (B c (A c Hc)) as [m ->]. eauto.
  - intros d x. rewrite (get_d_gvF _ _ _ G). apply (Gg_gath1 _ I).
  - intros d x. rewrite (get_d_gvF _ _ _ G). apply (Gg_gath2 _ I).
  - intros d x. rewrite (get_d_gvF _ _ _ G). apply (Gg_none1 _ I).
  - intros d x. rewrite (get_d_gvF _ _ _ G). apply (Gg_none2 _ I).
Qed.

Definition sealed (s : state) : Prop :=
  closed s = true \/
  exists d x re, get_d s d = Some x /\ d_kind x = DGatherClose re /\ d_pc x = DWaitG2.

Definition self_ok (m : option nat) (s' : state) : Prop :=
  forall k x', m = Some k -> get_m s' k = Some x' ->
    (m_dead x' = true -> m_final x' = None -> m_mc x' = true \/ fut_cancelled (m_fw x')) /\
    (m_holds x' = true -> m_pc x' = MWaitPool).

Lemma mkeep_final_None x x' : mkeep x x' -> m_final x' = None -> m_final x = None.
Proof.
  intros [_ [_ K]] H. destruct (m_final x) eqn:E; auto.
  rewrite K in H by congruence. congruence.
Qed.

Lemma IGg_to_IG s : IGg s -> IG s -> IG s.
Proof. auto. Qed.

(** spawners seen from the post-state, as far as the gather_and_close clauses care *)
Definition mback (s s' : state) : Prop :=
  forall k y', get_m s' k = Some y' -> m_final y' = None ->
    exists y, get_m s k = Some y /\ m_final y = None /\ (m_dead y = true -> m_dead y' = true).

Theorem pres_core s s' :
  IG s -> Extra_G s ->
  dtasks s' = dtasks s -> closed_waiters s' = closed_waiters s -> locked s' = locked s ->
  closed s' = closed s -> n_gac s' = n_gac s -> gvF s s' ->
  (locked s = true \/ closed s = true -> mback s s') ->
  (sealed s -> regs_sub s s' /\ forall k, ctl s' <> CUser (TM k)) ->
  IM s' ->
  (forall m x, get_m s' m = Some x -> m_dead x = true -> m_final x = None ->
               m_mc x = true \/ fut_cancelled (m_fw x)) ->
  IM s' /\ IG s' /\ Extra_G s'.
Proof.
  intros G X Ed Ecw Elk Ecl Eng Hgv Hback Hlock M' XD.
  pose proof (IGg_gvF _ _ Hgv (IGg_of _ G X)) as Gg.
  assert (GD : forall d, get_d s' d = get_d s d) by (intros; unfold get_d; rewrite Ed; auto).
  assert (SE : sealed s' -> sealed s).
  { intros [H|[d [x [re [H1 H2]]]]]; [left; congruence|right].
    exists d, x, re. rewrite <- GD. auto. }
  split; [exact M'|split].
  - (* IG *)
    constructor; try (destruct Gg; assumption).
    + intros d x re g. rewrite GD, Elk. intros H1 H2 H3 H4.
      destruct (IG_gac1 _ G d x re g H1 H2 H3 H4) as [A B]. split; auto.
      intros k y' Hk Hf Hd. destruct (Hback (or_introl A) k y' Hk Hf) as [y [Hy [Hf0 Dm]]].
      apply (B k y Hy Hf0). destruct (m_dead y); auto. rewrite Dm in Hd; auto.
    + intros d x re. rewrite GD, Eng. apply (IG_ngac _ G).
    + intros d x re. rewrite GD, Elk. intros H1 H2 H3.
      destruct (IG_gac2 _ G d x re H1 H2 H3) as [A [B C]]. split; [auto|split].
      * intros k y' Hk Hf. destruct (Hback (or_introl A) k y' Hk Hf) as [y [Hy [Hf0 Dm]]].
        apply Dm. eapply B; eauto.
      * intros t Ht. apply C. destruct Hlock as [Hs _]; [right; exists d, x, re; auto|].
        apply Hs; auto.
    + rewrite Ecl. intros Hc. pose proof (IG_closed _ G Hc) as R.
      apply in_nil_eq. intros t Ht. destruct Hlock as [Hs _]; [left; auto|].
      apply Hs in Ht. rewrite R in Ht. destruct Ht.
  - (* Extra *)
    constructor; try (destruct Gg; assumption).
    + intros d x re. rewrite GD. apply (X_gac1 _ X).
    + intros Hs. apply Hlock. auto.
    + rewrite Ecl. intros Hc k y' Hk Hf.
      destruct (Hback (or_intror Hc) k y' Hk Hf) as [y [Hy [Hf0 Dm]]].
      apply Dm. eapply (X_closed _ X); eauto.
    + rewrite Ecw. apply (X_cwnd _ X).
    + intros d. rewrite Ecw, GD. apply (X_cw _ X).
Qed.

Definition XDead (s : state) : Prop :=
  forall m x, get_m s m = Some x -> m_dead x = true -> m_final x = None ->
              m_mc x = true \/ fut_cancelled (m_fw x).

Theorem IMX_rel m s s' :
  IM s -> XDead s -> rel m s s' -> self_ok m s' -> IM s' /\ XDead s'.
Proof.
  intros M X [Hv Hgv Hm] Hself.
  destruct (vS_inv _ _ Hv) as [Egm [Emc [Eti [Ed [Ecw [Elk [Ecl Eng]]]]]]].
  assert (XD : XDead s').
  { intros k x' Hk Hd Hf.
    destruct m as [k0|]; [destruct (Nat.eq_dec k k0) as [->|Hne]|].
    - destruct (Hself k0 x' eq_refl Hk) as [A _]. auto.
    - destruct (mev_back _ _ _ _ _ Hm Hk) as [x [Hx [K Wk]]].
      assert (Wk' : mwk x x') by (apply Wk; congruence).
      destruct Wk' as [_ [F [D [_ [Mc [_ Fw]]]]]].
      assert (Dx : m_dead x = true) by congruence.
      assert (Fx : m_final x = None) by congruence.
      destruct (X k x Hx Dx Fx) as [A|A]; [left; congruence|].
      right. unfold fut_cancelled in *. destruct Fw as [Fw|[Fw _]]; congruence.
    - destruct (mev_back _ _ _ _ _ Hm Hk) as [x [Hx [K Wk]]].
      assert (Wk' : mwk x x') by (apply Wk; congruence).
      destruct Wk' as [_ [F [D [_ [Mc [_ Fw]]]]]].
      assert (Dx : m_dead x = true) by congruence.
      assert (Fx : m_final x = None) by congruence.
      destruct (X k x Hx Dx Fx) as [A|A]; [left; congruence|].
      right. unfold fut_cancelled in *. destruct Fw as [Fw|[Fw _]]; congruence. }
  split; [|exact XD].
  constructor.
  + intros k x' Hk Hf Hd. destruct (mev_back _ _ _ _ _ Hm Hk) as [x [Hx [K _]]].
    pose proof (mkeep_final_None _ _ K Hf) as Hf0. destruct K as [Kg [Kd _]].
    unfold meta_in_group. rewrite Egm, Kg. apply (IM_reg _ M k x Hx Hf0). congruence.
  + rewrite Emc, Egm, (mev_len _ _ _ Hm). apply (IM_lt _ M).
  + rewrite Emc, Egm. apply (IM_nodup _ M).
  + rewrite Egm. apply (IM_keys _ M).
  + intros _. exact XD.
  + intros k x' Hk Hh.
    destruct m as [k0|]; [destruct (Nat.eq_dec k k0) as [->|Hne]|].
    * destruct (Hself k0 x' eq_refl Hk) as [_ B]. auto.
    * destruct (mev_back _ _ _ _ _ Hm Hk) as [x [Hx [K Wk]]].
      assert (Wk' : mwk x x') by (apply Wk; congruence).
      destruct Wk' as [Pc [_ [_ [_ [_ [Ho _]]]]]]. rewrite Pc.
      apply (IM_holds _ M k x Hx). congruence.
    * destruct (mev_back _ _ _ _ _ Hm Hk) as [x [Hx [K Wk]]].
      assert (Wk' : mwk x x') by (apply Wk; congruence).
      destruct Wk' as [Pc [_ [_ [_ [_ [Ho _]]]]]]. rewrite Pc.
      apply (IM_holds _ M k x Hx). congruence.
Qed.

Lemma mback_mev m s s' : mev m s s' -> mback s s'.
Proof.
  intros Hm k y' Hk Hf. destruct (mev_back _ _ _ _ _ Hm Hk) as [y [Hy [K _]]].
  pose proof (mkeep_final_None _ _ K Hf) as Hf0. destruct K as [Kg [Kd _]].
  exists y. repeat split; auto. congruence.
Qed.

Theorem pres_rel m s s' :
  WF s -> Extra_G s -> rel m s s' -> self_ok m s' ->
  (sealed s -> regs_sub s s' /\ forall k, ctl s' <> CUser (TM k)) ->
  IM s' /\ IG s' /\ Extra_G s'.
Proof.
  intros W X R Hself Hlock.
  destruct (IMX_rel m s s' (wfm _ W) (X_dead _ X) R Hself) as [M' XD].
  destruct R as [Hv Hgv Hm].
  destruct (vS_inv _ _ Hv) as [Egm [Emc [Eti [Ed [Ecw [Elk [Ecl Eng]]]]]]].
  apply (pres_core s s' (wfg _ W) X Ed Ecw Elk Ecl Eng Hgv); auto.
  intros _. eapply mback_mev; eauto.
Qed.

(** *** relD: summary for the cancelling operations *)
Record relD (s s' : state) : Prop := {
  d_dt : dtasks s' = dtasks s;
  d_cw : closed_waiters s' = closed_waiters s;
  d_lk : locked s' = locked s;
  d_cl : closed s' = closed s;
  d_ng : n_gac s' = n_gac s;
  d_gv : gvF s s';
  d_mb : mback s s';
  d_regs : regs_sub s s';
  d_ctl : ctl_ok s s'
}.

Lemma mback_refl s : mback s s.
Proof. intros k y Hk Hf. exists y. auto. Qed.

Lemma mback_trans s1 s2 s3 : mback s1 s2 -> mback s2 s3 -> mback s1 s3.
Proof.
  intros A B k z Hz Fz. destruct (B k z Hz Fz) as [y [Hy [Fy Dy]]].
  destruct (A k y Hy Fy) as [x [Hx [Fx Dx]]]. exists x. repeat split; auto.
Qed.

Lemma relD_refl s : relD s s.
Proof.
  constructor; auto using gvF_refl, mback_refl.
  - intros t H; exact H.
  - intros k H; exact H.
Qed.

Lemma relD_trans s1 s2 s3 : relD s1 s2 -> relD s2 s3 -> relD s1 s3.
Proof.
  intros [A1 A2 A3 A4 A5 A6 A7 A8 A9] [B1 B2 B3 B4 B5 B6 B7 B8 B9].
  constructor; try congruence.
  - eapply gvF_trans; eauto.
  - eapply mback_trans; eauto.
  - intros t H; auto.
  - intros k H; auto.
Qed.

Lemma relA_relD s s' : relA s s' -> relD s s'.
Proof.
  intros [[Hv Hgv Hm] Rg Rc].
  destruct (vS_inv _ _ Hv) as [Egm [Emc [Eti [Ed [Ecw [Elk [Ecl Eng]]]]]]].
  constructor; auto. eapply mback_mev; eauto.
Qed.

Theorem pres_relD s s' :
  WF s -> Extra_G s -> relD s s' -> IM s' -> XDead s' -> IM s' /\ IG s' /\ Extra_G s'.
Proof.
  intros W X [A1 A2 A3 A4 A5 A6 A7 A8 A9] M' XD.
  apply (pres_core s s' (wfg _ W) X A1 A2 A3 A4 A5 A6); auto.
  intros Hs. split; auto. intros k Hk. apply A9 in Hk. revert Hk. apply (X_nouser _ X Hs).
Qed.
