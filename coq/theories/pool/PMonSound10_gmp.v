(** C10 monitor soundness, model side — [GMx] (PMonSound10_gmdef.v) is preserved by the pool-task
    transitions [run_p] / [continue_p]; what [cancel_p] does to task records. *)
From TP Require Import PInv PInv_Q PMonSound10_gmdef.
From TP Require Import PInv_P_base PInv_P_view PInv_P_inv PInv_P_tok PInv_P_leaf
  PInv_P_chain PInv_P_step PSpecStep PStep_C_ev PStep_C_rel PStep_C_run PStep_C06_rec.

(** ** record level: [keeps10] for the record transformers of the P-view *)
Ltac k10solve x :=
  unfold keeps10, stb, rx, cb_raise, suspend_x, end_x, fin_x, cancel_x in *;
  destruct x as [xreq xel xgroup xw xecb xccb xismap xpc xfw xmc xexc xfin xfinal xunst
                 xnstart xnccb xnecb xnrel];
  cbn in *;
  repeat match goal with |- context [if ?b then _ else _] => destruct b end;
  cbn in *; (split; [reflexivity|destruct xpc, xunst; cbn; try congruence; try discriminate]).

Lemma k10_end_x x : keeps10 x (end_x x).
Proof. unfold end_x. cbn [p_ecb set_p_nrel]. destruct (p_ecb x) eqn:E; k10solve x. Qed.

Lemma k10_fin_x x : keeps10 x (fin_x x).
Proof. k10solve x. Qed.

Lemma k10_exc x e : keeps10 x (set_p_exc x e).
Proof. k10solve x. Qed.

Lemma k10_ccb x : keeps10 x (set_p_pc (set_p_nccb x (S (p_nccb x))) PUCancelCb).
Proof. k10solve x. Qed.

Definition upd_keeps10 (v v' : pv) (t : nat) (x : ptask) : Prop :=
  forall u y, vget v' u = Some y -> (u <> t /\ vget v u = Some y) \/ (u = t /\ keeps10 x y).

Lemma uk10_vput v t x x' : keeps10 x x' -> upd_keeps10 v (vput v t x') t x.
Proof. intros H u y Hy. apply vget_vput in Hy. destruct Hy as [?|[-> ->]]; auto. Qed.

Lemma uk10_enter_end v t x : upd_keeps10 v (enter_end_v v t x) t x.
Proof.
  unfold enter_end_v. destruct (mem t (vR v)); [|destruct (mem t (vC v))].
  - intros u y Hy. apply vget_vput in Hy. destruct Hy as [?|[-> ->]]; auto.
    right. split; auto. apply k10_end_x.
  - intros u y Hy. apply vget_vput in Hy. destruct Hy as [?|[-> ->]]; auto.
    right. split; auto. apply k10_end_x.
  - apply uk10_vput. eapply keeps10_trans; [apply k10_exc|apply k10_fin_x].
Qed.

Lemma uk10_enter_cancel v t x : upd_keeps10 v (enter_cancel_v v t x) t x.
Proof.
  unfold enter_cancel_v. destruct (mem t (vR v)).
  - cbv zeta. destruct (p_ccb x).
    + intros u y Hy. apply uk10_enter_end in Hy. exact Hy.
    + intros u y Hy. apply vget_vput in Hy. destruct Hy as [?|[-> ->]]; auto.
      right. split; auto. apply k10_ccb.
    + intros u y Hy. apply vget_vput in Hy. destruct Hy as [?|[-> ->]]; auto.
      right. split; auto. apply k10_ccb.
  - intros u y Hy. apply uk10_enter_end in Hy. destruct Hy as [?|[-> Hk]]; auto.
Qed.

(** ** run_p / continue_p: records *)
Definition rec10 (s s' : state) (t : nat) : Prop :=
  forall u y, get_p s' u = Some y ->
    get_p s u = Some y \/ (u = t /\ exists x0, get_p s t = Some x0 /\ keeps10 x0 y).

Lemma rec10_refl s t : rec10 s s t.
Proof. intros u y H. auto. Qed.

(** every record written has a concrete [p_pc] other than [PCreated], or [p_unst = UNone], or is
    the old record up to fields [stb] does not read: brute force over [p_pc] / [p_unst] *)
Ltac k10brute x0 :=
  unfold keeps10, stb, rx, cb_raise, suspend_x;
  destruct x0 as [xreq xel xgroup xw xecb xccb xismap xpc xfw xmc xexc xfin xfinal xunst
                  xnstart xnccb xnecb xnrel];
  cbn;
  repeat match goal with |- context [if ?b then _ else _] => destruct b end;
  cbn; (split; [reflexivity|destruct xpc, xunst; cbn; try congruence; try discriminate]).

Ltac rec10leaf x0 Ex :=
  let u := fresh "u" in let y := fresh "y" in let Hy := fresh "Hy" in
  intros u y Hy;
  change (get_p ?a ?b) with (vget (pview a) b) in Hy;
  autorewrite with pv in Hy; unfold finish_v, suspend_v in Hy;
  first [apply uk10_enter_cancel in Hy | apply uk10_enter_end in Hy
        | apply (uk10_vput _ _ _ _ (keeps10_refl _)) in Hy];
  destruct Hy as [[_ Hy]|[-> Hy]]; [left; exact Hy|];
  right; split; [reflexivity|]; exists x0; split; [exact Ex|];
  (eapply keeps10_trans; [|exact Hy]); clear; k10brute x0.

Lemma rec10_run_p' s t : rec10 s (run_p s t) t.
Proof.
  unfold run_p. destruct (get_p s t) as [x0|] eqn:Ex; [|apply rec10_refl].
  cbv zeta. destruct (p_pc x0); try apply rec10_refl.
  - destruct (task_input _ _); [destruct (p_unst _)|..]; rec10leaf x0 Ex.
  - destruct (task_input _ _); rec10leaf x0 Ex.
  - destruct (task_input _ _); rec10leaf x0 Ex.
  - destruct (task_input _ _); rec10leaf x0 Ex.
Qed.

Lemma rec10_continue_p' s t : rec10 s (continue_p s t) t.
Proof.
  unfold continue_p. destruct (get_p s t) as [x0|] eqn:Ex; [|apply rec10_refl].
  destruct (p_pc x0); try apply rec10_refl.
  - destruct (w_first (p_w x0)); rec10leaf x0 Ex.
  - destruct (p_fin x0); rec10leaf x0 Ex.
  - destruct (w_cancel (p_w x0)); rec10leaf x0 Ex.
  - destruct (p_ccb x0) as [|r|sl r]; [| |destruct sl]; rec10leaf x0 Ex.
  - destruct (p_ecb x0) as [|r|sl r]; [| |destruct sl]; rec10leaf x0 Ex.
Qed.

Lemma rec10_run_p s t : forall u y, get_p (run_p s t) u = Some y ->
  get_p s u = Some y \/ (u = t /\ exists x0, get_p s t = Some x0 /\ keeps10 x0 y).
Proof. exact (rec10_run_p' s t). Qed.

Lemma rec10_continue_p s t : forall u y, get_p (continue_p s t) u = Some y ->
  get_p s u = Some y \/ (u = t /\ exists x0, get_p s t = Some x0 /\ keeps10 x0 y).
Proof. exact (rec10_continue_p' s t). Qed.

(** ** run_p / continue_p preserve [GMx] *)
Lemma GMx_of_wsim s s' t : GMx s -> wsim s s' -> rec10 s s' t -> GMx s'.
Proof.
  intros G W R. eapply GMx_quiet; [exact G| | | | |].
  - intros u x' Hx'. destruct (R u x' Hx') as [H|[-> (x0 & Hx0 & Hk)]].
    + exists x'. split; auto using keeps10_refl.
    + exists x0. auto.
  - intros m y Hy. destruct (Forall2_nth_l (ws_m W) Hy) as (y' & Hy' & (_ & Eg & _) & _).
    exists y'. split; auto.
  - apply (ws_g W).
  - apply (ws_n W).
  - symmetry. apply (F2_length (ws_p W)).
Qed.

Lemma GMx_run_p s sb t : WF s -> eqf s sb -> GMx sb -> GMx (run_p sb t).
Proof.
  intros W Hb G. pose proof (SP_of_WF W Hb) as HSP.
  assert (good2 sb (run_p sb t)) as [_ Hw].
  { apply run_p_good; [apply HSP|eapply waiters_pool_of_WF; eauto|eapply counts_all_of_WF; eauto]. }
  eapply GMx_of_wsim; [exact G|exact Hw|apply rec10_run_p'].
Qed.

Lemma GMx_continue_p s sa t : WF s -> eqf s sa -> GMx sa -> GMx (continue_p sa t).
Proof.
  intros W Ha G. pose proof (SP_of_WF W Ha) as HSP.
  assert (good2 sa (continue_p sa t)) as [_ Hw].
  { apply continue_p_good; [apply HSP|eapply waiters_pool_of_WF; eauto
                           |eapply counts_all_of_WF; eauto]. }
  eapply GMx_of_wsim; [exact G|exact Hw|apply rec10_continue_p'].
Qed.

(** ** cancel_p *)
Lemma k10_cancel_x x : keeps10 x (cancel_x x).
Proof. k10solve x. Qed.

Lemma k10_deferred x : keeps10 x (set_p_unst x UDeferred).
Proof. k10solve x. Qed.

Lemma rec10_cancel_p s t : forall u y, get_p (cancel_p s t) u = Some y ->
  exists x, get_p s u = Some x /\ keeps10 x y.
Proof.
  intros u y Hy. change (vget (pview (cancel_p s t)) u = Some y) in Hy.
  change (exists x, vget (pview s) u = Some x /\ keeps10 x y).
  rewrite pv_cancel_p in Hy. unfold cancel_p_v in Hy.
  destruct (vget (pview s) t) as [x|] eqn:Ex; [|exists y; auto using keeps10_refl].
  destruct (p_unst x) eqn:Eu.
  - destruct (p_final x); [exists y; auto using keeps10_refl|].
    apply vget_vput in Hy. destruct Hy as [[_ Hy]|[-> ->]].
    + exists y. split; auto using keeps10_refl.
    + exists x. split; auto using k10_cancel_x.
  - apply vget_vput in Hy. destruct Hy as [[_ Hy]|[-> ->]].
    + exists y. split; auto using keeps10_refl.
    + exists x. split; auto using k10_deferred.
  - apply vget_vput in Hy. destruct Hy as [[_ Hy]|[-> ->]].
    + exists y. split; auto using keeps10_refl.
    + exists x. split; auto using k10_deferred.
Qed.

Lemma stb_unst x : stb x = true -> p_unst x = UPlain.
Proof. unfold stb. destruct (p_pc x), (p_unst x); congruence. Qed.

Lemma cancel_p_nstb s t y : get_p (cancel_p s t) t = Some y -> stb y = false.
Proof.
  intros Hy. change (vget (pview (cancel_p s t)) t = Some y) in Hy.
  rewrite pv_cancel_p in Hy. unfold cancel_p_v in Hy.
  destruct (vget (pview s) t) as [x|] eqn:Ex; [|congruence].
  destruct (stb y) eqn:Es; auto. exfalso. apply stb_unst in Es.
  destruct (p_unst x) eqn:Eu.
  - destruct (p_final x).
    + congruence.
    + apply vget_vput in Hy. destruct Hy as [[Hne _]|[_ ->]]; [congruence|].
      unfold cancel_x in Es. destruct (fut_pending (p_fw x)); cbn in Es; congruence.
  - apply vget_vput in Hy. destruct Hy as [[Hne _]|[_ ->]]; [congruence|]. discriminate.
  - apply vget_vput in Hy. destruct Hy as [[Hne _]|[_ ->]]; [congruence|]. discriminate.
Qed.

(** ** folds of cancel_p *)
Definition cancel_if_running (s : state) (t : nat) : state :=
  if mem t (t_running s) then cancel_p s t else s.

Lemma rec10_cancel_if s t : forall u y, get_p (cancel_if_running s t) u = Some y ->
  exists x, get_p s u = Some x /\ keeps10 x y.
Proof.
  unfold cancel_if_running. destruct (mem t (t_running s)); [apply rec10_cancel_p|].
  intros u y Hy. exists y. auto using keeps10_refl.
Qed.

Lemma rec10_fold (f : state -> nat -> state) :
  (forall s t u y, get_p (f s t) u = Some y -> exists x, get_p s u = Some x /\ keeps10 x y) ->
  forall ids s u y, get_p (fold_left f ids s) u = Some y ->
  exists x, get_p s u = Some x /\ keeps10 x y.
Proof.
  intros H ids. induction ids as [|t r IH]; simpl; intros s u y Hy.
  - exists y. auto using keeps10_refl.
  - destruct (IH _ _ _ Hy) as (x1 & Hx1 & K1). destruct (H _ _ _ _ Hx1) as (x & Hx & K).
    exists x. split; auto. eapply keeps10_trans; eauto.
Qed.

Lemma rec10_fold_cancel_p ids s : forall u y, get_p (fold_left cancel_p ids s) u = Some y ->
  exists x, get_p s u = Some x /\ keeps10 x y.
Proof. apply rec10_fold. apply rec10_cancel_p. Qed.

Lemma rec10_fold_cancel_if ids s : forall u y,
  get_p (fold_left cancel_if_running ids s) u = Some y ->
  exists x, get_p s u = Some x /\ keeps10 x y.
Proof. apply rec10_fold. apply rec10_cancel_if. Qed.

Lemma R3_cancel_if s t : R3 s (cancel_if_running s t).
Proof. unfold cancel_if_running. destruct (mem t (t_running s)); [apply R3_cancel_p|apply R3_refl]. Qed.

(** every listed task that is filed as running ends up non-[stb] *)
Lemma fold_cancel_if_nstb ids : forall s t y,
  In t ids -> In t (t_running s) ->
  get_p (fold_left cancel_if_running ids s) t = Some y -> stb y = false.
Proof.
  induction ids as [|a r IH]; simpl; intros s t y Hi Hr Hy; [destruct Hi|].
  destruct (rec10_fold_cancel_if r _ _ _ Hy) as (x1 & Hx1 & _ & K1).
  destruct Hi as [->|Hi].
  - destruct (stb y) eqn:Es; auto. pose proof (K1 eq_refl) as K2.
    unfold cancel_if_running in Hx1. apply mem_In in Hr. rewrite Hr in Hx1.
    apply cancel_p_nstb in Hx1. congruence.
  - destruct (R3_cancel_if s a) as (E & _).
    apply (IH (cancel_if_running s a) t y Hi); [rewrite E; exact Hr|exact Hy].
Qed.

Print Assumptions GMx_run_p.
