(** Group registers are exact: in an untainted run the register of a live group lists exactly the
    tasks of the one request (not cancelled) that carries the group's name.  Invariant [GI]. *)
From TP Require Import PInv_Q PMonSound_C45_sc.
Set Implicit Arguments. Unset Strict Implicit.

Definition PGi (s : state) : Prop :=
  forall t x y, get_p s t = Some x -> get_m s (p_req x) = Some y -> p_group x = m_group y.

Definition ZZi (s : state) : Prop :=
  forall g ids t x y, glookup g (groups s) = Some ids -> In t ids -> get_p s t = Some x ->
                      get_m s (p_req x) = Some y -> m_dead y = false.

Definition UUi (s : state) : Prop :=
  forall m1 m2 y1 y2, get_m s m1 = Some y1 -> get_m s m2 = Some y2 ->
                      m_dead y1 = false -> m_dead y2 = false -> m_group y1 = m_group y2 -> m1 = m2.

Definition VVi (s : state) : Prop :=
  forall m y, get_m s m = Some y -> m_dead y = false -> ghas (m_group y) (groups s) = true.

Definition KSi (K : Prop) (s : state) : Prop :=
  K ->
  (forall g, ghas g (groups s) = true -> exists k, g = GStart k /\ k < start_calls s) /\
  (forall m y, get_m s m = Some y -> exists k, m_group y = GStart k /\ k < start_calls s).

Record GI (K : Prop) (s : state) : Prop := {
  gi_pg : PGi s; gi_zz : ZZi s; gi_uu : UUi s; gi_vv : VVi s; gi_ks : KSi K s
}.

Definition gsim (y y' : mtask) : Prop := m_group y' = m_group y /\ m_dead y' = m_dead y.
Definition psim2 (x x' : ptask) : Prop := p_req x' = p_req x /\ p_group x' = p_group x.

Lemma F2_get_r {A} (R : A -> A -> Prop) l l' n y :
  Forall2 R l l' -> nth_error l' n = Some y -> exists x, nth_error l n = Some x /\ R x y.
Proof. apply Forall2_nth_r. Qed.

Lemma GI_quiet K s s' :
  GI K s -> Forall2 psim2 (ptasks s) (ptasks s') -> Forall2 gsim (mtasks s) (mtasks s') ->
  groups s' = groups s -> start_calls s <= start_calls s' -> GI K s'.
Proof.
  intros [PG ZZ UU VV KS] Fp Fm Eg Es.
  assert (Hp : forall t x', get_p s' t = Some x' -> exists x, get_p s t = Some x /\ psim2 x x')
    by (intros t x' H; eapply Forall2_nth_r; eauto).
  assert (Hm : forall m y', get_m s' m = Some y' -> exists y, get_m s m = Some y /\ gsim y y')
    by (intros m y' H; eapply Forall2_nth_r; eauto).
  constructor.
  - intros t x' y' Hx' Hy'. destruct (Hp _ _ Hx') as [x [Hx [E1 E2]]]. rewrite E1 in Hy'.
    destruct (Hm _ _ Hy') as [y [Hy [G1 G2]]]. rewrite E2, G1. eapply PG; eauto.
  - intros g ids t x' y' Hl Hi Hx' Hy'. rewrite Eg in Hl.
    destruct (Hp _ _ Hx') as [x [Hx [E1 E2]]]. rewrite E1 in Hy'.
    destruct (Hm _ _ Hy') as [y [Hy [G1 G2]]]. rewrite G2. eapply ZZ; eauto.
  - intros m1 m2 y1' y2' H1 H2 D1 D2 Hg.
    destruct (Hm _ _ H1) as [y1 [Hy1 [A1 A2]]]. destruct (Hm _ _ H2) as [y2 [Hy2 [B1 B2]]].
    eapply UU; eauto; congruence.
  - intros m y' Hy' Hd. destruct (Hm _ _ Hy') as [y [Hy [G1 G2]]]. rewrite Eg, G1.
    eapply VV; eauto; congruence.
  - intros Hk. destruct (KS Hk) as [K1 K2]. split.
    + intros g Hg. rewrite Eg in Hg. destruct (K1 g Hg) as [k [E L]]. exists k. split; auto. lia.
    + intros m y' Hy'. destruct (Hm _ _ Hy') as [y [Hy [G1 G2]]].
      destruct (K2 m y Hy) as [k [E L]]. exists k. split; [congruence|lia].
Qed.

Lemma ghas_gadd_inv g x l g' : ghas g' (gadd g x l) = true -> g' = g \/ ghas g' l = true.
Proof.
  unfold ghas. rewrite glookup_gadd. destruct (gname_eqb_spec g' g); auto.
Qed.

Lemma GI_register K s s' m x0 x :
  GI K s -> get_m s m = Some x0 -> m_group x = m_group x0 -> m_dead x = m_dead x0 ->
  m_dead x0 = false -> num_started s = length (ptasks s) ->
  ptasks s' = ptasks s ++ [reg_p m x] -> mtasks s' = upd (mtasks s) m (reg_x x) ->
  groups s' = gadd (m_group x) (num_started s) (groups s) ->
  start_calls s' = start_calls s -> GI K s'.
Proof.
  intros [PG ZZ UU VV KS] Hx0 Hg Hd Hund Hlen Ep Em Eg Es.
  assert (Hpi : forall t xt, get_p s' t = Some xt ->
            get_p s t = Some xt \/ (t = length (ptasks s) /\ xt = reg_p m x)).
  { unfold get_p. rewrite Ep. intros; apply nth_error_snoc_inv; auto. }
  assert (Hmi : forall k y', get_m s' k = Some y' ->
            exists y, get_m s k = Some y /\ gsim y y').
  { intros k y' Hy'. destruct (get_m_upd Em Hy') as [[-> [-> _]]|[_ H]].
    - exists x0. split; auto. unfold gsim. cbn. split; congruence.
    - exists y'. split; auto. split; auto. }
  assert (Hm' : get_m s' m = Some (reg_x x)).
  { unfold get_m in *. rewrite Em. eapply nth_error_upd_same; eauto. }
  constructor.
  - intros t xt y' Hxt Hy'. destruct (Hpi _ _ Hxt) as [H|[_ ->]].
    + destruct (Hmi _ _ Hy') as [y [Hy [G1 G2]]]. rewrite G1. eapply PG; eauto.
    + change (get_m s' m = Some y') in Hy'. rewrite Hm' in Hy'. inversion Hy'; subst y'. reflexivity.
  - intros g ids t xt y' Hl Hi Hxt Hy'.
    destruct (Hpi _ _ Hxt) as [H|[_ ->]].
    + destruct (Hmi _ _ Hy') as [y [Hy [G1 G2]]]. rewrite G2.
      rewrite Eg, glookup_gadd in Hl.
      assert (Hlt : t < length (ptasks s)) by (unfold get_p in H; apply nth_error_Some; congruence).
      destruct (gname_eqb_spec g (m_group x)) as [->|Ne].
      * inversion Hl; subst ids; clear Hl.
        destruct (glookup (m_group x) (groups s)) as [v|] eqn:Ev.
        -- apply In_dict_add in Hi. destruct Hi as [Hi|Hi]; [eapply ZZ; eauto|lia].
        -- destruct Hi as [Hi|[]]. lia.
      * eapply ZZ; eauto.
    + change (get_m s' m = Some y') in Hy'. rewrite Hm' in Hy'. inversion Hy'; subst y'. cbn. congruence.
  - intros m1 m2 y1' y2' H1 H2 D1 D2 Hgg.
    destruct (Hmi _ _ H1) as [y1 [Hy1 [A1 A2]]]. destruct (Hmi _ _ H2) as [y2 [Hy2 [B1 B2]]].
    eapply UU; eauto; congruence.
  - intros k y' Hy' Hdd. destruct (Hmi _ _ Hy') as [y [Hy [G1 G2]]]. rewrite Eg, G1.
    apply ghas_gadd_mono. eapply VV; eauto; congruence.
  - intros Hk. destruct (KS Hk) as [K1 K2]. rewrite Es. split.
    + intros g Hgh. rewrite Eg in Hgh. apply ghas_gadd_inv in Hgh. destruct Hgh as [->|Hgh]; auto.
      rewrite Hg. eapply K2; eauto.
    + intros k y' Hy'. destruct (Hmi _ _ Hy') as [y [Hy [G1 G2]]]. rewrite G1. eapply K2; eauto.
Qed.

Lemma GI_new K s s' x :
  GI K s -> (forall t xt, get_p s t = Some xt -> p_req xt < length (mtasks s)) ->
  ghas (m_group x) (groups s) = false -> m_dead x = false ->
  ptasks s' = ptasks s -> mtasks s' = mtasks s ++ [x] ->
  groups s' = gensure (m_group x) (groups s) ->
  start_calls s <= start_calls s' ->
  (K -> m_group x = GStart (start_calls s) /\ start_calls s < start_calls s') ->
  GI K s'.
Proof.
  intros [PG ZZ UU VV KS] Hrange Hfresh Hdx Ep Em Eg Es Hks.
  assert (Hinv : forall m y, get_m s' m = Some y ->
            get_m s m = Some y \/ (m = length (mtasks s) /\ y = x)).
  { unfold get_m. rewrite Em. intros; apply get_m_app_inv; auto. }
  assert (Hp : forall t, get_p s' t = get_p s t) by (intros; unfold get_p; rewrite Ep; auto).
  constructor.
  - intros t xt y Hxt Hy. rewrite Hp in Hxt. destruct (Hinv _ _ Hy) as [H|[E _]].
    + eapply PG; eauto.
    + pose proof (Hrange _ _ Hxt). lia.
  - intros g ids t xt y Hl Hi Hxt Hy. rewrite Hp in Hxt. rewrite Eg in Hl.
    apply glookup_gensure_inv in Hl. destruct Hl as [Hl| ->]; [|destruct Hi].
    destruct (Hinv _ _ Hy) as [H|[E _]]; [eapply ZZ; eauto|].
    pose proof (Hrange _ _ Hxt). lia.
  - intros m1 m2 y1 y2 H1 H2 D1 D2 Hg.
    destruct (Hinv _ _ H1) as [A|[A1 A2]]; destruct (Hinv _ _ H2) as [B|[B1 B2]]; subst.
    + eapply UU; eauto.
    + exfalso. pose proof (VV _ _ A D1) as Hv. rewrite Hg in Hv. congruence.
    + exfalso. pose proof (VV _ _ B D2) as Hv. rewrite <- Hg in Hv. congruence.
    + reflexivity.
  - intros m y Hy Hd. rewrite Eg. destruct (Hinv _ _ Hy) as [H|[_ ->]].
    + apply ghas_gensure_mono. eapply VV; eauto.
    + apply ghas_gensure_self.
  - intros Hk. destruct (KS Hk) as [K1 K2]. destruct (Hks Hk) as [Hg Hlt]. split.
    + intros g Hgh. rewrite Eg in Hgh. unfold ghas in Hgh.
      destruct (glookup g (gensure (m_group x) (groups s))) as [v|] eqn:El; [|discriminate].
      destruct (glookup_gensure_inv El) as [Hl| ->].
      * destruct (K1 g) as [k [E L]]; [unfold ghas; rewrite Hl; auto|]. exists k. split; auto. lia.
      * unfold gensure in El. destruct (glookup (m_group x) (groups s)) eqn:E0.
        -- unfold ghas in Hfresh. rewrite E0 in Hfresh. discriminate.
        -- rewrite glookup_app in El. destruct (glookup g (groups s)) eqn:E1.
           ++ destruct (K1 g) as [k [E L]]; [unfold ghas; rewrite E1; auto|]. exists k. split; auto. lia.
           ++ simpl in El. destruct (gname_eqb_spec g (m_group x)); [|discriminate].
              subst g. exists (start_calls s). split; auto.
    + intros m y Hy. destruct (Hinv _ _ Hy) as [H|[_ ->]].
      * destruct (K2 _ _ H) as [k [E L]]. exists k. split; auto. lia.
      * exists (start_calls s). split; auto.
Qed.

Lemma GI_remove K s s' g :
  GI K s -> IGr s ->
  Forall2 psim2 (ptasks s) (ptasks s') ->
  length (mtasks s') = length (mtasks s) ->
  (forall k y y', get_m s k = Some y -> get_m s' k = Some y' ->
     m_group y' = m_group y /\ (m_dead y' = true <-> m_dead y = true \/ m_group y = g)) ->
  groups s' = gremove g (groups s) -> start_calls s' = start_calls s -> GI K s'.
Proof.
  intros [PG ZZ UU VV KS] HG Fp Lm Hm Eg Es.
  pose proof (IGr_keys _ HG) as Hk.
  assert (Hp : forall t x', get_p s' t = Some x' -> exists x, get_p s t = Some x /\ psim2 x x')
    by (intros t x' H; eapply Forall2_nth_r; eauto).
  assert (Hmb : forall k y', get_m s' k = Some y' -> exists y, get_m s k = Some y /\
            m_group y' = m_group y /\ (m_dead y' = true <-> m_dead y = true \/ m_group y = g)).
  { intros k y' Hy'. destruct (@get_m_ex s k) as [y Hy].
    - rewrite <- Lm. eapply get_m_len; eauto.
    - exists y. split; auto. eapply Hm; eauto. }
  assert (Hund : forall y y', (m_dead y' = true <-> m_dead y = true \/ m_group y = g) ->
            m_dead y' = false -> m_dead y = false /\ m_group y <> g).
  { intros y y' [A B] Hd. split.
    - destruct (m_dead y); auto. rewrite B in Hd; auto.
    - intros E. rewrite B in Hd; auto. discriminate. }
  constructor.
  - intros t x' y' Hx' Hy'. destruct (Hp _ _ Hx') as [x [Hx [E1 E2]]]. rewrite E1 in Hy'.
    destruct (Hmb _ _ Hy') as [y [Hy [G1 _]]]. rewrite E2, G1. eapply PG; eauto.
  - intros g' ids t x' y' Hl Hi Hx' Hy'. rewrite Eg, glookup_gremove in Hl by auto.
    destruct (gname_eqb_spec g' g) as [->|Ne]; [discriminate|].
    destruct (Hp _ _ Hx') as [x [Hx [E1 E2]]]. rewrite E1 in Hy'.
    destruct (Hmb _ _ Hy') as [y [Hy [G1 G2]]].
    pose proof (ZZ _ _ _ _ _ Hl Hi Hx Hy) as Hdy.
    destruct (m_dead y') eqn:Hd'; auto. exfalso. destruct (proj1 G2 eq_refl) as [Hd2|Hd2]; [congruence|].
    apply Ne. rewrite <- Hd2, <- (PG _ _ _ Hx Hy). symmetry. eapply (IGr_ids _ HG); eauto.
  - intros m1 m2 y1' y2' H1 H2 D1 D2 Hgg.
    destruct (Hmb _ _ H1) as [y1 [Hy1 [A1 A2]]]. destruct (Hmb _ _ H2) as [y2 [Hy2 [B1 B2]]].
    destruct (Hund _ _ A2 D1). destruct (Hund _ _ B2 D2).
    eapply UU; eauto; congruence.
  - intros k y' Hy' Hdd. destruct (Hmb _ _ Hy') as [y [Hy [G1 G2]]].
    destruct (Hund _ _ G2 Hdd) as [U1 U2]. rewrite Eg, G1. unfold ghas.
    rewrite glookup_gremove by auto. destruct (gname_eqb_spec (m_group y) g); [contradiction|].
    apply (VV _ _ Hy U1).
  - intros Hkk. destruct (KS Hkk) as [K1 K2]. rewrite Es. split.
    + intros g' Hgh. apply K1. rewrite Eg in Hgh. unfold ghas in *.
      rewrite glookup_gremove in Hgh by auto. destruct (gname_eqb g' g); [discriminate|auto].
    + intros k y' Hy'. destruct (Hmb _ _ Hy') as [y [Hy [G1 _]]]. rewrite G1. eapply K2; eauto.
Qed.

Lemma GI_clear K s s' :
  GI K s -> Forall2 psim2 (ptasks s) (ptasks s') ->
  length (mtasks s') = length (mtasks s) ->
  (forall k y y', get_m s k = Some y -> get_m s' k = Some y' ->
     m_group y' = m_group y /\ (m_dead y = true -> m_dead y' = true) /\
     (ghas (m_group y) (groups s) = true -> m_dead y' = true)) ->
  groups s' = [] -> start_calls s' = start_calls s -> GI K s'.
Proof.
  intros [PG ZZ UU VV KS] Fp Lm Hm Eg Es.
  assert (Hp : forall t x', get_p s' t = Some x' -> exists x, get_p s t = Some x /\ psim2 x x')
    by (intros t x' H; eapply Forall2_nth_r; eauto).
  assert (Hdead : forall k y', get_m s' k = Some y' -> m_dead y' = true).
  { intros k y' Hy'. destruct (@get_m_ex s k) as [y Hy].
    - rewrite <- Lm. eapply get_m_len; eauto.
    - destruct (Hm _ _ _ Hy Hy') as [_ [A B]].
      destruct (m_dead y) eqn:E; auto. apply B. eapply VV; eauto. }
  constructor.
  - intros t x' y' Hx' Hy'. destruct (Hp _ _ Hx') as [x [Hx [E1 E2]]]. rewrite E1 in Hy'.
    destruct (@get_m_ex s (p_req x)) as [y Hy].
    + rewrite <- Lm. eapply get_m_len; eauto.
    + destruct (Hm _ _ _ Hy Hy') as [G1 _]. rewrite E2, G1. eapply PG; eauto.
  - intros g ids t x y Hl. rewrite Eg in Hl. discriminate.
  - intros m1 m2 y1 y2 H1 H2 D1. rewrite (Hdead _ _ H1) in D1. discriminate.
  - intros m y Hy Hd. rewrite (Hdead _ _ Hy) in Hd. discriminate.
  - intros Hk. destruct (KS Hk) as [K1 K2]. rewrite Es. split.
    + intros g Hg. rewrite Eg in Hg. discriminate.
    + intros k y' Hy'. destruct (@get_m_ex s k) as [y Hy].
      * rewrite <- Lm. eapply get_m_len; eauto.
      * destruct (Hm _ _ _ Hy Hy') as [G1 _]. rewrite G1. eapply K2; eauto.
Qed.

(** ** counting by positions *)
Fixpoint idxs {A} (P : A -> bool) (l : list A) (a : nat) : list nat :=
  match l with
  | [] => []
  | h :: t => (if P h then [a] else []) ++ idxs P t (S a)
  end.

Lemma idxs_length {A} (P : A -> bool) l : forall a, length (idxs P l a) = count P l.
Proof.
  induction l as [|h t IH]; intros a; simpl; auto.
  rewrite app_length, IH. destruct (P h); reflexivity.
Qed.

Lemma idxs_In {A} (P : A -> bool) l : forall a t,
  In t (idxs P l a) <-> a <= t /\ exists x, nth_error l (t - a) = Some x /\ P x = true.
Proof.
  induction l as [|h r IH]; intros a t; simpl.
  - split; [intros []|]. intros [_ [x [H _]]]. destruct (t - a); discriminate.
  - rewrite in_app_iff, IH. split.
    + intros [H|[H1 [x [H2 H3]]]].
      * destruct (P h) eqn:E; [|destruct H]. destruct H as [<-|[]]. split; auto.
        rewrite Nat.sub_diag. exists h. auto.
      * split; [lia|]. exists x. split; auto.
        replace (t - a) with (S (t - S a)) by lia. exact H2.
    + intros [H1 [x [H2 H3]]]. destruct (Nat.eq_dec t a) as [->|Ne].
      * left. rewrite Nat.sub_diag in H2. simpl in H2. inversion H2; subst. rewrite H3. left; auto.
      * right. split; [lia|]. exists x. split; auto.
        replace (t - a) with (S (t - S a)) in H2 by lia. exact H2.
Qed.

Lemma idxs_NoDup {A} (P : A -> bool) l : forall a, NoDup (idxs P l a).
Proof.
  induction l as [|h r IH]; intros a; simpl; [constructor|].
  destruct (P h); simpl; auto. constructor; auto.
  intros H. apply idxs_In in H. lia.
Qed.

Lemma count_positions {A} (P : A -> bool) (l : list A) (ids : list nat) :
  NoDup ids ->
  (forall t, In t ids <-> exists x, nth_error l t = Some x /\ P x = true) ->
  length ids = count P l.
Proof.
  intros Hnd H. rewrite <- (idxs_length P l 0).
  assert (Hiff : forall t, In t ids <-> In t (idxs P l 0)).
  { intros t. rewrite H, idxs_In, Nat.sub_0_r. split; [intros; split; [lia|auto]|tauto]. }
  apply Nat.le_antisymm; apply NoDup_incl_length; auto using idxs_NoDup;
    intros t Ht; apply Hiff; exact Ht.
Qed.

Lemma glookup_NoDup g l ids : glookup g l = Some ids -> NoDup (gcat l) -> NoDup ids.
Proof.
  unfold gcat. induction l as [|[h w] t IH]; simpl; [discriminate|].
  intros Hl Hnd. apply NoDup_app_iff in Hnd. destruct Hnd as [A [B _]].
  destruct (gname_eqb g h); [inversion Hl; subst; auto|auto].
Qed.

Theorem group_size K s m y ids :
  WF s -> GI K s -> get_m s m = Some y -> m_dead y = false ->
  glookup (m_group y) (groups s) = Some ids -> length ids = tasks_of s m.
Proof.
  intros W [PG ZZ UU VV KS] Hy Hd Hl. pose proof (wfgr _ W) as HG.
  unfold tasks_of. apply count_positions.
  - eapply glookup_NoDup; eauto. apply (IGr_disj _ HG).
  - intros t. split.
    + intros Hi.
      assert (Hlt : t < length (ptasks s)).
      { rewrite <- (I1_len _ (wf1 _ W)). apply (IGr_lt _ HG). eapply glookup_gcat; eauto. }
      destruct (nth_error (ptasks s) t) as [x|] eqn:Hx; [|apply nth_error_None in Hx; lia].
      exists x. split; auto. apply Nat.eqb_eq.
      destruct (IR_req _ (wfr _ W) _ _ Hx) as [yt [Hyt _]].
      pose proof (IGr_ids _ HG _ _ _ _ Hl Hi Hx) as Hg1.
      pose proof (PG _ _ _ Hx Hyt) as Hg2.
      pose proof (ZZ _ _ _ _ _ Hl Hi Hx Hyt) as Hdt.
      eapply UU; eauto. congruence.
    + intros [x [Hx Hp]]. apply Nat.eqb_eq in Hp. subst m.
      destruct (IGr_member _ HG _ _ _ Hx Hy Hd) as [_ [ids' [Hl' Hi]]]. congruence.
Qed.
