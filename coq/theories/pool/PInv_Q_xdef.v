(** The extra invariant needed by IR (definition) and how the WF facts are handed to the
    spawner lemmas. *)
From TP Require Export PInv_Q_runm.
Set Implicit Arguments. Unset Strict Implicit.

Definition xpc (y : mtask) : Prop :=
  (m_pc y = MAtIter -> is_map y = true) /\
  (m_pc y = MWaitMap -> is_map y = true /\ can_start y) /\
  (m_pc y = MWaitPool -> can_start y /\ m_holds y = is_map y).

Definition cancelled (y : mtask) : Prop := m_mc y = true \/ m_fw y = Some FCancelled.

Record Extra_IR (s : state) : Prop := {
  (* program counter vs. kind of request; what a suspended spawner is about to start *)
  X_pc : forall m y, get_m s m = Some y -> xpc y;
  (* a cancellation is pending / delivered only for requests of a cancelled group *)
  X_canc : forall m y, get_m s m = Some y -> m_final y = None -> cancelled y ->
                       m_dead y = true \/ taint_iter s = true;
  (* IM_dead without the taint_iter guard *)
  X_dead : forall m y, get_m s m = Some y -> m_final y = None -> m_dead y = true -> cancelled y;
  (* once the pool is closed every live spawner belongs to a cancelled group *)
  X_closed : closed s = true -> forall m y, get_m s m = Some y -> m_final y = None ->
                                 m_dead y = true /\ m_pc y <> MAtIter;
  (* spawners are filed under their own group *)
  X_file : forall g ms m, In (g, ms) (gmeta s) -> In m ms ->
                          exists y, get_m s m = Some y /\ m_group y = g;
  (* gather_and_close gathers the spawners with return_exceptions=True *)
  X_gac : forall d x re, get_d s d = Some x -> d_kind x = DGatherClose re -> d_pc x = DWaitG1 ->
            (d_fw x = Some FPending \/ d_fw x = Some FOk) /\
            (forall g, d_g1 x = Some g -> g_re g = true)
}.

(** Fields that the first phase of [step] (reset of evs/res, unsched) leaves alone. *)
Record eqf (s s' : state) : Prop := {
  ef_p : ptasks s' = ptasks s; ef_m : mtasks s' = mtasks s; ef_g : groups s' = groups s;
  ef_n : num_started s' = num_started s; ef_t : taint_iter s' = taint_iter s;
  ef_c : closed s' = closed s; ef_w : sem_waiters s' = sem_waiters s;
  ef_d : dtasks s' = dtasks s; ef_gm : gmeta s' = gmeta s;
  ef_mcn : meta_cancelled s' = meta_cancelled s
}.

Lemma eqf_ssim s s' : eqf s s' -> ssim s s'.
Proof. intros []. apply ssim_ceq; auto. Qed.

Lemma eqf_get_m s s' m : eqf s s' -> get_m s' m = get_m s m.
Proof. intros []. unfold get_m. congruence. Qed.
Lemma eqf_get_p s s' t : eqf s s' -> get_p s' t = get_p s t.
Proof. intros []. unfold get_p. congruence. Qed.

Lemma SP_of_WF s s' : WF s -> eqf s s' -> SP s'.
Proof.
  intros HW He. pose proof (eqf_ssim He) as Hs. constructor.
  - eapply ssim_IR; eauto. apply HW.
  - eapply ssim_IGr; eauto. apply HW.
  - rewrite (ef_n He), (ef_p He). apply (I1_len _ (wf1 _ HW)).
Qed.

Lemma waiters_pool_of_WF s s' : WF s -> eqf s s' -> waiters_pool s'.
Proof.
  intros HW He m y Hi Hy. rewrite (ef_w He) in Hi. rewrite (eqf_get_m m He) in Hy.
  apply (I4_in _ (wf4 _ HW)) in Hi. destruct Hi as [x [Hx Hpc]]. congruence.
Qed.

Lemma counts_all_of_WF s s' : WF s -> eqf s s' -> counts_all s'.
Proof.
  intros HW He t x Hx. rewrite (eqf_get_p t He) in Hx. apply (IH_counts _ (wfh _ HW) _ _ Hx).
Qed.

Lemma live_of_pc s m x : WF s -> get_m s m = Some x -> m_pc x <> MDone -> m_final x = None.
Proof.
  intros HW Hx Hpc. destruct (m_final x) eqn:E; auto. exfalso. apply Hpc.
  apply (I5_mfinal _ (wf5 _ HW) _ _ Hx). congruence.
Qed.

Lemma RunPre_of_WF s s' m x0 :
  WF s -> Extra_IR s -> eqf s s' -> In (HT (TM m)) (ready s) -> get_m s m = Some x0 ->
  m_pc x0 = MNotStarted \/ m_pc x0 = MWaitPool \/ m_pc x0 = MWaitMap -> RunPre s' m x0.
Proof.
  intros HW HX He Hr Hx Hpc.
  assert (Hlive : m_final x0 = None).
  { eapply live_of_pc; eauto. intros E. rewrite E in Hpc. intuition discriminate. }
  destruct (X_pc HX Hx) as [_ [P2 P3]].
  constructor; auto.
  - apply (I5_m _ (wf5 _ HW) _ _ Hx). exact Hr.
  - apply (I5_mfw _ (wf5 _ HW) _ _ Hx).
  - apply (I4_fut _ (wf4 _ HW) _ _ Hx).
  - apply (IM_holds _ (wfm _ HW) _ _ Hx).
  - rewrite (ef_t He). apply (X_canc HX Hx Hlive).
  - rewrite (ef_c He). intros Hc. apply (X_dead HX Hx Hlive).
    apply (X_closed HX Hc Hx Hlive).
  - rewrite (ef_w He). apply (I4_nodup _ (wf4 _ HW)).
  - eapply waiters_pool_of_WF; eauto.
Qed.
