(** Monitor soundness for C03 — the tracker's [k_target] covers the ids an operation defers. *)
From TP Require Import PInv PMon PInv_R_base PMonSound2_def PMonSound2_lbl PMonSound3_kn
  PMonSound3_tg.

Definition groups_view (s : state) : list (gname * option (list nat)) :=
  map (fun g => (g, glookup g (groups s))) (known s).

Definition prevrel (k : trk) (s : state) : Prop :=
  match k_prev k with
  | None => groups s = []
  | Some p => o_groups p = groups_view s /\ o_nr p + o_nc p + o_ne p = length (regs s)
  end.

Lemma glook_map (f : gname -> option (list nat)) L g :
  In g L -> glook g (map (fun g => (g, f g)) L) = Some (f g).
Proof.
  induction L as [|h L IH]; simpl; [tauto|]. intros Hin.
  destruct (gname_eqb g h) eqn:E.
  - apply gname_eqb_eq in E. subst. reflexivity.
  - apply IH. destruct Hin as [->|Hin]; auto. rewrite gname_eqb_refl in E. discriminate.
Qed.

Lemma glookup_In l : forall g ids,
  NoDup (map fst l) -> In (g, ids) l -> glookup g l = Some ids.
Proof.
  induction l as [|[h v] l IH]; simpl; intros g ids Hnd Hin; [tauto|].
  inversion Hnd as [|? ? Hn Hd]; subst.
  destruct Hin as [[= -> ->]|Hin].
  - rewrite gname_eqb_refl. reflexivity.
  - destruct (gname_eqb g h) eqn:E.
    + apply gname_eqb_eq in E. subst. exfalso. apply Hn. apply in_map_iff. exists (h, ids). auto.
    + apply IH; auto.
Qed.

Lemma ghas_of_glookup g l ids : glookup g l = Some ids -> ghas g l = true.
Proof. unfold ghas. intros ->. reflexivity. Qed.

Lemma k_target_target k ids : k_target (target k ids) = ids ++ k_target k.
Proof. reflexivity. Qed.

Theorem target_covers c k s op (en : bool) r :
  prevrel k s -> KN s -> NoDup (map fst (groups s)) ->
  let s1 := set_res (set_evs s []) RNone in
  forall o, o_enabled o = en -> o_label o = LOp op -> o_res o = r ->
  incl (if en then cids s1 op r else []) (k_target (fst (on_label c k o))).
Proof.
  intros Hp [KNa KNb] Hnd s1 o He Hl Hr.
  destruct en; [|intros u []].
  unfold on_label. rewrite He, Hl, Hr. simpl negb. cbv iota.
  destruct op; try (intros u []); unfold cids.
  - (* OpCancel *)
    destruct r; try (intros u []). cbn [fst]. rewrite k_target_target. apply incl_appl, incl_refl.
  - (* OpCancelGroup *)
    destruct r; try (intros u []). cbn [fst]. rewrite k_target_target.
    change (groups s1) with (groups s).
    destruct (glookup g (groups s)) as [ids|] eqn:Hg; [|intros u []].
    apply incl_appl. unfold prevrel, prev_or in *.
    destruct (k_prev k) as [p|].
    + destruct Hp as [Hp _]. unfold group_ids. rewrite Hp. unfold groups_view.
      rewrite (glook_map (fun g => glookup g (groups s))) by (apply KNa; eapply ghas_of_glookup; eauto).
      rewrite Hg. apply incl_refl.
    + rewrite Hp in Hg. discriminate.
  - (* OpCancelAll *)
    cbn [fst]. rewrite k_target_target. change (groups s1) with (groups s).
    apply incl_appl. intros u Hu. apply in_concat in Hu. destruct Hu as (ids & Hids & Hu).
    apply in_map_iff in Hids. destruct Hids as ([g ids'] & E & Hin). simpl in E. subst ids'.
    pose proof (glookup_In _ g ids Hnd Hin) as Hg.
    unfold prevrel, prev_or in *. destruct (k_prev k) as [p|].
    + destruct Hp as [Hp _]. unfold all_ids. rewrite Hp. apply in_flat_map.
      exists (g, Some ids). split; [|exact Hu].
      unfold groups_view. apply in_map_iff. exists g. rewrite Hg. split; auto.
      apply KNa. eapply ghas_of_glookup; eauto.
    + rewrite Hp in Hin. destruct Hin.
  - (* OpStop *)
    destruct r; try (intros u []). cbn [fst]. rewrite k_target_target. apply incl_appl, incl_refl.
  - (* OpStopAll *)
    destruct r; try (intros u []). cbn [fst]. rewrite k_target_target. apply incl_appl, incl_refl.
Qed.
