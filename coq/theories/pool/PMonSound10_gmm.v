(** C10 monitor soundness, model side — [GMx] along the run of a spawner (no side conditions:
    a spawner whose group was cancelled may still register a task; [gadd] then re-creates the
    group, which is fine for [GM]). *)
From TP Require Import PInv_Q PMonSound10_gmdef.
Set Implicit Arguments. Unset Strict Implicit.

Definition ceq4 (s s1 : state) : Prop :=
  ptasks s1 = ptasks s /\ mtasks s1 = mtasks s /\ groups s1 = groups s /\
  num_started s1 = num_started s.

Lemma GMx_ceq s s1 : ceq4 s s1 -> GMx s -> GMx s1.
Proof. intros (A & B & C & D) H. eapply GMx_same; eauto. Qed.

Definition pend10 (s : state) (m : nat) (x : mtask) : Prop :=
  exists x0, get_m s m = Some x0 /\ m_group x = m_group x0.

Lemma GMx_upd s s' m x' :
  GMx s -> pend10 s m x' -> ptasks s' = ptasks s -> mtasks s' = upd (mtasks s) m x' ->
  groups s' = groups s -> num_started s' = num_started s ->
  GMx s' /\ get_m s' m = Some x'.
Proof.
  intros H (x0 & Hx0 & Hg) Ep Em Eg En. split.
  - eapply GMx_F2; [exact H| | |exact Eg|exact En]; rewrite ?Ep, ?Em.
    + apply Forall2_refl. apply keeps10_refl.
    + apply Forall2_upd_self; [apply gsame_refl|].
      unfold get_m in Hx0. intros z Hz. replace z with x0 by congruence. exact Hg.
  - unfold get_m in *. rewrite Em. eapply nth_error_upd_same; eauto.
Qed.

Lemma GMx_upd1 s s' m x' :
  GMx s -> pend10 s m x' -> ptasks s' = ptasks s -> mtasks s' = upd (mtasks s) m x' ->
  groups s' = groups s -> num_started s' = num_started s -> GMx s'.
Proof. intros. eapply GMx_upd; eauto. Qed.

Lemma pend10_self s m x : get_m s m = Some x -> pend10 s m x.
Proof. intros H. exists x. auto. Qed.

Lemma pend10_ceq s s1 m x : mtasks s1 = mtasks s -> pend10 s m x -> pend10 s1 m x.
Proof. intros E (x0 & A & B). exists x0. unfold get_m in *. rewrite E. auto. Qed.

Lemma pend10_chg s m x x' : pend10 s m x -> m_group x' = m_group x -> pend10 s m x'.
Proof. intros (x0 & A & B) Hg. exists x0. split; auto. congruence. Qed.

Lemma GMx_finish s m x e : GMx s -> pend10 s m x -> GMx (finish_m s m x e).
Proof.
  intros H Hp. destruct (finish_m_fields s m x e) as [Em (E1 & E2 & E3 & _)].
  eapply (@GMx_upd1 s _ m (fin_x x e));
    [exact H|eapply pend10_chg; eauto|exact E1|exact Em|exact E2|exact E3].
Qed.

Lemma GMx_suspend s m x pc : GMx s -> pend10 s m x -> GMx (suspend_m s m x pc).
Proof.
  intros H Hp. destruct (suspend_m_fields s m x pc) as [Em (E1 & E2 & E3 & _)].
  eapply (@GMx_upd1 s _ m (susp_x x pc));
    [exact H|eapply pend10_chg; eauto; unfold susp_x; destruct (m_mc x); reflexivity
    |exact E1|exact Em|exact E2|exact E3].
Qed.

Lemma GMx_to_iter s m : GMx s -> GMx (to_iter s m).
Proof.
  intros H. destruct (get_m s m) as [x|] eqn:Hx.
  - destruct (to_iter_fields Hx) as [Em (E1 & E2 & E3 & _)].
    eapply (@GMx_upd1 s _ m (set_m_pc x MAtIter));
      [exact H|eapply pend10_chg; [apply pend10_self; eauto|]; reflexivity
      |exact E1|exact Em|exact E2|exact E3].
  - unfold to_iter. rewrite Hx. exact H.
Qed.

(** ** registration *)
Lemma GMx_register s m x :
  GMx s -> pend10 s m x ->
  GMx (register s m x) /\ get_m (register s m x) m = Some (reg_x x).
Proof.
  intros [G L] (x0 & Hx0 & Hg).
  destruct (register_fields s m x) as (R1 & R2 & R3 & R4 & _).
  assert (Hm' : get_m (register s m x) m = Some (reg_x x)).
  { unfold get_m in *. rewrite R2. eapply nth_error_upd_same; eauto. }
  split; [split|exact Hm'].
  - intros t xt Hxt Hs.
    assert (Hpi : get_p s t = Some xt \/ (t = length (ptasks s) /\ xt = reg_p m x)).
    { unfold get_p in *. rewrite R1 in Hxt. apply nth_error_snoc_inv; auto. }
    destruct Hpi as [Hold|[Et Ex]].
    + destruct (G t xt Hold Hs) as (y & ids & Hy & Hl & Hi).
      destruct (get_m_upd_l R2 Hx0 Hy) as (y' & Hy' & Hc).
      assert (Eg : m_group y' = m_group y).
      { destruct Hc as [(_ & Ey' & Ey)|(_ & Ey')]; [|congruence].
        subst y' y. cbn. exact Hg. }
      exists y'. rewrite R3, Eg.
      destruct (gname_eqb_spec (m_group y) (m_group x)) as [E|Ne].
      * exists (dict_add ids (num_started s)). split; [exact Hy'|]. split.
        -- rewrite glookup_gadd, E, gname_eqb_refl, <- E, Hl. reflexivity.
        -- apply In_dict_add. left; exact Hi.
      * exists ids. split; [exact Hy'|]. split; [|exact Hi].
        rewrite glookup_gadd. destruct (gname_eqb_spec (m_group y) (m_group x)); [contradiction|].
        exact Hl.
    + subst t xt. change (p_req (reg_p m x)) with m.
      exists (reg_x x). rewrite R3. change (m_group (reg_x x)) with (m_group x).
      rewrite <- L.
      destruct (glookup (m_group x) (groups s)) as [v|] eqn:Ev.
      * exists (dict_add v (num_started s)). split; [exact Hm'|]. split.
        -- rewrite glookup_gadd, gname_eqb_refl, Ev. reflexivity.
        -- apply In_dict_add. right; reflexivity.
      * exists [num_started s]. split; [exact Hm'|]. split.
        -- rewrite glookup_gadd, gname_eqb_refl, Ev. reflexivity.
        -- left; reflexivity.
  - rewrite R4, R1, app_length. cbn [length]. lia.
Qed.

Lemma GMx_try_start s m x :
  GMx s -> pend10 s m x ->
  GMx (fst (try_start s m x)) /\
  (snd (try_start s m x) = true -> get_m (fst (try_start s m x)) m = Some (reg_x x)).
Proof.
  intros H Hp. unfold try_start. destruct (closed s); [|destruct (sem_locked s)]; cbn [fst snd].
  - split; [apply GMx_finish; auto|discriminate].
  - split; [|discriminate]. apply GMx_suspend.
    + eapply GMx_ceq; [|exact H]. unfold ceq4. cbn. auto.
    + eapply pend10_ceq; [|exact Hp]. reflexivity.
  - assert (H1 : GMx (set_sem_value s (ninf_pred (sem_value s))))
      by (eapply GMx_ceq; [|exact H]; unfold ceq4; cbn; auto).
    assert (Hp1 : pend10 (set_sem_value s (ninf_pred (sem_value s))) m x)
      by (eapply pend10_ceq; [|exact Hp]; reflexivity).
    destruct (GMx_register H1 Hp1) as [A B]. split; auto.
Qed.

Lemma GMx_apply_loop m rem : forall s, GMx s -> GMx (apply_loop rem s m).
Proof.
  induction rem as [|r IH]; intros s H; simpl;
    destruct (get_m s m) as [x|] eqn:Hx; auto.
  - apply GMx_finish; auto. apply pend10_self; auto.
  - destruct (nth (m_idx x) (m_bad x) false).
    + set (x' := set_m_idx x (S (m_idx x))).
      destruct (@GMx_upd s (put_m s m x') m x' H) as [A B]; try reflexivity.
      { eapply pend10_chg; [apply pend10_self; eauto|]; reflexivity. }
      apply IH; auto.
    + destruct (@GMx_try_start s m x H (pend10_self Hx)) as [A B].
      destruct (try_start s m x) as [s' cont]. cbn [fst snd] in *.
      destruct cont; auto.
Qed.

Lemma GMx_spawn_next s m : GMx s -> GMx (spawn_next s m).
Proof.
  intros H. unfold spawn_next. destruct (get_m s m) as [x|] eqn:Hx; auto.
  destruct (m_kind x); [apply GMx_apply_loop|apply GMx_to_iter|apply GMx_apply_loop]; auto.
Qed.

Lemma GMx_start_then_next s m x : GMx s -> pend10 s m x -> GMx (start_then_next s m x).
Proof.
  intros H Hp. destruct (@GMx_try_start s m x H Hp) as [A B].
  unfold start_then_next. destruct (try_start s m x) as [s' cont]. cbn [fst snd] in *.
  destruct cont; auto. apply GMx_spawn_next; auto.
Qed.

Theorem GMx_continue_m s m : GMx s -> GMx (continue_m s m).
Proof.
  intros H. unfold continue_m. destruct (get_m s m) as [x|] eqn:Hx; auto.
  destruct (m_pc x) eqn:Hpc; auto.
  pose proof (pend10_self Hx) as Hp.
  destruct (nth_error (m_els x) (m_idx x)) as [e|]; [|apply GMx_finish; auto].
  destruct (e_bad e).
  - set (x' := set_m_idx x (S (m_idx x))).
    destruct (@GMx_upd s (put_m s m x') m x' H) as [A B]; try reflexivity.
    { eapply pend10_chg; [exact Hp|]; reflexivity. }
    apply GMx_to_iter; auto.
  - destruct (m_mapval x); [apply GMx_suspend; auto|].
    apply GMx_start_then_next; auto.
Qed.

(** ** the semaphore *)
Lemma GMx_wake_next s : GMx s -> GMx (wake_next s).
Proof.
  intros H. unfold wake_next. destruct (first_pending s (sem_waiters s)) as [k|]; auto.
  destruct (get_m s k) as [y|] eqn:Hy; auto.
  eapply GMx_ceq with (s := put_m (set_sem_value s (ninf_pred (sem_value s))) k (set_m_fw y (Some FOk))).
  - unfold ceq4. autorewrite with fr. auto.
  - eapply (@GMx_upd1 s _ k (set_m_fw y (Some FOk))); try reflexivity; auto.
    eapply pend10_chg; [apply pend10_self; eauto|]; reflexivity.
Qed.

Lemma pend10_wake_next s m x : pend10 s m x -> pend10 (wake_next s) m x.
Proof.
  intros (x0 & Hx0 & Hg). unfold wake_next.
  destruct (first_pending s (sem_waiters s)) as [k|]; [|exists x0; auto].
  destruct (get_m s k) as [y|] eqn:Hy; [|exists x0; auto].
  unfold pend10, get_m. rewrite sched_mtasks. unfold put_m. cbn.
  destruct (Nat.eq_dec k m) as [->|Ne].
  - rewrite (nth_error_upd_same _ Hy). eexists. split; [reflexivity|].
    unfold get_m in *. replace x0 with y in * by congruence. cbn. auto.
  - rewrite nth_error_upd_neq by auto. exists x0. auto.
Qed.

Lemma GMx_sem_release s : GMx s -> GMx (sem_release s).
Proof.
  intros H. unfold sem_release. apply GMx_wake_next. eapply GMx_ceq; [|exact H].
  unfold ceq4. cbn. auto.
Qed.

Lemma pend10_sem_release s m x : pend10 s m x -> pend10 (sem_release s) m x.
Proof.
  intros H. unfold sem_release. apply pend10_wake_next. eapply pend10_ceq; [|exact H]. reflexivity.
Qed.

(** ** a spawner resumes *)
Theorem GMx_run_m s m : GMx s -> GMx (run_m s m).
Proof.
  intros H. destruct (get_m s m) as [x0|] eqn:Hx; [|unfold run_m; rewrite Hx; exact H].
  rewrite (run_m_eq Hx). cbv zeta.
  pose proof (pend10_self Hx) as Hp0.
  assert (Hp : pend10 s m (clr x0)) by (eapply pend10_chg; [exact Hp0|]; reflexivity).
  destruct (m_pc x0) eqn:Hpc; auto.
  - destruct (task_input (m_mc x0) (m_fw x0)) eqn:Hin; try (apply GMx_finish; auto).
    set (x1 := set_m_pc (clr x0) MLoopHead).
    destruct (@GMx_upd s (put_m s m x1) m x1 H) as [A B]; try reflexivity.
    { eapply pend10_chg; [exact Hp|]; reflexivity. }
    apply GMx_spawn_next; auto.
  - destruct (task_input (m_mc x0) (m_fw x0)) eqn:Hin.
    + apply GMx_start_then_next; auto.
    + apply GMx_finish; auto.
      destruct (match m_fw x0 with Some FCancelled => true | _ => false end); auto.
    + apply GMx_finish; auto.
      destruct (match m_fw x0 with Some FCancelled => true | _ => false end); auto.
  - set (sw := set_sem_waiters s (remove1 m (sem_waiters s))).
    assert (Hw : GMx sw) by (eapply GMx_ceq; [|exact H]; unfold ceq4; cbn; auto).
    assert (Hpw : pend10 sw m (clr x0)) by (eapply pend10_ceq; [|exact Hp]; reflexivity).
    destruct (@GMx_upd sw (put_m sw m (clr x0)) m (clr x0) Hw Hpw) as [A B]; try reflexivity.
    set (s1 := put_m sw m (clr x0)) in *.
    pose proof (pend10_self B) as Hp1.
    destruct (task_input (m_mc x0) (m_fw x0)) eqn:Hin.
    + set (s2 := if ninf_pos (sem_value s1) then wake_next s1 else s1).
      assert (H2 : GMx s2) by (unfold s2; destruct (ninf_pos _); auto using GMx_wake_next).
      assert (Hp2 : pend10 s2 m (clr x0))
        by (unfold s2; destruct (ninf_pos _); auto using pend10_wake_next).
      destruct (GMx_register H2 Hp2) as [C D].
      apply GMx_spawn_next; auto.
    + apply GMx_finish.
      * destruct (match m_fw x0 with Some FCancelled => true | _ => false end);
          auto using GMx_sem_release.
      * assert (Hq : pend10 (if match m_fw x0 with Some FCancelled => true | _ => false end
                             then s1 else sem_release s1) m (clr x0))
          by (destruct (match m_fw x0 with Some FCancelled => true | _ => false end);
              auto using pend10_sem_release).
        destruct (m_holds (clr x0)); auto.
    + apply GMx_finish.
      * destruct (match m_fw x0 with Some FCancelled => true | _ => false end);
          auto using GMx_sem_release.
      * assert (Hq : pend10 (if match m_fw x0 with Some FCancelled => true | _ => false end
                             then s1 else sem_release s1) m (clr x0))
          by (destruct (match m_fw x0 with Some FCancelled => true | _ => false end);
              auto using pend10_sem_release).
        destruct (m_holds (clr x0)); auto.
Qed.

Print Assumptions GMx_run_m.
Print Assumptions GMx_continue_m.
