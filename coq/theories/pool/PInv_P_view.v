(** View-level mirrors of the model functions that modify the P-view, with correspondence lemmas. *)
From TP Require Import PInv PInv_P_base.

Definition vget (v : pv) (t : nat) := nth_error (vpts v) t.
Definition vput (v : pv) (t : nat) (x : ptask) : pv :=
  mkpv (vR v) (vC v) (vE v) (vns v) (upd (vpts v) t x) (vnf v) (vts v) (vds v) (vtu v).
Definition vregs (v : pv) := vR v ++ vC v ++ vE v.

Definition fin_x (x : ptask) : ptask :=
  set_p_final (set_p_pc (set_p_mc (set_p_fw x None) false) PDone)
              (Some (final_of (p_exc x) (p_mc x))).
Definition finish_v (v : pv) t x := vput v t (fin_x x).

Definition suspend_x (x : ptask) (pc : ppc) : ptask :=
  if p_mc x then set_p_fw (set_p_mc (set_p_pc x pc) false) (Some FCancelled)
  else set_p_fw (set_p_pc x pc) (Some FPending).
Definition suspend_v (v : pv) t x pc := vput v t (suspend_x x pc).

Definition end_x (x : ptask) : ptask :=
  let x := set_p_nrel x (S (p_nrel x)) in
  match p_ecb x with
  | CbNone => fin_x x
  | _ => set_p_pc (set_p_necb x (S (p_necb x))) PUEndCb
  end.

Definition enter_end_v (v : pv) (t : nat) (x : ptask) : pv :=
  if mem t (vR v)
  then vput (mkpv (remove1 t (vR v)) (vC v) (dict_add (vE v) t) (vns v) (vpts v) (vnf v) (vts v) (vds v) (vtu v))
            t (end_x x)
  else if mem t (vC v)
  then vput (mkpv (vR v) (remove1 t (vC v)) (dict_add (vE v) t) (vns v) (vpts v) (vnf v) (vts v) (vds v) (vtu v))
            t (end_x x)
  else finish_v v t (set_p_exc x (Some EKeyError)).

Definition enter_cancel_v (v : pv) (t : nat) (x : ptask) : pv :=
  if mem t (vR v)
  then
    let v1 := mkpv (remove1 t (vR v)) (dict_add (vC v) t) (vE v) (vns v) (vpts v) (vnf v) (vts v) (vds v) (vtu v) in
    match p_ccb x with
    | CbNone => enter_end_v v1 t x
    | _ => vput v1 t (set_p_pc (set_p_nccb x (S (p_nccb x))) PUCancelCb)
    end
  else enter_end_v v t (set_p_exc x (Some EKeyError)).

Definition new_pt (m : nat) (x : mtask) : ptask :=
  mk_ptask m (m_idx x) (m_group x) (elem_w x) (m_ecb x) (m_ccb x) (is_map x)
           PCreated None false None FinReturn None UPlain 0 0 0 0.

Definition register_v (v : pv) (m : nat) (x : mtask) : pv :=
  mkpv (dict_add (vR v) (vns v)) (vC v) (vE v) (S (vns v)) (vpts v ++ [new_pt m x]) (vnf v) (vts v) (vds v) (vtu v).

Definition cancel_x (x : ptask) : ptask :=
  if fut_pending (p_fw x) then set_p_fw x (Some FCancelled) else set_p_mc x true.

Definition cancel_p_v (v : pv) (cur : bool) (t : nat) : pv :=
  match vget v t with
  | None => v
  | Some x =>
      match p_unst x with
      | UNone =>
          match p_final x with
          | Some _ => v
          | None =>
              vput (mkpv (vR v) (vC v) (vE v) (vns v) (vpts v) (vnf v)
                         (if cur && final_segment x then true else vts v) (vds v) (vtu v))
                   t (cancel_x x)
          end
      | _ => vput v t (set_p_unst x UDeferred)
      end
  end.

Definition after_g2_v (v : pv) (k : dkind) (snap : list nat) (outer : fut) : pv :=
  match outer with
  | FExc _ => v
  | FCancelled => v
  | _ =>
      match k with
      | DFlush _ =>
          let e' := filter (not_in snap) (vE v) in
          let c' := filter (not_in snap) (vC v) in
          mkpv (vR v) c' e' (vns v) (vpts v)
               (vnf v + ((length (vE v) - length e') + (length (vC v) - length c'))) (vts v) (vds v) (vtu v)
      | DGatherClose _ =>
          mkpv [] [] [] (vns v) (vpts v)
               (vnf v + (length (vE v) + length (vC v) + length (vR v))) (vts v) (vds v) (vtu v)
      | DUntilClosed => v
      end
  end.

(** ** Correspondence *)
Lemma pv_put_p s t x : pview (put_p s t x) = vput (pview s) t x.
Proof. reflexivity. Qed.

Lemma pv_finish_p s t x : pview (finish_p s t x) = finish_v (pview s) t x.
Proof. unfold finish_p. now rewrite pv_set_ctl, pv_sched_cbs. Qed.

Lemma pv_suspend_p s t x pc : pview (suspend_p s t x pc) = suspend_v (pview s) t x pc.
Proof.
  unfold suspend_p, suspend_v, suspend_x. destruct (p_mc x).
  - now rewrite pv_set_ctl, pv_sched.
  - reflexivity.
Qed.

Lemma pv_enter_end s t x : pview (enter_end s t x) = enter_end_v (pview s) t x.
Proof.
  unfold enter_end, enter_end_v. cbn [vR vC vE pview].
  destruct (mem t (t_running s)); [|destruct (mem t (t_cancelled s))].
  - cbn [p_ismap p_ecb set_p_nrel]. unfold end_x. cbn [p_ecb set_p_nrel].
    destruct (p_ecb x).
    + rewrite pv_finish_p. destruct (p_ismap x); [rewrite pv_map_release|];
        rewrite pv_sem_release; reflexivity.
    + rewrite pv_set_ctl, pv_emit, pv_put_p. destruct (p_ismap x); [rewrite pv_map_release|];
        rewrite pv_sem_release; reflexivity.
    + rewrite pv_set_ctl, pv_emit, pv_put_p. destruct (p_ismap x); [rewrite pv_map_release|];
        rewrite pv_sem_release; reflexivity.
  - cbn [p_ismap p_ecb set_p_nrel]. unfold end_x. cbn [p_ecb set_p_nrel].
    destruct (p_ecb x).
    + rewrite pv_finish_p. destruct (p_ismap x); [rewrite pv_map_release|];
        rewrite pv_sem_release; reflexivity.
    + rewrite pv_set_ctl, pv_emit, pv_put_p. destruct (p_ismap x); [rewrite pv_map_release|];
        rewrite pv_sem_release; reflexivity.
    + rewrite pv_set_ctl, pv_emit, pv_put_p. destruct (p_ismap x); [rewrite pv_map_release|];
        rewrite pv_sem_release; reflexivity.
  - apply pv_finish_p.
Qed.

Lemma pv_enter_cancel s t x : pview (enter_cancel s t x) = enter_cancel_v (pview s) t x.
Proof.
  unfold enter_cancel, enter_cancel_v. cbn [vR vC vE pview].
  destruct (mem t (t_running s)).
  - destruct (p_ccb x).
    + rewrite pv_enter_end. reflexivity.
    + rewrite pv_set_ctl, pv_emit, pv_put_p. reflexivity.
    + rewrite pv_set_ctl, pv_emit, pv_put_p. reflexivity.
  - apply pv_enter_end.
Qed.

Lemma pv_register s m x : pview (register s m x) = register_v (pview s) m x.
Proof. unfold register. rewrite pv_put_m, pv_sched. reflexivity. Qed.

Lemma pv_cancel_p s t : pview (cancel_p s t) = cancel_p_v (pview s) (is_current s (TP t)) t.
Proof.
  unfold cancel_p, cancel_p_v, vget, get_p, cancel_x. cbn [vpts pview].
  destruct (nth_error (ptasks s) t) as [x|]; auto.
  destruct (p_unst x); auto. destruct (p_final x); auto.
  destruct (fut_pending (p_fw x)); [rewrite pv_sched|]; rewrite pv_put_p;
    destruct (is_current s (TP t) && final_segment x); reflexivity.
Qed.

Lemma pc_after_g2 s d x outer :
  pcore (after_g2 s d x outer) = vcore (after_g2_v (pview s) (d_kind x) (d_snap x) outer).
Proof.
  unfold after_g2, after_g2_v.
  destruct outer; try apply pc_finish_d; destruct (d_kind x); try apply pc_finish_d;
    rewrite pc_finish_d, ?pc_wake_closed; reflexivity.
Qed.
