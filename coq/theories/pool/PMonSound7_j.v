(** Monitor soundness for C07 (late starts / late pulls) — the model side.

    Invariant [J7]: a task that was created but has not started, and whose start was not deferred
    by a cancellation ([p_unst = UPlain]), belongs to a request whose group was not cancelled.
    (A group cancellation defers the start of every unstarted task of the group; a dead request
    creates no further task — P-iter.)  Consequence [no_late_ev]: no step of a clean, P-iter run
    logs [EvStart] or [EvPull] for a request that is dead after the step. *)
From TP Require Import PInv PInv_P_base PInv_P_view PInv_P_inv PInv_P_tok PInv_P_tok2
  PInv_P_chain PInv_P_step PInv_P PSpecStep PStep_C_ev PStep_C_rel PStep_C_run PRun PWF.
From TP Require Import PInv_R_base PInv_R_tr PInv_Q_frame PInv_Q PStep_B_mr PStep_B_inv PStep_B.
From TP Require Import PMonSound2_op PMonSound_C06_mod PMonSound_C13_mod.
From TP Require Import PMonSound_C45_gistep PMonSound_C45_lab PMonSound_C45_prs.
From TP Require Import PMonSound7_pu.

Definition J7 (s : state) : Prop :=
  forall t x y, get_p s t = Some x -> p_unst x = UPlain -> get_m s (p_req x) = Some y ->
                m_dead y = false.

Lemma J7_init c : J7 (init c).
Proof. intros t x y H. unfold get_p in H. cbn in H. destruct t; discriminate. Qed.

(** ** counting the tasks of a request *)
Lemma count_pos_nth {A} (p : A -> bool) l : forall t x,
  nth_error l t = Some x -> p x = true -> 0 < count p l.
Proof.
  induction l as [|h r IH]; intros [|t] x Hx Hp; simpl in *; try discriminate.
  - inversion Hx; subst. rewrite Hp. lia.
  - specialize (IH t x Hx Hp). lia.
Qed.

Lemma count_grows {A} (p : A -> bool) l0 : forall l,
  (forall t x, nth_error l0 t = Some x -> exists x', nth_error l t = Some x' /\ p x' = p x) ->
  forall t x', length l0 <= t -> nth_error l t = Some x' -> p x' = true ->
  count p l0 < count p l.
Proof.
  induction l0 as [|a l0 IH]; intros l H t x' Hle Hx' Hp.
  - simpl. eapply count_pos_nth; eauto.
  - destruct (H 0 a eq_refl) as (a' & Ha' & Ea). destruct l as [|b l]; [discriminate|].
    simpl in Ha'. inversion Ha'; subst b. simpl in Hle.
    destruct t as [|t]; [lia|]. simpl in Hx'. simpl. rewrite Ea.
    assert (count p l0 < count p l); [|lia].
    apply (IH l (fun u x Hx => H (S u) x Hx) t x'); [lia|exact Hx'|exact Hp].
Qed.

Lemma tasks_of_grows s s' m t x' :
  UP7 s s' -> length (ptasks s) <= t -> get_p s' t = Some x' -> p_req x' = m ->
  tasks_of s m < tasks_of s' m.
Proof.
  intros H Hle Hx' Hm. unfold tasks_of.
  apply count_grows with (t := t) (x' := x'); [|exact Hle|exact Hx'|subst m; apply Nat.eqb_refl].
  intros u x Hx. destruct (H u x Hx) as (x2 & Hx2 & [R _]). exists x2. split; [exact Hx2|].
  rewrite R. reflexivity.
Qed.

(** ** which step logs [EvStart] *)
Definition ev_ok_st (s : state) (t : nat) (e : event) : Prop :=
  match e with
  | EvStart t' r _ =>
      t' = t /\ exists x, get_p s t = Some x /\ p_pc x = PCreated /\ p_unst x <> UDeferred /\
                          p_req x = r
  | _ => True
  end.

Definition no_start (e : event) : Prop := match e with EvStart _ _ _ => False | _ => True end.

Ltac stleaf E0 :=
  let He := fresh "He" in
  intros He;
  try (apply ev_enter_cancel in He; [|assumption]);
  try (apply ev_enter_end in He; [|assumption]);
  rewrite ?ev_finish_p, ?ev_suspend_p in He; try unfold emit in He;
  cbn [evs set_ctl emit set_evs put_p set_ptasks] in He; rewrite E0 in He; simpl in He;
  repeat match goal with H : _ \/ _ |- _ => destruct H end; try contradiction;
  subst; cbn; auto.

Lemma ev_run_p_st s t e : I1 s -> evs s = [] -> In e (evs (run_p s t)) -> ev_ok_st s t e.
Proof.
  intros H E0. apply I1_iff in H. unfold run_p.
  destruct (get_p s t) as [x0|] eqn:Ex; [|rewrite E0; intros []].
  cbv zeta. destruct (p_pc x0) eqn:Epc; try (rewrite E0; intros []).
  - destruct (task_input _ _); [destruct (p_unst _) eqn:Eu|..]; stleaf E0;
      (split; [reflexivity|]; exists x0; cbn in Eu; repeat split; auto; congruence).
  - destruct (task_input _ _); stleaf E0.
  - destruct (task_input _ _); stleaf E0.
  - destruct (task_input _ _); stleaf E0.
Qed.

Lemma ev_continue_p_st s t e : I1 s -> evs s = [] -> In e (evs (continue_p s t)) -> no_start e.
Proof.
  intros H E0. apply I1_iff in H. unfold continue_p.
  destruct (get_p s t) as [x0|] eqn:Ex; [|rewrite E0; intros []].
  destruct (p_pc x0) eqn:Epc; try (rewrite E0; intros []).
  - destruct (w_first (p_w x0)); stleaf E0.
  - destruct (p_fin x0); stleaf E0.
  - destruct (w_cancel (p_w x0)) eqn:Ew; stleaf E0.
  - destruct (p_ccb x0) as [|r|sl r]; [| |destruct sl]; stleaf E0.
  - destruct (p_ecb x0) as [|r|sl r]; [| |destruct sl]; stleaf E0.
Qed.

Lemma I1_pre s : I1 s -> I1 (pre s).
Proof. intros [a b c d]. constructor; assumption. Qed.

Lemma I1_pre_unsched s h : I1 s -> I1 (unsched (pre s) h).
Proof. intros [a b c d]. constructor; assumption. Qed.

Lemma evstart_step s l t r el :
  WF s -> Extra_P s -> In (EvStart t r el) (evs (step s l)) ->
  exists x, get_p s t = Some x /\ p_pc x = PCreated /\ p_unst x <> UDeferred /\ p_req x = r.
Proof.
  intros W EP Hin.
  destruct l as [h| |o].
  - destruct h as [[u|m|d]|d c].
    + revert Hin. unfold step. fold (pre s).
      destruct (negb (enabled (pre s) (LRun (HT (TP u))))); [intros []|]. cbn [run_handle].
      intros Hin. apply ev_run_p_st in Hin; [|exact (I1_pre_unsched s _ (wf1 _ W))|reflexivity].
      destruct Hin as [-> (x & Hx & A)]. exists x. split; [exact Hx|exact A].
    + revert Hin. unfold step. fold (pre s).
      destruct (negb (enabled (pre s) (LRun (HT (TM m))))); [intros []|]. cbn [run_handle].
      intros Hin. apply op_run_m in Hin. destruct Hin as [[]|(m' & k' & He)]. discriminate.
    + apply step_driver_events in Hin; auto. destruct Hin as [o He]. discriminate.
    + revert Hin. unfold step. fold (pre s).
      destruct (negb (enabled (pre s) (LRun (HG d c)))); [intros []|]. cbn [run_handle].
      rewrite ev_run_g. intros [].
  - revert Hin. unfold step. fold (pre s).
    destruct (negb (enabled (pre s) LGo)); [intros []|].
    destruct (ctl (pre s)) as [|[u|m|d]]; try (intros []).
    + intros Hin. apply ev_continue_p_st in Hin; [destruct Hin|exact (I1_pre s (wf1 _ W))|reflexivity].
    + intros Hin. apply op_continue_m in Hin. destruct Hin as [[]|(m' & k' & He)]. discriminate.
  - destruct (step_op_summary s o) as (E1 & _). cbv zeta in E1. rewrite E1 in Hin. destruct Hin.
Qed.

(** ** a group cancellation leaves no plain unstarted task in the group *)
Lemma cancel_p_noplain s t x' : get_p (cancel_p s t) t = Some x' -> p_unst x' <> UPlain.
Proof.
  unfold cancel_p. destruct (get_p s t) as [x|] eqn:Hx; [|congruence].
  pose proof (PInv_R_base.get_p_lt _ _ _ Hx) as Hlt.
  destruct (p_unst x) eqn:Hu.
  - destruct (p_final x); [intros H; replace x' with x by congruence; congruence|].
    set (s1 := if is_current s (TP t) && final_segment x then set_taint_self s true else s).
    assert (Hl1 : t < length (ptasks s1)) by (unfold s1; destruct (_ && _); exact Hlt).
    clearbody s1.
    destruct (fut_pending (p_fw x)); rewrite ?get_p_sched, get_p_put_p_eq by auto;
      intros H; inversion H; subst x'; cbn; congruence.
  - rewrite get_p_put_p_eq by auto. intros H; inversion H; subst x'; cbn; discriminate.
  - rewrite get_p_put_p_eq by auto. intros H; inversion H; subst x'; cbn; discriminate.
Qed.

Lemma fold_cancel_running_noplain ids : forall s t x x',
  get_p s t = Some x -> In t ids -> In t (t_running s) ->
  get_p (fold_left cancel_running ids s) t = Some x' -> p_unst x' <> UPlain.
Proof.
  induction ids as [|u r IH]; intros s t x x' Hx Hin Hr Hx'; [destruct Hin|]. simpl in Hx'.
  destruct (UP7_cancel_running s s u (UP7_refl s) t x Hx) as (x1 & Hx1 & R1).
  change (nth_error (ptasks (cancel_running s u)) t) with (get_p (cancel_running s u) t) in Hx1.
  destruct (Nat.eq_dec u t) as [->|Ne].
  - assert (Hn1 : p_unst x1 <> UPlain).
    { unfold cancel_running in Hx1. apply mem_In in Hr. rewrite Hr in Hx1.
      eapply cancel_p_noplain; eauto. }
    assert (HP : UP7 (cancel_running s t) (fold_left cancel_running r (cancel_running s t))).
    { apply UP7_fold; [|apply UP7_refl]. intros; apply UP7_cancel_running; auto. }
    destruct (HP t x1 Hx1) as (x2 & Hx2 & [_ R2]).
    unfold get_p in Hx'. replace x' with x2 by congruence. auto.
  - destruct Hin as [E|Hin]; [congruence|].
    apply (IH (cancel_running s u) t x1 x'); auto.
    rewrite t_running_cancel_running. exact Hr.
Qed.

Lemma cgb_noplain s g ids t x x' :
  get_p s t = Some x -> In t ids -> In t (t_running s) ->
  get_p (cancel_group_body s g ids) t = Some x' -> p_unst x' <> UPlain.
Proof.
  intros Hx Hin Hr Hx'. rewrite cancel_group_body_eq in Hx'.
  eapply fold_cancel_running_noplain with (x := x); [|exact Hin| |exact Hx'].
  - unfold get_p. change (ptasks (mark_dead ?a g)) with (ptasks a).
    rewrite ptasks_cancel_group_metas. exact Hx.
  - change (t_running (mark_dead ?a g)) with (t_running a).
    pose proof (pf_cancel_group_metas s g) as Hq. unfold pf in Hq.
    injection Hq as _ _ -> _ _ _. exact Hr.
Qed.

Lemma t_running_cancel_group_body s g ids : t_running (cancel_group_body s g ids) = t_running s.
Proof. pose proof (pf_cancel_group_body s g ids) as H. unfold pf in H. injection H. auto. Qed.

Lemma cag_noplain gs : forall s t x x' g ids,
  get_p s t = Some x -> In (g, ids) gs -> In t ids -> In t (t_running s) ->
  get_p (cancel_all_groups s gs) t = Some x' -> p_unst x' <> UPlain.
Proof.
  induction gs as [|[g0 ids0] gs IH]; intros s t x x' g ids Hx Hg Hin Hr Hx'; [destruct Hg|].
  simpl in Hx'.
  destruct (UP7_cancel_group_body s s g0 ids0 (UP7_refl s) t x Hx) as (x1 & Hx1 & R1).
  change (nth_error (ptasks (cancel_group_body s g0 ids0)) t)
    with (get_p (cancel_group_body s g0 ids0) t) in Hx1.
  destruct Hg as [E|Hg].
  - inversion E; subst g0 ids0.
    assert (Hn1 : p_unst x1 <> UPlain) by exact (cgb_noplain s g ids t x x1 Hx Hin Hr Hx1).
    pose proof (UP7_cancel_all_groups (cancel_group_body s g ids) gs _ (UP7_refl _)) as HP.
    destruct (HP t x1 Hx1) as (x2 & Hx2 & [_ R2]).
    unfold get_p in Hx'. replace x' with x2 by congruence. auto.
  - apply (IH (cancel_group_body s g0 ids0) t x1 x' g ids); auto.
    rewrite t_running_cancel_group_body. exact Hr.
Qed.

(** a plain unstarted task is filed as running, in the register of its (live) request's group *)
Lemma plain_running s t x : WF s -> get_p s t = Some x -> p_unst x = UPlain -> In t (t_running s).
Proof.
  intros W Hx Hu.
  assert (Hpc : p_pc x = PCreated) by (apply (I2_unst _ (wf2 _ W) t x Hx); congruence).
  apply (I2_run _ (wf2 _ W) t x Hx). rewrite Hpc. reflexivity.
Qed.

Lemma op_len s o : length (ptasks (step s (LOp o))) = length (ptasks s).
Proof.
  destruct (step_op_summary s o) as (_ & E2 & _). cbv zeta in E2.
  rewrite <- (map_length core_of), E2. apply map_length.
Qed.

Lemma op_back s o t x' :
  get_p (step s (LOp o)) t = Some x' -> exists x, get_p s t = Some x /\ prel x x'.
Proof.
  intros Hx'. apply (UP7_step_back s (LOp o) t x' Hx').
  rewrite <- (op_len s o). eapply PInv_R_base.get_p_lt; eauto.
Qed.

Lemma J7_cancel_group s g : WF s -> J7 s -> J7 (step s (LOp (OpCancelGroup g))).
Proof.
  intros W HJ t x' y' Hx' Hu' Hy'.
  destruct (op_back s _ t x' Hx') as (x & Hx & [Rq Ru]). specialize (Ru Hu').
  rewrite Rq in Hy'.
  destruct (IR_req _ (wfr _ W) t x Hx) as (y & Hy & _).
  pose proof (HJ t x y Hx Ru Hy) as Hd.
  pose proof (cancel_group_shape s g) as Hsh.
  destruct (glookup g (groups s)) as [ids|] eqn:Hg.
  - destruct Hsh as [Est _].
    set (s2 := set_groups (know (pre s) g) (gremove g (groups s))) in *.
    assert (Em : mtasks s2 = mtasks s) by (unfold s2; cbn [mtasks set_groups]; rewrite know_mtasks; reflexivity).
    assert (Ep : ptasks s2 = ptasks s) by (unfold s2; cbn [ptasks set_groups]; rewrite know_ptasks; reflexivity).
    assert (Er : t_running s2 = t_running s).
    { unfold s2. cbn. unfold know. destruct (existsb _ _); reflexivity. }
    rewrite Est in Hy', Hx'.
    destruct (cgb_exact s2 g ids) as [_ E].
    assert (Hy2 : get_m s2 (p_req x) = Some y) by (unfold get_m; rewrite Em; exact Hy).
    destruct (E _ _ _ Hy2 Hy') as [_ Hdd].
    destruct (m_dead y') eqn:Hd'; auto. exfalso.
    destruct (proj1 Hdd eq_refl) as [Hc|Hc]; [congruence|].
    destruct (IGr_member _ (wfgr _ W) t x y Hx Hy Hd) as (_ & ids' & Hl & Hin).
    rewrite Hc, Hg in Hl. inversion Hl; subst ids'.
    apply (cgb_noplain s2 g ids t x x'); auto.
    + unfold get_p. rewrite Ep. exact Hx.
    + rewrite Er. eapply plain_running; eauto.
  - rewrite Hsh in Hy'. unfold get_m in Hy'. cbn [mtasks set_res] in Hy'.
    rewrite know_mtasks in Hy'. change (mtasks (pre s)) with (mtasks s) in Hy'.
    unfold get_m in Hy. congruence.
Qed.

Lemma J7_cancel_all s : WF s -> J7 s -> J7 (step s (LOp OpCancelAll)).
Proof.
  intros W HJ t x' y' Hx' Hu' Hy'. exfalso.
  destruct (op_back s _ t x' Hx') as (x & Hx & [Rq Ru]). specialize (Ru Hu').
  destruct (IR_req _ (wfr _ W) t x Hx) as (y & Hy & _).
  pose proof (HJ t x y Hx Ru Hy) as Hd.
  destruct (IGr_member _ (wfgr _ W) t x y Hx Hy Hd) as (_ & ids & Hl & Hin).
  rewrite step_op in Hx' by reflexivity. cbn [do_op] in Hx'.
  change (groups (pre s)) with (groups s) in Hx'.
  apply (cag_noplain (rev (groups s)) (set_groups (pre s) []) t x x' (m_group y) ids); auto.
  - apply -> in_rev. apply glookup_In. exact Hl.
  - change (In t (t_running s)). eapply plain_running; eauto.
Qed.

(** ** [J7] is inductive along clean P-iter runs *)
Theorem J7_step s l :
  WFx s -> J7 s -> clean (step s l) -> taint_iter (step s l) = false -> J7 (step s l).
Proof.
  intros X HJ Hc Ht. pose proof (x_wf _ X) as W.
  destruct (kill_l l) eqn:Hk.
  { destruct l as [h| |o]; try discriminate Hk. destruct o; try discriminate Hk.
    - apply J7_cancel_group; auto.
    - apply J7_cancel_all; auto. }
  intros t x' y' Hx' Hu' Hy'.
  destruct (Nat.lt_ge_cases t (length (ptasks s))) as [Hlt|Hge].
  - (* a task that existed before the step *)
    destruct (UP7_step_back s l t x' Hx' Hlt) as (x & Hx & [Rq Ru]). specialize (Ru Hu').
    rewrite Rq in Hy'.
    destruct (IR_req _ (wfr _ W) t x Hx) as (y & Hy & _).
    pose proof (HJ t x y Hx Ru Hy) as Hd.
    destruct (spawn_l l) eqn:Hs.
    + destruct (step_spawn s l Hs) as (_ & _ & [[Em _]|(xn & Em & _)]);
        unfold get_m in Hy'; rewrite Em in Hy'; change (mtasks (reset s)) with (mtasks s) in Hy'.
      * unfold get_m in Hy. congruence.
      * rewrite nth_error_app1 in Hy' by (eapply get_m_lt; eauto).
        unfold get_m in Hy. congruence.
    + rewrite (step_dead_same Hs Hk Hy Hy'). exact Hd.
  - (* a task created by this step: its request creates, hence is not dead *)
    assert (Hs : spawn_l l = false).
    { destruct l as [h| |o]; auto. exfalso.
      apply PInv_R_base.get_p_lt in Hx'. rewrite op_len in Hx'. lia. }
    assert (W' : WF (step s l)) by (apply WF_step; auto).
    destruct (@get_m_ex s (p_req x')) as [y Hy].
    { rewrite <- (@step_len_nospawn s l Hs). eapply get_m_len; eauto. }
    rewrite (step_dead_same Hs Hk Hy Hy').
    destruct (m_dead y) eqn:Hd; auto. exfalso.
    destruct (C07_no_late_holds s l W (x_diter _ X) Hc Ht _ _ _ Hy Hd Hy') as (En & _).
    pose proof (tasks_of_grows s (step s l) (p_req x') t x' (UP7_step s l) Hge Hx' eq_refl) as Hg.
    rewrite <- (IR_ncreated _ (wfr _ W) _ _ Hy), <- (IR_ncreated _ (wfr _ W') _ _ Hy') in Hg. lia.
Qed.

Theorem J7_run c tr : clean (run c tr) -> taint_iter (run c tr) = false -> J7 (run c tr).
Proof.
  induction tr as [|l tr IH] using rev_ind; intros Hc Ht.
  - apply J7_init.
  - rewrite run_snoc in *.
    assert (Hc0 : clean (run c tr)) by (eapply clean_step_inv'; eauto).
    assert (Ht0 : taint_iter (run c tr) = false) by (eapply taint_iter_step_inv; eauto).
    apply J7_step; auto. apply WFx_run; auto.
Qed.

(** ** no late start, no late pull *)
Lemma no_late_ev_nk s l :
  spawn_l l = false -> kill_l l = false ->
  WFx s -> J7 s -> clean (step s l) -> taint_iter (step s l) = false ->
  forall m y', get_m (step s l) m = Some y' -> m_dead y' = true ->
    (forall k, ~ In (EvPull m k) (evs (step s l))) /\
    (forall t el, ~ In (EvStart t m el) (evs (step s l))).
Proof.
  intros Hs Hk X HJ Hc Ht m y' Hy' Hd'. pose proof (x_wf _ X) as W.
  destruct (@get_m_ex s m) as [y Hy].
  { rewrite <- (@step_len_nospawn s l Hs). eapply get_m_len; eauto. }
  pose proof (step_dead_same Hs Hk Hy Hy') as Hdd. rewrite Hd' in Hdd. symmetry in Hdd.
  destruct (C07_no_late_holds s l W (x_diter _ X) Hc Ht _ _ _ Hy Hdd Hy') as (_ & _ & Hp & _).
  split; [exact Hp|].
  intros t el Hin.
  destruct (evstart_step s l t m el W (x_p _ X) Hin) as (x & Hx & Hpc & Hu & Hr).
  assert (Hpl : p_unst x = UPlain).
  { destruct (p_unst x) eqn:E; auto; [|congruence].
    exfalso. apply (proj2 (I2_unst _ (wf2 _ W) t x Hx) Hpc). exact E. }
  rewrite <- Hr in Hy. rewrite (HJ t x y Hx Hpl Hy) in Hdd. discriminate.
Qed.

Theorem no_late_ev s l :
  WFx s -> J7 s -> clean (step s l) -> taint_iter (step s l) = false ->
  forall m y', get_m (step s l) m = Some y' -> m_dead y' = true ->
    (forall k, ~ In (EvPull m k) (evs (step s l))) /\
    (forall t el, ~ In (EvStart t m el) (evs (step s l))).
Proof.
  intros X HJ Hc Ht m y' Hy' Hd'.
  destruct l as [h| |o].
  - apply (no_late_ev_nk s (LRun h) eq_refl eq_refl X HJ Hc Ht m y' Hy' Hd').
  - apply (no_late_ev_nk s LGo eq_refl eq_refl X HJ Hc Ht m y' Hy' Hd').
  - destruct (step_op_summary s o) as (E1 & _). cbv zeta in E1. rewrite E1.
    split; intros; intros [].
Qed.
