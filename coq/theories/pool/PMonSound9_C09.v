(** Monitor soundness for C09: on the model's own observation stream (clean run) the executable
    monitor of PMon.v never reports a violated clause of property 9 ([C09_no_trace],
    [C09_error_class], [C09_lock_state]).

    Relation between the model state and the tracker: the tracker's driver kinds are the model's
    (RR13), the previous observation is the observation of the current state (prev_rel), and
    [k_closed k = closed s]. *)
From TP Require Import PInv PInv_P_base PInv_P PSpec PSpecStep PStep_B_c09 PStep_D_base PStep_D
  PMon PRun PWF
  PMonSound_trk PMonSound_gen PMonSound_kn PMonSound_C06_mod PMonSound_C06 PMonSound_C07
  PMonSound_C13_kd PMonSound_C13_mod PMonSound_C13_trk PMonSound_C13
  PMonSound9_trk PMonSound9_mod.

Definition RR9 (c : config) (s : state) (k : trk) : Prop :=
  RR13 c s k /\ k_closed k = closed s.

Lemma RR9_init c : RR9 c (init c) (trk_init c).
Proof. split; [apply RR13_init|reflexivity]. Qed.

(** ** the monitor's expectation, read off the model *)
Lemma err_eqb_refl e : err_eqb e e = true.
Proof. destruct e; reflexivity. Qed.

Lemma exp_mexp k s lp enp noncoro nc_bad g :
  KN s -> k_closed k = closed s ->
  expected_spawn_err k (obs_of s lp enp) noncoro nc_bad g = mexp s noncoro nc_bad g.
Proof.
  intros HK Hc. unfold expected_spawn_err, mexp. rewrite Hc. cbn [o_locked obs_of].
  destruct g as [n|]; [|reflexivity].
  unfold group_live. rewrite group_ids_obs by exact HK. unfold ghas. reflexivity.
Qed.

Lemma sp9_nil c s k s' l en noncoro nc_bad g :
  prev_rel c s k -> KN s -> k_closed k = closed s ->
  spawn_res (pre s) g noncoro nc_bad s' ->
  sp9 k (obs_of s' l en) (match k_prev k with None => true | Some _ => false end)
      noncoro nc_bad g = [].
Proof.
  intros HP HK Hc Hm. unfold sp9, spawn_res in *. cbv zeta.
  change (mexp (pre s) noncoro nc_bad g) with (mexp s noncoro nc_bad g) in Hm.
  cbn [o_res obs_of].
  destruct HP as [[Hp _]|(lp & enp & Hp)]; unfold prev_or; rewrite Hp.
  - destruct (mexp s noncoro nc_bad g) as [e|].
    + rewrite Hm. reflexivity.
    + destruct Hm as [n Hn]. rewrite Hn. reflexivity.
  - rewrite (exp_mexp k s lp enp noncoro nc_bad g HK Hc).
    destruct (mexp s noncoro nc_bad g) as [e|].
    + rewrite Hm. cbn [res set_res]. rewrite err_eqb_refl, same_public_kn. reflexivity.
    + destruct Hm as [n Hn]. rewrite Hn. reflexivity.
Qed.

(** ** the label part produces no clause of property 9 *)
Lemma lcl9_nil c s k l :
  RR9 c s k ->
  lcl9 k (obs_of (step s l) l (enabled (set_res (set_evs s []) RNone) l)) = [].
Proof.
  intros (((tr0 & Hs) & _ & HP) & Hcl). fold (pre s).
  assert (HK : KN s) by (rewrite Hs; apply KN_run).
  unfold lcl9. cbn [o_enabled o_label obs_of].
  destruct (enabled (pre s) l) eqn:En; cbn [negb]; [|reflexivity].
  cbv zeta. destruct l as [h| |op]; [reflexivity|reflexivity|].
  destruct op; try reflexivity.
  - apply (sp9_nil c s k _ _ _ _ _ _ HP HK Hcl). rewrite step_op by exact En. apply apply_res.
  - apply (sp9_nil c s k _ _ _ _ _ _ HP HK Hcl). rewrite step_op by exact En. apply map_res.
  - apply (sp9_nil c s k _ _ _ _ _ _ HP HK Hcl). rewrite step_op by exact En. apply start_res.
  - destruct v as [v|]; [reflexivity|]. rewrite step_op by exact En. unfold do_op.
    destruct HP as [[Hp _]|(lp & enp & Hp)]; unfold prev_or; rewrite Hp; [reflexivity|].
    cbn [orb]. rewrite (same_public_kn s None). reflexivity.
Qed.

(** ** [closed] after a step, from the events of the step *)
Lemma closed_evs c tr0 l :
  let s := run c tr0 in
  clean (step s l) ->
  closed (step s l) =
    closed s || existsb (cev (map d_kind (dtasks (step s l)))) (evs (step s l)).
Proof.
  intros s Hc.
  assert (Hcs : clean s) by (eapply clean_step_inv'; eauto).
  pose proof (WFx_run c tr0 Hcs) as X. fold s in X.
  pose proof (x_wf _ X) as W. pose proof (x_p _ X) as EP. pose proof (x_d _ X) as ED.
  assert (Hrun : step s l = run c (tr0 ++ [l])) by (rewrite run_snoc; reflexivity).
  assert (X' : WFx (step s l)) by (rewrite Hrun; apply WFx_run; rewrite <- Hrun; exact Hc).
  pose proof (C08_of_WF _ (x_wf _ X') (x_d _ X')) as S8.
  destruct (closed_step s l W ED) as [E|(E & d & x & re & -> & Hx & Hk & Hin)].
  - rewrite E. destruct (closed s) eqn:Ecs; [reflexivity|]. cbn [orb].
    destruct (existsb _ _) eqn:Eex; [|reflexivity]. exfalso.
    apply existsb_exists in Eex. destruct Eex as (e & Hin & Hcev).
    destruct e as [| | | | | | |d oc]; try discriminate Hcev.
    destruct oc; try discriminate Hcev. cbn [cev] in Hcev.
    destruct (step_driver_done s l d OResult W EP Hin) as (_ & x & x' & _ & Hx' & Hfin & _).
    rewrite nth_error_map in Hcev. unfold get_d in Hx'. rewrite Hx' in Hcev.
    cbn [option_map] in Hcev. destruct (d_kind x') as [re|re|] eqn:Ek; try discriminate Hcev.
    pose proof (c08_gac_done _ S8 d x' re Hx' Ek Hfin) as Hcl. congruence.
  - rewrite E. symmetry. apply orb_true_iff. right. apply existsb_exists.
    exists (EvDriverDone d OResult). split; [exact Hin|]. cbn [cev].
    rewrite KD_step. cbn [drv_kinds]. rewrite app_nil_r, nth_error_map.
    unfold get_d in Hx. rewrite Hx. cbn [option_map]. rewrite Hk. reflexivity.
Qed.

(** ** one observation *)
Lemma mon_step_sound9 c s k l :
  RR9 c s k -> clean (step s l) ->
  let o := obs_of (step s l) l (enabled (set_res (set_evs s []) RNone) l) in
  fp 9 (snd (mon_step c k o)) = [] /\ RR9 c (step s l) (fst (mon_step c k o)).
Proof.
  intros HR Hc o. pose proof HR as (((tr0 & Hs) & HKd & HP) & Hcl).
  destruct (mon_step_9 c k o) as (Hf & Hk').
  split; [rewrite Hf; apply (lcl9_nil c s k l HR)|].
  assert (Hrun : step s l = run c (tr0 ++ [l])) by (rewrite run_snoc, Hs; reflexivity).
  destruct (mon_step_13 c k o) as (_ & (D1 & D2 & D3) & _ & Hd' & _ & Hp' & _).
  cbv zeta in *. change (o_events o) with (evs (step s l)) in *.
  pose proof (on_events_d3 (evs (step s l)) (fst (on_label c k o)) o) as Hd3.
  assert (Hdi : dinfo (fst (mon_step c k o)) = dinfo k ++ dnew k o).
  { rewrite Hd'. unfold d3 in Hd3. injection Hd3 as E1 _ _. now rewrite E1, D1. }
  assert (Hkinds : kinds k ++ map (fun i => fst (fst i)) (dnew k o)
                   = map d_kind (dtasks (step s l))).
  { unfold kinds. rewrite HKd, KD_step. f_equal. apply dnew_kinds. }
  split; [split; [exists (tr0 ++ [l]); exact Hrun|split]|].
  - rewrite Hdi, map_app. exact Hkinds.
  - right. eexists. eexists. exact Hp'.
  - rewrite Hk', Hkinds, Hcl. subst s. symmetry. apply closed_evs. exact Hc.
Qed.

Lemma mon_run_sound9 c : forall tr s k i,
  RR9 c s k -> clean (fold_left step tr s) -> mon_run c 9 k i (observe_from s tr) = None.
Proof.
  induction tr as [|l tr IH]; intros s k i HR Hc; simpl; auto.
  simpl in Hc.
  assert (Hc1 : clean (step s l)) by (eapply clean_fold_inv; eauto).
  destruct (mon_step_sound9 c s k l HR Hc1) as [Hf HR'].
  cbv zeta in Hf, HR'.
  destruct (mon_step c k _) as [k' cs]. simpl in Hf, HR'. unfold fp in Hf. rewrite Hf.
  apply IH; auto.
Qed.

Theorem mon_C09_sound : forall c tr, clean (run c tr) -> PMon.ok_C09 c (PObs.observe c tr) = true.
Proof.
  intros c tr Hc. unfold ok_C09, ok_prop, observe.
  rewrite (mon_run_sound9 c tr (init c) (trk_init c) 0); auto. apply RR9_init.
Qed.

Print Assumptions mon_C09_sound.
