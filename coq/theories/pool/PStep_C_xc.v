(** Extra_C (only until_closed drivers wait for the pool to close) is inductive. *)
From TP Require Import PInv PInv_P_base PInv_P_view PInv_P_inv PInv_P_tok PInv_P_tok2
  PInv_P_chain PInv_P_step PInv_P_ed PSpecStep PStep_C_drv.

Definition okc (x : dtask) : Prop := d_pc x = DWaitClosed -> d_kind x = DUntilClosed.

Lemma XC_dt s s' : dtasks s' = dtasks s -> Extra_C s -> Extra_C s'.
Proof. intros E H d x. unfold get_d. rewrite E. apply H. Qed.

Lemma XC_pv s s' : pview s' = pview s -> Extra_C s -> Extra_C s'.
Proof. intros E. apply XC_dt. change (vds (pview s') = vds (pview s)). now rewrite E. Qed.

Lemma XC_Qpv : Qpv Extra_C.
Proof. intros s s'. apply XC_pv. Qed.

Lemma XC_Qreg : Qreg Extra_C.
Proof.
  intros s m x. apply XC_dt. change (vds (pview (register s m x)) = vds (pview s)).
  rewrite pv_register. reflexivity.
Qed.

Lemma XC_do_cancel s ids : Extra_C s -> Extra_C (do_cancel s ids).
Proof.
  intros H. unfold do_cancel. destruct (first_lookup_err s ids).
  - eapply XC_pv; [|exact H]. reflexivity.
  - apply fold_inv; auto. intros s0 a. apply XC_dt, dt_cancel_p.
Qed.

Lemma XC_cancel_group_body s g ids : Extra_C s -> Extra_C (cancel_group_body s g ids).
Proof.
  intros H. unfold cancel_group_body. apply fold_inv.
  - intros s0 t H0. destruct (mem t (t_running s0)); auto. eapply XC_dt; [apply dt_cancel_p|auto].
  - eapply XC_pv; [|exact H]. rewrite pv_mark_dead. apply pv_cancel_group_metas.
Qed.

Lemma XC_cancel_all_groups gs : forall s, Extra_C s -> Extra_C (cancel_all_groups s gs).
Proof.
  induction gs as [|[g ids] r IH]; simpl; intros s H; auto.
  apply IH. now apply XC_cancel_group_body.
Qed.

Lemma XC_stop_res s ids :
  Extra_C s -> Extra_C (match res s with RErr _ => s | _ => set_res s (RIds ids) end).
Proof. intros H. destruct (res s); auto; (eapply XC_pv; [|exact H]; reflexivity). Qed.

Lemma XC_put_d s d x' : Extra_C s -> okc x' -> Extra_C (put_d s d x').
Proof.
  intros H Hx d' x. unfold get_d, put_d. cbn [dtasks set_dtasks]. rewrite nth_error_upd.
  destruct (Nat.eqb d d').
  - destruct (Nat.ltb _ _); [|discriminate]. intros [= <-]. auto.
  - apply H.
Qed.

Lemma XC_sched s h : Extra_C s -> Extra_C (sched s h).
Proof. apply XC_pv, pv_sched. Qed.

Lemma XC_finish_d s d x e : Extra_C s -> Extra_C (finish_d s d x e).
Proof.
  intros H. unfold finish_d. eapply XC_dt with (s := put_d s d _); [reflexivity|].
  apply XC_put_d; auto. unfold okc. cbn. congruence.
Qed.

Lemma XC_wake_closed ds : forall s, Extra_C s -> Extra_C (wake_closed s ds).
Proof.
  induction ds as [|d r IH]; simpl; intros s H; auto. apply IH.
  destruct (get_d s d) as [x|] eqn:Ex; auto. destruct (fut_pending _); auto.
  apply XC_sched, XC_put_d; auto. exact (H d x Ex).
Qed.

Lemma XC_after_g2 s d x outer : Extra_C s -> Extra_C (after_g2 s d x outer).
Proof.
  intros H. unfold after_g2.
  destruct outer; try (now apply XC_finish_d); destruct (d_kind x); try (now apply XC_finish_d);
    apply XC_finish_d; try apply XC_wake_closed; (eapply XC_dt; [|exact H]; reflexivity).
Qed.

Lemma XC_start_g2 s d x cs re : Extra_C s -> Extra_C (start_g2 s d x cs re).
Proof.
  intros H. unfold start_g2. destruct (make_gather _ _ _) as [g outer].
  destruct outer; try (now apply XC_after_g2).
  eapply XC_dt with (s := put_d s d _); [reflexivity|]. apply XC_put_d; auto.
  unfold okc. cbn. congruence.
Qed.

Lemma XC_after_g1 s d x outer : Extra_C s -> Extra_C (after_g1 s d x outer).
Proof.
  intros H. unfold after_g1. destruct (d_kind x).
  - assert (Hgo : forall cs, Extra_C (start_g2 (set_meta_cancelled s []) d x cs re)).
    { intros cs. apply XC_start_g2. eapply XC_dt; [|exact H]; reflexivity. }
    destruct outer as [| |e|]; auto. destruct e; auto using XC_finish_d.
  - destruct (if re then None else _); [now apply XC_finish_d|].
    apply XC_start_g2. eapply XC_dt; [|exact H]; reflexivity.
  - now apply XC_finish_d.
Qed.

Lemma XC_start_g1 s d x cs re : Extra_C s -> Extra_C (start_g1 s d x cs re).
Proof.
  intros H. unfold start_g1. destruct (make_gather _ _ _) as [g outer].
  destruct outer; try (now apply XC_after_g1).
  eapply XC_dt with (s := put_d s d _); [reflexivity|]. apply XC_put_d; auto.
  unfold okc. cbn. congruence.
Qed.

Lemma XC_run_d s d : Extra_C s -> Extra_C (run_d s d).
Proof.
  intros H. unfold run_d. destruct (get_d s d) as [x0|]; auto.
  destruct (d_pc x0); auto.
  - destruct (d_kind (set_d_fw x0 None)) eqn:Ek.
    + destruct (pop_ended s (gmeta s)) as [gm ended]. apply XC_start_g1.
      eapply XC_dt; [|exact H]; reflexivity.
    + apply XC_start_g1. eapply XC_dt; [|exact H]; reflexivity.
    + destruct (closed s); [now apply XC_finish_d|].
      eapply XC_dt with (s := put_d _ d _); [reflexivity|]. apply XC_put_d.
      * eapply XC_dt; [|exact H]; reflexivity.
      * unfold okc. cbn. intros _. exact Ek.
  - now apply XC_after_g1.
  - now apply XC_after_g2.
  - apply XC_finish_d. eapply XC_dt; [|exact H]; reflexivity.
Qed.

Lemma XC_run_g s d c : Extra_C s -> Extra_C (run_g s d c).
Proof.
  intros H. unfold run_g. destruct (get_d s d) as [x|] eqn:Ex; auto.
  destruct (tref_final s c); auto.
  pose proof (H d x Ex) as Hx. unfold okc in *.
  repeat (first [assumption | apply XC_sched | apply XC_put_d; [assumption|] | dmatch]);
    unfold okc; cbn; auto.
Qed.

Lemma XC_do_op s o : Extra_C s -> Extra_C (do_op s o).
Proof.
  intros H. destruct (op_other o) eqn:Eo.
  { destruct (op_driver o) eqn:Ed.
    - destruct o; try discriminate; unfold do_op.
      { eapply XC_dt; [|exact H]. destruct (Nat.ltb 0 (n_gac s)); reflexivity. }
      apply XC_sched.
      intros d x. unfold get_d. cbn [dtasks set_dtasks].
      assert (Hd : dtasks (match k with
                           | DGatherClose _ => set_n_gac s (S (n_gac s)) | _ => s end) = dtasks s)
        by (destruct k; reflexivity).
      rewrite Hd, nth_error_snoc.
      destruct (Nat.ltb _ _); [apply H|]. destruct (Nat.eqb _ _); [|discriminate].
      intros [= <-]. cbn. discriminate.
    - eapply XC_pv; [apply pv_do_op_other; auto|auto]. }
  destruct o; try discriminate; unfold do_op.
  - now apply XC_do_cancel.
  - assert (Hk : Extra_C (know s g)) by (eapply XC_pv; eauto using pv_know).
    destruct (glookup g (groups (know s g))).
    + apply XC_cancel_group_body. eapply XC_pv; [|exact Hk]; reflexivity.
    + eapply XC_pv; [|apply Hk]. reflexivity.
  - apply XC_cancel_all_groups. eapply XC_pv; [|exact H]; reflexivity.
  - apply XC_stop_res. now apply XC_do_cancel.
  - apply XC_stop_res. now apply XC_do_cancel.
  - destruct (get_p s tid) as [x|] eqn:Ex; auto. apply XC_sched.
    eapply XC_dt; [|exact H]; reflexivity.
  - destruct (get_p s tid) as [x|] eqn:Ex; auto. apply XC_sched.
    eapply XC_dt; [|exact H]; reflexivity.
Qed.

Lemma Extra_C_init c : Extra_C (init c).
Proof. intros d x H. unfold get_d in H. cbn in H. now destruct d. Qed.

Lemma Extra_C_step s l : Extra_C s -> Extra_C (step s l).
Proof.
  intros H.
  assert (H1 : Extra_C (set_res (set_evs s []) RNone)) by (eapply XC_dt; [|exact H]; reflexivity).
  unfold step. destruct (negb _); auto.
  destruct l as [h| |o].
  - assert (H2 : Extra_C (unsched (set_res (set_evs s []) RNone) h))
      by (eapply XC_dt; [|exact H1]; reflexivity).
    destruct h as [[t|m|d]|d c]; cbn [run_handle].
    + eapply XC_dt; [apply dt_run_p|auto].
    + apply (Q_run_m Extra_C XC_Qpv XC_Qreg); auto.
    + now apply XC_run_d.
    + now apply XC_run_g.
  - destruct (ctl _) as [|[t|m|d]]; auto.
    + eapply XC_dt; [apply dt_continue_p|auto].
    + apply (Q_continue_m Extra_C XC_Qpv XC_Qreg); auto.
  - now apply XC_do_op.
Qed.
