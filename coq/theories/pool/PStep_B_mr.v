(** A relational summary of what any computation inside one step does to the spawner records,
    to [gmeta], to the event list and to [taint_iter]:  [MR a dk s0 s]  relates a base state
    [s0] to a later state [s];  [a] is the spawner that is executing (if any), [dk] tells whether
    the ghost [m_dead] may change (only the group-cancelling operations set it).

    - no spawner is added; every spawner of [s0] is still there, with the same group (and the same [m_dead] unless
      [dk]); if it is not the executing one, its pc / index / outcome / creation count are
      unchanged (only [m_fw], [m_mc], [m_mapval], [m_dead] of a passive spawner ever change);
    - every list in [gmeta s] is a sublist (as a set) of the list under the same key in [gmeta s0];
    - the events added are [EvPull] of the executing spawner, [EvStart] of tasks that existed in
      [s0], or events of other kinds;
    - [taint_iter] is monotone. *)
From TP Require Import PInv PInv_R_base PInv_R_tr.

Definition ev_ok (a : option nat) (np : nat) (e : event) : Prop :=
  match e with
  | EvPull m _ => a = Some m
  | EvStart t _ _ => t < np
  | _ => True
  end.

Definition passive (y y' : mtask) : Prop :=
  m_pc y' = m_pc y /\ m_idx y' = m_idx y /\ m_final y' = m_final y /\
  m_ncreated y' = m_ncreated y.

Definition mrel (a : option nat) (dk : bool) (m : nat) (y y' : mtask) : Prop :=
  m_group y' = m_group y /\ (dk = false -> m_dead y' = m_dead y) /\
  (a <> Some m -> passive y y').

Record MR (a : option nat) (dk : bool) (s0 s : state) : Prop := {
  MR_len : length (mtasks s) = length (mtasks s0);
  MR_rec : forall m y, get_m s0 m = Some y -> exists y', get_m s m = Some y' /\ mrel a dk m y y';
  MR_gmeta : forall g ms', In (g, ms') (gmeta s) ->
                           exists ms, In (g, ms) (gmeta s0) /\ incl ms' ms;
  MR_evs : forall e, In e (evs s) -> In e (evs s0) \/ ev_ok a (length (ptasks s0)) e;
  MR_taint : taint_iter s0 = true -> taint_iter s = true
}.

Lemma passive_refl y : passive y y.
Proof. unfold passive. auto. Qed.

Lemma mrel_refl a dk m y : mrel a dk m y y.
Proof. unfold mrel. split; auto. split; auto. intros _. apply passive_refl. Qed.

Lemma MR_refl a dk s : MR a dk s s.
Proof.
  constructor; auto.
  - intros m y Hy. exists y. split; auto. apply mrel_refl.
  - intros g ms H. exists ms. split; auto. apply incl_refl.
Qed.

Lemma MR_frame a dk s0 s s' :
  MR a dk s0 s -> mtasks s' = mtasks s -> gmeta s' = gmeta s -> evs s' = evs s ->
  taint_iter s' = taint_iter s -> MR a dk s0 s'.
Proof.
  intros [H1 H2 H3 H4 H5] Em Eg Ee Et. constructor; unfold get_m in *;
    rewrite ?Em, ?Eg, ?Ee, ?Et; auto.
Qed.

Lemma MR_weaken_a m dk s0 s : MR None dk s0 s -> MR (Some m) dk s0 s.
Proof.
  intros [H1 H2 H3 H4 H5]. constructor; auto.
  - intros k y Hy. destruct (H2 k y Hy) as (y' & Hy' & Hg & Hd & Hp).
    exists y'. split; auto. split; auto. split; auto. intros _. apply Hp. discriminate.
  - intros e He. destruct (H4 e He) as [?|Hk]; auto. right.
    destruct e; simpl in *; auto; discriminate.
Qed.

Lemma MR_weaken_dk a s0 s : MR a false s0 s -> MR a true s0 s.
Proof.
  intros [H1 H2 H3 H4 H5]. constructor; auto.
  intros k y Hy. destruct (H2 k y Hy) as (y' & Hy' & Hg & Hd & Hp).
  exists y'. split; auto. split; [auto|split; [discriminate|auto]].
Qed.

(** setters and simple helpers *)
Lemma MR_sched a dk s0 s h : MR a dk s0 s -> MR a dk s0 (sched s h).
Proof. intros H. eapply MR_frame; eauto; unfold sched; destruct (is_ready s h); reflexivity. Qed.
Lemma MR_unsched a dk s0 s h : MR a dk s0 s -> MR a dk s0 (unsched s h).
Proof. intros H. eapply MR_frame; eauto. Qed.
Lemma MR_put_p a dk s0 s t x : MR a dk s0 s -> MR a dk s0 (put_p s t x).
Proof. intros H. eapply MR_frame; eauto. Qed.
Lemma MR_put_d a dk s0 s t x : MR a dk s0 s -> MR a dk s0 (put_d s t x).
Proof. intros H. eapply MR_frame; eauto. Qed.
Lemma MR_set_ctl a dk s0 s c : MR a dk s0 s -> MR a dk s0 (set_ctl s c).
Proof. intros H. eapply MR_frame; eauto. Qed.
Lemma MR_set_res a dk s0 s c : MR a dk s0 s -> MR a dk s0 (set_res s c).
Proof. intros H. eapply MR_frame; eauto. Qed.

Lemma MR_emit a dk s0 s e :
  MR a dk s0 s -> ev_ok a (length (ptasks s0)) e -> MR a dk s0 (emit s e).
Proof.
  intros [H1 H2 H3 H4 H5] He. constructor; auto.
  intros e' Hin. unfold emit in Hin; cbn in Hin. apply in_app_iff in Hin.
  destruct Hin as [Hin|[<-|[]]]; auto.
Qed.

Lemma MR_fold_sched a dk s0 l : forall s, MR a dk s0 s -> MR a dk s0 (fold_left sched l s).
Proof. induction l; simpl; intros; auto. apply IHl, MR_sched; auto. Qed.

Lemma MR_sched_cbs a dk s0 s r : MR a dk s0 s -> MR a dk s0 (sched_cbs s r).
Proof. intros H. unfold sched_cbs. apply MR_fold_sched; auto. Qed.

(** ** Updating a spawner record *)
Lemma get_m_put_m s k x m :
  get_m (put_m s k x) m =
  if Nat.eqb k m then (if Nat.ltb k (length (mtasks s)) then Some x else None) else get_m s m.
Proof. unfold get_m, put_m; cbn. apply nth_error_upd. Qed.

(** a passive update of any record: group, dead, pc, idx, final, ncreated are kept *)
Lemma MR_put_pas a dk s0 s k x x' :
  MR a dk s0 s -> get_m s k = Some x ->
  m_group x' = m_group x -> m_dead x' = m_dead x -> passive x x' ->
  MR a dk s0 (put_m s k x').
Proof.
  intros [H1 H2 H3 H4 H5] Hx Hg Hd Hp. constructor; auto.
  - unfold put_m; cbn. rewrite upd_length. auto.
  - intros m y Hy. destruct (H2 m y Hy) as (y' & Hy' & Gg & Gd & Gp).
    rewrite get_m_put_m. destruct (Nat.eqb_spec k m) as [->|Hne].
    + rewrite Hx in Hy'. injection Hy' as <-.
      assert (Hlt : m < length (mtasks s)) by (eapply get_m_lt; eauto).
      apply Nat.ltb_lt in Hlt. rewrite Hlt. exists x'. split; auto.
      split; [congruence|]. split; [intros E; rewrite Hd; auto|].
      intros Ha. specialize (Gp Ha). unfold passive in *. intuition congruence.
    + exists y'. split; auto. split; auto.
Qed.

Definition okx (s0 : state) (m : nat) (x : mtask) : Prop :=
  forall y0, get_m s0 m = Some y0 -> m_group x = m_group y0 /\ m_dead x = m_dead y0.

(** an update of the executing spawner's record *)
Lemma MR_put_act m dk s0 s x :
  MR (Some m) dk s0 s -> okx s0 m x -> MR (Some m) dk s0 (put_m s m x).
Proof.
  intros [H1 H2 H3 H4 H5] Hok. constructor; auto.
  - unfold put_m; cbn. rewrite upd_length. auto.
  - intros k y Hy. destruct (H2 k y Hy) as (y' & Hy' & Gg & Gd & Gp).
    rewrite get_m_put_m. destruct (Nat.eqb_spec m k) as [->|Hne].
    + assert (Hlt : k < length (mtasks s)) by (eapply get_m_lt; eauto).
      apply Nat.ltb_lt in Hlt. rewrite Hlt. exists x. split; auto.
      destruct (Hok y Hy) as [Eg Ed]. split; auto. split; auto. intros Hc. congruence.
    + exists y'. split; auto. split; auto.
Qed.

Lemma okx_of_get m dk s0 s x :
  MR (Some m) dk s0 s -> dk = false -> get_m s m = Some x -> okx s0 m x.
Proof.
  intros [H1 H2 H3 H4 H5] -> Hx y0 Hy0.
  destruct (H2 m y0 Hy0) as (y' & Hy' & Gg & Gd & _).
  rewrite Hx in Hy'. injection Hy' as <-. auto.
Qed.

(** ** Semaphores *)
Lemma MR_wake_next a dk s0 s : MR a dk s0 s -> MR a dk s0 (wake_next s).
Proof.
  intros H. unfold wake_next.
  destruct (first_pending s (sem_waiters s)) as [m|]; auto.
  destruct (get_m s m) as [x|] eqn:Hx; auto.
  apply MR_sched. eapply MR_put_pas with (x := x); try reflexivity.
  - eapply MR_frame; eauto.
  - exact Hx.
  - repeat split.
Qed.

Lemma MR_sem_release a dk s0 s : MR a dk s0 s -> MR a dk s0 (sem_release s).
Proof. intros H. unfold sem_release. apply MR_wake_next. eapply MR_frame; eauto. Qed.

Lemma MR_map_release a dk s0 s m : MR a dk s0 s -> MR a dk s0 (map_release s m).
Proof.
  intros H. unfold map_release.
  destruct (get_m s m) as [x|] eqn:Hx; auto.
  assert (Hinc : MR a dk s0 (put_m s m (set_m_mapval x (S (m_mapval x))))).
  { eapply MR_put_pas with (x := x); eauto. repeat split. }
  destruct (m_pc x); auto. destruct (m_fw x) as [[| | |]|]; auto.
  apply MR_sched. eapply MR_put_pas with (x := x); eauto. repeat split.
Qed.

(** ** Finishing / suspending *)
Lemma MR_finish_p a dk s0 s t x : MR a dk s0 s -> MR a dk s0 (finish_p s t x).
Proof. intros H. unfold finish_p. apply MR_set_ctl, MR_sched_cbs, MR_put_p, H. Qed.

Lemma MR_finish_m m dk s0 s x e :
  MR (Some m) dk s0 s -> okx s0 m x -> MR (Some m) dk s0 (finish_m s m x e).
Proof. intros H Hx. unfold finish_m. apply MR_set_ctl, MR_sched_cbs, MR_put_act; auto. Qed.

Lemma MR_finish_d a dk s0 s d x e : MR a dk s0 s -> MR a dk s0 (finish_d s d x e).
Proof.
  intros H. unfold finish_d. apply MR_set_ctl, MR_emit; [apply MR_put_d, H|exact I].
Qed.

Lemma MR_suspend_p a dk s0 s t x pc : MR a dk s0 s -> MR a dk s0 (suspend_p s t x pc).
Proof.
  intros H. unfold suspend_p. destruct (p_mc x).
  - apply MR_set_ctl, MR_sched, MR_put_p, H.
  - apply MR_set_ctl, MR_put_p, H.
Qed.

Lemma MR_suspend_m m dk s0 s x pc :
  MR (Some m) dk s0 s -> okx s0 m x -> MR (Some m) dk s0 (suspend_m s m x pc).
Proof.
  intros H Hx. unfold suspend_m. destruct (m_mc x).
  - apply MR_set_ctl, MR_sched, MR_put_act; auto.
  - apply MR_set_ctl, MR_put_act; auto.
Qed.

(** ** Pool tasks *)
Lemma MR_moved a dk s0 s1 t x :
  MR a dk s0 s1 ->
  MR a dk s0
     (let s2 := set_t_ended s1 (dict_add (t_ended s1) t) in
      let s3 := sem_release s2 in
      let x := set_p_nrel x (S (p_nrel x)) in
      let s4 := if p_ismap x then map_release s3 (p_req x) else s3 in
      match p_ecb x with
      | CbNone => finish_p s4 t x
      | _ =>
        set_ctl (emit (put_p s4 t (set_p_pc (set_p_necb x (S (p_necb x))) PUEndCb))
                      (EvCbBegin KEnd t (classify s4 t)))
                (CUser (TP t))
      end).
Proof.
  intros H. cbv zeta.
  set (s3 := sem_release (set_t_ended s1 (dict_add (t_ended s1) t))).
  assert (H3 : MR a dk s0 s3).
  { apply MR_sem_release. eapply MR_frame; eauto. }
  set (x1 := set_p_nrel x (S (p_nrel x))).
  set (s4 := if p_ismap x1 then map_release s3 (p_req x1) else s3).
  assert (H4 : MR a dk s0 s4).
  { unfold s4. destruct (p_ismap x1); auto. apply MR_map_release; auto. }
  clearbody s4.
  destruct (p_ecb x1); try apply MR_finish_p; auto;
    (apply MR_set_ctl, MR_emit; [apply MR_put_p; auto|exact I]).
Qed.

Lemma MR_enter_end a dk s0 s t x : MR a dk s0 s -> MR a dk s0 (enter_end s t x).
Proof.
  intros H. unfold enter_end.
  destruct (mem t (t_running s)).
  - apply MR_moved. eapply MR_frame; eauto.
  - destruct (mem t (t_cancelled s)).
    + apply MR_moved. eapply MR_frame; eauto.
    + apply MR_finish_p; auto.
Qed.

Lemma MR_enter_cancel a dk s0 s t x : MR a dk s0 s -> MR a dk s0 (enter_cancel s t x).
Proof.
  intros H. unfold enter_cancel.
  destruct (mem t (t_running s)).
  - set (s1 := set_t_cancelled _ _).
    assert (H1 : MR a dk s0 s1) by (eapply MR_frame; eauto).
    clearbody s1.
    destruct (p_ccb x); try (apply MR_enter_end; auto);
      (apply MR_set_ctl, MR_emit; [apply MR_put_p; auto|exact I]).
  - apply MR_enter_end; auto.
Qed.

Lemma MR_emit_I a dk s0 s e :
  MR a dk s0 s -> match e with EvPull _ _ | EvStart _ _ _ => False | _ => True end ->
  MR a dk s0 (emit s e).
Proof. intros H He. apply MR_emit; auto. destruct e; simpl; auto; contradiction. Qed.

Lemma MR_continue_p a dk s0 s t : MR a dk s0 s -> MR a dk s0 (continue_p s t).
Proof.
  intros H. unfold continue_p.
  destruct (get_p s t) as [x|]; auto.
  destruct (p_pc x); auto.
  - destruct (w_first (p_w x)); [apply MR_suspend_p; auto|..];
      apply MR_enter_end, MR_emit_I; simpl; auto.
  - destruct (p_fin x); apply MR_enter_end, MR_emit_I; simpl; auto.
  - destruct (w_cancel (p_w x)); [apply MR_enter_cancel|apply MR_enter_end];
      apply MR_emit_I; simpl; auto.
  - destruct (p_ccb x) as [|r|[|] r].
    + apply MR_enter_end; auto.
    + apply MR_enter_end, MR_emit_I; simpl; auto.
    + apply MR_suspend_p; auto.
    + apply MR_enter_end, MR_emit_I; simpl; auto.
  - destruct (p_ecb x) as [|r|[|] r].
    + apply MR_finish_p; auto.
    + apply MR_finish_p, MR_emit_I; simpl; auto.
    + apply MR_suspend_p; auto.
    + apply MR_finish_p, MR_emit_I; simpl; auto.
Qed.

Lemma MR_run_p a dk s0 s t :
  MR a dk s0 s -> length (ptasks s) <= length (ptasks s0) -> MR a dk s0 (run_p s t).
Proof.
  intros H Hlen. unfold run_p.
  destruct (get_p s t) as [x0|] eqn:Hx; auto.
  assert (Hlt : t < length (ptasks s0)).
  { apply get_p_lt in Hx. lia. }
  destruct (p_pc x0); auto; destruct (task_input (p_mc x0) (p_fw x0)).
  all: try (apply MR_finish_p; try apply MR_emit_I; simpl; auto; fail).
  all: try (apply MR_enter_end; try apply MR_emit_I; simpl; auto; fail).
  all: try (apply MR_set_ctl; try apply MR_emit_I; simpl; auto; apply MR_put_p; auto; fail).
  destruct (p_unst _); try (apply MR_enter_cancel; auto);
    (apply MR_set_ctl, MR_emit; [apply MR_put_p; auto|exact Hlt]).
Qed.

(** ** Spawners *)
Lemma MR_register m dk s0 s x :
  MR (Some m) dk s0 s -> okx s0 m x -> MR (Some m) dk s0 (register s m x).
Proof.
  intros H Hx. unfold register. apply MR_put_act; auto.
  apply MR_sched. eapply MR_frame; eauto.
Qed.

Lemma MR_try_start m dk s0 s x :
  MR (Some m) dk s0 s -> okx s0 m x -> MR (Some m) dk s0 (fst (try_start s m x)).
Proof.
  intros H Hx. unfold try_start.
  destruct (closed s); [apply MR_finish_m; auto|].
  destruct (sem_locked s); cbn [fst].
  - apply MR_suspend_m; auto. eapply MR_frame; eauto.
  - apply MR_register; auto. eapply MR_frame; eauto.
Qed.

Lemma MR_apply_loop m rem : forall s0 s,
  MR (Some m) false s0 s -> MR (Some m) false s0 (apply_loop rem s m).
Proof.
  induction rem as [|r IH]; intros s0 s H; simpl.
  - destruct (get_m s m) as [x|] eqn:Hx; auto. apply MR_finish_m; auto.
    eapply okx_of_get; eauto.
  - destruct (get_m s m) as [x|] eqn:Hx; auto.
    assert (Hok : okx s0 m x) by (eapply okx_of_get; eauto).
    destruct (nth (m_idx x) (m_bad x) false).
    + apply IH. apply MR_put_act; auto.
    + pose proof (MR_try_start m false s0 s x H Hok) as Ht.
      destruct (try_start s m x) as [s' cont]. cbn [fst] in Ht.
      destruct cont; auto.
Qed.

Lemma MR_to_iter m s0 s : MR (Some m) false s0 s -> MR (Some m) false s0 (to_iter s m).
Proof.
  intros H. unfold to_iter.
  destruct (get_m s m) as [x|] eqn:Hx; auto.
  assert (Hok : okx s0 m x) by (eapply okx_of_get; eauto).
  apply MR_set_ctl, MR_emit; [apply MR_put_act; auto|reflexivity].
Qed.

Lemma MR_spawn_next m s0 s : MR (Some m) false s0 s -> MR (Some m) false s0 (spawn_next s m).
Proof.
  intros H. unfold spawn_next.
  destruct (get_m s m) as [x|] eqn:Hx; auto.
  destruct (m_kind x); try (apply MR_apply_loop; auto). apply MR_to_iter; auto.
Qed.

Lemma MR_start_then_next m s0 s x :
  MR (Some m) false s0 s -> okx s0 m x -> MR (Some m) false s0 (start_then_next s m x).
Proof.
  intros H Hok. unfold start_then_next.
  pose proof (MR_try_start m false s0 s x H Hok) as Ht.
  destruct (try_start s m x) as [s' cont]. cbn [fst] in Ht.
  destruct cont; auto. apply MR_spawn_next; auto.
Qed.

Lemma MR_continue_m m s0 s : MR (Some m) false s0 s -> MR (Some m) false s0 (continue_m s m).
Proof.
  intros H. unfold continue_m.
  destruct (get_m s m) as [x|] eqn:Hx; auto.
  assert (Hok : okx s0 m x) by (eapply okx_of_get; eauto).
  destruct (m_pc x); auto.
  destruct (nth_error (m_els x) (m_idx x)) as [e|]; [|apply MR_finish_m; auto].
  destruct (e_bad e).
  - apply MR_to_iter, MR_put_act; auto.
  - destruct (m_mapval x).
    + apply MR_suspend_m; auto.
    + apply MR_start_then_next; auto.
Qed.

Lemma MR_run_m m s0 s : MR (Some m) false s0 s -> MR (Some m) false s0 (run_m s m).
Proof.
  intros H. unfold run_m.
  destruct (get_m s m) as [x0|] eqn:Hx; auto.
  assert (Hok0 : okx s0 m x0) by (eapply okx_of_get; eauto).
  set (x := set_m_mc (set_m_fw x0 None) false).
  assert (Hok : okx s0 m x) by exact Hok0.
  destruct (m_pc x0); auto.
  - (* MNotStarted *)
    destruct (task_input (m_mc x0) (m_fw x0)); try (apply MR_finish_m; auto).
    apply MR_spawn_next, MR_put_act; auto.
  - (* MWaitMap *)
    destruct (task_input (m_mc x0) (m_fw x0)).
    + apply MR_start_then_next; auto.
    + apply MR_finish_m; auto. destruct (m_fw x0) as [[]|]; auto.
    + apply MR_finish_m; auto. destruct (m_fw x0) as [[]|]; auto.
  - (* MWaitPool *)
    set (s1 := put_m (set_sem_waiters s (remove1 m (sem_waiters s))) m x).
    assert (H1 : MR (Some m) false s0 s1).
    { apply MR_put_act; auto. eapply MR_frame; eauto. }
    clearbody s1.
    assert (Hrel : MR (Some m) false s0
               (if match m_fw x0 with Some FCancelled => true | _ => false end
                then s1 else sem_release s1)).
    { destruct (m_fw x0) as [[]|]; auto; apply MR_sem_release; auto. }
    assert (Hokh : okx s0 m (if m_holds x
                             then set_m_holds (set_m_mapval x (S (m_mapval x))) false else x)).
    { destruct (m_holds x); auto. }
    destruct (task_input (m_mc x0) (m_fw x0)).
    + apply MR_spawn_next, MR_register; auto.
      destruct (ninf_pos (sem_value s1)); auto. apply MR_wake_next; auto.
    + apply MR_finish_m; auto.
    + apply MR_finish_m; auto.
Qed.

(** ** Drivers *)
Lemma MR_wake_closed a dk s0 ds : forall s, MR a dk s0 s -> MR a dk s0 (wake_closed s ds).
Proof.
  induction ds as [|d t IH]; intros s H; simpl; auto.
  apply IH. destruct (get_d s d) as [x|]; auto.
  destruct (fut_pending (d_fw x)); auto. apply MR_sched, MR_put_d; auto.
Qed.

Lemma MR_after_g2 a dk s0 s d x outer : MR a dk s0 s -> MR a dk s0 (after_g2 s d x outer).
Proof.
  intros H. unfold after_g2.
  destruct outer; try (apply MR_finish_d; auto; fail);
    (destruct (d_kind x); apply MR_finish_d; auto; try apply MR_wake_closed;
      (eapply MR_frame; eauto)).
Qed.

Lemma MR_start_g2 a dk s0 s d x cs re : MR a dk s0 s -> MR a dk s0 (start_g2 s d x cs re).
Proof.
  intros H. unfold start_g2.
  destruct (make_gather s (map TP cs) re) as [g outer].
  destruct outer; try (apply MR_after_g2; auto).
  apply MR_set_ctl, MR_put_d; auto.
Qed.

Lemma MR_set_gmeta a dk s0 s gm :
  MR a dk s0 s ->
  (forall g ms', In (g, ms') gm -> exists ms, In (g, ms) (gmeta s) /\ incl ms' ms) ->
  MR a dk s0 (set_gmeta s gm).
Proof.
  intros [H1 H2 H3 H4 H5] Hg. constructor; auto.
  intros g ms' Hin. cbn in Hin. destruct (Hg g ms' Hin) as (ms & Hm & Hi).
  destruct (H3 g ms Hm) as (ms0 & Hm0 & Hi0). exists ms0. split; auto.
  eapply incl_tran; eauto.
Qed.

Lemma pop_ended_sub s l g ms' :
  In (g, ms') (fst (pop_ended s l)) -> exists ms, In (g, ms) l /\ incl ms' ms.
Proof.
  induction l as [|[h v] t IH]; simpl; [intros []|].
  destruct (pop_ended s t) as [l' e']. cbn [fst] in *.
  intros Hin.
  assert (Hc : (h = g /\ ms' = filter (fun m => negb (is_done_m s m)) v) \/ In (g, ms') l').
  { destruct (filter (fun m => negb (is_done_m s m)) v) eqn:Hf; auto.
    destruct Hin as [Heq|Hin]; auto. injection Heq as <- <-. auto. }
  destruct Hc as [[<- ->]|Hc].
  - exists v. split; auto. intros m Hm. apply filter_In in Hm. tauto.
  - destruct (IH Hc) as (ms & Hm & Hi). exists ms. auto.
Qed.

Lemma MR_after_g1 a dk s0 s d x outer : MR a dk s0 s -> MR a dk s0 (after_g1 s d x outer).
Proof.
  intros H. unfold after_g1.
  destruct (d_kind x).
  - assert (Hgo : MR a dk s0 (start_g2 (set_meta_cancelled s []) d x
             (dict_merge (t_ended (set_meta_cancelled s []))
                         (t_cancelled (set_meta_cancelled s []))) re)).
    { apply MR_start_g2. eapply MR_frame; eauto. }
    destruct outer as [| |e|]; auto.
    destruct e; auto; apply MR_finish_d; auto.
  - destruct (if re then None else _).
    + apply MR_finish_d; auto.
    + apply MR_start_g2. apply MR_set_gmeta; [eapply MR_frame; eauto|intros g ms' []].
  - apply MR_finish_d; auto.
Qed.

Lemma MR_start_g1 a dk s0 s d x cs re : MR a dk s0 s -> MR a dk s0 (start_g1 s d x cs re).
Proof.
  intros H. unfold start_g1.
  destruct (make_gather s (map TM cs) re) as [g outer].
  destruct outer; try (apply MR_after_g1; auto).
  apply MR_set_ctl, MR_put_d; auto.
Qed.

Lemma MR_run_d a dk s0 s d : MR a dk s0 s -> MR a dk s0 (run_d s d).
Proof.
  intros H. unfold run_d.
  destruct (get_d s d) as [x0|]; auto.
  destruct (d_pc x0); auto;
    try (apply MR_finish_d; eapply MR_frame; eauto; fail).
  - cbn [d_kind set_d_fw]. destruct (d_kind x0).
    + pose proof (pop_ended_sub s (gmeta s)) as Hp.
      destruct (pop_ended s (gmeta s)) as [gm ended]. cbn [fst] in Hp.
      apply MR_start_g1, MR_set_gmeta; auto.
    + apply MR_start_g1. eapply MR_frame; eauto.
    + destruct (closed s); [apply MR_finish_d; auto|].
      apply MR_set_ctl, MR_put_d. eapply MR_frame; eauto.
  - apply MR_after_g1; auto.
  - apply MR_after_g2; auto.
Qed.

Lemma MR_run_g a dk s0 s d c : MR a dk s0 s -> MR a dk s0 (run_g s d c).
Proof.
  intros H. unfold run_g.
  destruct (get_d s d) as [x|]; auto.
  destruct (tref_final s c) as [o|]; auto.
  destruct (if match c with TM _ => true | _ => false end then d_g1 x else d_g2 x) as [g|]; auto.
  destruct (if match d_pc x, match c with TM _ => true | _ => false end with
               | DWaitG1, true | DWaitG2, false => true | _, _ => false end
            then d_fw x else None) as [[| | |]|]; try (apply MR_put_d; auto).
  destruct (gather_cb _ _ _ _ _) as [nfin outer].
  destruct outer; try (apply MR_sched); apply MR_put_d; auto.
Qed.

(** ** Operations *)
Lemma MR_fold {A} (f : state -> A -> state) a dk s0 :
  (forall s x, MR a dk s0 s -> MR a dk s0 (f s x)) ->
  forall l s, MR a dk s0 s -> MR a dk s0 (fold_left f l s).
Proof. intros Hf l. induction l as [|x t IH]; intros s H; simpl; auto. Qed.

Lemma MR_know a dk s0 s g : MR a dk s0 s -> MR a dk s0 (know s g).
Proof. intros H. unfold know. destruct (existsb _ _); auto. eapply MR_frame; eauto. Qed.

Lemma MR_taint_set a dk s0 s : MR a dk s0 s -> MR a dk s0 (set_taint_iter s true).
Proof. intros [H1 H2 H3 H4 H5]. constructor; auto. Qed.

Lemma MR_cancel_m a dk s0 s m : MR a dk s0 s -> MR a dk s0 (cancel_m s m).
Proof.
  intros H. unfold cancel_m.
  destruct (get_m s m) as [x|] eqn:Hx; auto.
  destruct (m_final x); auto.
  set (s1 := if is_current s (TM m) then set_taint_iter s true else s).
  assert (H1 : MR a dk s0 s1).
  { unfold s1; destruct (is_current s (TM m)); auto. apply MR_taint_set; auto. }
  assert (Hx1 : get_m s1 m = Some x).
  { unfold s1; destruct (is_current s (TM m)); auto. }
  clearbody s1.
  destruct (fut_pending (m_fw x)).
  - apply MR_sched. eapply MR_put_pas with (x := x); eauto. repeat split.
  - eapply MR_put_pas with (x := x); eauto. repeat split.
Qed.

Lemma MR_cancel_p a dk s0 s t : MR a dk s0 s -> MR a dk s0 (cancel_p s t).
Proof.
  intros H. unfold cancel_p.
  destruct (get_p s t) as [x|]; auto.
  destruct (p_unst x); try (apply MR_put_p; auto).
  destruct (p_final x); auto.
  set (s1 := if is_current s (TP t) && final_segment x then set_taint_self s true else s).
  assert (H1 : MR a dk s0 s1).
  { unfold s1; destruct (is_current s (TP t) && final_segment x); auto. eapply MR_frame; eauto. }
  clearbody s1.
  destruct (fut_pending (p_fw x)); [apply MR_sched|]; apply MR_put_p; auto.
Qed.

Lemma MR_do_cancel a dk s0 s ids : MR a dk s0 s -> MR a dk s0 (do_cancel s ids).
Proof.
  intros H. unfold do_cancel. destruct (first_lookup_err s ids).
  - apply MR_set_res; auto.
  - apply MR_fold; auto. intros; apply MR_cancel_p; auto.
Qed.

Lemma In_gremove g l h ms : In (h, ms) (gremove g l) -> In (h, ms) l.
Proof.
  induction l as [|[k v] t IH]; simpl; auto.
  destruct (gname_eqb g k); simpl; intuition.
Qed.

Lemma MR_cancel_group_metas a dk s0 s g : MR a dk s0 s -> MR a dk s0 (cancel_group_metas s g).
Proof.
  intros H. unfold cancel_group_metas. destruct (glookup g (gmeta s)) as [ms|]; auto.
  eapply MR_frame with (s := fold_left cancel_m ms (set_gmeta s (gremove g (gmeta s)))); auto.
  apply MR_fold; [intros; apply MR_cancel_m; auto|].
  apply MR_set_gmeta; auto. intros h ms' Hin. exists ms'. split; [|apply incl_refl].
  eapply In_gremove; eauto.
Qed.

Lemma MR_mark_dead a s0 s g : MR a true s0 s -> MR a true s0 (mark_dead s g).
Proof.
  intros [H1 H2 H3 H4 H5]. constructor; auto.
  - unfold mark_dead; cbn. rewrite map_length. auto.
  - intros m y Hy. destruct (H2 m y Hy) as (y' & Hy' & Gg & Gd & Gp).
    unfold get_m, mark_dead; cbn. rewrite nth_error_map.
    unfold get_m in Hy'. rewrite Hy'. cbn.
    eexists. split; [reflexivity|].
    destruct (gname_eqb g (m_group y')); [|split; auto].
    split; [exact Gg|]. split; [discriminate|]. exact Gp.
Qed.

Lemma MR_cancel_group_body a s0 s g ids :
  MR a true s0 s -> MR a true s0 (cancel_group_body s g ids).
Proof.
  intros H. unfold cancel_group_body. apply MR_fold.
  - intros s' t H'. destruct (mem t (t_running s')); auto. apply MR_cancel_p; auto.
  - apply MR_mark_dead, MR_cancel_group_metas; auto.
Qed.

Lemma MR_cancel_all_groups a s0 gs : forall s,
  MR a true s0 s -> MR a true s0 (cancel_all_groups s gs).
Proof.
  induction gs as [|[g ids] t IH]; intros s H; simpl; auto.
  apply IH, MR_cancel_group_body; auto.
Qed.

Definition spawn_op' (o : op) : bool :=
  match o with OpApply _ _ _ _ _ _ _ | OpMap _ _ _ _ _ _ _ | OpStart _ => true | _ => false end.

Definition kill_op (o : op) : bool :=
  match o with OpCancelGroup _ | OpCancelAll => true | _ => false end.

Lemma MR_do_op dk s0 s o :
  spawn_op' o = false -> (kill_op o = true -> dk = true) ->
  MR None dk s0 s -> MR None dk s0 (do_op s o).
Proof.
  intros Hs Hk H. destruct o; try discriminate Hs; unfold do_op.
  - apply MR_do_cancel; auto.
  - (* OpCancelGroup *)
    rewrite (Hk eq_refl) in *.
    pose proof (MR_know _ _ _ _ g H) as H1.
    destruct (glookup g (groups (know s g))).
    + apply MR_cancel_group_body. eapply MR_frame; eauto.
    + apply MR_set_res; auto.
  - rewrite (Hk eq_refl) in *. apply MR_cancel_all_groups. eapply MR_frame; eauto.
  - (* OpStop *)
    pose proof (MR_do_cancel _ _ _ _
      (match n with Some k => firstn_rev k (t_running s) | None => [] end) H) as H1.
    destruct (res _); auto; apply MR_set_res; auto.
  - (* OpStopAll *)
    pose proof (MR_do_cancel _ _ _ _ (firstn_rev (length (t_running s)) (t_running s)) H) as H1.
    destruct (res _); auto; apply MR_set_res; auto.
  - eapply MR_frame; eauto.
  - eapply MR_frame with (s := s); auto; destruct (Nat.ltb 0 (n_gac s)); reflexivity.
  - destruct v; [|apply MR_set_res; auto]. eapply MR_frame; eauto.
  - apply MR_set_res, MR_fold; auto. intros; apply MR_know; auto.
  - apply MR_sched. eapply MR_frame with (s := s); auto; destruct k; reflexivity.
  - destruct (get_p s tid); auto. apply MR_sched, MR_put_p; auto.
  - destruct (get_p s tid); auto. apply MR_sched, MR_put_p; auto.
Qed.

(** ** The step *)
Definition reset (s : state) : state := set_res (set_evs s []) RNone.

Definition act (l : label) (s : state) : option nat :=
  match l with
  | LRun (HT (TM m)) => Some m
  | LGo => match ctl s with CUser (TM m) => Some m | _ => None end
  | _ => None
  end.

Definition kill_l (l : label) : bool :=
  match l with LOp o => kill_op o | _ => false end.

Definition spawn_l (l : label) : bool :=
  match l with LOp o => spawn_op' o | _ => false end.

Lemma MR_step s l :
  spawn_l l = false -> MR (act l s) (kill_l l) (reset s) (step s l).
Proof.
  intros Hs. unfold step. fold (reset s).
  assert (Hact : act l s = act l (reset s)) by (destruct l as [[[]|]| |]; reflexivity).
  rewrite Hact. set (s1 := reset s). clearbody s1. clear Hact s.
  destruct (negb (enabled s1 l)); [apply MR_refl|].
  destruct l as [h| |o].
  - assert (Hu : forall a, MR a false s1 (unsched s1 h)) by (intros; apply MR_unsched, MR_refl).
    destruct h as [[t|m|d]|d c]; simpl.
    + apply MR_run_p; auto.
    + apply MR_run_m; auto.
    + apply MR_run_d; auto.
    + apply MR_run_g; auto.
  - simpl. destruct (ctl s1) as [|[t|m|d]]; try apply MR_refl.
    + apply MR_continue_p, MR_refl.
    + apply MR_continue_m, MR_refl.
  - simpl in *. apply MR_do_op; auto. apply MR_refl.
Qed.
