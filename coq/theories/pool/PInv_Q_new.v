(** A new request (apply / map / start): a fresh spawner record and its group register. *)
From TP Require Export PInv_Q_ops.
Set Implicit Arguments. Unset Strict Implicit.

Definition fresh_req (x : mtask) : Prop :=
  m_idx x = 0 /\ m_ncreated x = 0 /\ m_final x = None /\ m_dead x = false /\
  m_holds x = false /\ m_pc x = MNotStarted /\
  match m_kind x with
  | MMap _ => m_mapval x = m_nc x
  | _ => m_mapval x = 0 /\ m_nc x = 0
  end.

Lemma get_m_app_inv (ms : list mtask) x m y :
  nth_error (ms ++ [x]) m = Some y ->
  nth_error ms m = Some y \/ (m = length ms /\ y = x).
Proof.
  intros H. destruct (Nat.lt_ge_cases m (length ms)) as [L|L].
  - rewrite nth_error_app1 in H; auto.
  - rewrite nth_error_app2 in H; auto. right.
    destruct (m - length ms) as [|k] eqn:E; simpl in H.
    + inversion H. split; auto. lia.
    + destruct k; discriminate.
Qed.

Lemma get_m_app_l (ms : list mtask) (x : mtask) m y :
  nth_error ms m = Some y -> nth_error (ms ++ [x]) m = Some y.
Proof.
  intros H. rewrite nth_error_app1; auto. apply nth_error_Some. congruence.
Qed.

Lemma req_in_range s t x : IR s -> get_p s t = Some x -> p_req x < length (mtasks s).
Proof.
  intros HIR Hx. destruct (IR_req _ HIR _ _ Hx) as [y [Hy _]].
  unfold get_m in Hy. apply nth_error_Some. congruence.
Qed.

Lemma count_req_fresh s (p : ptask -> bool) :
  IR s -> (forall x, p x = true -> p_req x = length (mtasks s)) -> count p (ptasks s) = 0.
Proof.
  intros HIR Hp. apply count_zero. intros x Hin.
  destruct (p x) eqn:E; auto. apply Hp in E.
  apply In_nth_error in Hin. destruct Hin as [t Ht].
  pose proof (@req_in_range s t x HIR Ht). lia.
Qed.

Lemma new_req_IR s s' x :
  IR s -> fresh_req x -> ptasks s' = ptasks s -> mtasks s' = mtasks s ++ [x] ->
  taint_iter s' = taint_iter s -> IR s'.
Proof.
  intros HIR [F1 [F2 [F3 [F4 [F5 [F6 F7]]]]]] Ep Em Et.
  assert (Hinv : forall m y, get_m s' m = Some y ->
            get_m s m = Some y \/ (m = length (mtasks s) /\ y = x)).
  { unfold get_m. rewrite Em. intros; apply get_m_app_inv; auto. }
  assert (Hl : forall m y, get_m s m = Some y -> get_m s' m = Some y).
  { unfold get_m. rewrite Em. intros; apply get_m_app_l; auto. }
  assert (Hp : forall t, get_p s' t = get_p s t) by (intros; unfold get_p; rewrite Ep; auto).
  assert (Ht : forall m, tasks_of s' m = tasks_of s m) by (intros; unfold tasks_of; rewrite Ep; auto).
  assert (Hu : forall m, unreleased_of s' m = unreleased_of s m)
    by (intros; unfold unreleased_of; rewrite Ep; auto).
  constructor.
  - intros t xt Hxt. rewrite Hp in Hxt. destruct (IR_req _ HIR _ _ Hxt) as [y [Hy My]]. eauto.
  - intros t u a b Ha Hb. rewrite Hp in Ha, Hb. eapply (IR_distinct _ HIR); eauto.
  - intros m y Hy. rewrite Ht. destruct (Hinv _ _ Hy) as [H|[-> ->]].
    + apply (IR_ncreated _ HIR); auto.
    + rewrite F2. symmetry. apply count_req_fresh; auto.
      intros a Ha. apply Nat.eqb_eq in Ha. auto.
  - intros m y Hy. destruct (Hinv _ _ Hy) as [H|[-> ->]].
    + apply (IR_progress _ HIR) in H. exact H.
    + unfold req_progress. rewrite F1, F2. destruct (m_kind x); simpl; try (split; [lia|]);
        try (destruct (m_bad x); auto).
  - intros m y Hy. destruct (Hinv _ _ Hy) as [H|[-> ->]].
    + apply (IR_final _ HIR) in H. unfold req_final_ok in *. rewrite Et. exact H.
    + unfold req_final_ok. rewrite F3. auto.
  - intros m y Hy. destruct (Hinv _ _ Hy) as [H|[-> ->]].
    + apply (IR_mapsem _ HIR) in H. unfold mapsem_ok in *. rewrite Hu. exact H.
    + unfold mapsem_ok. rewrite Hu, F5, F6.
      assert (unreleased_of s (length (mtasks s)) = 0) as ->.
      { apply count_req_fresh; auto. intros a Ha. apply andb_true_iff in Ha.
        destruct Ha as [Ha _]. apply Nat.eqb_eq in Ha. auto. }
      destruct (m_kind x); simpl; try tauto. lia.
Qed.

Lemma new_req_IGr s s' x :
  IR s -> IGr s -> ptasks s' = ptasks s -> mtasks s' = mtasks s ++ [x] ->
  groups s' = gensure (m_group x) (groups s) -> num_started s' = num_started s -> IGr s'.
Proof.
  intros HIR [G1 G2 G3 G4 G5 G6] Ep Em Eg En.
  assert (Hinv : forall m y, get_m s' m = Some y ->
            get_m s m = Some y \/ (m = length (mtasks s) /\ y = x)).
  { unfold get_m. rewrite Em. intros; apply get_m_app_inv; auto. }
  assert (Hp : forall t, get_p s' t = get_p s t) by (intros; unfold get_p; rewrite Ep; auto).
  fold (gcat (groups s)) in G2, G3.
  constructor; fold (gcat (groups s')); rewrite ?Eg, ?En, ?gcat_gensure; auto.
  - apply gensure_keys_nodup; auto.
  - intros g ids t xt Hl Hi Hxt. rewrite Hp in Hxt.
    apply glookup_gensure_inv in Hl. destruct Hl as [Hl| ->]; [|destruct Hi].
    eapply G4; eauto.
  - intros t xt y Hxt Hy Hd. rewrite Hp in Hxt.
    destruct (Hinv _ _ Hy) as [H|[E _]].
    + destruct (G5 _ _ _ Hxt H Hd) as [A [ids [B C]]]. split; auto.
      exists ids. split; auto. apply glookup_gensure_mono; auto.
    + pose proof (req_in_range HIR Hxt). lia.
  - intros m y Hy Hf Hd. destruct (Hinv _ _ Hy) as [H|[-> ->]].
    + apply ghas_gensure_mono. eapply G6; eauto.
    + apply ghas_gensure_self.
Qed.

(** The state after [new_meta] *)
Lemma new_meta_fields s x :
  ptasks (new_meta s x) = ptasks s /\ mtasks (new_meta s x) = mtasks s ++ [x] /\
  groups (new_meta s x) = groups s /\ num_started (new_meta s x) = num_started s /\
  taint_iter (new_meta s x) = taint_iter s.
Proof. unfold new_meta. autorewrite with fr. cbn. auto 10. Qed.

Lemma new_request_good s s0 x :
  IR s -> IGr s -> fresh_req x ->
  ptasks s0 = ptasks s -> mtasks s0 = mtasks s -> num_started s0 = num_started s ->
  taint_iter s0 = taint_iter s -> groups s0 = gensure (m_group x) (groups s) ->
  forall r, IR (set_res (new_meta s0 x) r) /\ IGr (set_res (new_meta s0 x) r).
Proof.
  intros HIR HG Hf A B C D E r.
  destruct (new_meta_fields s0 x) as [F1 [F2 [F3 [F4 F5]]]].
  split.
  - eapply new_req_IR; eauto; cbn [ptasks mtasks taint_iter groups num_started set_res]; [rewrite F1; exact A | rewrite F2, B; reflexivity].
  - eapply new_req_IGr; eauto; cbn [ptasks mtasks taint_iter groups num_started set_res]; rewrite ?F1, ?F2, ?F3, ?F4, ?B; auto.
Qed.

Lemma both_ssim s s' : IR s -> IGr s -> ssim s s' -> IR s' /\ IGr s'.
Proof. intros A B C. split; [eapply ssim_IR | eapply ssim_IGr]; eauto. Qed.

Lemma know_opt_fields s (og : option gname) :
  let s1 := match og with Some g => know s g | None => s end in
  ptasks s1 = ptasks s /\ mtasks s1 = mtasks s /\ groups s1 = groups s /\
  num_started s1 = num_started s /\ taint_iter s1 = taint_iter s.
Proof. destruct og; cbn; autorewrite with fr; auto 10. Qed.

Ltac new_tac HIR HG A B C D E :=
  eapply new_request_good; [exact HIR | exact HG | unfold fresh_req; cbn; auto 10 | ..];
  cbn; autorewrite with fr; cbn; autorewrite with fr; rewrite ?A, ?B, ?C, ?D, ?E; auto.

Lemma do_op_apply s num bad noncoro w ecb ccb og :
  IR s -> IGr s ->
  IR (do_op s (OpApply num bad noncoro w ecb ccb og)) /\
  IGr (do_op s (OpApply num bad noncoro w ecb ccb og)).
Proof.
  intros HIR HG. cbn [do_op].
  destruct (know_opt_fields s og) as [A [B [C [D E]]]]. cbv zeta in A, B, C, D, E.
  set (s1 := match og with Some g => know s g | None => s end) in *. clearbody s1.
  destruct (check_start s1 noncoro).
  { apply both_ssim with (s := s); auto. apply ssim_ceq; auto. }
  set (g := match og with Some g => g | None => gen_name s1 0 end). clearbody g.
  destruct (ghas g (groups s1)).
  { apply both_ssim with (s := s); auto. apply ssim_ceq; auto. }
  new_tac HIR HG A B C D E.
Qed.

Lemma do_op_map s stars els nc noncoro ecb ccb og :
  IR s -> IGr s ->
  IR (do_op s (OpMap stars els nc noncoro ecb ccb og)) /\
  IGr (do_op s (OpMap stars els nc noncoro ecb ccb og)).
Proof.
  intros HIR HG. cbn [do_op].
  destruct (know_opt_fields s og) as [A [B [C [D E]]]]. cbv zeta in A, B, C, D, E.
  set (s1 := match og with Some g => know s g | None => s end) in *. clearbody s1.
  set (g := match og with Some g => g | None => gen_name s1 (meth_of_stars stars) end).
  clearbody g.
  destruct (check_start s1 noncoro).
  { apply both_ssim with (s := s); auto. apply ssim_ceq; auto. }
  destruct (nc =? 0).
  { apply both_ssim with (s := s); auto. apply ssim_ceq; auto. }
  destruct (ghas g (groups s1)).
  { apply both_ssim with (s := s); auto. apply ssim_ceq; auto. }
  new_tac HIR HG A B C D E.
Qed.

Lemma do_op_start s num :
  IR s -> IGr s -> IR (do_op s (OpStart num)) /\ IGr (do_op s (OpStart num)).
Proof.
  intros HIR HG. cbn [do_op].
  destruct (check_start s false).
  { apply both_ssim with (s := s); auto. apply ssim_ceq; auto. }
  eapply new_request_good; [exact HIR | exact HG | unfold fresh_req; cbn; auto 10 | ..];
  cbn; autorewrite with fr; cbn; autorewrite with fr; auto.
Qed.
