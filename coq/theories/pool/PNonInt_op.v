(** Erasure commutes with the API operations and with enabledness. *)
From TP Require Export PNonInt_sem.

Local Notation E := erase_state.

Lemma E_is_current s r : is_current (E s) r = is_current s r.
Proof. reflexivity. Qed.
#[export] Hint Rewrite E_is_current : er.

Lemma E_final_segment x : final_segment (erase_ptask x) = final_segment x.
Proof.
  unfold final_segment. autorewrite with er. destruct (p_pc x); auto.
  unfold erase_w; cbn. destruct (w_first (p_w x)); reflexivity.
Qed.
#[export] Hint Rewrite E_final_segment : er.

Lemma E_cancel_m s m : E (cancel_m s m) = cancel_m (E s) m.
Proof.
  unfold cancel_m. autorewrite with er.
  destruct (get_m s m) as [x|]; simpl option_map; cbv iota; auto.
  autorewrite with er. destruct (m_final x); auto.
  destruct (fut_pending (m_fw x)); destruct (is_current s (TM m)); autorewrite with er; reflexivity.
Qed.

Lemma E_cancel_p s t : E (cancel_p s t) = cancel_p (E s) t.
Proof.
  unfold cancel_p. autorewrite with er.
  destruct (get_p s t) as [x|]; simpl option_map; cbv iota; auto.
  autorewrite with er. destruct (p_unst x); autorewrite with er; try reflexivity.
  destruct (p_final x); simpl option_map; cbv iota; auto.
  destruct (fut_pending (p_fw x)); destruct (is_current s (TP t) && final_segment x);
    autorewrite with er; reflexivity.
Qed.

Lemma E_first_lookup_err s ids : first_lookup_err (E s) ids = first_lookup_err s ids.
Proof.
  induction ids as [|t r IH]; simpl; auto.
  change (lookup_err (E s) t) with (lookup_err s t). rewrite IH. reflexivity.
Qed.

Lemma E_do_cancel s ids : E (do_cancel s ids) = do_cancel (E s) ids.
Proof.
  unfold do_cancel. rewrite E_first_lookup_err. destruct (first_lookup_err s ids).
  - reflexivity.
  - apply (E_fold cancel_p E_cancel_p).
Qed.

Lemma E_cancel_group_metas s g : E (cancel_group_metas s g) = cancel_group_metas (E s) g.
Proof.
  unfold cancel_group_metas. rewrite Ep_gmeta. destruct (glookup g (gmeta s)) as [ms|]; auto.
  rewrite Es_meta_cancelled.
  assert (HX : fold_left cancel_m ms (set_gmeta (E s) (gremove g (gmeta s))) =
               E (fold_left cancel_m ms (set_gmeta s (gremove g (gmeta s))))).
  { rewrite (E_fold cancel_m E_cancel_m). reflexivity. }
  rewrite HX, Ep_meta_cancelled. reflexivity.
Qed.

Lemma E_mark_dead s g : E (mark_dead s g) = mark_dead (E s) g.
Proof.
  unfold mark_dead. rewrite Es_mtasks, Ep_mtasks, !map_map. f_equal.
  apply map_ext. intros x. rewrite Ey_m_group. destruct (gname_eqb g (m_group x)); reflexivity.
Qed.

Definition cancel_running' (s : state) (t : nat) : state :=
  if mem t (t_running s) then cancel_p s t else s.

Lemma E_cancel_running' s t : E (cancel_running' s t) = cancel_running' (E s) t.
Proof.
  unfold cancel_running'. rewrite Ep_t_running. destruct (mem t (t_running s)); auto.
  apply E_cancel_p.
Qed.

Lemma E_cancel_group_body s g ids : E (cancel_group_body s g ids) = cancel_group_body (E s) g ids.
Proof.
  change (E (fold_left cancel_running' ids (mark_dead (cancel_group_metas s g) g)) =
          fold_left cancel_running' ids (mark_dead (cancel_group_metas (E s) g) g)).
  rewrite (E_fold cancel_running' E_cancel_running'), E_mark_dead, E_cancel_group_metas.
  reflexivity.
Qed.

Lemma E_cancel_all_groups gs : forall s, E (cancel_all_groups s gs) = cancel_all_groups (E s) gs.
Proof.
  induction gs as [|[g ids] r IH]; intros s; simpl; auto.
  rewrite IH, E_cancel_group_body. reflexivity.
Qed.

Lemma E_new_meta s x : E (new_meta s x) = new_meta (E s) (erase_mtask x).
Proof.
  unfold new_meta. autorewrite with er. rewrite map_app, map_length. reflexivity.
Qed.

Lemma E_check_start s b : check_start (E s) b = check_start s b.
Proof. reflexivity. Qed.

Lemma E_gen_name s n : gen_name (E s) n = gen_name s n.
Proof. reflexivity. Qed.

Lemma count_ext' {A} (p q : A -> bool) l : (forall a, p a = q a) -> count p l = count q l.
Proof. intros H. induction l; simpl; auto. rewrite H, IHl. reflexivity. Qed.

Lemma E_in_use s : in_use (E s) = in_use s.
Proof.
  unfold in_use. rewrite Ep_t_running, Ep_t_cancelled, Ep_sem_waiters. f_equal.
  apply count_ext'. intros m. rewrite E_m_fw_of. reflexivity.
Qed.

#[export] Hint Rewrite E_do_cancel E_cancel_group_body E_cancel_all_groups E_new_meta
  E_check_start E_gen_name E_in_use : er.

Lemma E_groups_know s g : groups (know s g) = groups s.
Proof. unfold know. destruct (existsb _ _); reflexivity. Qed.
#[export] Hint Rewrite E_groups_know : er.

Lemma E_do_op s o : E (do_op s o) = do_op (E s) (erase_op o).
Proof.
  destruct o; unfold do_op, erase_op.
  - (* OpApply *)
    set (s1 := match g with Some g0 => know s g0 | None => s end).
    assert (H1 : match g with Some g0 => know (E s) g0 | None => E s end = E s1)
      by (unfold s1; destruct g; autorewrite with er; reflexivity).
    rewrite H1. clearbody s1. autorewrite with er.
    destruct (check_start s1 noncoro); [reflexivity|].
    destruct (ghas _ (groups s1)); [reflexivity|].
    autorewrite with er. reflexivity.
  - (* OpMap *)
    set (s1 := match g with Some g0 => know s g0 | None => s end).
    assert (H1 : match g with Some g0 => know (E s) g0 | None => E s end = E s1)
      by (unfold s1; destruct g; autorewrite with er; reflexivity).
    rewrite H1. clearbody s1. autorewrite with er.
    destruct (check_start s1 noncoro); [reflexivity|].
    destruct (Nat.eqb nc 0); [reflexivity|].
    destruct (ghas _ (groups s1)); [reflexivity|].
    autorewrite with er. reflexivity.
  - (* OpStart *)
    rewrite E_check_start. destruct (check_start s false); [reflexivity|].
    unfold know. rewrite Ep_known.
    destruct (existsb _ (known s)); autorewrite with er; reflexivity.
  - apply E_do_cancel.
  - (* OpCancelGroup *)
    autorewrite with er.
    destruct (glookup g (groups s)); autorewrite with er; reflexivity.
  - autorewrite with er. reflexivity.
  - (* OpStop *)
    rewrite Ep_t_running, <- E_do_cancel, Ep_res.
    destruct (res (do_cancel s _)); reflexivity.
  - rewrite Ep_t_running, <- E_do_cancel, Ep_res.
    destruct (res (do_cancel s _)); reflexivity.
  - reflexivity.
  - rewrite Ep_n_gac. destruct (Nat.ltb 0 (n_gac s)); reflexivity.
  - destruct v; autorewrite with er; reflexivity.
  - (* OpGetGroupIds *)
    rewrite Es_res, (E_fold know E_know).
    assert (Hg : forall l s, groups (fold_left know l s) = groups s).
    { induction l; simpl; intros; auto. rewrite IHl. apply E_groups_know. }
    rewrite !Hg. reflexivity.
  - (* OpDriver *)
    rewrite E_sched. destruct k; reflexivity.
  - autorewrite with er. destruct (get_p s tid); simpl option_map; cbv iota; auto.
    autorewrite with er. reflexivity.
  - autorewrite with er. destruct (get_p s tid); simpl option_map; cbv iota; auto.
    autorewrite with er. reflexivity.
Qed.

Lemma E_op_enabled s o : op_enabled (E s) (erase_op o) = op_enabled s o.
Proof.
  destruct o; simpl; auto; rewrite E_get_p; destruct (get_p s tid); reflexivity.
Qed.

Lemma E_enabled s l : enabled (E s) (erase_label l) = enabled s l.
Proof. destruct l; simpl; auto. apply E_op_enabled. Qed.
