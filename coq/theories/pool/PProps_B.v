(** C04, C05, C10, C11 at one instant, as consequences of the invariant [WF] (and, for the two
    "quiet point" clauses, of the extra invariants of PProps_B_inv.v).

    Statement changes w.r.t. the task description (details in PProps_B_inv.v):
    - [Extra_map] (PSpec.v) is false on reachable states ([Extra_map_not_invariant] below); C05 is
      proved from [Extra_map'] (the same with the premise [m_fw y = Some FPending]).
    - C04's clause [c04_blocked_for_room] needs that an apply/start spawner is never in
      [MWaitMap]; [WF] does not say so, [Extra_B] does. *)
From TP Require Import PSpec PInv_R_base PProps_B_inv.

(** ** Counting *)
Lemma count_ext_in {A} (p q : A -> bool) l :
  (forall x, In x l -> p x = q x) -> count p l = count q l.
Proof.
  induction l as [|h t IH]; simpl; intros H; auto.
  rewrite (H h) by auto. rewrite IH; auto.
Qed.

Lemma count_le_in {A} (p q : A -> bool) l :
  (forall x, In x l -> p x = true -> q x = true) -> count p l <= count q l.
Proof.
  induction l as [|h t IH]; simpl; intros H; auto.
  assert (IH' : count p t <= count q t) by (apply IH; auto).
  destruct (p h) eqn:Hp; [rewrite (H h) by auto|destruct (q h)]; lia.
Qed.

Lemma In_get_p s x : In x (ptasks s) -> exists t, get_p s t = Some x.
Proof. intros H. apply In_nth_error in H. exact H. Qed.

(** ** C10, C11 *)
Theorem C10_of_WF : forall s, WF s -> C10_spec s.
Proof.
  intros s W. destruct (wfgr _ W) as [Hk Hd Hl Hi Hm Hv].
  constructor; auto.
Qed.

Theorem C11_of_WF : forall s, WF s -> C11_spec s.
Proof.
  intros s W. destruct (wfgr _ W) as [Hk Hd Hl Hi Hm Hv].
  destruct (wf1 _ W) as [Hn Hlt Hlen Hf].
  constructor; auto. intros t [H|H]; auto.
Qed.

(** ** Spawners at a quiet point *)
Lemma quiet_spawner s m y :
  WF s -> quiet s -> get_m s m = Some y -> m_final y = None ->
  (m_pc y = MWaitPool \/ m_pc y = MWaitMap) /\ m_fw y = Some FPending.
Proof.
  intros W (Hc & Hr & _) Hy Hf.
  destruct (wf5 _ W) as [_ _ _ _ _ Hm Hmfw Hmu Hmpc Hmfin _ _ _ _ _].
  pose proof (Hm m y Hy) as Hrd. rewrite Hr in Hrd. simpl in Hrd.
  assert (Hfw : m_fw y = Some FPending \/ m_fw y <> Some FPending).
  { destruct (m_fw y) as [[]|]; auto; right; congruence. }
  destruct (m_pc y) eqn:Hpc.
  - exfalso. apply Hrd. auto.
  - exfalso. apply (Hmpc m y Hy). auto.
  - exfalso. apply (Hmu m y Hy) in Hpc. congruence.
  - destruct Hfw as [Hp|Hn]; [auto|]. exfalso. apply Hrd. right. auto.
  - destruct Hfw as [Hp|Hn]; [auto|]. exfalso. apply Hrd. right. auto.
  - exfalso. apply (Hmfin m y Hy) in Hpc. congruence.
Qed.

Lemma waitpool_locked s m y :
  WF s -> get_m s m = Some y -> m_pc y = MWaitPool -> m_fw y = Some FPending ->
  sem_locked s = true.
Proof.
  intros W Hy Hpc Hfw. unfold sem_locked. apply orb_true_iff. right.
  apply existsb_exists. exists m. split.
  - apply (I4_in _ (wf4 _ W)). eauto.
  - unfold m_fw_of. rewrite Hy, Hfw. reflexivity.
Qed.

(** ** C04 *)
Theorem C04_of_WF : forall s, WF s -> Extra_B s -> C04_spec s.
Proof.
  intros s W XB. destruct (wfr _ W) as [Hreq Hdis Hnc Hpr Hfin Hms].
  constructor.
  - (* at_most *)
    intros m y Hy Hk. rewrite <- (Hnc m y Hy).
    pose proof (Hpr m y Hy) as Hp. unfold req_progress in Hp.
    unfold is_apply_kind, is_map in Hk. unfold expected_created.
    destruct (m_kind y); try discriminate; destruct Hp as [Hle ->]; apply ngood_mono; exact Hle.
  - exact Hreq.
  - exact Hdis.
  - (* complete *)
    intros Ht m y Hy Hk Hf Hd. rewrite <- (Hnc m y Hy).
    pose proof (Hpr m y Hy) as Hp. unfold req_progress in Hp.
    pose proof (Hfin m y Hy) as Hq. unfold req_final_ok in Hq. rewrite Hf in Hq.
    unfold is_apply_kind, is_map in Hk. unfold expected_created.
    destruct (m_kind y); try discriminate; destruct Hp as [Hle ->];
      (destruct Hq as [Hq|[Hq|Hq]]; [congruence|congruence|]);
      rewrite Hq; reflexivity.
  - (* no exception *)
    intros m y e Hy Hf. pose proof (Hfin m y Hy) as Hq. unfold req_final_ok in Hq.
    rewrite Hf in Hq. exact Hq.
  - (* cancelled only with its group *)
    intros Ht m y Hy Hf. pose proof (Hfin m y Hy) as Hq. unfold req_final_ok in Hq.
    rewrite Hf in Hq. destruct Hq as [Hq|Hq]; [auto|congruence].
  - (* blocked for room *)
    intros Hq m y Hy Hk Hf Hd.
    destruct (quiet_spawner s m y W Hq Hy Hf) as [[Hpc|Hpc] Hfw].
    + split; [auto|split; [auto|]]. eapply waitpool_locked; eauto.
    + exfalso. unfold is_apply_kind in Hk. rewrite (XB m y Hy) in Hk by auto. discriminate.
  - (* group *)
    intros t x y Hx Hy Hd.
    apply (IGr_member _ (wfgr _ W) t x y Hx Hy Hd).
Qed.

(** ** C05 *)
Lemma live_unreleased s x :
  WF s -> In x (ptasks s) -> worker_live x = true -> p_nrel x = 0.
Proof.
  intros W Hin Hl. destruct (In_get_p _ _ Hin) as [t Ht].
  pose proof (IH_counts _ (wfh _ W) t x Ht) as (_ & _ & _ & _ & Hc).
  unfold worker_live in Hl. destruct (p_pc x); try discriminate; tauto.
Qed.

Lemma unreleased_live_quiet s x :
  WF s -> quiet s -> In x (ptasks s) -> p_nrel x = 0 -> worker_live x = true.
Proof.
  intros W (Hc & Hr & Hcb) Hin Hn. destruct (In_get_p _ _ Hin) as [t Ht].
  pose proof (IH_counts _ (wfh _ W) t x Ht) as (_ & _ & _ & _ & Hk).
  pose proof (Hcb t x Ht) as Hq. unfold in_callbacks in Hq.
  pose proof (I5_p _ (wf5 _ W) t x Ht) as Hrd. rewrite Hr in Hrd. simpl in Hrd.
  unfold worker_live. destruct (p_pc x); simpl in *; auto; try discriminate; try lia.
  exfalso. apply Hrd. auto.
Qed.

Lemma live_le_unreleased s m : WF s -> live_of s m <= unreleased_of s m.
Proof.
  intros W. unfold live_of, unreleased_of. apply count_le_in.
  intros x Hin Hp. apply andb_true_iff in Hp. destruct Hp as [Hr Hl].
  rewrite Hr, (live_unreleased s x W Hin Hl). reflexivity.
Qed.

Lemma live_eq_unreleased_quiet s m : WF s -> quiet s -> live_of s m = unreleased_of s m.
Proof.
  intros W Hq. unfold live_of, unreleased_of. apply count_ext_in.
  intros x Hin. destruct (Nat.eqb (p_req x) m); simpl; auto.
  destruct (worker_live x) eqn:Hl.
  - rewrite (live_unreleased s x W Hin Hl). reflexivity.
  - destruct (Nat.eqb_spec (p_nrel x) 0) as [Hn|Hn]; auto.
    rewrite (unreleased_live_quiet s x W Hq Hin Hn) in Hl. discriminate.
Qed.

Lemma map_prefix s m y :
  WF s -> get_m s m = Some y -> is_map y = true ->
  m_idx y <= length (m_els y) /\
  tasks_of s m + count e_bad (firstn (m_idx y) (m_els y)) = m_idx y.
Proof.
  intros W Hy Hk. rewrite <- (IR_ncreated _ (wfr _ W) m y Hy).
  pose proof (IR_progress _ (wfr _ W) m y Hy) as Hp. unfold req_progress in Hp.
  unfold is_map in Hk. destruct (m_kind y); try discriminate. exact Hp.
Qed.

Theorem C05_of_WF : forall s, WF s -> Extra_map' s -> C05_spec s.
Proof.
  intros s W XM. destruct (wfr _ W) as [Hreq Hdis Hnc Hpr Hfin Hms].
  constructor.
  - (* elem *)
    intros t x y Hx Hy Hk. destruct (Hreq t x Hx) as (y' & Hy' & Hm).
    rewrite Hy in Hy'. injection Hy' as <-.
    destruct Hm as (_ & _ & _ & _ & Hm). unfold is_map in Hk.
    destruct (m_kind y); try discriminate. exact Hm.
  - exact Hdis.
  - (* prefix *)
    intros m y Hy Hk. apply map_prefix; auto.
  - (* lazy *)
    intros m y Hy Hk. destruct (map_prefix s m y W Hy Hk) as [_ ->].
    unfold pulled. destruct (m_pc y); lia.
  - (* bound *)
    intros m y Hy Hk. pose proof (live_le_unreleased s m W) as Hle.
    pose proof (Hms m y Hy) as Hs. unfold mapsem_ok in Hs. unfold is_map in Hk.
    destruct (m_kind y); try discriminate. lia.
  - (* work conserving *)
    intros Hq m y Hy Hk Hf Hd Hl.
    rewrite (live_eq_unreleased_quiet s m W Hq).
    destruct (quiet_spawner s m y W Hq Hy Hf) as [[Hpc|Hpc] Hfw].
    + rewrite (waitpool_locked s m y W Hy Hpc Hfw) in Hl. discriminate.
    + destruct (XM m y Hy Hpc Hfw) as [Hv Hh].
      pose proof (Hms m y Hy) as Hs. unfold mapsem_ok in Hs. unfold is_map in Hk.
      destruct (m_kind y); try discriminate.
      rewrite Hv, Hh, Hpc, Hfw in Hs. simpl in Hs. lia.
Qed.

(** ** [Extra_map] (PSpec.v) is not an invariant: a reachable state violating it.
    map(.., 3 elements, num_concurrent = 2): both slots are taken, the consumer waits for one
    ([MWaitMap], pending); task 0 ends and wakes it (future [FOk], pc still [MWaitMap]); task 1
    ends before the consumer has run: [map_release] increments the free count to 1. *)
Definition cexm_cfg : config :=
  {| cf_size := Inf; cf_kind := KTask; cf_bad := []; cf_w := default_w;
     cf_ecb := CbNone; cf_ccb := CbNone |}.

Definition cexm_el : elem := {| e_bad := false; e_w := default_w |}.

Definition cexm_tr : list label :=
  [ LOp (OpMap 0 [cexm_el; cexm_el; cexm_el] 2 false CbNone CbNone None);
    LRun (HT (TM 0)); LGo; LGo; LGo;
    LRun (HT (TP 0)); LGo;
    LRun (HT (TP 1)); LGo ].

Lemma cexm_state :
  exists y, get_m (run cexm_cfg cexm_tr) 0 = Some y /\
            m_pc y = MWaitMap /\ m_fw y = Some FOk /\ m_mapval y = 1.
Proof. vm_compute. eexists. split; [reflexivity|]. repeat split. Qed.

Theorem Extra_map_not_invariant : exists c tr, clean (run c tr) /\ ~ Extra_map (run c tr).
Proof.
  exists cexm_cfg, cexm_tr. split; [reflexivity|]. intros H.
  destruct cexm_state as (y & Hy & Hpc & _ & Hv).
  destruct (H 0 y Hy Hpc) as [H0 _]. congruence.
Qed.

(** ** The extra invariants, under the names asked for *)
Lemma Extra_map_init : forall c, Extra_map (init c).
Proof. intros c [|m] y Hy; discriminate. Qed.

(** [Extra_map] implies [Extra_map'] (so nothing is lost by the weaker statement) *)
Lemma Extra_map_weaken s : Extra_map s -> Extra_map' s.
Proof. intros H m y Hy Hpc _. apply (H m y Hy Hpc). Qed.

(** Packaged for the final assembly. *)
Theorem C04_of_WFx : forall s, WF s -> Extra_BM s -> C04_spec s.
Proof. intros s W [XB _]. apply C04_of_WF; auto. Qed.

Theorem C05_of_WFx : forall s, WF s -> Extra_BM s -> C05_spec s.
Proof. intros s W [_ XM]. apply C05_of_WF; auto. Qed.
