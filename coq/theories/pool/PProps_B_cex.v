(** C04 ([c04_blocked_for_room]) does not follow from [WF] alone: a (non-reachable) quiet state
    that satisfies every clause of [WF] in which an apply() spawner waits on a per-call semaphore
    ([MWaitMap]).  This is why [Extra_B] (PProps_B_inv.v) is needed.  Not used by other files. *)
From TP Require Import PSpec.

Definition cexb_cfg : config :=
  {| cf_size := Fin 1; cf_kind := KTask; cf_bad := []; cf_w := default_w;
     cf_ecb := CbNone; cf_ccb := CbNone |}.

Definition cexb_y : mtask :=
  mk_mtask MApply (GUser 0) 1 [] [] default_w CbNone CbNone MWaitMap 0 (Some FPending)
           false None 0 false 0 false 0.

Definition cexb_s : state :=
  mk_state cexb_cfg 0 false false [] [] [] (Fin 1) [] [(GUser 0, [])] [(GUser 0, [0])] [] 0
           [] [cexb_y] [] [] [] CIdle [] RNone [] (Fin 1) 0 false false false false 0.

Ltac no_p := let t := fresh in let x := fresh in let H := fresh in
  intros t x H; destruct t; discriminate H.
Ltac mcases m H :=
  destruct m as [|m]; [injection H as <-|destruct m; discriminate H].

Lemma cexb_WF : WF cexb_s.
Proof.
  constructor.
  - (* I1 *) constructor; cbn; auto; try constructor; try (intros t []).
  - (* I2 *) constructor; no_p.
  - (* IH *) constructor; try no_p. intros _. no_p.
  - (* I3 *) constructor; cbn; auto; try discriminate.
  - (* I4 *) constructor; cbn.
    + constructor.
    + intros m. split; [intros []|]. intros (x & Hx & Hpc). mcases m Hx. discriminate Hpc.
    + intros m x H. mcases m H. intros _. left. reflexivity.
    + intros _ m [].
  - (* I5 *) constructor; try no_p.
    + cbn. constructor.
    + intros h [].
    + intros m x H. mcases m H. cbn. split; [intros []|].
      intros [Hq|[_ Hq]]; [discriminate Hq|congruence].
    + intros m x H. mcases m H. cbn. split; [discriminate|auto].
    + intros m x H. mcases m H. cbn. split; discriminate.
    + intros m x H. mcases m H. cbn. discriminate.
    + intros m x H. mcases m H. cbn. split; [congruence|discriminate].
    + intros d; cbn; discriminate.
    + intros t; cbn; discriminate.
    + intros t; cbn; discriminate.
  - (* IM *) constructor; cbn.
    + intros m x H. mcases m H. intros _ _. exists [0]. split; [reflexivity|left; auto].
    + intros m [<-|[]]. lia.
    + constructor; [intros []|constructor].
    + constructor; [intros []|constructor].
    + intros _ m x H. mcases m H. discriminate.
    + intros m x H. mcases m H. discriminate.
  - (* IG *) constructor.
    + intros d x g H. destruct d; discriminate H.
    + intros d x g H. destruct d; discriminate H.
    + intros d x H. destruct d; discriminate H.
    + intros d x H. destruct d; discriminate H.
    + intros d x g H. destruct d; discriminate H.
    + intros d x g H. destruct d; discriminate H.
    + intros d c [].
    + intros d x re g H. destruct d; discriminate H.
    + intros d x re H. destruct d; discriminate H.
    + intros d x re H. destruct d; discriminate H.
    + cbn. discriminate.
  - (* IR *) constructor; try no_p.
    + intros t u x y H. destruct t; discriminate H.
    + intros m y H. mcases m H. reflexivity.
    + intros m y H. mcases m H. cbn. auto.
    + intros m y H. mcases m H. exact I.
    + intros m y H. mcases m H. cbn. auto.
  - (* IGr *) constructor; try no_p; cbn.
    + constructor; [intros []|constructor].
    + constructor.
    + intros t [].
    + intros g ids t x H Hin Hx. destruct t; discriminate Hx.
    + intros t x y H. destruct t; discriminate H.
    + intros m y H. mcases m H. reflexivity.
Qed.

Lemma cexb_quiet : quiet cexb_s.
Proof. split; [reflexivity|split; [reflexivity|no_p]]. Qed.

Theorem C04_not_from_WF : exists s, WF s /\ ~ C04_spec s.
Proof.
  exists cexb_s. split; [apply cexb_WF|]. intros H.
  destruct (c04_blocked_for_room _ H cexb_quiet 0 cexb_y) as [Hpc _];
    try reflexivity. discriminate Hpc.
Qed.
