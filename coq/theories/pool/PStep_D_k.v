(** C12 / C08 — the frame invariant [K] along every step that runs no driver. *)
From TP Require Import PSpecStep PInv_P_base PStep_D_base.
From Coq Require Import Lia.
Import ListNotations.

Lemma ptasks_sem_release s : ptasks (sem_release s) = ptasks s.
Proof. exact (f_equal vpts (pv_sem_release s)). Qed.
Lemma ptasks_map_release s m : ptasks (map_release s m) = ptasks s.
Proof. exact (f_equal vpts (pv_map_release s m)). Qed.

Lemma K_put_m' s0 s m x' : K s0 s -> (closed s0 = true -> Pm x') -> K s0 (put_m s m x').
Proof. intros H Hx. apply K_put_m; auto. rewrite (k_c H). auto. Qed.

(** ** pool tasks *)
Lemma K_finish_p s0 s t x :
  K s0 s -> (forall y, get_p s t = Some y -> p_final y = None) -> E2 t x ->
  K s0 (finish_p s t x).
Proof.
  intros H Hn H2. unfold finish_p. cbv zeta. ks. apply K_put_p; auto.
  intros y G. split; [apply pt_ok_fin; auto|left; eauto].
Qed.

Lemma K_suspend_p s0 s t x pc :
  K s0 s -> (forall y, get_p s t = Some y -> p_final y = None) -> E2 t x -> p_final x = None ->
  (running_pc pc = true -> p_exc x = None) -> K s0 (suspend_p s t x pc).
Proof.
  intros H Hn H2 Hf Hr. unfold suspend_p.
  destruct (p_mc x); ks; apply K_put_p; auto; intros y G;
    (split; [eapply (pt_ok_move t x pc); eauto; reflexivity|left; eauto]).
Qed.

Lemma K_wake_next s0 s : K s0 s -> K s0 (wake_next s).
Proof.
  intros H. unfold wake_next. destruct (first_pending s (sem_waiters s)) as [m|]; auto.
  destruct (get_m s m) as [x|] eqn:G; auto.
  apply K_sched. eapply K_put_m_same; [ks; exact H|exact G|reflexivity|reflexivity].
Qed.

Lemma K_sem_release s0 s : K s0 s -> K s0 (sem_release s).
Proof. intros H. unfold sem_release. apply K_wake_next. ks. auto. Qed.

Lemma K_map_release s0 s m : K s0 s -> K s0 (map_release s m).
Proof.
  intros H. unfold map_release. destruct (get_m s m) as [x|] eqn:G; auto.
  assert (B : K s0 (put_m s m (set_m_mapval x (S (m_mapval x))))).
  { eapply K_put_m_same; eauto. }
  destruct (m_pc x); auto. destruct (m_fw x) as [[]|]; auto.
  apply K_sched. eapply K_put_m_same; eauto.
Qed.

Lemma K_moved s0 s1 t x :
  K s0 s1 -> (forall y, get_p s1 t = Some y -> p_final y = None) -> E2 t x -> p_final x = None ->
  let s3 := sem_release s1 in
  let x' := set_p_nrel x (S (p_nrel x)) in
  let s4 := if p_ismap x' then map_release s3 (p_req x') else s3 in
  K s0 (match p_ecb x' with
        | CbNone => finish_p s4 t x'
        | _ =>
            set_ctl (emit (put_p s4 t (set_p_pc (set_p_necb x' (S (p_necb x'))) PUEndCb))
                          (EvCbBegin KEnd t (classify s4 t)))
                    (CUser (TP t))
        end).
Proof.
  intros H Hn H2 Hf s3 x' s4.
  assert (H2' : E2 t x') by (eapply E2_same; [..|exact H2]; reflexivity).
  assert (H4 : K s0 s4).
  { unfold s4. destruct (p_ismap x'); [apply K_map_release|]; apply K_sem_release; auto. }
  assert (Hn4 : forall y, get_p s4 t = Some y -> p_final y = None).
  { intros y G. apply (Hn y). rewrite <- G. unfold get_p, s4, s3.
    destruct (p_ismap x'); rewrite ?ptasks_map_release, ?ptasks_sem_release; reflexivity. }
  assert (B : K s0 (put_p s4 t (set_p_pc (set_p_necb x' (S (p_necb x'))) PUEndCb))).
  { apply K_put_p; auto. intros y G. split; [|left; auto].
    eapply (pt_ok_move t x PUEndCb); eauto; try reflexivity. discriminate. }
  clearbody s4.
  destruct (p_ecb x'); [apply K_finish_p; auto|ks; exact B|ks; exact B].
Qed.

Lemma K_enter_end s0 s t x :
  K s0 s -> (forall y, get_p s t = Some y -> p_final y = None) -> E2 t x -> p_final x = None ->
  K s0 (enter_end s t x).
Proof.
  intros H Hn H2 Hf. unfold enter_end.
  destruct (mem t (t_running s)); [|destruct (mem t (t_cancelled s))].
  - apply (K_moved s0 (set_t_ended (set_t_running s (remove1 t (t_running s)))
                         (dict_add (t_ended (set_t_running s (remove1 t (t_running s)))) t)) t x);
      auto. ks. exact H.
  - apply (K_moved s0 (set_t_ended (set_t_cancelled s (remove1 t (t_cancelled s)))
                         (dict_add (t_ended (set_t_cancelled s (remove1 t (t_cancelled s)))) t)) t x);
      auto. ks. exact H.
  - apply K_finish_p; auto. apply E2_set. right; left. left; auto.
Qed.

Lemma K_enter_cancel s0 s t x :
  K s0 s -> (forall y, get_p s t = Some y -> p_final y = None) -> E2 t x -> p_final x = None ->
  K s0 (enter_cancel s t x).
Proof.
  intros H Hn H2 Hf. unfold enter_cancel. cbv zeta.
  destruct (mem t (t_running s)).
  - destruct (p_ccb x).
    + apply K_enter_end; auto. ks. exact H.
    + ks. apply K_put_p; [ks; exact H|]. intros y G. split; [|left; apply (Hn y G)].
      eapply (pt_ok_move t x PUCancelCb); eauto; try reflexivity; discriminate.
    + ks. apply K_put_p; [ks; exact H|]. intros y G. split; [|left; apply (Hn y G)].
      eapply (pt_ok_move t x PUCancelCb); eauto; try reflexivity; discriminate.
  - apply K_enter_end; auto. apply E2_set. right; left. left; auto.
Qed.

Lemma cb_raise_final x r st t : p_final (cb_raise x r st t) = p_final x.
Proof. unfold cb_raise. destruct r; reflexivity. Qed.

Lemma K_continue_p s0 s t :
  K s0 s -> (forall y, get_p s t = Some y -> p_pc y <> PDone -> p_final y = None) ->
  K s0 (continue_p s t).
Proof.
  intros H Hnd. unfold continue_p. destruct (get_p s t) as [x|] eqn:G; auto.
  destruct (k_pt H t x G) as [P1 [P2 P3]].
  assert (He : forall e, K s0 (emit s e)) by (intros e; ks; exact H).
  assert (Hn0 : p_pc x <> PDone -> forall y, get_p s t = Some y -> p_final y = None).
  { intros Hp y G'. rewrite G in G'. inversion G'; subst. apply (Hnd y eq_refl Hp). }
  destruct (p_pc x) eqn:Epc; auto;
    (assert (Hn : forall y, get_p s t = Some y -> p_final y = None) by (apply Hn0; discriminate));
    pose proof (Hn x G) as Hf;
    (assert (Hne : forall e y, get_p (emit s e) t = Some y -> p_final y = None)
      by (intros e; exact Hn)).
  - (* PUStart *)
    destruct (w_first (p_w x)) eqn:W.
    + apply K_suspend_p; auto.
    + apply K_enter_end; auto; try apply Hne.
    + apply K_enter_end; auto; try apply Hne.
      apply E2_set. right; right. exists SWorker. split; auto. left; auto.
  - (* PUResume *)
    destruct (p_fin x) eqn:W.
    + apply K_enter_end; auto; try apply Hne.
    + apply K_enter_end; auto; try apply Hne.
      apply E2_set. right; right. exists SWorker. split; auto. right; auto.
  - (* PUCancelled *)
    destruct (w_cancel (p_w x)).
    + apply K_enter_cancel; auto; try apply Hne.
    + apply K_enter_end; auto; try apply Hne.
  - (* PUCancelCb *)
    destruct (p_ccb x) as [|r|sl r] eqn:C.
    + apply K_enter_end; auto.
    + apply K_enter_end; auto; try apply Hne; try (rewrite cb_raise_final; auto).
      apply E2_cb_raise; auto. intros ->. simpl. rewrite C. auto.
    + destruct sl.
      * apply K_suspend_p; auto; discriminate.
      * apply K_enter_end; auto; try apply Hne; try (rewrite cb_raise_final; auto).
        apply E2_cb_raise; auto. intros ->. simpl. rewrite C. auto.
  - (* PUEndCb *)
    destruct (p_ecb x) as [|r|sl r] eqn:C.
    + apply K_finish_p; auto.
    + apply K_finish_p; auto; try apply Hne.
      apply E2_cb_raise; auto. intros ->. simpl. rewrite C. auto.
    + destruct sl.
      * apply K_suspend_p; auto; discriminate.
      * apply K_finish_p; auto; try apply Hne.
        apply E2_cb_raise; auto. intros ->. simpl. rewrite C. auto.
Qed.

Lemma K_run_p s0 s t :
  K s0 s -> (forall y, get_p s t = Some y -> p_pc y <> PDone -> p_final y = None) ->
  K s0 (run_p s t).
Proof.
  intros H Hnd. unfold run_p. destruct (get_p s t) as [x0|] eqn:G; auto. cbv zeta.
  destruct (k_pt H t x0 G) as [P1 [P2 P3]].
  set (x := set_p_mc (set_p_fw x0 None) false).
  assert (X2 : E2 t x) by (eapply E2_same; [..|exact P2]; reflexivity).
  assert (He : forall e, K s0 (emit s e)) by (intros e; ks; exact H).
  assert (Xc : E2 t (set_p_exc x (Some ECancelled))) by (apply E2_set; left; auto).
  assert (Hn0 : p_pc x0 <> PDone -> forall y, get_p s t = Some y -> p_final y = None).
  { intros Hp y G'. rewrite G in G'. inversion G'; subst. apply (Hnd y eq_refl Hp). }
  destruct (p_pc x0) eqn:Epc; auto;
    (assert (Hn : forall y, get_p s t = Some y -> p_final y = None) by (apply Hn0; discriminate));
    pose proof (Hn x0 G) as Hf;
    (assert (Hne : forall e y, get_p (emit s e) t = Some y -> p_final y = None)
      by (intros e; exact Hn)).
  - (* PCreated *)
    assert (Hex : p_exc x0 = None) by (apply P1; auto).
    destruct (task_input (p_mc x0) (p_fw x0)); try (apply K_finish_p; auto).
    cbn [p_unst x set_p_mc set_p_fw].
    destruct (p_unst x0).
    + ks. apply K_put_p; auto. intros y G'. split; [|left; auto].
      eapply (pt_ok_move t x PUStart); eauto; reflexivity.
    + ks. apply K_put_p; auto. intros y G'. split; [|left; auto].
      eapply (pt_ok_move t x PUStart); eauto; reflexivity.
    + apply K_enter_cancel; auto;
        try (eapply E2_same; [..|exact P2]; reflexivity).
  - (* PWaitGate *)
    assert (Hex : p_exc x0 = None) by (apply P1; auto).
    destruct (task_input (p_mc x0) (p_fw x0)); ks; apply K_put_p; auto; intros y G';
      (split; [|left; auto]).
    + eapply (pt_ok_move t x PUResume); eauto; reflexivity.
    + eapply (pt_ok_move t x PUCancelled); eauto; reflexivity.
    + eapply (pt_ok_move t x PUCancelled); eauto; reflexivity.
  - (* PWaitCcb *)
    destruct (task_input (p_mc x0) (p_fw x0)); apply K_enter_end; auto; try apply Hne.
    + apply E2_cb_raise; auto.
    + rewrite cb_raise_final. auto.
  - (* PWaitEcb *)
    destruct (task_input (p_mc x0) (p_fw x0)); apply K_finish_p; auto; try apply Hne.
    apply E2_cb_raise; auto.
Qed.

(** ** spawners *)
Lemma K_finish_m s0 s m x e : K s0 s -> K s0 (finish_m s m x e).
Proof.
  intros H. unfold finish_m. cbv zeta. ks. apply K_put_m; auto.
  intros _. left. cbn. discriminate.
Qed.

Lemma K_suspend_m s0 s m x pc :
  K s0 s -> (closed s0 = true -> Pm x) -> K s0 (suspend_m s m x pc).
Proof.
  intros H Hx. unfold suspend_m. destruct (m_mc x); ks; apply K_put_m'; auto.
Qed.

Lemma K_append_p s0 s pt :
  K s0 s -> pt_ok (length (ptasks s)) pt -> K s0 (set_ptasks s (ptasks s ++ [pt])).
Proof.
  intros H Hp. constructor; try apply H.
  - intros t x G. unfold get_p in G. cbn in G. rewrite nth_error_snoc in G.
    destruct (Nat.ltb t (length (ptasks s))); [apply (k_pt H t x G)|].
    destruct (Nat.eqb_spec t (length (ptasks s))); [|discriminate].
    inversion G; subst. auto.
  - intros t y o G F. destruct (k_ext H t y o G F) as [y' [G' F']].
    exists y'. split; auto. cbn. rewrite nth_error_app1; auto.
    apply nth_error_Some. congruence.
Qed.

Lemma K_register s0 s m x :
  K s0 s -> (closed s0 = true -> Pm x) -> K s0 (register s m x).
Proof.
  intros H Hx. unfold register. cbv zeta. apply K_put_m'; auto.
  apply K_sched. k1.
  match goal with |- K _ (set_ptasks ?S (_ ++ [?pt])) => apply (K_append_p s0 S pt) end.
  - ks. exact H.
  - unfold pt_ok. cbn. split; [auto|split; [apply E2_none; auto|discriminate]].
Qed.

Lemma K_try_start s0 s m x :
  K s0 s -> (closed s0 = true -> Pm x) -> K s0 (fst (try_start s m x)).
Proof.
  intros H Hx. unfold try_start. destruct (closed s); [|destruct (sem_locked s)]; cbn [fst].
  - apply K_finish_m; auto.
  - apply K_suspend_m; auto. ks. exact H.
  - apply K_register; auto. ks. exact H.
Qed.

Lemma K_Pm s0 s m x : K s0 s -> get_m s m = Some x -> closed s0 = true -> Pm x.
Proof. intros H G C. apply (k_cm H) with (m := m); auto. rewrite (k_c H). auto. Qed.

Lemma K_apply_loop s0 rem m : forall s, K s0 s -> K s0 (apply_loop rem s m).
Proof.
  induction rem as [|r IH]; intros s H; simpl.
  - destruct (get_m s m); auto. apply K_finish_m; auto.
  - destruct (get_m s m) as [x|] eqn:G; auto. destruct (nth (m_idx x) (m_bad x) false).
    + apply IH. eapply K_put_m_same; eauto.
    + pose proof (K_try_start s0 s m x H (K_Pm _ _ _ _ H G)) as H1.
      destruct (try_start s m x) as [s' c]. cbn [fst] in H1. destruct c; auto.
Qed.

Lemma K_to_iter s0 s m : K s0 s -> K s0 (to_iter s m).
Proof.
  intros H. unfold to_iter. destruct (get_m s m) as [x|] eqn:G; auto.
  ks. eapply K_put_m_same; eauto.
Qed.

Lemma K_spawn_next s0 s m : K s0 s -> K s0 (spawn_next s m).
Proof.
  intros H. unfold spawn_next. destruct (get_m s m) as [x|]; auto.
  destruct (m_kind x); auto using K_apply_loop, K_to_iter.
Qed.

Lemma K_start_then_next s0 s m x :
  K s0 s -> (closed s0 = true -> Pm x) -> K s0 (start_then_next s m x).
Proof.
  intros H Hx. unfold start_then_next. pose proof (K_try_start s0 s m x H Hx) as H1.
  destruct (try_start s m x) as [s' c]. cbn [fst] in H1. destruct c; auto.
  apply K_spawn_next; auto.
Qed.

Lemma K_continue_m s0 s m : K s0 s -> K s0 (continue_m s m).
Proof.
  intros H. unfold continue_m. destruct (get_m s m) as [x|] eqn:G; auto.
  pose proof (K_Pm _ _ _ _ H G) as Px.
  destruct (m_pc x); auto. destruct (nth_error _ _) as [e|].
  - destruct (e_bad e).
    + apply K_to_iter. eapply K_put_m_same; eauto.
    + destruct (m_mapval x).
      * apply K_suspend_m; auto.
      * apply K_start_then_next; auto.
  - apply K_finish_m; auto.
Qed.

Lemma K_run_m s0 s m : K s0 s -> K s0 (run_m s m).
Proof.
  intros H. unfold run_m. destruct (get_m s m) as [x0|] eqn:G; auto.
  pose proof (K_Pm _ _ _ _ H G) as Px. cbv zeta.
  set (x := set_m_mc (set_m_fw x0 None) false).
  assert (Px' : closed s0 = true -> Pm x) by exact Px.
  destruct (m_pc x0); auto.
  - destruct (task_input _ _); try (apply K_finish_m; auto).
    apply K_spawn_next. eapply K_put_m_same; eauto.
  - destruct (task_input _ _); try (apply K_finish_m; auto).
    apply K_start_then_next; auto.
  - assert (H1 : K s0 (put_m (set_sem_waiters s (remove1 m (sem_waiters s))) m x)).
    { apply K_put_m'; auto. ks. exact H. }
    destruct (task_input _ _).
    + apply K_spawn_next. apply K_register; auto.
      destruct (ninf_pos _); auto. apply K_wake_next; auto.
    + apply K_finish_m.
      destruct (match m_fw x0 with Some FCancelled => true | _ => false end); auto.
      apply K_sem_release; auto.
    + apply K_finish_m.
      destruct (match m_fw x0 with Some FCancelled => true | _ => false end); auto.
      apply K_sem_release; auto.
Qed.

(** ** API operations (all but OpDriver) *)
Lemma K_cancel_p s0 s t : K s0 s -> K s0 (cancel_p s t).
Proof.
  intros H. unfold cancel_p. destruct (get_p s t) as [x|] eqn:G; auto.
  pose proof (k_pt H t x G) as Px.
  destruct (p_unst x).
  - destruct (p_final x) eqn:F; auto.
    assert (H' : K s0 (if is_current s (TP t) && final_segment x then set_taint_self s true else s)).
    { destruct (_ && _); auto. ks. exact H. }
    destruct (fut_pending (p_fw x)); [apply K_sched|]; apply K_put_p; auto; intros y G';
      (split; [eapply pt_ok_same; [..|exact Px]; reflexivity|right; cbn; destruct (_ && _); cbn in G';
        change (get_p s t = Some y) in G'; congruence]).
  - apply K_put_p; auto. intros y G'.
    split; [eapply pt_ok_same; [..|exact Px]; reflexivity|right; cbn; congruence].
  - apply K_put_p; auto. intros y G'.
    split; [eapply pt_ok_same; [..|exact Px]; reflexivity|right; cbn; congruence].
Qed.

Lemma K_fold {A} s0 (f : state -> A -> state) :
  (forall s a, K s0 s -> K s0 (f s a)) -> forall l s, K s0 s -> K s0 (fold_left f l s).
Proof. intros Hf l. induction l; simpl; intros; auto. Qed.

Lemma K_do_cancel s0 s ids : K s0 s -> K s0 (do_cancel s ids).
Proof.
  intros H. unfold do_cancel. destruct (first_lookup_err s ids).
  - ks. exact H.
  - apply K_fold; auto. intros; apply K_cancel_p; auto.
Qed.

Lemma K_cancel_m s0 s m : K s0 s -> K s0 (cancel_m s m).
Proof.
  intros H. unfold cancel_m. destruct (get_m s m) as [x|] eqn:G; auto.
  destruct (m_final x) eqn:F; auto.
  assert (H' : K s0 (if is_current s (TM m) then set_taint_iter s true else s)).
  { destruct (is_current _ _); auto. ks. exact H. }
  assert (G' : get_m (if is_current s (TM m) then set_taint_iter s true else s) m = Some x).
  { destruct (is_current _ _); auto. }
  destruct (fut_pending (m_fw x)); [apply K_sched|]; eapply K_put_m_same; eauto.
Qed.

Lemma K_mark_dead s0 s g : K s0 s -> K s0 (mark_dead s g).
Proof.
  intros H. constructor; try apply H.
  intros C m y G. unfold get_m, mark_dead in G. cbn in G. rewrite nth_error_map in G.
  destruct (nth_error (mtasks s) m) as [y0|] eqn:G0; [|discriminate]. cbn in G. inversion G; subst.
  pose proof (k_cm H C m y0 G0) as P.
  destruct (gname_eqb g (m_group y0)); auto. right. reflexivity.
Qed.

Lemma K_cancel_group_metas s0 s g : K s0 s -> K s0 (cancel_group_metas s g).
Proof.
  intros H. unfold cancel_group_metas. destruct (glookup g (gmeta s)); auto.
  ks. apply K_fold; [intros; apply K_cancel_m; auto|]. ks. exact H.
Qed.

Lemma K_cancel_group_body s0 s g ids : K s0 s -> K s0 (cancel_group_body s g ids).
Proof.
  intros H. unfold cancel_group_body. apply K_fold.
  - intros s1 a H1. destruct (mem a (t_running s1)); auto. apply K_cancel_p; auto.
  - apply K_mark_dead, K_cancel_group_metas; auto.
Qed.

Lemma K_cancel_all_groups s0 gs : forall s, K s0 s -> K s0 (cancel_all_groups s gs).
Proof.
  induction gs as [|[g ids] r IH]; simpl; intros; auto. apply IH, K_cancel_group_body; auto.
Qed.

Lemma K_new_meta s0 s x : K s0 s -> closed s = false -> K s0 (new_meta s x).
Proof.
  intros H C. unfold new_meta. apply K_sched. constructor; try apply H.
  intros C'. cbn in C'. congruence.
Qed.

Lemma check_start_closed s nc : check_start s nc = None -> closed s = false.
Proof.
  unfold check_start. destruct nc; [discriminate|]. destruct (closed s); [discriminate|auto].
Qed.

Lemma closed_know s g : closed (know s g) = closed s.
Proof. unfold know. destruct (existsb _ _); reflexivity. Qed.

Definition not_driver (o : op) : Prop := match o with OpDriver _ => False | _ => True end.

Lemma K_do_op s0 s o :
  K s0 s -> op_enabled s o = true -> not_driver o -> K s0 (do_op s o).
Proof.
  intros H En ND. destruct o; unfold do_op; cbv beta iota zeta.
  - (* OpApply *)
    set (s1 := match g with Some g0 => know s g0 | None => s end).
    assert (H1 : K s0 s1) by (unfold s1; destruct g; auto; ks; exact H).
    clearbody s1.
    destruct (check_start s1 noncoro) eqn:CS; [ks; auto|].
    destruct (ghas _ (groups s1)); [ks; auto|].
    ks. apply K_new_meta; [ks; exact H1|].
    cbn. rewrite closed_know. eapply check_start_closed; eauto.
  - (* OpMap *)
    set (s1 := match g with Some g0 => know s g0 | None => s end).
    assert (H1 : K s0 s1) by (unfold s1; destruct g; auto; ks; exact H).
    clearbody s1.
    destruct (check_start s1 noncoro) eqn:CS; [ks; auto|].
    destruct (Nat.eqb nc 0); [ks; auto|].
    destruct (ghas _ (groups s1)); [ks; auto|].
    ks. apply K_new_meta; [ks; exact H1|].
    cbn. rewrite closed_know. eapply check_start_closed; eauto.
  - (* OpStart *)
    destruct (check_start s false) eqn:CS; [ks; auto|].
    ks. apply K_new_meta; [ks; exact H|].
    cbn. rewrite closed_know. eapply check_start_closed; eauto.
  - apply K_do_cancel; auto.
  - destruct (glookup g (groups (know s g))); [|ks; auto].
    apply K_cancel_group_body. ks. auto.
  - apply K_cancel_all_groups. ks. auto.
  - match goal with |- K _ (match res ?s1 with _ => _ end) =>
      assert (H1 : K s0 s1) by (apply K_do_cancel; auto);
      destruct (res s1); auto; ks; auto end.
  - match goal with |- K _ (match res ?s1 with _ => _ end) =>
      assert (H1 : K s0 s1) by (apply K_do_cancel; auto);
      destruct (res s1); auto; ks; auto end.
  - ks. auto.
  - destruct (Nat.ltb 0 (n_gac s)); ks; auto.
  - destruct v; ks; auto.
  - ks.
    assert (B : forall l s1, K s0 s1 -> K s0 (fold_left know l s1)).
    { induction l; simpl; intros; auto. apply IHl. ks. auto. }
    apply B; auto.
  - destruct ND.
  - (* OpFinish *)
    simpl in En. destruct (get_p s tid) as [x|] eqn:G; [|discriminate].
    destruct (k_pt H tid x G) as [P1 [P2 P3]].
    destruct (p_pc x) eqn:Epc; try discriminate.
    assert (Hex : p_exc x = None) by (apply P1; auto).
    apply K_sched. apply K_put_p; auto. intros y G'. split; [|right; cbn; congruence].
    unfold pt_ok. cbn. rewrite Epc, Hex. split; [auto|split; [apply E2_none; auto|]].
    intros o F. destruct (P3 o F) as [mc E]. rewrite Hex in E. eauto.
  - (* OpReleaseCb *)
    destruct (get_p s tid) as [x|] eqn:G; auto.
    pose proof (k_pt H tid x G) as Px.
    apply K_sched. apply K_put_p; auto. intros y G'.
    split; [eapply pt_ok_same; [..|exact Px]; reflexivity|right; cbn; congruence].
Qed.
