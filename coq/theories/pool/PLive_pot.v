(** Eventual completion — the potential [psi], the measure [mu2] of cooperative runs and the taint
    frame [frt] (definitions; explained in PLive_def.v). *)
From TP Require Export PProgress_def.

Unset Implicit Arguments.

(** ** The potential [psi] *)
Definition psi_pc (pc : ppc) : nat :=
  match pc with
  | PCreated | PUStart => 3
  | PWaitGate | PUResume | PUCancelled | PUCancelCb => 2
  | PWaitCcb | PUEndCb => 1
  | PWaitEcb | PDone => 0
  end.

Definition psi_p (x : ptask) : nat := pend (p_fw x) + psi_pc (p_pc x).

Definition psi_mc (pc : mpc) (r : nat) : nat :=
  match pc with
  | MDone => 0
  | MWaitMap | MWaitPool => 3 + 3 * (r - 1)
  | MNotStarted | MLoopHead | MAtIter => 3 * r
  end.

Definition psi_m (x : mtask) : nat := psi_mc (m_pc x) (Rm x).

Definition psi (s : state) : nat := lsum psi_p (ptasks s) + lsum psi_m (mtasks s).

(** The measure of cooperative runs. *)
Definition mu2 (s : state) : nat := mu s + 2 * psi s.

(** ** The frame of cooperative moves: the ghost taint flags *)
Definition frt (s : state) : bool * bool * bool := (taint_size s, taint_iter s, taint_self s).
