(** Helpers for PInv_G: decidable equalities, list facts, ready-queue facts. *)
From TP Require Export PInv.

(** ** eqb specs *)
Lemma tref_eqb_spec a b : reflect (a = b) (tref_eqb a b).
Proof.
  destruct a as [x|x|x], b as [y|y|y]; simpl; try (constructor; congruence);
  destruct (Nat.eqb_spec x y); constructor; congruence.
Qed.

Lemma tref_eqb_refl a : tref_eqb a a = true.
Proof. destruct (tref_eqb_spec a a); congruence. Qed.

Lemma hid_eqb_spec a b : reflect (a = b) (hid_eqb a b).
Proof.
  destruct a as [r|d c], b as [r0|d0 c0]; simpl; try (constructor; congruence).
  - destruct (tref_eqb_spec r r0); constructor; congruence.
  - destruct (Nat.eqb_spec d d0); simpl; [|constructor; congruence].
    destruct (tref_eqb_spec c c0); constructor; congruence.
Qed.

Lemma hid_eqb_refl a : hid_eqb a a = true.
Proof. destruct (hid_eqb_spec a a); congruence. Qed.

Lemma gname_eqb_spec a b : reflect (a = b) (gname_eqb a b).
Proof.
  destruct a as [meth i|i|k], b as [meth0 i0|i0|k0]; simpl; try (constructor; congruence).
  - destruct (Nat.eqb_spec meth meth0); simpl; [|constructor; congruence].
    destruct (Nat.eqb_spec i i0); constructor; congruence.
  - destruct (Nat.eqb_spec i i0); constructor; congruence.
  - destruct (Nat.eqb_spec k k0); constructor; congruence.
Qed.

Lemma gname_eqb_refl a : gname_eqb a a = true.
Proof. destruct (gname_eqb_spec a a); congruence. Qed.

Lemma existsb_hid_In h l : existsb (hid_eqb h) l = true <-> In h l.
Proof.
  rewrite existsb_exists. split.
  - intros [x [Hin Heq]]. destruct (hid_eqb_spec h x); subst; auto; discriminate.
  - intros H. exists h. split; auto. apply hid_eqb_refl.
Qed.

Lemma existsb_hid_false h l : existsb (hid_eqb h) l = false <-> ~ In h l.
Proof.
  rewrite <- existsb_hid_In. destruct (existsb (hid_eqb h) l); split; intros; congruence.
Qed.

Lemma existsb_tref_In h l : existsb (tref_eqb h) l = true <-> In h l.
Proof.
  rewrite existsb_exists. split.
  - intros [x [Hin Heq]]. destruct (tref_eqb_spec h x); subst; auto; discriminate.
  - intros H. exists h. split; auto. apply tref_eqb_refl.
Qed.

(** ** lists *)
Lemma count_ext_in {A} (p q : A -> bool) l :
  (forall x, In x l -> p x = q x) -> count p l = count q l.
Proof.
  induction l as [|h t IH]; simpl; auto. intros H.
  rewrite (H h) by auto. rewrite IH; auto.
Qed.

Lemma count_flip {A} (p q : A -> bool) l c :
  NoDup l -> In c l -> p c = false -> q c = true ->
  (forall x, In x l -> x <> c -> q x = p x) -> count q l = S (count p l).
Proof.
  induction 1 as [|h t Hnin Hnd IH]; simpl; [tauto|].
  intros [->|Hin] Hp Hq Hoth.
  - rewrite Hp, Hq. simpl. f_equal. apply count_ext_in.
    intros x Hx. apply Hoth; [right; exact Hx|]. intros E. subst. tauto.
  - assert (Hh : q h = p h).
    { apply Hoth; [left; reflexivity|]. intros E. subst. tauto. }
    rewrite Hh. rewrite IH; auto; try lia.
Qed.

Lemma count_full {A} (p : A -> bool) l :
  count p l = length l -> forall x, In x l -> p x = true.
Proof.
  induction l as [|h t IH]; simpl; [tauto|].
  intros H x [->|Hin].
  - pose proof (count_le_length p t). destruct (p x); auto. simpl in H. lia.
  - apply IH; auto. pose proof (count_le_length p t). destruct (p h); simpl in H; lia.
Qed.

Lemma count_full_conv {A} (p : A -> bool) l :
  (forall x, In x l -> p x = true) -> count p l = length l.
Proof.
  induction l as [|h t IH]; simpl; auto. intros H.
  rewrite (H h) by auto. rewrite IH; auto.
Qed.

Lemma NoDup_map_inj {A B} (f : A -> B) l :
  (forall x y, f x = f y -> x = y) -> NoDup l -> NoDup (map f l).
Proof.
  intros Hinj. induction 1 as [|h t Hnin Hnd IH]; simpl; constructor; auto.
  rewrite in_map_iff. intros [y [Heq Hin]]. apply Hinj in Heq. subst. tauto.
Qed.

Lemma NoDup_filter {A} (f : A -> bool) l : NoDup l -> NoDup (filter f l).
Proof.
  induction 1 as [|h t Hnin Hnd IH]; simpl; [constructor|].
  destruct (f h); auto. constructor; auto. rewrite filter_In. tauto.
Qed.

Lemma NoDup_app_iff {A} (a b : list A) :
  NoDup (a ++ b) <-> NoDup a /\ NoDup b /\ (forall x, In x a -> ~ In x b).
Proof.
  induction a as [|h t IH]; simpl.
  - split; [intros H; repeat split; auto; constructor | tauto].
  - split.
    + intros H. inversion H as [|? ? Hnin Hnd]; subst. apply IH in Hnd.
      destruct Hnd as [Ha [Hb Hd]]. repeat split; auto.
      * constructor; auto. intros Hin. apply Hnin. apply in_or_app; auto.
      * intros x [->|Hin]; auto. intros Hb'. apply Hnin. apply in_or_app; auto.
    + intros [Ha [Hb Hd]]. inversion Ha as [|? ? Hnin Hnd]; subst. constructor.
      * intros Hin. apply in_app_or in Hin. destruct Hin as [Hin|Hin]; [tauto|].
        eapply Hd; eauto.
      * apply IH. repeat split; auto.
Qed.

Lemma dict_add_In l t x : In x (dict_add l t) <-> In x l \/ x = t.
Proof.
  unfold dict_add. destruct (mem t l) eqn:E.
  - apply mem_In in E. split; [auto|]. intros [H| ->]; auto.
  - rewrite in_app_iff. simpl. intuition.
Qed.

Lemma dict_add_NoDup l t : NoDup l -> NoDup (dict_add l t).
Proof.
  unfold dict_add. destruct (mem t l) eqn:E; auto.
  apply mem_false_In in E. intros H. apply NoDup_app_iff. repeat split; auto.
  - constructor; [simpl; tauto|constructor].
  - intros x Hx [->|[]]. tauto.
Qed.

Lemma fold_dict_add_In b : forall a x, In x (fold_left dict_add b a) <-> In x a \/ In x b.
Proof.
  induction b as [|h t IH]; simpl; intros a x; [tauto|].
  rewrite IH, dict_add_In. intuition.
Qed.

Lemma fold_dict_add_NoDup b : forall a, NoDup a -> NoDup (fold_left dict_add b a).
Proof.
  induction b as [|h t IH]; simpl; intros a H; auto. apply IH. apply dict_add_NoDup; auto.
Qed.

Lemma nth_error_snoc {A} (l : list A) a m :
  nth_error (l ++ [a]) m =
  if Nat.ltb m (length l) then nth_error l m
  else if Nat.eqb m (length l) then Some a else None.
Proof.
  destruct (Nat.ltb_spec m (length l)).
  - apply nth_error_app1; auto.
  - rewrite nth_error_app2 by auto. destruct (Nat.eqb_spec m (length l)) as [->|Hne].
    + rewrite Nat.sub_diag. reflexivity.
    + destruct (m - length l) as [|k] eqn:E; [lia|]. simpl. destruct k; reflexivity.
Qed.

Lemma nth_error_lt {A} (l : list A) n x : nth_error l n = Some x -> n < length l.
Proof. intros H. apply nth_error_Some. congruence. Qed.

Lemma in_nil_eq {A} (l : list A) : (forall x, ~ In x l) -> l = [].
Proof. destruct l; auto. intros H. exfalso. apply (H a). simpl; auto. Qed.

(** ** ready queue *)
Lemma sched_ready_In s h k : In k (ready (sched s h)) <-> In k (ready s) \/ k = h.
Proof.
  unfold sched, is_ready. destruct (existsb (hid_eqb h) (ready s)) eqn:E.
  - apply existsb_hid_In in E. split; [auto|]. intros [H| ->]; auto.
  - cbn. rewrite in_app_iff. simpl. intuition.
Qed.

Lemma sched_ready_NoDup s h : NoDup (ready s) -> NoDup (ready (sched s h)).
Proof.
  unfold sched, is_ready. destruct (existsb (hid_eqb h) (ready s)) eqn:E; auto.
  apply existsb_hid_false in E. cbn. intros H. apply NoDup_app_iff. repeat split; auto.
  - constructor; [simpl; tauto|constructor].
  - intros x Hx [->|[]]. tauto.
Qed.

Lemma unsched_ready_In s h k : In k (ready (unsched s h)) <-> In k (ready s) /\ k <> h.
Proof.
  unfold unsched. cbn. rewrite filter_In. destruct (hid_eqb_spec h k); simpl; intuition congruence.
Qed.

(** [sched]/[unsched] touch [ready] only *)
Lemma sched_form s h : exists l, sched s h = set_ready s l.
Proof.
  unfold sched. destruct (is_ready s h); eauto. exists (ready s). destruct s; reflexivity.
Qed.

Lemma fold_sched_form l : forall s, exists l', fold_left sched l s = set_ready s l'.
Proof.
  induction l as [|h t IH]; simpl; intros s.
  - exists (ready s). destruct s; reflexivity.
  - destruct (sched_form s h) as [l1 E1]. rewrite E1.
    destruct (IH (set_ready s l1)) as [l2 E2]. rewrite E2. exists l2. reflexivity.
Qed.

Lemma fold_sched_In l : forall s k, In k (ready (fold_left sched l s)) <-> In k (ready s) \/ In k l.
Proof.
  induction l as [|h t IH]; simpl; intros s k; [tauto|].
  rewrite IH, sched_ready_In. intuition.
Qed.

Lemma sched_cbs_form s r : exists l, sched_cbs s r = set_ready s l.
Proof. apply fold_sched_form. Qed.

Lemma sched_cbs_In s r k :
  In k (ready (sched_cbs s r)) <-> In k (ready s) \/ In k (cbs_of (dtasks s) 0 r).
Proof. apply fold_sched_In. Qed.

Lemma cbs_of_In ds : forall k r h, In h (cbs_of ds k r) ->
  exists d x, h = HG d r /\ k <= d /\ nth_error ds (d - k) = Some x /\
              gather_has_cb (d_g1 x) r || gather_has_cb (d_g2 x) r = true.
Proof.
  induction ds as [|x t IH]; simpl; intros k r h; [tauto|].
  rewrite in_app_iff. intros [H|H].
  - destruct (gather_has_cb (d_g1 x) r || gather_has_cb (d_g2 x) r) eqn:E; simpl in H; [|tauto].
    destruct H as [<-|[]]. exists k, x. rewrite Nat.sub_diag. simpl. auto.
  - apply IH in H. destruct H as [d [y [-> [Hle [Hn Hg]]]]].
    exists d, y. repeat split; auto; try lia.
    replace (d - k) with (S (d - S k)) by lia. exact Hn.
Qed.

Lemma cbs_of_In_conv ds : forall k r d x, nth_error ds d = Some x ->
  gather_has_cb (d_g1 x) r || gather_has_cb (d_g2 x) r = true ->
  In (HG (k + d) r) (cbs_of ds k r).
Proof.
  induction ds as [|y t IH]; intros k r d x Hn Hg; [destruct d; discriminate|].
  simpl. rewrite in_app_iff. destruct d as [|d]; simpl in Hn.
  - inversion Hn; subst. rewrite Hg. left. rewrite Nat.add_0_r. simpl; auto.
  - right. replace (k + S d) with (S k + d) by lia. eapply IH; eauto.
Qed.

(** ** tref_done *)
Lemma tref_done_eq s s' c :
  ptasks s' = ptasks s -> mtasks s' = mtasks s -> dtasks s' = dtasks s ->
  tref_done s' c = tref_done s c.
Proof.
  intros Hp Hm Hd. unfold tref_done, tref_final, get_p, get_m, get_d.
  rewrite Hp, Hm, Hd. reflexivity.
Qed.
