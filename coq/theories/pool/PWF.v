(** M1 — assembly: the invariant [WF] together with the auxiliary invariants found while proving
    ([WFx]) holds initially, is preserved by every step of a clean run, hence holds in every state
    reachable by a clean run. *)
From TP Require Import PInv PRun PInv_P PInv_S PInv_R_base PInv_R PInv_G_Rel PInv_G PInv_Q_xdef PInv_Q PProps_B_inv PStep_A_inv PSpecStep.
From TP Require PStep_C_drv PStep_C_xc PStep_B_inv PStep_D_base PStep_D.

Record WFx (s : state) : Prop := {
  x_wf : WF s;
  x_p : Extra_P s;
  x_s : Extra_S s;
  x_r : Extra_R s;
  x_g : Extra_G s;
  x_ir : Extra_IR s;
  x_bm : Extra_BM s;
  x_a : Extra_A s;
  x_sorted : running_sorted s;
  x_cdrv : PStep_C_drv.Extra_C s;
  x_cgrp : PStep_B_inv.Extra_C s;
  x_diter : PStep_B_inv.Extra_D s;
  x_d : PStep_D_base.Extra_D s
}.

Lemma WF_init c : WF (init c).
Proof.
  constructor.
  - apply I1_init. - apply I2_init. - apply IH_init. - apply I3_init. - apply I4_init.
  - apply I5_init. - apply IM_init. - apply IG_init. - apply IR_init. - apply IGr_init.
Qed.

Lemma WF_step s l : WFx s -> clean (step s l) -> WF (step s l).
Proof.
  intros X Hc. destruct X. constructor.
  - apply I1_step; auto.
  - apply I2_step; auto.
  - apply IH_step; auto.
  - apply I3_step; auto.
  - apply I4_step; auto.
  - apply I5_step; auto.
  - apply IM_step; auto.
  - apply IG_step; auto.
  - apply IR_step; auto.
  - apply IGr_step; auto.
Qed.

Theorem WFx_init c : WFx (init c).
Proof.
  constructor.
  - apply WF_init. - apply Extra_P_init. - apply Extra_S_init. - apply Extra_R_init.
  - apply Extra_G_init. - apply Extra_IR_init. - apply Extra_BM_init. - apply Extra_A_init.
  - apply running_sorted_init. - apply PStep_C_xc.Extra_C_init.
  - apply PStep_B_inv.Extra_C_init. - apply PStep_B_inv.Extra_D_init.
  - apply PStep_D.Extra_D_init.
Qed.

Theorem WFx_step s l : WFx s -> clean (step s l) -> WFx (step s l).
Proof.
  intros X Hc. pose proof (WF_step s l X Hc) as Hwf. destruct X. constructor; auto.
  - apply Extra_P_step; auto.
  - apply Extra_S_step; auto.
  - apply Extra_R_step; auto.
  - apply Extra_G_step; auto.
  - apply Extra_IR_step; auto.
  - apply Extra_BM_step; auto.
  - apply Extra_A_step; auto.
  - apply running_sorted_step; auto.
  - apply PStep_C_xc.Extra_C_step; auto.
  - apply PStep_B_inv.Extra_C_step; auto.
  - apply PStep_B_inv.Extra_D_step; auto.
  - apply PStep_D.Extra_D_step; auto.
Qed.

(** Every state reachable by a clean run satisfies the invariant. *)
Theorem WFx_run c tr : clean (run c tr) -> WFx (run c tr).
Proof. apply (inv_run WFx WFx_init WFx_step). Qed.

Corollary WF_run c tr : clean (run c tr) -> WF (run c tr).
Proof. intros H. exact (x_wf _ (WFx_run c tr H)). Qed.

(** ... and every step taken in a clean run starts from such a state. *)
Theorem WFx_before_step c tr l : clean (run c (tr ++ [l])) -> WFx (run c tr) /\ clean (step (run c tr) l).
Proof.
  intros H. rewrite run_snoc in H. split; [|exact H].
  apply WFx_run. eapply clean_step_inv'. exact H.
Qed.
