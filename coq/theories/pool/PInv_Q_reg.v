(** Registration of a new pool task by a spawner. *)
From TP Require Export PInv_Q_putm.
Set Implicit Arguments. Unset Strict Implicit.

Definition reg_p (m : nat) (x : mtask) : ptask :=
  mk_ptask m (m_idx x) (m_group x) (elem_w x) (m_ecb x) (m_ccb x) (is_map x)
           PCreated None false None FinReturn None UPlain 0 0 0 0.

Definition reg_x (x : mtask) : mtask :=
  set_m_holds (set_m_ncreated (set_m_idx (set_m_pc x MLoopHead) (S (m_idx x)))
                              (S (m_ncreated x))) false.

Definition can_start (y : mtask) : Prop :=
  match m_kind y with
  | MMap _ => exists e, nth_error (m_els y) (m_idx y) = Some e /\ e_bad e = false
  | _ => nth (m_idx y) (m_bad y) false = false /\ m_idx y < m_num y
  end.

Lemma register_fields s m x :
  ptasks (register s m x) = ptasks s ++ [reg_p m x] /\
  mtasks (register s m x) = upd (mtasks s) m (reg_x x) /\
  groups (register s m x) = gadd (m_group x) (num_started s) (groups s) /\
  num_started (register s m x) = S (num_started s) /\
  taint_iter (register s m x) = taint_iter s /\ closed (register s m x) = closed s.
Proof. unfold register, put_m. cbv zeta. repeat split; frw; reflexivity. Qed.

Lemma nth_error_snoc_inv {A} (l : list A) x n y :
  nth_error (l ++ [x]) n = Some y -> nth_error l n = Some y \/ (n = length l /\ y = x).
Proof.
  intros H. destruct (Nat.lt_ge_cases n (length l)) as [L|L].
  - rewrite nth_error_app1 in H; auto.
  - rewrite nth_error_app2 in H; auto. right.
    destruct (n - length l) as [|k] eqn:E; simpl in H.
    + inversion H. split; auto. lia.
    + destruct k; discriminate.
Qed.

Lemma nth_error_snoc_l {A} (l : list A) x n y :
  nth_error l n = Some y -> nth_error (l ++ [x]) n = Some y.
Proof. intros H. rewrite nth_error_app1; auto. apply nth_error_Some. congruence. Qed.

Lemma firstn_S_nth {A} (l : list A) n e :
  nth_error l n = Some e -> firstn (S n) l = firstn n l ++ [e].
Proof.
  revert n; induction l as [|h t IH]; intros [|n] H; simpl in *; try discriminate.
  - inversion H; auto.
  - f_equal. apply IH; auto.
Qed.

Lemma reg_x_mimm x : mimm x (reg_x x).
Proof. unfold mimm; cbn; tauto. Qed.

Lemma elem_w_map x e st :
  m_kind x = MMap st -> nth_error (m_els x) (m_idx x) = Some e -> elem_w x = e_w e.
Proof. unfold elem_w. intros -> ->. auto. Qed.

Lemma reg_matches m x : can_start x -> task_matches_req (reg_p m x) (reg_x x).
Proof.
  unfold can_start, task_matches_req. cbn. intros H.
  repeat split; auto. destruct (m_kind x) eqn:K.
  - unfold elem_w. rewrite K. tauto.
  - destruct H as [e [H1 H2]]. exists e. repeat split; auto. eapply elem_w_map; eauto.
  - unfold elem_w. rewrite K. tauto.
Qed.
Global Arguments register : simpl never.

Ltac cbn_m :=
  cbn [reg_x set_m_holds set_m_ncreated set_m_idx set_m_pc set_m_fw set_m_mc set_m_final
       set_m_mapval set_m_dead m_kind m_group m_num m_bad m_els m_w m_ecb m_ccb m_pc m_idx m_fw
       m_mc m_final m_mapval m_holds m_ncreated m_dead m_nc].

Lemma IR_reg s s' m x :
  IR s -> get_m s m = Some x -> m_final x = None -> can_start x -> m_holds x = is_map x ->
  mterm x = 0 ->
  ptasks s' = ptasks s ++ [reg_p m x] -> mtasks s' = upd (mtasks s) m (reg_x x) ->
  taint_iter s' = taint_iter s -> IR s'.
Proof.
  intros HIR Hx Hfin Hcs Hh Hmt Ep Em Et.
  assert (Hpi : forall t xt, get_p s' t = Some xt ->
            get_p s t = Some xt \/ (t = length (ptasks s) /\ xt = reg_p m x)).
  { unfold get_p. rewrite Ep. intros; apply nth_error_snoc_inv; auto. }
  assert (Htk : forall k, tasks_of s' k = tasks_of s k + (if Nat.eqb m k then 1 else 0)).
  { intros. unfold tasks_of. rewrite Ep, count_app. simpl. lia. }
  assert (Hun : forall k, unreleased_of s' k = unreleased_of s k + (if Nat.eqb m k then 1 else 0)).
  { intros. unfold unreleased_of. rewrite Ep, count_app. simpl. rewrite andb_true_r. lia. }
  pose proof (get_m_upd Em) as Hinv. pose proof (get_m_upd_l Em Hx) as Hl.
  assert (Hx' : get_m s' m = Some (reg_x x)).
  { unfold get_m in *. rewrite Em. eapply nth_error_upd_same; eauto. }
  constructor.
  - intros t xt Hxt. destruct (Hpi _ _ Hxt) as [H|[_ ->]].
    + destruct (IR_req _ HIR _ _ H) as [y [Hy My]].
      destruct (Hl _ _ Hy) as [y' [Hy' [[E1 [E2 E3]]|[E1 E2]]]]; subst; eauto.
      exists (reg_x x). split; auto.
      eapply matches_transfer; [apply pimm_refl|apply reg_x_mimm| |exact My]. cbn. lia.
    + exists (reg_x x). split; auto. apply reg_matches; auto.
  - intros t u a b Ha Hb E1 E2.
    destruct (Hpi _ _ Ha) as [Ha'|[-> ->]]; destruct (Hpi _ _ Hb) as [Hb'|[-> ->]]; auto.
    + eapply (IR_distinct _ HIR); eauto.
    + exfalso. cbn in E1, E2. destruct (IR_req _ HIR _ _ Ha') as [y [Hy My]].
      rewrite E1, Hx in Hy. inversion Hy; subst y. destruct My as [_ [_ [_ [D _]]]]. lia.
    + exfalso. cbn in E1, E2. destruct (IR_req _ HIR _ _ Hb') as [y [Hy My]].
      rewrite <- E1, Hx in Hy. inversion Hy; subst y. destruct My as [_ [_ [_ [D _]]]]. lia.
  - intros k y Hy. rewrite Htk. destruct (Hinv _ _ Hy) as [[-> [-> _]]|[Ne H]].
    + cbn. rewrite Nat.eqb_refl. rewrite (IR_ncreated _ HIR _ _ Hx). lia.
    + apply Nat.neq_sym in Ne. apply Nat.eqb_neq in Ne. rewrite Ne.
      rewrite (IR_ncreated _ HIR _ _ H). lia.
  - intros k y Hy. destruct (Hinv _ _ Hy) as [[-> [-> _]]|[Ne H]].
    + pose proof (IR_progress _ HIR _ _ Hx) as Hp. unfold req_progress, can_start in *. cbn_m.
      destruct (m_kind x).
      * destruct Hcs as [A B]. rewrite (ngood_S_good _ _ A). lia.
      * destruct Hcs as [e [A B]]. destruct Hp as [P1 P2].
        assert (m_idx x < length (m_els x)) by (apply nth_error_Some; congruence).
        split; [lia|]. rewrite (firstn_S_nth A), count_app. simpl. rewrite B. lia.
      * destruct Hcs as [A B]. rewrite (ngood_S_good _ _ A). lia.
    + apply (IR_progress _ HIR) in H. exact H.
  - intros k y Hy. destruct (Hinv _ _ Hy) as [[-> [-> _]]|[Ne H]].
    + unfold req_final_ok. cbn. rewrite Hfin. auto.
    + apply (IR_final _ HIR) in H. unfold req_final_ok in *. rewrite Et. exact H.
  - intros k y Hy. rewrite mapsem_alt, Hun. destruct (Hinv _ _ Hy) as [[-> [-> _]]|[Ne H]].
    + pose proof (IR_mapsem _ HIR _ _ Hx) as Hp. rewrite mapsem_alt in Hp.
      rewrite Nat.eqb_refl. unfold is_map in Hh. rewrite Hmt in Hp. unfold mterm. cbn.
      destruct (m_kind x); try tauto. rewrite Hh in Hp. simpl in Hp. lia.
    + apply Nat.neq_sym in Ne. apply Nat.eqb_neq in Ne. rewrite Ne.
      apply (IR_mapsem _ HIR) in H. rewrite mapsem_alt in H.
      destruct (m_kind y); auto. lia.
Qed.

Lemma ghas_gadd_mono g x l g' : ghas g' l = true -> ghas g' (gadd g x l) = true.
Proof.
  unfold ghas. rewrite glookup_gadd. destruct (gname_eqb g' g); auto.
Qed.

Lemma IGr_reg s s' m x :
  IGr s -> IR s -> num_started s = length (ptasks s) -> get_m s m = Some x ->
  ptasks s' = ptasks s ++ [reg_p m x] -> mtasks s' = upd (mtasks s) m (reg_x x) ->
  groups s' = gadd (m_group x) (num_started s) (groups s) ->
  num_started s' = S (num_started s) -> IGr s'.
Proof.
  intros [G1 G2 G3 G4 G5 G6] HIR Hlen Hx Ep Em Eg En.
  assert (Hpi : forall t xt, get_p s' t = Some xt ->
            get_p s t = Some xt \/ (t = length (ptasks s) /\ xt = reg_p m x)).
  { unfold get_p. rewrite Ep. intros; apply nth_error_snoc_inv; auto. }
  assert (Hlt : forall t xt, get_p s t = Some xt -> t < num_started s).
  { intros t xt H. rewrite Hlen. apply nth_error_Some. unfold get_p in H. congruence. }
  pose proof (get_m_upd Em) as Hinv.
  fold (gcat (groups s)) in G2, G3.
  assert (Hfresh : ~ In (num_started s) (gcat (groups s))).
  { intros H. apply G3 in H. lia. }
  constructor; fold (gcat (groups s')); rewrite ?Eg, ?En.
  - apply NoDup_gadd_keys; auto.
  - apply NoDup_gcat_gadd; auto.
  - intros t Ht. apply In_gcat_gadd in Ht. destruct Ht as [->|Ht]; auto. apply G3 in Ht. lia.
  - intros g ids t xt Hl Hi Hxt. rewrite glookup_gadd in Hl.
    destruct (Hpi _ _ Hxt) as [H|[E ->]].
    + destruct (gname_eqb_spec g (m_group x)) as [->|Ne]; [|eapply G4; eauto].
      inversion Hl; subst ids; clear Hl.
      destruct (glookup (m_group x) (groups s)) as [v|] eqn:Ev.
      * apply In_dict_add in Hi. destruct Hi as [Hi| ->]; [eapply G4; eauto|].
        apply Hlt in H. lia.
      * destruct Hi as [<-|[]]. apply Hlt in H. lia.
    + cbn. destruct (gname_eqb_spec g (m_group x)) as [->|Ne]; auto.
      exfalso. apply Hfresh. rewrite Hlen, <- E. eapply glookup_gcat; eauto.
  - intros t xt y Hxt Hy Hd.
    assert (Hgm : m_group (reg_x x) = m_group x) by reflexivity.
    destruct (Hpi _ _ Hxt) as [H|[E ->]].
    + assert (p_group xt = m_group y /\ exists ids, glookup (m_group y) (groups s) = Some ids /\ In t ids)
        as [A [ids [B C]]].
      { destruct (Hinv _ _ Hy) as [[E1 [-> _]]|[_ H']].
        - rewrite <- E1 in Hx. rewrite Hgm. apply G5; auto.
        - apply G5; auto. }
      split; auto. rewrite glookup_gadd.
      destruct (gname_eqb_spec (m_group y) (m_group x)) as [Eq|Ne]; eauto.
      rewrite <- Eq, B. eexists; split; eauto. apply In_dict_add; auto.
    + cbn in Hy. destruct (Hinv _ _ Hy) as [[_ [-> _]]|[Ne _]]; [|congruence].
      cbn. split; auto. rewrite glookup_gadd, gname_eqb_refl. eexists; split; eauto.
      rewrite E, <- Hlen.
      destruct (glookup (m_group x) (groups s)); [apply In_dict_add|simpl]; auto.
  - intros k y Hy Hf Hd. apply ghas_gadd_mono.
    destruct (Hinv _ _ Hy) as [[-> [-> _]]|[_ H]].
    + apply (G6 _ _ Hx); auto.
    + eapply G6; eauto.
Qed.
