(** Monitor soundness — generic bookkeeping: the clauses of one property in a clause list. *)
From TP Require Import PMon.

Definition fp (pid : nat) (l : list clause) : list clause :=
  filter (fun cl => Nat.eqb (clause_prop cl) pid) l.

Definition NCp (pid : nat) (l : list clause) : Prop := Forall (fun cl => clause_prop cl <> pid) l.

Lemma NCp_nil pid : NCp pid [].
Proof. constructor. Qed.
Lemma NCp_app pid a b : NCp pid a -> NCp pid b -> NCp pid (a ++ b).
Proof. intros. apply Forall_app. auto. Qed.
Lemma NCp_fails pid b c : clause_prop c <> pid -> NCp pid (fails b c).
Proof. intros H. unfold fails. destruct b; constructor; auto. Qed.
Lemma NCp_one pid c : clause_prop c <> pid -> NCp pid [c].
Proof. intros H. constructor; auto. Qed.
Lemma NCp_filter pid f l : NCp pid l -> NCp pid (filter f l).
Proof.
  unfold NCp. rewrite !Forall_forall. intros H x Hx. apply filter_In in Hx. apply H. tauto.
Qed.
Lemma NCp_flat_map pid {A} (f : A -> list clause) l :
  (forall a, NCp pid (f a)) -> NCp pid (flat_map f l).
Proof. intros H. induction l as [|a l IH]; simpl; [apply NCp_nil|]. apply NCp_app; auto. Qed.
Lemma NCp_fp pid l : NCp pid l -> fp pid l = [].
Proof.
  induction 1 as [|c l Hc Hl IH]; simpl; auto.
  destruct (Nat.eqb_spec (clause_prop c) pid); [tauto|exact IH].
Qed.
Lemma fp_app pid a b : fp pid (a ++ b) = fp pid a ++ fp pid b.
Proof. apply filter_app. Qed.
Lemma fp_fails pid b c : clause_prop c = pid -> fp pid (fails b c) = fails b c.
Proof.
  intros H. unfold fails, fp. destruct b; simpl; auto. rewrite H, Nat.eqb_refl. reflexivity.
Qed.
Lemma fp_fails_other pid b c : clause_prop c <> pid -> fp pid (fails b c) = [].
Proof. intros H. apply NCp_fp, NCp_fails, H. Qed.

Ltac ncp :=
  repeat first
    [ apply NCp_nil
    | apply NCp_app
    | apply NCp_fails; discriminate
    | apply NCp_one; discriminate
    | apply NCp_filter ].

(** the label part never changes the callbacks in flight / the previous observation / etotal *)
Lemma on_spawn_NCp pid k o first noncoro nc_bad g meth mk :
  pid <> 8 -> pid <> 9 -> pid <> 10 ->
  NCp pid (snd (on_spawn k o first noncoro nc_bad g meth mk)).
Proof.
  intros H8 H9 H10. unfold on_spawn. destruct (o_res o); cbn [snd];
    repeat first [apply NCp_nil | apply NCp_app | apply NCp_fails; cbn; congruence
                 | apply NCp_one; cbn; congruence].
Qed.

(** a violated-clause report of [mon_run] comes from some step *)
Definition allowed_run (c : config) (pid : nat) (A : clause -> Prop) (k : trk) (i : nat)
           (os : list obs) : Prop :=
  forall j cl, mon_run c pid k i os = Some (j, cl) -> A cl.
