(** Monitor soundness for C11 — the tracker side: how [k_nids] evolves, which parts of one
    [mon_step] can produce a clause of property 11, and when they do not. *)
From TP Require Import PMon PMonSound_gen PMonSound_trk PMonSound11_shape.

Lemma fp_skip pid a b : NCp pid a -> fp pid (a ++ b) = fp pid b.
Proof. intros H. rewrite fp_app, (NCp_fp pid a H). reflexivity. Qed.

(** ** [k_nids] is only written at the end of [mon_step] *)
Lemma on_event_nids k o e : k_nids (fst (on_event k o e)) = k_nids k.
Proof.
  destruct e as [t r el|t|t|kd t cl|kd t raised|kd t|r n|d oc]; unfold on_event.
  - destruct (nth_error (k_reqs k) r); reflexivity.
  - reflexivity.
  - reflexivity.
  - destruct kd; reflexivity.
  - reflexivity.
  - reflexivity.
  - destruct (nth_error (k_reqs k) r); reflexivity.
  - destruct (nth_error (k_drvs k) d) as [v|]; [|reflexivity].
    destruct (v_kind v); destruct oc; try reflexivity; destruct (k_prev k); reflexivity.
Qed.

Lemma on_events_nids es : forall k o, k_nids (fst (on_events k o es)) = k_nids k.
Proof.
  induction es as [|e es IH]; intros k o; simpl; auto.
  pose proof (on_event_nids k o e) as H1. destruct (on_event k o e) as [k1 c1].
  pose proof (IH k1 o) as H2. destruct (on_events k1 o es) as [k2 c2].
  simpl in *. congruence.
Qed.

Lemma nrs_nids es : forall k, k_nids (note_raising_starts k es) = k_nids k.
Proof.
  unfold note_raising_starts.
  induction es as [|e es IH]; intros k; simpl; auto.
  rewrite IH. destruct e; auto.
  destruct (req_of k tid) as [[[r0 el0] x0]|]; auto.
  destruct (w_first _); reflexivity.
Qed.

Lemma on_spawn_nids k o first noncoro nc_bad g meth mk :
  (forall n, k_nids (mk n) = k_nids k) ->
  k_nids (fst (on_spawn k o first noncoro nc_bad g meth mk)) = k_nids k.
Proof. intros H. unfold on_spawn. destruct (o_res o); cbn [fst]; auto. Qed.

Lemma on_label_11 c k o :
  k_nids (fst (on_label c k o)) = k_nids k /\ NCp 11 (snd (on_label c k o)).
Proof.
  unfold on_label. destruct (negb (o_enabled o)); [split; [reflexivity|apply NCp_nil]|].
  destruct (o_label o) as [h| |op]; try (split; [reflexivity|apply NCp_nil]).
  destruct op.
  - split; [apply on_spawn_nids; reflexivity|apply on_spawn_NCp; discriminate].
  - split; [apply on_spawn_nids; reflexivity|apply on_spawn_NCp; discriminate].
  - match goal with |- context [on_spawn ?a ?b ?c ?d ?e ?f ?g ?h] =>
      pose proof (on_spawn_NCp 11 a b c d e f g h ltac:(discriminate) ltac:(discriminate)
                               ltac:(discriminate)) as B;
      assert (A : k_nids (fst (on_spawn a b c d e f g h)) = k_nids k)
        by (apply on_spawn_nids; reflexivity);
      destruct (on_spawn a b c d e f g h) as [k1 cs] end.
    cbn [fst snd] in A, B. destruct (o_res o); cbn [fst snd]; split; auto. ncp. exact B.
  - destruct (o_res o); cbn [fst snd]; split; try reflexivity; ncp.
  - destruct (o_res o); cbn [fst snd]; split; try reflexivity; ncp.
  - cbn [fst snd]. split; [reflexivity|ncp].
  - destruct (o_res o); cbn [fst snd]; split; try reflexivity; ncp.
  - destruct (o_res o); cbn [fst snd]; split; try reflexivity; ncp.
  - cbn [fst snd]. split; [reflexivity|ncp].
  - cbn [fst snd]. split; [reflexivity|ncp].
  - destruct v; cbn [fst snd]; (split; [reflexivity|ncp]).
  - cbn [fst snd]. split; [reflexivity|ncp].
  - destruct k0; cbn [fst snd]; (split; [reflexivity|ncp]).
  - destruct h; cbn [fst snd]; (split; [reflexivity|ncp]).
  - split; [reflexivity|apply NCp_nil].
Qed.

(** ** the events *)
Definition hdk (k : trk) (e : event) : Prop :=
  match e with
  | EvStart t _ _ => mem t (k_live k) = false /\ mem t (k_exited k) = false
  | EvCbEnd kd t _ => has_cb (k_cbs k) t kd = true
  | _ => True
  end.

Lemma on_event_11 k o e : hdk k e -> NCp 11 (snd (on_event k o e)).
Proof.
  intros H.
  destruct e as [t r el|t|t|kd t cl|kd t raised|kd t|r n|d oc]; unfold on_event.
  - destruct (nth_error (k_reqs k) r) as [x|]; cbn [snd]; [|ncp].
    destruct H as [H1 H2]. rewrite H1, H2. cbn [negb andb fails].
    destruct (is_map_kind (r_kind x)); ncp.
  - cbn [snd]. ncp.
  - cbn [snd]. ncp.
  - destruct kd; cbn [snd]; ncp.
  - cbn [snd]. simpl in H. rewrite H. apply NCp_nil.
  - cbn [snd]. ncp.
  - destruct (nth_error (k_reqs k) r) as [x|]; cbn [snd]; ncp.
  - destruct (nth_error (k_drvs k) d) as [v|]; cbn [snd]; [|ncp].
    destruct (v_kind v); destruct oc; cbn [snd]; try (destruct (k_prev k) as [p|]; cbn [snd]); ncp.
Qed.

Lemma tail_hdk k e : tail_ok e -> hdk k e.
Proof. destruct e; simpl; intros H; auto; contradiction. Qed.

Lemma on_events_tail es : forall k o, Forall tail_ok es -> NCp 11 (snd (on_events k o es)).
Proof.
  induction es as [|e es IH]; intros k o H; simpl; [apply NCp_nil|].
  inversion H as [|? ? He Hr]; subst.
  pose proof (on_event_11 k o e (tail_hdk k e He)) as H1. destruct (on_event k o e) as [k1 c1].
  pose proof (IH k1 o Hr) as H2. destruct (on_events k1 o es) as [k2 c2].
  simpl in *. apply NCp_app; auto.
Qed.

Definition Shk (k : trk) (es : list event) : Prop :=
  match es with
  | [] => True
  | e :: rest => hdk k e /\ Forall tail_ok rest
  end.

Lemma on_events_11 k o es : Shk k es -> NCp 11 (snd (on_events k o es)).
Proof.
  destruct es as [|e es]; intros H; simpl; [apply NCp_nil|]. destruct H as [Hh Ht].
  pose proof (on_event_11 k o e Hh) as H1. destruct (on_event k o e) as [k1 c1].
  pose proof (on_events_tail es k1 o Ht) as H2. destruct (on_events k1 o es) as [k2 c2].
  simpl in *. apply NCp_app; auto.
Qed.

(** ** the state clause *)
Definition starts (es : list event) : list nat :=
  flat_map (fun e => match e with EvStart t _ _ => [t] | _ => [] end) es.

Definition news (n : nat) (o : obs) : list nat :=
  filter (fun t => Nat.leb n t) (all_ids o ++ starts (o_events o)).

Definition c11_part (n : nat) (o : obs) : list clause :=
  fails (forallb (fun t => Nat.ltb t (n + length (nodup Nat.eq_dec (news n o)))) (news n o))
        C11_dense.

Lemma state_clauses_11 c k o : fp 11 (state_clauses c k o) = c11_part (k_nids k) o.
Proof.
  unfold state_clauses. cbv zeta.
  rewrite fp_skip by (destruct (negb (k_setsize k)); ncp).
  do 4 (rewrite fp_skip by ncp).
  rewrite fp_skip.
  2:{ apply NCp_flat_map. intros [r x]. destruct (r_kind x); ncp;
        try (destruct (group_ids o (r_group x)); ncp; destruct (r_dead x); ncp). }
  do 3 (rewrite fp_skip by ncp).
  rewrite fp_app, fp_fails by reflexivity.
  rewrite (NCp_fp 11 (_ ++ _)) by (ncp; destruct (k_setsize k); ncp).
  rewrite app_nil_r. reflexivity.
Qed.

(** ** one monitor step, as far as property 11 is concerned *)
Lemma mon_step_11 c k o :
  fp 11 (snd (mon_step c k o))
  = fp 11 (snd (on_events (fst (on_label c k o)) o (o_events o))) ++ c11_part (k_nids k) o /\
  k_nids (fst (mon_step c k o)) = k_nids k + length (nodup Nat.eq_dec (news (k_nids k) o)).
Proof.
  unfold mon_step.
  pose proof (on_label_11 c k o) as (L1 & L2).
  destruct (on_label c k o) as [k1 c1]. cbn [fst snd] in *.
  pose proof (on_events_nids (o_events o) k1 o) as E1.
  destruct (on_events k1 o (o_events o)) as [k2 c2]. cbn [fst snd] in *.
  pose proof (nrs_nids (o_events o) k2) as N1.
  set (k3 := note_raising_starts k2 (o_events o)) in *.
  split.
  - rewrite !fp_app, (NCp_fp 11 c1 L2), state_clauses_11. reflexivity.
  - change (k_nids k3 + length (nodup Nat.eq_dec (news (k_nids k3) o))
            = k_nids k + length (nodup Nat.eq_dec (news (k_nids k) o))).
    rewrite N1, E1, L1. reflexivity.
Qed.

(** ** arithmetic of the density check *)
Lemma news_dense n n' (seen : list nat) :
  n <= n' ->
  (forall t, In t seen -> t < n') ->
  (forall t, n <= t -> t < n' -> In t seen) ->
  let l := filter (fun t => Nat.leb n t) seen in
  n + length (nodup Nat.eq_dec l) = n' /\
  forallb (fun t => Nat.ltb t (n + length (nodup Nat.eq_dec l))) l = true.
Proof.
  intros Hle Hub Hall l.
  assert (Hin : forall t, In t (nodup Nat.eq_dec l) <-> n <= t /\ t < n').
  { intros t. rewrite nodup_In. unfold l. rewrite filter_In, Nat.leb_le. split.
    - intros [H1 H2]. split; auto.
    - intros [H1 H2]. split; auto. }
  assert (Hlen : length (nodup Nat.eq_dec l) = n' - n).
  { rewrite <- (seq_length (n' - n) n). apply Nat.le_antisymm.
    - apply NoDup_incl_length; [apply NoDup_nodup|].
      intros t Ht. apply Hin in Ht. apply in_seq. lia.
    - apply NoDup_incl_length; [apply seq_NoDup|].
      intros t Ht. apply in_seq in Ht. apply Hin. lia. }
  split; [lia|].
  apply forallb_forall. intros t Ht. apply Nat.ltb_lt.
  assert (Ht' : In t (nodup Nat.eq_dec l)) by (apply nodup_In; exact Ht).
  apply Hin in Ht'. lia.
Qed.
