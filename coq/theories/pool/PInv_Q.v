(** IR and IGr layers of the pool invariant: initial state and preservation by [step].
    The layers are inductive relative to WF together with the extra invariant [Extra_IR]
    (PInv_Q_xdef.v), which is itself inductive relative to WF. *)
From TP Require Export PInv_Q_x8.
Set Implicit Arguments. Unset Strict Implicit.

Lemma PQ_eqf s s' : eqf s s' -> PQ s s'.
Proof.
  intros []. constructor; auto; try congruence. rewrite ef_m. apply Forall2_refl, qsim_refl.
Qed.

Lemma Extra_do_op s o : LI s -> Extra_IR s -> Extra_IR (do_op s o).
Proof.
  intros HL HX. destruct (simple_op o) eqn:E.
  - destruct o; try discriminate;
      try (eapply Extra_PQ; [exact HX|]; apply PQ_do_op_simple; [reflexivity|discriminate]).
    apply Extra_driver; auto.
  - destruct o; try discriminate.
    + apply Extra_op_apply; auto.
    + apply Extra_op_map; auto.
    + apply Extra_op_start; auto.
    + apply Extra_cancel_group; auto.
    + apply Extra_cancel_all; auto.
Qed.

Lemma Extra_continue_m s sa m :
  WF s -> Extra_IR s -> eqf s sa -> ctl s = CUser (TM m) -> Extra_IR (continue_m sa m).
Proof.
  intros HW HX He Hctl.
  assert (HXa : Extra_IR sa) by (eapply Extra_PQ; eauto; apply PQ_eqf; auto).
  destruct (get_m sa m) as [x|] eqn:Hx.
  2:{ unfold continue_m. rewrite Hx. exact HXa. }
  pose proof Hx as Hx0. rewrite (eqf_get_m m He) in Hx0.
  assert (Hpc : m_pc x = MAtIter) by (apply (I5_muser _ (wf5 _ HW) _ _ Hx0); auto).
  assert (Hlive : m_final x = None) by (eapply live_of_pc; eauto; congruence).
  assert (Hfw : m_fw x = None).
  { destruct (m_fw x) eqn:E; auto. exfalso.
    assert (m_pc x = MWaitPool \/ m_pc x = MWaitMap) as [H|H]
      by (apply (I5_mfw _ (wf5 _ HW) _ _ Hx0); congruence); congruence. }
  eapply Extra_of_G; [exact HXa|].
  eapply T_continue_m with (x := x); auto.
  - destruct (X_pc HX Hx0) as [P1 _]. auto.
  - intros Hmc. rewrite (ef_t He). apply (X_canc HX Hx0 Hlive). left; auto.
  - intros Hd. destruct (X_dead HX Hx0 Hlive Hd) as [H|H]; auto. congruence.
  - destruct (m_holds x) eqn:E; auto.
    pose proof (IM_holds _ (wfm _ HW) _ _ Hx0 E). congruence.
  - rewrite (ef_c He). destruct (closed s) eqn:Ec; auto.
    destruct (X_closed HX Ec Hx0 Hlive). contradiction.
Qed.

Lemma Extra_run_m s sb m :
  WF s -> Extra_IR s -> eqf s sb -> In (HT (TM m)) (ready s) -> Extra_IR (run_m sb m).
Proof.
  intros HW HX He Hr.
  assert (HXb : Extra_IR sb) by (eapply Extra_PQ; eauto; apply PQ_eqf; auto).
  eapply Extra_of_G; [exact HXb|]. apply T_run_m.
  - intros x0 Hx0 Hpc. rewrite (eqf_get_m m He) in Hx0. split.
    + eapply RunPre_of_WF; eauto.
    + intros Hd. apply (X_dead HX Hx0); auto.
      eapply live_of_pc; eauto. intros E. rewrite E in Hpc. intuition discriminate.
  - intros x0 Hx0. apply (XS_of_Extra HXb Hx0).
Qed.

Theorem Extra_IR_step_noclean s l : WF s -> Extra_IR s -> Extra_IR (step s l).
Proof.
  intros HW HX. unfold step.
  pose proof (eqf_reset s) as He.
  set (sa := set_res (set_evs s []) RNone) in *.
  assert (HXa : Extra_IR sa) by (eapply Extra_PQ; eauto; apply PQ_eqf; auto).
  destruct (negb (enabled sa l)) eqn:Hen; [exact HXa|].
  apply negb_false_iff in Hen.
  destruct l as [h| |o].
  - cbn in Hen. destruct (ctl s) eqn:Hctl; [|discriminate].
    apply is_ready_In in Hen. cbn in Hen.
    pose proof (eqf_unsched h He) as Hb.
    set (sb := unsched sa h) in *.
    destruct h as [[t|m|d]|d c]; cbn [run_handle].
    + eapply Extra_PQ; [exact HX|]. apply PQ_run_p. apply PQ_eqf; auto.
    + eapply Extra_run_m; eauto.
    + eapply Extra_run_d; eauto.
    + eapply Extra_run_g; [exact HX|apply Hb ..].
  - change (ctl sa) with (ctl s).
    destruct (ctl s) as [|[t|m|d]] eqn:Hctl; auto.
    + eapply Extra_PQ; [exact HXa|]. apply PQ_continue_p.
    + eapply Extra_continue_m; eauto.
  - apply Extra_do_op; auto.
    eapply LI_PQ; [apply LI_of_WF; eauto|]. apply PQ_eqf; auto.
Qed.

(** ** The deliverables.  [Extra_IR] is the additional invariant (see PInv_Q_xdef.v); it holds
    initially ([Extra_IR_init]) and is preserved relative to WF ([Extra_IR_step]). *)
Lemma IR_step : forall s l, WF s -> Extra_IR s -> clean (step s l) -> IR (step s l).
Proof. intros s l HW HX _. apply (IR_IGr_step l HW HX). Qed.

Lemma IGr_step : forall s l, WF s -> Extra_IR s -> clean (step s l) -> IGr (step s l).
Proof. intros s l HW HX _. apply (IR_IGr_step l HW HX). Qed.

Lemma Extra_IR_step : forall s l, WF s -> Extra_IR s -> clean (step s l) -> Extra_IR (step s l).
Proof. intros s l HW HX _. apply Extra_IR_step_noclean; auto. Qed.
