(** C04 — apply/start run exactly the requested invocations.  Property theorem only. *)
From TP Require Import PSpec PRun PWF PProps_B PProps_B_inv PExamples.

Theorem C04 : forall c tr, clean (run c tr) -> C04_spec (run c tr).
Proof.
  intros c tr Hc. destruct (WFx_run c tr Hc). apply C04_of_WFx; assumption.
Qed.

Example C04_example :
  let s := run cfg2 tr_cancel in
  clean s /\ taint_iter s = false /\ tasks_of s 0 = 3 /\ map m_final (mtasks s) = [Some OResult].
Proof. vm_compute. repeat split; reflexivity. Qed.

Print Assumptions C04.
