(** C04 — apply/start run exactly the requested invocations.  Property theorem only. *)
From Coq Require Import Permutation.
From TP Require Import PSpec PRun PWF PProps_B PProps_B_inv PRest PRest_nc PExamples PProps_C04sk.

Theorem C04 : forall c tr, clean (run c tr) -> C04_spec (run c tr).
Proof.
  intros c tr Hc. destruct (WFx_run c tr Hc). apply C04_of_WFx; assumption.
Qed.

(** No invocation is lost: whenever the loop goes idle with nothing running (pool size not 0),
    every spawner has finished, every task is done, the whole capacity is free — and every
    request whose group was not cancelled has made exactly the invocations it was asked for
    (map family: one per non-bad element of the whole iterable). *)
Theorem C04_nothing_stranded : forall c tr,
  clean (run c tr) -> taint_size (run c tr) = false -> cf_size (cfg (run c tr)) <> Fin 0 ->
  at_rest (run c tr) ->
  (forall m y, get_m (run c tr) m = Some y -> m_final y <> None) /\
  (forall t x, get_p (run c tr) t = Some x -> p_pc x = PDone) /\
  sem_value (run c tr) = cf_size (cfg (run c tr)) /\ sem_waiters (run c tr) = [].
Proof. exact no_work_stranded_run. Qed.

Theorem C04_complete_at_rest : forall c tr,
  clean (run c tr) -> taint_size (run c tr) = false -> taint_iter (run c tr) = false ->
  cf_size (cfg (run c tr)) <> Fin 0 -> at_rest (run c tr) ->
  forall m y, get_m (run c tr) m = Some y -> m_dead y = false ->
    match m_kind y with
    | MMap _ => m_idx y = length (m_els y) /\
                tasks_of (run c tr) m + count e_bad (m_els y) = length (m_els y)
    | _ => tasks_of (run c tr) m = ngood (m_bad y) (m_num y)
    end.
Proof.
  intros c tr Hc. apply requests_complete_at_rest; [now apply WFx_run|apply Extra_nc_run].
Qed.

(** The per-invocation clause, directly: "an invocation whose call raises synchronously is skipped
    without affecting the others".  The request carries an arbitrary failure pattern [m_bad y]
    (invocation [i] raises iff [nth i (m_bad y) false = true]).  For an apply()/start() request
    whose spawner ended normally and whose group was not cancelled:
    (1) every task of the request was made for a non-failing invocation index below [num];
    (2) every non-failing invocation index below [num] has a task (none is lost, whatever the
        failing ones did);
    (3) no invocation index has two tasks;
    (4) as lists: the invocation indices of the request's tasks are a permutation of the
        non-failing indices below [num]. *)
Theorem C04_skips_exactly_failing : forall c tr,
  clean (run c tr) -> taint_iter (run c tr) = false ->
  forall m y, get_m (run c tr) m = Some y -> is_apply_kind y = true ->
    m_final y = Some OResult -> m_dead y = false ->
    (forall t x, get_p (run c tr) t = Some x -> p_req x = m ->
                 p_el x < m_num y /\ nth (p_el x) (m_bad y) false = false) /\
    (forall i, i < m_num y -> nth i (m_bad y) false = false ->
               exists t x, get_p (run c tr) t = Some x /\ p_req x = m /\ p_el x = i) /\
    (forall t u x z, get_p (run c tr) t = Some x -> get_p (run c tr) u = Some z ->
                     p_req x = m -> p_req z = m -> p_el x = p_el z -> t = u) /\
    Permutation (indices_of (run c tr) m) (good_indices (m_bad y) (m_num y)).
Proof.
  intros c tr Hc Hti m y Hy Hk Hf Hd.
  pose proof (c04_complete _ (C04 c tr Hc) Hti m y Hy Hk Hf Hd) as Hcnt.
  destruct (WFx_run c tr Hc) as [W].
  destruct (skips_exactly_failing _ m y W Hy Hk Hcnt) as (H1 & H2 & H3).
  repeat split; auto.
  - apply (H1 t x); auto.
  - apply (H1 t x); auto.
  - apply indices_exactly_good; auto.
Qed.

(** Non-vacuity: apply(num=4) whose calls 0 and 2 raise, on a size-2 pool with workers that
    return at once: exactly the invocations 1 and 3 became tasks (ids 0 and 1), the spawner ended
    normally. *)
Definition w_ret : wspec := {| w_first := WReturn; w_cancel := WPropagate |}.
Definition tr_mixed : list label :=
  [ LOp (OpApply 4 [true; false; true; false] false w_ret CbNone CbNone None); LRun (HT (TM 0)) ].

Example C04_mixed_example :
  let s := run cfg2 tr_mixed in
  clean s /\ taint_iter s = false /\ map m_final (mtasks s) = [Some OResult] /\
  map m_dead (mtasks s) = [false] /\ tasks_of s 0 = 2 /\
  map (fun x => (p_req x, p_el x)) (ptasks s) = [(0, 1); (0, 3)] /\
  indices_of s 0 = [1; 3] /\ good_indices [true; false; true; false] 4 = [1; 3].
Proof. vm_compute. repeat split; reflexivity. Qed.

(** SimpleTaskPool: the pool's function fails at invocation indices 0 and 2 of EACH start()
    request: start(4) makes the invocations 1 and 3, start(2) the invocation 1. *)
Definition cfgS_mixed : config :=
  {| cf_size := Inf; cf_kind := KSimple; cf_bad := [true; false; true; false]; cf_w := w_ret;
     cf_ecb := CbNone; cf_ccb := CbNone |}.
Definition tr_mixed_start : list label :=
  [ LOp (OpStart 4); LOp (OpStart 2); LRun (HT (TM 0)); LRun (HT (TM 1)) ].

Example C04_mixed_start_example :
  let s := run cfgS_mixed tr_mixed_start in
  clean s /\ taint_iter s = false /\ map m_final (mtasks s) = [Some OResult; Some OResult] /\
  indices_of s 0 = [1; 3] /\ indices_of s 1 = [1] /\
  map expected_created (mtasks s) = [2; 1].
Proof. vm_compute. repeat split; reflexivity. Qed.

Example C04_example :
  let s := run cfg2 tr_cancel in
  clean s /\ taint_iter s = false /\ tasks_of s 0 = 3 /\ map m_final (mtasks s) = [Some OResult].
Proof. vm_compute. repeat split; reflexivity. Qed.

(** Monitor soundness: the extracted monitor for C04 (all three clauses) never rejects a stream of the model (P-iter). *)
From TP Require PMonSound_C04 PObs PMon.
Theorem mon_sound : forall c tr, clean (run c tr) -> taint_iter (run c tr) = false -> PMon.ok_C04 c (PObs.observe c tr) = true.
Proof. exact PMonSound_C04.mon_C04_sound. Qed.

(** EVENTUAL COMPLETION ("no invocation is lost ... however long it has to wait for room"): under a
    cooperative environment - one that issues no further request or cancellation and lets every
    waiting worker finish and every slow callback complete ([coop]: internal steps in ANY order,
    [OpFinish], [OpReleaseCb]) - every cooperative run from a reachable state is finite (bounded
    by the measure [mu2]), and every maximal one ends at rest with every spawner finished, every
    task done, the whole capacity free and every uncancelled request having made exactly one task
    per non-failing invocation index / consumed its whole iterable.  The two preconditions beyond
    P-unlock / P-iter are necessary (PLive.size0_rests_incomplete, PLive.resize_rests_incomplete:
    size 0 can start nothing; an assignment to pool_size can lose a wake-up - open finding D6). *)
From TP Require PLive_pot PLive_def PLive.
Theorem C04_eventually_complete : forall c tr0,
  clean (run c tr0) -> taint_size (run c tr0) = false -> taint_iter (run c tr0) = false ->
  cf_size c <> Fin 0 ->
  (exists tr, PLive_def.coop_run (run c tr0) tr /\ at_rest (run c (tr0 ++ tr)) /\
              PLive.complete_at c (run c (tr0 ++ tr))) /\
  (forall tr, PLive_def.coop_run (run c tr0) tr -> length tr <= PLive_pot.mu2 (run c tr0)) /\
  (forall tr, PLive_def.coop_run (run c tr0) tr ->
              (forall l, ~ PLive_def.coop_run (run c tr0) (tr ++ [l])) ->
              at_rest (run c (tr0 ++ tr)) /\ PLive.complete_at c (run c (tr0 ++ tr))).
Proof.
  intros c tr0 Hc Hts Hti Hsz. split; [|split].
  - exact (PLive.C04_eventually_complete c tr0 Hc Hts Hti Hsz).
  - exact (PLive.live_bounded_mu2 c tr0 Hc).
  - exact (PLive.C04_complete_every_maximal c tr0 Hc Hts Hti Hsz).
Qed.

Print Assumptions C04.
Print Assumptions C04_nothing_stranded.
Print Assumptions C04_complete_at_rest.
Print Assumptions C04_skips_exactly_failing.
Print Assumptions mon_sound.
Print Assumptions C04_eventually_complete.
