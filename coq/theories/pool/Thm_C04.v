(** C04 — apply/start run exactly the requested invocations.  Property theorem only. *)
From TP Require Import PSpec PRun PWF PProps_B PProps_B_inv PRest PRest_nc PExamples.

Theorem C04 : forall c tr, clean (run c tr) -> C04_spec (run c tr).
Proof.
  intros c tr Hc. destruct (WFx_run c tr Hc). apply C04_of_WFx; assumption.
Qed.

(** No invocation is lost: whenever the loop goes idle with nothing running (pool size not 0),
    every spawner has finished, every task is done, the whole capacity is free — and every
    request whose group was not cancelled has made exactly the invocations it was asked for
    (map family: one per non-bad element of the whole iterable). *)
Theorem C04_nothing_stranded : forall c tr,
  clean (run c tr) -> taint_size (run c tr) = false -> cf_size (cfg (run c tr)) <> Fin 0 ->
  at_rest (run c tr) ->
  (forall m y, get_m (run c tr) m = Some y -> m_final y <> None) /\
  (forall t x, get_p (run c tr) t = Some x -> p_pc x = PDone) /\
  sem_value (run c tr) = cf_size (cfg (run c tr)) /\ sem_waiters (run c tr) = [].
Proof. exact no_work_stranded_run. Qed.

Theorem C04_complete_at_rest : forall c tr,
  clean (run c tr) -> taint_size (run c tr) = false -> taint_iter (run c tr) = false ->
  cf_size (cfg (run c tr)) <> Fin 0 -> at_rest (run c tr) ->
  forall m y, get_m (run c tr) m = Some y -> m_dead y = false ->
    match m_kind y with
    | MMap _ => m_idx y = length (m_els y) /\
                tasks_of (run c tr) m + count e_bad (m_els y) = length (m_els y)
    | _ => tasks_of (run c tr) m = ngood (m_bad y) (m_num y)
    end.
Proof.
  intros c tr Hc. apply requests_complete_at_rest; [now apply WFx_run|apply Extra_nc_run].
Qed.

Example C04_example :
  let s := run cfg2 tr_cancel in
  clean s /\ taint_iter s = false /\ tasks_of s 0 = 3 /\ map m_final (mtasks s) = [Some OResult].
Proof. vm_compute. repeat split; reflexivity. Qed.

(** Monitor soundness: the extracted monitor for C04 (all three clauses) never rejects a stream of the model (P-iter). *)
From TP Require PMonSound_C04 PObs PMon.
Theorem mon_sound : forall c tr, clean (run c tr) -> taint_iter (run c tr) = false -> PMon.ok_C04 c (PObs.observe c tr) = true.
Proof. exact PMonSound_C04.mon_C04_sound. Qed.

Print Assumptions C04.
Print Assumptions C04_nothing_stranded.
Print Assumptions C04_complete_at_rest.
Print Assumptions mon_sound.
