(** Bonus: the ghost flags [taint_self] and [taint_unlock] are monotone (never reset), hence
    [clean (step s l) -> clean s]. *)
From TP Require Import PInv PInv_P_base PInv_P_view PInv_P_inv PInv_P_tok PInv_P_tok2
  PInv_P_chain PInv_P_step PInv_P_ed.

(** A generic step lemma for predicates that only need simple closure properties. *)
Lemma simple_step (P : state -> Prop) :
  Qpv P -> Qreg P ->
  (forall s t, P s -> P (run_p s t)) ->
  (forall s t, P s -> P (continue_p s t)) ->
  (forall s t, P s -> P (cancel_p s t)) ->
  (forall s d, P s -> P (run_d s d)) ->
  (forall s d c, P s -> P (run_g s d c)) ->
  (forall s t x, P s -> P (put_p s t x)) ->
  (forall s, P s -> P (do_op s OpUnlock)) ->
  (forall s k, P s -> P (do_op s (OpDriver k))) ->
  forall s l, P s -> P (step s l).
Proof.
  intros Hpv Hreg Hrp Hcp Hcan Hrd Hrg Hput Hun Hdr s l H.
  assert (H1 : P (set_res (set_evs s []) RNone)) by (eapply Hpv; [|exact H]; reflexivity).
  unfold step. destruct (negb _); auto.
  destruct l as [h| |o].
  - assert (H2 : P (unsched (set_res (set_evs s []) RNone) h))
      by (eapply Hpv; [apply pv_unsched|exact H1]).
    destruct h as [[t|m|d]|d c]; cbn [run_handle]; auto.
    apply (Q_run_m P Hpv Hreg); auto.
  - destruct (ctl _) as [|[t|m|d]]; auto.
    apply (Q_continue_m P Hpv Hreg); auto.
  - revert H1. generalize (set_res (set_evs s []) RNone). clear s H. intros s H.
    assert (Hdc : forall ids, P (do_cancel s ids)).
    { intros ids. unfold do_cancel. destruct (first_lookup_err s ids).
      - eapply Hpv; [|exact H]. reflexivity.
      - apply fold_inv; auto. }
    assert (Hres : forall s' ids, P s' ->
              P (match res s' with RErr _ => s' | _ => set_res s' (RIds ids) end)).
    { intros s' ids H'. destruct (res s'); auto; (eapply Hpv; [|exact H']; reflexivity). }
    assert (Hcg : forall s' g ids, P s' -> P (cancel_group_body s' g ids)).
    { intros s' g ids H'. unfold cancel_group_body. apply fold_inv.
      - intros s0 t H0. destruct (mem t (t_running s0)); auto.
      - eapply Hpv; [|exact H']. rewrite pv_mark_dead. apply pv_cancel_group_metas. }
    assert (Hca : forall gs s', P s' -> P (cancel_all_groups s' gs)).
    { induction gs as [|[g ids] r IH]; simpl; intros s' H'; auto. }
    destruct (op_other o) eqn:Eo.
    { destruct (op_driver o) eqn:Ed.
      - destruct o; try discriminate; auto.
      - eapply Hpv; [apply pv_do_op_other; auto|auto]. }
    destruct o; try discriminate; unfold do_op; auto.
    + assert (Hk : P (know s g)) by (eapply Hpv; eauto using pv_know).
      destruct (glookup g (groups (know s g))).
      * apply Hcg. eapply Hpv; [|exact Hk]; reflexivity.
      * eapply Hpv; [|apply Hk]. reflexivity.
    + apply Hca. eapply Hpv; [|exact H]; reflexivity.
    + destruct (get_p s tid); auto. eapply Hpv; [apply pv_sched|]. auto.
    + destruct (get_p s tid); auto. eapply Hpv; [apply pv_sched|]. auto.
Qed.

(** ** taint_unlock *)
Definition TU (s : state) : Prop := taint_unlock s = true.

Lemma TU_eq s s' : taint_unlock s' = taint_unlock s -> TU s -> TU s'.
Proof. unfold TU. congruence. Qed.

Lemma tu_pv s s' : pview s' = pview s -> taint_unlock s' = taint_unlock s.
Proof. intros E. change (vtu (pview s') = vtu (pview s)). now rewrite E. Qed.

Lemma vtu_enter_end_v v t x : vtu (enter_end_v v t x) = vtu v.
Proof. unfold enter_end_v. repeat (first [reflexivity | dmatch]). Qed.

Lemma vtu_enter_cancel_v v t x : vtu (enter_cancel_v v t x) = vtu v.
Proof.
  unfold enter_cancel_v. destruct (mem t (vR v)); [|apply vtu_enter_end_v].
  cbv zeta. destruct (p_ccb x); [rewrite vtu_enter_end_v|..]; reflexivity.
Qed.

Lemma vtu_cancel_p_v v cur t : vtu (cancel_p_v v cur t) = vtu v.
Proof. unfold cancel_p_v. repeat (first [reflexivity | dmatch]). Qed.

Ltac tuleaf :=
  autorewrite with pv; unfold finish_v, suspend_v;
  rewrite ?vtu_enter_end_v, ?vtu_enter_cancel_v; reflexivity.

Lemma tu_run_p s t : taint_unlock (run_p s t) = taint_unlock s.
Proof.
  change (vtu (pview (run_p s t)) = vtu (pview s)). unfold run_p. cbv zeta.
  repeat (first [reflexivity | dmatch]); tuleaf.
Qed.

Lemma tu_continue_p s t : taint_unlock (continue_p s t) = taint_unlock s.
Proof.
  change (vtu (pview (continue_p s t)) = vtu (pview s)). unfold continue_p.
  repeat (first [reflexivity | dmatch]); tuleaf.
Qed.

Lemma tu_cancel_p s t : taint_unlock (cancel_p s t) = taint_unlock s.
Proof.
  change (vtu (pview (cancel_p s t)) = vtu (pview s)). rewrite pv_cancel_p.
  apply vtu_cancel_p_v.
Qed.

Lemma tu_sched s h : taint_unlock (sched s h) = taint_unlock s.
Proof. apply tu_pv, pv_sched. Qed.

Lemma tu_wake_closed ds : forall s, taint_unlock (wake_closed s ds) = taint_unlock s.
Proof.
  induction ds as [|d r IH]; simpl; intros s; auto. rewrite IH.
  destruct (get_d s d); auto. destruct (fut_pending _); auto. now rewrite tu_sched.
Qed.

Lemma tu_after_g2 s d x outer : taint_unlock (after_g2 s d x outer) = taint_unlock s.
Proof.
  unfold after_g2. destruct outer; try reflexivity; destruct (d_kind x); try reflexivity.
  all: cbn [taint_unlock finish_d set_ctl emit put_d set_dtasks set_evs]; rewrite tu_wake_closed;
    reflexivity.
Qed.

Lemma tu_start_g2 s d x cs re : taint_unlock (start_g2 s d x cs re) = taint_unlock s.
Proof.
  unfold start_g2. destruct (make_gather _ _ _) as [g outer].
  destruct outer; try apply tu_after_g2. reflexivity.
Qed.

Lemma tu_after_g1 s d x outer : taint_unlock (after_g1 s d x outer) = taint_unlock s.
Proof.
  unfold after_g1. destruct (d_kind x).
  - destruct outer as [| |e|]; try destruct e; try reflexivity; rewrite tu_start_g2; reflexivity.
  - destruct (if re then None else _); [reflexivity|]. rewrite tu_start_g2. reflexivity.
  - reflexivity.
Qed.

Lemma tu_start_g1 s d x cs re : taint_unlock (start_g1 s d x cs re) = taint_unlock s.
Proof.
  unfold start_g1. destruct (make_gather _ _ _) as [g outer].
  destruct outer; try apply tu_after_g1. reflexivity.
Qed.

Lemma tu_run_d s d : taint_unlock (run_d s d) = taint_unlock s.
Proof.
  unfold run_d. destruct (get_d s d) as [x0|]; auto. destruct (d_pc x0); auto.
  - destruct (d_kind (set_d_fw x0 None)).
    + destruct (pop_ended s (gmeta s)) as [gm ended]. rewrite tu_start_g1. reflexivity.
    + rewrite tu_start_g1. reflexivity.
    + destruct (closed s); reflexivity.
  - apply tu_after_g1.
  - apply tu_after_g2.
Qed.

Lemma tu_run_g s d c : taint_unlock (run_g s d c) = taint_unlock s.
Proof. unfold run_g. repeat (first [reflexivity | rewrite tu_sched | dmatch]). Qed.

Lemma tu_register s m x : taint_unlock (register s m x) = taint_unlock s.
Proof.
  change (vtu (pview (register s m x)) = vtu (pview s)). rewrite pv_register. reflexivity.
Qed.

Lemma TU_step s l : TU s -> TU (step s l).
Proof.
  apply simple_step.
  - intros s0 s' E. apply TU_eq, tu_pv, E.
  - intros s0 m x. apply TU_eq, tu_register.
  - intros s0 t. apply TU_eq, tu_run_p.
  - intros s0 t. apply TU_eq, tu_continue_p.
  - intros s0 t. apply TU_eq, tu_cancel_p.
  - intros s0 d. apply TU_eq, tu_run_d.
  - intros s0 d c. apply TU_eq, tu_run_g.
  - intros s0 t x. apply TU_eq. reflexivity.
  - intros s0 H. unfold TU in *. cbn [do_op]. destruct (Nat.ltb 0 (n_gac s0)); cbn; auto.
  - intros s0 k. apply TU_eq. unfold do_op. rewrite tu_sched. destruct k; reflexivity.
Qed.

Lemma clean_step_inv s l : clean (step s l) -> clean s.
Proof.
  unfold clean. intros H. destruct (taint_unlock s) eqn:E; auto.
  pose proof (TU_step s l E) as H1. unfold TU in H1. congruence.
Qed.

(** ** taint_self *)
Definition TS (s : state) : Prop := taint_self s = true.

Lemma TS_eq s s' : taint_self s' = taint_self s -> TS s -> TS s'.
Proof. unfold TS. congruence. Qed.

Lemma ts_pc s s' : pcore s' = pcore s -> taint_self s' = taint_self s.
Proof. intros E. change (vts (pcore s') = vts (pcore s)). now rewrite E. Qed.

Lemma ts_pv s s' : pview s' = pview s -> taint_self s' = taint_self s.
Proof. intros E. apply ts_pc. now apply pcore_of_pview. Qed.

Lemma vts_enter_end_v v t x : vts (enter_end_v v t x) = vts v.
Proof. unfold enter_end_v. repeat (first [reflexivity | dmatch]). Qed.

Lemma vts_enter_cancel_v v t x : vts (enter_cancel_v v t x) = vts v.
Proof.
  unfold enter_cancel_v. destruct (mem t (vR v)); [|apply vts_enter_end_v].
  cbv zeta. destruct (p_ccb x); [rewrite vts_enter_end_v|..]; reflexivity.
Qed.

Lemma vts_cancel_p_v v cur t : vts v = true -> vts (cancel_p_v v cur t) = true.
Proof.
  intros H. unfold cancel_p_v. repeat (first [assumption | dmatch]); cbn; auto.
Qed.

Ltac tsleaf :=
  autorewrite with pv; unfold finish_v, suspend_v;
  rewrite ?vts_enter_end_v, ?vts_enter_cancel_v; reflexivity.

Lemma ts_run_p s t : taint_self (run_p s t) = taint_self s.
Proof.
  change (vts (pview (run_p s t)) = vts (pview s)). unfold run_p. cbv zeta.
  repeat (first [reflexivity | dmatch]); tsleaf.
Qed.

Lemma ts_continue_p s t : taint_self (continue_p s t) = taint_self s.
Proof.
  change (vts (pview (continue_p s t)) = vts (pview s)). unfold continue_p.
  repeat (first [reflexivity | dmatch]); tsleaf.
Qed.

Lemma TS_Qpc : Qpc TS.
Proof. intros s s' E. apply TS_eq, ts_pc, E. Qed.

Lemma TS_Qag2 : Qag2 TS.
Proof.
  intros s d x outer H _. eapply TS_eq; [|exact H].
  change (vts (pcore (after_g2 s d x outer)) = vts (pview s)). rewrite pc_after_g2.
  unfold after_g2_v. repeat (first [reflexivity | dmatch]).
Qed.

Lemma TS_step s l : TS s -> TS (step s l).
Proof.
  apply simple_step.
  - apply Qpc_Qpv, TS_Qpc.
  - intros s0 m x. apply TS_eq. change (vts (pview (register s0 m x)) = vts (pview s0)).
    rewrite pv_register. reflexivity.
  - intros s0 t. apply TS_eq, ts_run_p.
  - intros s0 t. apply TS_eq, ts_continue_p.
  - intros s0 t H. change (vts (pview (cancel_p s0 t)) = true). rewrite pv_cancel_p.
    now apply vts_cancel_p_v.
  - intros s0 d H. apply (Q_run_d TS TS_Qpc TS_Qag2); auto.
    intros x0 _ _. eapply TS_eq; [|exact H].
    change (vts (pcore (after_g2 s0 d (set_d_fw x0 None)
                  match d_fw x0 with Some f => f | None => FOk end)) = vts (pview s0)).
    rewrite pc_after_g2. unfold after_g2_v. repeat (first [reflexivity | dmatch]).
  - intros s0 d c. apply TS_eq, ts_pc, pc_run_g.
  - intros s0 t x. apply TS_eq. reflexivity.
  - intros s0. apply TS_eq, ts_pc, pc_do_op_other. reflexivity.
  - intros s0 k. apply TS_eq, ts_pc, pc_do_op_other. reflexivity.
Qed.

Lemma taint_self_step_inv s l : taint_self (step s l) = false -> taint_self s = false.
Proof.
  intros H. destruct (taint_self s) eqn:E; auto.
  pose proof (TS_step s l E) as H1. unfold TS in H1. congruence.
Qed.

