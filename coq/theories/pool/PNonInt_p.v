(** Erasure commutes with the pool-task transitions. *)
From TP Require Export PNonInt_sem.

Local Notation E := erase_state.

Lemma E_classify s t : classify (E s) t = classify s t.
Proof. reflexivity. Qed.
#[export] Hint Rewrite E_classify : er.

Lemma cb_none_erase c : match erase_cb c with CbNone => true | _ => false end =
                        match c with CbNone => true | _ => false end.
Proof. destruct c; reflexivity. Qed.

Definition moved (s1 : state) (t : nat) (x : ptask) : state :=
  let s2 := set_t_ended s1 (dict_add (t_ended s1) t) in
  let s3 := sem_release s2 in
  let x := set_p_nrel x (S (p_nrel x)) in
  let s4 := if p_ismap x then map_release s3 (p_req x) else s3 in
  match p_ecb x with
  | CbNone => finish_p s4 t x
  | _ =>
      set_ctl (emit (put_p s4 t (set_p_pc (set_p_necb x (S (p_necb x))) PUEndCb))
                    (EvCbBegin KEnd t (classify s4 t)))
              (CUser (TP t))
  end.

Lemma enter_end_eq s t x :
  enter_end s t x =
  if mem t (t_running s) then moved (set_t_running s (remove1 t (t_running s))) t x
  else if mem t (t_cancelled s) then moved (set_t_cancelled s (remove1 t (t_cancelled s))) t x
  else finish_p s t (set_p_exc x (Some EKeyError)).
Proof. reflexivity. Qed.

Lemma E_moved s t x : p_mc x = false -> E (moved s t x) = moved (E s) t (erase_ptask x).
Proof.
  intros Hmc. unfold moved. cbv zeta. autorewrite with er.
  cbn [p_ismap p_req p_ecb set_p_nrel].
  autorewrite with er.
  set (s3 := sem_release (set_t_ended (E s) (dict_add (t_ended s) t))).
  assert (H4 : E (if p_ismap x then map_release (sem_release (set_t_ended s (dict_add (t_ended s) t)))
                                      (p_req x)
                  else sem_release (set_t_ended s (dict_add (t_ended s) t))) =
               (if p_ismap x then map_release s3 (p_req x) else s3)).
  { unfold s3. destruct (p_ismap x); autorewrite with er; reflexivity. }
  set (s4 := if p_ismap x then map_release (sem_release (set_t_ended s (dict_add (t_ended s) t)))
                                 (p_req x)
             else sem_release (set_t_ended s (dict_add (t_ended s) t))) in *.
  rewrite <- H4. clearbody s4. clear H4 s3.
  destruct (p_ecb x); simpl erase_cb; cbv iota.
  - rewrite E_finish_p by (left; exact Hmc). autorewrite with er. reflexivity.
  - autorewrite with er. reflexivity.
  - autorewrite with er. reflexivity.
Qed.

Lemma E_enter_end s t x :
  p_mc x = false -> E (enter_end s t x) = enter_end (E s) t (erase_ptask x).
Proof.
  intros Hmc. rewrite !enter_end_eq. autorewrite with er.
  destruct (mem t (t_running s)).
  - rewrite E_moved by auto. reflexivity.
  - destruct (mem t (t_cancelled s)).
    + rewrite E_moved by auto. reflexivity.
    + rewrite E_finish_p by (right; reflexivity). reflexivity.
Qed.

Lemma E_enter_cancel s t x :
  p_mc x = false -> E (enter_cancel s t x) = enter_cancel (E s) t (erase_ptask x).
Proof.
  intros Hmc. unfold enter_cancel. autorewrite with er.
  destruct (mem t (t_running s)).
  - destruct (p_ccb x); simpl erase_cb; cbv iota.
    + rewrite E_enter_end by auto. reflexivity.
    + autorewrite with er. reflexivity.
    + autorewrite with er. reflexivity.
  - rewrite E_enter_end by auto. reflexivity.
Qed.

(** ** What is needed of the task that runs *)
Definition exc_ok (x : ptask) : Prop := erase_exc (p_exc x) = None.

Definition ptask_ok (x : ptask) : Prop :=
  exc_ok x /\
  match p_pc x with
  | PUStart => w_first (p_w x) <> WSuspend -> p_mc x = false
  | PUResume | PUCancelled | PUCancelCb | PUEndCb => p_mc x = false
  | _ => True
  end.

Lemma erase_set_user_exc x t st :
  exc_ok x -> erase_ptask (set_p_exc x (Some (EUser t st))) = erase_ptask x.
Proof. intros H. unfold erase_ptask. cbn. unfold exc_ok in H. rewrite H. reflexivity. Qed.

Lemma erase_set_user_exc' x t st :
  exc_ok x -> set_p_exc (erase_ptask x) (erase_exc (Some (EUser t st))) = erase_ptask x.
Proof. intros H. rewrite <- Exs_p_exc. apply erase_set_user_exc; auto. Qed.

Lemma erase_cb_raise x r st t : exc_ok x -> erase_ptask (cb_raise x r st t) = erase_ptask x.
Proof. intros H. unfold cb_raise. destruct r; auto. apply erase_set_user_exc; auto. Qed.

Lemma p_mc_cb_raise x r st t : p_mc (cb_raise x r st t) = p_mc x.
Proof. unfold cb_raise. destruct r; reflexivity. Qed.

Lemma p_exc_cb_raise_ok x r st t : exc_ok x -> exc_ok (cb_raise x r st t).
Proof. unfold cb_raise, exc_ok. destruct r; auto. Qed.

Lemma E_continue_p s t :
  (forall x, get_p s t = Some x -> ptask_ok x) -> E (continue_p s t) = continue_p (E s) t.
Proof.
  intros Hok. unfold continue_p. autorewrite with er.
  destruct (get_p s t) as [x|] eqn:Hx; simpl option_map; cbv iota; auto.
  destruct (Hok x eq_refl) as [Hexc Hmc]. autorewrite with er.
  destruct (p_pc x) eqn:Hpc; auto.
  - (* PUStart *)
    unfold erase_w; cbn [w_first].
    destruct (w_first (p_w x)) eqn:Hw.
    + autorewrite with er. reflexivity.
    + rewrite E_enter_end by (apply Hmc; congruence). autorewrite with er. reflexivity.
    + rewrite E_enter_end by (apply Hmc; congruence). autorewrite with er.
      rewrite erase_set_user_exc' by auto. reflexivity.
  - (* PUResume *)
    destruct (p_fin x).
    + rewrite E_enter_end by auto. autorewrite with er. reflexivity.
    + rewrite E_enter_end by auto. autorewrite with er.
      rewrite erase_set_user_exc' by auto. reflexivity.
  - (* PUCancelled *)
    unfold erase_w; cbn [w_cancel].
    destruct (w_cancel (p_w x)).
    + rewrite E_enter_cancel by auto. autorewrite with er. reflexivity.
    + rewrite E_enter_end by auto. autorewrite with er. reflexivity.
  - (* PUCancelCb *)
    destruct (p_ccb x) as [|r|[|] r]; simpl erase_cb; cbv iota.
    + rewrite E_enter_end by auto. reflexivity.
    + rewrite E_enter_end by (rewrite p_mc_cb_raise; auto). autorewrite with er.
      rewrite erase_cb_raise by auto. reflexivity.
    + autorewrite with er. reflexivity.
    + rewrite E_enter_end by (rewrite p_mc_cb_raise; auto). autorewrite with er.
      rewrite erase_cb_raise by auto. reflexivity.
  - (* PUEndCb *)
    destruct (p_ecb x) as [|r|[|] r]; simpl erase_cb; cbv iota.
    + rewrite E_finish_p by (left; auto). reflexivity.
    + rewrite E_finish_p by (left; rewrite p_mc_cb_raise; auto). autorewrite with er.
      rewrite erase_cb_raise by auto. reflexivity.
    + autorewrite with er. reflexivity.
    + rewrite E_finish_p by (left; rewrite p_mc_cb_raise; auto). autorewrite with er.
      rewrite erase_cb_raise by auto. reflexivity.
Qed.

Lemma cb_raises_erase c : cb_raises (erase_cb c) = false.
Proof. destruct c; reflexivity. Qed.

Lemma E_run_p s t :
  (forall x, get_p s t = Some x -> exc_ok x) -> E (run_p s t) = run_p (E s) t.
Proof.
  intros Hok. unfold run_p. autorewrite with er.
  destruct (get_p s t) as [x0|] eqn:Hx; simpl option_map; cbv iota; auto.
  pose proof (Hok x0 eq_refl) as Hexc. autorewrite with er.
  set (x := set_p_mc (set_p_fw x0 None) false).
  assert (Hx' : exc_ok x) by exact Hexc.
  assert (Hmc : p_mc x = false) by reflexivity.
  change (set_p_mc (set_p_fw (erase_ptask x0) None) false) with (erase_ptask x).
  clearbody x.
  destruct (p_pc x0) eqn:Hpc; auto; destruct (task_input (p_mc x0) (p_fw x0)).
  - (* PCreated, InOk *)
    autorewrite with er. destruct (p_unst x).
    + autorewrite with er. reflexivity.
    + autorewrite with er. reflexivity.
    + rewrite E_enter_cancel by auto. autorewrite with er. reflexivity.
  - rewrite E_finish_p by (left; auto). autorewrite with er. reflexivity.
  - rewrite E_finish_p by (left; auto). autorewrite with er. reflexivity.
  - autorewrite with er. reflexivity.
  - autorewrite with er. reflexivity.
  - autorewrite with er. reflexivity.
  - (* PWaitCcb, InOk *)
    rewrite E_enter_end by (rewrite p_mc_cb_raise; auto). autorewrite with er.
    rewrite erase_cb_raise by auto. rewrite cb_raises_erase. reflexivity.
  - rewrite E_enter_end by auto. autorewrite with er. reflexivity.
  - rewrite E_enter_end by auto. autorewrite with er. reflexivity.
  - (* PWaitEcb, InOk *)
    rewrite E_finish_p by (left; rewrite p_mc_cb_raise; auto). autorewrite with er.
    rewrite erase_cb_raise by auto. rewrite cb_raises_erase. reflexivity.
  - rewrite E_finish_p by (left; auto). autorewrite with er. reflexivity.
  - rewrite E_finish_p by (left; auto). autorewrite with er. reflexivity.
Qed.
