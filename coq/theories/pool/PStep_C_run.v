(** State-level: registries relation and events for pool tasks, spawners and operations. *)
From TP Require Import PInv PInv_P_base PInv_P_view PInv_P_inv PInv_P_tok PInv_P_tok2
  PInv_P_chain PInv_P_step PSpecStep PStep_C_ev PStep_C_rel.

(** ** pool tasks: registries *)
Ltac vrleaf :=
  autorewrite with pv; unfold finish_v, suspend_v;
  auto using VRel_refl, VRel_vput, VRel_enter_end, VRel_enter_cancel.

Lemma VRel_run_p s t : I1 s -> VRel (pview s) (pview (run_p s t)).
Proof.
  intros H. apply I1_iff in H. unfold run_p. cbv zeta.
  repeat (first [apply VRel_refl | dmatch]); vrleaf.
Qed.

Lemma VRel_continue_p s t : I1 s -> VRel (pview s) (pview (continue_p s t)).
Proof.
  intros H. apply I1_iff in H. unfold continue_p.
  repeat (first [apply VRel_refl | dmatch]); vrleaf.
Qed.

(** ** pool tasks: events *)
Lemma moved_facts s2 (b : bool) m :
  let s4 := if b then map_release (sem_release s2) m else sem_release s2 in
  evs s4 = evs s2 /\ pview s4 = pview s2.
Proof.
  destruct b; cbn zeta.
  - now rewrite ev_map_release, ev_sem_release, pv_map_release, pv_sem_release.
  - now rewrite ev_sem_release, pv_sem_release.
Qed.

Lemma ev_enter_end s t x e :
  I1v (pview s) -> In e (evs (enter_end s t x)) ->
  In e (evs s) \/ e = EvCbBegin KEnd t ClEnded.
Proof.
  intros H. unfold enter_end.
  destruct (mem t (t_running s)) eqn:E1; [|destruct (mem t (t_cancelled s)) eqn:E2].
  - cbn [p_ismap p_ecb set_p_nrel].
    set (s2 := set_t_ended _ _).
    destruct (moved_facts s2 (p_ismap x) (p_req x)) as (He & Hv). cbv zeta in He, Hv.
    set (s4 := if p_ismap x then _ else _) in *.
    assert (Hc : classify s4 t = ClEnded).
    { rewrite classify_loc, Hv. change (pview s2) with (moveRE (pview s) t).
      apply loc_moveRE; auto. now apply mem_In. }
    destruct (p_ecb x); [rewrite ev_finish_p, He; auto|..];
      cbn [evs set_ctl emit set_evs put_p set_ptasks]; rewrite He, Hc, in_app_iff; simpl;
      intros [?|[<-|[]]]; auto.
  - cbn [p_ismap p_ecb set_p_nrel].
    set (s2 := set_t_ended _ _).
    destruct (moved_facts s2 (p_ismap x) (p_req x)) as (He & Hv). cbv zeta in He, Hv.
    set (s4 := if p_ismap x then _ else _) in *.
    assert (Hc : classify s4 t = ClEnded).
    { rewrite classify_loc, Hv. change (pview s2) with (moveCE (pview s) t).
      apply loc_moveCE; auto. now apply mem_In. }
    destruct (p_ecb x); [rewrite ev_finish_p, He; auto|..];
      cbn [evs set_ctl emit set_evs put_p set_ptasks]; rewrite He, Hc, in_app_iff; simpl;
      intros [?|[<-|[]]]; auto.
  - rewrite ev_finish_p. auto.
Qed.

Lemma ev_enter_cancel s t x e :
  I1v (pview s) -> In e (evs (enter_cancel s t x)) ->
  In e (evs s) \/ e = EvCbBegin KEnd t ClEnded \/ e = EvCbBegin KCancel t ClCancelled.
Proof.
  intros H. unfold enter_cancel. destruct (mem t (t_running s)) eqn:E1.
  - apply mem_In in E1. set (s1 := set_t_cancelled _ _).
    assert (H1 : I1v (pview s1)) by (apply (I1v_moveRC (pview s) t); auto).
    assert (Hc : classify s1 t = ClCancelled).
    { rewrite classify_loc. change (pview s1) with (moveRC (pview s) t). now apply loc_moveRC. }
    destruct (p_ccb x).
    + intros He. apply ev_enter_end in He; auto. tauto.
    + cbn [evs set_ctl emit set_evs put_p set_ptasks]. rewrite Hc, in_app_iff. simpl.
      intros [?|[<-|[]]]; auto.
    + cbn [evs set_ctl emit set_evs put_p set_ptasks]. rewrite Hc, in_app_iff. simpl.
      intros [?|[<-|[]]]; auto.
  - intros He. apply ev_enter_end in He; auto. tauto.
Qed.

Definition ev_ok_p (s : state) (t : nat) (e : event) : Prop :=
  match e with
  | EvCbBegin KEnd t' cl => t' = t /\ cl = ClEnded
  | EvCbBegin KCancel t' cl =>
      t' = t /\ cl = ClCancelled /\
      exists x, get_p s t = Some x /\
        ((p_pc x = PUCancelled /\ w_cancel (p_w x) = WPropagate) \/
         (p_pc x = PCreated /\ p_unst x = UDeferred))
  | EvDriverDone _ _ => False
  | _ => True
  end.

Ltac evleaf E0 :=
  let He := fresh "He" in
  intros He;
  try (apply ev_enter_cancel in He; [|assumption]);
  try (apply ev_enter_end in He; [|assumption]);
  rewrite ?ev_finish_p, ?ev_suspend_p in He;
  cbn [evs set_ctl emit set_evs put_p set_ptasks] in He; rewrite E0 in He; simpl in He;
  repeat match goal with H : _ \/ _ |- _ => destruct H end; try contradiction;
  subst; cbn; auto;
  try (split; [reflexivity|split; [reflexivity|eexists; split; [eassumption|]]];
       first [left; split; assumption | right; split; assumption]).

Lemma ev_run_p s t e : I1 s -> evs s = [] -> In e (evs (run_p s t)) -> ev_ok_p s t e.
Proof.
  intros H E0. apply I1_iff in H. unfold run_p.
  destruct (get_p s t) as [x0|] eqn:Ex; [|rewrite E0; intros []].
  cbv zeta. destruct (p_pc x0) eqn:Epc; try (rewrite E0; intros []).
  - destruct (task_input _ _); [destruct (p_unst _) eqn:Eu|..]; evleaf E0.
  - destruct (task_input _ _); evleaf E0.
  - destruct (task_input _ _); evleaf E0.
  - destruct (task_input _ _); evleaf E0.
Qed.

Lemma ev_continue_p s t e : I1 s -> evs s = [] -> In e (evs (continue_p s t)) -> ev_ok_p s t e.
Proof.
  intros H E0. apply I1_iff in H. unfold continue_p.
  destruct (get_p s t) as [x0|] eqn:Ex; [|rewrite E0; intros []].
  destruct (p_pc x0) eqn:Epc; try (rewrite E0; intros []).
  - destruct (w_first (p_w x0)); evleaf E0.
  - destruct (p_fin x0); evleaf E0.
  - destruct (w_cancel (p_w x0)) eqn:Ew; evleaf E0.
  - destruct (p_ccb x0) as [|r|sl r]; [| |destruct sl]; evleaf E0.
  - destruct (p_ecb x0) as [|r|sl r]; [| |destruct sl]; evleaf E0.
Qed.

(** ** spawners: registries *)
Definition MQ (s0 s' : state) : Prop :=
  t_cancelled s' = t_cancelled s0 /\ t_ended s' = t_ended s0 /\
  num_started s0 <= num_started s' /\
  exists extra, t_running s' = t_running s0 ++ extra /\
                forall t, In t extra -> num_started s0 <= t.

Lemma MQ_refl s : MQ s s.
Proof. repeat split; auto. exists []. rewrite app_nil_r. split; auto. intros t []. Qed.

Lemma MQ_Qpv s0 : Qpv (MQ s0).
Proof.
  intros s s' E. apply pcore_of_pview, pcore_inv in E.
  destruct E as (a & b & c & d & _). unfold MQ. now rewrite a, b, c, d.
Qed.

Lemma MQ_Qreg s0 : Qreg (MQ s0).
Proof.
  intros s m x (a & b & c & extra & d & e).
  assert (Hv : pview (register s m x) = register_v (pview s) m x) by apply pv_register.
  assert (H1 : t_cancelled (register s m x) = t_cancelled s)
    by (change (vC (pview (register s m x)) = vC (pview s)); now rewrite Hv).
  assert (H2 : t_ended (register s m x) = t_ended s)
    by (change (vE (pview (register s m x)) = vE (pview s)); now rewrite Hv).
  assert (H3 : num_started (register s m x) = S (num_started s))
    by (change (vns (pview (register s m x)) = S (vns (pview s))); now rewrite Hv).
  assert (H4 : t_running (register s m x) = dict_add (t_running s) (num_started s))
    by (change (vR (pview (register s m x)) = dict_add (vR (pview s)) (vns (pview s)));
        now rewrite Hv).
  unfold MQ. rewrite H1, H2, H3, H4. repeat split; auto.
  unfold dict_add. destruct (mem _ _).
  - exists extra. auto.
  - exists (extra ++ [num_started s]). rewrite d, app_assoc. split; auto.
    intros t. rewrite in_app_iff. simpl. intros [?|[<-|[]]]; auto.
Qed.

Lemma MQ_VRel s0 s' : I1 s0 -> MQ s0 s' -> VRel (pview s0) (pview s').
Proof.
  intros H (a & b & c & extra & d & e) t.
  destruct (in_dec Nat.eq_dec t extra) as [Hi|Hn].
  - assert (Hnr : ~ In t (regs s0)) by (intros Hr; apply (I1_lt _ H) in Hr; apply e in Hi; lia).
    unfold regs in Hnr. rewrite !in_app_iff in Hnr. split.
    + rewrite (loc_U (pview s0)) by (cbn; tauto). rewrite (loc_R (pview s')).
      * cbn. now apply e.
      * cbn. rewrite d, in_app_iff. auto.
    + intros Hr. exfalso. unfold vregs in Hr. cbn in Hr. rewrite !in_app_iff in Hr. tauto.
  - assert (Hr : In t (t_running s') <-> In t (t_running s0)).
    { rewrite d, in_app_iff. tauto. }
    split.
    + rewrite (loc_ext (pview s0) (pview s') t); [apply csucc_refl|..]; cbn;
        rewrite ?a, ?b; tauto.
    + unfold vregs. cbn. rewrite a, b, !in_app_iff, Hr. tauto.
Qed.

(** ** operations: the registries are untouched *)
Definition R3 (s s' : state) : Prop :=
  t_running s' = t_running s /\ t_cancelled s' = t_cancelled s /\ t_ended s' = t_ended s.

Lemma R3_refl s : R3 s s.
Proof. repeat split. Qed.

Lemma R3_trans a b c : R3 a b -> R3 b c -> R3 a c.
Proof. intros (x & y & z) (x' & y' & z'). repeat split; congruence. Qed.

Lemma R3_pc s s' : pcore s' = pcore s -> R3 s s'.
Proof. intros E. apply pcore_inv in E. repeat split; tauto. Qed.

Lemma R3_pv s s' : pview s' = pview s -> R3 s s'.
Proof. intros E. now apply R3_pc, pcore_of_pview. Qed.

Lemma R3_cancel_p s t : R3 s (cancel_p s t).
Proof.
  assert (Hv : pview (cancel_p s t) = cancel_p_v (pview s) (is_current s (TP t)) t)
    by apply pv_cancel_p.
  assert (Hs : forall v cur, vR (cancel_p_v v cur t) = vR v /\ vC (cancel_p_v v cur t) = vC v /\
                             vE (cancel_p_v v cur t) = vE v).
  { intros v cur. unfold cancel_p_v. repeat (first [now repeat split | dmatch]). }
  destruct (Hs (pview s) (is_current s (TP t))) as (a & b & c).
  repeat split.
  - change (vR (pview (cancel_p s t)) = vR (pview s)). now rewrite Hv.
  - change (vC (pview (cancel_p s t)) = vC (pview s)). now rewrite Hv.
  - change (vE (pview (cancel_p s t)) = vE (pview s)). now rewrite Hv.
Qed.

Lemma R3_fold {A} (f : state -> A -> state) :
  (forall s a, R3 s (f s a)) -> forall l s, R3 s (fold_left f l s).
Proof.
  intros H l. induction l; simpl; intros s; [apply R3_refl|].
  eapply R3_trans; [apply H|apply IHl].
Qed.

Lemma R3_do_cancel s ids : R3 s (do_cancel s ids).
Proof.
  unfold do_cancel. destruct (first_lookup_err s ids); [now apply R3_pv|].
  apply R3_fold, R3_cancel_p.
Qed.

Lemma R3_cancel_group_body s g ids : R3 s (cancel_group_body s g ids).
Proof.
  unfold cancel_group_body. eapply R3_trans; [|apply R3_fold].
  - apply R3_pv. rewrite pv_mark_dead. apply pv_cancel_group_metas.
  - intros s0 t. destruct (mem t (t_running s0)); [apply R3_cancel_p|apply R3_refl].
Qed.

Lemma R3_cancel_all_groups gs : forall s, R3 s (cancel_all_groups s gs).
Proof.
  induction gs as [|[g ids] r IH]; simpl; intros s; [apply R3_refl|].
  eapply R3_trans; [apply R3_cancel_group_body|apply IH].
Qed.

Lemma R3_stop s ids :
  R3 s (match res (do_cancel s ids) with
        | RErr _ => do_cancel s ids | _ => set_res (do_cancel s ids) (RIds ids) end).
Proof.
  destruct (res _); try apply R3_do_cancel;
    (eapply R3_trans; [apply R3_do_cancel|now apply R3_pv]).
Qed.

Lemma R3_do_op s o : R3 s (do_op s o).
Proof.
  destruct (op_other o) eqn:Eo.
  { apply R3_pc, pc_do_op_other, Eo. }
  destruct o; try discriminate; unfold do_op.
  - apply R3_do_cancel.
  - destruct (glookup _ _).
    + eapply R3_trans; [|apply R3_cancel_group_body]. apply R3_pv.
      transitivity (pview (know s g)); [reflexivity|apply pv_know].
    + apply R3_pv. rewrite pv_set_res. apply pv_know.
  - eapply R3_trans; [|apply R3_cancel_all_groups]. now apply R3_pv.
  - apply R3_stop.
  - apply R3_stop.
  - destruct (get_p s tid); [|apply R3_refl]. repeat split.
    all: match goal with |- ?f (sched ?a ?b) = _ =>
           change (f (sched a b)) with (f a) || idtac end.
    all: unfold sched; destruct (is_ready _ _); reflexivity.
  - destruct (get_p s tid); [|apply R3_refl]. repeat split.
    all: unfold sched; destruct (is_ready _ _); reflexivity.
Qed.

Lemma R3_VRel s s' : R3 s s' -> VRel (pview s) (pview s').
Proof. intros (a & b & c). now apply VRel_same. Qed.
