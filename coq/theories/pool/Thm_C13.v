(** C13 — flush forgets finished tasks only.  Property theorems only. *)
From TP Require Import PSpecStep PRun PWF PInv_P PStep_C PTrace_C13 PExamples.
From TP Require PStep_C_drv.

(** In every step of every clean run: a task that leaves the registries had finished; when a
    flush completes, the running and cancelled registries are untouched and its whole snapshot is
    forgotten. *)
Theorem C13_step : forall c tr l, clean (run c (tr ++ [l])) ->
  C13_step (run c tr) (run c (tr ++ [l])).
Proof.
  intros c tr l H. destruct (WFx_before_step c tr l H) as [X Hc]. rewrite run_snoc.
  apply C13_step_holds'; [exact (x_wf _ X)|exact (x_p _ X)|exact (x_cdrv _ X)|exact Hc].
Qed.

(** Once flush() has returned normally, no task that had finished before the call is remembered
    — whatever happened while it waited, including other flushes. *)
Theorem C13_trace : forall c tr0 tr2 re t x,
  let tr1 := tr0 ++ [LOp (OpDriver (DFlush re))] in
  let d := length (dtasks (run c tr0)) in
  clean (run c (tr1 ++ tr2)) ->
  get_p (run c tr1) t = Some x -> p_pc x = PDone ->
  (exists y, get_d (run c (tr1 ++ tr2)) d = Some y /\ d_final y = Some OResult) ->
  ~ In t (regs (run c (tr1 ++ tr2))).
Proof.
  intros c tr0 tr2 re t x tr1 d Hc Hx Hpc Hd.
  exact (C13_trace' c tr0 tr2 re t x (fun tr H => WF_run c tr H) Hc Hx Hpc Hd).
Qed.

Example C13_example :
  let s := run cfg2 tr_cancel in
  clean s /\ classify s 0 = ClUnknown /\ classify s 1 = ClRunning /\
  map d_final (dtasks s) = [Some OResult].
Proof. vm_compute. repeat split; reflexivity. Qed.


(** Monitor soundness: the extracted monitor for C13 (all four clauses) never rejects a stream of the model (P-self). *)
From TP Require PMonSound13_C13 PObs PMon.
Theorem mon_sound : forall c tr, clean (run c tr) -> taint_self (run c tr) = false -> PMon.ok_C13 c (PObs.observe c tr) = true.
Proof. exact PMonSound13_C13.mon_C13_sound. Qed.

(** EVENTUALLY: flush() returns.  In the final state of every maximal cooperative run (no further
    request or cancellation; every waiting worker may finish, every slow callback complete) from
    any reachable state - whatever the pool size, also 0 - every flush() call has returned. *)
From TP Require PLive_def PLiveDrv_stuck PLiveDrv.
Theorem C13_flush_eventually_returns : forall c tr0 d x re,
  clean (run c tr0) ->
  get_d (run c tr0) d = Some x -> d_kind x = DFlush re ->
  forall tr, PLive_def.coop_run (run c tr0) tr ->
  (forall l, ~ PLive_def.coop_run (run c tr0) (tr ++ [l])) ->
  exists x', get_d (run c (tr0 ++ tr)) d = Some x' /\ d_kind x' = DFlush re /\
             PLiveDrv_stuck.drv_done x'.
Proof. exact PLiveDrv.C13_flush_eventually_returns. Qed.

Print Assumptions C13_step.
Print Assumptions C13_trace.
Print Assumptions mon_sound.
Print Assumptions C13_flush_eventually_returns.
