(** [start_calls] only changes when a start() request is accepted. *)
From TP Require Import PInv_Q_runm.

Lemma sc_sched s h : start_calls (sched s h) = start_calls s.
Proof. unfold sched. destruct (is_ready s h); reflexivity. Qed.
Lemma sc_unsched s h : start_calls (unsched s h) = start_calls s.
Proof. reflexivity. Qed.
Lemma sc_emit s e : start_calls (emit s e) = start_calls s.
Proof. reflexivity. Qed.
Lemma sc_know s g : start_calls (know s g) = start_calls s.
Proof. unfold know. destruct (existsb _ _); reflexivity. Qed.
Lemma sc_fold_sched l : forall s, start_calls (fold_left sched l s) = start_calls s.
Proof. induction l; simpl; intros; auto. rewrite IHl. apply sc_sched. Qed.
Lemma sc_sched_cbs s r : start_calls (sched_cbs s r) = start_calls s.
Proof. unfold sched_cbs. apply sc_fold_sched. Qed.
Lemma sc_put_d s d x : start_calls (put_d s d x) = start_calls s.
Proof. reflexivity. Qed.
Lemma sc_finish_d s d x e : start_calls (finish_d s d x e) = start_calls s.
Proof. reflexivity. Qed.
Lemma wake_closed_cons s d t :
  wake_closed s (d :: t) =
  wake_closed (match get_d s d with
               | Some x => if fut_pending (d_fw x)
                           then sched (put_d s d (set_d_fw x (Some FOk))) (HT (TD d)) else s
               | None => s end) t.
Proof. reflexivity. Qed.

Lemma sc_wake_closed ds : forall s, start_calls (wake_closed s ds) = start_calls s.
Proof.
  induction ds as [|d t IH]; intros s; [reflexivity|]. rewrite wake_closed_cons, IH.
  destruct (get_d s d); auto. destruct (fut_pending _); auto. rewrite sc_sched. reflexivity.
Qed.
#[export] Hint Rewrite sc_sched sc_unsched sc_emit sc_know sc_fold_sched sc_sched_cbs sc_put_d
  sc_finish_d sc_wake_closed : fr.

Lemma sc_wake_next s : start_calls (wake_next s) = start_calls s.
Proof. unfold wake_next; brute. Qed.
Lemma sc_sem_release s : start_calls (sem_release s) = start_calls s.
Proof. unfold sem_release. rewrite sc_wake_next. reflexivity. Qed.
Lemma sc_map_release s m : start_calls (map_release s m) = start_calls s.
Proof. unfold map_release, put_m; brute. Qed.
Lemma sc_finish_p s t x : start_calls (finish_p s t x) = start_calls s.
Proof. unfold finish_p, put_p; brute. Qed.
Lemma sc_suspend_p s t x pc : start_calls (suspend_p s t x pc) = start_calls s.
Proof. unfold suspend_p, put_p; brute. Qed.
Lemma sc_finish_m s m x e : start_calls (finish_m s m x e) = start_calls s.
Proof. unfold finish_m, put_m; brute. Qed.
Lemma sc_suspend_m s m x pc : start_calls (suspend_m s m x pc) = start_calls s.
Proof. unfold suspend_m, put_m; brute. Qed.
Lemma sc_to_iter s m : start_calls (to_iter s m) = start_calls s.
Proof. unfold to_iter, put_m; brute. Qed.
Lemma sc_register s m x : start_calls (register s m x) = start_calls s.
Proof. unfold register, put_m. cbv zeta. brute. Qed.
#[export] Hint Rewrite sc_wake_next sc_sem_release sc_map_release sc_finish_p sc_suspend_p
  sc_finish_m sc_suspend_m sc_to_iter sc_register : fr.

Lemma sc_enter_end s t x : start_calls (enter_end s t x) = start_calls s.
Proof. rewrite enter_end_eq. unfold moved. cbv zeta. brute. Qed.
#[export] Hint Rewrite sc_enter_end : fr.
Lemma sc_enter_cancel s t x : start_calls (enter_cancel s t x) = start_calls s.
Proof. unfold enter_cancel, put_p. brute. Qed.
#[export] Hint Rewrite sc_enter_cancel : fr.
Global Arguments enter_end : simpl never.
Global Arguments enter_cancel : simpl never.

Lemma sc_continue_p s t : start_calls (continue_p s t) = start_calls s.
Proof. unfold continue_p, put_p. brute. Qed.
Lemma sc_run_p s t : start_calls (run_p s t) = start_calls s.
Proof. unfold run_p, put_p. cbv zeta. brute. Qed.

Lemma sc_try_start s m x : start_calls (fst (try_start s m x)) = start_calls s.
Proof. unfold try_start. destruct (closed s); [|destruct (sem_locked s)]; cbn [fst]; autorewrite with fr; reflexivity. Qed.

Lemma sc_apply_loop rem m : forall s, start_calls (apply_loop rem s m) = start_calls s.
Proof.
  induction rem as [|r IH]; intros s; simpl.
  - destruct (get_m s m); auto. autorewrite with fr. reflexivity.
  - destruct (get_m s m) as [x|]; auto. destruct (nth (m_idx x) (m_bad x) false).
    + rewrite IH. reflexivity.
    + pose proof (sc_try_start s m x) as H1.
      destruct (try_start s m x) as [s' cont]. cbn [fst] in H1. destruct cont; auto.
      rewrite IH. exact H1.
Qed.

Lemma sc_spawn_next s m : start_calls (spawn_next s m) = start_calls s.
Proof.
  unfold spawn_next. destruct (get_m s m) as [x|]; auto.
  destruct (m_kind x); rewrite ?sc_apply_loop; autorewrite with fr; reflexivity.
Qed.

Lemma sc_start_then_next s m x : start_calls (start_then_next s m x) = start_calls s.
Proof.
  unfold start_then_next. pose proof (sc_try_start s m x) as H1.
  destruct (try_start s m x) as [s' cont]. cbn [fst] in H1. destruct cont; auto.
  rewrite sc_spawn_next. exact H1.
Qed.

Lemma sc_continue_m s m : start_calls (continue_m s m) = start_calls s.
Proof.
  unfold continue_m. destruct (get_m s m) as [x|]; auto. destruct (m_pc x); auto.
  destruct (nth_error _ _) as [e|]; [|autorewrite with fr; reflexivity].
  destruct (e_bad e); [autorewrite with fr; reflexivity|].
  destruct (m_mapval x); [autorewrite with fr; reflexivity|apply sc_start_then_next].
Qed.

Lemma sc_run_m s m : start_calls (run_m s m) = start_calls s.
Proof.
  unfold run_m. destruct (get_m s m) as [x0|]; auto. cbv zeta.
  destruct (m_pc x0); auto; destruct (task_input _ _);
    rewrite ?sc_spawn_next, ?sc_start_then_next; autorewrite with fr; try reflexivity;
    repeat match goal with |- context [if ?b then _ else _] => destruct b end;
    autorewrite with fr; reflexivity.
Qed.

Lemma sc_after_g2 s d x o : start_calls (after_g2 s d x o) = start_calls s.
Proof. unfold after_g2; brute. Qed.
Lemma sc_start_g2 s d x cs re : start_calls (start_g2 s d x cs re) = start_calls s.
Proof. unfold start_g2; brute; apply sc_after_g2. Qed.
Lemma sc_after_g1 s d x o : start_calls (after_g1 s d x o) = start_calls s.
Proof. unfold after_g1; brute; rewrite ?sc_start_g2; reflexivity. Qed.
Lemma sc_start_g1 s d x cs re : start_calls (start_g1 s d x cs re) = start_calls s.
Proof. unfold start_g1; brute; apply sc_after_g1. Qed.
Lemma sc_run_d s d : start_calls (run_d s d) = start_calls s.
Proof. unfold run_d; brute; rewrite ?sc_start_g1, ?sc_after_g1, ?sc_after_g2; reflexivity. Qed.
Lemma sc_run_g s d c : start_calls (run_g s d c) = start_calls s.
Proof. unfold run_g; brute. Qed.

Lemma sc_cancel_p s t : start_calls (cancel_p s t) = start_calls s.
Proof. unfold cancel_p, put_p; brute. Qed.
Lemma sc_cancel_m s m : start_calls (cancel_m s m) = start_calls s.
Proof. unfold cancel_m, put_m; brute. Qed.
Lemma sc_fold {A} (f : state -> A -> state) :
  (forall s a, start_calls (f s a) = start_calls s) ->
  forall l s, start_calls (fold_left f l s) = start_calls s.
Proof. intros H l. induction l; simpl; intros; auto. rewrite IHl. apply H. Qed.
Lemma sc_do_cancel s ids : start_calls (do_cancel s ids) = start_calls s.
Proof.
  unfold do_cancel. destruct (first_lookup_err s ids); [reflexivity|]. apply sc_fold, sc_cancel_p.
Qed.
Lemma sc_cancel_group_metas s g : start_calls (cancel_group_metas s g) = start_calls s.
Proof.
  unfold cancel_group_metas. destruct (glookup _ _); auto.
  cbn [start_calls set_meta_cancelled]. rewrite (sc_fold _ sc_cancel_m). reflexivity.
Qed.
Lemma sc_cancel_group_body s g ids : start_calls (cancel_group_body s g ids) = start_calls s.
Proof.
  unfold cancel_group_body. rewrite sc_fold.
  - cbn [start_calls mark_dead set_mtasks]. apply sc_cancel_group_metas.
  - intros s0 t. destruct (mem t (t_running s0)); auto using sc_cancel_p.
Qed.
Lemma sc_cancel_all_groups gs : forall s, start_calls (cancel_all_groups s gs) = start_calls s.
Proof.
  induction gs as [|[g ids] r IH]; simpl; intros; auto. rewrite IH, sc_cancel_group_body. reflexivity.
Qed.
Lemma sc_new_meta s x : start_calls (new_meta s x) = start_calls s.
Proof. unfold new_meta. rewrite sc_sched. reflexivity. Qed.

Definition is_start (o : op) : bool := match o with OpStart _ => true | _ => false end.

Lemma sc_do_op s o : is_start o = false -> start_calls (do_op s o) = start_calls s.
Proof.
  intros Hs. destruct o; try discriminate Hs; unfold do_op.
  - assert (H0 : start_calls (match g with Some g0 => know s g0 | None => s end) = start_calls s)
      by (destruct g; [apply sc_know|reflexivity]).
    destruct (check_start _ _); [exact H0|]. destruct (ghas _ _); [exact H0|].
    cbn [start_calls set_res]. rewrite sc_new_meta. cbn [start_calls set_groups].
    rewrite sc_know. exact H0.
  - assert (H0 : start_calls (match g with Some g0 => know s g0 | None => s end) = start_calls s)
      by (destruct g; [apply sc_know|reflexivity]).
    destruct (check_start _ _); [exact H0|]. destruct (Nat.eqb nc 0); [exact H0|].
    destruct (ghas _ _); [exact H0|].
    cbn [start_calls set_res]. rewrite sc_new_meta. cbn [start_calls set_groups].
    rewrite sc_know. exact H0.
  - apply sc_do_cancel.
  - destruct (glookup _ _).
    + rewrite sc_cancel_group_body. cbn [start_calls set_groups]. apply sc_know.
    + cbn [start_calls set_res]. apply sc_know.
  - rewrite sc_cancel_all_groups. reflexivity.
  - destruct (res _); cbn [start_calls set_res]; apply sc_do_cancel.
  - destruct (res _); cbn [start_calls set_res]; apply sc_do_cancel.
  - reflexivity.
  - destruct (Nat.ltb _ _); reflexivity.
  - destruct v; reflexivity.
  - cbn [start_calls set_res]. apply sc_fold. apply sc_know.
  - rewrite sc_sched. destruct k; reflexivity.
  - destruct (get_p s tid); auto. rewrite sc_sched. reflexivity.
  - destruct (get_p s tid); auto. rewrite sc_sched. reflexivity.
Qed.

Lemma sc_step s l :
  (forall n, l <> LOp (OpStart n)) -> start_calls (step s l) = start_calls s.
Proof.
  intros Hl. unfold step. set (s1 := set_res (set_evs s []) RNone).
  change (start_calls s) with (start_calls s1). clearbody s1.
  destruct (negb (enabled s1 l)); [reflexivity|].
  destruct l as [h| |o].
  - destruct h as [[t|m|d]|d c]; simpl run_handle.
    + rewrite sc_run_p. reflexivity.
    + rewrite sc_run_m. reflexivity.
    + rewrite sc_run_d. reflexivity.
    + rewrite sc_run_g. reflexivity.
  - destruct (ctl s1) as [|[t|m|d]]; auto using sc_continue_p, sc_continue_m.
  - apply sc_do_op. destruct o; auto. exfalso. eapply Hl; eauto.
Qed.
