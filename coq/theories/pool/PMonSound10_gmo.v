(** C10 monitor soundness, model side — [GMx] (PMonSound10_gmdef.v) is preserved by every API
    operation [do_op]. *)
From TP Require Import PInv PInv_Q PStep_B_inv PMonSound10_gmdef.
From TP Require Import PInv_P_base PInv_P_view PStep_C_run PStep_C06_rec PMonSound10_gmp.

(** ** records: nothing becomes [stb] *)
Definition rk (s s' : state) : Prop :=
  forall u y, get_p s' u = Some y -> exists x, get_p s u = Some x /\ keeps10 x y.

Lemma rk_same s s' : ptasks s' = ptasks s -> rk s s'.
Proof. intros E u y Hy. exists y. unfold get_p in *. rewrite <- E. auto using keeps10_refl. Qed.

Lemma rk_refl s : rk s s.
Proof. apply rk_same. reflexivity. Qed.

Lemma rk_trans a b c : rk a b -> rk b c -> rk a c.
Proof.
  intros H1 H2 u y Hy. destruct (H2 _ _ Hy) as (x1 & Hx1 & K1).
  destruct (H1 _ _ Hx1) as (x & Hx & K). exists x. split; auto. eapply keeps10_trans; eauto.
Qed.

Lemma rk_put s s' t x0 x :
  get_p s t = Some x0 -> keeps10 x0 x -> ptasks s' = upd (ptasks s) t x -> rk s s'.
Proof.
  intros Hx0 K E u y Hy. unfold get_p in Hy. rewrite E in Hy.
  change (vget (vput (pview s) t x) u = Some y) in Hy. apply vget_vput in Hy.
  destruct Hy as [[_ Hy]|[-> ->]].
  - exists y. split; auto using keeps10_refl.
  - exists x0. auto.
Qed.

Lemma rk_do_cancel s ids : rk s (do_cancel s ids).
Proof.
  unfold do_cancel. destruct (first_lookup_err s ids); [apply rk_same; reflexivity|].
  intros u y. apply rec10_fold_cancel_p.
Qed.

Lemma cancel_group_body_eq s g ids :
  cancel_group_body s g ids =
  fold_left cancel_if_running ids (mark_dead (cancel_group_metas s g) g).
Proof. reflexivity. Qed.

Lemma pv_cgb_pre s g : pview (mark_dead (cancel_group_metas s g) g) = pview s.
Proof. rewrite pv_mark_dead. apply pv_cancel_group_metas. Qed.

Lemma rk_cancel_group_body s g ids : rk s (cancel_group_body s g ids).
Proof.
  rewrite cancel_group_body_eq. eapply rk_trans; [|intros u y; apply rec10_fold_cancel_if].
  apply rk_same. change (vpts (pview (mark_dead (cancel_group_metas s g) g)) = vpts (pview s)).
  now rewrite pv_cgb_pre.
Qed.

Lemma rk_cancel_all_groups gs : forall s, rk s (cancel_all_groups s gs).
Proof.
  induction gs as [|[g ids] r IH]; simpl; intros s; [apply rk_refl|].
  eapply rk_trans; [apply rk_cancel_group_body|apply IH].
Qed.

(** every listed task that is filed as running is non-[stb] afterwards *)
Lemma cancel_group_body_nstb s g ids t y :
  In t ids -> In t (t_running s) -> get_p (cancel_group_body s g ids) t = Some y -> stb y = false.
Proof.
  intros Hi Hr. rewrite cancel_group_body_eq. apply fold_cancel_if_nstb; auto.
  change (In t (vR (pview (mark_dead (cancel_group_metas s g) g)))). now rewrite pv_cgb_pre.
Qed.

Lemma cancel_all_groups_nstb gs : forall s g ids t y,
  In (g, ids) gs -> In t ids -> In t (t_running s) ->
  get_p (cancel_all_groups s gs) t = Some y -> stb y = false.
Proof.
  induction gs as [|[h hs] r IH]; simpl; intros s g ids t y Hg Hi Hr Hy; [destruct Hg|].
  destruct Hg as [Hg|Hg].
  - injection Hg as -> ->.
    destruct (rk_cancel_all_groups r _ _ _ Hy) as (x1 & Hx1 & _ & K1).
    destruct (stb y) eqn:Es; auto. pose proof (K1 eq_refl) as K2.
    apply cancel_group_body_nstb in Hx1; auto. congruence.
  - apply (IH (cancel_group_body s h hs) g ids t y Hg Hi); auto.
    destruct (R3_cancel_group_body s h hs) as (E & _). rewrite E. exact Hr.
Qed.

(** ** transfer from [ssim] *)
Lemma GMx_ssim_rk s s' : GMx s -> ssim s s' -> rk s s' -> GMx s'.
Proof.
  intros G S R. eapply GMx_quiet; [exact G|exact R| | | |].
  - intros m y Hy. destruct (ssim_get_m_l S Hy) as (y' & Hy' & (_ & Eg & _) & _).
    exists y'. split; auto.
  - apply (ss_g S).
  - apply (ss_n S).
  - symmetry. apply (F2_length (ss_p S)).
Qed.

Lemma stb_created x : stb x = true -> p_pc x = PCreated.
Proof. unfold stb. destruct (p_pc x); auto; discriminate. Qed.

(** ** new request *)
Lemma GMx_new s s' x g :
  GMx s -> ptasks s' = ptasks s -> mtasks s' = mtasks s ++ [x] ->
  groups s' = gensure g (groups s) -> num_started s' = num_started s -> GMx s'.
Proof.
  intros [G L] Ep Em Eg En. split; [|congruence].
  intros t xt Hxt Hs. unfold get_p in Hxt. rewrite Ep in Hxt.
  destruct (G t xt Hxt Hs) as (y & ids & Hy & Hl & Hi).
  exists y, ids. split; [|split; auto].
  - unfold get_m in *. rewrite Em. apply nth_error_snoc_l. exact Hy.
  - rewrite Eg. apply glookup_gensure_mono. exact Hl.
Qed.

Lemma GMx_new_meta s s0 x r :
  GMx s -> ptasks s0 = ptasks s -> mtasks s0 = mtasks s ->
  groups s0 = gensure (m_group x) (groups s) -> num_started s0 = num_started s ->
  GMx (set_res (new_meta s0 x) r).
Proof.
  intros G A B C D. destruct (new_meta_fields s0 x) as (F1 & F2 & F3 & F4 & _).
  eapply GMx_new with (s := s) (x := x) (g := m_group x); [exact G| | | |].
  - cbn [ptasks set_res]. congruence.
  - cbn [mtasks set_res]. congruence.
  - cbn [groups set_res]. congruence.
  - cbn [num_started set_res]. congruence.
Qed.

Lemma know_opt_all10 s (og : option gname) :
  let s1 := match og with Some g => know s g | None => s end in
  ptasks s1 = ptasks s /\ mtasks s1 = mtasks s /\ groups s1 = groups s /\
  num_started s1 = num_started s.
Proof. destruct og; cbn; autorewrite with fr; auto. Qed.

Lemma GMx_op_apply s num bad noncoro w ecb ccb og :
  GMx s -> GMx (do_op s (OpApply num bad noncoro w ecb ccb og)).
Proof.
  intros G. cbn [do_op].
  destruct (know_opt_all10 s og) as (A & B & C & D). cbv zeta in A, B, C, D.
  set (s1 := match og with Some g => know s g | None => s end) in *. clearbody s1.
  assert (G1 : GMx s1) by (eapply GMx_same; eauto).
  destruct (check_start s1 noncoro); [eapply GMx_same; [exact G1|reflexivity ..]|].
  set (g := match og with Some g => g | None => gen_name s1 0 end). clearbody g.
  destruct (ghas g (groups s1)) eqn:Hg; [eapply GMx_same; [exact G1|reflexivity ..]|].
  eapply GMx_new_meta with (s := s1); [exact G1|cbn; autorewrite with fr; reflexivity ..].
Qed.

Lemma GMx_op_map s stars els nc noncoro ecb ccb og :
  GMx s -> GMx (do_op s (OpMap stars els nc noncoro ecb ccb og)).
Proof.
  intros G. cbn [do_op].
  destruct (know_opt_all10 s og) as (A & B & C & D). cbv zeta in A, B, C, D.
  set (s1 := match og with Some g => know s g | None => s end) in *. clearbody s1.
  assert (G1 : GMx s1) by (eapply GMx_same; eauto).
  set (g := match og with Some g => g | None => gen_name s1 (meth_of_stars stars) end).
  clearbody g.
  destruct (check_start s1 noncoro); [eapply GMx_same; [exact G1|reflexivity ..]|].
  destruct (Nat.eqb nc 0); [eapply GMx_same; [exact G1|reflexivity ..]|].
  destruct (ghas g (groups s1)) eqn:Hg; [eapply GMx_same; [exact G1|reflexivity ..]|].
  eapply GMx_new_meta with (s := s1); [exact G1|cbn; autorewrite with fr; reflexivity ..].
Qed.

Lemma GMx_op_start s num : GMx s -> GMx (do_op s (OpStart num)).
Proof.
  intros G. cbn [do_op].
  destruct (check_start s false); [eapply GMx_same; [exact G|reflexivity ..]|].
  eapply GMx_new_meta with (s := s); [exact G|cbn; autorewrite with fr; reflexivity ..].
Qed.

(** ** cancel_group / cancel_all *)
Definition filed (s : state) : Prop :=
  forall t x, get_p s t = Some x -> p_pc x = PCreated -> In t (t_running s).

Lemma GMx_op_cancel_group s g : filed s -> GMx s -> GMx (do_op s (OpCancelGroup g)).
Proof.
  intros HF G. cbn [do_op]. rewrite know_groups.
  assert (G1 : GMx (know s g)) by (eapply GMx_same; [exact G|autorewrite with fr; auto ..]).
  destruct (glookup g (groups s)) as [ids|] eqn:El; [|eapply GMx_same; [exact G1|reflexivity ..]].
  set (s2 := set_groups (know s g) (gremove g (groups s))).
  pose proof (cancel_group_body_ssim s2 g ids) as Hs.
  pose proof (rk_cancel_group_body s2 g ids) as Hr.
  assert (Ep : ptasks s2 = ptasks s) by (unfold s2; cbn; apply know_ptasks).
  assert (Em : mtasks s2 = mtasks s) by (unfold s2; cbn; apply know_mtasks).
  assert (En : num_started s2 = num_started s) by (unfold s2; cbn; apply know_num_started).
  assert (Er : t_running s2 = t_running s).
  { unfold s2. cbn. unfold know. destruct (existsb _ _); reflexivity. }
  destruct G as [GMs L]. split.
  - intros t x3 Hx3 Hs3. destruct (Hr _ _ Hx3) as (x & Hx & Eq & Hk).
    unfold get_p in Hx. rewrite Ep in Hx. change (get_p s t = Some x) in Hx.
    pose proof (Hk Hs3) as Hsx.
    destruct (GMs t x Hx Hsx) as (y & ids0 & Hy & Hl & Hi).
    assert (Hy2 : get_m s2 (p_req x) = Some y) by (unfold get_m in *; rewrite Em; exact Hy).
    destruct (ssim_get_m_l Hs Hy2) as (y' & Hy' & (_ & Eg & _) & _).
    exists y', ids0. rewrite Eq. split; [exact Hy'|]. split; [|exact Hi].
    rewrite (ss_g Hs), Eg. unfold s2. cbn [groups set_groups].
    destruct (gname_eqb_spec (m_group y) g) as [E|Ne].
    + exfalso. rewrite E, El in Hl. injection Hl as <-.
      assert (Hrun : In t (t_running s2)).
      { rewrite Er. eapply HF; eauto. apply stb_created; auto. }
      pose proof (cancel_group_body_nstb s2 g ids t x3 Hi Hrun Hx3). congruence.
    + rewrite glookup_gremove_neq; auto.
  - rewrite (ss_n Hs), En, L, <- Ep. apply (F2_length (ss_p Hs)).
Qed.

Lemma GMx_op_cancel_all s : filed s -> GMx s -> GMx (do_op s OpCancelAll).
Proof.
  intros HF [GMs L]. cbn [do_op].
  pose proof (cancel_all_groups_ssim (rev (groups s)) (set_groups s [])) as Hs.
  pose proof (rk_cancel_all_groups (rev (groups s)) (set_groups s [])) as Hr.
  split.
  - intros t x3 Hx3 Hs3. exfalso. destruct (Hr _ _ Hx3) as (x & Hx & Eq & Hk).
    change (get_p s t = Some x) in Hx. pose proof (Hk Hs3) as Hsx.
    destruct (GMs t x Hx Hsx) as (y & ids0 & Hy & Hl & Hi).
    apply glookup_In in Hl. apply in_rev in Hl.
    assert (Hrun : In t (t_running (set_groups s []))).
    { cbn. eapply HF; eauto. apply stb_created; auto. }
    pose proof (cancel_all_groups_nstb _ _ _ _ _ _ Hl Hi Hrun Hx3). congruence.
  - rewrite (ss_n Hs). cbn [num_started set_groups]. rewrite L.
    apply (F2_length (ss_p Hs)).
Qed.

(** ** simple operations *)
Lemma rk_do_op_simple s o : simple_op o = true -> rk s (do_op s o).
Proof.
  destruct o; cbn [simple_op do_op]; try discriminate; intros _.
  - apply rk_do_cancel.
  - eapply rk_trans; [apply rk_do_cancel|].
    destruct (res (do_cancel s _)); apply rk_same; reflexivity.
  - eapply rk_trans; [apply rk_do_cancel|].
    destruct (res (do_cancel s _)); apply rk_same; reflexivity.
  - apply rk_same; reflexivity.
  - apply rk_same. destruct (Nat.ltb 0 (n_gac s)); reflexivity.
  - apply rk_same. destruct v; reflexivity.
  - apply rk_same. destruct (fold_know_fields gs s) as (A & _). cbn [ptasks set_res]. exact A.
  - apply rk_same. autorewrite with fr. cbn. destruct k; reflexivity.
  - destruct (get_p s tid) as [x|] eqn:Hx; [|apply rk_refl].
    eapply rk_put; [exact Hx| |unfold put_p; autorewrite with fr; cbn; reflexivity].
    split; [reflexivity|]. unfold stb. cbn. auto.
  - destruct (get_p s tid) as [x|] eqn:Hx; [|apply rk_refl].
    eapply rk_put; [exact Hx| |unfold put_p; autorewrite with fr; cbn; reflexivity].
    split; [reflexivity|]. unfold stb. cbn. auto.
Qed.

Theorem GMx_do_op s o :
  (forall t x, get_p s t = Some x -> p_pc x = PCreated -> In t (t_running s)) ->
  GMx s -> GMx (do_op s o).
Proof.
  intros HF G. destruct (simple_op o) eqn:E.
  - eapply GMx_ssim_rk; [exact G|apply do_op_simple; exact E|apply rk_do_op_simple; exact E].
  - destruct o; try discriminate.
    + apply GMx_op_apply; auto.
    + apply GMx_op_map; auto.
    + apply GMx_op_start; auto.
    + apply GMx_op_cancel_group; auto.
    + apply GMx_op_cancel_all; auto.
Qed.

Print Assumptions GMx_do_op.
