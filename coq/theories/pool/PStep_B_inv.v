(** Two more invariants that [WF] lacks, needed for C07:

    - [Extra_C]: a spawner registered under [gmeta[g]] belongs to group [g] (the converse of
      [IM_reg]) — needed for "cancelling g leaves the spawners of other groups alone";
    - [Extra_D]: a spawner whose group was cancelled is not at its iterator's user point, unless
      the cancellation came from inside that iterator ([taint_iter]) — needed for
      "a cancelled request never advances its iterator again".

    Both are proved inductive (relative to [WF]) from the relational step summary [MR]. *)
From TP Require Import PInv PInv_R_base PInv_R_tr PStep_B_mr.

(** ** Group names and association lists *)
Lemma gname_eqb_spec a b : reflect (a = b) (gname_eqb a b).
Proof.
  destruct a as [m i|i|i], b as [n j|j|j]; simpl; try (constructor; congruence).
  - destruct (Nat.eqb_spec m n); simpl; [|constructor; congruence].
    destruct (Nat.eqb_spec i j); constructor; congruence.
  - destruct (Nat.eqb_spec i j); constructor; congruence.
  - destruct (Nat.eqb_spec i j); constructor; congruence.
Qed.

Lemma glookup_In g l ms : glookup g l = Some ms -> In (g, ms) l.
Proof.
  induction l as [|[h v] t IH]; simpl; [discriminate|].
  destruct (gname_eqb_spec g h) as [->|Hne]; [intros [= ->]; auto|auto].
Qed.

Lemma In_glookup g l ms : NoDup (map fst l) -> In (g, ms) l -> glookup g l = Some ms.
Proof.
  induction l as [|[h v] t IH]; simpl; [intros _ []|].
  intros Hnd Hin. inversion Hnd as [|? ? Hnin Hnd']; subst.
  destruct (gname_eqb_spec g h) as [->|Hne].
  - destruct Hin as [[= ->]|Hin]; auto. exfalso. apply Hnin.
    change h with (fst (h, ms)). apply in_map; auto.
  - destruct Hin as [[= <- <-]|Hin]; [congruence|auto].
Qed.

Lemma glookup_gremove_neq g h l : h <> g -> glookup h (gremove g l) = glookup h l.
Proof.
  intros Hne. induction l as [|[k v] t IH]; simpl; auto.
  destruct (gname_eqb_spec g k) as [->|Hgk]; simpl.
  - destruct (gname_eqb_spec h k); [congruence|auto].
  - destruct (gname_eqb_spec h k); auto.
Qed.

Lemma glookup_gremove_eq g l : NoDup (map fst l) -> glookup g (gremove g l) = None.
Proof.
  induction l as [|[k v] t IH]; simpl; auto. intros Hnd.
  inversion Hnd as [|? ? Hnin Hnd']; subst.
  destruct (gname_eqb_spec g k) as [->|Hgk]; simpl.
  - destruct (glookup k t) eqn:Hl; auto. exfalso. apply Hnin.
    apply glookup_In in Hl. change k with (fst (k, l)). apply in_map; auto.
  - destruct (gname_eqb_spec g k); [congruence|auto].
Qed.

Lemma In_concat_snd (l : list (gname * list nat)) g ms m :
  In (g, ms) l -> In m ms -> In m (concat (map snd l)).
Proof.
  intros H1 H2. apply in_concat. exists ms. split; auto.
  change ms with (snd (g, ms)). apply in_map; auto.
Qed.

Lemma In_gadd g n l h ms' :
  In (h, ms') (gadd g n l) ->
  In (h, ms') l \/
  (h = g /\ forall m, In m ms' -> m = n \/ exists ms, In (g, ms) l /\ In m ms).
Proof.
  induction l as [|[k v] t IH]; simpl.
  - intros [[= <- <-]|[]]. right. split; auto. intros m [<-|[]]; auto.
  - destruct (gname_eqb_spec g k) as [->|Hgk]; simpl.
    + intros [[= <- <-]|Hin]; auto. right. split; auto.
      intros m Hm. unfold dict_add in Hm. destruct (mem n v).
      * right. exists v. auto.
      * apply in_app_iff in Hm. destruct Hm as [Hm|[<-|[]]]; auto. right. exists v. auto.
    + intros [Heq|Hin]; auto. destruct (IH Hin) as [?|[-> Hm]]; auto.
      right. split; auto. intros m Hin'. destruct (Hm m Hin') as [?|(ms & ? & ?)]; auto.
      right. exists ms. auto.
Qed.

(** ** The spawning operations *)
Definition same4 (s s' : state) : Prop :=
  mtasks s' = mtasks s /\ gmeta s' = gmeta s /\ evs s' = evs s /\ taint_iter s' = taint_iter s.

Lemma same4_refl s : same4 s s.
Proof. unfold same4. auto. Qed.

Lemma same4_know s s' g : same4 s s' -> same4 s (know s' g).
Proof. unfold same4, know. destruct (existsb _ _); cbn; auto. Qed.

Lemma same4_set_groups s s' v : same4 s s' -> same4 s (set_groups s' v).
Proof. unfold same4. cbn. auto. Qed.

Lemma same4_set_start_calls s s' v : same4 s s' -> same4 s (set_start_calls s' v).
Proof. unfold same4. cbn. auto. Qed.

Definition spawn_result (s s' : state) : Prop :=
  evs s' = evs s /\ taint_iter s' = taint_iter s /\
  ((mtasks s' = mtasks s /\ gmeta s' = gmeta s) \/
   exists x, mtasks s' = mtasks s ++ [x] /\
             gmeta s' = gadd (m_group x) (length (mtasks s)) (gmeta s) /\
             m_pc x = MNotStarted).

Lemma spawn_err s s' r : same4 s s' -> spawn_result s (set_res s' r).
Proof. intros (H1 & H2 & H3 & H4). unfold spawn_result. cbn. auto. Qed.

Lemma spawn_new s s' x r :
  same4 s s' -> m_pc x = MNotStarted -> spawn_result s (set_res (new_meta s' x) r).
Proof.
  intros (H1 & H2 & H3 & H4) Hpc. unfold spawn_result, new_meta.
  cbn [evs taint_iter mtasks gmeta set_res].
  unfold sched. destruct (is_ready _ _); cbn; rewrite H1, H2; repeat split; auto; right;
    exists x; auto.
Qed.

Lemma spawn_cases s o : spawn_op' o = true -> spawn_result s (do_op s o).
Proof.
  intros Hs. destruct o; try discriminate Hs; unfold do_op.
  - set (s1 := match g with Some g0 => know s g0 | None => s end).
    assert (H1 : same4 s s1) by (unfold s1; destruct g; [apply same4_know|]; apply same4_refl).
    clearbody s1.
    destruct (check_start s1 noncoro); [apply spawn_err; auto|].
    destruct (ghas _ (groups s1)); [apply spawn_err; auto|].
    apply spawn_new; [|reflexivity].
    apply same4_set_groups, same4_know; auto.
  - set (s1 := match g with Some g0 => know s g0 | None => s end).
    assert (H1 : same4 s s1) by (unfold s1; destruct g; [apply same4_know|]; apply same4_refl).
    clearbody s1.
    destruct (check_start s1 noncoro); [apply spawn_err; auto|].
    destruct (Nat.eqb nc 0); [apply spawn_err; auto|].
    destruct (ghas _ (groups s1)); [apply spawn_err; auto|].
    apply spawn_new; [|reflexivity].
    apply same4_set_groups, same4_know; auto.
  - destruct (check_start s false); [apply spawn_err, same4_refl|].
    apply spawn_new; [|reflexivity].
    apply same4_set_groups, same4_set_start_calls, same4_know, same4_refl.
Qed.

Lemma step_spawn s l :
  spawn_l l = true -> spawn_result (reset s) (step s l).
Proof.
  intros Hs. destruct l as [h| |o]; try discriminate Hs. simpl in Hs.
  unfold step. fold (reset s). destruct (negb (enabled (reset s) (LOp o))).
  - unfold spawn_result. auto.
  - apply spawn_cases; auto.
Qed.

(** ** Extra_C *)
Definition Extra_C (s : state) : Prop :=
  forall g ms m y, glookup g (gmeta s) = Some ms -> In m ms -> get_m s m = Some y ->
                   m_group y = g.

(** the same for every entry of [gmeta] (equivalent when the keys are distinct) *)
Definition Qc (s : state) : Prop :=
  forall g ms m y, In (g, ms) (gmeta s) -> In m ms -> get_m s m = Some y -> m_group y = g.

Lemma Extra_C_of_Qc s : Qc s -> Extra_C s.
Proof. intros H g ms m y Hl. apply H. apply glookup_In; auto. Qed.

Lemma Qc_of_Extra_C s : NoDup (map fst (gmeta s)) -> Extra_C s -> Qc s.
Proof. intros Hnd H g ms m y Hin. apply H. apply In_glookup; auto. Qed.

Lemma Extra_C_init : forall c, Extra_C (init c).
Proof. intros c g ms m y H. discriminate H. Qed.

Lemma Qc_step s l : WF s -> Qc s -> Qc (step s l).
Proof.
  intros W H.
  assert (Hlt : forall g ms m, In (g, ms) (gmeta s) -> In m ms -> m < length (mtasks s)).
  { intros g ms m H1 H2. apply (IM_lt _ (wfm _ W)). apply in_app_iff. right.
    eapply In_concat_snd; eauto. }
  destruct (spawn_l l) eqn:Hs.
  - destruct (step_spawn s l Hs) as (_ & _ & [[Hm Hg]|(x & Hm & Hg & _)]).
    + intros g ms m y. unfold get_m. rewrite Hg, Hm. apply H.
    + intros g ms m y Hin Hmm Hy. rewrite Hg in Hin. unfold get_m in Hy. rewrite Hm in Hy.
      change (mtasks (reset s)) with (mtasks s) in *.
      change (gmeta (reset s)) with (gmeta s) in *.
      assert (Hold : forall ms0, In (g, ms0) (gmeta s) -> In m ms0 -> m_group y = g).
      { intros ms0 H1 H2. pose proof (Hlt g ms0 m H1 H2) as Hl.
        rewrite nth_error_app1 in Hy by auto. eapply H; eauto. }
      destruct (In_gadd _ _ _ _ _ Hin) as [Hin'|[-> Hall]]; [eauto|].
      destruct (Hall m Hmm) as [->|(ms0 & H1 & H2)]; [|eauto].
      rewrite nth_error_app2, Nat.sub_diag in Hy by auto. injection Hy as <-. reflexivity.
  - pose proof (MR_step s l Hs) as [_ Hrec Hgm _ _].
    intros g ms' m y' Hin Hmm Hy'.
    destruct (Hgm g ms' Hin) as (ms & Hin0 & Hinc).
    change (gmeta (reset s)) with (gmeta s) in Hin0.
    pose proof (Hlt g ms m Hin0 (Hinc m Hmm)) as Hl.
    destruct (lt_get_m _ _ Hl) as [y Hy].
    destruct (Hrec m y Hy) as (y'' & Hy'' & Hg & _).
    rewrite Hy' in Hy''. injection Hy'' as <-. rewrite Hg. eapply H; eauto.
Qed.

Lemma Extra_C_step : forall s l, WF s -> Extra_C s -> clean (step s l) -> Extra_C (step s l).
Proof.
  intros s l W X _. apply Extra_C_of_Qc, Qc_step; auto.
  apply Qc_of_Extra_C; auto. apply (IM_keys _ (wfm _ W)).
Qed.

(** ** A spawner that receives a cancellation finishes at once *)
Lemma evs_sched s h : evs (sched s h) = evs s.
Proof. unfold sched. destruct (is_ready s h); reflexivity. Qed.

Lemma evs_fold_sched l : forall s, evs (fold_left sched l s) = evs s.
Proof. induction l; simpl; intros; auto. rewrite IHl. apply evs_sched. Qed.

Lemma evs_wake_next s : evs (wake_next s) = evs s.
Proof.
  unfold wake_next. destruct (first_pending s (sem_waiters s)); auto.
  destruct (get_m s n); auto. rewrite evs_sched. reflexivity.
Qed.

Lemma evs_sem_release s : evs (sem_release s) = evs s.
Proof. unfold sem_release. rewrite evs_wake_next. reflexivity. Qed.

Lemma len_wake_next s : length (mtasks (wake_next s)) = length (mtasks s).
Proof.
  unfold wake_next. destruct (first_pending s (sem_waiters s)); auto.
  destruct (get_m s n); auto. rewrite mtasks_sched. unfold put_m; cbn. apply upd_length.
Qed.

Lemma len_sem_release s : length (mtasks (sem_release s)) = length (mtasks s).
Proof. unfold sem_release. rewrite len_wake_next. reflexivity. Qed.

Lemma finish_m_spec s m x e :
  m < length (mtasks s) ->
  evs (finish_m s m x e) = evs s /\
  exists y', get_m (finish_m s m x e) m = Some y' /\ m_pc y' = MDone /\
             m_idx y' = m_idx x /\ m_ncreated y' = m_ncreated x.
Proof.
  intros Hlt. unfold finish_m. split.
  - cbn [evs set_ctl]. unfold sched_cbs. rewrite evs_fold_sched. reflexivity.
  - unfold get_m. cbn [mtasks set_ctl]. rewrite mtasks_sched_cbs.
    eexists. split; [apply get_m_put_m_eq; auto|]. cbn. auto.
Qed.

Lemma run_m_cancel s m x0 :
  get_m s m = Some x0 -> task_input (m_mc x0) (m_fw x0) <> InOk ->
  evs (run_m s m) = evs s /\
  exists y', get_m (run_m s m) m = Some y' /\ (m_pc y' = MDone \/ y' = x0) /\
             m_idx y' = m_idx x0 /\ m_ncreated y' = m_ncreated x0.
Proof.
  intros Hx Hin. pose proof (get_m_lt _ _ _ Hx) as Hlt.
  assert (Hsame : evs s = evs s /\
            exists y', get_m s m = Some y' /\ (m_pc y' = MDone \/ y' = x0) /\
                       m_idx y' = m_idx x0 /\ m_ncreated y' = m_ncreated x0).
  { split; auto. exists x0. auto. }
  unfold run_m. rewrite Hx.
  destruct (m_pc x0); auto.
  - (* MNotStarted *)
    destruct (task_input (m_mc x0) (m_fw x0)); [congruence|..];
      (destruct (finish_m_spec s m (set_m_mc (set_m_fw x0 None) false) (Some ECancelled) Hlt)
         as (He & y' & Hy' & Hpc & Hi & Hn); split; auto; exists y'; auto).
  - (* MWaitMap *)
    destruct (task_input (m_mc x0) (m_fw x0)); [congruence|..].
    + match goal with |- context [finish_m s m ?x ?e] =>
        destruct (finish_m_spec s m x e Hlt) as (He & y' & Hy' & Hpc & Hi & Hn) end.
      split; auto. exists y'. split; auto. split; auto.
      rewrite Hi, Hn. destruct (m_fw x0) as [[]|]; auto.
    + match goal with |- context [finish_m s m ?x ?e] =>
        destruct (finish_m_spec s m x e Hlt) as (He & y' & Hy' & Hpc & Hi & Hn) end.
      split; auto. exists y'. split; auto. split; auto.
      rewrite Hi, Hn. destruct (m_fw x0) as [[]|]; auto.
  - (* MWaitPool *)
    set (x := set_m_mc (set_m_fw x0 None) false).
    set (s1 := put_m (set_sem_waiters s (remove1 m (sem_waiters s))) m x).
    assert (Hl1 : length (mtasks s1) = length (mtasks s)) by (unfold s1, put_m; cbn; apply upd_length).
    assert (He1 : evs s1 = evs s) by reflexivity.
    clearbody s1.
    set (s2 := if match m_fw x0 with Some FCancelled => true | _ => false end
               then s1 else sem_release s1).
    assert (Hl2 : m < length (mtasks s2)).
    { unfold s2. destruct (m_fw x0) as [[]|]; rewrite ?len_sem_release; lia. }
    assert (He2 : evs s2 = evs s).
    { unfold s2. destruct (m_fw x0) as [[]|]; rewrite ?evs_sem_release; auto. }
    clearbody s2.
    destruct (task_input (m_mc x0) (m_fw x0)); [congruence|..].
    + match goal with |- context [finish_m s2 m ?x ?e] =>
        destruct (finish_m_spec s2 m x e Hl2) as (He & y' & Hy' & Hpc & Hi & Hn) end.
      split; [congruence|]. exists y'. split; auto. split; auto.
      rewrite Hi, Hn. destruct (m_holds x); auto.
    + match goal with |- context [finish_m s2 m ?x ?e] =>
        destruct (finish_m_spec s2 m x e Hl2) as (He & y' & Hy' & Hpc & Hi & Hn) end.
      split; [congruence|]. exists y'. split; auto. split; auto.
      rewrite Hi, Hn. destruct (m_holds x); auto.
Qed.

Lemma dead_input s m y :
  WF s -> taint_iter s = false -> get_m s m = Some y -> m_dead y = true -> m_final y = None ->
  task_input (m_mc y) (m_fw y) <> InOk.
Proof.
  intros W Ht Hy Hd Hf.
  destruct (IM_dead _ (wfm _ W) Ht m y Hy Hd Hf) as [Hmc|Hfc]; unfold task_input.
  - rewrite Hmc. discriminate.
  - unfold fut_cancelled in Hfc. rewrite Hfc. destruct (m_mc y); discriminate.
Qed.

(** running the handle of a spawner whose group was cancelled *)
Lemma step_run_dead s m y :
  WF s -> taint_iter s = false -> get_m s m = Some y -> m_dead y = true ->
  let s' := step s (LRun (HT (TM m))) in
  evs s' = [] /\
  exists y', get_m s' m = Some y' /\ (m_pc y' = MDone \/ y' = y) /\
             m_idx y' = m_idx y /\ m_ncreated y' = m_ncreated y.
Proof.
  intros W Ht Hy Hd. cbv zeta.
  assert (Hsame : forall s1, evs s1 = [] -> get_m s1 m = Some y ->
            evs s1 = [] /\
            exists y', get_m s1 m = Some y' /\ (m_pc y' = MDone \/ y' = y) /\
                       m_idx y' = m_idx y /\ m_ncreated y' = m_ncreated y).
  { intros s1 He Hg. split; auto. exists y. auto. }
  unfold step. fold (reset s).
  destruct (negb (enabled (reset s) (LRun (HT (TM m))))); [apply Hsame; auto|].
  simpl run_handle.
  set (s1 := unsched (reset s) (HT (TM m))).
  assert (Hy1 : get_m s1 m = Some y) by exact Hy.
  assert (He1 : evs s1 = []) by reflexivity.
  clearbody s1.
  destruct (m_final y) eqn:Hf.
  - assert (Hpc : m_pc y = MDone).
    { apply (I5_mfinal _ (wf5 _ W) m y Hy). congruence. }
    unfold run_m. rewrite Hy1, Hpc. apply Hsame; auto.
  - pose proof (dead_input s m y W Ht Hy Hd Hf) as Hin.
    destruct (run_m_cancel s1 m y Hy1 Hin) as (He & y' & Hy' & Hpc & Hi & Hn).
    split; [congruence|]. exists y'. auto.
Qed.

(** ** Extra_D *)
Definition Extra_D (s : state) : Prop :=
  taint_iter s = false ->
  forall m y, get_m s m = Some y -> m_dead y = true -> m_pc y <> MAtIter.

Lemma Extra_D_init : forall c, Extra_D (init c).
Proof. intros c _ [|m] y Hy; discriminate. Qed.

(** the step, for every label except the two group-cancelling operations *)
Lemma Extra_D_step_nokill s l :
  WF s -> Extra_D s -> kill_l l = false -> Extra_D (step s l).
Proof.
  intros W X Hk Ht' m y' Hy' Hd' Hpc'.
  destruct (spawn_l l) eqn:Hs.
  - destruct (step_spawn s l Hs) as (_ & Ht & [[Hm Hg]|(x & Hm & Hg & Hx)]).
    + unfold get_m in Hy'. rewrite Hm in Hy'. rewrite Ht in Ht'.
      apply (X Ht' m y' Hy' Hd' Hpc').
    + unfold get_m in Hy'. rewrite Hm in Hy'. rewrite Ht in Ht'.
      change (mtasks (reset s)) with (mtasks s) in Hy'.
      destruct (Nat.lt_ge_cases m (length (mtasks s))) as [Hl|Hl].
      * rewrite nth_error_app1 in Hy' by auto. apply (X Ht' m y' Hy' Hd' Hpc').
      * rewrite nth_error_app2 in Hy' by auto.
        destruct (m - length (mtasks s)) as [|[|k]]; try discriminate Hy'.
        injection Hy' as <-. congruence.
  - pose proof (MR_step s l Hs) as [Hlen Hrec _ _ Htaint]. rewrite Hk in *.
    assert (Ht : taint_iter s = false).
    { destruct (taint_iter s) eqn:E; auto. rewrite (Htaint E) in Ht'. discriminate. }
    assert (Hl : m < length (mtasks s)).
    { apply get_m_lt in Hy'. rewrite Hlen in Hy'. exact Hy'. }
    destruct (lt_get_m _ _ Hl) as [y Hy].
    destruct (Hrec m y Hy) as (y'' & Hy'' & Hg & Hdd & Hp).
    rewrite Hy' in Hy''. injection Hy'' as <-.
    assert (Hd : m_dead y = true) by (rewrite <- (Hdd eq_refl); auto).
    destruct l as [[[t|k|d]|d c]| |o]; simpl in Hp.
    2: { destruct (Nat.eq_dec k m) as [->|Hne].
         - destruct (step_run_dead s m y W Ht Hy Hd) as (_ & y'' & Hy'' & [Hq|Hq] & _);
             rewrite Hy' in Hy''; injection Hy'' as <-; [congruence|].
           rewrite Hq in Hpc'. apply (X Ht m y Hy Hd Hpc').
         - destruct Hp as (Hq & _); [congruence|]. rewrite Hq in Hpc'.
           apply (X Ht m y Hy Hd Hpc'). }
    4: { destruct (ctl s) as [|[t|k|d]] eqn:Hc.
         3: destruct (Nat.eq_dec k m) as [->|Hne];
              [apply (X Ht m y Hy Hd); apply (I5_muser _ (wf5 _ W) m y Hy); auto|].
         all: destruct Hp as (Hq & _); [congruence|]; rewrite Hq in Hpc';
              apply (X Ht m y Hy Hd Hpc'). }
    all: destruct Hp as (Hq & _); [congruence|]; rewrite Hq in Hpc';
         apply (X Ht m y Hy Hd Hpc').
Qed.

(** ** The group-cancelling operations and Extra_D *)
Lemma taint_sched s h : taint_iter (sched s h) = taint_iter s.
Proof. unfold sched. destruct (is_ready s h); reflexivity. Qed.

Lemma ctl_cancel_m s m : ctl (cancel_m s m) = ctl s.
Proof.
  unfold cancel_m. destruct (get_m s m); auto. destruct (m_final m0); auto.
  destruct (fut_pending (m_fw m0)); rewrite ?ctl_sched; cbn;
    destruct (is_current s (TM m)); reflexivity.
Qed.

Lemma gmeta_sched s h : gmeta (sched s h) = gmeta s.
Proof. unfold sched. destruct (is_ready s h); reflexivity. Qed.

Lemma gmeta_cancel_m s m : gmeta (cancel_m s m) = gmeta s.
Proof.
  unfold cancel_m. destruct (get_m s m); auto. destruct (m_final m0); auto.
  destruct (fut_pending (m_fw m0)); rewrite ?gmeta_sched; cbn;
    destruct (is_current s (TM m)); reflexivity.
Qed.

Lemma ctl_cancel_p s t : ctl (cancel_p s t) = ctl s.
Proof.
  unfold cancel_p. destruct (get_p s t) as [x|]; auto. destruct (p_unst x); auto.
  destruct (p_final x); auto.
  destruct (fut_pending (p_fw x)); rewrite ?ctl_sched; cbn;
    destruct (is_current s (TP t) && final_segment x); reflexivity.
Qed.

Lemma gmeta_cancel_p s t : gmeta (cancel_p s t) = gmeta s.
Proof.
  unfold cancel_p. destruct (get_p s t) as [x|]; auto. destruct (p_unst x); auto.
  destruct (p_final x); auto.
  destruct (fut_pending (p_fw x)); rewrite ?gmeta_sched; cbn;
    destruct (is_current s (TP t) && final_segment x); reflexivity.
Qed.

Lemma fold_frame {A B} (f : state -> A -> state) (p : state -> B) :
  (forall s a, p (f s a) = p s) -> forall l s, p (fold_left f l s) = p s.
Proof. intros Hf l. induction l; simpl; intros; auto. rewrite IHl. apply Hf. Qed.

Definition cancel_running (s : state) (t : nat) : state :=
  if mem t (t_running s) then cancel_p s t else s.

Lemma ctl_cancel_running s t : ctl (cancel_running s t) = ctl s.
Proof. unfold cancel_running. destruct (mem t (t_running s)); auto. apply ctl_cancel_p. Qed.

Lemma gmeta_cancel_running s t : gmeta (cancel_running s t) = gmeta s.
Proof. unfold cancel_running. destruct (mem t (t_running s)); auto. apply gmeta_cancel_p. Qed.

Lemma cancel_group_body_eq s g ids :
  cancel_group_body s g ids =
  fold_left cancel_running ids (mark_dead (cancel_group_metas s g) g).
Proof. reflexivity. Qed.

Lemma ctl_cancel_group_metas s g : ctl (cancel_group_metas s g) = ctl s.
Proof.
  unfold cancel_group_metas. destruct (glookup g (gmeta s)); auto.
  cbn [ctl set_meta_cancelled]. rewrite (fold_frame cancel_m ctl ctl_cancel_m). reflexivity.
Qed.

Lemma ctl_cancel_group_body s g ids : ctl (cancel_group_body s g ids) = ctl s.
Proof.
  rewrite cancel_group_body_eq, (fold_frame cancel_running ctl ctl_cancel_running).
  change (ctl (mark_dead (cancel_group_metas s g) g)) with (ctl (cancel_group_metas s g)).
  apply ctl_cancel_group_metas.
Qed.

Lemma gmeta_cancel_group_metas s g :
  gmeta (cancel_group_metas s g) =
  match glookup g (gmeta s) with Some _ => gremove g (gmeta s) | None => gmeta s end.
Proof.
  unfold cancel_group_metas. destruct (glookup g (gmeta s)); auto.
  cbn [gmeta set_meta_cancelled]. rewrite (fold_frame cancel_m gmeta gmeta_cancel_m). reflexivity.
Qed.

Lemma glookup_cancel_group_body s g ids h :
  h <> g -> glookup h (gmeta (cancel_group_body s g ids)) = glookup h (gmeta s).
Proof.
  intros Hne.
  rewrite cancel_group_body_eq, (fold_frame cancel_running gmeta gmeta_cancel_running).
  change (gmeta (mark_dead (cancel_group_metas s g) g)) with (gmeta (cancel_group_metas s g)).
  rewrite gmeta_cancel_group_metas. destruct (glookup g (gmeta s)); auto.
  apply glookup_gremove_neq; auto.
Qed.

Lemma taint_cancel_m_cur s m y :
  get_m s m = Some y -> m_final y = None -> ctl s = CUser (TM m) ->
  taint_iter (cancel_m s m) = true.
Proof.
  intros Hy Hf Hc. unfold cancel_m. rewrite Hy, Hf.
  unfold is_current. rewrite Hc. simpl. rewrite Nat.eqb_refl.
  destruct (fut_pending (m_fw y)); rewrite ?taint_sched; reflexivity.
Qed.

Lemma taint_fold_cancel_m_mono ms s :
  taint_iter s = true -> taint_iter (fold_left cancel_m ms s) = true.
Proof.
  intros Ht.
  assert (H : MR None false s (fold_left cancel_m ms s)).
  { apply MR_fold; [intros; apply MR_cancel_m; auto|apply MR_refl]. }
  apply (MR_taint _ _ _ _ H Ht).
Qed.

Lemma taint_fold_cancel_m ms : forall s m y,
  In m ms -> get_m s m = Some y -> m_final y = None -> ctl s = CUser (TM m) ->
  taint_iter (fold_left cancel_m ms s) = true.
Proof.
  induction ms as [|k t IH]; intros s m y Hin Hy Hf Hc; [destruct Hin|]. simpl.
  destruct (Nat.eq_dec k m) as [->|Hne].
  - apply taint_fold_cancel_m_mono. eapply taint_cancel_m_cur; eauto.
  - destruct Hin as [?|Hin]; [congruence|].
    pose proof (MR_cancel_m None false s s k (MR_refl _ _ _)) as [_ Hrec _ _ _].
    destruct (Hrec m y Hy) as (y' & Hy' & _ & _ & Hp).
    destruct Hp as (_ & _ & Hf' & _); [discriminate|].
    apply (IH _ m y' Hin Hy'); [congruence|]. rewrite ctl_cancel_m. auto.
Qed.

Lemma MR_cancel_running a dk s0 s t : MR a dk s0 s -> MR a dk s0 (cancel_running s t).
Proof.
  intros H. unfold cancel_running. destruct (mem t (t_running s)); auto.
  apply MR_cancel_p; auto.
Qed.

Lemma taint_cancel_group_body s g ids ms m y :
  glookup g (gmeta s) = Some ms -> In m ms -> get_m s m = Some y -> m_final y = None ->
  ctl s = CUser (TM m) -> taint_iter (cancel_group_body s g ids) = true.
Proof.
  intros Hl Hin Hy Hf Hc. rewrite cancel_group_body_eq.
  assert (H : MR None false (mark_dead (cancel_group_metas s g) g)
                 (fold_left cancel_running ids (mark_dead (cancel_group_metas s g) g))).
  { apply MR_fold; [intros; apply MR_cancel_running; auto|apply MR_refl]. }
  apply (MR_taint _ _ _ _ H).
  change (taint_iter (mark_dead (cancel_group_metas s g) g))
    with (taint_iter (cancel_group_metas s g)).
  unfold cancel_group_metas. rewrite Hl. cbn [taint_iter set_meta_cancelled].
  eapply taint_fold_cancel_m; eauto.
Qed.

(** what the operation does to one spawner record *)
Lemma cancel_group_body_rec s g ids m y :
  get_m s m = Some y ->
  exists y', get_m (cancel_group_body s g ids) m = Some y' /\
             m_group y' = m_group y /\ passive y y' /\
             m_dead y' = (gname_eqb g (m_group y) || m_dead y).
Proof.
  intros Hy. rewrite cancel_group_body_eq.
  pose proof (MR_cancel_group_metas None false s s g (MR_refl _ _ _)) as [_ Hr1 _ _ _].
  destruct (Hr1 m y Hy) as (y1 & Hy1 & Hg1 & Hd1 & Hp1).
  set (s1 := cancel_group_metas s g) in *. clearbody s1.
  assert (Hy2 : get_m (mark_dead s1 g) m =
                Some (if gname_eqb g (m_group y1) then set_m_dead y1 true else y1)).
  { unfold get_m, mark_dead; cbn. rewrite nth_error_map. unfold get_m in Hy1. rewrite Hy1.
    reflexivity. }
  set (y2 := if gname_eqb g (m_group y1) then set_m_dead y1 true else y1) in *.
  assert (H : MR None false (mark_dead s1 g) (fold_left cancel_running ids (mark_dead s1 g))).
  { apply MR_fold; [intros; apply MR_cancel_running; auto|apply MR_refl]. }
  destruct H as [_ Hr3 _ _ _].
  destruct (Hr3 m y2 Hy2) as (y3 & Hy3 & Hg3 & Hd3 & Hp3).
  exists y3. split; auto.
  specialize (Hp1 ltac:(discriminate)). specialize (Hp3 ltac:(discriminate)).
  specialize (Hd1 eq_refl). specialize (Hd3 eq_refl).
  assert (E2 : m_group y2 = m_group y1 /\ passive y1 y2 /\
               m_dead y2 = (gname_eqb g (m_group y1) || m_dead y1)).
  { unfold y2. destruct (gname_eqb g (m_group y1)); cbn; repeat split. }
  destruct E2 as (Eg & Ep & Ed).
  split; [congruence|]. split.
  - unfold passive in *. intuition congruence.
  - rewrite Hd3, Ed, Hg1, Hd1. reflexivity.
Qed.

Definition Kd (s : state) : Prop :=
  taint_iter s = false ->
  forall m y, get_m s m = Some y -> m_pc y = MAtIter ->
              m_dead y = false /\ m_final y = None /\ ctl s = CUser (TM m) /\
              meta_in_group s m (m_group y).

Lemma len_cancel_group_body s g ids :
  length (mtasks (cancel_group_body s g ids)) = length (mtasks s).
Proof.
  assert (H : MR None true s (cancel_group_body s g ids))
    by (apply MR_cancel_group_body, MR_refl).
  apply (MR_len _ _ _ _ H).
Qed.

Lemma Kd_cancel_group_body s g ids : Kd s -> Kd (cancel_group_body s g ids).
Proof.
  intros K Ht' m y' Hy' Hpc'.
  assert (Hl : m < length (mtasks s)).
  { apply get_m_lt in Hy'. rewrite len_cancel_group_body in Hy'. exact Hy'. }
  destruct (lt_get_m _ _ Hl) as [y Hy].
  destruct (cancel_group_body_rec s g ids m y Hy) as (y'' & Hy'' & Hg & Hp & Hd).
  rewrite Hy' in Hy''. injection Hy'' as <-.
  destruct Hp as (Hpc & _ & Hf & _).
  assert (Ht : taint_iter s = false).
  { destruct (taint_iter s) eqn:E; auto.
    assert (H : MR None true s (cancel_group_body s g ids))
      by (apply MR_cancel_group_body, MR_refl).
    rewrite (MR_taint _ _ _ _ H E) in Ht'. discriminate. }
  destruct (K Ht m y Hy) as (Kd0 & Kf & Kc & ms & Kl & Kin); [congruence|].
  destruct (gname_eqb_spec g (m_group y)) as [->|Hne].
  - exfalso. rewrite (taint_cancel_group_body s (m_group y) ids ms m y Kl Kin Hy Kf Kc) in Ht'.
    discriminate.
  - simpl in Hd. split; [congruence|]. split; [congruence|].
    split; [rewrite ctl_cancel_group_body; auto|].
    exists ms. split; auto. rewrite Hg, glookup_cancel_group_body; auto.
Qed.

Lemma Kd_cancel_all_groups gs : forall s, Kd s -> Kd (cancel_all_groups s gs).
Proof.
  induction gs as [|[g ids] t IH]; intros s K; simpl; auto.
  apply IH, Kd_cancel_group_body; auto.
Qed.

Lemma Kd_of_WF s : WF s -> Extra_D s -> Kd s.
Proof.
  intros W X Ht m y Hy Hpc.
  assert (Hd : m_dead y = false).
  { destruct (m_dead y) eqn:E; auto. exfalso. apply (X Ht m y Hy E Hpc). }
  assert (Hf : m_final y = None).
  { destruct (m_final y) eqn:E; auto.
    assert (m_pc y = MDone) by (apply (I5_mfinal _ (wf5 _ W) m y Hy); congruence). congruence. }
  split; auto. split; auto. split.
  - apply (I5_muser _ (wf5 _ W) m y Hy); auto.
  - apply (IM_reg _ (wfm _ W) m y Hy Hf Hd).
Qed.

Lemma Extra_D_of_Kd s : Kd s -> Extra_D s.
Proof.
  intros K Ht m y Hy Hd Hpc. destruct (K Ht m y Hy Hpc) as (Hd' & _). congruence.
Qed.

Lemma Kd_frame s s' :
  mtasks s' = mtasks s -> gmeta s' = gmeta s -> ctl s' = ctl s ->
  taint_iter s' = taint_iter s -> Kd s -> Kd s'.
Proof.
  intros Em Eg Ec Et K. unfold Kd, meta_in_group, get_m in *. rewrite Em, Eg, Ec, Et. exact K.
Qed.

Lemma Extra_D_step : forall s l, WF s -> Extra_D s -> clean (step s l) -> Extra_D (step s l).
Proof.
  intros s l W X _. destruct (kill_l l) eqn:Hk; [|apply Extra_D_step_nokill; auto].
  pose proof (Kd_of_WF s W X) as K.
  destruct l as [h| |o]; try discriminate Hk. destruct o; try discriminate Hk.
  - (* OpCancelGroup *)
    apply Extra_D_of_Kd. unfold step. fold (reset s). simpl negb. cbv iota.
    unfold do_op.
    assert (K1 : Kd (know (reset s) g)).
    { eapply Kd_frame; [..|exact K]; unfold know; destruct (existsb _ _); reflexivity. }
    destruct (glookup g (groups (know (reset s) g))).
    + apply Kd_cancel_group_body. eapply Kd_frame; [..|exact K1]; reflexivity.
    + eapply Kd_frame; [..|exact K1]; reflexivity.
  - (* OpCancelAll *)
    apply Extra_D_of_Kd. unfold step. fold (reset s). simpl negb. cbv iota.
    unfold do_op. apply Kd_cancel_all_groups. eapply Kd_frame; [..|exact K]; reflexivity.
Qed.
