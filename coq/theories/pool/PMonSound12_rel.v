(** Monitor soundness, C12 — the tracker's request table also mirrors the function behaviour
    [m_w] of the model's spawner records; hence the tracker recognises every started worker
    that raises at once ([note_raising_starts]). *)
From TP Require Import PMon PMonSound_trk PMonSound_C45_trk PMonSound_C45_trk2.
From TP Require Import PInv_Q PRun PWF PStep_B_mr PMonSound_C45_gistep PMonSound_C45_lab.
From TP Require Import PMonSound_C45_ev PMonSound_C45_mir PMonSound_C45 PMonSound12_trk.

Definition WM (rs : list req) (s : state) : Prop :=
  forall r x y, nth_error rs r = Some x -> get_m s r = Some y -> r_w x = m_w y.

Lemma WM_mimm rs rs' s s' :
  length rs = length (mtasks s) -> length (mtasks s') = length (mtasks s) ->
  (forall r x', nth_error rs' r = Some x' -> exists x, nth_error rs r = Some x /\ r_w x' = r_w x) ->
  (forall k y y', get_m s k = Some y -> get_m s' k = Some y' -> mimm y y') ->
  WM rs s -> WM rs' s'.
Proof.
  intros L L' Hr Hm H r x' y' Hx' Hy'.
  destruct (Hr r x' Hx') as (x & Hx & Ew).
  destruct (@get_m_ex s r) as [y Hy]; [rewrite <- L; apply nth_error_Some; congruence|].
  destruct (Hm _ _ _ Hy Hy') as (_ & _ & _ & _ & _ & M & _).
  rewrite Ew, M. eapply H; eauto.
Qed.

Lemma WM_same rs s s' : length rs = length (mtasks s) -> mt_same s s' -> WM rs s -> WM rs s'.
Proof.
  intros L [L' H']. apply WM_mimm; auto.
  - intros r x' Hx'. eauto.
  - intros k y y' Hy Hy'. apply (H' _ _ _ Hy Hy').
Qed.

Lemma WM_eq rs s s' : mtasks s' = mtasks s -> WM rs s -> WM rs s'.
Proof. intros E H r x y Hx Hy. unfold get_m in Hy. rewrite E in Hy. eapply H; eauto. Qed.

Lemma WM_app rs s s' x y :
  length rs = length (mtasks s) -> WM rs s -> mtasks s' = mtasks s ++ [y] -> r_w x = m_w y ->
  WM (rs ++ [x]) s'.
Proof.
  intros L H E Hm r x' y' Hx' Hy'. unfold get_m in Hy'. rewrite E in Hy'.
  apply nth_error_snoc_inv in Hx'. apply nth_error_snoc_inv in Hy'.
  destruct Hx' as [Hx'|[-> ->]]; destruct Hy' as [Hy'|[E2 ->]].
  - eapply H; eauto.
  - exfalso. assert (r < length rs) by (apply nth_error_Some; congruence). lia.
  - exfalso. assert (length rs < length (mtasks s)) by (apply nth_error_Some; congruence). lia.
  - exact Hm.
Qed.

Lemma WM_spawned rs s s' (xm : gname -> mtask) (xr : gname -> req) :
  length rs = length (mtasks s) -> WM rs s -> spawned s s' xm ->
  (forall g, r_w (xr g) = m_w (xm g)) ->
  WM (match res s' with RName n => rs ++ [xr n] | _ => rs end) s'.
Proof.
  intros L HM [(g & Hr & Em)|(Hr & Em)] Hx.
  - rewrite Hr. eapply WM_app; eauto.
  - destruct (res s') eqn:E; try (eapply WM_eq; eauto). exfalso. eapply Hr; eauto.
Qed.

Lemma nth_map_w (f : req -> req) rs r x' :
  (forall x, r_w (f x) = r_w x) -> nth_error (map f rs) r = Some x' ->
  exists x, nth_error rs r = Some x /\ r_w x' = r_w x.
Proof.
  intros Hf H. rewrite nth_error_map in H. destruct (nth_error rs r) as [x|]; [|discriminate].
  simpl in H. injection H as <-. eauto.
Qed.

Theorem WM_label c s l rs b :
  WFx s -> cfg s = c -> MIR rs s -> WM rs s ->
  WM (lab_reqs c rs b (obs_of (step s l) l (enabled (set_res (set_evs s []) RNone) l))) (step s l).
Proof.
  intros X Hc [L _] HW. unfold lab_reqs. cbn [o_enabled o_label o_res obs_of].
  set (sa := set_res (set_evs s []) RNone).
  destruct (enabled sa l) eqn:Hen; cbn [negb].
  2:{ unfold step. fold sa. rewrite Hen. cbn [negb]. eapply WM_eq; eauto. }
  assert (Hrun : (forall o, l <> LOp o) -> WM rs (step s l)).
  { intros. eapply WM_same; [exact L| |exact HW]. apply mt_same_step_run; auto. }
  destruct l as [h| |o]; try (apply Hrun; intros; discriminate).
  assert (Hst : step s (LOp o) = do_op sa o) by (unfold step; fold sa; rewrite Hen; reflexivity).
  assert (HWa : WM rs sa) by (eapply WM_eq; [|exact HW]; reflexivity).
  assert (La : length rs = length (mtasks sa)) by exact L.
  rewrite Hst.
  destruct o; try (eapply WM_same; [exact La| |exact HWa]; apply simple_op_mt_same; reflexivity).
  - apply (WM_spawned rs sa _ _ (fun n => mk_req MApply num bad [] 0 w ecb ccb n b) La HWa
             (spawned_apply sa num bad noncoro w ecb ccb g)).
    intros n. reflexivity.
  - apply (WM_spawned rs sa _ _ (fun n => mk_req (MMap stars) 0 [] els nc default_w ecb ccb n b)
             La HWa (spawned_map sa stars els nc noncoro ecb ccb g)).
    intros n. reflexivity.
  - subst c.
    apply (WM_spawned rs sa _ _
             (fun n => mk_req MStart num (cf_bad (cfg s)) [] 0 (cf_w (cfg s)) (cf_ecb (cfg s)) (cf_ccb (cfg s)) n b)
             La HWa (spawned_start sa num)).
    intros n. reflexivity.
  - destruct (cancel_group_cases sa g) as [[Hr [Lk Hk]]|[[e Hr] Em]]; cbv zeta in *.
    + rewrite Hr, res_know. cbn [res sa set_res].
      eapply (WM_mimm rs _ sa); [exact La|exact Lk| | |exact HWa].
      * intros r x' Hx'. eapply nth_map_w; [|exact Hx'].
        intros x. cbv beta. destruct (gname_eqb g (r_group x)); reflexivity.
      * intros k y y' Hy Hy'. apply (Hk _ _ _ Hy Hy').
    + rewrite Hr. eapply WM_eq; eauto.
  - destruct (cancel_all_cases sa) as [Lk Hk]. cbv zeta in *.
    eapply (WM_mimm rs _ sa); [exact La|exact Lk| |exact Hk|exact HWa].
    intros r x' Hx'. eapply nth_map_w; [|exact Hx']. intros x. reflexivity.
Qed.

Lemma rq_ev_w rs e r x' :
  nth_error (rq_ev rs e) r = Some x' -> exists x, nth_error rs r = Some x /\ r_w x' = r_w x.
Proof.
  assert (Hupd : forall r0 x0 xn, nth_error rs r0 = Some x0 -> r_w xn = r_w x0 ->
            nth_error (upd rs r0 xn) r = Some x' ->
            exists x, nth_error rs r = Some x /\ r_w x' = r_w x).
  { intros r0 x0 xn H0 Ew H. apply nth_upd_cases in H.
    destruct H as [(-> & -> & _)|(_ & H)]; eauto. }
  destruct e as [t r0 el|t|t|kd t cl|kd t raised|kd t|r0 n|d oc]; simpl; eauto.
  - destruct (nth_error rs r0) as [x0|] eqn:H0; eauto. apply (Hupd r0 x0); auto.
  - destruct (nth_error rs r0) as [x0|] eqn:H0; eauto. apply (Hupd r0 x0); auto.
Qed.

Lemma WM_events es : forall rs s, WM rs s -> WM (fold_left rq_ev es rs) s.
Proof.
  induction es as [|e es IH]; intros rs s H; simpl; auto. apply IH.
  intros r x' y Hx' Hy. destruct (rq_ev_w _ _ _ _ Hx') as (x & Hx & Ew). rewrite Ew. eapply H; eauto.
Qed.

(** ** a started worker that raises at once is recognised by the tracker *)
Lemma ras_sound n kk s t x :
  WF s -> Inv5 n (tview5 kk) s None -> MIR (k_reqs kk) s -> WM (k_reqs kk) s ->
  get_p s t = Some x -> p_pc x = PUStart -> w_first (p_w x) = WRaise ->
  raises_at_start kk t = true.
Proof.
  intros W (H1 & H2 & _ & _ & _ & H6 & H7 & H8 & _ & _) [L HM] HW Hx Hpc Hw.
  unfold tview5, v_live, v_task in *. cbn [fst snd] in *.
  assert (Hlive : In t (k_live kk)).
  { apply H2. unfold cls_at5, cls_rec5. rewrite Hx. simpl. rewrite Hpc. reflexivity. }
  destruct (H8 t Hlive) as (r & el & Ht).
  pose proof (In_assoc t _ _ H6 Ht) as Ha.
  destruct (H7 _ _ _ Ht) as [Hid _]. unfold id_at, id_rec in Hid. rewrite Hx in Hid. simpl in Hid.
  injection Hid as <- <-.
  destruct (IR_req _ (wfr _ W) t x Hx) as (y & Hy & Hm).
  destruct (nth_error (k_reqs kk) (p_req x)) as [xr|] eqn:Hxr.
  2:{ apply nth_error_None in Hxr. apply get_m_len in Hy. lia. }
  unfold raises_at_start, req_of. rewrite Ha, Hxr.
  destruct (HM _ _ _ Hxr Hy) as (Ek & _ & _ & Ee & _). pose proof (HW _ _ _ Hxr Hy) as Ew.
  destruct Hm as (_ & _ & _ & _ & Hkind).
  assert (Es : wsel xr (p_el x) = p_w x).
  { unfold wsel. rewrite Ek. destruct (m_kind y).
    - destruct Hkind as (E & _). congruence.
    - destruct Hkind as (e & He & _ & E). rewrite Ee, He. auto.
    - destruct Hkind as (E & _). congruence. }
  rewrite Es, Hw. reflexivity.
Qed.
