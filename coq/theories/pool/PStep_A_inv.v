(** Two simple inductive facts about model states, proved by one pass over [step]:

    - [Extra_A]: a task with a pending [_must_cancel] is never waiting on a Pending future
      ([cancel_p] sets [p_mc] only when the future is not Pending, and a task suspends on a fresh
      Pending future only with [p_mc = false]);
    - [running_sorted]: the running registry is in ascending id order.

    Both are carried by one predicate [K a b] with two switches, so that each can be used without
    the other. *)
From TP Require Import PSpecStep PInv_R_base PInv_R_tr.

Definition Pp (x : ptask) : Prop := p_mc x = true -> p_fw x <> Some FPending.

Definition AP (s : state) : Prop := forall t x, nth_error (ptasks s) t = Some x -> Pp x.

Definition RS (s : state) : Prop :=
  StronglySorted lt (t_running s) /\ forall u, In u (t_running s) -> u < num_started s.

Definition K (a b : bool) (s : state) : Prop := (a = true -> AP s) /\ (b = true -> RS s).

(** ** sorted lists *)
Lemma SS_remove1 n l : StronglySorted lt l -> StronglySorted lt (remove1 n l).
Proof.
  induction 1 as [|h t Hs IH Hf]; simpl; [constructor|].
  destruct (Nat.eqb n h); auto. constructor; auto.
  rewrite Forall_forall in *. intros x Hx. apply Hf. eapply In_remove1; eauto.
Qed.

Lemma SS_snoc n l : StronglySorted lt l -> (forall u, In u l -> u < n) -> StronglySorted lt (l ++ [n]).
Proof.
  induction 1 as [|h t Hs IH Hf]; simpl; intros Hlt.
  - constructor; constructor.
  - constructor.
    + apply IH. intros u Hu. apply Hlt. auto.
    + rewrite Forall_forall in *. intros x Hx. apply in_app_iff in Hx.
      destruct Hx as [Hx|[<-|[]]]; auto.
Qed.

(** ** basic transformers *)
Lemma K_eq a b s s' :
  ptasks s' = ptasks s -> t_running s' = t_running s -> num_started s' = num_started s ->
  K a b s -> K a b s'.
Proof. unfold K, AP, RS. intros -> -> ->. auto. Qed.

Lemma K_sched a b s h : K a b s -> K a b (sched s h).
Proof.
  apply K_eq; [apply ptasks_sched| |apply num_started_sched].
  unfold sched; destruct (is_ready s h); reflexivity.
Qed.

Lemma K_fold {A} (f : state -> A -> state) a b :
  (forall s x, K a b s -> K a b (f s x)) -> forall l s, K a b s -> K a b (fold_left f l s).
Proof. intros Hf. induction l as [|x l IH]; simpl; intros s H; auto. Qed.

Lemma K_sched_cbs a b s r : K a b s -> K a b (sched_cbs s r).
Proof. intros H. unfold sched_cbs. apply K_fold; auto. intros; apply K_sched; auto. Qed.

Lemma K_put_m a b s m x : K a b s -> K a b (put_m s m x).
Proof. exact (fun H => H). Qed.
Lemma K_put_d a b s m x : K a b s -> K a b (put_d s m x).
Proof. exact (fun H => H). Qed.

Lemma K_put_p a b s t x : K a b s -> (a = true -> Pp x) -> K a b (put_p s t x).
Proof.
  intros [HA HR] Hx. split; [|exact HR].
  intros Ha t' x' Hx'. unfold put_p in Hx'; cbn in Hx'. rewrite nth_error_upd in Hx'.
  destruct (Nat.eqb t t').
  - destruct (Nat.ltb t (length (ptasks s))); [|discriminate]. injection Hx' as <-. auto.
  - apply (HA Ha t' x' Hx').
Qed.

Lemma K_remove1 a b s t : K a b s -> K a b (set_t_running s (remove1 t (t_running s))).
Proof.
  intros [HA HR]. split; [exact HA|]. intros Hb. destruct (HR Hb) as [H1 H2].
  split; cbn.
  - apply SS_remove1; auto.
  - intros u Hu. apply H2. eapply In_remove1; eauto.
Qed.

Lemma K_clear a b s s' :
  ptasks s' = ptasks s -> t_running s' = [] -> K a b s -> K a b s'.
Proof.
  intros Hp Hr [HA HR]. split.
  - intros Ha. unfold AP. rewrite Hp. exact (HA Ha).
  - intros _. unfold RS. rewrite Hr. split; [constructor|intros u []].
Qed.

Lemma Pp_mc_false x : p_mc x = false -> Pp x.
Proof. unfold Pp. congruence. Qed.
Lemma Pp_not_pending x : p_fw x <> Some FPending -> Pp x.
Proof. unfold Pp. auto. Qed.
Lemma Pp_same x x' : p_mc x' = p_mc x -> p_fw x' = p_fw x -> Pp x -> Pp x'.
Proof. unfold Pp. intros -> ->. auto. Qed.

(** ** semaphore *)
Lemma K_wake_next a b s : K a b s -> K a b (wake_next s).
Proof.
  intros H. unfold wake_next. destruct (first_pending s (sem_waiters s)); auto.
  destruct (get_m s n); auto. apply K_sched. exact H.
Qed.

Lemma K_sem_release a b s : K a b s -> K a b (sem_release s).
Proof. intros H. unfold sem_release. apply K_wake_next. exact H. Qed.

Lemma K_map_release a b s m : K a b s -> K a b (map_release s m).
Proof.
  intros H. unfold map_release. destruct (get_m s m) as [x|]; auto.
  destruct (m_pc x); try exact H. destruct (m_fw x) as [[| | |]|]; try exact H.
  apply K_sched. exact H.
Qed.

(** ** pool tasks *)
Lemma K_finish_p a b s t x : K a b s -> K a b (finish_p s t x).
Proof.
  intros H. unfold finish_p.
  match goal with |- K a b (set_ctl ?s' CIdle) => change (K a b s') end.
  apply K_sched_cbs, K_put_p; auto. intros _. apply Pp_mc_false. reflexivity.
Qed.

Lemma K_suspend_p a b s t x pc : K a b s -> K a b (suspend_p s t x pc).
Proof.
  intros H. unfold suspend_p. destruct (p_mc x) eqn:Hmc.
  - match goal with |- K a b (set_ctl ?s' CIdle) => change (K a b s') end.
    apply K_sched, K_put_p; auto. intros _. apply Pp_mc_false. reflexivity.
  - match goal with |- K a b (set_ctl ?s' CIdle) => change (K a b s') end.
    apply K_put_p; auto. intros _. apply Pp_mc_false. exact Hmc.
Qed.

Lemma K_user_p a b s t x ev c :
  K a b s -> (a = true -> Pp x) -> K a b (set_ctl (emit (put_p s t x) ev) c).
Proof. intros H Hx. change (K a b (put_p s t x)). apply K_put_p; auto. Qed.

Lemma K_moved a b s1 t x :
  K a b s1 -> (a = true -> Pp x) ->
  K a b (let s2 := set_t_ended s1 (dict_add (t_ended s1) t) in
     let s3 := sem_release s2 in
     let x := set_p_nrel x (S (p_nrel x)) in
     let s4 := if p_ismap x then map_release s3 (p_req x) else s3 in
     match p_ecb x with
     | CbNone => finish_p s4 t x
     | _ =>
        set_ctl (emit (put_p s4 t (set_p_pc (set_p_necb x (S (p_necb x))) PUEndCb))
                      (EvCbBegin KEnd t (classify s4 t)))
                (CUser (TP t))
     end).
Proof.
  intros H Hx. cbv zeta.
  set (s3 := sem_release (set_t_ended s1 (dict_add (t_ended s1) t))).
  assert (H3 : K a b s3) by (apply K_sem_release; exact H).
  set (x1 := set_p_nrel x (S (p_nrel x))).
  set (s4 := if p_ismap x1 then map_release s3 (p_req x1) else s3).
  assert (H4 : K a b s4).
  { unfold s4. destruct (p_ismap x1); auto. apply K_map_release; auto. }
  clearbody s4. clear H3. clearbody s3.
  destruct (p_ecb x1).
  - apply K_finish_p; auto.
  - apply K_user_p; auto.
  - apply K_user_p; auto.
Qed.

Lemma K_enter_end a b s t x : K a b s -> (a = true -> Pp x) -> K a b (enter_end s t x).
Proof.
  intros H Hx. unfold enter_end.
  destruct (mem t (t_running s)); [|destruct (mem t (t_cancelled s))].
  - apply K_moved; auto. apply K_remove1; auto.
  - apply K_moved; auto.
  - apply K_finish_p; auto.
Qed.

Lemma K_enter_cancel a b s t x : K a b s -> (a = true -> Pp x) -> K a b (enter_cancel s t x).
Proof.
  intros H Hx. unfold enter_cancel.
  destruct (mem t (t_running s)).
  - assert (H1 : K a b (set_t_cancelled (set_t_running s (remove1 t (t_running s)))
                                         (dict_add (t_cancelled s) t)))
      by (apply (K_remove1 a b s t H)).
    destruct (p_ccb x).
    + apply K_enter_end; auto.
    + apply K_user_p; auto.
    + apply K_user_p; auto.
  - apply K_enter_end; auto.
Qed.

Lemma Pp_cb_raise x r st t : Pp x -> Pp (cb_raise x r st t).
Proof. unfold cb_raise. destruct r; auto. Qed.

Lemma K_continue_p a b s t : K a b s -> K a b (continue_p s t).
Proof.
  intros H. unfold continue_p.
  destruct (get_p s t) as [x|] eqn:Hx; auto.
  assert (HP : a = true -> Pp x) by (intros Ha; apply (proj1 H Ha t x Hx)).
  destruct (p_pc x); auto.
  - destruct (w_first (p_w x)).
    + apply K_suspend_p; auto.
    + apply K_enter_end; auto.
    + apply K_enter_end; auto.
  - destruct (p_fin x); apply K_enter_end; auto.
  - destruct (w_cancel (p_w x)); [apply K_enter_cancel|apply K_enter_end]; auto.
  - destruct (p_ccb x) as [|r|slow r].
    + apply K_enter_end; auto.
    + apply K_enter_end; auto. intros Ha. apply Pp_cb_raise; auto.
    + destruct slow.
      * apply K_suspend_p; auto.
      * apply K_enter_end; auto. intros Ha. apply Pp_cb_raise; auto.
  - destruct (p_ecb x) as [|r|slow r].
    + apply K_finish_p; auto.
    + apply K_finish_p; auto.
    + destruct slow.
      * apply K_suspend_p; auto.
      * apply K_finish_p; auto.
Qed.

Lemma K_run_p a b s t : K a b s -> K a b (run_p s t).
Proof.
  intros H. unfold run_p.
  destruct (get_p s t) as [x0|] eqn:Hx; auto.
  set (x := set_p_mc (set_p_fw x0 None) false).
  assert (HP : forall y, p_mc y = false -> a = true -> Pp y)
    by (intros y Hy _; apply Pp_mc_false; auto).
  destruct (p_pc x0); auto.
  - destruct (task_input (p_mc x0) (p_fw x0)).
    + destruct (p_unst x).
      * apply K_user_p; auto.
      * apply K_user_p; auto.
      * apply K_enter_cancel; auto.
    + apply K_finish_p; auto.
    + apply K_finish_p; auto.
  - destruct (task_input (p_mc x0) (p_fw x0)).
    + change (K a b (put_p s t (set_p_pc x PUResume))). apply K_put_p; auto.
    + apply K_user_p; auto.
    + apply K_user_p; auto.
  - destruct (task_input (p_mc x0) (p_fw x0)).
    + apply K_enter_end; auto. apply HP. unfold cb_raise. destruct (cb_raises (p_ccb x)); reflexivity.
    + apply K_enter_end; auto.
    + apply K_enter_end; auto.
  - destruct (task_input (p_mc x0) (p_fw x0)); apply K_finish_p; auto.
Qed.

(** ** spawners *)
Lemma K_finish_m a b s m x e : K a b s -> K a b (finish_m s m x e).
Proof.
  intros H. unfold finish_m.
  match goal with |- K a b (set_ctl ?s' CIdle) => change (K a b s') end.
  apply K_sched_cbs. exact H.
Qed.

Lemma K_suspend_m a b s m x pc : K a b s -> K a b (suspend_m s m x pc).
Proof.
  intros H. unfold suspend_m. destruct (m_mc x).
  - match goal with |- K a b (set_ctl ?s' CIdle) => change (K a b s') end.
    apply K_sched. exact H.
  - exact H.
Qed.

Lemma K_to_iter a b s m : K a b s -> K a b (to_iter s m).
Proof. intros H. unfold to_iter. destruct (get_m s m); exact H. Qed.

Lemma K_register a b s m x :
  K a b s -> (b = true -> forall u, In u (t_running s) -> u < num_started s) ->
  K a b (register s m x).
Proof.
  intros [HA HR] _. unfold register.
  apply K_put_m, K_sched. split.
  - intros Ha t y Hy. cbn in Hy.
    destruct (Nat.eq_dec t (length (ptasks s))) as [->|Hne].
    + rewrite nth_error_snoc_eq in Hy. injection Hy as <-. apply Pp_mc_false. reflexivity.
    + apply nth_error_snoc in Hy; auto. apply (HA Ha t y Hy).
  - intros Hb. destruct (HR Hb) as [H1 H2]. split; cbn.
    + unfold dict_add. destruct (mem (num_started s) (t_running s)); auto.
      apply SS_snoc; auto.
    + intros u Hu. unfold dict_add in Hu. destruct (mem (num_started s) (t_running s)).
      * apply H2 in Hu. lia.
      * apply in_app_iff in Hu. destruct Hu as [Hu|[<-|[]]]; [apply H2 in Hu|]; lia.
Qed.

Lemma K_register' a b s m x : K a b s -> K a b (register s m x).
Proof. intros H. apply K_register; auto. intros Hb. apply (proj2 H Hb). Qed.

Lemma K_apply_loop a b rem : forall s m, K a b s -> K a b (apply_loop rem s m).
Proof.
  induction rem as [|r IH]; intros s m H; simpl.
  - destruct (get_m s m); auto. apply K_finish_m; auto.
  - destruct (get_m s m) as [x|]; auto.
    destruct (nth (m_idx x) (m_bad x) false).
    + apply IH. exact H.
    + unfold try_start. destruct (closed s).
      * apply K_finish_m; auto.
      * destruct (sem_locked s).
        -- apply K_suspend_m. exact H.
        -- apply IH. apply K_register'. exact H.
Qed.

Lemma K_spawn_next a b s m : K a b s -> K a b (spawn_next s m).
Proof.
  intros H. unfold spawn_next. destruct (get_m s m) as [x|]; auto.
  destruct (m_kind x); [apply K_apply_loop|apply K_to_iter|apply K_apply_loop]; auto.
Qed.

Lemma K_start_then_next a b s m x : K a b s -> K a b (start_then_next s m x).
Proof.
  intros H. unfold start_then_next, try_start.
  destruct (closed s).
  - apply K_finish_m; auto.
  - destruct (sem_locked s).
    + apply K_suspend_m. exact H.
    + apply K_spawn_next, K_register'. exact H.
Qed.

Lemma K_continue_m a b s m : K a b s -> K a b (continue_m s m).
Proof.
  intros H. unfold continue_m. destruct (get_m s m) as [x|]; auto.
  destruct (m_pc x); auto.
  destruct (nth_error (m_els x) (m_idx x)) as [e|].
  - destruct (e_bad e).
    + apply K_to_iter. exact H.
    + destruct (m_mapval x).
      * apply K_suspend_m; auto.
      * apply K_start_then_next; auto.
  - apply K_finish_m; auto.
Qed.

Lemma K_run_m a b s m : K a b s -> K a b (run_m s m).
Proof.
  intros H. unfold run_m. destruct (get_m s m) as [x0|]; auto.
  destruct (m_pc x0); auto.
  - destruct (task_input (m_mc x0) (m_fw x0)).
    + apply K_spawn_next. exact H.
    + apply K_finish_m; auto.
    + apply K_finish_m; auto.
  - destruct (task_input (m_mc x0) (m_fw x0)).
    + apply K_start_then_next; auto.
    + apply K_finish_m; auto.
    + apply K_finish_m; auto.
  - set (x := set_m_mc (set_m_fw x0 None) false).
    set (s1 := put_m (set_sem_waiters s (remove1 m (sem_waiters s))) m x).
    assert (H1 : K a b s1) by exact H.
    clearbody s1.
    destruct (task_input (m_mc x0) (m_fw x0)).
    + apply K_spawn_next, K_register'.
      destruct (ninf_pos (sem_value s1)); auto. apply K_wake_next; auto.
    + apply K_finish_m.
      destruct (match m_fw x0 with Some FCancelled => true | _ => false end); auto.
      apply K_sem_release; auto.
    + apply K_finish_m.
      destruct (match m_fw x0 with Some FCancelled => true | _ => false end); auto.
      apply K_sem_release; auto.
Qed.

(** ** drivers *)
Lemma K_finish_d a b s d x e : K a b s -> K a b (finish_d s d x e).
Proof. exact (fun H => H). Qed.

Lemma K_wake_closed a b l : forall s, K a b s -> K a b (wake_closed s l).
Proof.
  induction l as [|d l IH]; simpl; intros s H; auto.
  apply IH. destruct (get_d s d) as [x|]; auto.
  destruct (fut_pending (d_fw x)); auto. apply K_sched. exact H.
Qed.

Lemma K_after_g2 a b s d x outer : K a b s -> K a b (after_g2 s d x outer).
Proof.
  intros H. unfold after_g2.
  destruct outer; try exact H; (destruct (d_kind x); [exact H| |exact H]);
    apply K_finish_d, K_wake_closed;
    (eapply K_clear; [| |exact H]; reflexivity).
Qed.

Lemma K_start_g2 a b s d x cs re : K a b s -> K a b (start_g2 s d x cs re).
Proof.
  intros H. unfold start_g2. destruct (make_gather s (map TP cs) re) as [g outer].
  destruct outer; try (apply K_after_g2; exact H). exact H.
Qed.

Lemma K_after_g1 a b s d x outer : K a b s -> K a b (after_g1 s d x outer).
Proof.
  intros H. unfold after_g1. destruct (d_kind x) as [re|re|].
  - destruct outer as [| |[]|]; try exact H; apply K_start_g2; exact H.
  - destruct (if re then None else first_exception s
        (match d_g1 x with Some g => g_children g | None => [] end)).
    + exact H.
    + apply K_start_g2; exact H.
  - exact H.
Qed.

Lemma K_start_g1 a b s d x cs re : K a b s -> K a b (start_g1 s d x cs re).
Proof.
  intros H. unfold start_g1. destruct (make_gather s (map TM cs) re) as [g outer].
  destruct outer; try (apply K_after_g1; exact H). exact H.
Qed.

Lemma K_run_d a b s d : K a b s -> K a b (run_d s d).
Proof.
  intros H. unfold run_d. destruct (get_d s d) as [x0|]; auto.
  destruct (d_pc x0); auto.
  - cbn [d_kind set_d_fw]. destruct (d_kind x0) as [re|re|].
    + destruct (pop_ended s (gmeta s)) as [gm ended]. apply K_start_g1. exact H.
    + apply K_start_g1. exact H.
    + destruct (closed s); exact H.
  - apply K_after_g1; auto.
  - apply K_after_g2; auto.
Qed.

Lemma K_run_g a b s d c : K a b s -> K a b (run_g s d c).
Proof.
  intros H. unfold run_g. destruct (get_d s d) as [x|]; auto.
  destruct (tref_final s c) as [o|]; auto.
  destruct (match c with TM _ => true | _ => false end);
    (match goal with |- K a b (match ?g with Some _ => _ | None => _ end) =>
       destruct g as [g0|]; auto end;
     match goal with |- K a b (match ?f with Some _ => _ | None => _ end) =>
       destruct f as [[| | |]|]; try exact H end;
     match goal with |- K a b (let '(_, _) := ?p in _) => destruct p as [nfin outer] end;
     destruct outer; try exact H; apply K_sched; exact H).
Qed.

(** ** operations *)
Lemma K_know a b s g : K a b s -> K a b (know s g).
Proof. intros H. unfold know. destruct (existsb (gname_eqb g) (known s)); exact H. Qed.

Lemma K_cancel_m a b s m : K a b s -> K a b (cancel_m s m).
Proof.
  intros H. unfold cancel_m. destruct (get_m s m) as [x|]; auto.
  destruct (m_final x); auto.
  destruct (is_current s (TM m)); (destruct (fut_pending (m_fw x)); [apply K_sched|]; exact H).
Qed.

Lemma K_cancel_p a b s t : K a b s -> K a b (cancel_p s t).
Proof.
  intros H. unfold cancel_p. destruct (get_p s t) as [x|] eqn:Hx; auto.
  assert (HP : a = true -> Pp x) by (intros Ha; apply (proj1 H Ha t x Hx)).
  destruct (p_unst x);
    try (apply K_put_p; [exact H|intros Ha; eapply Pp_same; [| |apply HP; exact Ha]; reflexivity]).
  destruct (p_final x); auto.
  set (s1 := if is_current s (TP t) && final_segment x then set_taint_self s true else s).
  assert (H1 : K a b s1) by (unfold s1; destruct (is_current s (TP t) && final_segment x); exact H).
  clearbody s1.
  destruct (fut_pending (p_fw x)) eqn:Hp.
  - apply K_sched, K_put_p; auto. intros _. apply Pp_not_pending. discriminate.
  - apply K_put_p; auto. intros _. apply Pp_not_pending. cbn.
    intros Hf. rewrite Hf in Hp. discriminate.
Qed.

Lemma K_do_cancel a b s ids : K a b s -> K a b (do_cancel s ids).
Proof.
  intros H. unfold do_cancel. destruct (first_lookup_err s ids); [exact H|].
  apply K_fold; auto. intros; apply K_cancel_p; auto.
Qed.

Lemma K_cancel_group_metas a b s g : K a b s -> K a b (cancel_group_metas s g).
Proof.
  intros H. unfold cancel_group_metas. destruct (glookup g (gmeta s)) as [ms|]; auto.
  match goal with |- K a b (set_meta_cancelled ?s' _) => change (K a b s') end.
  apply K_fold; [intros; apply K_cancel_m; auto|]. exact H.
Qed.

Lemma K_cancel_group_body a b s g ids : K a b s -> K a b (cancel_group_body s g ids).
Proof.
  intros H. unfold cancel_group_body. apply K_fold.
  - intros s' t H'. destruct (mem t (t_running s')); auto. apply K_cancel_p; auto.
  - change (K a b (cancel_group_metas s g)). apply K_cancel_group_metas; auto.
Qed.

Lemma K_cancel_all_groups a b gs : forall s, K a b s -> K a b (cancel_all_groups s gs).
Proof.
  induction gs as [|[g ids] gs IH]; simpl; intros s H; auto.
  apply IH. apply K_cancel_group_body; auto.
Qed.

Lemma K_new_meta a b s x : K a b s -> K a b (new_meta s x).
Proof. intros H. unfold new_meta. apply K_sched. exact H. Qed.

Lemma K_set_res a b s r : K a b s -> K a b (set_res s r).
Proof. exact (fun H => H). Qed.
Lemma K_set_groups a b s r : K a b s -> K a b (set_groups s r).
Proof. exact (fun H => H). Qed.
Lemma K_set_start_calls a b s r : K a b s -> K a b (set_start_calls s r).
Proof. exact (fun H => H). Qed.

Lemma K_do_op a b s o : K a b s -> K a b (do_op s o).
Proof.
  intros H. destruct o; unfold do_op; cbv zeta.
  - set (s1 := match g with Some g0 => know s g0 | None => s end).
    assert (H1 : K a b s1) by (unfold s1; destruct g; [apply K_know|]; exact H).
    clearbody s1.
    destruct (check_start s1 noncoro); [exact H1|].
    match goal with |- K a b (if ?c then _ else _) => destruct c end; [exact H1|].
    apply K_set_res, K_new_meta, K_set_groups, K_know; exact H1.
  - set (s1 := match g with Some g0 => know s g0 | None => s end).
    assert (H1 : K a b s1) by (unfold s1; destruct g; [apply K_know|]; exact H).
    clearbody s1.
    destruct (check_start s1 noncoro); [exact H1|].
    destruct (nc =? 0); [exact H1|].
    match goal with |- K a b (if ?c then _ else _) => destruct c end; [exact H1|].
    apply K_set_res, K_new_meta, K_set_groups, K_know; exact H1.
  - destruct (check_start s false); [exact H|].
    apply K_set_res, K_new_meta, K_set_groups, K_set_start_calls, K_know; exact H.
  - apply K_do_cancel; auto.
  - pose proof (K_know a b s g H) as H1.
    destruct (glookup g (groups (know s g))); [|exact H1].
    apply K_cancel_group_body. exact H1.
  - apply K_cancel_all_groups. exact H.
  - match goal with |- K a b (match res ?s' with _ => _ end) =>
      assert (H1 : K a b s') by (apply K_do_cancel; exact H); destruct (res s'); exact H1 end.
  - match goal with |- K a b (match res ?s' with _ => _ end) =>
      assert (H1 : K a b s') by (apply K_do_cancel; exact H); destruct (res s'); exact H1 end.
  - exact H.
  - destruct (0 <? n_gac s); exact H.
  - destruct v; exact H.
  - match goal with |- K a b (set_res ?s' _) => change (K a b s') end.
    apply K_fold; auto. intros; apply K_know; auto.
  - apply K_sched. destruct k; exact H.
  - destruct (get_p s tid) as [x|]; [|exact H].
    apply K_sched, K_put_p; auto. intros _. apply Pp_not_pending. discriminate.
  - destruct (get_p s tid) as [x|]; [|exact H].
    apply K_sched, K_put_p; auto. intros _. apply Pp_not_pending. discriminate.
Qed.

Lemma K_step a b s l : K a b s -> K a b (step s l).
Proof.
  intros H0. unfold step.
  set (s1 := set_res (set_evs s []) RNone).
  assert (H : K a b s1) by exact H0.
  clearbody s1. clear H0 s.
  destruct (negb (enabled s1 l)); [exact H|].
  destruct l as [h| |o].
  - assert (H2 : K a b (unsched s1 h)) by exact H.
    destruct h as [[t|m|d]|d c]; simpl run_handle.
    + apply K_run_p; auto.
    + apply K_run_m; auto.
    + apply K_run_d; auto.
    + apply K_run_g; auto.
  - destruct (ctl s1) as [|[t|m|d]]; auto.
    + apply K_continue_p; auto.
    + apply K_continue_m; auto.
  - apply K_do_op; auto.
Qed.

(** ** The two invariants *)
Definition Extra_A (s : state) : Prop :=
  forall t x, get_p s t = Some x -> p_mc x = true -> p_fw x <> Some FPending.

Lemma Extra_A_K s : Extra_A s <-> K true false s.
Proof.
  unfold Extra_A, K, AP, Pp, get_p. split.
  - intros H. split; [intros _ t x Hx Hmc; apply (H t x Hx Hmc)|discriminate].
  - intros [H _] t x Hx Hmc. apply (H eq_refl t x Hx Hmc).
Qed.

Lemma Extra_A_init : forall c, Extra_A (init c).
Proof. intros c t x Hx. unfold get_p in Hx; cbn in Hx. destruct t; discriminate. Qed.

Lemma Extra_A_step : forall s l, WF s -> Extra_A s -> clean (step s l) -> Extra_A (step s l).
Proof. intros s l _ H _. apply Extra_A_K, K_step, Extra_A_K, H. Qed.

Lemma running_sorted_init : forall c, running_sorted (init c).
Proof. intros c. unfold running_sorted; cbn. constructor. Qed.

Lemma running_sorted_step : forall s l,
  WF s -> running_sorted s -> clean (step s l) -> running_sorted (step s l).
Proof.
  intros s l W H _.
  assert (HK : K false true s).
  { split; [discriminate|]. intros _. split; [exact H|].
    intros u Hu. apply (I1_lt s (wf1 s W)). unfold regs. apply in_or_app; auto. }
  apply (K_step false true s l) in HK. destruct HK as [_ HR]. apply (HR eq_refl).
Qed.
