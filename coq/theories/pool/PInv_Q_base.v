(** Generic list / association-list facts used by the IR and IGr layers. *)
From TP Require Export PInv.
Set Implicit Arguments. Unset Strict Implicit.

Lemma upd_upd {A} (l : list A) n x y : upd (upd l n x) n y = upd l n y.
Proof. revert n; induction l as [|h t IH]; intros [|n]; simpl; auto. f_equal; auto. Qed.

Lemma nth_error_upd_same {A} (l : list A) n x y :
  nth_error l n = Some x -> nth_error (upd l n y) n = Some y.
Proof. intros H. apply nth_error_upd_eq. apply nth_error_Some. congruence. Qed.

Lemma upd_app_l {A} (l l2 : list A) n x :
  n < length l -> upd (l ++ l2) n x = upd l n x ++ l2.
Proof.
  revert n; induction l as [|h t IH]; intros [|n] H; simpl in *; try lia; auto.
  f_equal. apply IH. lia.
Qed.

Lemma Forall2_refl {A} (R : A -> A -> Prop) l : (forall x, R x x) -> Forall2 R l l.
Proof. intros H; induction l; constructor; auto. Qed.

Lemma Forall2_trans {A} (R : A -> A -> Prop) l1 l2 l3 :
  (forall x y z, R x y -> R y z -> R x z) ->
  Forall2 R l1 l2 -> Forall2 R l2 l3 -> Forall2 R l1 l3.
Proof.
  intros HT H; revert l3; induction H; intros l3 H3; inversion H3; subst; constructor; eauto.
Qed.

Lemma Forall2_nth_r {A} (R : A -> A -> Prop) l l' n y :
  Forall2 R l l' -> nth_error l' n = Some y -> exists x, nth_error l n = Some x /\ R x y.
Proof.
  intros H; revert n; induction H; intros [|n] Hn; simpl in *; try discriminate.
  - inversion Hn; subst; eauto.
  - eauto.
Qed.

Lemma Forall2_nth_l {A} (R : A -> A -> Prop) l l' n x :
  Forall2 R l l' -> nth_error l n = Some x -> exists y, nth_error l' n = Some y /\ R x y.
Proof.
  intros H; revert n; induction H; intros [|n] Hn; simpl in *; try discriminate.
  - inversion Hn; subst; eauto.
  - eauto.
Qed.

Lemma Forall2_upd_r {A} (R : A -> A -> Prop) l l' n y :
  Forall2 R l l' -> (forall x, nth_error l n = Some x -> R x y) -> Forall2 R l (upd l' n y).
Proof.
  intros H; revert n; induction H; intros [|n] Hn; simpl in *; constructor; auto.
Qed.

Lemma Forall2_upd_self {A} (R : A -> A -> Prop) l n y :
  (forall x, R x x) -> (forall x, nth_error l n = Some x -> R x y) -> Forall2 R l (upd l n y).
Proof. intros Hr H. apply Forall2_upd_r; auto. apply Forall2_refl; auto. Qed.

Lemma Forall2_map_r {A} (R : A -> A -> Prop) (f : A -> A) l :
  (forall x, R x (f x)) -> Forall2 R l (map f l).
Proof. intros H; induction l; simpl; constructor; auto. Qed.

Lemma count_Forall2 {A} (R : A -> A -> Prop) (p : A -> bool) l l' :
  Forall2 R l l' -> (forall x y, R x y -> p x = p y) -> count p l = count p l'.
Proof.
  intros H Hp; induction H; simpl; auto. rewrite (Hp _ _ H), IHForall2. auto.
Qed.

Lemma count_upd {A} (p : A -> bool) l n x y :
  nth_error l n = Some x ->
  count p (upd l n y) + (if p x then 1 else 0) = count p l + (if p y then 1 else 0).
Proof.
  revert n; induction l as [|h t IH]; intros [|n] H; simpl in *; try discriminate.
  - inversion H; subst. lia.
  - specialize (IH _ H). lia.
Qed.

Lemma count_upd_same {A} (p : A -> bool) l n x y :
  nth_error l n = Some x -> p x = p y -> count p (upd l n y) = count p l.
Proof. intros H E. pose proof (@count_upd _ p l n x y H). rewrite E in H0. lia. Qed.

Lemma count_zero {A} (p : A -> bool) l : (forall x, In x l -> p x = false) -> count p l = 0.
Proof.
  induction l as [|h t IH]; simpl; auto. intros H.
  rewrite (H h), IH; auto.
Qed.

Lemma count_pos_In {A} (p : A -> bool) l : 0 < count p l -> exists x, In x l /\ p x = true.
Proof.
  induction l as [|h t IH]; simpl; [lia|].
  destruct (p h) eqn:E; [eauto|]. intros H. destruct IH as [x [Hi Hx]]; [lia|]. eauto.
Qed.

(** ** Group names and association lists *)
Lemma gname_eqb_eq a b : gname_eqb a b = true <-> a = b.
Proof.
  destruct a, b; simpl; split; intros H; try discriminate; try congruence.
  - apply andb_true_iff in H. destruct H as [H1 H2].
    apply Nat.eqb_eq in H1, H2. congruence.
  - inversion H; subst. rewrite !Nat.eqb_refl. auto.
  - apply Nat.eqb_eq in H. congruence.
  - inversion H; subst. apply Nat.eqb_refl.
  - apply Nat.eqb_eq in H. congruence.
  - inversion H; subst. apply Nat.eqb_refl.
Qed.

Lemma gname_eqb_refl a : gname_eqb a a = true.
Proof. apply gname_eqb_eq; auto. Qed.

Lemma gname_eqb_spec a b : reflect (a = b) (gname_eqb a b).
Proof.
  destruct (gname_eqb a b) eqn:E; constructor.
  - apply gname_eqb_eq; auto.
  - intros H. apply gname_eqb_eq in H. congruence.
Qed.

Definition gcat (l : list (gname * list nat)) : list nat := concat (map snd l).

Lemma glookup_In g l v : glookup g l = Some v -> In (g, v) l.
Proof.
  induction l as [|[h w] t IH]; simpl; [discriminate|].
  destruct (gname_eqb_spec g h); intros H.
  - inversion H; subst; auto.
  - right; auto.
Qed.

Lemma glookup_None g l : glookup g l = None <-> ~ In g (map fst l).
Proof.
  induction l as [|[h w] t IH]; simpl; [tauto|].
  destruct (gname_eqb_spec g h).
  - subst. split; [discriminate|]. intros H. exfalso; auto.
  - rewrite IH. split; intros H; [intros [E|E]; auto | auto].
Qed.

Lemma In_glookup g v l : NoDup (map fst l) -> In (g, v) l -> glookup g l = Some v.
Proof.
  induction l as [|[h w] t IH]; simpl; [tauto|].
  intros Hnd [H|H].
  - inversion H; subst. rewrite gname_eqb_refl. auto.
  - inversion Hnd; subst. destruct (gname_eqb_spec g h).
    + subst. exfalso. apply H2. apply (in_map fst) in H. auto.
    + auto.
Qed.

Lemma glookup_gcat g l v t : glookup g l = Some v -> In t v -> In t (gcat l).
Proof.
  intros H Hi. apply glookup_In in H. unfold gcat. apply in_concat.
  exists v. split; auto. apply (in_map snd) in H. auto.
Qed.

Lemma gcat_glookup l t : In t (gcat l) -> exists g v, In (g, v) l /\ In t v.
Proof.
  unfold gcat. intros H. apply in_concat in H. destruct H as [v [Hv Ht]].
  apply in_map_iff in Hv. destruct Hv as [[g w] [E Hi]]. simpl in E; subst. eauto.
Qed.

Lemma ghas_true g l : ghas g l = true <-> exists v, glookup g l = Some v.
Proof.
  unfold ghas. destruct (glookup g l); split; intros H; eauto; try discriminate.
  destruct H; discriminate.
Qed.

Lemma ghas_false g l : ghas g l = false <-> glookup g l = None.
Proof. unfold ghas. destruct (glookup g l); split; intros H; auto; discriminate. Qed.

(** dict_add *)
Lemma In_dict_add l t u : In u (dict_add l t) <-> In u l \/ u = t.
Proof.
  unfold dict_add. destruct (mem t l) eqn:E.
  - apply mem_In in E. split; [auto|]. intros [H|H]; subst; auto.
  - rewrite in_app_iff. simpl. intuition.
Qed.

Lemma NoDup_snoc {A} (l : list A) t : NoDup l -> ~ In t l -> NoDup (l ++ [t]).
Proof.
  induction 1 as [|h r Hn Hnd IH]; simpl; intros Ht.
  - constructor; auto. constructor.
  - constructor.
    + rewrite in_app_iff. simpl. intros [E|[E|[]]]; auto.
    + apply IH. intros E. apply Ht. auto.
Qed.

Lemma NoDup_dict_add l t : NoDup l -> NoDup (dict_add l t).
Proof.
  unfold dict_add. destruct (mem t l) eqn:E; auto.
  apply mem_false_In in E. intros H. apply NoDup_snoc; auto.
Qed.

Lemma NoDup_app_iff {A} (l1 l2 : list A) :
  NoDup (l1 ++ l2) <-> NoDup l1 /\ NoDup l2 /\ (forall x, In x l1 -> ~ In x l2).
Proof.
  induction l1 as [|h t IH]; simpl.
  - split; [intros H; repeat split; auto; constructor | tauto].
  - split.
    + intros H. inversion H; subst. apply IH in H3. destruct H3 as [A1 [A2 A3]].
      rewrite in_app_iff in H2. repeat split; auto.
      * constructor; auto.
      * intros x [E|E]; subst; auto.
    + intros [A1 [A2 A3]]. inversion A1; subst. constructor.
      * rewrite in_app_iff. intros [E|E]; auto. apply (A3 h); auto.
      * apply IH. repeat split; auto.
Qed.

(** gadd *)
Lemma glookup_gadd g x l g' :
  glookup g' (gadd g x l) =
  if gname_eqb g' g
  then Some (match glookup g l with Some v => dict_add v x | None => [x] end)
  else glookup g' l.
Proof.
  induction l as [|[h w] t IH]; simpl.
  - destruct (gname_eqb g' g); auto.
  - destruct (gname_eqb_spec g h); simpl.
    + subst. destruct (gname_eqb_spec g' h); auto.
    + destruct (gname_eqb_spec g' h); auto.
      subst. destruct (gname_eqb_spec h g); auto. congruence.
Qed.

Lemma gadd_keys g x l :
  map fst (gadd g x l) = if ghas g l then map fst l else map fst l ++ [g].
Proof.
  unfold ghas. induction l as [|[h w] t IH]; simpl; auto.
  destruct (gname_eqb_spec g h); simpl; auto.
  rewrite IH. destruct (glookup g t); auto.
Qed.

Lemma NoDup_gadd_keys g x l : NoDup (map fst l) -> NoDup (map fst (gadd g x l)).
Proof.
  intros H. rewrite gadd_keys. destruct (ghas g l) eqn:E; auto.
  apply NoDup_snoc; auto. apply glookup_None. apply ghas_false; auto.
Qed.

Lemma In_gcat_gadd g x l u : In u (gcat (gadd g x l)) <-> u = x \/ In u (gcat l).
Proof.
  unfold gcat. induction l as [|[h w] t IH]; simpl.
  - intuition.
  - destruct (gname_eqb_spec g h); simpl; rewrite !in_app_iff.
    + rewrite In_dict_add. intuition.
    + rewrite IH. intuition.
Qed.

Lemma NoDup_gcat_gadd g x l : NoDup (gcat l) -> ~ In x (gcat l) -> NoDup (gcat (gadd g x l)).
Proof.
  unfold gcat. induction l as [|[h w] t IH]; simpl; intros Hnd Hx.
  - constructor; auto.
  - apply NoDup_app_iff in Hnd. destruct Hnd as [A1 [A2 A3]].
    rewrite in_app_iff in Hx.
    destruct (gname_eqb_spec g h); simpl; apply NoDup_app_iff.
    + repeat split; auto.
      * apply NoDup_dict_add; auto.
      * intros u Hu. apply In_dict_add in Hu. destruct Hu as [Hu|Hu]; subst; auto.
    + repeat split; auto.
      intros u Hu Hc. apply (In_gcat_gadd g x t u) in Hc. destruct Hc as [Hc|Hc].
      * subst. auto.
      * apply (A3 u); auto.
Qed.

(** gremove *)
Lemma gremove_keys_incl g l h : In h (map fst (gremove g l)) -> In h (map fst l).
Proof.
  induction l as [|[k w] t IH]; simpl; auto.
  destruct (gname_eqb g k); simpl; intuition.
Qed.

Lemma NoDup_gremove_keys g l : NoDup (map fst l) -> NoDup (map fst (gremove g l)).
Proof.
  induction l as [|[k w] t IH]; simpl; auto. intros H. inversion H; subst.
  destruct (gname_eqb g k); simpl; auto. constructor; auto.
  intros Hc. apply H2. eapply gremove_keys_incl; eauto.
Qed.

Lemma glookup_gremove g l g' :
  NoDup (map fst l) ->
  glookup g' (gremove g l) = if gname_eqb g' g then None else glookup g' l.
Proof.
  induction l as [|[k w] t IH]; simpl; intros Hnd.
  - destruct (gname_eqb g' g); auto.
  - inversion Hnd; subst. destruct (gname_eqb_spec g k); simpl.
    + subst. destruct (gname_eqb_spec g' k); auto.
      subst. apply glookup_None; auto.
    + destruct (gname_eqb_spec g' k); auto.
      subst. destruct (gname_eqb_spec k g); auto. congruence.
Qed.

Lemma In_gcat_gremove g l u : In u (gcat (gremove g l)) -> In u (gcat l).
Proof.
  unfold gcat. induction l as [|[k w] t IH]; simpl; auto.
  destruct (gname_eqb g k); simpl; rewrite !in_app_iff; intuition.
Qed.

Lemma NoDup_gcat_gremove g l : NoDup (gcat l) -> NoDup (gcat (gremove g l)).
Proof.
  unfold gcat. induction l as [|[k w] t IH]; simpl; auto. intros H.
  apply NoDup_app_iff in H. destruct H as [A1 [A2 A3]].
  destruct (gname_eqb g k); simpl; auto.
  apply NoDup_app_iff. repeat split; auto.
  intros u Hu Hc. apply (A3 u Hu). apply (@In_gcat_gremove g t u). auto.
Qed.

(** gensure *)
Lemma gensure_new g l : ghas g l = false -> gensure g l = l ++ [(g, [])].
Proof. unfold gensure, ghas. destruct (glookup g l); auto; discriminate. Qed.

Lemma gensure_old g l : ghas g l = true -> gensure g l = l.
Proof. unfold gensure, ghas. destruct (glookup g l); auto; discriminate. Qed.

Lemma glookup_app g l1 l2 :
  glookup g (l1 ++ l2) = match glookup g l1 with Some v => Some v | None => glookup g l2 end.
Proof.
  induction l1 as [|[k w] t IH]; simpl; auto. destruct (gname_eqb g k); auto.
Qed.

Lemma gcat_app l1 l2 : gcat (l1 ++ l2) = gcat l1 ++ gcat l2.
Proof. unfold gcat. rewrite map_app, concat_app. auto. Qed.

Lemma gensure_keys_nodup g l : NoDup (map fst l) -> NoDup (map fst (gensure g l)).
Proof.
  intros H. unfold gensure. destruct (glookup g l) eqn:E; auto.
  rewrite map_app. simpl. apply NoDup_snoc; auto. apply glookup_None; auto.
Qed.

Lemma gcat_gensure g l : gcat (gensure g l) = gcat l.
Proof.
  unfold gensure. destruct (glookup g l); auto.
  rewrite gcat_app. unfold gcat at 2. simpl. apply app_nil_r.
Qed.

Lemma glookup_gensure_mono g l g' v :
  glookup g' l = Some v -> glookup g' (gensure g l) = Some v.
Proof.
  intros H. unfold gensure. destruct (glookup g l); auto.
  rewrite glookup_app, H. auto.
Qed.

Lemma glookup_gensure_inv g l g' v :
  glookup g' (gensure g l) = Some v -> glookup g' l = Some v \/ v = [].
Proof.
  unfold gensure. destruct (glookup g l); auto.
  rewrite glookup_app. destruct (glookup g' l); auto.
  simpl. destruct (gname_eqb g' g); [|discriminate]. intros H; inversion H; auto.
Qed.

Lemma ghas_gensure_self g l : ghas g (gensure g l) = true.
Proof.
  unfold ghas, gensure. destruct (glookup g l) eqn:E; [rewrite E; auto|].
  rewrite glookup_app, E. simpl. rewrite gname_eqb_refl. auto.
Qed.

Lemma ghas_gensure_mono g l g' : ghas g' l = true -> ghas g' (gensure g l) = true.
Proof.
  intros H. apply ghas_true in H. destruct H as [v H]. apply ghas_true. exists v.
  apply glookup_gensure_mono; auto.
Qed.
