(** Assembly: per label kind. *)
From TP Require Export PInv_G_B.

Definition reset (s : state) : state := set_res (set_evs s []) RNone.

Lemma WF_reset s : WF s -> WF (reset s).
Proof.
  intros [A1 A2 A3 A4 A5 A6 A7 A8 A9 A10]. unfold reset. constructor.
  - destruct A1; constructor; assumption.
  - destruct A2; constructor; assumption.
  - destruct A3; constructor; assumption.
  - destruct A4; constructor; assumption.
  - destruct A5; constructor; assumption.
  - destruct A6; constructor; assumption.
  - destruct A7; constructor; assumption.
  - destruct A8; constructor; assumption.
  - destruct A9; constructor; assumption.
  - destruct A10; constructor; assumption.
Qed.

Lemma Extra_reset s : Extra_G s -> Extra_G (reset s).
Proof. intros A. unfold reset. destruct A; constructor; assumption. Qed.

Definition INV (s : state) : Prop := IM s /\ IG s /\ Extra_G s.

Lemma INV_reset s : WF s -> Extra_G s -> INV (reset s).
Proof.
  intros W X. apply WF_reset in W. apply Extra_reset in X.
  split; [apply (wfm _ W)|split; [apply (wfg _ W)|exact X]].
Qed.

Lemma pres_relA s s' : WF s -> Extra_G s -> relA s s' -> INV s'.
Proof.
  intros W X [R Rg Rc]. apply (pres_rel None s s' W X R).
  - intros k x' E. discriminate.
  - intros Hs. split; auto. intros k Hk. apply Rc in Hk. revert Hk. apply (X_nouser _ X). exact Hs.
Qed.

Lemma unsched_ht_relA s r : relA s (unsched s (HT r)).
Proof.
  apply relA_neutral; try reflexivity.
  - intros d c. rewrite unsched_ready_In. split; [tauto|]. intros H. split; auto. discriminate.
  - intros k H. exact H.
Qed.

(** *** LRun (HT (TP t)) *)
Lemma step_run_p s t : WF s -> Extra_G s -> INV (run_p (unsched s (HT (TP t))) t).
Proof.
  intros W X. apply (pres_relA s _ W X).
  eapply relA_trans; [apply unsched_ht_relA|]. apply run_p_relA.
  intros x Hx Hpc. change (get_p s t = Some x) in Hx.
  destruct (p_final x) eqn:E; auto. exfalso. apply Hpc.
  apply (I2_final _ (wf2 _ W) t x Hx). congruence.
Qed.

(** *** LGo, pool task *)
Lemma step_continue_p s t : WF s -> Extra_G s -> INV (continue_p s t).
Proof.
  intros W X. apply (pres_relA s _ W X). apply continue_p_relA.
  intros x Hx Hpc. destruct (p_final x) eqn:E; auto. exfalso. apply Hpc.
  apply (I2_final _ (wf2 _ W) t x Hx). congruence.
Qed.

(** *** spawners *)
Lemma task_input_cancel x :
  m_mc x = true \/ fut_cancelled (m_fw x) -> task_input (m_mc x) (m_fw x) <> InOk.
Proof.
  unfold task_input, fut_cancelled. intros [H|H]; rewrite H; [discriminate|].
  destruct (m_mc x); discriminate.
Qed.

Lemma rest_ok_of s m x : WF s -> Extra_G s -> get_m s m = Some x -> rest_ok x.
Proof.
  intros W X H. split.
  - apply (X_dead _ X m x H).
  - apply (IM_holds _ (wfm _ W) m x H).
Qed.

Lemma sealed_dead s m x :
  WF s -> Extra_G s -> sealed s -> get_m s m = Some x -> m_final x = None -> m_dead x = true.
Proof.
  intros W X [Hc|[d [y [re [H1 [H2 H3]]]]]] H F.
  - eapply (X_closed _ X); eauto.
  - destruct (IG_gac2 _ (wfg _ W) d y re H1 H2 H3) as [_ [B _]]. eapply B; eauto.
Qed.

Lemma run_m_none s m : get_m s m = None -> run_m s m = s.
Proof. unfold run_m. intros ->. reflexivity. Qed.

Lemma run_m_done s m x : get_m s m = Some x -> m_pc x = MDone -> run_m s m = s.
Proof. unfold run_m. intros -> ->. reflexivity. Qed.

Lemma step_run_m s m : WF s -> Extra_G s -> INV (run_m (unsched s (HT (TM m))) m).
Proof.
  intros W X. set (s1 := unsched s (HT (TM m))).
  assert (R1 : relA s s1) by apply unsched_ht_relA.
  assert (GM : forall k, get_m s1 k = get_m s k) by reflexivity.
  destruct (run_m_B m s1) as [[RB PB] CP].
  - intros x. rewrite GM. intros Hx Hpc. destruct (m_final x) eqn:E; auto. exfalso. apply Hpc.
    apply (I5_mfinal _ (wf5 _ W) m x Hx). congruence.
  - intros x. rewrite GM. apply rest_ok_of; auto.
  - intros x. rewrite GM. intros Hx F TI. split.
    + destruct (m_dead x) eqn:D; auto. exfalso.
      apply (task_input_cancel x (X_dead _ X m x Hx D F)). exact TI.
    + change (closed s1) with (closed s). destruct (closed s) eqn:C; auto. exfalso.
      pose proof (X_closed _ X C m x Hx F) as D.
      apply (task_input_cancel x (X_dead _ X m x Hx D F)). exact TI.
  - apply (pres_rel (Some m) s _ W X).
    + eapply rel_trans; [apply rel_weaken, (a_rel _ _ R1)|exact RB].
    + apply self_ok_post. exact PB.
    + intros Hs. pose proof (X_nouser _ X Hs) as NU.
      assert (CP' : cancel_path s1 (run_m s1 m)).
      { destruct (get_m s m) as [x|] eqn:G.
        - destruct (m_final x) eqn:F.
          + rewrite (run_m_done s1 m x); [split; [intros t Ht; exact Ht|auto]|exact G|].
            apply (I5_mfinal _ (wf5 _ W) m x G). congruence.
          + apply (CP x G). apply task_input_cancel. apply (X_dead _ X m x G); auto.
            eapply sealed_dead; eauto.
        - rewrite run_m_none; [split; [intros t Ht; exact Ht|auto]|exact G]. }
      destruct CP' as [Rg [Hc|Hc]]; split; auto.
      * intros k. rewrite Hc. discriminate.
      * rewrite Hc. exact NU.
Qed.

Lemma step_continue_m s m : WF s -> Extra_G s -> ctl s = CUser (TM m) -> INV (continue_m s m).
Proof.
  intros W X Hctl.
  assert (NS : ~ sealed s) by (intros Hs; apply (X_nouser _ X Hs m); exact Hctl).
  destruct (continue_m_B m s) as [RB PB].
  - intros x Hx Hpc. assert (F : m_final x = None).
    { destruct (m_final x) eqn:E; auto. exfalso.
      assert (m_pc x = MDone) by (apply (I5_mfinal _ (wf5 _ W) m x Hx); congruence). congruence. }
    split; auto. split.
    + intros D. destruct (X_dead _ X m x Hx D F) as [A|A]; auto. exfalso.
      assert (Hfw : m_fw x <> None) by (unfold fut_cancelled in A; congruence).
      apply (I5_mfw _ (wf5 _ W) m x Hx) in Hfw. destruct Hfw; congruence.
    + destruct (m_holds x) eqn:E; auto.
      apply (IM_holds _ (wfm _ W) m x Hx) in E. congruence.
  - destruct (closed s) eqn:C; auto. exfalso. apply NS. left. exact C.
  - intros x Hx. eapply rest_ok_of; eauto.
  - apply (pres_rel (Some m) s _ W X RB).
    + apply self_ok_post. exact PB.
    + intros Hs. tauto.
Qed.
