(** Erasure commutes with the spawners. *)
From TP Require Export PNonInt_sem.

Local Notation E := erase_state.

Lemma erase_default_w : erase_w default_w = default_w.
Proof. reflexivity. Qed.

Lemma E_elem_w x : elem_w (erase_mtask x) = erase_w (elem_w x).
Proof.
  unfold elem_w. autorewrite with er. destruct (m_kind x); auto.
  rewrite nth_error_map. destruct (nth_error (m_els x) (m_idx x)); reflexivity.
Qed.

Lemma E_is_map x : is_map (erase_mtask x) = is_map x.
Proof. reflexivity. Qed.

#[export] Hint Rewrite E_elem_w E_is_map : er.

Lemma E_register s m x : E (register s m x) = register (E s) m (erase_mtask x).
Proof.
  unfold register. autorewrite with er. rewrite map_app. reflexivity.
Qed.

#[export] Hint Rewrite E_register : er.

Lemma E_try_start s m x :
  E (fst (try_start s m x)) = fst (try_start (E s) m (erase_mtask x)) /\
  snd (try_start s m x) = snd (try_start (E s) m (erase_mtask x)).
Proof.
  unfold try_start. autorewrite with er.
  destruct (closed s); [split; cbn [fst snd]; autorewrite with er; reflexivity|].
  destruct (sem_locked s); split; cbn [fst snd]; autorewrite with er; reflexivity.
Qed.

Lemma E_apply_loop rem : forall s m, E (apply_loop rem s m) = apply_loop rem (E s) m.
Proof.
  induction rem as [|r IH]; intros s m; simpl; autorewrite with er;
    destruct (get_m s m) as [x|]; simpl option_map; cbv iota; auto.
  - autorewrite with er. reflexivity.
  - autorewrite with er. destruct (nth (m_idx x) (m_bad x) false).
    + rewrite IH. autorewrite with er. reflexivity.
    + destruct (E_try_start s m x) as [H1 H2].
      destruct (try_start s m x) as [s' c], (try_start (E s) m (erase_mtask x)) as [s'' c'].
      cbn [fst snd] in *. subst c' s''. destruct c; auto.
Qed.

Lemma E_to_iter s m : E (to_iter s m) = to_iter (E s) m.
Proof.
  unfold to_iter. autorewrite with er.
  destruct (get_m s m) as [x|]; simpl option_map; cbv iota; auto.
  autorewrite with er. reflexivity.
Qed.

Lemma E_spawn_next s m : E (spawn_next s m) = spawn_next (E s) m.
Proof.
  unfold spawn_next. autorewrite with er.
  destruct (get_m s m) as [x|]; simpl option_map; cbv iota; auto.
  autorewrite with er. destruct (m_kind x); try apply E_apply_loop. apply E_to_iter.
Qed.

Lemma E_start_then_next s m x :
  E (start_then_next s m x) = start_then_next (E s) m (erase_mtask x).
Proof.
  unfold start_then_next.
  destruct (E_try_start s m x) as [H1 H2].
  destruct (try_start s m x) as [s' c], (try_start (E s) m (erase_mtask x)) as [s'' c'].
  cbn [fst snd] in *. subst c' s''. destruct c; auto. apply E_spawn_next.
Qed.

#[export] Hint Rewrite E_to_iter E_spawn_next E_start_then_next : er.

Lemma E_continue_m s m : E (continue_m s m) = continue_m (E s) m.
Proof.
  unfold continue_m. autorewrite with er.
  destruct (get_m s m) as [x|]; simpl option_map; cbv iota; auto.
  autorewrite with er. destruct (m_pc x); auto.
  rewrite nth_error_map.
  destruct (nth_error (m_els x) (m_idx x)) as [e|]; simpl option_map; cbv iota.
  - change (e_bad (erase_elem e)) with (e_bad e). destruct (e_bad e).
    + autorewrite with er. reflexivity.
    + destruct (m_mapval x); autorewrite with er; reflexivity.
  - autorewrite with er. reflexivity.
Qed.

Lemma E_run_m s m : E (run_m s m) = run_m (E s) m.
Proof.
  unfold run_m. autorewrite with er.
  destruct (get_m s m) as [x0|]; simpl option_map; cbv iota; auto.
  autorewrite with er.
  destruct (m_pc x0); auto.
  - destruct (task_input (m_mc x0) (m_fw x0)); autorewrite with er; reflexivity.
  - destruct (task_input (m_mc x0) (m_fw x0)); autorewrite with er; try reflexivity;
      destruct (m_fw x0) as [[]|]; autorewrite with er; reflexivity.
  - destruct (task_input (m_mc x0) (m_fw x0)).
    + set (s1 := put_m (set_sem_waiters s (remove1 m (sem_waiters s))) m
                     (set_m_mc (set_m_fw x0 None) false)).
      assert (H1 : put_m (set_sem_waiters (E s) (remove1 m (sem_waiters s))) m
                         (set_m_mc (set_m_fw (erase_mtask x0) None) false) = E s1)
        by (unfold s1; autorewrite with er; reflexivity).
      rewrite H1. clearbody s1. rewrite Ep_sem_value.
      destruct (ninf_pos (sem_value s1)); autorewrite with er; reflexivity.
    + simpl (m_holds _).
      destruct (m_fw x0) as [[]|]; destruct (m_holds x0); autorewrite with er; reflexivity.
    + simpl (m_holds _).
      destruct (m_fw x0) as [[]|]; destruct (m_holds x0); autorewrite with er; reflexivity.
Qed.
