(** Monitor soundness, C04 / C05 — the tracker side (pure facts about PMon.v):
    how the parts of the tracker these properties read evolve, and which clauses of
    properties 4 and 5 one monitor step can produce. *)
From TP Require Import PMon PMonSound_trk.

(** ** the view: live workers, callbacks in flight, task table *)
Definition view5 := (list nat * list (nat * cbkind) * list (nat * (nat * nat)))%type.

Definition v_live (V : view5) := fst (fst V).
Definition v_cbs (V : view5) := snd (fst V).
Definition v_task (V : view5) := snd V.

Definition tview5 (k : trk) : view5 := (k_live k, k_cbs k, k_task k).

Definition vev5 (n : nat) (V : view5) (e : event) : view5 :=
  match e with
  | EvStart t r el =>
      if Nat.ltb r n then (t :: v_live V, v_cbs V, (t, (r, el)) :: v_task V) else V
  | EvExit t => (removeall t (v_live V), v_cbs V, v_task V)
  | EvCbBegin kd t _ => (v_live V, (t, kd) :: v_cbs V, v_task V)
  | EvCbEnd kd t _ => (v_live V, del_cb (v_cbs V) t kd, v_task V)
  | EvCbInterrupted kd t => (v_live V, del_cb (v_cbs V) t kd, v_task V)
  | _ => V
  end.

Lemma on_event_view5 k o e :
  tview5 (fst (on_event k o e)) = vev5 (length (k_reqs k)) (tview5 k) e /\
  length (k_reqs (fst (on_event k o e))) = length (k_reqs k).
Proof.
  destruct e as [t r el|t|t|kd t cl|kd t raised|kd t|r n|d oc];
    unfold on_event, tview5, vev5, v_live, v_cbs, v_task.
  - pose proof (nth_error_ltb (k_reqs k) r) as Hl.
    destruct (nth_error (k_reqs k) r) as [x|]; rewrite Hl; cbn.
    + rewrite upd_length. auto.
    + auto.
  - cbn. auto.
  - cbn. auto.
  - destruct kd; cbn; auto.
  - cbn. auto.
  - cbn. auto.
  - destruct (nth_error (k_reqs k) r) as [x|]; cbn; auto.
    rewrite upd_length. auto.
  - destruct (nth_error (k_drvs k) d) as [v|]; cbn; auto.
    destruct (v_kind v); destruct oc; cbn; auto;
      try (destruct (k_prev k) as [p|]; cbn; auto).
Qed.

Lemma on_events_view5 es : forall k o,
  tview5 (fst (on_events k o es)) = fold_left (vev5 (length (k_reqs k))) es (tview5 k) /\
  length (k_reqs (fst (on_events k o es))) = length (k_reqs k).
Proof.
  induction es as [|e es IH]; intros k o; simpl; auto.
  destruct (on_event k o e) as [k1 c1] eqn:H1.
  pose proof (on_event_view5 k o e) as (A1 & A2). rewrite H1 in A1, A2. simpl in *.
  destruct (on_events k1 o es) as [k2 c2] eqn:H2.
  pose proof (IH k1 o) as (B1 & B2). rewrite H2 in B1, B2. simpl in *.
  rewrite B1, B2, A1, A2. auto.
Qed.

Lemma note_raising_same5 es : forall k,
  tview5 (note_raising_starts k es) = tview5 k /\
  k_reqs (note_raising_starts k es) = k_reqs k.
Proof.
  unfold note_raising_starts.
  induction es as [|e es IH]; intros k; simpl; auto.
  match goal with |- context [fold_left ?f es ?k1] =>
    destruct (IH k1) as [A B]; unfold tview5 in *; rewrite A, B end.
  destruct e; auto.
  destruct (req_of k tid) as [[[r0 el0] x0]|]; auto.
  destruct (w_first _); auto.
Qed.

(** ** on_label leaves the view alone *)
Lemma on_spawn_view5 k o first noncoro nc_bad g meth mk :
  (forall n, tview5 (mk n) = tview5 k) ->
  tview5 (fst (on_spawn k o first noncoro nc_bad g meth mk)) = tview5 k.
Proof. intros Hmk. unfold on_spawn. destruct (o_res o); cbn; auto. Qed.

Lemma on_label_view5 c k o : tview5 (fst (on_label c k o)) = tview5 k.
Proof.
  unfold on_label. destruct (negb (o_enabled o)); [reflexivity|].
  destruct (o_label o) as [h| |op]; try reflexivity.
  destruct op; try reflexivity;
    try (apply on_spawn_view5; intros; reflexivity);
    try (destruct (o_res o); reflexivity).
  - match goal with |- context [on_spawn ?a ?b ?c ?d ?e ?f ?g ?h] =>
      pose proof (on_spawn_view5 a b c d e f g h) as Hs;
      destruct (on_spawn a b c d e f g h) as [k1 cs] end.
    simpl in Hs. rewrite <- Hs by (intros; reflexivity).
    destruct (o_res o); reflexivity.
  - destruct v; reflexivity.
  - destruct k0; reflexivity.
  - destruct h; reflexivity.
Qed.

(** ** the request table *)
Definition req_start (x : req) (el : nat) : req :=
  {| r_kind := r_kind x; r_num := r_num x; r_bad := r_bad x; r_els := r_els x;
     r_nc := r_nc x; r_w := r_w x; r_ecb := r_ecb x; r_ccb := r_ccb x;
     r_group := r_group x; r_dead := r_dead x;
     r_started := el :: r_started x; r_pulls := r_pulls x;
     r_before_gac := r_before_gac x |}.

Definition req_pull (x : req) : req :=
  {| r_kind := r_kind x; r_num := r_num x; r_bad := r_bad x; r_els := r_els x;
     r_nc := r_nc x; r_w := r_w x; r_ecb := r_ecb x; r_ccb := r_ccb x;
     r_group := r_group x; r_dead := r_dead x; r_started := r_started x;
     r_pulls := S (r_pulls x); r_before_gac := r_before_gac x |}.

Definition req_kill (x : req) : req :=
  {| r_kind := r_kind x; r_num := r_num x; r_bad := r_bad x; r_els := r_els x;
     r_nc := r_nc x; r_w := r_w x; r_ecb := r_ecb x; r_ccb := r_ccb x;
     r_group := r_group x; r_dead := true; r_started := r_started x;
     r_pulls := r_pulls x; r_before_gac := r_before_gac x |}.

Definition mk_req kind num bad els nc w ecb ccb g b : req :=
  {| r_kind := kind; r_num := num; r_bad := bad; r_els := els; r_nc := nc; r_w := w;
     r_ecb := ecb; r_ccb := ccb; r_group := g; r_dead := false; r_started := [];
     r_pulls := 0; r_before_gac := b |}.

Definition rq_ev (rs : list req) (e : event) : list req :=
  match e with
  | EvStart t r el =>
      match nth_error rs r with Some x => upd rs r (req_start x el) | None => rs end
  | EvPull r n =>
      match nth_error rs r with Some x => upd rs r (req_pull x) | None => rs end
  | _ => rs
  end.

Lemma on_event_reqs k o e : k_reqs (fst (on_event k o e)) = rq_ev (k_reqs k) e.
Proof.
  destruct e as [t r el|t|t|kd t cl|kd t raised|kd t|r n|d oc]; unfold on_event, rq_ev;
    try reflexivity.
  - destruct (nth_error (k_reqs k) r) as [x|]; reflexivity.
  - destruct kd; reflexivity.
  - destruct (nth_error (k_reqs k) r) as [x|]; reflexivity.
  - destruct (nth_error (k_drvs k) d) as [v|]; [|reflexivity].
    destruct (v_kind v); destruct oc; try reflexivity;
      destruct (k_prev k) as [p|]; reflexivity.
Qed.

Lemma on_events_reqs es : forall k o,
  k_reqs (fst (on_events k o es)) = fold_left rq_ev es (k_reqs k).
Proof.
  induction es as [|e es IH]; intros k o; simpl; auto.
  pose proof (on_event_reqs k o e) as A. destruct (on_event k o e) as [k1 c1]. simpl in A.
  pose proof (IH k1 o) as B. destruct (on_events k1 o es) as [k2 c2]. simpl in *.
  rewrite B, A. reflexivity.
Qed.

Definition lab_reqs (c : config) (rs : list req) (b : bool) (o : obs) : list req :=
  if negb (o_enabled o) then rs else
  match o_label o with
  | LOp (OpApply num bad noncoro w ecb ccb g) =>
      match o_res o with
      | RName n => rs ++ [mk_req MApply num bad [] 0 w ecb ccb n b]
      | _ => rs end
  | LOp (OpMap stars els nc noncoro ecb ccb g) =>
      match o_res o with
      | RName n => rs ++ [mk_req (MMap stars) 0 [] els nc default_w ecb ccb n b]
      | _ => rs end
  | LOp (OpStart num) =>
      match o_res o with
      | RName n => rs ++ [mk_req MStart num (cf_bad c) [] 0 (cf_w c) (cf_ecb c) (cf_ccb c) n b]
      | _ => rs end
  | LOp (OpCancelGroup g) =>
      match o_res o with
      | RNone => map (fun x => if gname_eqb g (r_group x) then req_kill x else x) rs
      | _ => rs end
  | LOp OpCancelAll => map req_kill rs
  | _ => rs
  end.

Lemma on_label_reqs c k o :
  k_reqs (fst (on_label c k o)) = lab_reqs c (k_reqs k) (negb (k_gac_req k)) o.
Proof.
  unfold on_label, lab_reqs. destruct (negb (o_enabled o)); [reflexivity|].
  destruct (o_label o) as [h| |op]; try reflexivity.
  destruct op; try reflexivity;
    try (unfold on_spawn; destruct (o_res o); reflexivity).
  - destruct v; reflexivity.
  - destruct k0; reflexivity.
  - destruct h; reflexivity.
Qed.

(** ** clauses of properties 4 and 5 *)
Definition N45 (l : list clause) : Prop :=
  Forall (fun cl => clause_prop cl <> 4 /\ clause_prop cl <> 5) l.

Lemma N45_nil : N45 [].
Proof. constructor. Qed.
Lemma N45_app a b : N45 a -> N45 b -> N45 (a ++ b).
Proof. intros. apply Forall_app. auto. Qed.
Lemma N45_fails b c : clause_prop c <> 4 -> clause_prop c <> 5 -> N45 (fails b c).
Proof. intros H1 H2. unfold fails. destruct b; constructor; auto. Qed.
Lemma N45_fails_true b c : b = true -> N45 (fails b c).
Proof. intros ->. constructor. Qed.
Lemma N45_one c : clause_prop c <> 4 -> clause_prop c <> 5 -> N45 [c].
Proof. intros H1 H2. constructor; auto. Qed.
Lemma N45_filter f l : N45 l -> N45 (filter f l).
Proof.
  unfold N45. rewrite !Forall_forall. intros H x Hx. apply filter_In in Hx. apply H. tauto.
Qed.
Lemma N45_flat_map {A} (f : A -> list clause) l :
  (forall a, In a l -> N45 (f a)) -> N45 (flat_map f l).
Proof.
  intros H. induction l as [|a l IH]; simpl; [apply N45_nil|].
  apply N45_app; [apply H; left; auto|apply IH; intros; apply H; right; auto].
Qed.

Lemma N45_filter_nil pid l :
  pid = 4 \/ pid = 5 -> N45 l -> filter (fun cl => Nat.eqb (clause_prop cl) pid) l = [].
Proof.
  intros Hp. induction 1 as [|c l [H4 H5] Hl IH]; simpl; auto.
  destruct (Nat.eqb_spec (clause_prop c) pid); [|exact IH].
  destruct Hp; congruence.
Qed.

Ltac n45 :=
  repeat first
    [ apply N45_nil
    | apply N45_app
    | apply N45_fails; discriminate
    | apply N45_one; discriminate
    | apply N45_filter ].

Definition elem_ok (x : req) (el : nat) : bool :=
  match r_kind x with
  | MMap _ =>
      match nth_error (r_els x) el with
      | Some e => negb (e_bad e) && Nat.ltb el (r_pulls x)
      | None => false
      end
  | _ => Nat.ltb el (r_num x) && negb (nth el (r_bad x) false)
  end.

Definition start_ok (rs : list req) (r el : nat) : bool :=
  match nth_error rs r with
  | None => false
  | Some x => negb (mem el (r_started x)) && elem_ok x el
  end.

Definition lazy_ok (x : req) (o : obs) (n : nat) : bool :=
  match group_ids o (r_group x) with
  | Some ids => if r_dead x then true else Nat.eqb (length ids + count_bad (r_els x) n) n
  | None => true
  end.

Definition pull_ok (rs : list req) (o : obs) (r n : nat) : bool :=
  match nth_error rs r with
  | None => false
  | Some x => Nat.eqb n (r_pulls x) && Nat.leb n (length (r_els x)) && lazy_ok x o n
  end.

Definition ev_ok45 (rs : list req) (o : obs) (e : event) : bool :=
  match e with
  | EvStart t r el => start_ok rs r el
  | EvPull r n => pull_ok rs o r n
  | _ => true
  end.

Lemma N45_on_event k o e : ev_ok45 (k_reqs k) o e = true -> N45 (snd (on_event k o e)).
Proof.
  destruct e as [t r el|t|t|kd t cl|kd t raised|kd t|r n|d oc]; unfold on_event, ev_ok45.
  - unfold start_ok. destruct (nth_error (k_reqs k) r) as [x|]; [|discriminate].
    intros H. cbn [snd]. fold (elem_ok x el). n45. apply N45_fails_true. exact H.
  - intros _. cbn [snd]. n45.
  - intros _. cbn [snd]. n45.
  - intros _. destruct kd; cbn [snd]; n45.
  - intros _. cbn [snd]. n45.
  - intros _. cbn [snd]. n45.
  - unfold pull_ok. destruct (nth_error (k_reqs k) r) as [x|]; [|discriminate].
    intros H. apply andb_true_iff in H. destruct H as [H1 H2]. cbn [snd]. fold (lazy_ok x o n).
    n45; apply N45_fails_true; auto.
  - intros _. destruct (nth_error (k_drvs k) d) as [v|]; cbn [snd]; [|n45].
    destruct (v_kind v); destruct oc; cbn [snd]; try (destruct (k_prev k) as [p|]; cbn [snd]); n45.
Qed.

Fixpoint evs_ok45 (rs : list req) (o : obs) (es : list event) : bool :=
  match es with
  | [] => true
  | e :: t => ev_ok45 rs o e && evs_ok45 (rq_ev rs e) o t
  end.

Lemma N45_on_events es : forall k o,
  evs_ok45 (k_reqs k) o es = true -> N45 (snd (on_events k o es)).
Proof.
  induction es as [|e es IH]; intros k o H; simpl; [apply N45_nil|].
  simpl in H. apply andb_true_iff in H. destruct H as [H1 H2].
  pose proof (N45_on_event k o e H1) as A. pose proof (on_event_reqs k o e) as B.
  destruct (on_event k o e) as [k1 c1]. simpl in A, B. rewrite <- B in H2.
  pose proof (IH k1 o H2) as C. destruct (on_events k1 o es) as [k2 c2]. simpl in *.
  apply N45_app; auto.
Qed.

Lemma N45_on_spawn k o first noncoro nc_bad g meth mk :
  N45 (snd (on_spawn k o first noncoro nc_bad g meth mk)).
Proof. unfold on_spawn. destruct (o_res o); cbn [snd]; n45. Qed.

Lemma N45_on_label c k o : N45 (snd (on_label c k o)).
Proof.
  unfold on_label. destruct (negb (o_enabled o)); [apply N45_nil|].
  destruct (o_label o) as [h| |op]; try apply N45_nil.
  destruct op; try (cbn [snd]; n45; fail).
  - apply N45_on_spawn.
  - apply N45_on_spawn.
  - match goal with |- context [on_spawn ?a ?b ?c ?d ?e ?f ?g ?h] =>
      pose proof (N45_on_spawn a b c d e f g h) as Hs;
      destruct (on_spawn a b c d e f g h) as [k1 cs] end.
    simpl in Hs. destruct (o_res o); cbn [snd]; auto. n45. exact Hs.
  - destruct (o_res o); cbn [snd]; n45.
  - destruct (o_res o); cbn [snd]; n45.
  - destruct (o_res o); cbn [snd]; n45.
  - destruct (o_res o); cbn [snd]; n45.
  - destruct v; cbn [snd]; n45.
Qed.

(** ** the per-request state clauses *)
Definition req_cl (k : trk) (o : obs) (r : nat) (x : req) : list clause :=
  let q := quiet k o in
  let created := match group_ids o (r_group x) with Some ids => Some (length ids)
                                                | None => None end in
  match r_kind x with
  | MMap _ =>
      fails (Nat.leb (live_of_req k r) (r_nc x)) C05_bound
      ++ fails (negb q || r_dead x || o_full o || k_closed k
                || Nat.ltb (length (r_els x)) (r_pulls x)
                || Nat.eqb (live_of_req k r) (r_nc x)) C05_work_conserving
  | _ =>
      match created with
      | Some n =>
          if r_dead x then [] else
          fails (Nat.leb n (PMon.expected_created x)) C04_at_most_num
          ++ fails (negb q || o_full o || Nat.eqb n (PMon.expected_created x))
                   C04_idle_progress
      | None => []
      end
  end.

Lemma In_combine_seq {A} (l : list A) : forall a r x,
  In (r, x) (combine (seq a (length l)) l) -> a <= r /\ nth_error l (r - a) = Some x.
Proof.
  induction l as [|h t IH]; intros a r x H; simpl in H; [destruct H|].
  destruct H as [H|H].
  - inversion H; subst. rewrite Nat.sub_diag. auto.
  - apply IH in H. destruct H as [H1 H2]. split; [lia|].
    replace (r - a) with (S (r - S a)) by lia. exact H2.
Qed.

Lemma state_clauses_45 c k o :
  (forall r x, nth_error (k_reqs k) r = Some x -> req_cl k o r x = []) ->
  N45 (state_clauses c k o).
Proof.
  intros H. unfold state_clauses. cbv zeta. n45.
  - destruct (negb (k_setsize k)); n45.
  - apply N45_flat_map. intros [r x] Hin. apply In_combine_seq in Hin.
    destruct Hin as [_ Hn]. rewrite Nat.sub_0_r in Hn.
    change (N45 (req_cl k o r x)). rewrite (H r x Hn). apply N45_nil.
  - destruct (k_setsize k); n45.
Qed.

(** ** one monitor step, as far as properties 4 and 5 are concerned *)
Lemma mon_step_45 c k o :
  let k1 := fst (on_label c k o) in
  let k' := fst (mon_step c k o) in
  exists kk,
    (evs_ok45 (k_reqs k1) o (o_events o) = true ->
     (forall r x, nth_error (k_reqs kk) r = Some x -> req_cl kk o r x = []) ->
     N45 (snd (mon_step c k o))) /\
    k_reqs k1 = lab_reqs c (k_reqs k) (negb (k_gac_req k)) o /\
    k_reqs kk = fold_left rq_ev (o_events o) (k_reqs k1) /\
    tview5 kk = fold_left (vev5 (length (k_reqs k1))) (o_events o) (tview5 k) /\
    k_reqs k' = k_reqs kk /\ tview5 k' = tview5 kk.
Proof.
  cbv zeta. unfold mon_step.
  pose proof (on_label_view5 c k o) as L1. pose proof (on_label_reqs c k o) as L2.
  pose proof (N45_on_label c k o) as L3.
  destruct (on_label c k o) as [k1 c1]. simpl fst in *. simpl snd in *.
  pose proof (on_events_view5 (o_events o) k1 o) as (E1 & _).
  pose proof (on_events_reqs (o_events o) k1 o) as E2.
  pose proof (N45_on_events (o_events o) k1 o) as E4.
  destruct (on_events k1 o (o_events o)) as [k2 c2]. simpl fst in *. simpl snd in *.
  destruct (note_raising_same5 (o_events o) k2) as (N1 & N2).
  set (k3 := note_raising_starts k2 (o_events o)) in *.
  exists (set_k_nids k3 (k_nids k)).
  cbn [snd fst].
  split; [|split; [exact L2|split; [|split; [|split]]]].
  - intros Hev Hst. apply N45_app; [exact L3|]. apply N45_app; [apply E4; exact Hev|].
    apply state_clauses_45. exact Hst.
  - change (k_reqs k3 = fold_left rq_ev (o_events o) (k_reqs k1)). rewrite N2, E2. reflexivity.
  - change (tview5 k3 = fold_left (vev5 (length (k_reqs k1))) (o_events o) (tview5 k)).
    rewrite N1, E1, L1. reflexivity.
  - reflexivity.
  - reflexivity.
Qed.

(** ** old and new entries of the request table after [on_label] *)
Lemma lab_reqs_inv c rs b o r x1 :
  nth_error (lab_reqs c rs b o) r = Some x1 ->
  (exists x, nth_error rs r = Some x /\ r_kind x1 = r_kind x /\ r_pulls x1 = r_pulls x /\
             r_started x1 = r_started x /\ r_els x1 = r_els x) \/
  (r = length rs /\ r_pulls x1 = 0 /\ r_started x1 = []).
Proof.
  assert (Hsame : forall x, nth_error rs r = Some x ->
            exists x0, nth_error rs r = Some x0 /\ r_kind x = r_kind x0 /\ r_pulls x = r_pulls x0 /\
                       r_started x = r_started x0 /\ r_els x = r_els x0) by (intros; eauto 10).
  assert (Happ : forall xn, r_pulls xn = 0 -> r_started xn = [] ->
            nth_error (rs ++ [xn]) r = Some x1 ->
            (exists x, nth_error rs r = Some x /\ r_kind x1 = r_kind x /\ r_pulls x1 = r_pulls x /\
                       r_started x1 = r_started x /\ r_els x1 = r_els x) \/
            (r = length rs /\ r_pulls x1 = 0 /\ r_started x1 = [])).
  { intros xn H1 H2 H. destruct (Nat.lt_ge_cases r (length rs)) as [L|L].
    - rewrite nth_error_app1 in H by auto. left. auto.
    - rewrite nth_error_app2 in H by auto. right.
      destruct (r - length rs) as [|k] eqn:E; simpl in H.
      + inversion H; subst. split; [lia|auto].
      + destruct k; discriminate. }
  assert (Hmap : forall f, (forall x, r_kind (f x) = r_kind x /\ r_pulls (f x) = r_pulls x /\
                                      r_started (f x) = r_started x /\ r_els (f x) = r_els x) ->
            nth_error (map f rs) r = Some x1 ->
            exists x, nth_error rs r = Some x /\ r_kind x1 = r_kind x /\ r_pulls x1 = r_pulls x /\
                      r_started x1 = r_started x /\ r_els x1 = r_els x).
  { intros f Hf H. rewrite nth_error_map in H. destruct (nth_error rs r) as [x|]; [|discriminate].
    simpl in H. inversion H; subst. exists x. split; auto. }
  unfold lab_reqs. destruct (negb (o_enabled o)); [intros H; left; auto|].
  destruct (o_label o) as [h| |op]; try (intros H; left; auto; fail).
  destruct op; try (intros H; left; auto; fail).
  - destruct (o_res o); try (intros H; left; auto; fail). apply Happ; reflexivity.
  - destruct (o_res o); try (intros H; left; auto; fail). apply Happ; reflexivity.
  - destruct (o_res o); try (intros H; left; auto; fail). apply Happ; reflexivity.
  - destruct (o_res o); try (intros H; left; auto; fail). intros H. left.
    eapply Hmap; [|exact H]. intros x; cbn; destruct (gname_eqb g (r_group x)); auto.
  - intros H. left. eapply Hmap; [|exact H]. intros x; auto.
Qed.

Lemma lab_reqs_length c rs b o : length rs <= length (lab_reqs c rs b o).
Proof.
  unfold lab_reqs. destruct (negb (o_enabled o)); auto.
  destruct (o_label o) as [h| |op]; auto. destruct op; auto;
    try (destruct (o_res o); rewrite ?app_length, ?map_length; simpl; lia);
    try (rewrite map_length; auto).
Qed.
