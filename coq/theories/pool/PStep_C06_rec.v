(** C06, "no other task": how task records change (cancellation marks), per model function. *)
From TP Require Import PInv PInv_P_base PInv_P_view PInv_P_inv PInv_P_tok PInv_P_leaf
  PInv_P_chain PInv_P_step PSpecStep PStep_C_ev PStep_C_rel PStep_C_run.

Definition cancel_marked (x : ptask) : Prop :=
  p_unst x = UDeferred \/ p_fw x = Some FCancelled \/ p_mc x = true.

(** [x'] carries a mark only if [x] did *)
Definition keeps (x x' : ptask) : Prop := ~ cancel_marked x -> ~ cancel_marked x'.

Ltac ksolve x :=
  unfold keeps, cancel_marked, rx, cb_raise, suspend_x, end_x, fin_x in *;
  destruct x as [xreq xel xgroup xw xecb xccb xismap xpc xfw xmc xexc xfin xfinal xunst
                 xnstart xnccb xnecb xnrel];
  cbn in *; intuition (try congruence; try discriminate).

Lemma keeps_refl x : keeps x x.
Proof. unfold keeps. auto. Qed.

Lemma keeps_end_x x : keeps x (end_x x).
Proof. unfold end_x. cbn [p_ecb set_p_nrel]. destruct (p_ecb x) eqn:E; ksolve x. Qed.

Lemma keeps_end_rx x : keeps x (end_x (rx x)).
Proof. unfold end_x. cbn [p_ecb set_p_nrel rx set_p_mc set_p_fw]. destruct (p_ecb x) eqn:E; ksolve x. Qed.

Lemma keeps_fin_x x : keeps x (fin_x x).
Proof. ksolve x. Qed.

(** ** view-level: which records an update touches *)
Lemma vget_vput v t x u y :
  vget (vput v t x) u = Some y -> (u <> t /\ vget v u = Some y) \/ (u = t /\ y = x).
Proof.
  unfold vget, vput. cbn [vpts]. rewrite nth_error_upd.
  destruct (Nat.eqb_spec t u) as [->|Hne].
  - destruct (Nat.ltb _ _); [|discriminate]. intros [= <-]. auto.
  - intros H. left. split; auto.
Qed.

(** generic shape: task [t] gets a record obtained from [x] by mark-preserving updates *)
Definition upd_keeps (v v' : pv) (t : nat) (x : ptask) : Prop :=
  forall u y, vget v' u = Some y -> (u <> t /\ vget v u = Some y) \/ (u = t /\ keeps x y).

Lemma uk_vput v t x x' : keeps x x' -> upd_keeps v (vput v t x') t x.
Proof. intros H u y Hy. apply vget_vput in Hy. destruct Hy as [?|[-> ->]]; auto. Qed.

Lemma keeps_trans a b c : keeps a b -> keeps b c -> keeps a c.
Proof. unfold keeps. auto. Qed.

Lemma keeps_exc x e : keeps x (set_p_exc x e).
Proof. ksolve x. Qed.

Lemma uk_enter_end v t x : upd_keeps v (enter_end_v v t x) t x.
Proof.
  unfold enter_end_v. destruct (mem t (vR v)); [|destruct (mem t (vC v))].
  - intros u y Hy. apply vget_vput in Hy. destruct Hy as [?|[-> ->]]; auto.
    right. split; auto. apply keeps_end_x.
  - intros u y Hy. apply vget_vput in Hy. destruct Hy as [?|[-> ->]]; auto.
    right. split; auto. apply keeps_end_x.
  - apply uk_vput. eapply keeps_trans; [apply keeps_exc|apply keeps_fin_x].
Qed.

Lemma keeps_ccb x : keeps x (set_p_pc (set_p_nccb x (S (p_nccb x))) PUCancelCb).
Proof. ksolve x. Qed.

Lemma uk_enter_cancel v t x : upd_keeps v (enter_cancel_v v t x) t x.
Proof.
  unfold enter_cancel_v. destruct (mem t (vR v)).
  - cbv zeta. destruct (p_ccb x).
    + intros u y Hy. apply uk_enter_end in Hy. exact Hy.
    + intros u y Hy. apply vget_vput in Hy. destruct Hy as [?|[-> ->]]; auto.
      right. split; auto. apply keeps_ccb.
    + intros u y Hy. apply vget_vput in Hy. destruct Hy as [?|[-> ->]]; auto.
      right. split; auto. apply keeps_ccb.
  - intros u y Hy. apply uk_enter_end in Hy. destruct Hy as [?|[-> Hk]]; auto.
Qed.

Lemma uk_keeps v v' t x0 x : keeps x0 x -> upd_keeps v v' t x -> upd_keeps v v' t x0.
Proof.
  intros Hk H u y Hy. destruct (H u y Hy) as [?|[-> H1]]; auto.
  right. split; auto. eapply keeps_trans; eauto.
Qed.

(** ** run_p / continue_p: records *)
Ltac kbrute x0 :=
  unfold keeps, cancel_marked, rx, cb_raise, suspend_x;
  destruct x0 as [xreq xel xgroup xw xecb xccb xismap xpc xfw xmc xexc xfin xfinal xunst
                  xnstart xnccb xnecb xnrel];
  cbn;
  repeat match goal with |- context [if ?b then _ else _] => destruct b end;
  cbn; intuition (congruence || discriminate).

Definition rec_p (s s' : state) (t : nat) : Prop :=
  forall u y, get_p s' u = Some y ->
    get_p s u = Some y \/ (u = t /\ exists x0, get_p s t = Some x0 /\ keeps x0 y).

Lemma rec_p_refl s t : rec_p s s t.
Proof. intros u y H. auto. Qed.

Ltac recleaf x0 Ex :=
  let u := fresh "u" in let y := fresh "y" in let Hy := fresh "Hy" in
  intros u y Hy;
  change (get_p ?a ?b) with (vget (pview a) b) in Hy;
  autorewrite with pv in Hy; unfold finish_v, suspend_v in Hy;
  first [apply uk_enter_cancel in Hy | apply uk_enter_end in Hy
        | apply (uk_vput _ _ _ _ (keeps_refl _)) in Hy];
  destruct Hy as [[_ Hy]|[-> Hy]]; [left; exact Hy|];
  right; split; [reflexivity|]; exists x0; split; [exact Ex|];
  (eapply keeps_trans; [|exact Hy]); clear; kbrute x0.

Lemma rec_run_p s t : rec_p s (run_p s t) t.
Proof.
  unfold run_p. destruct (get_p s t) as [x0|] eqn:Ex; [|apply rec_p_refl].
  cbv zeta. destruct (p_pc x0); try apply rec_p_refl.
  - destruct (task_input _ _); [destruct (p_unst _)|..]; recleaf x0 Ex.
  - destruct (task_input _ _); recleaf x0 Ex.
  - destruct (task_input _ _); recleaf x0 Ex.
  - destruct (task_input _ _); recleaf x0 Ex.
Qed.

Lemma rec_continue_p s t : rec_p s (continue_p s t) t.
Proof.
  unfold continue_p. destruct (get_p s t) as [x0|] eqn:Ex; [|apply rec_p_refl].
  destruct (p_pc x0); try apply rec_p_refl.
  - destruct (w_first (p_w x0)); recleaf x0 Ex.
  - destruct (p_fin x0); recleaf x0 Ex.
  - destruct (w_cancel (p_w x0)); recleaf x0 Ex.
  - destruct (p_ccb x0) as [|r|sl r]; [| |destruct sl]; recleaf x0 Ex.
  - destruct (p_ecb x0) as [|r|sl r]; [| |destruct sl]; recleaf x0 Ex.
Qed.

(** ** run_p / continue_p: who logs CancelledError *)
Ltac evc E0 He :=
  try (apply ev_enter_cancel in He; [|assumption]);
  try (apply ev_enter_end in He; [|assumption]);
  rewrite ?ev_finish_p, ?ev_suspend_p in He;
  cbn [evs set_ctl emit set_evs put_p set_ptasks] in He; rewrite E0 in He; simpl in He;
  repeat match goal with H : _ \/ _ |- _ => destruct H end; try contradiction;
  try discriminate.

Lemma evc_run_p s t t' :
  I1 s -> evs s = [] -> In (EvCancelled t') (evs (run_p s t)) ->
  t' = t /\ exists x0, get_p s t = Some x0 /\ p_pc x0 = PWaitGate /\
            task_input (p_mc x0) (p_fw x0) <> InOk /\
            pview (run_p s t) = vput (pview s) t (set_p_pc (rx x0) PUCancelled).
Proof.
  intros H E0. apply I1_iff in H. unfold run_p.
  destruct (get_p s t) as [x0|] eqn:Ex; [|rewrite E0; intros []].
  cbv zeta. destruct (p_pc x0) eqn:Epc; try (rewrite E0; intros []).
  - destruct (task_input _ _); [destruct (p_unst _) eqn:Eu|..]; intros He; evc E0 He.
  - destruct (task_input _ _) eqn:Ei; intros He; evc E0 He.
    + match goal with H : EvCancelled _ = EvCancelled _ |- _ => injection H as <- end.
      split; auto. exists x0. repeat split; auto. rewrite Ei. discriminate.
    + match goal with H : EvCancelled _ = EvCancelled _ |- _ => injection H as <- end.
      split; auto. exists x0. repeat split; auto. rewrite Ei. discriminate.
  - destruct (task_input _ _); intros He; evc E0 He.
  - destruct (task_input _ _); intros He; evc E0 He.
Qed.

Lemma evc_continue_p s t t' :
  I1 s -> evs s = [] -> ~ In (EvCancelled t') (evs (continue_p s t)).
Proof.
  intros H E0. apply I1_iff in H. unfold continue_p.
  destruct (get_p s t) as [x0|] eqn:Ex; [|rewrite E0; intros []].
  destruct (p_pc x0) eqn:Epc; try (rewrite E0; intros []).
  - destruct (w_first (p_w x0)); intros He; evc E0 He.
  - destruct (p_fin x0); intros He; evc E0 He.
  - destruct (w_cancel (p_w x0)) eqn:Ew; intros He; evc E0 He.
  - destruct (p_ccb x0) as [|r|sl r]; [| |destruct sl]; intros He; evc E0 He.
  - destruct (p_ecb x0) as [|r|sl r]; [| |destruct sl]; intros He; evc E0 He.
Qed.
