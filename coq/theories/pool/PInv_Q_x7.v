(** Extra invariant, part 7: the driver chain keeps [xgac]. *)
From TP Require Export PInv_Q_x6.
Set Implicit Arguments. Unset Strict Implicit.

Definition wkrec (y y' : dtask) : Prop := y' = y \/ y' = set_d_fw y (Some FOk).

Definition WKs (s s1 : state) : Prop :=
  forall d' y', get_d s1 d' = Some y' -> exists y, get_d s d' = Some y /\ wkrec y y'.

Definition okrec (x : dtask) : Prop :=
  d_pc x <> DWaitG1 \/
  (d_fw x = Some FPending /\
   exists g, d_g1 x = Some g /\ (forall re, d_kind x = DGatherClose re -> g_re g = true)).

Definition Dres (s : state) (d : nat) (s' : state) : Prop :=
  forall d' y', get_d s' d' = Some y' ->
    (d' = d /\ okrec y') \/ (exists y, get_d s d' = Some y /\ wkrec y y').

Lemma wkrec_trans x y z : wkrec x y -> wkrec y z -> wkrec x z.
Proof. unfold wkrec. intros [->| ->] [->| ->]; auto. Qed.

Lemma WKs_refl s : WKs s s.
Proof. intros d' y' H. exists y'. split; auto. left; auto. Qed.

Lemma WKs_same s s0 s1 : dtasks s1 = dtasks s0 -> WKs s s0 -> WKs s s1.
Proof. intros E H d' y' Hy. unfold get_d in Hy. rewrite E in Hy. apply (H _ _ Hy). Qed.

Lemma wake_closed_WKs ds : forall s s1, WKs s s1 -> WKs s (wake_closed s1 ds).
Proof.
  induction ds as [|d t IH]; intros s s1 H; simpl; auto.
  apply IH. destruct (get_d s1 d) as [x|] eqn:Hx; auto.
  destruct (fut_pending (d_fw x)); auto.
  intros d' y' Hy. unfold get_d in Hy. rewrite sched_dtasks in Hy.
  destruct (@get_d_upd s1 (put_d s1 d (set_d_fw x (Some FOk))) d _ eq_refl d' y' Hy)
    as [[-> ->]|[_ Hy0]].
  - destruct (H _ _ Hx) as [y [Hy0 W]]. exists y. split; auto.
    eapply wkrec_trans; eauto. right; auto.
  - apply (H _ _ Hy0).
Qed.

Lemma Dres_put s s1 s' d x' :
  WKs s s1 -> okrec x' -> dtasks s' = upd (dtasks s1) d x' -> Dres s d s'.
Proof.
  intros H Hok E d' y' Hy. destruct (get_d_upd E Hy) as [[-> ->]|[_ Hy0]]; auto.
Qed.

Lemma Dres_of_WKs s s' d : WKs s s' -> Dres s d s'.
Proof. intros H d' y' Hy. right. apply (H _ _ Hy). Qed.

Lemma finish_d_dtasks s d x e :
  dtasks (finish_d s d x e) =
  upd (dtasks s) d (set_d_final (set_d_pc (set_d_fw x None) DDone) (Some (final_of e false))).
Proof. unfold finish_d, put_d. autorewrite with fr. reflexivity. Qed.

Lemma Dres_finish_d s s1 d x e : WKs s s1 -> Dres s d (finish_d s1 d x e).
Proof.
  intros H. eapply Dres_put; [exact H| |apply finish_d_dtasks]. left. cbn. discriminate.
Qed.

Lemma xgac_Dres s d s' : xgac s -> Dres s d s' -> xgac s'.
Proof.
  intros H HD d' y' Hy. destruct (HD _ _ Hy) as [[_ Hok]|[y [Hy0 W]]].
  - intros re Hk Hp. destruct Hok as [Hn|[Hf [g [Hg Hre]]]]; [contradiction|].
    split; auto. intros g0 E. assert (g0 = g) by congruence. subst. eauto.
  - pose proof (H _ _ Hy0) as Hy0ok. destruct W as [->| ->]; auto.
    intros re Hk Hp. destruct (Hy0ok re Hk Hp) as [_ Hre]. split; auto.
Qed.

Lemma Dres_after_g2 s s1 d x o : WKs s s1 -> Dres s d (after_g2 s1 d x o).
Proof.
  intros H. unfold after_g2.
  destruct o; try destruct (d_kind x); apply Dres_finish_d;
    first [ exact H | eapply WKs_same; [|exact H]; reflexivity
          | apply wake_closed_WKs; eapply WKs_same; [|exact H]; reflexivity ].
Qed.

Lemma Dres_start_g2 s s1 d x cs re : WKs s s1 -> Dres s d (start_g2 s1 d x cs re).
Proof.
  intros H. unfold start_g2. destruct (make_gather s1 (map TP cs) re) as [g o].
  destruct o; try (apply Dres_after_g2; exact H).
  eapply Dres_put; [exact H| |unfold put_d; cbn; reflexivity]. left. cbn. discriminate.
Qed.

Lemma Dres_after_g1 s s1 d x o : WKs s s1 -> Dres s d (after_g1 s1 d x o).
Proof.
  intros H. unfold after_g1. destruct (d_kind x).
  - destruct o as [| |[]|];
      first [ apply Dres_finish_d; exact H
            | apply Dres_start_g2; eapply WKs_same; [|exact H]; reflexivity ].
  - destruct (if re then None else _); [apply Dres_finish_d; exact H|].
    apply Dres_start_g2; eapply WKs_same; [|exact H]; reflexivity.
  - apply Dres_finish_d; exact H.
Qed.

Lemma make_gather_re s cs re : g_re (fst (make_gather s cs re)) = re.
Proof.
  unfold make_gather. destruct cs; auto.
  destruct (gather_eager s (t :: cs) re (length (t :: cs)) 0 FPending []) as [[a b] c]. auto.
Qed.

Lemma Dres_start_g1 s s1 d x cs re :
  WKs s s1 -> (forall re', d_kind x = DGatherClose re' -> re = true) ->
  Dres s d (start_g1 s1 d x cs re).
Proof.
  intros H Hre. unfold start_g1.
  pose proof (make_gather_re s1 (map TM cs) re) as Hg.
  destruct (make_gather s1 (map TM cs) re) as [g o]. simpl in Hg.
  destruct o; try (apply Dres_after_g1; exact H).
  eapply Dres_put; [exact H| |unfold put_d; cbn; reflexivity].
  right. cbn. split; auto. exists g. split; auto. intros re' Hk. rewrite Hg. eauto.
Qed.

Lemma Dres_run_d s d : Dres s d (run_d s d).
Proof.
  unfold run_d. destruct (get_d s d) as [x0|] eqn:Hx; [|apply Dres_of_WKs, WKs_refl].
  cbv zeta. destruct (d_pc x0).
  - cbn [d_kind set_d_fw]. destruct (d_kind x0) eqn:K.
    + destruct (pop_ended s (gmeta s)) as [gm ended].
      apply Dres_start_g1; [eapply WKs_same; [|apply WKs_refl]; reflexivity|].
      cbn. intros re' E. congruence.
    + apply Dres_start_g1; [eapply WKs_same; [|apply WKs_refl]; reflexivity|]. auto.
    + destruct (closed s); [apply Dres_finish_d, WKs_refl|].
      eapply Dres_put; [eapply WKs_same; [|apply WKs_refl]; reflexivity| |unfold put_d; cbn; reflexivity].
      left. cbn. discriminate.
  - apply Dres_after_g1, WKs_refl.
  - apply Dres_after_g2, WKs_refl.
  - apply Dres_finish_d. eapply WKs_same; [|apply WKs_refl]. reflexivity.
  - apply Dres_of_WKs, WKs_refl.
Qed.

Lemma xgac_run_d s d : xgac s -> xgac (run_d s d).
Proof. intros H. eapply xgac_Dres; eauto. apply Dres_run_d. Qed.
