(** Monitor soundness for C04 and C05: the relation between model and tracker, one step. *)
From TP Require Import PSpec PMon PRun PWF PProps_B PProps_B_inv PStep_C_ev PStep_B_mr PStep_B_inv.
From TP Require Import PMonSound_trk PMonSound_C45_trk PMonSound_C45_trk2 PMonSound_C45_ev.
From TP Require Import PMonSound_C45_pull PMonSound_C45_grp PMonSound_C45_gistep PMonSound_C45_lab.
From TP Require Import PMonSound_C45_mir PMonSound_C45_prs.
From TP Require Import PInv_Q.

Lemma Inv5_mono n n' V s ov : n <= n' -> Inv5 n V s ov -> Inv5 n' V s ov.
Proof.
  intros Hle (H1 & H2 & H3 & H4 & H5 & H6 & H7 & H8 & H9 & H10). split10; auto.
  intros u r el H. specialize (H10 u r el H). lia.
Qed.

(** the group ids of an observation are those of the model *)
Lemma glook_map_known g (f : gname -> option (list nat)) l :
  glook g (map (fun h => (h, f h)) l) = if existsb (gname_eqb g) l then Some (f g) else None.
Proof.
  induction l as [|h t IH]; simpl; auto.
  destruct (gname_eqb_spec g h) as [->|Ne]; simpl; auto.
Qed.

Lemma group_ids_obs s l en g ids :
  group_ids (obs_of s l en) g = Some ids -> glookup g (groups s) = Some ids.
Proof.
  unfold group_ids. cbn [o_groups obs_of]. rewrite glook_map_known.
  destruct (existsb (gname_eqb g) (known s)); [|discriminate].
  destruct (glookup g (groups s)); [|discriminate]. intros H; inversion H; reflexivity.
Qed.

(** the tracker's quiet points are quiet points of the model *)
Lemma ctl_obs_idle5 s : ctl_obs s = OIdle -> ctl s = CIdle.
Proof.
  unfold ctl_obs. destruct (ctl s) as [|[t|m|d]]; auto; try discriminate.
  destruct (get_p s t) as [x|]; [|discriminate]. destruct (p_pc x); discriminate.
Qed.

Lemma quiet_sound5 n s kk l en :
  Inv5 n (tview5 kk) s None -> PMon.quiet kk (obs_of s l en) = true -> PSpec.quiet s.
Proof.
  intros (_ & _ & H3 & H4 & _) Hq. unfold PMon.quiet in Hq. cbn [o_ctl o_ready_empty obs_of] in Hq.
  destruct (ctl_obs s) eqn:Hc; [|discriminate]. apply ctl_obs_idle5 in Hc.
  apply andb_true_iff in Hq. destruct Hq as [Hr Hcb].
  split; [exact Hc|]. split.
  - destruct (ready s); [reflexivity|discriminate].
  - intros t x Hx. unfold tview5, v_cbs in H3, H4. cbn [fst snd] in H3, H4.
    destruct (k_cbs kk); [|discriminate].
    unfold in_callbacks.
    destruct (cancel_pc (p_pc x)) eqn:Hcp.
    + exfalso. apply (H3 t). unfold cls_at5, cls_rec5. rewrite Hx. simpl.
      destruct (p_pc x); simpl in *; congruence.
    + destruct (endcb_pc (p_pc x)) eqn:Hep; [|reflexivity].
      exfalso. apply (H4 t). unfold cls_at5, cls_rec5. rewrite Hx. simpl.
      destruct (p_pc x); simpl in *; congruence.
Qed.

(** ** live workers of a request: tracker = model *)
Lemma assoc_In {A} t (l : list (nat * A)) v : assoc t l = Some v -> In (t, v) l.
Proof.
  induction l as [|[k w] r IH]; simpl; [discriminate|].
  destruct (Nat.eqb_spec t k) as [->|Ne]; [intros H; inversion H; auto|auto].
Qed.

Lemma In_assoc {A} t (l : list (nat * A)) v :
  NoDup (map fst l) -> In (t, v) l -> assoc t l = Some v.
Proof.
  induction l as [|[k w] r IH]; simpl; [tauto|]. intros Hnd Hin.
  inversion Hnd as [|? ? Hn Hd]; subst.
  destruct (Nat.eqb_spec t k) as [->|Ne].
  - destruct Hin as [E|Hin]; [inversion E; auto|]. exfalso. apply Hn.
    apply (in_map fst) in Hin. exact Hin.
  - destruct Hin as [E|Hin]; [inversion E; congruence|auto].
Qed.

Lemma count_filter_length {A} (p : A -> bool) l : count p l = length (filter p l).
Proof. induction l as [|h t IH]; simpl; auto. destruct (p h); simpl; lia. Qed.

Lemma cls5_live x : cls5 (p_pc x) = WLive <-> worker_live x = true.
Proof. unfold worker_live. destruct (p_pc x); simpl; split; congruence. Qed.

Lemma live_of_req_eq n kk s r :
  Inv5 n (tview5 kk) s None -> live_of_req kk r = live_of s r.
Proof.
  intros (H1 & H2 & _ & _ & _ & H6 & H7 & H8 & _ & _).
  unfold tview5, v_live, v_task in *. cbn [fst snd] in *.
  unfold live_of_req, live_of. rewrite count_filter_length.
  apply count_positions.
  - apply NoDup_filter. exact H1.
  - intros t. rewrite filter_In. unfold cls_at5, cls_rec5, id_at, id_rec in *. split.
    + intros [Hin Hp]. pose proof (proj1 (H2 t) Hin) as Hc.
      change (nth_error (ptasks s) t) with (get_p s t).
      destruct (get_p s t) as [x|] eqn:Hx; [|discriminate]. simpl in Hc. inversion Hc as [Hc'].
      exists x. split; auto. apply cls5_live in Hc'. rewrite Hc', andb_true_r.
      destruct (assoc t (k_task kk)) as [[r' el']|] eqn:Ha; [|discriminate].
      apply assoc_In in Ha. destruct (H7 _ _ _ Ha) as [Hid _]. rewrite Hx in Hid. simpl in Hid.
      inversion Hid; subst. apply Nat.eqb_eq in Hp. subst. apply Nat.eqb_refl.
    + intros (x & Hx & Hp). change (nth_error (ptasks s) t) with (get_p s t) in Hx.
      apply andb_true_iff in Hp. destruct Hp as [Hr Hl]. apply Nat.eqb_eq in Hr.
      assert (Hin : In t (k_live kk)).
      { apply H2. rewrite Hx. simpl. f_equal. apply cls5_live. exact Hl. }
      split; auto. destruct (H8 t Hin) as (r' & el' & Ht).
      rewrite (In_assoc t _ _ H6 Ht). destruct (H7 _ _ _ Ht) as [Hid _]. rewrite Hx in Hid.
      simpl in Hid. inversion Hid; subst. apply Nat.eqb_refl.
Qed.

(** the (request, element) pairs of the task table are pairwise distinct *)
Lemma NoDup_map_snd {A B} (l : list (A * B)) :
  NoDup (map fst l) -> (forall a1 a2 b, In (a1, b) l -> In (a2, b) l -> a1 = a2) ->
  NoDup (map snd l).
Proof.
  induction l as [|[a b] t IH]; simpl; intros Hnd Hinj; [constructor|].
  inversion Hnd as [|? ? Hn Hd]; subst. constructor.
  - intros Hin. apply in_map_iff in Hin. destruct Hin as [[a' b'] [E Hin]]. simpl in E. subst b'.
    assert (a = a') by (eapply Hinj; [left; reflexivity|right; exact Hin]). subst a'.
    apply Hn. apply (in_map fst) in Hin. exact Hin.
  - apply IH; auto. intros a1 a2 b0 I1 I2. eapply Hinj; right; eauto.
Qed.

Lemma task_pairs_NoDup n V s :
  Inv5 n V s None -> IR s -> NoDup (map snd (v_task V)).
Proof.
  intros (_ & _ & _ & _ & _ & H6 & H7 & _) HIR. apply NoDup_map_snd; auto.
  intros t1 t2 [r el] I1 I2. destruct (H7 _ _ _ I1) as [A _]. destruct (H7 _ _ _ I2) as [B _].
  unfold id_at, id_rec in A, B.
  destruct (get_p s t1) as [x1|] eqn:E1; [|discriminate].
  destruct (get_p s t2) as [x2|] eqn:E2; [|discriminate].
  simpl in A, B. inversion A. inversion B. eapply (IR_distinct _ HIR); eauto; congruence.
Qed.

(** ** the per-request state clauses hold *)
Lemma final_cases s y m :
  WFx s -> taint_iter s = false -> get_m s m = Some y -> m_dead y = false ->
  m_final y = None \/ m_final y = Some OResult.
Proof.
  intros X Ht Hy Hd. pose proof (C04_of_WFx s (x_wf _ X) (x_bm _ X)) as C4.
  destruct (m_final y) as [[|e|]|] eqn:Hf; auto.
  - exfalso. apply (c04_no_exception _ C4 m y e Hy Hf).
  - exfalso. pose proof (c04_cancel_only_group _ C4 Ht m y Hy Hf) as H. congruence.
Qed.

Lemma req_cl_nil K s kk l en r x :
  WFx s -> GI K s -> taint_iter s = false ->
  Inv5 (length (k_reqs kk)) (tview5 kk) s None -> MIR (k_reqs kk) s -> PRall (k_reqs kk) s ->
  nth_error (k_reqs kk) r = Some x ->
  req_cl kk (obs_of s l en) r x = [].
Proof.
  intros X G Ht HI [HL HM] HP Hx. pose proof (x_wf _ X) as W.
  pose proof (C04_of_WFx s W (x_bm _ X)) as C4. pose proof (C05_of_WFx s W (x_bm _ X)) as C5.
  destruct (@get_m_ex s r) as [y Hy]; [rewrite <- HL; apply nth_error_Some; congruence|].
  destruct (HM _ _ _ Hx Hy) as (Ek & En & Eb & Ee & Ec & Eg & Ed).
  unfold req_cl. cbv zeta. set (o := obs_of s l en).
  destruct (r_kind x) eqn:Hkx.
  - (* apply *)
    destruct (group_ids o (r_group x)) as [ids|] eqn:Hg; [|reflexivity].
    destruct (r_dead x) eqn:Hdx; [reflexivity|].
    assert (Hdy : m_dead y = false) by (destruct (m_dead y) eqn:E; auto; specialize (Ed eq_refl); congruence).
    apply group_ids_obs in Hg. rewrite Eg in Hg.
    rewrite (group_size W G Hy Hdy Hg).
    assert (Hak : is_apply_kind y = true) by (unfold is_apply_kind, is_map; rewrite <- Ek; reflexivity).
    assert (Hexp : PMon.expected_created x = PSpec.expected_created y)
      by (unfold PMon.expected_created, PSpec.expected_created; rewrite Eb, En; reflexivity).
    rewrite Hexp.
    assert (B1 : Nat.leb (tasks_of s r) (PSpec.expected_created y) = true)
      by (apply Nat.leb_le; apply (c04_at_most _ C4 r y Hy Hak)).
    rewrite B1. cbn [fails app].
    destruct (PMon.quiet kk o) eqn:Hq; [|reflexivity]. cbn [negb orb].
    change (o_full o) with (sem_locked s).
    destruct (sem_locked s) eqn:Hfull; [reflexivity|]. cbn [orb].
    pose proof (quiet_sound5 _ s kk l en HI Hq) as HQ.
    destruct (final_cases s y r X Ht Hy Hdy) as [Hf|Hf].
    + destruct (c04_blocked_for_room _ C4 HQ r y Hy Hak Hf Hdy) as (_ & _ & Hl). congruence.
    + rewrite (c04_complete _ C4 Ht r y Hy Hak Hf Hdy), Nat.eqb_refl. reflexivity.
  - (* map *)
    assert (Hmk : is_map y = true) by (unfold is_map; rewrite <- Ek; reflexivity).
    rewrite (live_of_req_eq _ kk s r HI).
    assert (B1 : Nat.leb (live_of s r) (r_nc x) = true)
      by (rewrite Ec; apply Nat.leb_le; apply (c05_bound _ C5 r y Hy Hmk)).
    rewrite B1. cbn [fails app].
    destruct (PMon.quiet kk o) eqn:Hq; [|reflexivity]. cbn [negb orb].
    destruct (r_dead x) eqn:Hdx; [reflexivity|]. cbn [orb].
    assert (Hdy : m_dead y = false) by (destruct (m_dead y) eqn:E; auto; specialize (Ed eq_refl); congruence).
    change (o_full o) with (sem_locked s).
    destruct (sem_locked s) eqn:Hfull; [reflexivity|]. cbn [orb].
    destruct (k_closed kk); [reflexivity|]. cbn [orb].
    pose proof (quiet_sound5 _ s kk l en HI Hq) as HQ.
    destruct (final_cases s y r X Ht Hy Hdy) as [Hf|Hf].
    + rewrite (c05_work_conserving _ C5 HQ r y Hy Hmk Hf Hdy Hfull), Ec, Nat.eqb_refl.
      rewrite orb_true_r. reflexivity.
    + pose proof (HP r x y Hx Hy Hmk) as Hv. unfold PRv in Hv.
      assert (Hpc : m_pc y = MDone) by (apply (I5_mfinal _ (wf5 _ W) r y Hy); congruence).
      rewrite Hpc in Hv. destruct Hv as [_ Hv]. specialize (Hv Hf).
      pose proof (IR_final _ (wfr _ W) r y Hy) as Hfin. unfold req_final_ok in Hfin.
      rewrite Hf, Ht, Hdy in Hfin. destruct Hfin as [Hfin|[Hfin|Hfin]]; try discriminate.
      unfold is_map in Hmk. destruct (m_kind y); try discriminate.
      assert (Hlt : Nat.ltb (length (r_els x)) (r_pulls x) = true)
        by (apply Nat.ltb_lt; rewrite Ee, Hv, Hfin; lia).
      rewrite Hlt. reflexivity.
  - (* start *)
    destruct (group_ids o (r_group x)) as [ids|] eqn:Hg; [|reflexivity].
    destruct (r_dead x) eqn:Hdx; [reflexivity|].
    assert (Hdy : m_dead y = false) by (destruct (m_dead y) eqn:E; auto; specialize (Ed eq_refl); congruence).
    apply group_ids_obs in Hg. rewrite Eg in Hg.
    rewrite (group_size W G Hy Hdy Hg).
    assert (Hak : is_apply_kind y = true) by (unfold is_apply_kind, is_map; rewrite <- Ek; reflexivity).
    assert (Hexp : PMon.expected_created x = PSpec.expected_created y)
      by (unfold PMon.expected_created, PSpec.expected_created; rewrite Eb, En; reflexivity).
    rewrite Hexp.
    assert (B1 : Nat.leb (tasks_of s r) (PSpec.expected_created y) = true)
      by (apply Nat.leb_le; apply (c04_at_most _ C4 r y Hy Hak)).
    rewrite B1. cbn [fails app].
    destruct (PMon.quiet kk o) eqn:Hq; [|reflexivity]. cbn [negb orb].
    change (o_full o) with (sem_locked s).
    destruct (sem_locked s) eqn:Hfull; [reflexivity|]. cbn [orb].
    pose proof (quiet_sound5 _ s kk l en HI Hq) as HQ.
    destruct (final_cases s y r X Ht Hy Hdy) as [Hf|Hf].
    + destruct (c04_blocked_for_room _ C4 HQ r y Hy Hak Hf Hdy) as (_ & _ & Hl). congruence.
    + rewrite (c04_complete _ C4 Ht r y Hy Hak Hf Hdy), Nat.eqb_refl. reflexivity.
Qed.

From TP Require Import PMonSound_C45_pev.

(** ** the per-event clauses hold *)
Lemma pull_dec es : (exists r n, In (EvPull r n) es) \/ (forall r n, ~ In (EvPull r n) es).
Proof.
  induction es as [|e es [(r & n & H)|H]].
  - right. intros r n [].
  - left. exists r, n. right. exact H.
  - destruct e as [t r el|t|t|kd t cl|kd t raised|kd t|r n|d oc];
      try (right; intros r0 n0 [E|E]; [discriminate|eapply H; eauto]).
    left. exists r, n. left. reflexivity.
Qed.

Lemma PRv_ge p y : PRv p y -> m_idx y <= p.
Proof. unfold PRv. destruct (m_pc y); lia. Qed.

Lemma lazy_ok_true K s' l en x y r :
  WFx s' -> GI K s' -> get_m s' r = Some y -> rq_match x y -> is_map y = true ->
  lazy_ok x (obs_of s' l en) (m_idx y) = true.
Proof.
  intros X G Hy (Ek & En & Eb & Ee & Ec & Eg & Ed) Hk. pose proof (x_wf _ X) as W.
  unfold lazy_ok. destruct (group_ids (obs_of s' l en) (r_group x)) as [ids|] eqn:Hg; [|reflexivity].
  destruct (r_dead x) eqn:Hdx; [reflexivity|].
  assert (Hdy : m_dead y = false) by (destruct (m_dead y) eqn:E; auto; specialize (Ed eq_refl); congruence).
  apply group_ids_obs in Hg. rewrite Eg in Hg. rewrite (group_size W G Hy Hdy Hg).
  destruct (map_prefix s' r y W Hy Hk) as [_ Hp].
  unfold count_bad. rewrite Ee, Hp. apply Nat.eqb_refl.
Qed.

Lemma evs_ok_step K s l rs b V0 :
  let s' := step s l in
  let o := obs_of s' l (enabled (set_res (set_evs s []) RNone) l) in
  let rs1 := lab_reqs (cfg s) rs b o in
  WFx s -> WFx s' -> GI K s' -> MIR rs s -> MIR rs1 s' ->
  (forall r x1 y', nth_error rs1 r = Some x1 -> get_m s' r = Some y' -> is_map y' = true ->
     OUT2 (r_pulls x1) r s' y') ->
  Inv5 (length rs1) (fold_left (vev5 (length rs1)) (evs s') V0) s' None ->
  TI rs1 (v_task V0) ->
  evs_ok45 rs1 o (evs s') = true.
Proof.
  cbv zeta. intros X X' G HM HM1 HO HI HT.
  set (s' := step s l) in *.
  set (o := obs_of s' l (enabled (set_res (set_evs s []) RNone) l)) in *.
  set (rs1 := lab_reqs (cfg s) rs b o) in *.
  pose proof (x_wf _ X') as W'. pose proof (wfr _ W') as HIR'.
  destruct HM1 as [HL1 HM1].
  destruct (pull_dec (evs s')) as [(r & n & Hin)|Hno].
  - (* the consumer of a map request advanced its iterator *)
    destruct (pull_owner_map s l r n Hin) as (y & Hy & Hky).
    assert (Hk : is_map y = true).
    { destruct Hky as [H|H]; auto. destruct (X_pc (x_ir _ X) Hy) as [P1 _]. auto. }
    destruct HM as [HL HMr].
    destruct (nth_error rs r) as [x|] eqn:Hx.
    2:{ apply nth_error_None in Hx. apply get_m_len in Hy. lia. }
    assert (Hlt1 : r < length rs1).
    { pose proof (lab_reqs_length (cfg s) rs b o).
      assert (r < length rs) by (apply nth_error_Some; congruence). unfold rs1. lia. }
    destruct (nth_error rs1 r) as [x1|] eqn:Hx1; [|apply nth_error_None in Hx1; lia].
    destruct (@get_m_ex s' r) as [y' Hy']; [rewrite <- HL1; exact Hlt1|].
    pose proof (HM1 _ _ _ Hx1 Hy') as Hm1.
    assert (Hk' : is_map y' = true).
    { destruct (lab_reqs_inv _ _ _ _ _ _ Hx1) as [(x0 & Hx0 & Ek & _)|(Er & _)].
      - replace x0 with x in * by congruence.
        unfold is_map in *. destruct Hm1 as (E1 & _). destruct (HMr _ _ _ Hx Hy) as (E2 & _).
        rewrite <- E1, Ek, E2. exact Hk.
      - assert (r < length rs) by (apply nth_error_Some; congruence). lia. }
    destruct (HO _ _ _ Hx1 Hy' Hk') as [[Hnone _]|(Ev & Hpc & Hidx)]; [exfalso; eapply Hnone; eauto|].
    rewrite Ev. apply evs_ok_pulls.
    + intros e [<-|[]]. eauto.
    + intros r' x' Hx'. simpl. destruct (Nat.eqb_spec r r') as [<-|Ne]; auto.
      split; auto. congruence.
    + intros r' n' [E|[]]. inversion E; subst r' n'. exists x1. split; auto.
      destruct (map_prefix s' r y' W' Hy' Hk') as [Hle _].
      split.
      * apply Nat.leb_le. destruct Hm1 as (_ & _ & _ & Ee & _). rewrite Ee, <- Hidx. exact Hle.
      * rewrite <- Hidx. eapply lazy_ok_true; eauto.
  - (* no EvPull: only worker starts matter *)
    assert (Hst : forall t r el, In (EvStart t r el) (evs s') ->
              exists xp y', get_p s' t = Some xp /\ p_req xp = r /\ p_el xp = el /\
                            get_m s' r = Some y' /\ task_matches_req xp y').
    { intros t r el Hin. destruct HI as (_ & _ & _ & _ & _ & _ & _ & _ & H9 & _).
      specialize (H9 _ _ _ Hin). unfold id_at, id_rec in H9.
      destruct (get_p s' t) as [xp|] eqn:Hxp; [|discriminate]. simpl in H9. inversion H9; subst r el.
      destruct (IR_req _ HIR' _ _ Hxp) as (y' & Hy' & Hm). exists xp, y'. auto 10. }
    assert (Hrange : forall t r el, In (EvStart t r el) (evs s') -> r < length rs1).
    { intros t r el Hin. destruct (Hst _ _ _ Hin) as (xp & y' & _ & _ & _ & Hy' & _).
      rewrite HL1. eapply get_m_len; eauto. }
    pose proof (task_fold (length rs1) (evs s') V0 Hrange) as Htf.
    pose proof (task_pairs_NoDup _ _ _ HI HIR') as Hnd. rewrite Htf in Hnd.
    apply NoDup_app_inv in Hnd. destruct Hnd as (Hnd1 & _ & Hdisj).
    apply evs_ok_starts; auto.
    + intros t r el Hin. destruct (Hst _ _ _ Hin) as (xp & y' & Hxp & Er & Eel & Hy' & Hm).
      destruct (nth_error rs1 r) as [x1|] eqn:Hx1.
      2:{ apply nth_error_None in Hx1. specialize (Hrange _ _ _ Hin). lia. }
      exists x1. split; auto.
      destruct (HM1 _ _ _ Hx1 Hy') as (Ek & En & Eb & Ee & _).
      destruct Hm as (_ & _ & _ & Hlt & Hkind). rewrite Eel in *.
      unfold elem_ok. rewrite Ek. destruct (m_kind y') eqn:Hk.
      * destruct Hkind as (_ & Hb & Hn). rewrite En, Eb, Hb. rewrite (proj2 (Nat.ltb_lt _ _) Hn). reflexivity.
      * destruct Hkind as (e & He & Hbad & _). rewrite Ee, He, Hbad. cbn [negb andb].
        apply Nat.ltb_lt.
        assert (Hky : is_map y' = true) by (unfold is_map; rewrite Hk; reflexivity).
        destruct (HO _ _ _ Hx1 Hy' Hky) as [[_ Hv]|(Ev & _)].
        -- apply PRv_ge in Hv. lia.
        -- exfalso. eapply Hno. rewrite Ev. left. reflexivity.
      * destruct Hkind as (_ & Hb & Hn). rewrite En, Eb, Hb. rewrite (proj2 (Nat.ltb_lt _ _) Hn). reflexivity.
    + apply NoDup_rev_inv. exact Hnd1.
    + intros r el x Hin Hx Hst'. destruct (HT _ _ _ Hx Hst') as [t Ht].
      apply (Hdisj (r, el)); [apply -> in_rev; exact Hin|].
      apply (in_map snd) in Ht. exact Ht.
Qed.

(** ** the relation between the model state and the tracker after the same prefix *)
Definition RR45 (c : config) (s : state) (k : trk) : Prop :=
  (exists tr0, s = run c tr0) /\
  Inv5 (length (k_reqs k)) (tview5 k) s None /\
  MIR (k_reqs k) s /\ PRall (k_reqs k) s /\ TI (k_reqs k) (k_task k).

Lemma RR45_init c : RR45 c (init c) (trk_init c).
Proof.
  split; [exists []; reflexivity|]. split; [apply Inv5_init|]. split; [|split].
  - split; [reflexivity|]. intros r x y H. destruct r; discriminate H.
  - intros r x y H. destruct r; discriminate H.
  - intros r x el H. destruct r; discriminate H.
Qed.

Lemma TI_label c rs b o task : TI rs task -> TI (lab_reqs c rs b o) task.
Proof.
  intros H r x1 el Hx1 Hin.
  destruct (lab_reqs_inv _ _ _ _ _ _ Hx1) as [(x & Hx & _ & _ & Es & _)|(_ & _ & Es)].
  - rewrite Es in Hin. eapply H; eauto.
  - rewrite Es in Hin. destruct Hin.
Qed.

Lemma PRall_final rs1 s' :
  (forall r x1 y', nth_error rs1 r = Some x1 -> get_m s' r = Some y' -> is_map y' = true ->
     OUT2 (r_pulls x1) r s' y') ->
  PRall (fold_left rq_ev (evs s') rs1) s'.
Proof.
  intros HO r x' y' Hx' Hy' Hk'.
  destruct (fold_rq_ev_nth _ _ _ _ Hx') as (x1 & Hx1 & _ & Hp). rewrite Hp.
  destruct (HO _ _ _ Hx1 Hy' Hk') as [[Hno Hv]|(Ev & Hpc & Hidx)].
  - destruct (nopull r (evs s') Hno) as [N0 _]. rewrite N0, Nat.add_0_r. exact Hv.
  - rewrite Ev. unfold npulls. simpl. rewrite Nat.eqb_refl. simpl.
    unfold PRv. rewrite Hpc. lia.
Qed.

Lemma mon_step_sound45 c s k l :
  RR45 c s k -> clean (step s l) -> taint_iter (step s l) = false ->
  let o := obs_of (step s l) l (enabled (set_res (set_evs s []) RNone) l) in
  N45 (snd (mon_step c k o)) /\ RR45 c (step s l) (fst (mon_step c k o)).
Proof.
  intros ((tr0 & Hs) & HI & HM & HP & HT) Hc Ht o.
  destruct (mon_step_45 c k o) as (kk & Hcl & Hr1 & Hrk & Hvk & Hr' & Hv').
  cbv zeta in *.
  set (rs := k_reqs k) in *. set (b := negb (k_gac_req k)) in *.
  assert (Hcfg : cfg s = c) by (rewrite Hs; apply cfg_run).
  assert (Hrun : step s l = run c (tr0 ++ [l])) by (rewrite run_snoc, Hs; reflexivity).
  assert (Hc0 : clean s) by (eapply clean_step_inv'; eauto).
  assert (X : WFx s) by (rewrite Hs; apply WFx_run; rewrite <- Hs; exact Hc0).
  assert (X' : WFx (step s l)) by (rewrite Hrun; apply WFx_run; rewrite <- Hrun; exact Hc).
  assert (G' : GI (cf_kind c = KSimple) (step s l))
    by (rewrite Hrun; apply GI_run; rewrite <- Hrun; auto).
  set (s' := step s l) in *.
  change (o_events o) with (evs s') in *.
  set (rs1 := lab_reqs c rs b o) in *. rewrite Hr1 in Hrk, Hvk, Hcl.
  assert (HM1 : MIR rs1 s') by (apply (MIR_label c s l rs b X Hcfg HM)).
  assert (HO : forall r x1 y', nth_error rs1 r = Some x1 -> get_m s' r = Some y' ->
             is_map y' = true -> OUT2 (r_pulls x1) r s' y').
  { pose proof (PR_step rs s l b X HM HP) as E. cbv zeta in E. rewrite Hcfg in E. exact E. }
  assert (Hlen : length (mtasks s) <= length rs1).
  { destruct HM as [HL _]. rewrite <- HL. apply lab_reqs_length. }
  assert (HI1 : Inv5 (length rs1) (fold_left (vev5 (length rs1)) (evs s') (tview5 k)) s' None).
  { apply Inv5_step; auto. eapply Inv5_mono; [|exact HI]. destruct HM as [HL _].
    fold rs. rewrite HL. exact Hlen. }
  assert (HT1 : TI rs1 (v_task (tview5 k))) by (apply TI_label; exact HT).
  assert (Hev : evs_ok45 rs1 o (evs s') = true).
  { pose proof (evs_ok_step (cf_kind c = KSimple) s l rs b (tview5 k)) as E. cbv zeta in E.
    rewrite Hcfg in E. apply E; auto. }
  set (rsf := fold_left rq_ev (evs s') rs1) in *.
  assert (Hlf : length rsf = length rs1) by apply fold_rq_ev_length.
  assert (HIk : Inv5 (length (k_reqs kk)) (tview5 kk) s' None)
    by (rewrite Hrk, Hvk, Hlf; exact HI1).
  assert (HMk : MIR (k_reqs kk) s') by (rewrite Hrk; apply MIR_events; exact HM1).
  assert (HPk : PRall (k_reqs kk) s') by (rewrite Hrk; apply PRall_final; exact HO).
  assert (HTk : TI (k_reqs kk) (k_task kk)).
  { rewrite Hrk. change (k_task kk) with (v_task (tview5 kk)). rewrite Hvk.
    apply TI_events. exact HT1. }
  split.
  - apply Hcl; [exact Hev|]. intros r x Hx.
    apply (req_cl_nil (cf_kind c = KSimple) s' kk l _ r x X' G' Ht HIk HMk HPk Hx).
  - split; [exists (tr0 ++ [l]); exact Hrun|].
    rewrite Hr'. change (k_task (fst (mon_step c k o))) with (v_task (tview5 (fst (mon_step c k o)))).
    rewrite Hv'. auto.
Qed.

(** ** whole runs *)
Lemma mon_run_sound45 c pid : pid = 4 \/ pid = 5 -> forall tr s k i,
  RR45 c s k -> clean (fold_left step tr s) -> taint_iter (fold_left step tr s) = false ->
  mon_run c pid k i (observe_from s tr) = None.
Proof.
  intros Hp. induction tr as [|l tr IH]; intros s k i HR Hc Ht; simpl; auto.
  simpl in Hc, Ht.
  assert (Hc1 : clean (step s l)) by (eapply clean_fold_inv; eauto).
  assert (Ht1 : taint_iter (step s l) = false)
    by (eapply (taint_fold_inv taint_iter taint_iter_step_inv); eauto).
  destruct (mon_step_sound45 c s k l HR Hc1 Ht1) as [Hf HR'].
  cbv zeta in Hf, HR'.
  destruct (mon_step c k _) as [k' cs]. simpl in Hf, HR'.
  rewrite (N45_filter_nil pid cs Hp Hf). apply IH; auto.
Qed.
