(** Monitor soundness for C14: on the model's own observation stream (clean run) the executable
    monitor of PMon.v never reports a violated clause of property C14 (stop / stop_all are exact
    and newest-first).

    Why [C14_most_recent] holds although it quantifies over the tracker's live workers: a live
    worker (started, not yet exited) has a program counter in the worker body, and such a task is
    filed in the running registry (I2_run) — a task only moves to the cancelled / ended registry
    after its worker has exited (EvExit precedes [enter_cancel] / [enter_end]); the only other way
    out of the running registry is the final clear of gather_and_close, which on clean runs
    happens when every task has finished. *)
From TP Require Import PInv PInv_P PSpec PSpecStep PStep_A PMon PRun PWF
  PMonSound_trk PMonSound_ev PMonSound_gen PMonSound_C01 PMonSound_C06_trk PMonSound_C06_mod
  PMonSound_C06 PMonSound14_trk.

(** ** list facts *)
Lemma decreasing_SS l : StronglySorted (fun a b => b < a) l -> decreasing l = true.
Proof.
  induction 1 as [|a t Hs IH Hf]; [reflexivity|].
  destruct t as [|b t']; [reflexivity|].
  change (Nat.ltb b a && decreasing (b :: t') = true).
  rewrite IH, andb_true_r. apply Nat.ltb_lt.
  rewrite Forall_forall in Hf. apply Hf. left. reflexivity.
Qed.

Lemma running_pre s : t_running (pre s) = t_running s.
Proof. reflexivity. Qed.

(** ** the relation between the model state and the tracker *)
Definition RR14 (c : config) (s : state) (k : trk) : Prop :=
  (exists tr0, s = run c tr0) /\ Inv (tview k) s None /\ prev_rel c s k.

Lemma RR14_init c : RR14 c (init c) (trk_init c).
Proof.
  split; [exists []; reflexivity|]. split.
  - destruct (PMonSound_C01.RR_init c) as (_ & H & _). exact H.
  - left. split; reflexivity.
Qed.

(** the three checks on a result [firstn n (rev running)] *)
Lemma stop_checks c s k n :
  WFx s -> Inv (tview k) s None -> prev_rel c s k ->
  let ids := firstn n (rev (t_running s)) in
  (forall o, (match k_prev k with None => true | Some _ => false end
              || Nat.eqb (length ids) (Nat.min n (o_nr (prev_or k o)))) = true) /\
  decreasing ids = true /\
  forallb (fun t => mem t ids || forallb (fun i => Nat.ltb t i) ids) (k_live k) = true.
Proof.
  intros X HI HP ids.
  pose proof (x_wf _ X) as W. pose proof (x_sorted _ X) as Hso.
  destruct (PStep_A.C14_newest_first s n Hso) as [Hss Hnew]. fold ids in Hss, Hnew.
  split; [|split].
  - intros o. destruct HP as [[Hp _]|(lp & enp & Hp)]; [rewrite Hp; reflexivity|].
    unfold prev_or. rewrite Hp. cbn [o_nr obs_of orb].
    apply Nat.eqb_eq. unfold ids. rewrite firstn_length, rev_length. reflexivity.
  - apply decreasing_SS. exact Hss.
  - apply forallb_forall. intros t Ht.
    destruct (live_running s k t W HI Ht) as (x & _ & _ & Hrun).
    destruct (mem t ids) eqn:Hm; [reflexivity|]. cbn [orb].
    apply mem_false_In in Hm.
    apply forallb_forall. intros i Hi. apply Nat.ltb_lt. exact (Hnew i t Hi Hrun Hm).
Qed.

(** ** the label part reports nothing *)
Lemma lcl14_nil c s k l :
  RR14 c s k -> clean (step s l) ->
  lcl14 k (obs_of (step s l) l (enabled (set_res (set_evs s []) RNone) l)) = [].
Proof.
  intros ((tr0 & Hs) & HI & HP) Hc. fold (pre s).
  assert (Hcs : clean s) by (eapply clean_step_inv'; eauto).
  assert (X : WFx s) by (rewrite Hs; apply WFx_run; rewrite <- Hs; exact Hcs).
  unfold lcl14. cbn [o_enabled o_label o_res obs_of].
  destruct (enabled (pre s) l) eqn:En; [|reflexivity]. cbn [negb]. cbv zeta.
  destruct l as [h| |op]; try reflexivity. destruct op; try reflexivity.
  - (* stop *)
    rewrite step_op by exact En.
    pose proof (C14_op_holds (pre s) 0 eq_refl) as C0.
    destruct n as [v|].
    + pose proof (C14_op_holds (pre s) v eq_refl) as Cv.
      rewrite (c14_result _ _ Cv), running_pre.
      destruct (stop_checks c s k v X HI HP) as (B1 & B2 & B3). cbv zeta in B1, B2, B3.
      rewrite B1, B2, B3. reflexivity.
    + destruct (c14_neg _ _ C0) as [Hr _]. rewrite Hr.
      cbn [length decreasing fails app]. rewrite orb_true_r. cbn [fails app].
      assert (B : forallb (fun t => mem t [] || forallb (fun i => Nat.ltb t i) []) (k_live k)
                  = true).
      { apply forallb_forall. intros t _. apply orb_true_r. }
      rewrite B. reflexivity.
  - (* stop_all *)
    rewrite step_op by exact En.
    pose proof (C14_op_holds (pre s) 0 eq_refl) as C0.
    rewrite (c14_all _ _ C0), running_pre.
    destruct (stop_checks c s k (length (rev (t_running s))) X HI HP) as (B1 & B2 & B3).
    cbv zeta in B1, B2, B3. rewrite firstn_all in B1, B2, B3.
    rewrite B2.
    assert (B3' : forallb (fun t => mem t (rev (t_running s))) (k_live k) = true).
    { apply forallb_forall. intros t Ht.
      destruct (live_running s k t (x_wf _ X) HI Ht) as (x & _ & _ & Hrun).
      apply mem_In. apply in_rev in Hrun. exact Hrun. }
    rewrite B3'.
    match goal with |- fails ?b _ ++ _ = _ => assert (B1' : b = true) end.
    { destruct HP as [[Hp' _]|(lp & enp & Hp')]; [rewrite Hp'; reflexivity|].
      unfold prev_or. rewrite Hp'. cbn [o_nr obs_of orb]. rewrite rev_length.
      apply Nat.eqb_refl. }
    rewrite B1'. reflexivity.
Qed.

(** ** one observation *)
Lemma mon_step_sound14 c s k l :
  RR14 c s k -> clean (step s l) ->
  let o := obs_of (step s l) l (enabled (set_res (set_evs s []) RNone) l) in
  fp 14 (snd (mon_step c k o)) = [] /\ RR14 c (step s l) (fst (mon_step c k o)).
Proof.
  intros HR Hc o. split.
  - rewrite mon_step_14. apply (lcl14_nil c s k l HR Hc).
  - destruct HR as ((tr0 & Hs) & HI & _).
    destruct (mon_step_C06 c k o) as (kk & _ & Hv & _ & _ & Hv' & _ & _ & Hp).
    cbv zeta in *. change (o_events o) with (evs (step s l)) in Hv.
    destruct (Inv_step (length (k_reqs (fst (on_label c k o)))) (tview k) s l HI) as [HI' _].
    rewrite <- Hv in HI'.
    split; [exists (tr0 ++ [l]); rewrite run_snoc, Hs; reflexivity|]. split.
    + rewrite Hv'. exact HI'.
    + right. eexists. eexists. exact Hp.
Qed.

Lemma mon_run_sound14 c : forall tr s k i,
  RR14 c s k -> clean (fold_left step tr s) -> mon_run c 14 k i (observe_from s tr) = None.
Proof.
  induction tr as [|l tr IH]; intros s k i HR Hc; simpl; auto.
  simpl in Hc.
  assert (Hc1 : clean (step s l)) by (eapply clean_fold_inv; eauto).
  destruct (mon_step_sound14 c s k l HR Hc1) as [Hf HR'].
  cbv zeta in Hf, HR'.
  destruct (mon_step c k _) as [k' cs]. simpl in Hf, HR'. unfold fp in Hf. rewrite Hf.
  apply IH; auto.
Qed.

Theorem mon_C14_sound : forall c tr, clean (run c tr) -> PMon.ok_C14 c (PObs.observe c tr) = true.
Proof.
  intros c tr Hc. unfold ok_C14, ok_prop, observe.
  rewrite (mon_run_sound14 c tr (init c) (trk_init c) 0); auto. apply RR14_init.
Qed.

Print Assumptions mon_C14_sound.
