(** C13 at trace level: once flush() has returned normally, no task that had finished before the
    call is still remembered in a registry.

    The invariant [WF] along clean runs is taken as a hypothesis [Hinv] (it is assembled
    elsewhere from the layer lemmas); only [I1_len], [I2_run] and [I5_dfinal] of it are used. *)
From TP Require Import PInv PInv_R_base PInv_R_tr PRun PTrace_C13_fr.

(** ** The invariant along the run, for a fixed finished task [t] and flush driver [d] *)
Definition Jt (t : nat) (s : state) : Prop :=
  exists x, get_p s t = Some x /\ p_pc x = PDone.

Definition Jd (t d : nat) (re : bool) (s : state) : Prop :=
  exists y, get_d s d = Some y /\ d_kind y = DFlush re /\
    match d_pc y with
    | DNotStarted | DWaitG1 => True
    | DWaitG2 => In t (d_snap y) \/ ~ In t (regs s)
    | DDone => d_final y = Some OResult -> ~ In t (regs s)
    | DWaitClosed => False
    end.

Definition J (t d : nat) (re : bool) (s : state) : Prop := Jt t s /\ Jd t d re s.

(** ** driver [d]'s own step *)
Lemma get_d_finish_d s d x e :
  d < length (dtasks s) ->
  get_d (finish_d s d x e) d =
  Some (set_d_final (set_d_pc (set_d_fw x None) DDone) (Some (final_of e false))).
Proof.
  intros Hlt. unfold finish_d.
  match goal with |- get_d (set_ctl (emit (put_d s d ?y) _) _) d = _ =>
    change (get_d (put_d s d y) d = Some y) end.
  apply get_d_put_d_eq; auto.
Qed.

Lemma Jd_finish_exn t d re s x e :
  d < length (dtasks s) -> d_kind x = DFlush re -> Jd t d re (finish_d s d x (Some e)).
Proof.
  intros Hlt Hk. eexists. split; [apply get_d_finish_d; auto|]. split; [exact Hk|].
  cbn. destruct e; discriminate.
Qed.

Lemma Jd_finish_ok t d re s x :
  d < length (dtasks s) -> d_kind x = DFlush re -> ~ In t (regs s) ->
  Jd t d re (finish_d s d x None).
Proof.
  intros Hlt Hk Hn. eexists. split; [apply get_d_finish_d; auto|]. split; [exact Hk|].
  cbn. intros _. exact Hn.
Qed.

Lemma not_in_true l u : not_in l u = true -> ~ In u l.
Proof. unfold not_in. intros H. apply mem_false_In. destruct (mem u l); [discriminate H|reflexivity]. Qed.

Lemma Jd_after_g2 t d re s x outer :
  d < length (dtasks s) -> d_kind x = DFlush re -> ~ In t (t_running s) ->
  (In t (d_snap x) \/ ~ In t (regs s)) ->
  Jd t d re (after_g2 s d x outer).
Proof.
  intros Hlt Hk Hnr Hc. unfold after_g2.
  assert (Hok : Jd t d re (finish_d
     (set_n_forgotten
        (set_t_cancelled (set_t_ended s (filter (not_in (d_snap x)) (t_ended s)))
           (filter (not_in (d_snap x)) (t_cancelled s)))
        (n_forgotten s +
         (length (t_ended s) - length (filter (not_in (d_snap x)) (t_ended s)) +
          (length (t_cancelled s) - length (filter (not_in (d_snap x)) (t_cancelled s))))))
     d x None)).
  { apply Jd_finish_ok; auto. rewrite In_regs. cbn.
    intros [Hu|[Hu|Hu]]; auto; apply filter_In in Hu; destruct Hu as [Hin Hf];
      apply not_in_true in Hf; (destruct Hc as [Hc|Hc]; [auto|]);
      apply Hc; apply In_regs; auto. }
  destruct outer.
  - rewrite Hk. exact Hok.
  - rewrite Hk. exact Hok.
  - apply Jd_finish_exn; auto.
  - apply Jd_finish_exn; auto.
Qed.

Lemma Jd_put t d re s y c :
  d < length (dtasks s) -> d_kind y = DFlush re ->
  match d_pc y with
  | DNotStarted | DWaitG1 => True
  | DWaitG2 => In t (d_snap y) \/ ~ In t (regs s)
  | DDone => d_final y = Some OResult -> ~ In t (regs s)
  | DWaitClosed => False
  end ->
  Jd t d re (set_ctl (put_d s d y) c).
Proof.
  intros Hlt Hk Hc. exists y. split; [|split; [exact Hk|exact Hc]].
  change (get_d (put_d s d y) d = Some y). apply get_d_put_d_eq; auto.
Qed.

Lemma Jd_start_g2 t d re s x cs re' :
  d < length (dtasks s) -> d_kind x = DFlush re -> ~ In t (t_running s) ->
  (In t cs \/ ~ In t (regs s)) ->
  Jd t d re (start_g2 s d x cs re').
Proof.
  intros Hlt Hk Hnr Hc. unfold start_g2.
  destruct (make_gather s (map TP cs) re') as [g outer].
  destruct outer; try (apply Jd_after_g2; auto).
  apply Jd_put; auto.
Qed.

Lemma In_dict_merge a b u : In u a \/ In u b -> In u (dict_merge a b).
Proof.
  unfold dict_merge. revert a. induction b as [|h b IH]; simpl; intros a H.
  - tauto.
  - apply IH. rewrite In_dict_add. destruct H as [H|[->|H]]; auto.
Qed.

Lemma Jd_after_g1 t d re s x outer :
  d < length (dtasks s) -> d_kind x = DFlush re -> ~ In t (t_running s) ->
  Jd t d re (after_g1 s d x outer).
Proof.
  intros Hlt Hk Hnr. unfold after_g1. rewrite Hk.
  assert (Hgo : Jd t d re (start_g2 (set_meta_cancelled s []) d x
                   (dict_merge (t_ended (set_meta_cancelled s []))
                               (t_cancelled (set_meta_cancelled s []))) re)).
  { apply Jd_start_g2; auto. cbn [t_ended t_cancelled set_meta_cancelled].
    destruct (in_dec Nat.eq_dec t (t_ended s)) as [He|He].
    - left. apply In_dict_merge; auto.
    - destruct (in_dec Nat.eq_dec t (t_cancelled s)) as [Hc|Hc].
      + left. apply In_dict_merge; auto.
      + right. change (regs (set_meta_cancelled s [])) with (regs s). rewrite In_regs. tauto. }
  destruct outer as [| |e|]; try exact Hgo.
  destruct e; try exact Hgo; apply Jd_finish_exn; auto.
Qed.

Lemma Jd_start_g1 t d re s x cs re' :
  d < length (dtasks s) -> d_kind x = DFlush re -> ~ In t (t_running s) ->
  Jd t d re (start_g1 s d x cs re').
Proof.
  intros Hlt Hk Hnr. unfold start_g1.
  destruct (make_gather s (map TM cs) re') as [g outer].
  destruct outer; try (apply Jd_after_g1; auto).
  apply Jd_put; auto. cbn. exact I.
Qed.

Lemma Jd_run_d t d re s :
  Jd t d re s -> ~ In t (t_running s) -> Jd t d re (run_d s d).
Proof.
  intros HJ Hnr. pose proof HJ as (y & Hy & Hk & Hc).
  pose proof (get_d_lt _ _ _ Hy) as Hlt.
  unfold run_d. rewrite Hy.
  destruct (d_pc y) eqn:Hpc.
  - cbn [d_kind set_d_fw]. rewrite Hk.
    destruct (pop_ended s (gmeta s)) as [gm ended].
    apply Jd_start_g1; auto.
  - apply Jd_after_g1; auto.
  - apply Jd_after_g2; auto.
  - destruct Hc.
  - exact HJ.
Qed.

(** [run_d] does not touch the pool tasks *)
Lemma ptasks_wake_closed l : forall s, ptasks (wake_closed s l) = ptasks s.
Proof.
  induction l as [|a l IH]; simpl; intros s; auto. rewrite IH.
  destruct (get_d s a) as [x|]; auto. destruct (fut_pending (d_fw x)); auto.
  rewrite ptasks_sched. reflexivity.
Qed.

Lemma ptasks_after_g2 s d x outer : ptasks (after_g2 s d x outer) = ptasks s.
Proof.
  unfold after_g2. destruct outer; try reflexivity;
    (destruct (d_kind x); try reflexivity);
    unfold finish_d; cbn [ptasks set_ctl emit set_evs put_d set_dtasks];
    rewrite ptasks_wake_closed; reflexivity.
Qed.

Lemma ptasks_start_g2 s d x cs re : ptasks (start_g2 s d x cs re) = ptasks s.
Proof.
  unfold start_g2. destruct (make_gather s (map TP cs) re) as [g outer].
  destruct outer; try apply ptasks_after_g2. reflexivity.
Qed.

Lemma ptasks_after_g1 s d x outer : ptasks (after_g1 s d x outer) = ptasks s.
Proof.
  unfold after_g1. destruct (d_kind x) as [re|re|]; try reflexivity.
  - destruct outer as [| |[]|]; try reflexivity; rewrite ptasks_start_g2; reflexivity.
  - destruct (if re then None else first_exception s
        (match d_g1 x with Some g => g_children g | None => [] end)); try reflexivity.
    rewrite ptasks_start_g2. reflexivity.
Qed.

Lemma ptasks_start_g1 s d x cs re : ptasks (start_g1 s d x cs re) = ptasks s.
Proof.
  unfold start_g1. destruct (make_gather s (map TM cs) re) as [g outer].
  destruct outer; try apply ptasks_after_g1. reflexivity.
Qed.

Lemma ptasks_run_d s d : ptasks (run_d s d) = ptasks s.
Proof.
  unfold run_d. destruct (get_d s d) as [x0|]; auto.
  destruct (d_pc x0); auto.
  - cbn [d_kind set_d_fw]. destruct (d_kind x0) as [re|re|].
    + destruct (pop_ended s (gmeta s)) as [gm ended]. rewrite ptasks_start_g1. reflexivity.
    + rewrite ptasks_start_g1. reflexivity.
    + destruct (closed s); reflexivity.
  - apply ptasks_after_g1.
  - apply ptasks_after_g2.
Qed.

(** ** one step *)
Lemma J_step t d re s l : WF s -> J t d re s -> J t d re (step s l).
Proof.
  intros W [HJt HJd].
  destruct W as [w1 w2 _ _ _ _ _ _ _ _].
  pose proof HJt as (x & Hx & Hpc).
  assert (Hnr : ~ In t (t_running s)).
  { intros Hin. apply (I2_run s w2 t x Hx) in Hin. rewrite Hpc in Hin. discriminate. }
  assert (Hlt : t < num_started s).
  { rewrite (I1_len s w1). eapply get_p_lt; eauto. }
  assert (Hother : l <> LRun (HT (TD d)) -> J t d re (step s l)).
  { intros Hl. pose proof HJd as (y & Hy & Hk & Hc).
    set (P := {| tp_t := t; tp_d := d; tp_n0 := num_started s; tp_R0 := regs s;
                 tp_k := d_kind y; tp_pc := d_pc y; tp_sn := d_snap y; tp_fi := d_final y |}).
    assert (HP : T P s).
    { split; [cbn; lia|]. split; [intros u Hu; left; exact Hu|]. split; [exact HJt|].
      exists y. split; auto. unfold dsame; cbn. auto. }
    apply (T_step_other P s l) in HP; [|apply (I1_len s w1)|exact Hl].
    destruct HP as (_ & H2 & H3 & (y' & Hy' & (E1 & E2 & E3 & E4))). cbn in E1, E2, E3, E4.
    split; [exact H3|].
    assert (Hr : In t (regs (step s l)) -> In t (regs s)).
    { intros Hin. destruct (H2 t Hin) as [Ho|Ho]; cbn in Ho; [exact Ho|lia]. }
    exists y'. split; [exact Hy'|]. split; [congruence|].
    rewrite E2, E3, E4. destruct (d_pc y); auto.
    - destruct Hc as [Hc|Hc]; auto.
    - intros Hf. specialize (Hc Hf). auto. }
  destruct l as [h| |o]; try (apply Hother; discriminate).
  destruct h as [[t'|m'|d']|d' c']; try (apply Hother; discriminate).
  destruct (Nat.eq_dec d' d) as [->|Hne]; [|apply Hother; congruence].
  unfold step.
  set (s0 := set_res (set_evs s []) RNone).
  assert (HT0 : Jt t s0) by exact HJt.
  assert (HD0 : Jd t d re s0) by exact HJd.
  destruct (negb (enabled s0 (LRun (HT (TD d))))); [split; assumption|].
  simpl run_handle.
  set (s1 := unsched s0 (HT (TD d))).
  assert (HT1 : Jt t s1) by exact HJt.
  assert (HD1 : Jd t d re s1) by exact HJd.
  assert (Hnr1 : ~ In t (t_running s1)) by exact Hnr.
  clearbody s1. split.
  - unfold Jt, get_p. rewrite ptasks_run_d. exact HT1.
  - apply Jd_run_d; auto.
Qed.

(** ** along a run *)
Lemma J_along c tr1 t d re :
  (forall tr, clean (run c tr) -> WF (run c tr)) ->
  J t d re (run c tr1) ->
  forall tr2, clean (run c (tr1 ++ tr2)) -> J t d re (run c (tr1 ++ tr2)).
Proof.
  intros Hinv H1 tr2. induction tr2 as [|l tr2 IH] using rev_ind; intros Hc.
  - rewrite app_nil_r. exact H1.
  - rewrite app_assoc in *. rewrite run_snoc in *.
    assert (Hc' : clean (run c (tr1 ++ tr2))) by (eapply clean_step_inv'; eauto).
    apply J_step; auto.
Qed.

Lemma step_flush s re :
  step s (LOp (OpDriver (DFlush re))) =
  sched (set_dtasks (set_res (set_evs s []) RNone)
                    (dtasks s ++ [mk_dtask (DFlush re) DNotStarted None None None None []]))
        (HT (TD (length (dtasks s)))).
Proof. reflexivity. Qed.

Theorem C13_trace' : forall c tr0 tr2 re t x,
  let tr1 := tr0 ++ [LOp (OpDriver (DFlush re))] in
  let d := length (dtasks (run c tr0)) in
  let s1 := run c tr1 in
  let s2 := run c (tr1 ++ tr2) in
  (forall tr, clean (run c tr) -> WF (run c tr)) ->
  clean s2 ->
  get_p s1 t = Some x -> p_pc x = PDone ->
  (exists y, get_d s2 d = Some y /\ d_final y = Some OResult) ->
  ~ In t (regs s2).
Proof.
  intros c tr0 tr2 re t x tr1 d s1 s2 Hinv Hc Hx Hpc (y & Hy & Hf).
  assert (H1 : J t d re s1).
  { split; [exists x; auto|].
    unfold s1, tr1. rewrite run_snoc, step_flush. fold d.
    eexists. split; [|split].
    - rewrite get_d_sched. unfold get_d. cbn [dtasks set_dtasks]. unfold d.
      apply nth_error_snoc_eq.
    - reflexivity.
    - cbn. exact I. }
  pose proof (J_along c tr1 t d re Hinv H1 tr2 Hc) as [_ (y' & Hy' & Hk & Hcl)].
  fold s2 in Hy'. assert (y' = y) by congruence. subst y'.
  pose proof (Hinv _ Hc) as W. fold s2 in W.
  assert (Hd : d_pc y = DDone).
  { apply (I5_dfinal s2 (wf5 s2 W) d y Hy). congruence. }
  rewrite Hd in Hcl. apply Hcl. exact Hf.
Qed.

(** The statement with the flush identified as the last label of [tr1] *)
Theorem C13_trace : forall c tr1 tr2 re d t x,
  let s1 := run c tr1 in
  let s2 := run c (tr1 ++ tr2) in
  (forall tr, clean (run c tr) -> WF (run c tr)) ->
  clean s2 ->
  d = length (dtasks (run c (removelast tr1))) ->
  last tr1 LGo = LOp (OpDriver (DFlush re)) ->
  tr1 <> [] ->
  get_p s1 t = Some x -> p_pc x = PDone ->
  (exists y, get_d s2 d = Some y /\ d_final y = Some OResult) ->
  ~ In t (regs s2).
Proof.
  intros c tr1 tr2 re d t x s1 s2 Hinv Hc Hd Hlast Hne Hx Hpc Hy.
  pose proof (app_removelast_last LGo Hne) as Htr. rewrite Hlast in Htr.
  unfold s1, s2 in *. rewrite Htr in Hc, Hx, Hy |- *. subst d.
  eapply (C13_trace' c (removelast tr1) tr2 re t x); eauto.
Qed.
