(** OpDriver and gather callbacks. *)
From TP Require Export PInv_G_C1.

Lemma INV_of_WF s : WF s -> Extra_G s -> INV s.
Proof. intros W X. split; [apply (wfm _ W)|split; [apply (wfg _ W)|exact X]]. Qed.

Lemma op_driver_INV s k : WF s -> Extra_G s -> INV (do_op s (OpDriver k)).
Proof.
  intros W X. cbn [do_op].
  set (s1 := match k with DGatherClose _ => set_n_gac s (S (n_gac s)) | _ => s end).
  set (new := mk_dtask k DNotStarted None None None None []).
  set (d := length (dtasks s1)).
  assert (Ed : d = length (dtasks s)) by (subst d s1; destruct k; reflexivity).
  assert (N1 : n_gac s <= n_gac s1) by (subst s1; destruct k; cbn; lia).
  assert (N2 : forall re, k = DGatherClose re -> 0 < n_gac s1).
  { subst s1. intros re ->. cbn. lia. }
  assert (F1 : mtasks s1 = mtasks s) by (subst s1; destruct k; reflexivity).
  assert (F2 : gmeta s1 = gmeta s) by (subst s1; destruct k; reflexivity).
  assert (F3 : meta_cancelled s1 = meta_cancelled s) by (subst s1; destruct k; reflexivity).
  assert (F5 : dtasks s1 = dtasks s) by (subst s1; destruct k; reflexivity).
  assert (F6 : ptasks s1 = ptasks s) by (subst s1; destruct k; reflexivity).
  assert (F7 : closed_waiters s1 = closed_waiters s) by (subst s1; destruct k; reflexivity).
  assert (F8 : locked s1 = locked s) by (subst s1; destruct k; reflexivity).
  assert (F9 : closed s1 = closed s) by (subst s1; destruct k; reflexivity).
  assert (F11 : regs s1 = regs s) by (subst s1; destruct k; reflexivity).
  assert (F14 : ctl s1 = ctl s) by (subst s1; destruct k; reflexivity).
  assert (F15 : ready s1 = ready s) by (subst s1; destruct k; reflexivity).
  clearbody s1.
  set (s2 := set_dtasks s1 (dtasks s1 ++ [new])).
  destruct (sched_form s2 (HT (TD d))) as [l EL].
  assert (GD : forall d', get_d (sched s2 (HT (TD d))) d' =
                 if Nat.ltb d' d then get_d s d' else if Nat.eqb d' d then Some new else None).
  { intros d'. rewrite EL. unfold get_d. subst s2. cbn. rewrite F5, Ed. apply nth_error_snoc. }
  assert (NOHG : forall c, ~ In (HG d c) (ready s)).
  { intros c H. destruct (X_hg _ X d c H) as [x [Hx _]].
    unfold get_d in Hx. apply nth_error_lt in Hx. lia. }
  apply (driver_frame s _ d (INV_of_WF s W X)); try (rewrite EL; subst s2; cbn; congruence).
  - intros d' Hne. rewrite GD. destruct (Nat.ltb_spec d' d); auto.
    destruct (Nat.eqb_spec d' d); [congruence|]. symmetry. apply nth_error_None. lia.
  - rewrite EL. subst s2. exact F11.
  - intros d' c Hne. rewrite sched_ready_In. subst s2. cbn. rewrite F15. split; auto.
    intros [H|H]; auto. discriminate.
  - intros c. rewrite sched_ready_In. subst s2. cbn. rewrite F15. intros [H|H]; auto. discriminate.
  - intros m. rewrite EL. subst s2. cbn. rewrite F14. auto.
  - rewrite EL. subst s2. cbn. rewrite F7. apply (X_cwnd _ X).
  - intros d'. rewrite EL at 1. subst s2. cbn [closed_waiters set_ready set_dtasks]. rewrite F7.
    intros H. destruct (X_cw _ X d' H) as [x [Hx Hp]]. exists x. split; auto.
    rewrite GD. assert (d' < d) by (unfold get_d in Hx; apply nth_error_lt in Hx; lia).
    destruct (Nat.ltb_spec d' d); [auto|lia].
  - intros x. rewrite GD, Nat.ltb_irrefl, Nat.eqb_refl. intros E; inversion E; subst x.
    constructor; subst new; cbn; try discriminate; auto.
    + intros c. rewrite sched_ready_In. subst s2. cbn. rewrite F15.
      intros [H|H]; [destruct (NOHG c H)|discriminate].
    + intros re E'. rewrite EL. subst s2. cbn. apply (N2 re E').
  - intros c H. destruct (NOHG c H).
Qed.

(** *** a child callback runs *)
Lemma gather_ok_keep S s' d g :
  mtasks s' = mtasks S -> ptasks s' = ptasks S ->
  (forall c, In c (g_children g) -> forall k, c <> TD k) ->
  (forall c, In c (g_children g) -> (In (HG d c) (ready s') <-> In (HG d c) (ready S))) ->
  gather_ok S d g -> gather_ok s' d g.
Proof.
  intros Hm Hp Hch Hr [N [C1 [C2 C3]]]. unfold gather_ok. repeat split; auto.
  - intros c Hc Hd. apply C2; auto. rewrite <- Hd. symmetry. apply tref_done_mp; auto.
  - rewrite C3. apply count_ext_in. intros c Hc. unfold cb_ran.
    rewrite (tref_done_mp S s' c); auto. f_equal. f_equal. symmetry. apply existsb_hid_iff. auto.
Qed.

Lemma gather_ok_bump s0 s' d g c :
  mtasks s' = mtasks s0 -> ptasks s' = ptasks s0 ->
  (forall c, In c (g_children g) -> forall k, c <> TD k) ->
  (forall c', In (HG d c') (ready s') <-> In (HG d c') (ready s0) /\ c' <> c) ->
  In c (g_children g) -> tref_done s0 c = true -> In (HG d c) (ready s0) ->
  gather_ok s0 d g -> gather_ok s' d (set_g_nfin g (S (g_nfin g))).
Proof.
  intros Hm Hp Hch Hr Hin Hdone Hrd [N [C1 [C2 C3]]]. unfold gather_ok. cbn. repeat split; auto.
  - intros c0 Hc Hd. apply C2; auto. rewrite <- Hd. symmetry. apply tref_done_mp; auto.
  - rewrite C3. symmetry. apply (count_flip (cb_ran s0 d) (cb_ran s' d) (g_children g) c); auto.
    + unfold cb_ran. rewrite Hdone. simpl. apply existsb_hid_In in Hrd. rewrite Hrd. reflexivity.
    + unfold cb_ran. rewrite (tref_done_mp s0 s' c); auto. rewrite Hdone. simpl.
      apply negb_true_iff. apply existsb_hid_false. intros H. apply Hr in H. tauto.
    + intros c0 Hc0 Hne. unfold cb_ran. rewrite (tref_done_mp s0 s' c0); auto. f_equal. f_equal.
      apply existsb_hid_iff. rewrite Hr. tauto.
Qed.

Lemma gather_cb_pending re n o nfin :
  exists outer, gather_cb re n o nfin FPending = (S nfin, outer) /\
    (outer = FPending \/ (outer = FOk /\ S nfin = n) \/ (re = false /\ exists e, outer = FExc e)).
Proof.
  unfold gather_cb. destruct re.
  - destruct (Nat.eqb_spec (S nfin) n); eexists; (split; [reflexivity|]); [right; left; auto|left; auto].
  - destruct o.
    + destruct (Nat.eqb_spec (S nfin) n); eexists; (split; [reflexivity|]); [right; left; auto|left; auto].
    + eexists; split; [reflexivity|]. right; right. split; auto. eexists; reflexivity.
    + eexists; split; [reflexivity|]. right; right. split; auto. eexists; reflexivity.
Qed.

Lemma gather_all_done s d g c :
  gather_ok s d g -> In c (g_children g) -> tref_done s c = true -> In (HG d c) (ready s) ->
  S (g_nfin g) = length (g_children g) ->
  forall c', In c' (g_children g) -> tref_done s c' = true.
Proof.
  intros [N [C1 [C2 C3]]] Hin Hdone Hrd Hn c' Hc'.
  destruct (tref_eqb_spec c' c) as [->|Hne]; auto.
  (* count of cb_ran over children = length - 1, with c not counted: every other child counted *)
  assert (E : count (fun y => cb_ran s d y || tref_eqb y c) (g_children g) = length (g_children g)).
  { rewrite <- Hn, C3.
    apply (count_flip (cb_ran s d) (fun y => cb_ran s d y || tref_eqb y c) (g_children g) c); auto.
    - unfold cb_ran. rewrite Hdone. simpl. apply existsb_hid_In in Hrd. rewrite Hrd. reflexivity.
    - rewrite tref_eqb_refl. apply orb_true_r.
    - intros x Hx Hnx. destruct (tref_eqb_spec x c); [congruence|]. apply orb_false_r. }
  pose proof (count_full _ _ E c' Hc') as H. simpl in H.
  destruct (tref_eqb_spec c' c); [congruence|]. rewrite orb_false_r in H.
  unfold cb_ran in H. apply andb_true_iff in H. tauto.
Qed.

Definition fw_step (wpc : dpc) (x : dtask) (g : gather) (fw' : option fut) : Prop :=
  (fw' = d_fw x /\ ~ (d_pc x = wpc /\ d_fw x = Some FPending)) \/
  (d_pc x = wpc /\ d_fw x = Some FPending /\
   exists outer, fw' = Some outer /\
     (outer = FPending \/ (outer = FOk /\ S (g_nfin g) = length (g_children g)) \/
      (g_re g = false /\ exists e, outer = FExc e))).

Lemma Dcl_bump1 s s' d x x' g c :
  Dcl s d x -> d_g1 x = Some g -> In c (g_children g) -> tref_done s c = true ->
  In (HG d c) (ready s) ->
  mtasks s' = mtasks s -> ptasks s' = ptasks s -> locked s' = locked s -> n_gac s' = n_gac s ->
  regs s' = regs s -> ctl s' = ctl s ->
  (forall c', In (HG d c') (ready s') <-> In (HG d c') (ready s) /\ c' <> c) ->
  d_kind x' = d_kind x -> d_pc x' = d_pc x -> d_snap x' = d_snap x -> d_g2 x' = d_g2 x ->
  d_g1 x' = Some (set_g_nfin g (S (g_nfin g))) ->
  fw_step DWaitG1 x g (d_fw x') ->
  Dcl s' d x'.
Proof.
  intros D Eg Hin Hdone Hrd Hm Hp Hl Hn Hrg Hctl Hr Ek Epc Esn Eg2 Eg1 FW.
  destruct (D_gath1 _ _ _ D g Eg) as [GA GB].
  assert (TM1 : forall c0, In c0 (g_children g) -> forall k, c0 <> TD k).
  { intros c0 H0 k. destruct (GB c0 H0) as [m ->]. discriminate. }
  assert (TP2 : forall g2, d_g2 x = Some g2 -> forall c0, In c0 (g_children g2) -> forall k, c0 <> TD k).
  { intros g2 E2 c0 H0 k. destruct (D_gath2 _ _ _ D g2 E2) as [_ B]. destruct (B c0 H0) as [m ->]. discriminate. }
  assert (NC2 : forall g2, d_g2 x = Some g2 -> forall c0, In c0 (g_children g2) -> c0 <> c).
  { intros g2 E2 c0 H0 ->. destruct (D_gath2 _ _ _ D g2 E2) as [_ B]. destruct (B c H0) as [t ->].
    destruct (GB _ Hin) as [m Hm']. discriminate. }
  assert (GM : forall k, get_m s' k = get_m s k) by (intros; unfold get_m; rewrite Hm; auto).
  constructor.
  - rewrite Epc, Eg1. intros P1 P2 g0 E0. inversion E0; subst g0.
    destruct FW as [[F1 F2]|[F1 [F2 [outer [F3 F4]]]]].
    + exfalso. apply F2. split; congruence.
    + eapply gather_ok_bump; eauto. eapply (D_g1 _ _ _ D); eauto.
  - rewrite Epc, Eg2. intros P1 P2 g0 E0.
    destruct FW as [[F1 F2]|[F1 [F2 [outer [F3 F4]]]]]; [|congruence].
    eapply gather_ok_keep; eauto.
    + intros c0 H0. rewrite Hr. pose proof (NC2 g0 E0 c0 H0). tauto.
    + eapply (D_g2 _ _ _ D); eauto. congruence.
  - rewrite Eg1. discriminate.
  - rewrite Epc, Eg2, Esn. apply (D_has2 _ _ _ D).
  - rewrite Epc, Eg1. intros P1 P2 g0 E0 c0 H0. inversion E0; subst g0. cbn in H0.
    rewrite (tref_done_mp s s' c0); eauto.
    destruct FW as [[F1 F2]|[F1 [F2 [outer [F3 F4]]]]].
    + eapply (D_ok1 _ _ _ D); eauto. congruence.
    + assert (outer = FOk) by congruence. subst outer.
      destruct F4 as [F4|[[_ F4]|[_ [e F4]]]]; try discriminate.
      apply (gather_all_done s d g c); auto. eapply (D_g1 _ _ _ D); eauto.
  - rewrite Epc, Eg2. intros P1 P2 g0 E0 c0 H0. rewrite (tref_done_mp s s' c0); eauto.
    destruct FW as [[F1 F2]|[F1 [F2 [outer [F3 F4]]]]]; [|congruence].
    eapply (D_ok2 _ _ _ D); eauto. congruence.
  - intros c0 H0. apply Hr in H0. destruct H0 as [H0 _].
    destruct (D_hg _ _ _ D c0 H0) as [A B]. split.
    + rewrite (tref_done_mp s s' c0); auto. intros k ->. exact B.
    + destruct c0; cbn in *; auto.
      * rewrite Eg2. exact B.
      * rewrite Eg1. destruct B as [g0 [E0 B]]. rewrite Eg in E0. inversion E0; subst g0.
        eexists; split; eauto.
  - rewrite Ek, Epc, Eg1. intros re g0 K1 K2 E0. inversion E0; subst g0. cbn.
    destruct (D_gac1 _ _ _ D re g K1 K2 Eg) as [A B]. split; [congruence|].
    intros m y. rewrite GM. apply B.
  - rewrite Ek, Hn. apply (D_ngac _ _ _ D).
  - rewrite Ek, Epc, Esn, Hl, Hrg. intros re K1 K2.
    destruct (D_gac2 _ _ _ D re K1 K2) as [A [B C]]. split; [auto|split; auto].
    intros m y. rewrite GM. apply B.
  - rewrite Ek, Epc, Eg1. intros re K1 K2. destruct (D_xgac1 _ _ _ D re K1 K2) as [A B]. split.
    + destruct FW as [[F1 F2]|[F1 [F2 [outer [F3 F4]]]]]; [congruence|].
      rewrite F3. destruct F4 as [->|[[-> _]|[F4 _]]]; auto.
      rewrite (B g Eg) in F4. discriminate.
    + intros g0 E0. inversion E0; subst g0. cbn. apply B; auto.
  - rewrite Ek, Epc, Hctl. apply (D_nouser _ _ _ D).
  - rewrite Eg1. intros g0 E0. inversion E0; subst g0. cbn. split; auto.
  - rewrite Eg2. apply (D_gath2 _ _ _ D).
  - rewrite Epc. intros P1. destruct (D_none1 _ _ _ D P1). congruence.
  - rewrite Epc, Eg2. apply (D_none2 _ _ _ D).
Qed.

Lemma Dcl_bump2 s s' d x x' g c :
  Dcl s d x -> d_g2 x = Some g -> In c (g_children g) -> tref_done s c = true ->
  In (HG d c) (ready s) ->
  mtasks s' = mtasks s -> ptasks s' = ptasks s -> locked s' = locked s -> n_gac s' = n_gac s ->
  regs s' = regs s -> ctl s' = ctl s ->
  (forall c', In (HG d c') (ready s') <-> In (HG d c') (ready s) /\ c' <> c) ->
  d_kind x' = d_kind x -> d_pc x' = d_pc x -> d_snap x' = d_snap x -> d_g1 x' = d_g1 x ->
  d_g2 x' = Some (set_g_nfin g (S (g_nfin g))) ->
  fw_step DWaitG2 x g (d_fw x') ->
  Dcl s' d x'.
Proof.
  intros D Eg Hin Hdone Hrd Hm Hp Hl Hn Hrg Hctl Hr Ek Epc Esn Eg1 Eg2 FW.
  destruct (D_gath2 _ _ _ D g Eg) as [GA GB].
  assert (TP2 : forall c0, In c0 (g_children g) -> forall k, c0 <> TD k).
  { intros c0 H0 k. destruct (GB c0 H0) as [m ->]. discriminate. }
  assert (TM1 : forall g1, d_g1 x = Some g1 -> forall c0, In c0 (g_children g1) -> forall k, c0 <> TD k).
  { intros g1 E1 c0 H0 k. destruct (D_gath1 _ _ _ D g1 E1) as [_ B]. destruct (B c0 H0) as [m ->]. discriminate. }
  assert (NC1 : forall g1, d_g1 x = Some g1 -> forall c0, In c0 (g_children g1) -> c0 <> c).
  { intros g1 E1 c0 H0 ->. destruct (D_gath1 _ _ _ D g1 E1) as [_ B]. destruct (B c H0) as [t ->].
    destruct (GB _ Hin) as [m Hm']. discriminate. }
  assert (GM : forall k, get_m s' k = get_m s k) by (intros; unfold get_m; rewrite Hm; auto).
  constructor.
  - rewrite Epc, Eg1. intros P1 P2 g0 E0.
    destruct FW as [[F1 F2]|[F1 [F2 [outer [F3 F4]]]]]; [|congruence].
    eapply gather_ok_keep; eauto.
    + intros c0 H0. rewrite Hr. pose proof (NC1 g0 E0 c0 H0). tauto.
    + eapply (D_g1 _ _ _ D); eauto. congruence.
  - rewrite Epc, Eg2. intros P1 P2 g0 E0. inversion E0; subst g0.
    destruct FW as [[F1 F2]|[F1 [F2 [outer [F3 F4]]]]].
    + exfalso. apply F2. split; congruence.
    + eapply gather_ok_bump; eauto. eapply (D_g2 _ _ _ D); eauto.
  - rewrite Epc, Eg1. apply (D_has1 _ _ _ D).
  - rewrite Epc, Eg2, Esn. intros P1. destruct (D_has2 _ _ _ D P1) as [g0 [E0 C0]].
    rewrite Eg in E0. inversion E0; subst g0. eexists; split; eauto.
  - rewrite Epc, Eg1. intros P1 P2 g0 E0 c0 H0. rewrite (tref_done_mp s s' c0); eauto.
    destruct FW as [[F1 F2]|[F1 [F2 [outer [F3 F4]]]]]; [|congruence].
    eapply (D_ok1 _ _ _ D); eauto. congruence.
  - rewrite Epc, Eg2. intros P1 P2 g0 E0 c0 H0. inversion E0; subst g0. cbn in H0.
    rewrite (tref_done_mp s s' c0); eauto.
    destruct FW as [[F1 F2]|[F1 [F2 [outer [F3 F4]]]]].
    + eapply (D_ok2 _ _ _ D); eauto. congruence.
    + assert (outer = FOk) by congruence. subst outer.
      destruct F4 as [F4|[[_ F4]|[_ [e F4]]]]; try discriminate.
      apply (gather_all_done s d g c); auto. eapply (D_g2 _ _ _ D); eauto.
  - intros c0 H0. apply Hr in H0. destruct H0 as [H0 _].
    destruct (D_hg _ _ _ D c0 H0) as [A B]. split.
    + rewrite (tref_done_mp s s' c0); auto. intros k ->. exact B.
    + destruct c0; cbn in *; auto.
      * rewrite Eg2. destruct B as [g0 [E0 B]]. rewrite Eg in E0. inversion E0; subst g0.
        eexists; split; eauto.
      * rewrite Eg1. exact B.
  - rewrite Ek, Epc, Eg1, Hl. intros re g0 K1 K2 E0.
    destruct (D_gac1 _ _ _ D re g0 K1 K2 E0) as [A B]. split; [congruence|].
    intros m y. rewrite GM. apply B.
  - rewrite Ek, Hn. apply (D_ngac _ _ _ D).
  - rewrite Ek, Epc, Esn, Hl, Hrg. intros re K1 K2.
    destruct (D_gac2 _ _ _ D re K1 K2) as [A [B C]]. split; [auto|split; auto].
    intros m y. rewrite GM. apply B.
  - rewrite Ek, Epc, Eg1. intros re K1 K2. destruct (D_xgac1 _ _ _ D re K1 K2) as [A B]. split; auto.
    destruct FW as [[F1 F2]|[F1 [F2 [outer [F3 F4]]]]]; congruence.
  - rewrite Ek, Epc, Hctl. apply (D_nouser _ _ _ D).
  - rewrite Eg1. apply (D_gath1 _ _ _ D).
  - rewrite Eg2. intros g0 E0. inversion E0; subst g0. cbn. split; auto.
  - rewrite Epc. intros P1. destruct (D_none1 _ _ _ D P1). congruence.
  - rewrite Epc. intros P1. pose proof (D_none2 _ _ _ D P1). congruence.
Qed.

Lemma set_ready_id s : set_ready s (ready s) = s.
Proof. destruct s; reflexivity. Qed.

Lemma run_g_frame s d c x x' l :
  WF s -> Extra_G s -> get_d s d = Some x -> d_pc x' = d_pc x ->
  (forall d' c', In (HG d' c') l <-> In (HG d' c') (ready s) /\ HG d' c' <> HG d c) ->
  Dcl (set_ready (put_d (unsched s (HG d c)) d x') l) d x' ->
  INV (set_ready (put_d (unsched s (HG d c)) d x') l).
Proof.
  intros W X Hx Epc Hl HD.
  assert (LT : Nat.ltb d (length (dtasks s)) = true).
  { apply Nat.ltb_lt. unfold get_d in Hx. eapply nth_error_lt; eauto. }
  assert (GD : forall d', get_d (set_ready (put_d (unsched s (HG d c)) d x') l) d' =
                          if Nat.eqb d d' then Some x' else get_d s d').
  { intros d'. change (get_d (set_ready (put_d (unsched s (HG d c)) d x') l) d')
      with (get_d (put_d (unsched s (HG d c)) d x') d').
    rewrite get_d_put_d. change (length (dtasks (unsched s (HG d c)))) with (length (dtasks s)).
    rewrite LT. reflexivity. }
  apply (driver_frame s _ d (INV_of_WF s W X)); try reflexivity.
  - intros d' Hne. rewrite GD. destruct (Nat.eqb_spec d d'); congruence.
  - intros d' c' Hne. cbn [ready set_ready]. rewrite Hl. split; [tauto|]. intros H. split; auto. congruence.
  - intros c'. cbn [ready set_ready]. rewrite Hl. tauto.
  - intros k H. exact H.
  - apply (X_cwnd _ X).
  - intros d' H. destruct (X_cw _ X d' H) as [y [Hy Hp]]. rewrite GD.
    destruct (Nat.eqb_spec d d') as [->|]; [|eauto].
    exists x'. split; auto. rewrite Hx in Hy. inversion Hy; subst y. congruence.
  - intros y. rewrite GD, Nat.eqb_refl. intros E; inversion E; subst y. exact HD.
  - intros c' _. rewrite GD, Nat.eqb_refl. eauto.
Qed.

Lemma run_g_leaf s d c x x' :
  WF s -> Extra_G s -> get_d s d = Some x -> d_pc x' = d_pc x ->
  (forall l, (forall c', In (HG d c') l <-> In (HG d c') (ready s) /\ c' <> c) ->
             Dcl (set_ready (put_d (unsched s (HG d c)) d x') l) d x') ->
  INV (put_d (unsched s (HG d c)) d x') /\
  INV (sched (put_d (unsched s (HG d c)) d x') (HT (TD d))).
Proof.
  intros W X Hx Epc HD.
  assert (K : forall l,
    (forall d' c', In (HG d' c') l <-> In (HG d' c') (ready s) /\ HG d' c' <> HG d c) ->
    INV (set_ready (put_d (unsched s (HG d c)) d x') l)).
  { intros l Hl. eapply run_g_frame; eauto. apply HD. intros c'. rewrite Hl.
    split; intros [A B]; split; auto; congruence. }
  split.
  - rewrite <- (set_ready_id (put_d (unsched s (HG d c)) d x')). apply K.
    intros d' c'. change (ready (put_d (unsched s (HG d c)) d x')) with (ready (unsched s (HG d c))).
    apply unsched_ready_In.
  - destruct (sched_form (put_d (unsched s (HG d c)) d x') (HT (TD d))) as [l EL].
    pose proof (sched_ready_In (put_d (unsched s (HG d c)) d x') (HT (TD d))) as HS.
    rewrite EL in *. apply K. intros d' c'. cbn [ready set_ready] in HS. rewrite HS.
    change (ready (put_d (unsched s (HG d c)) d x')) with (ready (unsched s (HG d c))).
    rewrite unsched_ready_In. split; [|tauto]. intros [H|H]; [auto|discriminate].
Qed.

Lemma tref_final_done s c : tref_done s c = true -> exists o, tref_final s c = Some o.
Proof. unfold tref_done. destruct (tref_final s c); eauto. discriminate. Qed.

Ltac bump1 W X Hx Eg Hin Hdone Hr :=
  intros l Hl;
  eapply (Dcl_bump1 _ _ _ _ _ _ _ (Dcl_of _ _ _ (wfg _ W) X Hx) Eg Hin Hdone Hr);
  try reflexivity; try exact Hl.

Ltac bump2 W X Hx Eg Hin Hdone Hr :=
  intros l Hl;
  eapply (Dcl_bump2 _ _ _ _ _ _ _ (Dcl_of _ _ _ (wfg _ W) X Hx) Eg Hin Hdone Hr);
  try reflexivity; try exact Hl.

Lemma step_run_g s d c :
  WF s -> Extra_G s -> In (HG d c) (ready s) -> INV (run_g (unsched s (HG d c)) d c).
Proof.
  intros W X Hr.
  destruct (X_hg _ X d c Hr) as [x [Hx Hch]].
  pose proof (IG_hg _ (wfg _ W) d c Hr) as Hdone.
  destruct (tref_final_done _ _ Hdone) as [o Ho].
  unfold run_g.
  change (get_d (unsched s (HG d c)) d) with (get_d s d).
  change (tref_final (unsched s (HG d c)) c) with (tref_final s c).
  rewrite Hx, Ho.
  destruct c as [t|m|k]; [| |destruct Hch].
  - (* phase 2 *)
    destruct Hch as [g [Eg Hin]]. rewrite Eg.
    assert (NP : forall x', d_pc x' = d_pc x -> d_kind x' = d_kind x -> d_snap x' = d_snap x ->
                   d_g1 x' = d_g1 x -> d_g2 x' = Some (set_g_nfin g (S (g_nfin g))) ->
                   fw_step DWaitG2 x g (d_fw x') ->
                   INV (put_d (unsched s (HG d (TP t))) d x') /\
                   INV (sched (put_d (unsched s (HG d (TP t))) d x') (HT (TD d)))).
    { intros x' E1 E2 E3 E4 E5 E6. apply (run_g_leaf s d (TP t) x x' W X Hx E1).
      bump2 W X Hx Eg Hin Hdone Hr; auto. }
    destruct (d_pc x) eqn:PC; cbn [fst snd];
      try (apply NP; try reflexivity; try exact PC; left; split; [reflexivity|intros [A _]; congruence]).
    destruct (d_fw x) as [[| |e|]|] eqn:FW;
      try (apply NP; try reflexivity; try exact PC; left; split; [reflexivity|intros [_ A]; congruence]).
    destruct (gather_cb_pending (g_re g) (length (g_children g)) o (g_nfin g)) as [outer [EO HO]].
    rewrite EO.
    destruct outer; apply NP; try reflexivity; try exact PC;
      (right; (split; [exact PC|split; [exact FW|]]);
       eexists; (split; [cbn; first [reflexivity|exact FW]|exact HO])).
  - (* phase 1 *)
    destruct Hch as [g [Eg Hin]]. rewrite Eg.
    assert (NP : forall x', d_pc x' = d_pc x -> d_kind x' = d_kind x -> d_snap x' = d_snap x ->
                   d_g2 x' = d_g2 x -> d_g1 x' = Some (set_g_nfin g (S (g_nfin g))) ->
                   fw_step DWaitG1 x g (d_fw x') ->
                   INV (put_d (unsched s (HG d (TM m))) d x') /\
                   INV (sched (put_d (unsched s (HG d (TM m))) d x') (HT (TD d)))).
    { intros x' E1 E2 E3 E4 E5 E6. apply (run_g_leaf s d (TM m) x x' W X Hx E1).
      bump1 W X Hx Eg Hin Hdone Hr; auto. }
    destruct (d_pc x) eqn:PC; cbn [fst snd];
      try (apply NP; try reflexivity; try exact PC; left; split; [reflexivity|intros [A _]; congruence]).
    destruct (d_fw x) as [[| |e|]|] eqn:FW;
      try (apply NP; try reflexivity; try exact PC; left; split; [reflexivity|intros [_ A]; congruence]).
    destruct (gather_cb_pending (g_re g) (length (g_children g)) o (g_nfin g)) as [outer [EO HO]].
    rewrite EO.
    destruct outer; apply NP; try reflexivity; try exact PC;
      (right; (split; [exact PC|split; [exact FW|]]);
       eexists; (split; [cbn; first [reflexivity|exact FW]|exact HO])).
Qed.
