(** Monitor soundness for C08 — both taint preconditions of [mon_C08_sound] are needed
    (witnesses, by [vm_compute]). *)
From TP Require Import PMon PRun PExamples.

(** P-self (open finding D11): a worker cancels itself from its final segment; its task ends
    cancelled, gather_and_close(return_exceptions=False) then ends cancelled although no user
    exception was ever raised: [C08_returns_normally]. *)
Definition tr_self8 : list label :=
  [ LOp (OpApply 1 [] false w_sp CbNone CbNone None); LRun (HT (TM 0)); LRun (HT (TP 0)); LGo;
    LOp (OpFinish 0 FinReturn); LRun (HT (TP 0)); LOp (OpCancel [0]); LGo;
    LOp (OpDriver (DGatherClose false)); LRun (HT (TD 0)) ].

Example C08_needs_P_self :
  let s := run cfg2 tr_self8 in
  clean s /\ taint_iter s = false /\ taint_self s = true /\
  mon_run cfg2 8 (trk_init cfg2) 0 (observe cfg2 tr_self8) = Some (9, C08_returns_normally).
Proof. vm_compute. repeat split; reflexivity. Qed.

(** P-iter: a map request's group is cancelled from inside its own argument iterator; the name is
    reused by an apply request, the old consumer goes on and files its tasks under the reused
    name, so that when gather_and_close() returns the apply request's group holds three tasks
    instead of one: [C08_requests_complete]. *)
Definition w_ret8 : wspec := {| w_first := WReturn; w_cancel := WPropagate |}.
Definition elr8 : elem := {| e_bad := false; e_w := w_ret8 |}.
Definition tr_iter8 : list label :=
  [ LOp (OpMap 0 [elr8; elr8] 2 false CbNone CbNone (Some (GUser 1)));
    LRun (HT (TM 0));
    LOp (OpCancelGroup (GUser 1));
    LOp (OpApply 1 [] false w_ret8 CbNone CbNone (Some (GUser 1)));
    LGo; LGo; LGo;
    LRun (HT (TM 1));
    LRun (HT (TP 0)); LGo; LRun (HT (TP 1)); LGo;
    LRun (HT (TM 1));
    LRun (HT (TP 2)); LGo;
    LOp (OpDriver (DGatherClose true)); LRun (HT (TD 0)) ].

Example C08_needs_P_iter :
  let s := run cfg2 tr_iter8 in
  clean s /\ taint_iter s = true /\ taint_self s = false /\
  mon_run cfg2 8 (trk_init cfg2) 0 (observe cfg2 tr_iter8) = Some (16, C08_requests_complete).
Proof. vm_compute. repeat split; reflexivity. Qed.
