(** The kinds of the driver records never change (and records are only appended by OpDriver). *)
From TP Require Import PInv PInv_P_base PInv_P_view PInv_P_inv PInv_P_tok PInv_P_tok2
  PInv_P_chain PInv_P_step PInv_P_ed PSpecStep.

Definition KD (L : list dkind) (s : state) : Prop := map d_kind (dtasks s) = L.

Definition okL (L : list dkind) (d : nat) (x : dtask) : Prop :=
  forall k, nth_error L d = Some k -> k = d_kind x.

Lemma XC_dt L s s' : dtasks s' = dtasks s -> KD L s -> KD L s'.
Proof. unfold KD. intros ->. auto. Qed.

Lemma XC_pv L s s' : pview s' = pview s -> KD L s -> KD L s'.
Proof. intros E. apply XC_dt. change (vds (pview s') = vds (pview s)). now rewrite E. Qed.

Lemma XC_Qpv L : Qpv (KD L).
Proof. intros s s'. apply XC_pv. Qed.

Lemma XC_Qreg L : Qreg (KD L).
Proof.
  intros s m x. apply XC_dt. change (vds (pview (register s m x)) = vds (pview s)).
  rewrite pv_register. reflexivity.
Qed.

Lemma map_upd_same {A B} (f : A -> B) (l : list A) d x :
  (forall y, nth_error l d = Some y -> f x = f y) -> map f (upd l d x) = map f l.
Proof.
  revert d. induction l as [|h r IH]; intros [|d] H; simpl; auto.
  - f_equal. apply H. reflexivity.
  - f_equal. apply IH. intros y Hy. apply H. exact Hy.
Qed.

Lemma okL_get L s d x y : KD L s -> okL L d x -> get_d s d = Some y -> d_kind x = d_kind y.
Proof.
  unfold KD, okL, get_d. intros <- H Hy. symmetry. apply H.
  rewrite nth_error_map, Hy. reflexivity.
Qed.

Lemma okL_of_get L s d x : KD L s -> get_d s d = Some x -> okL L d x.
Proof.
  unfold KD, okL, get_d. intros <- Hx k. rewrite nth_error_map, Hx. simpl. congruence.
Qed.

Lemma okL_kind L d x x' : d_kind x' = d_kind x -> okL L d x -> okL L d x'.
Proof. unfold okL. intros -> H. exact H. Qed.

Lemma XC_do_cancel L s ids : KD L s -> KD L (do_cancel s ids).
Proof.
  intros H. unfold do_cancel. destruct (first_lookup_err s ids).
  - eapply XC_pv; [|exact H]. reflexivity.
  - apply fold_inv; auto. intros s0 a. apply XC_dt, dt_cancel_p.
Qed.

Lemma XC_cancel_group_body L s g ids : KD L s -> KD L (cancel_group_body s g ids).
Proof.
  intros H. unfold cancel_group_body. apply fold_inv.
  - intros s0 t H0. destruct (mem t (t_running s0)); auto. eapply XC_dt; [apply dt_cancel_p|auto].
  - eapply XC_pv; [|exact H]. rewrite pv_mark_dead. apply pv_cancel_group_metas.
Qed.

Lemma XC_cancel_all_groups L gs : forall s, KD L s -> KD L (cancel_all_groups s gs).
Proof.
  induction gs as [|[g ids] r IH]; simpl; intros s H; auto.
  apply IH. now apply XC_cancel_group_body.
Qed.

Lemma XC_stop_res L s ids :
  KD L s -> KD L (match res s with RErr _ => s | _ => set_res s (RIds ids) end).
Proof. intros H. destruct (res s); auto; (eapply XC_pv; [|exact H]; reflexivity). Qed.

Lemma XC_put_d L s d x' : KD L s -> okL L d x' -> KD L (put_d s d x').
Proof.
  intros H Hx. unfold KD, put_d. cbn [dtasks set_dtasks]. rewrite map_upd_same; auto.
  intros y Hy. eapply okL_get; eauto.
Qed.

Lemma XC_sched L s h : KD L s -> KD L (sched s h).
Proof. apply XC_pv, pv_sched. Qed.

Lemma XC_finish_d L s d x e : KD L s -> okL L d x -> KD L (finish_d s d x e).
Proof.
  intros H Hx. unfold finish_d. eapply XC_dt with (s := put_d s d _); [reflexivity|].
  apply XC_put_d; auto.
Qed.

Lemma XC_wake_closed L ds : forall s, KD L s -> KD L (wake_closed s ds).
Proof.
  induction ds as [|d r IH]; simpl; intros s H; auto. apply IH.
  destruct (get_d s d) as [x|] eqn:Ex; auto. destruct (fut_pending _); auto.
  apply XC_sched, XC_put_d; auto. eapply okL_kind; [|eapply okL_of_get; eauto]. reflexivity.
Qed.

Lemma XC_after_g2 L s d x outer : KD L s -> okL L d x -> KD L (after_g2 s d x outer).
Proof.
  intros H Hx. unfold after_g2.
  destruct outer; try (now apply XC_finish_d); destruct (d_kind x); try (now apply XC_finish_d);
    apply XC_finish_d; auto; try apply XC_wake_closed; (eapply XC_dt; [|exact H]; reflexivity).
Qed.

Lemma XC_start_g2 L s d x cs re : KD L s -> okL L d x -> KD L (start_g2 s d x cs re).
Proof.
  intros H Hx. unfold start_g2. destruct (make_gather _ _ _) as [g outer].
  destruct outer; try (now apply XC_after_g2).
  eapply XC_dt with (s := put_d s d _); [reflexivity|]. apply XC_put_d; auto.
Qed.

Lemma XC_after_g1 L s d x outer : KD L s -> okL L d x -> KD L (after_g1 s d x outer).
Proof.
  intros H Hx. unfold after_g1. destruct (d_kind x).
  - assert (Hgo : forall cs, KD L (start_g2 (set_meta_cancelled s []) d x cs re)).
    { intros cs. apply XC_start_g2; auto. }
    destruct outer as [| |e|]; auto. destruct e; auto using XC_finish_d.
  - destruct (if re then None else _); [now apply XC_finish_d|].
    apply XC_start_g2; auto.
  - now apply XC_finish_d.
Qed.

Lemma XC_start_g1 L s d x cs re : KD L s -> okL L d x -> KD L (start_g1 s d x cs re).
Proof.
  intros H Hx. unfold start_g1. destruct (make_gather _ _ _) as [g outer].
  destruct outer; try (now apply XC_after_g1).
  eapply XC_dt with (s := put_d s d _); [reflexivity|]. apply XC_put_d; auto.
Qed.

Lemma XC_run_d L s d : KD L s -> KD L (run_d s d).
Proof.
  intros H. unfold run_d. destruct (get_d s d) as [x0|] eqn:Ex; auto.
  pose proof (okL_of_get L s d x0 H Ex) as Hx.
  assert (Hx' : okL L d (set_d_fw x0 None)) by (eapply okL_kind; eauto; reflexivity).
  destruct (d_pc x0); auto.
  - destruct (d_kind (set_d_fw x0 None)) eqn:Ek.
    + destruct (pop_ended s (gmeta s)) as [gm ended]. apply XC_start_g1; auto.
    + apply XC_start_g1; auto.
    + destruct (closed s); [now apply XC_finish_d|].
      eapply XC_dt with (s := put_d _ d _); [reflexivity|]. apply XC_put_d; auto.
  - now apply XC_after_g1.
  - now apply XC_after_g2.
  - apply XC_finish_d; auto.
Qed.

Lemma XC_run_g L s d c : KD L s -> KD L (run_g s d c).
Proof.
  intros H. unfold run_g. destruct (get_d s d) as [x|] eqn:Ex; auto.
  destruct (tref_final s c); auto.
  pose proof (okL_of_get L s d x H Ex) as Hx.
  repeat (first [assumption | apply XC_sched | apply XC_put_d; [assumption|] | dmatch]);
    (eapply okL_kind; [|exact Hx]); reflexivity.
Qed.

Definition drv_kinds (l : label) (en : bool) : list dkind :=
  match l with LOp (OpDriver kd) => if en then [kd] else [] | _ => [] end.

Lemma XC_do_op L s o :
  KD L s -> KD (L ++ drv_kinds (LOp o) true) (do_op s o).
Proof.
  intros H.
  assert (Hnil : forall s', KD L s' -> match o with OpDriver _ => True | _ =>
                   KD (L ++ drv_kinds (LOp o) true) s' end).
  { intros s' H'. destruct o; auto; cbn [drv_kinds]; rewrite app_nil_r; exact H'. }
  destruct (op_other o) eqn:Eo.
  { destruct (op_driver o) eqn:Ed.
    - destruct o; try discriminate; unfold do_op.
      { apply (Hnil (set_locked (if Nat.ltb 0 (n_gac s) then set_taint_unlock s true else s) false)).
        eapply XC_dt; [|exact H]. destruct (Nat.ltb 0 (n_gac s)); reflexivity. }
      apply XC_sched. unfold KD in *. cbn [dtasks set_dtasks drv_kinds].
      assert (Hd : dtasks (match k with
                           | DGatherClose _ => set_n_gac s (S (n_gac s)) | _ => s end) = dtasks s)
        by (destruct k; reflexivity).
      rewrite Hd, map_app, H. reflexivity.
    - specialize (Hnil (do_op s o)). destruct o; try discriminate; apply Hnil;
        (eapply XC_pv; [apply pv_do_op_other; auto|auto]). }
  destruct o; try discriminate; unfold do_op; cbn [drv_kinds]; rewrite app_nil_r.
  - now apply XC_do_cancel.
  - assert (Hk : KD L (know s g)) by (eapply XC_pv; eauto using pv_know).
    destruct (glookup g (groups (know s g))).
    + apply XC_cancel_group_body. eapply XC_pv; [|exact Hk]; reflexivity.
    + eapply XC_pv; [|apply Hk]. reflexivity.
  - apply XC_cancel_all_groups. eapply XC_pv; [|exact H]; reflexivity.
  - apply XC_stop_res. now apply XC_do_cancel.
  - apply XC_stop_res. now apply XC_do_cancel.
  - destruct (get_p s tid) as [x|] eqn:Ex; auto. apply XC_sched.
    eapply XC_dt; [|exact H]; reflexivity.
  - destruct (get_p s tid) as [x|] eqn:Ex; auto. apply XC_sched.
    eapply XC_dt; [|exact H]; reflexivity.
Qed.

Lemma KD_step s l :
  map d_kind (dtasks (step s l)) =
  map d_kind (dtasks s) ++ drv_kinds l (enabled (set_res (set_evs s []) RNone) l).
Proof.
  assert (H : KD (map d_kind (dtasks s)) s) by reflexivity.
  set (L := map d_kind (dtasks s)) in *.
  assert (H1 : KD L (set_res (set_evs s []) RNone)) by (eapply XC_dt; [|exact H]; reflexivity).
  unfold step. destruct (enabled _ l) eqn:En; cbn [negb].
  2:{ replace (drv_kinds l false) with (@nil dkind) by (destruct l as [| |[]]; reflexivity).
      rewrite app_nil_r. exact H1. }
  destruct l as [h| |o].
  - cbn [drv_kinds]. rewrite app_nil_r.
    assert (H2 : KD L (unsched (set_res (set_evs s []) RNone) h))
      by (eapply XC_dt; [|exact H1]; reflexivity).
    destruct h as [[t|m|d]|d c]; cbn [run_handle].
    + eapply XC_dt; [apply dt_run_p|auto].
    + apply (Q_run_m (KD L) (XC_Qpv L) (XC_Qreg L)); auto.
    + now apply XC_run_d.
    + now apply XC_run_g.
  - cbn [drv_kinds]. rewrite app_nil_r. destruct (ctl _) as [|[t|m|d]]; auto.
    + eapply XC_dt; [apply dt_continue_p|auto].
    + apply (Q_continue_m (KD L) (XC_Qpv L) (XC_Qreg L)); auto.
  - now apply XC_do_op.
Qed.
