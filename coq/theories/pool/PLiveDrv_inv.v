(** Waiting API calls return — the gather invariant [GPR].

    Two facts about the gathers a driver waits on that no clause of [WFx] states:

      - [gp_ok]: while the outer future of a gather is still pending, fewer child callbacks have
        been counted than the gather has children ([g_nfin g < length (g_children g)]) — the
        outer future is set to a result by the callback that counts the last child;
      - [gr_ok]: the children of a first gather are spawners that exist ([TM m],
        [m < length (mtasks s)]), the children of a second gather are pool tasks that exist.

    Both only depend on the driver records and on the lengths of the two task tables, which
    never shrink; the driver records are only touched by [run_d], [run_g] and [OpDriver].
    [GPR_run]: [GPR] holds in every state reached by a clean run. *)
From TP Require Import PInv PRun PWF PInv_G_C3 PStep_C_drv PStep_B_mr PStep_B_inv
  PStep_D_base PStep_D_k PStep_D_drv PStep_D PMonSound7_pu.
From Coq Require Import Lia.
Import ListNotations.

Unset Implicit Arguments.

(** ** gathers: a pending outer future has an uncounted child *)
Definition g_open (g : gather) : Prop := g_nfin g < length (g_children g).

Lemma gather_cb_stays re n o nfin outer nf :
  gather_cb re n o nfin outer = (nf, FPending) -> outer = FPending /\ S nfin <> n /\ nf = S nfin.
Proof.
  unfold gather_cb. destruct outer; try (intros H; inversion H; fail).
  destruct (if re then None else match o with OCancelled => Some ECancelled | OExc e => Some e
                                         | OResult => None end);
    [intros H; inversion H|].
  destruct (Nat.eqb_spec (S nfin) n); intros H; inversion H. auto.
Qed.

Lemma gather_eager_open s re n : forall cs nfin outer cbs nfin' cbs',
  gather_eager s cs re n nfin outer cbs = (nfin', FPending, cbs') ->
  nfin + length cs <= n -> (outer = FPending -> nfin < n) -> nfin' < n.
Proof.
  induction cs as [|c t IH]; intros nfin outer cbs nfin' cbs' H Hle Ho.
  - cbn in H. inversion H; subst. auto.
  - cbn [gather_eager] in H. cbn [length] in Hle.
    destruct (tref_final s c) as [o|].
    + destruct (gather_cb re n o nfin outer) as [nf ou] eqn:EG.
      pose proof (gather_cb_fst re n o nfin outer) as F1. rewrite EG in F1. cbn in F1. subst nf.
      eapply IH; [exact H|lia|].
      intros ->. destruct (gather_cb_stays _ _ _ _ _ _ EG) as (_ & Hne & _). lia.
    + eapply IH; [exact H|lia|]. intros E. specialize (Ho E). lia.
Qed.

Lemma make_gather_open s cs re g :
  make_gather s cs re = (g, FPending) -> g_open g.
Proof.
  intros H. destruct (make_gather_spec _ _ _ _ _ H) as (Hc & _).
  unfold g_open. rewrite Hc. revert H. unfold make_gather. destruct cs as [|c0 t].
  - intros H; inversion H.
  - set (cs := c0 :: t).
    destruct (gather_eager s cs re (length cs) 0 FPending []) as [[nfin ou] cbs] eqn:E.
    intros H; inversion H; subst g ou. cbn [g_nfin].
    eapply gather_eager_open; [exact E|lia|]. intros _. subst cs. cbn. lia.
Qed.

(** ** the invariant *)
Definition gp_ok (x : dtask) : Prop :=
  (d_pc x = DWaitG1 -> d_fw x = Some FPending -> forall g, d_g1 x = Some g -> g_open g) /\
  (d_pc x = DWaitG2 -> d_fw x = Some FPending -> forall g, d_g2 x = Some g -> g_open g).

Definition gr1 (nm : nat) (x : dtask) : Prop :=
  forall g c, d_g1 x = Some g -> In c (g_children g) -> exists m, c = TM m /\ m < nm.
Definition gr2 (np : nat) (x : dtask) : Prop :=
  forall g c, d_g2 x = Some g -> In c (g_children g) -> exists t, c = TP t /\ t < np.

Definition dok (nm np : nat) (x : dtask) : Prop := gp_ok x /\ gr1 nm x /\ gr2 np x.

Definition GPRn (nm np : nat) (ds : list dtask) : Prop :=
  forall d x, nth_error ds d = Some x -> dok nm np x.

Definition GPR (s : state) : Prop := GPRn (length (mtasks s)) (length (ptasks s)) (dtasks s).

Lemma dok_mono nm np nm' np' x : nm <= nm' -> np <= np' -> dok nm np x -> dok nm' np' x.
Proof.
  intros Hm Hp (A & B & C). split; [exact A|split].
  - intros g c G Hc. destruct (B g c G Hc) as (m & -> & Hlt). exists m. split; auto. lia.
  - intros g c G Hc. destruct (C g c G Hc) as (t & -> & Hlt). exists t. split; auto. lia.
Qed.

Lemma GPR_frame s s' :
  dtasks s' = dtasks s -> length (mtasks s) <= length (mtasks s') ->
  length (ptasks s) <= length (ptasks s') -> GPR s -> GPR s'.
Proof.
  intros Ed Hm Hp H d x G. unfold GPR in *. rewrite Ed in G.
  eapply dok_mono; [exact Hm|exact Hp|]. exact (H d x G).
Qed.

Lemma GPR_put_d s d x' :
  GPR s -> dok (length (mtasks s)) (length (ptasks s)) x' -> GPR (put_d s d x').
Proof.
  intros H Hx d' x G. unfold GPR, put_d in G. cbn [dtasks set_dtasks] in G.
  rewrite nth_error_upd in G. unfold GPR, put_d. cbn [mtasks ptasks set_dtasks].
  destruct (Nat.eqb d d').
  - destruct (Nat.ltb d (length (dtasks s))); [|discriminate]. inversion G; subst. exact Hx.
  - exact (H d' x G).
Qed.

Lemma dok_woken nm np x x' : woken x x' -> dok nm np x -> dok nm np x'.
Proof.
  intros [->|[_ ->]] H; auto. destruct H as (A & B & C). split; [|split; [exact B|exact C]].
  split; cbn [d_fw set_d_fw]; intros _ E; discriminate.
Qed.

Lemma GPR_wake_closed ds s : GPR s -> GPR (wake_closed s ds).
Proof.
  intros H d x' G. destruct (wake_closed_frame ds s) as (F1 & F2 & _).
  rewrite F1, F2. destruct (wake_closed_get ds s d x' G) as (x & Gx & W & _).
  eapply dok_woken; [exact W|]. exact (H d x Gx).
Qed.

Lemma dok_done nm np x o :
  gr1 nm x -> gr2 np x -> dok nm np (set_d_final (set_d_pc (set_d_fw x None) DDone) o).
Proof.
  intros B C. split; [|split; [exact B|exact C]].
  split; cbn [d_pc set_d_final set_d_pc]; intros E; discriminate.
Qed.

Lemma GPR_finish_d s d x e :
  GPR s -> gr1 (length (mtasks s)) x -> gr2 (length (ptasks s)) x -> GPR (finish_d s d x e).
Proof.
  intros H B C. unfold finish_d. cbv zeta.
  apply (GPR_frame (put_d s d (set_d_final (set_d_pc (set_d_fw x None) DDone)
                                            (Some (final_of e false))))); try reflexivity.
  apply GPR_put_d; auto. apply dok_done; auto.
Qed.

Lemma GPR_after_g2 s d x outer :
  GPR s -> gr1 (length (mtasks s)) x -> gr2 (length (ptasks s)) x -> GPR (after_g2 s d x outer).
Proof.
  intros H B C. unfold after_g2.
  assert (Main : GPR (match d_kind x with
       | DFlush _ =>
           let snap := d_snap x in
           let e' := filter (not_in snap) (t_ended s) in
           let c' := filter (not_in snap) (t_cancelled s) in
           let n := (length (t_ended s) - length e') + (length (t_cancelled s) - length c') in
           let s := set_n_forgotten (set_t_cancelled (set_t_ended s e') c') (n_forgotten s + n) in
           finish_d s d x None
       | DGatherClose _ =>
           let n := length (t_ended s) + length (t_cancelled s) + length (t_running s) in
           let s := set_n_forgotten
                      (set_t_running (set_t_cancelled (set_t_ended s []) []) [])
                      (n_forgotten s + n) in
           let s := set_closed s true in
           let s := wake_closed s (closed_waiters s) in
           finish_d s d x None
       | DUntilClosed => finish_d s d x None
       end)).
  { cbv zeta. destruct (d_kind x).
    - apply GPR_finish_d; auto.
    - match goal with |- GPR (finish_d (wake_closed ?s2 ?l) _ _ _) =>
        destruct (wake_closed_frame l s2) as (F1 & F2 & _);
        apply GPR_finish_d; [apply GPR_wake_closed; exact H|rewrite F2; exact B|rewrite F1; exact C]
      end.
    - apply GPR_finish_d; auto. }
  destruct outer; try exact Main; apply GPR_finish_d; auto.
Qed.

Lemma gr2_new np x g cs :
  g_children g = map TP cs -> (forall t, In t cs -> t < np) ->
  gr2 np (set_d_snap (set_d_g2 x (Some g)) cs).
Proof.
  intros Hc Hr g' c G Hi. cbn [d_g2 set_d_snap set_d_g2] in G. inversion G; subst g'.
  rewrite Hc in Hi. apply in_map_iff in Hi. destruct Hi as (t & <- & Ht). eauto.
Qed.

Lemma GPR_start_g2 s d x cs re :
  GPR s -> gr1 (length (mtasks s)) x -> (forall t, In t cs -> t < length (ptasks s)) ->
  GPR (start_g2 s d x cs re).
Proof.
  intros H B Hr. unfold start_g2.
  destruct (make_gather s (map TP cs) re) as [g outer] eqn:E.
  destruct (make_gather_spec _ _ _ _ _ E) as (Hc & _).
  assert (C : gr2 (length (ptasks s)) (set_d_snap (set_d_g2 x (Some g)) cs))
    by (apply gr2_new; auto).
  assert (B' : gr1 (length (mtasks s)) (set_d_snap (set_d_g2 x (Some g)) cs)) by exact B.
  destruct outer; try (apply GPR_after_g2; auto; fail).
  apply (GPR_frame (put_d s d (set_d_fw (set_d_pc (set_d_snap (set_d_g2 x (Some g)) cs) DWaitG2)
                                         (Some FPending)))); try reflexivity.
  apply GPR_put_d; auto. split; [|split; [exact B'|exact C]].
  split; cbn [d_pc d_fw d_g1 d_g2 set_d_fw set_d_pc set_d_snap set_d_g2].
  - intros X; discriminate.
  - intros _ _ g' G. inversion G; subst g'. eapply make_gather_open; eauto.
Qed.

Definition regs_lt (s : state) : Prop := forall t, In t (regs s) -> t < length (ptasks s).

Lemma GPR_after_g1 s d x outer :
  GPR s -> gr1 (length (mtasks s)) x -> gr2 (length (ptasks s)) x -> regs_lt s ->
  GPR (after_g1 s d x outer).
Proof.
  intros H B C Hr. unfold after_g1. destruct (d_kind x).
  - assert (Hgo : GPR (start_g2 (set_meta_cancelled s []) d x
                         (dict_merge (t_ended (set_meta_cancelled s []))
                                     (t_cancelled (set_meta_cancelled s []))) re)).
    { apply GPR_start_g2; auto. intros t Ht. unfold dict_merge in Ht.
      apply In_fold_dict_add in Ht. apply Hr. unfold regs. cbn in Ht.
      rewrite !in_app_iff. tauto. }
    cbv zeta beta. destruct outer as [| |e|]; auto. destruct e; auto; apply GPR_finish_d; auto.
  - destruct (if re then None else first_exception s _).
    + apply GPR_finish_d; auto.
    + cbv zeta. apply GPR_start_g2; auto. intros t Ht. apply Hr. unfold regs.
      cbn in Ht. rewrite !in_app_iff in *. tauto.
  - apply GPR_finish_d; auto.
Qed.

Lemma gr1_new nm x g cs :
  g_children g = map TM cs -> (forall m, In m cs -> m < nm) -> gr1 nm (set_d_g1 x (Some g)).
Proof.
  intros Hc Hr g' c G Hi. cbn [d_g1 set_d_g1] in G. inversion G; subst g'.
  rewrite Hc in Hi. apply in_map_iff in Hi. destruct Hi as (m & <- & Hm). eauto.
Qed.

Lemma GPR_start_g1 s d x cs re :
  GPR s -> gr2 (length (ptasks s)) x -> (forall m, In m cs -> m < length (mtasks s)) ->
  regs_lt s -> GPR (start_g1 s d x cs re).
Proof.
  intros H C Hm Hr. unfold start_g1.
  destruct (make_gather s (map TM cs) re) as [g outer] eqn:E.
  destruct (make_gather_spec _ _ _ _ _ E) as (Hc & _).
  assert (B : gr1 (length (mtasks s)) (set_d_g1 x (Some g))) by (apply (gr1_new _ _ _ cs); auto).
  assert (C' : gr2 (length (ptasks s)) (set_d_g1 x (Some g))) by exact C.
  destruct outer; try (apply GPR_after_g1; auto; fail).
  apply (GPR_frame (put_d s d (set_d_fw (set_d_pc (set_d_g1 x (Some g)) DWaitG1)
                                         (Some FPending)))); try reflexivity.
  apply GPR_put_d; auto. split; [|split; [exact B|exact C']].
  split; cbn [d_pc d_fw d_g1 d_g2 set_d_fw set_d_pc set_d_g1].
  - intros _ _ g' G. inversion G; subst g'. eapply make_gather_open; eauto.
  - intros X; discriminate.
Qed.

Definition metas_lt (s : state) : Prop :=
  forall m, In m (meta_cancelled s ++ concat (map snd (gmeta s))) -> m < length (mtasks s).

Lemma is_done_m_lt s m : is_done_m s m = true -> m < length (mtasks s).
Proof.
  unfold is_done_m, tref_final, get_m. intros H. apply nth_error_Some.
  destruct (nth_error (mtasks s) m); [discriminate|discriminate].
Qed.

Lemma GPR_run_d s d : GPR s -> metas_lt s -> regs_lt s -> GPR (run_d s d).
Proof.
  intros H Hm Hr. unfold run_d. destruct (get_d s d) as [x0|] eqn:G; auto.
  destruct (H d x0 G) as (_ & B & C).
  assert (B' : gr1 (length (mtasks s)) (set_d_fw x0 None)) by exact B.
  assert (C' : gr2 (length (ptasks s)) (set_d_fw x0 None)) by exact C.
  cbv zeta. destruct (d_pc x0).
  - change (d_kind (set_d_fw x0 None)) with (d_kind x0). destruct (d_kind x0).
    + destruct (pop_ended s (gmeta s)) as [gm ended] eqn:EP.
      apply GPR_start_g1; auto.
      intros m Hi. cbn [mtasks set_gmeta meta_cancelled] in *. apply in_app_iff in Hi.
      destruct Hi as [Hi|Hi].
      * apply Hm. apply in_or_app. auto.
      * pose proof (pop_ended_snd s (gmeta s)) as E. rewrite EP in E. cbn in E. subst ended.
        apply filter_In in Hi. destruct Hi as [_ Hi]. apply is_done_m_lt. exact Hi.
    + apply GPR_start_g1; auto.
    + destruct (closed s).
      * apply GPR_finish_d; auto.
      * apply (GPR_frame (put_d (set_closed_waiters s (closed_waiters s ++ [d])) d
                                 (set_d_fw (set_d_pc (set_d_fw x0 None) DWaitClosed)
                                           (Some FPending)))); try reflexivity.
        apply GPR_put_d; [apply (GPR_frame s); auto|].
        split; [|split; [exact B|exact C]].
        split; cbn [d_pc set_d_fw set_d_pc]; intros X; discriminate.
  - apply GPR_after_g1; auto.
  - apply GPR_after_g2; auto.
  - apply GPR_finish_d; [apply (GPR_frame s); auto|exact B|exact C].
  - exact H.
Qed.

Lemma GPR_sched s h : GPR s -> GPR (sched s h).
Proof. intros H. unfold sched. destruct (is_ready s h); exact H. Qed.

Lemma GPR_run_g s d c : GPR s -> GPR (run_g s d c).
Proof.
  intros H. unfold run_g. destruct (get_d s d) as [x|] eqn:G; auto.
  destruct (tref_final s c) as [o|]; auto.
  destruct (H d x G) as ((A1 & A2) & B & C).
  set (phase1 := match c with TM _ => true | _ => false end).
  set (active := match d_pc x, phase1 with
                 | DWaitG1, true | DWaitG2, false => true | _, _ => false end).
  destruct (if phase1 then d_g1 x else d_g2 x) as [g|] eqn:Eg; auto.
  (* the record with a new counter: range facts are kept *)
  assert (R : forall n, gr1 (length (mtasks s))
                          (if phase1 then set_d_g1 x (Some (set_g_nfin g n))
                           else set_d_g2 x (Some (set_g_nfin g n))) /\
                        gr2 (length (ptasks s))
                          (if phase1 then set_d_g1 x (Some (set_g_nfin g n))
                           else set_d_g2 x (Some (set_g_nfin g n)))).
  { intros n. destruct phase1; split; intros g' c' G' Hc'; cbn in G'.
    - inversion G'; subst g'. exact (B g c' Eg Hc').
    - exact (C g' c' G' Hc').
    - exact (B g' c' G' Hc').
    - inversion G'; subst g'. exact (C g c' Eg Hc'). }
  destruct (if active then d_fw x else None) as [[| | |]|] eqn:Ef;
    try (apply GPR_put_d; auto; destruct (R (S (g_nfin g))) as [R1 R2];
         split; [|split; [exact R1|exact R2]];
         destruct active eqn:Ea; [|discriminate Ef];
         split; intros P F; destruct phase1; cbn in P, F |- *; try congruence;
         fail).
  - (* active, pending *)
    destruct (gather_cb (g_re g) (length (g_children g)) o (g_nfin g) FPending) as [nfin outer] eqn:EG.
    destruct (R nfin) as [R1 R2].
    assert (Hact : active = true) by (destruct active; [auto|discriminate Ef]).
    rewrite Hact in Ef.
    destruct outer.
    + apply GPR_put_d; auto. split; [|split; [exact R1|exact R2]].
      destruct (gather_cb_stays _ _ _ _ _ _ EG) as (_ & Hne & ->).
      unfold active in Hact.
      split; intros P F g' G'; destruct phase1; cbn in P, F, G' |- *.
      * inversion G'; subst g'. unfold g_open. cbn. specialize (A1 P Ef g Eg). unfold g_open in A1. lia.
      * rewrite P in Hact. discriminate.
      * rewrite P in Hact. discriminate.
      * inversion G'; subst g'. unfold g_open. cbn. specialize (A2 P Ef g Eg). unfold g_open in A2. lia.
    + apply GPR_sched. apply GPR_put_d; auto. split; [|split].
      * split; intros _ F; cbn in F; discriminate.
      * destruct phase1; exact R1.
      * destruct phase1; exact R2.
    + apply GPR_sched. apply GPR_put_d; auto. split; [|split].
      * split; intros _ F; cbn in F; discriminate.
      * destruct phase1; exact R1.
      * destruct phase1; exact R2.
    + apply GPR_sched. apply GPR_put_d; auto. split; [|split].
      * split; intros _ F; cbn in F; discriminate.
      * destruct phase1; exact R1.
      * destruct phase1; exact R2.
  - (* not waiting on this gather (or no future): the counter moves, the clause is vacuous or
       concerns the other gather *)
    apply GPR_put_d; auto. destruct (R (S (g_nfin g))) as [R1 R2].
    split; [|split; [exact R1|exact R2]].
    unfold active in Ef.
    split; intros P F g' G'; destruct phase1; cbn in P, F, G' |- *; rewrite P in Ef;
      try congruence.
    + apply (A1 P F g' G').
    + apply (A2 P F g' G').
Qed.

Lemma GPR_op_driver s k : GPR s -> GPR (do_op s (OpDriver k)).
Proof.
  intros H. unfold do_op.
  set (s1 := match k with DGatherClose _ => set_n_gac s (S (n_gac s)) | _ => s end).
  assert (H1 : GPR s1) by (unfold s1; destruct k; exact H).
  assert (E1 : dtasks s1 = dtasks s) by (unfold s1; destruct k; reflexivity).
  clearbody s1. apply GPR_sched.
  intros d x G. cbn [dtasks set_dtasks mtasks ptasks] in *.
  destruct (Nat.lt_ge_cases d (length (dtasks s1))) as [Hlt|Hge].
  - rewrite nth_error_app1 in G by exact Hlt. exact (H1 d x G).
  - rewrite nth_error_app2 in G by exact Hge.
    destruct (d - length (dtasks s1)) as [|n]; [|destruct n; discriminate G].
    cbn in G. inversion G; subst x. split; [|split].
    + split; cbn; intros X; discriminate.
    + intros g c X; discriminate.
    + intros g c X; discriminate.
Qed.

(** ** steps that run no driver leave the driver records alone; the task tables never shrink *)
Definition drv_step_label (l : label) : bool :=
  match l with
  | LRun (HT (TD _)) | LRun (HG _ _) | LOp (OpDriver _) => true
  | _ => false
  end.

Lemma K_step_other s l : WF s -> Extra_D s -> drv_step_label l = false -> K s (step s l).
Proof.
  intros W ED Hl. pose proof ED as [HP [HD HC]].
  pose proof (K_init s ED) as K0.
  assert (Hnd : forall t y, get_p s t = Some y -> p_pc y <> PDone -> p_final y = None).
  { intros t y G Hp. destruct (p_final y) eqn:F; auto. exfalso. apply Hp.
    apply (I2_final _ (wf2 _ W) t y G). congruence. }
  unfold step. cbv zeta.
  set (s' := set_res (set_evs s []) RNone).
  assert (K' : K s s') by (unfold s'; ks; exact K0).
  destruct (negb (enabled s' l)) eqn:En; [exact K'|].
  apply negb_false_iff in En.
  destruct l as [h| |o].
  - assert (KU : K s (unsched s' h)) by (ks; exact K').
    destruct h as [[t|m|d]|d c]; try discriminate Hl; cbn [run_handle].
    + apply K_run_p; auto. exact (Hnd t).
    + apply K_run_m; auto.
  - change (ctl s') with (ctl s). destruct (ctl s) as [|[t|m|d]]; auto.
    + apply K_continue_p; auto. exact (Hnd t).
    + apply K_continue_m; auto.
  - cbn [enabled] in En. apply K_do_op; auto. destruct o; try exact I. discriminate Hl.
Qed.

Lemma len_mono {A} (P : A -> A -> Prop) (l l' : list A) :
  (forall t x, nth_error l t = Some x -> exists x', nth_error l' t = Some x' /\ P x x') ->
  length l <= length l'.
Proof.
  intros H. destruct (Nat.le_gt_cases (length l) (length l')) as [|Hgt]; auto. exfalso.
  destruct (nth_error l (length l')) as [x|] eqn:E.
  - destruct (H _ _ E) as (x' & E' & _).
    assert (length l' < length l') by (apply nth_error_Some; congruence). lia.
  - apply nth_error_None in E. lia.
Qed.

Lemma plen_step s l : length (ptasks s) <= length (ptasks (step s l)).
Proof. exact (len_mono _ _ _ (UP7_step s l)). Qed.

Lemma mlen_step s l : length (mtasks s) <= length (mtasks (step s l)).
Proof.
  destruct (spawn_l l) eqn:Hs.
  - destruct (step_spawn s l Hs) as (_ & _ & [[Em _]|(x & Em & _)]); rewrite Em.
    + apply le_n.
    + rewrite app_length. cbn. lia.
  - pose proof (MR_step s l Hs) as M. destruct M as [L _ _ _ _]. rewrite L. apply le_n.
Qed.

(** ** preservation *)
Lemma GPR_step s l : WFx s -> GPR s -> GPR (step s l).
Proof.
  intros X H. pose proof (x_wf _ X) as W.
  destruct (drv_step_label l) eqn:Hl.
  2:{ apply (GPR_frame s); auto using plen_step, mlen_step.
      exact (k_d (K_step_other s l W (x_d _ X) Hl)). }
  assert (Hm : metas_lt s) by exact (IM_lt _ (wfm _ W)).
  assert (Hr : regs_lt s).
  { intros t Ht. rewrite <- (I1_len _ (wf1 _ W)). exact (I1_lt _ (wf1 _ W) t Ht). }
  unfold step. cbv zeta.
  set (s' := set_res (set_evs s []) RNone).
  assert (H' : GPR s') by exact H.
  destruct (negb (enabled s' l)); [exact H'|].
  destruct l as [[[t|m|d]|d c]| |o]; try discriminate Hl; cbn [run_handle].
  - apply GPR_run_d; [exact H|exact Hm|exact Hr].
  - apply GPR_run_g. exact H.
  - destruct o; try discriminate Hl. apply GPR_op_driver. exact H'.
Qed.

Lemma GPR_init c : GPR (init c).
Proof. intros d x G. cbn in G. destruct d; discriminate G. Qed.

(** [WFx] together with [GPR]: holds in every state reached by a clean run *)
Definition WFg (s : state) : Prop := WFx s /\ GPR s.

Theorem WFg_run c tr : clean (run c tr) -> WFg (run c tr).
Proof.
  apply (inv_run WFg).
  - intros c0. split; [apply WFx_init|apply GPR_init].
  - intros s l [X H] Hc. split; [apply WFx_step; auto|apply GPR_step; auto].
Qed.

Corollary GPR_run c tr : clean (run c tr) -> GPR (run c tr).
Proof. intros Hc. exact (proj2 (WFg_run c tr Hc)). Qed.
