(** Waiting API calls return — flush() needs no precondition on the pool size.

    The first gather of a flush() only has children that were, when it was created, finished
    spawners or spawners of a cancelled group (the members of [_meta_tasks_cancelled]; a live
    spawner whose group was not cancelled is still filed under its group, [IM_reg], hence not in
    that list, [IM_nodup]).  "Finished or group cancelled" ([Pm], PStep_D_base.v) is stable
    ([Pm_step]), so it holds of those children for ever: invariant [FL].  With the spawner
    invariant [MC] (PLiveDrv_mc.v) a spawner of a cancelled group has finished in every state
    where the cooperative environment can do nothing more ([stuck_dead_done]) — so a flush() is
    never the driver that waits for a spawner for ever ([flush_done_when_stuck]).

    The same fact shows that the hypothesis of [drivers_settled_when_stuck] is the weakest for
    gather_and_close(): if some gather_and_close() has returned normally in a stuck state, every
    spawner has finished ([gac_return_spawners_done]). *)
From TP Require Import PInv PRun PWF PInv_G_D PStep_B_mr PStep_B_inv PStep_D_base PStep_D_drv
  PRest PRest_nc PLive_run.
From TP Require Export PLiveDrv_mc PLiveDrv_stuck.
From Coq Require Import Lia.
Import ListNotations.

Unset Implicit Arguments.

(** ** "finished or group cancelled" is stable *)
Lemma dead_mono_cgb s g ids m y :
  get_m s m = Some y -> m_dead y = true ->
  exists y', get_m (cancel_group_body s g ids) m = Some y' /\ m_dead y' = true.
Proof.
  intros G D. unfold cancel_group_body. fold (cgm_dead s g).
  destruct (k_get _ _ _ (cgm_dead_spec s g) m y G) as (x1 & G1 & (_ & D1 & _) & _).
  assert (H : exists y', get_m (cgm_dead s g) m = Some y' /\ m_dead y' = true).
  { exists (dead_after g x1). split; [exact G1|].
    destruct (dead_after_props g x1) as (_ & _ & _ & _ & _ & _ & Dm & _). apply Dm. congruence. }
  clear G1. revert H. generalize (cgm_dead s g). clear.
  induction ids as [|t r IH]; intros s0 H; cbn [fold_left]; [exact H|].
  apply IH. destruct (mem t (t_running s0)); [|exact H].
  unfold get_m. rewrite mt_cancel_p. exact H.
Qed.

Lemma dead_mono_cag gs : forall s m y,
  get_m s m = Some y -> m_dead y = true ->
  exists y', get_m (cancel_all_groups s gs) m = Some y' /\ m_dead y' = true.
Proof.
  induction gs as [|[g ids] r IH]; intros s m y G D; cbn [cancel_all_groups]; [eauto|].
  destruct (dead_mono_cgb s g ids m y G D) as (y1 & G1 & D1). exact (IH _ m y1 G1 D1).
Qed.

Lemma dead_mono_kill s o m y :
  kill_op o = true -> get_m s m = Some y -> m_dead y = true ->
  exists y', get_m (do_op s o) m = Some y' /\ m_dead y' = true.
Proof.
  intros K G D. destruct o; try discriminate K; unfold do_op.
  - assert (Gk : get_m (know s g) m = Some y).
    { unfold know. destruct (existsb _ _); exact G. }
    destruct (glookup g (groups (know s g))) as [ids|].
    + apply (dead_mono_cgb _ g ids m y); [exact Gk|exact D].
    + exists y. split; [exact Gk|exact D].
  - apply (dead_mono_cag _ _ m y); [exact G|exact D].
Qed.

Lemma spawn_old s l m y :
  spawn_l l = true -> get_m s m = Some y -> get_m (step s l) m = Some y.
Proof.
  intros Hs G. destruct (step_spawn s l Hs) as (_ & _ & [[Em _]|(x & Em & _)]);
    unfold get_m in *; rewrite Em.
  - exact G.
  - change (mtasks (reset s)) with (mtasks s). rewrite nth_error_app1; [exact G|].
    apply nth_error_Some. congruence.
Qed.

(** a finished spawner is not changed by its own (void) moves *)
Lemma act_done s l m y :
  WF s -> get_m s m = Some y -> m_pc y = MDone -> act l s = Some m ->
  get_m (step s l) m = Some y.
Proof.
  intros W G Hpc Ha. destruct l as [[[t|k|d]|d c]| |o]; cbn [act] in Ha; try discriminate Ha.
  - inversion Ha; subst k. unfold step. cbv zeta. destruct (negb _); [exact G|].
    cbn [run_handle]. rewrite (run_m_done _ m y); [exact G|exact G|exact Hpc].
  - destruct (ctl s) as [|[t|k|d]] eqn:Hc; try discriminate Ha. inversion Ha; subst k.
    apply (I5_muser _ (wf5 _ W) m y G) in Hc. congruence.
Qed.

Lemma Pm_step s l m y :
  WF s -> get_m s m = Some y -> Pm y -> exists y', get_m (step s l) m = Some y' /\ Pm y'.
Proof.
  intros W G HP. destruct (spawn_l l) eqn:Hs.
  { exists y. split; [apply spawn_old; auto|exact HP]. }
  pose proof (MR_step s l Hs) as M.
  destruct (MR_rec _ _ _ _ M m y G) as (y' & G' & _ & Hd & Hpas).
  destruct HP as [Hf|Hdead].
  - assert (Hpc : m_pc y = MDone) by (apply (I5_mfinal _ (wf5 _ W) m y G); exact Hf).
    assert (Hdec : act l s = Some m \/ act l s <> Some m).
    { destruct (act l s) as [k|]; [|right; discriminate].
      destruct (Nat.eq_dec k m) as [->|Hne]; [left; reflexivity|right; congruence]. }
    destruct Hdec as [Ha|Hna].
    + exists y. split; [apply act_done; auto|left; exact Hf].
    + exists y'. split; [exact G'|]. left. destruct (Hpas Hna) as (_ & _ & Hfin & _). congruence.
  - exists y'. split; [exact G'|]. right. destruct (kill_l l) eqn:Hk.
    + destruct l as [h| |o]; try discriminate Hk. cbn [kill_l] in Hk.
      unfold step in G'. cbv zeta in G'.
      destruct (negb (enabled (set_res (set_evs s []) RNone) (LOp o))).
      * change (get_m s m = Some y') in G'. congruence.
      * destruct (dead_mono_kill (set_res (set_evs s []) RNone) o m y Hk G Hdead) as (y2 & G2 & D2).
        congruence.
    + rewrite (Hd eq_refl). exact Hdead.
Qed.

(** ** the invariant [FL]: the children of a flush()'s first gather are finished or cancelled *)
Definition pm_at (s : state) (m : nat) : Prop := exists y, get_m s m = Some y /\ Pm y.

Definition fl_ok (s : state) (x : dtask) : Prop :=
  forall re g m, d_kind x = DFlush re -> d_g1 x = Some g -> In (TM m) (g_children g) -> pm_at s m.

Definition FL (s : state) : Prop := forall d x, get_d s d = Some x -> fl_ok s x.

Lemma fl_ok_mt s s' x : mtasks s' = mtasks s -> fl_ok s x -> fl_ok s' x.
Proof.
  intros E H re g m K G Hc. destruct (H re g m K G Hc) as (y & Gy & Hy).
  exists y. split; [|exact Hy]. unfold get_m. rewrite E. exact Gy.
Qed.

Lemma FL_frame s s' : dtasks s' = dtasks s -> mtasks s' = mtasks s -> FL s -> FL s'.
Proof.
  intros Ed Em H d x G. unfold get_d in G. rewrite Ed in G.
  apply (fl_ok_mt s s' x Em). exact (H d x G).
Qed.

Lemma FL_put_d s d x' : FL s -> fl_ok s x' -> FL (put_d s d x').
Proof.
  intros H Hx d' x G. unfold get_d, put_d in G. cbn [dtasks set_dtasks] in G.
  rewrite nth_error_upd in G. apply (fl_ok_mt s); [reflexivity|].
  destruct (Nat.eqb d d').
  - destruct (Nat.ltb d (length (dtasks s))); [|discriminate]. inversion G; subst. exact Hx.
  - exact (H d' x G).
Qed.

Lemma FL_sched s h : FL s -> FL (sched s h).
Proof. intros H. unfold sched. destruct (is_ready s h); exact H. Qed.

Lemma FL_wake_closed ds s : FL s -> FL (wake_closed s ds).
Proof.
  intros H d x' G. destruct (wake_closed_get ds s d x' G) as (x & Gx & W & _).
  apply (fl_ok_mt s); [apply mt_wake_closed|].
  destruct W as [->|[_ ->]]; exact (H d x Gx).
Qed.

Lemma FL_finish_d s d x e : FL s -> fl_ok s x -> FL (finish_d s d x e).
Proof.
  intros H Hx. unfold finish_d. cbv zeta.
  apply (FL_frame (put_d s d (set_d_final (set_d_pc (set_d_fw x None) DDone)
                                           (Some (final_of e false))))); try reflexivity.
  apply FL_put_d; [exact H|exact Hx].
Qed.

Lemma FL_after_g2 s d x outer : FL s -> fl_ok s x -> FL (after_g2 s d x outer).
Proof.
  intros H Hx. unfold after_g2.
  destruct outer; try (apply FL_finish_d; [exact H|exact Hx]); destruct (d_kind x) eqn:K; cbv zeta;
    try (apply FL_finish_d; [exact H|exact Hx]).
  - apply FL_finish_d.
    + apply FL_wake_closed. exact (FL_frame s _ eq_refl eq_refl H).
    + apply (fl_ok_mt s); [rewrite mt_wake_closed; reflexivity|exact Hx].
  - apply FL_finish_d.
    + apply FL_wake_closed. exact (FL_frame s _ eq_refl eq_refl H).
    + apply (fl_ok_mt s); [rewrite mt_wake_closed; reflexivity|exact Hx].
Qed.

Lemma FL_start_g2 s d x cs re : FL s -> fl_ok s x -> FL (start_g2 s d x cs re).
Proof.
  intros H Hx. unfold start_g2. destruct (make_gather s (map TP cs) re) as [g outer].
  assert (Hx' : fl_ok s (set_d_snap (set_d_g2 x (Some g)) cs)) by exact Hx.
  destruct outer; try (apply FL_after_g2; [exact H|exact Hx']).
  apply (FL_frame (put_d s d (set_d_fw (set_d_pc (set_d_snap (set_d_g2 x (Some g)) cs) DWaitG2)
                                        (Some FPending)))); try reflexivity.
  apply FL_put_d; [exact H|exact Hx].
Qed.

Lemma FL_after_g1 s d x outer : FL s -> fl_ok s x -> FL (after_g1 s d x outer).
Proof.
  intros H Hx. unfold after_g1. destruct (d_kind x) eqn:K.
  - assert (Hgo : FL (start_g2 (set_meta_cancelled s []) d x
                        (dict_merge (t_ended (set_meta_cancelled s []))
                                    (t_cancelled (set_meta_cancelled s []))) re)).
    { apply FL_start_g2; [exact H|exact Hx]. }
    cbv zeta beta. destruct outer as [| |e|]; auto. destruct e; auto; apply FL_finish_d; auto.
  - destruct (if re then None else first_exception s _).
    + apply FL_finish_d; auto.
    + cbv zeta. apply FL_start_g2; [exact H|exact Hx].
  - apply FL_finish_d; auto.
Qed.

Lemma FL_start_g1 s d x cs re :
  FL s -> (forall re', d_kind x = DFlush re' -> forall m, In m cs -> pm_at s m) ->
  FL (start_g1 s d x cs re).
Proof.
  intros H Hcs. unfold start_g1. destruct (make_gather s (map TM cs) re) as [g outer] eqn:E.
  destruct (PInv_G_C3.make_gather_spec _ _ _ _ _ E) as (Hc & _).
  assert (Hx : fl_ok s (set_d_g1 x (Some g))).
  { intros re' g' m K G Hi. cbn [d_kind d_g1 set_d_g1] in K, G. inversion G; subst g'.
    rewrite Hc in Hi. apply in_map_iff in Hi. destruct Hi as (m' & Em & Hm). inversion Em; subst m'.
    exact (Hcs re' K m Hm). }
  destruct outer; try (apply FL_after_g1; [exact H|exact Hx]).
  apply (FL_frame (put_d s d (set_d_fw (set_d_pc (set_d_g1 x (Some g)) DWaitG1)
                                        (Some FPending)))); try reflexivity.
  apply FL_put_d; [exact H|exact Hx].
Qed.

Lemma NoDup_app_disj {A} (l1 l2 : list A) a : NoDup (l1 ++ l2) -> In a l1 -> In a l2 -> False.
Proof.
  induction l1 as [|h t IH]; cbn; intros N H1 H2; [exact H1|].
  inversion N as [|? ? Hn Nt]; subst. destruct H1 as [->|H1].
  - apply Hn. apply in_or_app. right. exact H2.
  - exact (IH Nt H1 H2).
Qed.

(** the members of [_meta_tasks_cancelled] are finished or belong to a cancelled group *)
Lemma meta_cancelled_pm s m : WF s -> In m (meta_cancelled s) -> pm_at s m.
Proof.
  intros W Hi. pose proof (wfm _ W) as M.
  assert (Hlt : m < length (mtasks s)) by (apply (IM_lt _ M); apply in_or_app; left; exact Hi).
  destruct (get_m s m) as [y|] eqn:G; [|apply nth_error_None in G; lia].
  exists y. split; [exact G|]. unfold Pm.
  destruct (m_final y) eqn:F; [left; discriminate|]. right.
  destruct (m_dead y) eqn:D; [reflexivity|]. exfalso.
  destruct (IM_reg _ M m y G F D) as (ms & Hl & Hin).
  apply (NoDup_app_disj _ _ m (IM_nodup _ M) Hi).
  eapply PStep_D.glookup_concat; eauto.
Qed.

Lemma FL_run_d s d : (forall m, In m (meta_cancelled s) -> pm_at s m) -> FL s -> FL (run_d s d).
Proof.
  intros W H. unfold run_d. destruct (get_d s d) as [x0|] eqn:G; auto.
  pose proof (H d x0 G) as Hx0.
  assert (Hx : fl_ok s (set_d_fw x0 None)) by exact Hx0.
  cbv zeta. destruct (d_pc x0).
  - change (d_kind (set_d_fw x0 None)) with (d_kind x0). destruct (d_kind x0) eqn:K.
    + destruct (pop_ended s (gmeta s)) as [gm ended] eqn:EP.
      apply FL_start_g1; [exact H|].
      intros _ _ m Hi. apply in_app_iff in Hi. destruct Hi as [Hi|Hi].
      * destruct (W m Hi) as (y & Gy & Hy). exists y. split; [exact Gy|exact Hy].
      * pose proof (PInv_G_C3.pop_ended_snd s (gmeta s)) as E. rewrite EP in E. cbn in E. subst ended.
        apply filter_In in Hi. destruct Hi as [_ Hi]. unfold is_done_m, tref_final in Hi.
        change (get_m (set_gmeta s gm) m) with (get_m s m).
        destruct (get_m s m) as [y|] eqn:Gy; [|discriminate]. exists y. split; [exact Gy|].
        left. destruct (m_final y); [discriminate|discriminate].
    + apply FL_start_g1; [exact H|]. intros re' K'. cbn [d_kind set_d_fw] in K'. congruence.
    + destruct (closed s).
      * apply FL_finish_d; auto.
      * apply (FL_frame (put_d (set_closed_waiters s (closed_waiters s ++ [d])) d
                                (set_d_fw (set_d_pc (set_d_fw x0 None) DWaitClosed)
                                          (Some FPending)))); try reflexivity.
        apply FL_put_d; [exact H|exact Hx0].
  - apply FL_after_g1; auto.
  - apply FL_after_g2; auto.
  - apply FL_finish_d; [exact H|exact Hx0].
  - exact H.
Qed.

Lemma FL_run_g s d c : FL s -> FL (run_g s d c).
Proof.
  intros H. unfold run_g. destruct (get_d s d) as [x|] eqn:G; auto.
  destruct (tref_final s c) as [o|]; auto.
  pose proof (H d x G) as Hx.
  set (phase1 := match c with TM _ => true | _ => false end).
  destruct (if phase1 then d_g1 x else d_g2 x) as [g|] eqn:Eg; auto.
  assert (R : forall n, fl_ok s (if phase1 then set_d_g1 x (Some (set_g_nfin g n))
                                 else set_d_g2 x (Some (set_g_nfin g n)))).
  { intros n re g' m K G' Hi. destruct phase1; cbn in K, G'.
    - inversion G'; subst g'. exact (Hx re g m K Eg Hi).
    - exact (Hx re g' m K G' Hi). }
  set (active := match d_pc x, phase1 with
                 | DWaitG1, true | DWaitG2, false => true | _, _ => false end).
  destruct (if active then d_fw x else None) as [[| | |]|];
    try (apply FL_put_d; [exact H|apply R]).
  destruct (gather_cb (g_re g) (length (g_children g)) o (g_nfin g) FPending) as [nfin outer].
  destruct outer; try (apply FL_sched); apply FL_put_d; try exact H; try apply R;
    exact (R nfin).
Qed.

Lemma FL_op_driver s k : FL s -> FL (do_op s (OpDriver k)).
Proof.
  intros H. unfold do_op.
  set (s1 := match k with DGatherClose _ => set_n_gac s (S (n_gac s)) | _ => s end).
  assert (H1 : FL s1) by (unfold s1; destruct k; exact H).
  clearbody s1. apply FL_sched.
  intros d x G. unfold get_d in G. cbn [dtasks set_dtasks] in G.
  apply (fl_ok_mt s1); [reflexivity|].
  destruct (Nat.lt_ge_cases d (length (dtasks s1))) as [Hlt|Hge].
  - rewrite nth_error_app1 in G by exact Hlt. exact (H1 d x G).
  - rewrite nth_error_app2 in G by exact Hge.
    destruct (d - length (dtasks s1)) as [|n]; [|destruct n; discriminate G].
    cbn in G. inversion G; subst x. intros re g m _ X. discriminate X.
Qed.

Lemma FL_step s l : WFx s -> FL s -> FL (step s l).
Proof.
  intros X H. pose proof (x_wf _ X) as W.
  destruct (drv_step_label l) eqn:Hl.
  2:{ pose proof (k_d (K_step_other s l W (x_d _ X) Hl)) as Ed.
      intros d x G. unfold get_d in G. rewrite Ed in G.
      intros re g m K Gg Hi. destruct (H d x G re g m K Gg Hi) as (y & Gy & Hy).
      exact (Pm_step s l m y W Gy Hy). }
  unfold step. cbv zeta.
  set (s' := set_res (set_evs s []) RNone).
  assert (H' : FL s') by exact H.
  destruct (negb (enabled s' l)); [exact H'|].
  destruct l as [[[t|m|d]|d c]| |o]; try discriminate Hl; cbn [run_handle].
  - apply FL_run_d; [|exact H]. exact (fun m => meta_cancelled_pm s m W).
  - apply FL_run_g. exact H.
  - destruct o; try discriminate Hl. apply FL_op_driver. exact H'.
Qed.

Lemma FL_init c : FL (init c).
Proof. intros d x G. unfold get_d in G. cbn in G. destruct d; discriminate G. Qed.

(** [WFx], [GPR] and [FL]: in every state reached by a clean run *)
Definition WFh (s : state) : Prop := WFx s /\ GPR s /\ FL s.

Theorem WFh_run c tr : clean (run c tr) -> WFh (run c tr).
Proof.
  apply (inv_run WFh).
  - intros c0. split; [apply WFx_init|split; [apply GPR_init|apply FL_init]].
  - intros s l (X & HG & HF) Hc.
    split; [apply WFx_step; auto|split; [apply GPR_step; auto|apply FL_step; auto]].
Qed.

(** ** in a stuck state *)

(** a spawner whose group was cancelled has finished *)
Lemma stuck_dead_done s m y :
  WFx s -> MC s -> stuck s -> get_m s m = Some y -> m_dead y = true -> m_final y <> None.
Proof.
  intros X HM St G D F. pose proof (x_wf _ X) as W.
  destruct (stuck_at_rest s W St) as [Q _].
  destruct (PProps_B.quiet_spawner s m y W Q G F) as [_ Hfw].
  destruct (X_dead _ (x_g _ X) m y G D F) as [Hmc|Hc].
  - exact (HM m y G Hmc Hfw).
  - unfold fut_cancelled in Hc. congruence.
Qed.

(** every flush() has returned — whatever the pool size *)
Theorem flush_done_when_stuck s d x re :
  WFx s -> GPR s -> FL s -> MC s -> stuck s ->
  get_d s d = Some x -> d_kind x = DFlush re -> drv_done x.
Proof.
  intros X HG HF HM St G K.
  destruct (stuck_driver_cases s d x X HG St G) as [H|[H|H]]; auto; exfalso.
  - destruct H as (_ & Hk & _). congruence.
  - destruct H as (_ & _ & _ & g & m & y & Eg & Hc & Gm & Hf).
    destruct (HF d x G re g m K Eg Hc) as (y' & Gm' & [Hp|Hp]).
    + congruence.
    + assert (y' = y) by congruence. subst y'.
      exact (stuck_dead_done s m y X HM St Gm Hp Hf).
Qed.

(** [spawners_done] is necessary for a gather_and_close() to have returned normally *)
Theorem gac_return_spawners_done s d x re :
  WFx s -> MC s -> stuck s ->
  get_d s d = Some x -> d_kind x = DGatherClose re -> d_final x = Some OResult ->
  spawners_done s.
Proof.
  intros X HM St G K F m y Gm.
  destruct (x_d _ X) as (_ & HD & HC).
  assert (Hc : closed s = true) by exact (dgac (HD d x G) re K F).
  destruct (HC Hc m y Gm) as [Hp|Hp]; [exact Hp|].
  exact (stuck_dead_done s m y X HM St Gm Hp).
Qed.
