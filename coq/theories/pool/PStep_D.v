(** C12 (what tasks, spawners and drivers can end with) and C08 (closing the pool) as consequences
    of WF and one further inductive invariant, [Extra_D] (PStep_D_base.v):

    - every pool task's stored exception is CancelledError, an internal error, or its own user
      exception consistent with its spec; a task inside its worker has none; a final outcome is
      [final_of] of the stored exception                                       ([PT], [pt_ok]);
    - drivers ([DT], [dt_ok]): program counter vs. kind; an outer gather future is never cancelled
      and is present while the driver waits on a gather; a failed first gather can only have seen a
      cancelled spawner and belongs to a flush; a failed second gather or a failed driver carries
      the outcome of a finished pool task and belongs to a driver with return_exceptions=False;
      gather_and_close's first gather has return_exceptions=True; a driver in DWaitClosed is
      listed in [closed_waiters], pending iff the pool is not closed; a gather_and_close that
      returned normally / an until_closed that returned imply the pool is closed;
    - once closed every spawner is finished or dead                             ([CM]).  *)
From TP Require Export PStep_D_base.
From TP Require Import PSpecStep PInv_P_base PStep_D_k PStep_D_drv.
From TP Require PInv_P PInv_S PInv_R.
From Coq Require Import Lia.
Import ListNotations.

#[local] Arguments I1_len {s}. #[local] Arguments I2_final {s}. #[local] Arguments IH_noint {s}.
#[local] Arguments IH_late {s}. #[local] Arguments IH_counts {s}. #[local] Arguments I5_d {s}.
#[local] Arguments I5_dfinal {s}. #[local] Arguments IM_reg {s}. #[local] Arguments IG_has1 {s}.
#[local] Arguments IG_ok1 {s}. #[local] Arguments IG_gac1 {s}. #[local] Arguments IG_gac2 {s}.
#[local] Arguments IG_closed {s}. #[local] Arguments IR_final {s}.
#[local] Arguments wf1 {s}. #[local] Arguments wf2 {s}. #[local] Arguments wfh {s}.
#[local] Arguments wf5 {s}. #[local] Arguments wfm {s}. #[local] Arguments wfg {s}.
#[local] Arguments wfr {s}.

Lemma DR_refl s : DT s -> CM s -> DR s s.
Proof. intros. split; [reflexivity|split; [reflexivity|split; auto]]. Qed.

Lemma glookup_concat g l ms m :
  glookup g l = Some ms -> In m ms -> In m (concat (map snd l)).
Proof.
  induction l as [|[h v] t IH]; simpl; [discriminate|].
  destruct (gname_eqb g h).
  - intros E Hi. inversion E; subst. apply in_app_iff. auto.
  - intros E Hi. apply in_app_iff. right. auto.
Qed.

(** ** run_d *)
Lemma DR_run_d s d :
  DT s -> CM s -> MNE s ->
  (forall x, get_d s d = Some x -> d_pc x <> DDone -> d_final x = None) ->
  (forall x, get_d s d = Some x -> d_pc x <> DNotStarted -> d_fw x <> Some FPending) ->
  (forall m y, get_m s m = Some y -> m_final y = None -> m_dead y = false ->
               In m (meta_cancelled s ++ concat (map snd (gmeta s)))) ->
  (forall x re, get_d s d = Some x -> d_kind x = DGatherClose re -> d_pc x = DWaitG1 ->
                d_fw x = Some FOk -> MP s) ->
  (forall x re, get_d s d = Some x -> d_kind x = DGatherClose re -> d_pc x = DWaitG2 -> MP s) ->
  DR s (run_d s d).
Proof.
  intros HD HC HM Hfin Hnp Hcov HG1 HG2. unfold run_d.
  destruct (get_d s d) as [x0|] eqn:G; [|apply DR_refl; auto].
  pose proof (HD d x0 G) as dt. cbv zeta.
  destruct (d_pc x0) eqn:P.
  - (* DNotStarted *)
    assert (Hf : d_final x0 = None) by (apply (Hfin x0 eq_refl); congruence).
    cbn [d_kind set_d_fw].
    destruct (d_kind x0) eqn:K.
    + destruct (pop_ended s (gmeta s)) as [gm ended].
      apply DR_start_g1; auto; cbn [d_final d_g2 d_kind set_d_fw]; rewrite ?K; auto;
        try (intros; discriminate); try discriminate;
        try (eapply DT_same; [..|exact HD]; auto); try (eapply CM_same; [..|exact HC]; auto);
        try (intros g; rewrite <- K; apply (dg_2 dt)).
    + apply DR_start_g1; auto; cbn [d_final d_g2 d_kind set_d_fw]; rewrite ?K; auto;
        try discriminate;
        try (eapply DT_same; [..|exact HD]; auto); try (eapply CM_same; [..|exact HC]; auto);
        try (intros g; rewrite <- K; apply (dg_2 dt)).
    + destruct (closed s) eqn:C.
      * apply DR_finish_d; auto using DT_DTx; cbn [d_g1 d_g2 d_kind set_d_fw]; rewrite ?K;
          try discriminate; try (intros; discriminate);
          try (intros g; rewrite <- K; apply (dg_2 dt)).
      * split; [reflexivity|split; [reflexivity|split]].
        -- apply (DT_same (put_d (set_closed_waiters s (closed_waiters s ++ [d])) d
                                 (set_d_fw (set_d_pc (set_d_fw x0 None) DWaitClosed)
                                           (Some FPending)))); try reflexivity.
           apply DT_put_d.
           ++ eapply DTx_same; [..|apply DT_DTx; exact HD]; auto.
              intros d' _ Hi. cbn. apply in_app_iff. auto.
           ++ dtk; auto.
              ** apply (dg_1 dt).
              ** apply (dg_2 dt).
              ** intros o X. congruence.
              ** intros _. split; [apply in_app_iff; right; left; auto|left; auto].
              ** intros re K'. congruence.
        -- eapply CM_same; [| |exact HC]; reflexivity.
  - (* DWaitG1 *)
    assert (Hf : d_final x0 = None) by (apply (Hfin x0 eq_refl); congruence).
    assert (Hp : d_fw x0 <> Some FPending) by (apply (Hnp x0 eq_refl); congruence).
    pose proof (df_some dt (or_introl P)) as Hs. pose proof (df_nc dt) as Hc.
    apply DR_after_g1; auto; cbn [d_final d_g1 d_g2 d_kind set_d_fw]; auto.
    + apply (dg_1 dt).
    + apply (dg_2 dt).
    + apply (dk_g dt). auto.
    + intros e X. destruct (d_fw x0) as [f|] eqn:F; [|discriminate]. subst f.
      destruct (df_e1 dt e P F). auto.
    + intros re K. destruct (d_fw x0) as [[| |e|]|] eqn:F; try congruence.
      * eapply HG1; eauto.
      * destruct (df_e1 dt e P F) as [_ [re' K']]. congruence.
  - (* DWaitG2 *)
    assert (Hf : d_final x0 = None) by (apply (Hfin x0 eq_refl); congruence).
    pose proof (df_nc dt) as Hc.
    apply DR_after_g2; auto using DT_DTx; cbn [d_final d_g1 d_g2 d_kind set_d_fw]; auto.
    + apply (dg_1 dt).
    + apply (dg_2 dt).
    + apply (dk_g dt). auto.
    + destruct (d_fw x0) as [f|]; congruence.
    + intros e X. destruct (d_fw x0) as [f|] eqn:F; [|discriminate]. subst f.
      apply (df_e2 dt e P F).
    + intros re K _. eapply HG2; eauto.
  - (* DWaitClosed *)
    assert (Hf : d_final x0 = None) by (apply (Hfin x0 eq_refl); congruence).
    assert (Hp : d_fw x0 <> Some FPending) by (apply (Hnp x0 eq_refl); congruence).
    pose proof (dk_wc dt P) as K.
    apply DR_finish_d; auto; cbn [d_g1 d_g2 d_kind set_d_fw]; rewrite ?K;
      try discriminate; try (intros; discriminate).
    + eapply DTx_same; [..|apply DT_DTx; exact HD]; auto.
      intros d' Hne Hi. cbn. apply In_remove1_neq; auto.
    + intros g. rewrite <- K. apply (dg_2 dt).
    + intros _. destruct (dwc dt P) as [_ [[_ X]|[X _]]]; [congruence|exact X].
  - apply DR_refl; auto.
Qed.

(** ** run_g *)
Lemma dt_ok_setg s d x (phase1 : bool) g n :
  dt_ok s d x -> (if phase1 then d_g1 x else d_g2 x) = Some g ->
  dt_ok s d (if phase1 then set_d_g1 x (Some (set_g_nfin g n))
             else set_d_g2 x (Some (set_g_nfin g n))).
Proof.
  intros dt Hg. destruct phase1; dtk; try apply dt.
  - intros g' re X K. inversion X; subst. cbn. eapply (dg_1 dt); eauto.
  - intros g' X. inversion X; subst. cbn. apply (dg_2 dt); auto.
Qed.

Lemma DR_put_d s d x' : DT s -> CM s -> dt_ok s d x' -> DR s (put_d s d x').
Proof.
  intros HD HC Hx. split; [reflexivity|split; [reflexivity|split]].
  - apply DT_put_d; auto using DT_DTx.
  - eapply CM_same; [| |exact HC]; reflexivity.
Qed.

Lemma DR_sched s0 s h : DR s0 s -> DR s0 (sched s h).
Proof.
  intros H. unfold sched. destruct (is_ready s h); auto.
  destruct H as [H1 [H2 [H3 H4]]]. split; [exact H1|split; [exact H2|split]].
  - eapply DT_same; [..|exact H3]; reflexivity.
  - eapply CM_same; [..|exact H4]; reflexivity.
Qed.

Lemma DR_run_g s d c : DT s -> CM s -> MNE s -> DR s (run_g s d c).
Proof.
  intros HD HC HM. unfold run_g.
  destruct (get_d s d) as [x|] eqn:G; [|apply DR_refl; auto].
  destruct (tref_final s c) as [o|] eqn:F; [|apply DR_refl; auto].
  pose proof (HD d x G) as dt. cbv zeta.
  set (phase1 := match c with TM _ => true | _ => false end).
  set (active := match d_pc x, phase1 with
                 | DWaitG1, true | DWaitG2, false => true
                 | _, _ => false end).
  destruct (if phase1 then d_g1 x else d_g2 x) as [g|] eqn:Hgo; [|apply DR_refl; auto].
  assert (B : forall n, DR s (put_d s d (if phase1 then set_d_g1 x (Some (set_g_nfin g n))
                                         else set_d_g2 x (Some (set_g_nfin g n))))).
  { intros n. apply DR_put_d; auto. apply dt_ok_setg; auto. }
  destruct (if active then d_fw x else None) as [[| | |]|] eqn:A; try apply B.
  assert (Hact : active = true /\ d_fw x = Some FPending).
  { destruct active; [auto|discriminate]. }
  destruct Hact as [Hact Hfw].
  destruct (gather_cb (g_re g) (length (g_children g)) o (g_nfin g) FPending) as [nfin outer] eqn:E.
  pose proof (mg_cb_pending s [c] (g_re g) (length (g_children g)) o (g_nfin g) c
                (or_introl eq_refl) F) as Hgood.
  rewrite E in Hgood. cbn [snd] in Hgood. destruct Hgood as [Hnc Hex].
  assert (Hsrc : forall e, outer = FExc e ->
            g_re g = false /\ (((exists m, c = TM m) /\ e = ECancelled) \/ tsrc s e)).
  { intros e X. destruct (Hex e X) as [Hre [c' [o' [[<-|[]] [F' Ho]]]]]. split; auto.
    eapply child_src; eauto. }
  assert (Hpc : (d_pc x = DWaitG1 /\ phase1 = true) \/ (d_pc x = DWaitG2 /\ phase1 = false)).
  { unfold active in Hact. destruct (d_pc x), phase1; try discriminate; auto. }
  destruct outer as [| |e|]; [apply B| | |congruence].
  - (* FOk *)
    apply DR_sched. apply DR_put_d; auto.
    pose proof (dt_ok_setg s d x phase1 g nfin dt Hgo) as dt'.
    destruct phase1; dtk; try apply dt'; destruct Hpc as [[Hp _]|[Hp _]]; try congruence.
  - (* FExc *)
    destruct (Hsrc e eq_refl) as [Hre Hs].
    apply DR_sched. apply DR_put_d; auto.
    pose proof (dt_ok_setg s d x phase1 g nfin dt Hgo) as dt'.
    destruct Hpc as [[Hp Hph]|[Hp Hph]]; rewrite Hph in *; dtk; try apply dt'; try congruence.
    + intros e' _ X. inversion X; subst e'.
      split.
      * destruct Hs as [[_ ?]|[t [y [Gy _]]]]; auto.
        unfold phase1 in Hph. destruct c as [t'|m|d']; try discriminate.
        simpl in F. destruct (get_m s m) as [ym|] eqn:Gm; [|discriminate].
        destruct (Hex e eq_refl) as [_ [c' [o' [[<-|[]] [F' Ho]]]]].
        simpl in F'. rewrite Gm in F'.
        destruct Ho as [->|[_ Ho]]; auto. exfalso. eapply HM; eauto.
      * destruct (d_kind x) as [re|re|] eqn:K; [eauto| |].
        -- pose proof (dg_1 dt g re Hgo K). congruence.
        -- exfalso. apply (dk_g dt); auto.
    + intros e' _ X. inversion X; subst e'.
      split.
      * rewrite (dg_2 dt g Hgo). congruence.
      * destruct Hs as [[[m Hc] _]|]; auto.
        unfold phase1 in Hph. rewrite Hc in Hph. discriminate.
Qed.

(** ** OpDriver *)
Lemma DR_op_driver s k : DT s -> CM s -> DR s (do_op s (OpDriver k)).
Proof.
  intros HD HC. unfold do_op. cbv zeta.
  set (s1 := match k with DGatherClose _ => set_n_gac s (S (n_gac s)) | _ => s end).
  assert (E1 : dtasks s1 = dtasks s /\ closed s1 = closed s /\ closed_waiters s1 = closed_waiters s
               /\ ptasks s1 = ptasks s /\ mtasks s1 = mtasks s).
  { unfold s1. destruct k; auto. }
  destruct E1 as [Ed [Ec [Ew [Ep Em]]]].
  apply DR_sched. split; [exact Ep|split; [exact Em|split]].
  - intros d x G. unfold get_d in G. cbn in G. rewrite nth_error_snoc in G.
    destruct (Nat.ltb d (length (dtasks s1))).
    + rewrite Ed in G. eapply dt_ok_ext; [..|apply (HD d x G)]; cbn; auto.
      * rewrite Ew. auto.
      * rewrite Ep. apply pext_refl.
    + destruct (Nat.eqb d (length (dtasks s1))); [|discriminate]. inversion G; subst. dtk.
  - eapply CM_same; [..|exact HC]; cbn; auto.
Qed.

(** ** the step *)
Lemma Extra_D_of_DR s s' : PT s -> DR s s' -> Extra_D s'.
Proof.
  intros HP [Ep [Em [HD HC]]]. split; [|split; auto].
  intros t x G. unfold get_p in G. rewrite Ep in G. apply (HP t x G).
Qed.

Lemma MNE_of_WF s : WF s -> MNE s.
Proof.
  intros W m y e G F. pose proof (IR_final (wfr W) m y G) as R. unfold req_final_ok in R.
  rewrite F in R. exact R.
Qed.

Lemma MP_of_gac1 s d x re :
  WF s -> get_d s d = Some x -> d_kind x = DGatherClose re -> d_pc x = DWaitG1 ->
  d_fw x = Some FOk -> MP s.
Proof.
  intros W G K P F m y Gm. unfold Pm.
  destruct (m_final y) eqn:Fy; [left; discriminate|].
  destruct (m_dead y) eqn:Dy; [right; auto|]. exfalso.
  destruct (d_g1 x) as [g|] eqn:Hg; [|exact (IG_has1 (wfg W) d x G P Hg)].
  destruct (IG_gac1 (wfg W) d x re g G K P Hg) as [_ Hcov].
  pose proof (IG_ok1 (wfg W) d x g G P F Hg (TM m) (Hcov m y Gm Fy Dy)) as Hd.
  unfold tref_done in Hd. simpl in Hd. rewrite Gm, Fy in Hd. discriminate.
Qed.

Lemma MP_of_gac2 s d x re :
  WF s -> get_d s d = Some x -> d_kind x = DGatherClose re -> d_pc x = DWaitG2 -> MP s.
Proof.
  intros W G K P m y Gm. unfold Pm.
  destruct (IG_gac2 (wfg W) d x re G K P) as [_ [Hd _]].
  destruct (m_final y) eqn:Fy; [left; discriminate|]. right. eapply Hd; eauto.
Qed.

Lemma Extra_D_step_core s l : WF s -> Extra_D s -> Extra_D (step s l).
Proof.
  intros W ED. pose proof ED as [HP [HD HC]].
  pose proof (K_init s ED) as K0.
  assert (Hnd : forall t y, get_p s t = Some y -> p_pc y <> PDone -> p_final y = None).
  { intros t y G Hp. destruct (p_final y) eqn:F; auto. exfalso. apply Hp.
    apply (I2_final (wf2 W) t y G). congruence. }
  unfold step. cbv zeta.
  set (s' := set_res (set_evs s []) RNone).
  assert (K' : K s s') by (unfold s'; ks; exact K0).
  destruct (negb (enabled s' l)) eqn:En; [eapply Extra_D_of_K; eauto|].
  apply negb_false_iff in En.
  destruct l as [h| |o].
  - (* LRun *)
    simpl in En. destruct (ctl s); try discriminate.
    assert (Hr : In h (ready s)).
    { unfold is_ready in En. apply existsb_exists in En. destruct En as [h' [Hi He]].
      assert (h = h').
      { clear - He. destruct h as [r|d c], h' as [r'|d' c']; simpl in He; try discriminate.
        - destruct r, r'; simpl in He; try discriminate; apply Nat.eqb_eq in He; congruence.
        - apply andb_true_iff in He. destruct He as [H1 H2]. apply Nat.eqb_eq in H1.
          destruct c, c'; simpl in H2; try discriminate; apply Nat.eqb_eq in H2; congruence. }
      subst h'. exact Hi. }
    assert (KU : K s (unsched s' h)) by (ks; exact K').
    destruct h as [[t|m|d]|d c]; simpl run_handle.
    + eapply Extra_D_of_K; eauto. apply K_run_p; auto. exact (Hnd t).
    + eapply Extra_D_of_K; eauto. apply K_run_m; auto.
    + apply (Extra_D_of_DR (unsched s' (HT (TD d)))); [exact HP|].
      apply DR_run_d.
      * eapply DT_same; [..|exact HD]; reflexivity.
      * eapply CM_same; [..|exact HC]; reflexivity.
      * exact (MNE_of_WF s W).
      * intros x G Hp. change (get_d s d = Some x) in G.
        destruct (d_final x) eqn:F; auto. exfalso. apply Hp.
        apply (I5_dfinal (wf5 W) d x G). congruence.
      * intros x G Hp. change (get_d s d = Some x) in G.
        apply (I5_d (wf5 W) d x G) in Hr. destruct Hr as [?|[_ ?]]; [congruence|auto].
      * intros m y G Fy Dy. change (get_m s m = Some y) in G.
        destruct (IM_reg (wfm W) m y G Fy Dy) as [ms [Hl Hi]].
        apply in_app_iff. right. eapply glookup_concat; eauto.
      * intros x re G Kd P F. exact (MP_of_gac1 s d x re W G Kd P F).
      * intros x re G Kd P. exact (MP_of_gac2 s d x re W G Kd P).
    + apply (Extra_D_of_DR (unsched s' (HG d c))); [exact HP|].
      apply DR_run_g.
      * eapply DT_same; [..|exact HD]; reflexivity.
      * eapply CM_same; [..|exact HC]; reflexivity.
      * exact (MNE_of_WF s W).
  - (* LGo *)
    change (ctl s') with (ctl s). destruct (ctl s) as [|[t|m|d]];
      try (eapply Extra_D_of_K; eauto; fail).
    + eapply Extra_D_of_K; eauto. apply K_continue_p; auto. exact (Hnd t).
    + eapply Extra_D_of_K; eauto. apply K_continue_m; auto.
  - (* LOp *)
    simpl in En.
    destruct o; try (eapply Extra_D_of_K; eauto; apply K_do_op; auto; exact I).
    apply (Extra_D_of_DR s'); [exact HP|].
    apply DR_op_driver.
    + eapply DT_same; [..|exact HD]; reflexivity.
    + eapply CM_same; [..|exact HC]; reflexivity.
Qed.

(** ** deliverables *)
Lemma Extra_D_init : forall c, Extra_D (init c).
Proof.
  intros c. split; [|split].
  - intros t x G. unfold get_p in G. cbn in G. destruct t; discriminate.
  - intros d x G. unfold get_d in G. cbn in G. destruct d; discriminate.
  - intros C. cbn in C. discriminate.
Qed.

Lemma Extra_D_step : forall s l,
  WF s -> PInv_P.Extra_P s -> PInv_S.Extra_S s -> PInv_R_base.Extra_R s -> Extra_D s ->
  clean (step s l) -> Extra_D (step s l).
Proof. intros s l W _ _ _ ED _. apply Extra_D_step_core; auto. Qed.

(** a finished task's outcome, under P-self *)
Lemma task_outcome s t x o :
  WF s -> Extra_D s -> taint_self s = false -> get_p s t = Some x -> p_final x = Some o ->
  o = OResult \/ exists st, o = OExc (EUser t st) /\ user_exn_of s (EUser t st).
Proof.
  intros W [HP _] Ts G F.
  destruct (HP t x G) as [_ [P2 P3]]. destruct (P3 o F) as [mc Ho].
  assert (Pd : p_pc x = PDone) by (apply (I2_final (wf2 W) t x G); congruence).
  pose proof (IH_late (wfh W) Ts t x G) as L. unfold not_cancelled_late in L. rewrite Pd in L.
  destruct L as [L1 L2].
  pose proof (IH_noint (wfh W) t x G) as NI.
  destruct (p_exc x) as [e|] eqn:Ex.
  - destruct (P2 e Ex) as [-> | [Hi | [st [-> Hs]]]]; [congruence|tauto|].
    right. exists st. simpl in Ho. split; auto.
    exists t, x, st. split; auto; split; auto; destruct st; exact Hs.
  - simpl in Ho. destruct mc; [congruence|auto].
Qed.

Theorem C12_of_WF : forall s, WF s -> PInv_P.Extra_P s -> Extra_D s -> C12_spec s.
Proof.
  intros s W _ ED. constructor.
  - intros Ts t x o G F. split.
    + assert (Pd : p_pc x = PDone) by (apply (I2_final (wf2 W) t x G); congruence).
      pose proof (IH_counts (wfh W) t x G) as C. unfold counts_ok in C. rewrite Pd in C. tauto.
    + eapply task_outcome; eauto.
  - intros m y e G. apply (MNE_of_WF s W m y e G).
  - intros Ts d x o G F. destruct ED as [HP [HD HC]].
    destruct (dfin (HD d x G) o F) as [|[Hk [e [Ho [t [y [Gy Fy]]]]]]]; auto.
    right.
    assert (Pd : p_pc y = PDone).
    { apply (I2_final (wf2 W) t y Gy). destruct Fy as [Fy|[_ Fy]]; congruence. }
    pose proof (IH_late (wfh W) Ts t y Gy) as L. unfold not_cancelled_late in L. rewrite Pd in L.
    destruct L as [L1 L2].
    destruct Fy as [Fy|[_ Fy]]; [|congruence].
    destruct (task_outcome s t y (OExc e) W (conj HP (conj HD HC)) Ts Gy Fy)
      as [X|[st [X U]]]; [discriminate|].
    inversion X; subst e. exists (EUser t st). simpl in Ho. split; auto. split; auto.
    destruct (d_kind x) as [[]|[]|]; simpl in Hk; try discriminate; repeat split; discriminate.
Qed.

Theorem C08_of_WF : forall s, WF s -> Extra_D s -> C08_spec s.
Proof.
  intros s W [HP [HD HC]]. constructor.
  - apply (IG_closed (wfg W)).
  - intros C m y G. apply (HC C m y G).
  - intros C nc. unfold check_start. destruct nc; auto. rewrite C. auto.
  - intros d x re G K F. apply (dgac (HD d x G) re K F).
  - intros d x G K P. apply (duc (HD d x G) K P).
  - intros C d x G K P. destruct (dwc (HD d x G) P) as [_ [[X _]|[_ X]]]; [congruence|exact X].
Qed.

