(** Extra invariant, part 4: cancel_group / cancel_all. *)
From TP Require Export PInv_Q_x3.
Set Implicit Arguments. Unset Strict Implicit.

Definition qbase (y y' : mtask) : Prop :=
  mimm y y' /\ m_pc y' = m_pc y /\ m_idx y' = m_idx y /\ m_holds y' = m_holds y /\
  m_final y' = m_final y /\ m_dead y' = m_dead y.

Definition CR (ms : list nat) (k : nat) (y y' : mtask) : Prop :=
  qbase y y' /\ (cancelled y -> cancelled y') /\ (cancelled y' -> cancelled y \/ In k ms) /\
  (In k ms -> m_final y = None -> cancelled y').

Definition PT (R : nat -> mtask -> mtask -> Prop) (s s' : state) : Prop :=
  length (mtasks s') = length (mtasks s) /\
  forall k y y', get_m s k = Some y -> get_m s' k = Some y' -> R k y y'.

Lemma qbase_refl y : qbase y y.
Proof. unfold qbase. pose proof (mimm_refl y). tauto. Qed.

Lemma qbase_trans x y z : qbase x y -> qbase y z -> qbase x z.
Proof.
  unfold qbase. intros [A1 A] [B1 B]. split; [eapply mimm_trans; eauto|]. intuition congruence.
Qed.

Lemma PT_back R s s' k y' :
  PT R s s' -> get_m s' k = Some y' -> exists y, get_m s k = Some y /\ R k y y'.
Proof.
  intros [L H] Hy'. unfold get_m in *.
  destruct (nth_error (mtasks s) k) as [y|] eqn:E.
  - exists y. split; auto.
  - apply nth_error_None in E. assert (k < length (mtasks s')) by (apply nth_error_Some; congruence).
    lia.
Qed.

Lemma PT_fwd R s s' k y :
  PT R s s' -> get_m s k = Some y -> exists y', get_m s' k = Some y' /\ R k y y'.
Proof.
  intros [L H] Hy. unfold get_m in *.
  destruct (nth_error (mtasks s') k) as [y'|] eqn:E.
  - exists y'. split; auto.
  - apply nth_error_None in E. assert (k < length (mtasks s)) by (apply nth_error_Some; congruence).
    lia.
Qed.

Lemma PT_mtasks R s s1 s2 : mtasks s2 = mtasks s1 -> PT R s s1 -> PT R s s2.
Proof. intros E [L H]. unfold PT, get_m in *. rewrite E. auto. Qed.

(** One [cancel_m] *)
Lemma cancel_m_PT s m :
  PT (CR [m]) s (cancel_m s m) /\ gmeta (cancel_m s m) = gmeta s /\
  dtasks (cancel_m s m) = dtasks s /\ closed (cancel_m s m) = closed s /\
  (taint_iter s = true -> taint_iter (cancel_m s m) = true).
Proof.
  assert (Hrefl : forall ms, PT (CR ms) s s \/ True) by (intros; right; auto).
  unfold cancel_m. destruct (get_m s m) as [x|] eqn:Hx.
  2:{ split; [|auto]. split; auto. intros k y y' A B. unfold get_m in *.
      assert (y' = y) by congruence. subst y'.
      split; [apply qbase_refl|]. split; auto. split; auto.
      intros [->|[]]. congruence. }
  destruct (m_final x) eqn:Hf.
  { split; [|auto]. split; auto. intros k y y' A B. unfold get_m in *.
    assert (y' = y) by congruence. subst y'.
    split; [apply qbase_refl|]. split; auto. split; auto.
    intros [->|[]] Hl. congruence. }
  set (s1 := if is_current s (TM m) then set_taint_iter s true else s).
  assert (E1 : mtasks s1 = mtasks s /\ gmeta s1 = gmeta s /\ dtasks s1 = dtasks s /\
               closed s1 = closed s /\ (taint_iter s = true -> taint_iter s1 = true))
    by (unfold s1; destruct (is_current s (TM m)); cbn; auto 10).
  destruct E1 as [E1 [E2 [E3 [E4 E5]]]]. clearbody s1.
  assert (Hgen : forall x', qbase x x' -> cancelled x' ->
            PT (CR [m]) s (set_mtasks s1 (upd (mtasks s1) m x'))).
  { intros x' Q C. split; [cbn; rewrite upd_length; congruence|].
    intros k y y' A B. unfold get_m in *. cbn in B. rewrite E1 in B.
    destruct (Nat.eq_dec m k) as [<-|Ne].
    - rewrite (nth_error_upd_same _ Hx) in B. assert (y = x) by congruence.
      assert (y' = x') by congruence. subst. split; auto. split; auto. split; auto. simpl; auto.
    - rewrite nth_error_upd_neq in B by auto. assert (y' = y) by congruence. subst y'.
      split; [apply qbase_refl|]. split; auto. split; auto.
      intros [E|[]]. contradiction. }
  destruct (fut_pending (m_fw x)); unfold put_m.
  - split; [|autorewrite with fr; cbn; auto].
    eapply PT_mtasks; [apply sched_mtasks|].
    apply Hgen; [unfold qbase, mimm; cbn; tauto|right; reflexivity].
  - split; [|cbn; auto]. apply Hgen; [unfold qbase, mimm; cbn; tauto|left; reflexivity].
Qed.

Lemma CR_trans ms1 ms2 k x y z : CR ms1 k x y -> CR ms2 k y z -> CR (ms1 ++ ms2) k x z.
Proof.
  intros [A1 [A2 [A3 A4]]] [B1 [B2 [B3 B4]]].
  split; [eapply qbase_trans; eauto|]. split; [auto|]. split.
  - intros C. rewrite in_app_iff. destruct (B3 C) as [D|D]; auto. destruct (A3 D); auto.
  - intros Hi Hl. apply in_app_iff in Hi. destruct Hi as [Hi|Hi]; auto.
    apply B4; auto. destruct A1 as [_ [_ [_ [_ [F _]]]]]. congruence.
Qed.

Lemma CR_nil k y : CR [] k y y.
Proof.
  split; [apply qbase_refl|]. split; auto. split; auto. intros [].
Qed.

Lemma PT_trans (R1 R2 R3 : nat -> mtask -> mtask -> Prop) s1 s2 s3 :
  (forall k x y z, R1 k x y -> R2 k y z -> R3 k x z) ->
  PT R1 s1 s2 -> PT R2 s2 s3 -> PT R3 s1 s3.
Proof.
  intros HR H12 H23. split; [destruct H12, H23; congruence|].
  intros k x z Hx Hz. destruct (PT_fwd H12 Hx) as [y [Hy Rxy]].
  destruct H23 as [_ H]. eauto.
Qed.

Definition frames (s s' : state) : Prop :=
  dtasks s' = dtasks s /\ closed s' = closed s /\ (taint_iter s = true -> taint_iter s' = true).

Lemma frames_refl s : frames s s.
Proof. unfold frames; auto. Qed.
Lemma frames_trans s1 s2 s3 : frames s1 s2 -> frames s2 s3 -> frames s1 s3.
Proof. unfold frames. intros [A [B C]] [D [E F]]. repeat split; try congruence; auto. Qed.

Lemma fold_cancel_m_PT ms : forall s,
  PT (CR ms) s (fold_left cancel_m ms s) /\ gmeta (fold_left cancel_m ms s) = gmeta s /\
  frames s (fold_left cancel_m ms s).
Proof.
  induction ms as [|a l IH]; intros s; simpl.
  - split; [|split; [auto|apply frames_refl]]. split; auto.
    intros k y y' A B. assert (y' = y) by congruence. subst. apply CR_nil.
  - destruct (cancel_m_PT s a) as [P1 [P2 [P3 [P4 P5]]]].
    destruct (IH (cancel_m s a)) as [Q1 [Q2 Q3]].
    split; [|split].
    + eapply PT_trans with (R1 := CR [a]) (R2 := CR l); eauto.
      intros k x y z A B. apply (CR_trans A B).
    + congruence.
    + eapply frames_trans; eauto. unfold frames; auto.
Qed.

Definition reg_ok (s : state) : Prop :=
  forall m y, get_m s m = Some y -> m_final y = None -> m_dead y = false ->
              meta_in_group s m (m_group y).

Definition LI (s : state) : Prop :=
  XS s /\ xfile s /\ reg_ok s /\ NoDup (map fst (gmeta s)).

Lemma gremove_None g l : glookup g l = None -> gremove g l = l.
Proof.
  induction l as [|[h w] t IH]; simpl; auto.
  destruct (gname_eqb g h); [discriminate|]. intros H. f_equal. auto.
Qed.

Lemma In_gremove g l e : In e (gremove g l) -> In e l.
Proof.
  induction l as [|[h w] t IH]; simpl; auto.
  destruct (gname_eqb g h); simpl; intuition.
Qed.

Lemma mark_dead_get s g k y2 :
  get_m (mark_dead s g) k = Some y2 ->
  exists y1, get_m s k = Some y1 /\
             y2 = (if gname_eqb g (m_group y1) then set_m_dead y1 true else y1).
Proof.
  unfold get_m, mark_dead. cbn. rewrite nth_error_map.
  destruct (nth_error (mtasks s) k) as [y1|]; simpl; [|discriminate].
  intros H. inversion H. eauto.
Qed.

Lemma mark_dead_get_fwd s g k y1 :
  get_m s k = Some y1 ->
  get_m (mark_dead s g) k = Some (if gname_eqb g (m_group y1) then set_m_dead y1 true else y1).
Proof. unfold get_m, mark_dead. cbn. rewrite nth_error_map. intros ->. reflexivity. Qed.

Lemma xpc_qbase y y' : qbase y y' -> xpc y -> xpc y'.
Proof.
  intros [Hi [Hpc [Hidx [Hh _]]]] [P1 [P2 P3]]. pose proof (is_map_imm Hi) as Him.
  unfold xpc. rewrite Hpc, Hh, Him. split; [|split]; auto.
  - intros E. destruct (P2 E). split; auto. eapply can_start_qsim; eauto.
  - intros E. destruct (P3 E). split; auto. eapply can_start_qsim; eauto.
Qed.

Lemma xpc_dead y : xpc y -> xpc (set_m_dead y true).
Proof. intros H. exact H. Qed.

Lemma LI_mark s s1 g ms :
  LI s -> (glookup g (gmeta s) = Some ms \/ (glookup g (gmeta s) = None /\ ms = [])) ->
  PT (CR ms) s s1 -> gmeta s1 = gremove g (gmeta s) -> frames s s1 ->
  LI (mark_dead s1 g).
Proof.
  intros [HXS [HF [HR HK]]] Hms HPT Hgm [Fd [Fc Ft]].
  assert (Hgrp : forall k y, In k ms -> get_m s k = Some y -> m_group y = g).
  { intros k y Hi Hy. destruct Hms as [Hl|[_ ->]]; [|destruct Hi].
    apply glookup_In in Hl. destruct (HF _ _ _ Hl Hi) as [y0 [Hy0 Hg]]. congruence. }
  assert (Hin : forall k y, get_m s k = Some y -> m_final y = None -> m_dead y = false ->
                            m_group y = g -> In k ms).
  { intros k y Hy Hl Hd Hg. destruct (HR _ _ Hy Hl Hd) as [ms' [Hl' Hi']]. rewrite Hg in Hl'.
    destruct Hms as [Hl2|[Hl2 _]]; congruence. }
  assert (Egm : gmeta (mark_dead s1 g) = gremove g (gmeta s)) by (cbn; auto).
  split; [|split; [|split]].
  - (* XS *)
    intros k y2 Hy2. destruct (mark_dead_get Hy2) as [y1 [Hy1 ->]].
    destruct (PT_back HPT Hy1) as [y [Hy [[Hi [Hpc [Hidx [Hh [Hf Hd]]]]] [C1 [C2 C3]]]]].
    destruct (HXS _ _ Hy) as [[P1 [P2 P3]] [Q1 [Q2 Q3]]].
    pose proof (is_map_imm Hi) as Him.
    assert (Hx1 : xpc y1).
    { eapply xpc_qbase; [|split; [exact P1|split; [exact P2|exact P3]]].
      unfold qbase. auto 10. }
    destruct (gname_eqb_spec g (m_group y1)) as [Eg|Ng].
    + unfold xs_ok. split; [apply xpc_dead; exact Hx1|].
      change (cancelled (set_m_dead y1 true)) with (cancelled y1).
      cbn [m_dead m_final m_pc set_m_dead]. rewrite Hf, Hpc. split; [|split]; auto.
      * intros Hl _. destruct (m_dead y) eqn:Edy; [apply C1; auto|].
        apply C3; auto. eapply Hin; eauto. destruct Hi as [_ [M2 _]]. congruence.
      * intros Hcl Hl. split; auto. apply Q3; auto. cbn in Hcl. congruence.
    + unfold xs_ok. rewrite Hf, Hpc, Hd. split; [exact Hx1|split; [|split]].
      * intros Hl Hc. cbn. destruct (C2 Hc) as [Hc'|Hk].
        -- destruct (Q1 Hl Hc'); auto.
        -- exfalso. apply Ng. destruct Hi as [_ [M2 _]]. rewrite M2. symmetry. eapply Hgrp; eauto.
      * intros Hl Hdd. apply C1. auto.
      * intros Hcl Hl. apply Q3; auto. cbn in Hcl. congruence.
  - (* xfile *)
    intros g' ms' k Hi Hk. rewrite Egm in Hi. apply In_gremove in Hi.
    destruct (HF _ _ _ Hi Hk) as [y [Hy Hg]].
    destruct (PT_fwd HPT Hy) as [y1 [Hy1 [[[_ [M2 _]] _] _]]].
    rewrite (mark_dead_get_fwd g Hy1). eexists; split; eauto.
    destruct (gname_eqb g (m_group y1)); cbn; congruence.
  - (* reg_ok *)
    intros k y2 Hy2 Hl Hdd. destruct (mark_dead_get Hy2) as [y1 [Hy1 ->]].
    destruct (PT_back HPT Hy1) as [y [Hy [[[_ [M2 _]] [_ [_ [_ [Hf Hd]]]]] _]]].
    destruct (gname_eqb_spec g (m_group y1)) as [Eg|Ng]; [cbn in Hdd; discriminate|].
    destruct (HR _ _ Hy) as [ms' [Hl' Hi']]; try congruence.
    exists ms'. split; auto. rewrite Egm, glookup_gremove by auto. rewrite M2.
    destruct (gname_eqb_spec (m_group y) g); auto. congruence.
  - rewrite Egm. apply NoDup_gremove_keys; auto.
Qed.

Lemma LI_PQ s s' : LI s -> PQ s s' -> LI s'.
Proof.
  intros [A [B [C D]]] [F Gm Dt Cl Tt]. split; [|split; [|split]].
  - eapply XS_F2; eauto.
  - eapply xfile_F2; eauto.
  - intros m y' Hy' Hl Hd. unfold get_m in Hy'.
    destruct (Forall2_nth_r F Hy') as [y [Hy [[_ [M2 _]] [_ [_ [_ [Hf [Hdd _]]]]]]]].
    unfold meta_in_group. rewrite Gm, M2. apply C; auto; congruence.
  - rewrite Gm. auto.
Qed.

Lemma cancel_group_body_LI s g ids :
  LI s -> LI (cancel_group_body s g ids) /\ frames s (cancel_group_body s g ids).
Proof.
  intros HL. unfold cancel_group_body.
  set (s1 := cancel_group_metas s g).
  assert (H1 : exists ms,
            (glookup g (gmeta s) = Some ms \/ (glookup g (gmeta s) = None /\ ms = [])) /\
            PT (CR ms) s s1 /\ gmeta s1 = gremove g (gmeta s) /\ frames s s1).
  { unfold s1, cancel_group_metas. destruct (glookup g (gmeta s)) as [ms|] eqn:Hl.
    - exists ms. split; auto.
      destruct (fold_cancel_m_PT ms (set_gmeta s (gremove g (gmeta s)))) as [P [Q R]].
      split; [|split]; auto.
    - exists []. split; auto. split; [|split].
      + split; auto. intros k y y' A B. assert (y' = y) by congruence. subst. apply CR_nil.
      + rewrite gremove_None; auto.
      + apply frames_refl. }
  destruct H1 as [ms [Hms [HPT [Hgm Hfr]]]].
  pose proof (LI_mark HL Hms HPT Hgm Hfr) as HL2.
  set (s2 := mark_dead s1 g) in *.
  assert (PQ s2 (fold_left (fun s t => if mem t (t_running s) then cancel_p s t else s) ids s2))
    as Hpq.
  { apply PQ_fold; [|apply PQ_refl]. intros sa sb t Hab.
    destruct (mem t (t_running sb)); auto. apply PQ_cancel_p; auto. }
  split; [eapply LI_PQ; eauto|].
  eapply frames_trans; [exact Hfr|]. destruct Hpq as [_ _ Dt Cl Tt]. unfold frames. auto.
Qed.

Lemma cancel_all_groups_LI gs : forall s,
  LI s -> LI (cancel_all_groups s gs) /\ frames s (cancel_all_groups s gs).
Proof.
  induction gs as [|[g ids] t IH]; intros s HL; simpl.
  - split; auto. apply frames_refl.
  - destruct (cancel_group_body_LI g ids HL) as [A B].
    destruct (IH _ A) as [C D]. split; auto. eapply frames_trans; eauto.
Qed.

Lemma LI_of_WF s : WF s -> Extra_IR s -> LI s.
Proof.
  intros HW HX. destruct (Extra_parts HX) as [A [B C]].
  split; [|split; [|split]]; auto.
  - intros m y Hy Hl Hd. apply (IM_reg _ (wfm _ HW) _ _ Hy Hl Hd).
  - apply (IM_keys _ (wfm _ HW)).
Qed.

Lemma Extra_of_LI s0 s : Extra_IR s0 -> LI s -> dtasks s = dtasks s0 -> Extra_IR s.
Proof.
  intros HX [A [B _]] E. destruct (Extra_parts HX) as [_ [_ C]].
  apply Extra_of_parts; auto. eapply xgac_same; eauto.
Qed.

Lemma Extra_cancel_group s g : LI s -> Extra_IR s -> Extra_IR (do_op s (OpCancelGroup g)).
Proof.
  intros HL HX. cbn [do_op].
  assert (PQ s (know s g)) as Hk by pq.
  destruct (glookup g (groups (know s g))) as [ids|].
  - set (s2 := set_groups (know s g) (gremove g (groups (know s g)))).
    assert (PQ s s2) as H2 by (unfold s2; pq).
    destruct (@cancel_group_body_LI s2 g ids (LI_PQ HL H2)) as [A [B _]].
    eapply Extra_of_LI; eauto. rewrite B. apply H2.
  - eapply Extra_PQ; eauto. pq.
Qed.

Lemma Extra_cancel_all s : LI s -> Extra_IR s -> Extra_IR (do_op s OpCancelAll).
Proof.
  intros HL HX. cbn [do_op].
  assert (PQ s (set_groups s [])) as H2 by pq.
  destruct (@cancel_all_groups_LI (rev (groups s)) _ (LI_PQ HL H2)) as [A [B _]].
  eapply Extra_of_LI; eauto.
Qed.
