(** Monitor soundness for C02 / C03 — how the per-task invariant [taskok] moves with events. *)
From TP Require Import PMon PInv_R_base PMonSound_trk PMonSound_ev PMonSound2_def.

Lemma has_cb_In l t k : has_cb l t k = true <-> In (t, k) l.
Proof.
  unfold has_cb. rewrite existsb_exists. split.
  - intros ([u k'] & Hin & H). simpl in H. apply andb_true_iff in H. destruct H as [H1 H2].
    apply Nat.eqb_eq in H1. apply cbk_eqb_eq in H2. subst. exact Hin.
  - intros H. exists (t, k). split; auto. simpl. rewrite Nat.eqb_refl.
    destruct k; reflexivity.
Qed.

Lemma has_cb_false l t k : ~ In (t, k) l -> has_cb l t k = false.
Proof. intros H. destruct (has_cb l t k) eqn:E; auto. apply has_cb_In in E. contradiction. Qed.

Lemma mem_false_of n l : ~ In n l -> mem n l = false.
Proof. apply mem_false_In. Qed.
Lemma mem_true_of n l : In n l -> mem n l = true.
Proof. apply mem_In. Qed.

(** ** tasks not concerned by the event *)
Definition ev_task (e : event) : option nat :=
  match e with
  | EvStart t _ _ | EvCancelled t | EvExit t | EvCbBegin _ t _ | EvCbEnd _ t _
  | EvCbInterrupted _ t => Some t
  | _ => None
  end.

Definition vsame (u : nat) (V V' : aview) : Prop :=
  (In u (a_live V') <-> In u (a_live V)) /\
  assoc u (a_task V') = assoc u (a_task V) /\
  (In u (a_exited V') <-> In u (a_exited V)) /\
  (In u (a_cancelled V') <-> In u (a_cancelled V)) /\
  (forall k, In (u, k) (a_cbs V') <-> In (u, k) (a_cbs V)) /\
  (In u (a_ccb V') <-> In u (a_ccb V)) /\
  (In u (a_ccd V) -> In u (a_ccd V')) /\
  (In u (a_ecb V') <-> In u (a_ecb V)).

Lemma taskok_vsame RI TG V V' u o : vsame u V V' -> taskok RI TG V u o -> taskok RI TG V' u o.
Proof.
  intros (E1 & E2 & E3 & E4 & E5 & E6 & E7 & E8). unfold taskok. destruct o as [g|].
  - rewrite E1, E2, E3, E4, !E5, E6, E8. intuition.
  - rewrite E1, E2, E3, E4, E6, E8. intros (A1 & A2 & A3 & A4 & A5 & A6 & A7).
    repeat split; auto. intros k Hk. apply (A5 k). apply E5. exact Hk.
Qed.

Lemma avev_vsame n V e u : ev_task e <> Some u -> vsame u V (avev n V e).
Proof.
  intros Hne. unfold vsame.
  destruct e as [t r el|t|t|kd t cl|kd t raised|kd t|r k|d oc]; simpl in Hne;
    try (assert (Hu : u <> t) by congruence); simpl avev.
  - destruct (Nat.ltb r n); cbn; [|tauto].
    destruct (Nat.eqb_spec u t); [contradiction|]. intuition congruence.
  - cbn. intuition congruence.
  - cbn. rewrite In_removeall. intuition congruence.
  - destruct kd; cbn; (repeat split; try tauto; try (intros; intuition congruence)).
  - cbn. repeat split; try tauto.
    + intros H. apply In_del_cb in H. tauto.
    + intros H. apply In_del_cb. split; auto. intros [? _]; contradiction.
    + destruct kd; simpl; auto.
  - cbn. repeat split; try tauto.
    + intros H. apply In_del_cb in H. tauto.
    + intros H. apply In_del_cb. split; auto. intros [? _]; contradiction.
  - tauto.
  - tauto.
Qed.

(** ** the task concerned by the event *)
Lemma matches_ltb RI g : matches RI g -> Nat.ltb (s_req g) (length RI) = true.
Proof.
  intros (ri & H & _). apply Nat.ltb_lt. apply nth_error_Some. congruence.
Qed.

Lemma tk_start RI TG V a g :
  taskok RI TG V a (Some g) -> s_ph g = PhNew -> s_ns g = 0 -> matches RI g ->
  taskok RI TG (avev (length RI) V (EvStart a (s_req g) (s_el g))) a
         (Some (upd_st g PhLive 1 (s_ncc g) (s_nec g) (s_cd g) (s_cn g) (s_nc g))).
Proof.
  intros H Hph Hns Hm. simpl avev. rewrite (matches_ltb RI g Hm).
  unfold taskok in *. cbn. rewrite Nat.eqb_refl.
  destruct H as (H1 & H2 & H3 & H4 & H5 & H6 & H7 & H8 & H9 & H10 & H11 & H12 & H13 & H14).
  unfold live_ph in *. rewrite Hph in *.
  intuition (try congruence).
Qed.

Lemma tk_cancelled RI TG V a g n :
  taskok RI TG V a (Some g) -> s_ph g = PhLive ->
  taskok RI TG (avev n V (EvCancelled a)) a
         (Some (upd_st g PhUC (s_ns g) (s_ncc g) (s_nec g) (s_cd g) true false)).
Proof.
  intros H Hph. simpl avev. unfold taskok in *. cbn.
  destruct H as (H1 & H2 & H3 & H4 & H5 & H6 & H7 & H8 & H9 & H10 & H11 & H12 & H13 & H14).
  unfold live_ph in *. rewrite Hph in *.
  intuition (try congruence).
Qed.

Lemma tk_exit RI TG V a g n :
  taskok RI TG V a (Some g) -> live_ph (s_ph g) -> s_ns g <> 0 ->
  taskok RI TG (avev n V (EvExit a)) a (Some (set_ph g PhMid)).
Proof.
  intros H Hph Hns. simpl avev. unfold taskok in *. cbn.
  destruct H as (H1 & H2 & H3 & H4 & H5 & H6 & H7 & H8 & H9 & H10 & H11 & H12 & H13 & H14).
  unfold live_ph in *. rewrite In_removeall.
  assert (Hc : s_ph g <> PhCan) by (destruct Hph; congruence).
  assert (He : s_ph g <> PhEnd) by (destruct Hph; congruence).
  intuition (try congruence).
Qed.

Lemma tk_cbbegin_can RI TG V a g n cl :
  taskok RI TG V a (Some g) -> s_ph g = PhMid ->
  taskok RI TG (avev n V (EvCbBegin KCancel a cl)) a
         (Some (upd_st g PhCan (s_ns g) 1 (s_nec g) (s_cd g) (s_cn g) (s_nc g))).
Proof.
  intros H Hph. simpl avev. unfold taskok in *. cbn.
  destruct H as (H1 & H2 & H3 & H4 & H5 & H6 & H7 & H8 & H9 & H10 & H11 & H12 & H13 & H14).
  unfold live_ph in *. rewrite Hph in *.
  intuition (try congruence).
Qed.

Lemma tk_cbbegin_end RI TG V a g n cl :
  taskok RI TG V a (Some g) -> s_ph g = PhMid ->
  taskok RI TG (avev n V (EvCbBegin KEnd a cl)) a
         (Some (upd_st g PhEnd (s_ns g) (s_ncc g) 1 (s_cd g) (s_cn g) (s_nc g))).
Proof.
  intros H Hph. simpl avev. unfold taskok in *. cbn.
  destruct H as (H1 & H2 & H3 & H4 & H5 & H6 & H7 & H8 & H9 & H10 & H11 & H12 & H13 & H14).
  unfold live_ph in *. rewrite Hph in *.
  intuition (try congruence).
Qed.

Lemma tk_cbdel RI TG V V' a g kd cd' :
  taskok RI TG V a (Some g) ->
  (kd = KCancel /\ s_ph g = PhCan) \/ (kd = KEnd /\ s_ph g = PhEnd) ->
  a_live V' = a_live V -> a_task V' = a_task V -> a_exited V' = a_exited V ->
  a_cancelled V' = a_cancelled V -> a_cbs V' = del_cb (a_cbs V) a kd -> a_ccb V' = a_ccb V ->
  a_ecb V' = a_ecb V -> (forall u, In u (a_ccd V) -> In u (a_ccd V')) ->
  (cd' = true -> s_cd g = true \/ In a (a_ccd V')) ->
  taskok RI TG V' a (Some (upd_st g PhMid (s_ns g) (s_ncc g) (s_nec g) cd' (s_cn g) (s_nc g))).
Proof.
  intros H Hph E1 E2 E3 E4 E5 E6 E7 E8 Hcd. unfold taskok in *. cbn.
  rewrite E1, E2, E3, E4, E5, E6, E7.
  destruct H as (H1 & H2 & H3 & H4 & H5 & H6 & H7 & H8 & H9 & H10 & H11 & H12 & H13 & H14).
  unfold live_ph in *. rewrite !In_del_cb.
  assert (Hnl : s_ph g <> PhLive /\ s_ph g <> PhUC /\ s_ph g <> PhNew)
    by (destruct Hph as [[_ E]|[_ E]]; rewrite E; repeat split; discriminate).
  destruct Hnl as (N1 & N2 & N3).
  pose proof (E8 a) as E8a.
  destruct Hph as [[-> E]|[-> E]]; rewrite E in *; intuition (try congruence).
Qed.

(** change of phase without an event, between phases that no list distinguishes *)
Lemma tk_reph RI TG V a g p' :
  taskok RI TG V a (Some g) ->
  (s_ph g = PhNew \/ s_ph g = PhMid \/ s_ph g = PhOut) -> (p' = PhMid \/ p' = PhOut) ->
  taskok RI TG V a (Some (set_ph g p')).
Proof.
  intros H Hph Hp. unfold taskok in *. cbn.
  destruct H as (H1 & H2 & H3 & H4 & H5 & H6 & H7 & H8 & H9 & H10 & H11 & H12 & H13 & H14).
  unfold live_ph in *.
  assert (A : s_ph g <> PhLive /\ s_ph g <> PhUC /\ s_ph g <> PhCan /\ s_ph g <> PhEnd)
    by (destruct Hph as [E|[E|E]]; rewrite E; repeat split; discriminate).
  assert (B : p' <> PhLive /\ p' <> PhUC /\ p' <> PhCan /\ p' <> PhEnd /\ p' <> PhNew)
    by (destruct Hp as [E|E]; rewrite E; repeat split; discriminate).
  destruct A as (A1 & A2 & A3 & A4). destruct B as (B1 & B2 & B3 & B4 & B5).
  intuition (try congruence).
Qed.

(** flags can be dropped, set when justified *)
Definition le_st (g' g : status) : Prop :=
  s_ph g' = s_ph g /\ s_ns g' = s_ns g /\ s_ncc g' = s_ncc g /\ s_nec g' = s_nec g /\
  s_req g' = s_req g /\ s_el g' = s_el g /\ s_w g' = s_w g /\ s_ecb g' = s_ecb g /\
  s_ccb g' = s_ccb g /\
  (s_cd g' = true -> s_cd g = true) /\ (s_cn g' = true -> s_cn g = true) /\
  (s_nc g' = true -> s_nc g = true) /\ (s_def g' = true -> s_def g = true).

Lemma taskok_le RI TG V u g g' : le_st g' g -> taskok RI TG V u (Some g) -> taskok RI TG V u (Some g').
Proof.
  intros (E1 & E2 & E3 & E4 & E5 & E6 & E7 & E8 & E9 & F1 & F2 & F3 & F4). unfold taskok, matches.
  rewrite E1, E2, E3, E4, E5, E6, E7, E8, E9. intuition.
Qed.

(** setting the flags from what the lists say *)
Lemma tk_flags RI TG V a g :
  taskok RI TG V a (Some g) ->
  taskok RI TG V a
    (Some (upd_st g (s_ph g) (s_ns g) (s_ncc g) (s_nec g) (s_cd g)
                  (match s_ph g with PhUC => true | _ => s_cn g end)
                  (match s_ph g with PhNew | PhLive => true | _ => s_nc g end))).
Proof.
  intros H. unfold taskok in *. cbn.
  destruct H as (H1 & H2 & H3 & H4 & H5 & H6 & H7 & H8 & H9 & H10 & H11 & H12 & H13 & H14).
  repeat split; try tauto; auto.
  - destruct (s_ph g); auto.
  - destruct (s_ph g) eqn:E; auto; intros _ Hx; apply H5 in Hx; tauto.
Qed.
