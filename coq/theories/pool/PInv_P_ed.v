(** The extra driver fact ExtraD (a driver waiting on its second gather has a future) is preserved. *)
From TP Require Import PInv PInv_P_base PInv_P_view PInv_P_inv PInv_P_tok PInv_P_tok2
  PInv_P_chain PInv_P_step.

Definition ExtraD (s : state) : Prop :=
  forall d x, get_d s d = Some x -> d_pc x = DWaitG2 -> d_fw x <> None.

Lemma ED_dt s s' : dtasks s' = dtasks s -> ExtraD s -> ExtraD s'.
Proof. intros E H d x. unfold get_d. rewrite E. apply H. Qed.

Lemma ED_pv s s' : pview s' = pview s -> ExtraD s -> ExtraD s'.
Proof. intros E. apply ED_dt. change (vds (pview s') = vds (pview s)). now rewrite E. Qed.

Lemma ED_Qpv : Qpv ExtraD.
Proof. intros s s'. apply ED_pv. Qed.

Lemma ED_Qreg : Qreg ExtraD.
Proof.
  intros s m x. apply ED_dt. change (vds (pview (register s m x)) = vds (pview s)).
  rewrite pv_register. reflexivity.
Qed.

Lemma vds_enter_end_v v t x : vds (enter_end_v v t x) = vds v.
Proof. unfold enter_end_v. repeat (first [reflexivity | dmatch]). Qed.

Lemma vds_enter_cancel_v v t x : vds (enter_cancel_v v t x) = vds v.
Proof.
  unfold enter_cancel_v. destruct (mem t (vR v)); [|apply vds_enter_end_v].
  cbv zeta. destruct (p_ccb x); [rewrite vds_enter_end_v|..]; reflexivity.
Qed.

Ltac dtleaf :=
  autorewrite with pv; unfold finish_v, suspend_v;
  rewrite ?vds_enter_end_v, ?vds_enter_cancel_v; reflexivity.

Lemma dt_run_p s t : dtasks (run_p s t) = dtasks s.
Proof.
  change (vds (pview (run_p s t)) = vds (pview s)). unfold run_p. cbv zeta.
  repeat (first [reflexivity | dmatch]); dtleaf.
Qed.

Lemma dt_continue_p s t : dtasks (continue_p s t) = dtasks s.
Proof.
  change (vds (pview (continue_p s t)) = vds (pview s)). unfold continue_p.
  repeat (first [reflexivity | dmatch]); dtleaf.
Qed.

Lemma dt_cancel_p s t : dtasks (cancel_p s t) = dtasks s.
Proof.
  change (vds (pview (cancel_p s t)) = vds (pview s)). rewrite pv_cancel_p.
  apply vds_cancel_p_v.
Qed.

Lemma ED_do_cancel s ids : ExtraD s -> ExtraD (do_cancel s ids).
Proof.
  intros H. unfold do_cancel. destruct (first_lookup_err s ids).
  - eapply ED_pv; [|exact H]. reflexivity.
  - apply fold_inv; auto. intros s0 a. apply ED_dt, dt_cancel_p.
Qed.

Lemma ED_cancel_group_body s g ids : ExtraD s -> ExtraD (cancel_group_body s g ids).
Proof.
  intros H. unfold cancel_group_body. apply fold_inv.
  - intros s0 t H0. destruct (mem t (t_running s0)); auto. eapply ED_dt; [apply dt_cancel_p|auto].
  - eapply ED_pv; [|exact H]. rewrite pv_mark_dead. apply pv_cancel_group_metas.
Qed.

Lemma ED_cancel_all_groups gs : forall s, ExtraD s -> ExtraD (cancel_all_groups s gs).
Proof.
  induction gs as [|[g ids] r IH]; simpl; intros s H; auto.
  apply IH. now apply ED_cancel_group_body.
Qed.

Lemma ED_stop_res s ids :
  ExtraD s -> ExtraD (match res s with RErr _ => s | _ => set_res s (RIds ids) end).
Proof. intros H. destruct (res s); auto; (eapply ED_pv; [|exact H]; reflexivity). Qed.

Lemma ED_put_d s d x' :
  ExtraD s -> (d_pc x' = DWaitG2 -> d_fw x' <> None) -> ExtraD (put_d s d x').
Proof.
  intros H Hx d' x. unfold get_d, put_d. cbn [dtasks set_dtasks]. rewrite nth_error_upd.
  destruct (Nat.eqb d d').
  - destruct (Nat.ltb _ _); [|discriminate]. intros [= <-]. auto.
  - apply H.
Qed.

Lemma ED_sched s h : ExtraD s -> ExtraD (sched s h).
Proof. apply ED_pv, pv_sched. Qed.

Lemma ED_finish_d s d x e : ExtraD s -> ExtraD (finish_d s d x e).
Proof.
  intros H. unfold finish_d. eapply ED_dt with (s := put_d s d _); [reflexivity|].
  apply ED_put_d; auto. cbn. discriminate.
Qed.

Lemma ED_wake_closed ds : forall s, ExtraD s -> ExtraD (wake_closed s ds).
Proof.
  induction ds as [|d r IH]; simpl; intros s H; auto. apply IH.
  destruct (get_d s d); auto. destruct (fut_pending _); auto.
  apply ED_sched, ED_put_d; auto. cbn. discriminate.
Qed.

Lemma ED_after_g2 s d x outer : ExtraD s -> ExtraD (after_g2 s d x outer).
Proof.
  intros H. unfold after_g2.
  destruct outer; try (now apply ED_finish_d); destruct (d_kind x); try (now apply ED_finish_d);
    apply ED_finish_d; try apply ED_wake_closed; (eapply ED_dt; [|exact H]; reflexivity).
Qed.

Lemma ED_start_g2 s d x cs re : ExtraD s -> ExtraD (start_g2 s d x cs re).
Proof.
  intros H. unfold start_g2. destruct (make_gather _ _ _) as [g outer].
  destruct outer; try (now apply ED_after_g2).
  eapply ED_dt with (s := put_d s d _); [reflexivity|]. apply ED_put_d; auto. cbn. discriminate.
Qed.

Lemma ED_after_g1 s d x outer : ExtraD s -> ExtraD (after_g1 s d x outer).
Proof.
  intros H. unfold after_g1. destruct (d_kind x).
  - assert (Hgo : forall cs, ExtraD (start_g2 (set_meta_cancelled s []) d x cs re)).
    { intros cs. apply ED_start_g2. eapply ED_dt; [|exact H]; reflexivity. }
    destruct outer as [| |e|]; auto. destruct e; auto using ED_finish_d.
  - destruct (if re then None else _); [now apply ED_finish_d|].
    apply ED_start_g2. eapply ED_dt; [|exact H]; reflexivity.
  - now apply ED_finish_d.
Qed.

Lemma ED_start_g1 s d x cs re : ExtraD s -> ExtraD (start_g1 s d x cs re).
Proof.
  intros H. unfold start_g1. destruct (make_gather _ _ _) as [g outer].
  destruct outer; try (now apply ED_after_g1).
  eapply ED_dt with (s := put_d s d _); [reflexivity|]. apply ED_put_d; auto. cbn. discriminate.
Qed.

Lemma ED_run_d s d : ExtraD s -> ExtraD (run_d s d).
Proof.
  intros H. unfold run_d. destruct (get_d s d) as [x0|]; auto.
  destruct (d_pc x0); auto.
  - destruct (d_kind (set_d_fw x0 None)).
    + destruct (pop_ended s (gmeta s)) as [gm ended]. apply ED_start_g1.
      eapply ED_dt; [|exact H]; reflexivity.
    + apply ED_start_g1. eapply ED_dt; [|exact H]; reflexivity.
    + destruct (closed s); [now apply ED_finish_d|].
      eapply ED_dt with (s := put_d _ d _); [reflexivity|]. apply ED_put_d.
      * eapply ED_dt; [|exact H]; reflexivity.
      * cbn. discriminate.
  - now apply ED_after_g1.
  - now apply ED_after_g2.
  - apply ED_finish_d. eapply ED_dt; [|exact H]; reflexivity.
Qed.

Lemma ED_run_g s d c : ExtraD s -> ExtraD (run_g s d c).
Proof.
  intros H. unfold run_g. destruct (get_d s d) as [x|] eqn:Ex; auto.
  destruct (tref_final s c); auto.
  pose proof (H d x Ex) as Hx.
  repeat (first [assumption | apply ED_sched | apply ED_put_d; [assumption|] | dmatch]);
    cbn; try discriminate; auto.
Qed.

Lemma ED_do_op s o : ExtraD s -> ExtraD (do_op s o).
Proof.
  intros H. destruct (op_other o) eqn:Eo.
  { destruct (op_driver o) eqn:Ed.
    - destruct o; try discriminate; unfold do_op.
      { eapply ED_dt; [|exact H]. destruct (Nat.ltb 0 (n_gac s)); reflexivity. }
      apply ED_sched.
      intros d x. unfold get_d. cbn [dtasks set_dtasks].
      assert (Hd : dtasks (match k with
                           | DGatherClose _ => set_n_gac s (S (n_gac s)) | _ => s end) = dtasks s)
        by (destruct k; reflexivity).
      rewrite Hd, nth_error_snoc.
      destruct (Nat.ltb _ _); [apply H|]. destruct (Nat.eqb _ _); [|discriminate].
      intros [= <-]. cbn. discriminate.
    - eapply ED_pv; [apply pv_do_op_other; auto|auto]. }
  destruct o; try discriminate; unfold do_op.
  - now apply ED_do_cancel.
  - assert (Hk : ExtraD (know s g)) by (eapply ED_pv; eauto using pv_know).
    destruct (glookup g (groups (know s g))).
    + apply ED_cancel_group_body. eapply ED_pv; [|exact Hk]; reflexivity.
    + eapply ED_pv; [|apply Hk]. reflexivity.
  - apply ED_cancel_all_groups. eapply ED_pv; [|exact H]; reflexivity.
  - apply ED_stop_res. now apply ED_do_cancel.
  - apply ED_stop_res. now apply ED_do_cancel.
  - destruct (get_p s tid) as [x|] eqn:Ex; auto. apply ED_sched.
    eapply ED_dt; [|exact H]; reflexivity.
  - destruct (get_p s tid) as [x|] eqn:Ex; auto. apply ED_sched.
    eapply ED_dt; [|exact H]; reflexivity.
Qed.
