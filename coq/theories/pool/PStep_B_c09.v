(** C09 (rejected requests leave no trace; lock / unlock) and C15 (pool_size: the part that holds,
    and the refutations of the getter / setter claims). *)
From TP Require Import PSpecStep.

(** ** [pool_same] *)
Lemma pool_same_refl s : pool_same s s.
Proof. unfold pool_same. repeat split. Qed.

Lemma pool_same_set_res s s' r : pool_same s s' -> pool_same s (set_res s' r).
Proof. unfold pool_same. cbn. auto. Qed.

Lemma pool_same_know s g : pool_same s (know s g).
Proof. unfold know. destruct (existsb _ _); [apply pool_same_refl|]. unfold pool_same. cbn. repeat split. Qed.

Lemma groups_know s g : groups (know s g) = groups s.
Proof. unfold know. destruct (existsb _ _); reflexivity. Qed.

Lemma check_start_know s g b : check_start (know s g) b = check_start s b.
Proof. unfold check_start, know. destruct (existsb _ _); reflexivity. Qed.

Lemma res_set_res s r : res (set_res s r) = r.
Proof. reflexivity. Qed.

Definition kn (s : state) (og : option gname) : state :=
  match og with Some g => know s g | None => s end.

Lemma pool_same_kn s og : pool_same s (kn s og).
Proof. destruct og; [apply pool_same_know|apply pool_same_refl]. Qed.

Lemma check_start_kn s og b : check_start (kn s og) b = check_start s b.
Proof. destruct og; [apply check_start_know|reflexivity]. Qed.

Lemma groups_kn s og : groups (kn s og) = groups s.
Proof. destruct og; [apply groups_know|reflexivity]. Qed.

(** shape of the three spawning operations *)
Lemma do_apply_eq s num bad noncoro w ecb ccb og :
  do_op s (OpApply num bad noncoro w ecb ccb og) =
  let s1 := kn s og in
  match check_start s1 noncoro with
  | Some e => set_res s1 (RErr e)
  | None =>
      let g := match og with Some g => g | None => gen_name s1 0 end in
      if ghas g (groups s1) then set_res s1 (RErr ErrGroupExists)
      else
        let s2 := set_groups (know s1 g) (gensure g (groups (know s1 g))) in
        set_res (new_meta s2 (mk_mtask MApply g num bad [] w ecb ccb MNotStarted 0 None false
                                       None 0 false 0 false 0)) (RName g)
  end.
Proof. reflexivity. Qed.

Lemma do_map_eq s stars els nc noncoro ecb ccb og :
  do_op s (OpMap stars els nc noncoro ecb ccb og) =
  let s1 := kn s og in
  let g := match og with Some g => g | None => gen_name s1 (meth_of_stars stars) end in
  match check_start s1 noncoro with
  | Some e => set_res s1 (RErr e)
  | None =>
      if Nat.eqb nc 0 then set_res s1 (RErr ErrValueError)
      else if ghas g (groups s1) then set_res s1 (RErr ErrGroupExists)
      else
        let s2 := set_groups (know s1 g) (gensure g (groups (know s1 g))) in
        set_res (new_meta s2 (mk_mtask (MMap stars) g 0 [] els default_w ecb ccb MNotStarted
                                       0 None false None nc false 0 false nc)) (RName g)
  end.
Proof. reflexivity. Qed.

Lemma res_new_meta_ne s x g e : res (set_res (new_meta s x) (RName g)) <> RErr e.
Proof. cbn. discriminate. Qed.

Lemma c09_no_trace_holds s o e :
  spawn_op o = true -> res (do_op s o) = RErr e -> pool_same s (do_op s o).
Proof.
  intros Hs Hr. destruct o; try discriminate Hs.
  - rewrite do_apply_eq in *. cbv zeta in *.
    destruct (check_start (kn s g) noncoro).
    + apply pool_same_set_res, pool_same_kn.
    + destruct (ghas _ (groups (kn s g))).
      * apply pool_same_set_res, pool_same_kn.
      * exfalso. revert Hr. apply res_new_meta_ne.
  - rewrite do_map_eq in *. cbv zeta in *.
    destruct (check_start (kn s g) noncoro).
    + apply pool_same_set_res, pool_same_kn.
    + destruct (Nat.eqb nc 0); [apply pool_same_set_res, pool_same_kn|].
      destruct (ghas _ (groups (kn s g))).
      * apply pool_same_set_res, pool_same_kn.
      * exfalso. revert Hr. apply res_new_meta_ne.
  - unfold do_op in *. destruct (check_start s false).
    + apply pool_same_set_res, pool_same_refl.
    + exfalso. revert Hr. apply res_new_meta_ne.
Qed.

Lemma check_start_true s : check_start s true = Some ErrNotCoroutineFunction.
Proof. reflexivity. Qed.

Lemma check_start_closed s : closed s = true -> check_start s false = Some ErrPoolIsClosed.
Proof. unfold check_start. intros ->. reflexivity. Qed.

Lemma check_start_locked s :
  closed s = false -> locked s = true -> check_start s false = Some ErrPoolIsLocked.
Proof. unfold check_start. intros -> ->. reflexivity. Qed.

Lemma check_start_open s :
  closed s = false -> locked s = false -> check_start s false = None.
Proof. unfold check_start. intros -> ->. reflexivity. Qed.

Theorem C09_op_holds : forall s, C09_op s.
Proof.
  intros s. constructor.
  - apply c09_no_trace_holds.
  - intros. rewrite do_apply_eq. cbv zeta. rewrite check_start_kn, check_start_true. reflexivity.
  - intros Hc. intros. rewrite do_apply_eq. cbv zeta.
    rewrite check_start_kn, check_start_closed by auto. reflexivity.
  - intros Hc Hl. split; [|split]; intros.
    + rewrite do_apply_eq. cbv zeta. rewrite check_start_kn, check_start_locked by auto.
      reflexivity.
    + rewrite do_map_eq. cbv zeta. rewrite check_start_kn, check_start_locked by auto.
      reflexivity.
    + unfold do_op. rewrite check_start_locked by auto. reflexivity.
  - intros Hc Hl. intros. rewrite do_map_eq. cbv zeta.
    rewrite check_start_kn, check_start_open by auto. reflexivity.
  - intros Hc Hl g Hg. split; intros.
    + rewrite do_apply_eq. cbv zeta. rewrite check_start_kn, check_start_open by auto.
      rewrite groups_kn, Hg. reflexivity.
    + rewrite do_map_eq. cbv zeta. rewrite check_start_kn, check_start_open by auto.
      destruct (Nat.eqb_spec nc 0); [contradiction|].
      rewrite groups_kn, Hg. reflexivity.
  - split; [reflexivity|]. apply pool_same_set_res, pool_same_refl.
  - split; reflexivity.
  - split; [reflexivity|split].
    + unfold do_op. destruct (Nat.ltb 0 (n_gac s)) eqn:Hn.
      * change (n_gac (set_locked (set_taint_unlock s true) false)) with (n_gac s).
        rewrite Hn. reflexivity.
      * change (n_gac (set_locked s false)) with (n_gac s). rewrite Hn. reflexivity.
    + intros Hc. unfold do_op, check_start.
      destruct (Nat.ltb 0 (n_gac s)); cbn; rewrite Hc; reflexivity.
Qed.

(** ** C15 *)
Theorem C15_partial_holds : forall s, WF s -> C15_partial_spec s.
Proof.
  intros s W. constructor.
  - split; [reflexivity|]. apply pool_same_set_res, pool_same_refl.
  - intros Ht Hu. destruct (wf3 _ W) as [Hs Hc _]. rewrite <- (Hc Ht).
    unfold slots_ok in Hs. rewrite Hu in Hs.
    destruct (sem_value s), (cap s); try contradiction; auto. f_equal. lia.
  - intros v. cbn. repeat split.
Qed.

Definition c15_w : wspec := {| w_first := WSuspend; w_cancel := WPropagate |}.

Definition c15g_cfg : config :=
  {| cf_size := Fin 2; cf_kind := KTask; cf_bad := []; cf_w := default_w;
     cf_ecb := CbNone; cf_ccb := CbNone |}.

Definition c15g_tr : list label :=
  [ LOp (OpApply 1 [] false c15_w CbNone CbNone None); LRun (HT (TM 0)) ].

(** the getter returns the number of FREE slots, not the size *)
Theorem C15_getter_refuted :
  exists c tr, clean (run c tr) /\ taint_size (run c tr) = false /\
               sem_value (run c tr) <> cf_size c.
Proof.
  exists c15g_cfg, c15g_tr. vm_compute. repeat split. discriminate.
Qed.

Definition c15s_cfg : config :=
  {| cf_size := Fin 1; cf_kind := KTask; cf_bad := []; cf_w := default_w;
     cf_ecb := CbNone; cf_ccb := CbNone |}.

Definition c15s_tr : list label :=
  [ LOp (OpApply 2 [] false c15_w CbNone CbNone None); LRun (HT (TM 0));
    LRun (HT (TP 0)); LGo; LOp (OpSetSize (Some (Fin 5))) ].

(** assigning a larger size does not wake the spawners that wait for room *)
Theorem C15_setter_refuted :
  exists c tr, let s := run c tr in
    clean s /\ quiet s /\
    (exists m, In m (sem_waiters s) /\ m_fw_of s m = Some FPending) /\
    (exists v, sem_value s = Fin (S v)) /\ length (t_running s) < 5.
Proof.
  exists c15s_cfg, c15s_tr. cbv zeta.
  split; [reflexivity|]. split; [|split; [|split]].
  - split; [reflexivity|]. split; [reflexivity|].
    intros t x H. unfold get_p in H.
    assert (Hp : ptasks (run c15s_cfg c15s_tr) =
                 [mk_ptask 0 0 (GGen 0 0) c15_w CbNone CbNone false PWaitGate (Some FPending)
                           false None FinReturn None UNone 1 0 0 0]) by (vm_compute; reflexivity).
    rewrite Hp in H. destruct t as [|[|t]]; try discriminate H. injection H as <-. reflexivity.
  - exists 0. split; [vm_compute; auto|reflexivity].
  - exists 4. reflexivity.
  - vm_compute. lia.
Qed.
