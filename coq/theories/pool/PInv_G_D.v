(** API operations other than the drivers. *)
From Coq Require Import Permutation.
From TP Require Export PInv_G_Step PInv_G_GL.

(** every field the layers look at *)
Definition vD (s : state) :=
  (mtasks s, gmeta s, meta_cancelled s, taint_iter s, dtasks s, ptasks s, closed_waiters s,
   locked s, closed s, n_gac s, t_running s, t_cancelled s, t_ended s, ctl s, ready s).

Lemma vD_inv s s' : vD s' = vD s ->
  mtasks s' = mtasks s /\ gmeta s' = gmeta s /\ meta_cancelled s' = meta_cancelled s /\
  taint_iter s' = taint_iter s /\ dtasks s' = dtasks s /\ ptasks s' = ptasks s /\
  closed_waiters s' = closed_waiters s /\ locked s' = locked s /\ closed s' = closed s /\
  n_gac s' = n_gac s /\ t_running s' = t_running s /\ t_cancelled s' = t_cancelled s /\
  t_ended s' = t_ended s /\ ctl s' = ctl s /\ ready s' = ready s.
Proof. unfold vD. intros H. inversion H. repeat split; auto. Qed.

Lemma know_form s g : exists l, know s g = set_known s l.
Proof.
  unfold know. destruct (existsb (gname_eqb g) (known s)); eauto.
  exists (known s). destruct s; reflexivity.
Qed.

Lemma vD_know s g : vD (know s g) = vD s.
Proof. destruct (know_form s g) as [l E]. rewrite E. reflexivity. Qed.

Lemma relA_vD s s' : vD s' = vD s -> relA s s'.
Proof.
  intros H. destruct (vD_inv _ _ H) as [E1 [E2 [E3 [E4 [E5 [E6 [E7 [E8 [E9 [E10 [E11 [E12 [E13 [E14 E15]]]]]]]]]]]]]].
  apply relA_neutral; auto.
  - unfold vS. congruence.
  - intros d c. rewrite E15. tauto.
  - unfold regs. congruence.
  - intros k. rewrite E14. auto.
Qed.

Lemma INV_vD s s' : WF s -> Extra_G s -> vD s' = vD s -> INV s'.
Proof. intros W X H. eapply pres_relA; eauto. apply relA_vD; auto. Qed.

(** *** creating a spawner *)
Lemma new_meta_INV s s2 x r :
  WF s -> Extra_G s -> vD s2 = vD s -> closed s = false -> locked s = false ->
  m_final x = None -> m_dead x = false -> m_holds x = false ->
  INV (set_res (new_meta s2 x) r).
Proof.
  intros W X HV Hcl Hlk Fx Dx Hx.
  destruct (vD_inv _ _ HV) as [E1 [E2 [E3 [E4 [E5 [E6 [E7 [E8 [E9 [E10 [E11 [E12 [E13 [E14 E15]]]]]]]]]]]]]].
  pose proof (wfm _ W) as M.
  set (m := length (mtasks s)).
  set (s3 := set_gmeta (set_mtasks s2 (mtasks s2 ++ [x])) (gadd (m_group x) (length (mtasks s2)) (gmeta s2))).
  assert (ES : new_meta s2 x = sched s3 (HT (TM (length (mtasks s2))))) by reflexivity.
  destruct (sched_form s3 (HT (TM (length (mtasks s2))))) as [l EL].
  set (s' := set_res (new_meta s2 x) r).
  assert (F1 : mtasks s' = mtasks s ++ [x]) by (subst s'; rewrite ES, EL; cbn; congruence).
  assert (F2 : gmeta s' = gadd (m_group x) m (gmeta s)) by (subst s' m; rewrite ES, EL; cbn; congruence).
  assert (F3 : meta_cancelled s' = meta_cancelled s) by (subst s'; rewrite ES, EL; cbn; congruence).
  assert (F5 : dtasks s' = dtasks s) by (subst s'; rewrite ES, EL; cbn; congruence).
  assert (F6 : ptasks s' = ptasks s) by (subst s'; rewrite ES, EL; cbn; congruence).
  assert (F7 : closed_waiters s' = closed_waiters s) by (subst s'; rewrite ES, EL; cbn; congruence).
  assert (F8 : locked s' = locked s) by (subst s'; rewrite ES, EL; cbn; congruence).
  assert (F9 : closed s' = closed s) by (subst s'; rewrite ES, EL; cbn; congruence).
  assert (F10 : n_gac s' = n_gac s) by (subst s'; rewrite ES, EL; cbn; congruence).
  assert (F11 : regs s' = regs s) by (subst s'; rewrite ES, EL; unfold regs; cbn; congruence).
  assert (F14 : ctl s' = ctl s) by (subst s'; rewrite ES, EL; cbn; congruence).
  assert (F15 : forall d c, In (HG d c) (ready s') <-> In (HG d c) (ready s)).
  { intros d c. subst s'. rewrite ES. change (ready (set_res (sched s3 (HT (TM (length (mtasks s2))))) r))
      with (ready (sched s3 (HT (TM (length (mtasks s2)))))).
    rewrite sched_ready_In. subst s3. cbn. rewrite E15. split; auto. intros [H|H]; auto. discriminate. }
  assert (GM : forall k, get_m s' k =
             if Nat.ltb k m then get_m s k else if Nat.eqb k m then Some x else None).
  { intros k. unfold get_m. rewrite F1. apply nth_error_snoc. }
  clearbody s'. clear ES EL s3.
  assert (NS : ~ sealed s).
  { intros [Hc|[d [y [re [H1 [H2 H3]]]]]]; [congruence|].
    destruct (IG_gac2 _ (wfg _ W) d y re H1 H2 H3) as [A _]. congruence. }
  assert (FR : ~ In m (meta_cancelled s ++ gvals (gmeta s))).
  { intros H. apply (IM_lt _ M) in H. subst m. lia. }
  assert (XD : XDead s').
  { intros k y. rewrite GM. destruct (Nat.ltb k m); [apply (X_dead _ X)|].
    destruct (Nat.eqb k m); [|discriminate]. intros E; inversion E; subst y. congruence. }
  apply (pres_core s s' (wfg _ W) X F5 F7 F8 F9 F10).
  - apply gvF_neutral_done; auto.
    intros c. destruct c as [u|u|u].
    + unfold tref_done, tref_final, get_p. rewrite F6. reflexivity.
    + unfold tref_done, tref_final. rewrite GM. destruct (Nat.ltb_spec u m); auto.
      assert (E : get_m s u = None) by (apply nth_error_None; subst m; lia). rewrite E.
      destruct (Nat.eqb u m); auto. rewrite Fx. reflexivity.
    + unfold tref_done, tref_final, get_d. rewrite F5. reflexivity.
  - intros [H|H]; congruence.
  - intros H. contradiction.
  - constructor.
    + intros k y. rewrite GM. unfold meta_in_group. rewrite F2.
      destruct (Nat.ltb k m).
      * intros Hk Hf Hd. destruct (IM_reg _ M k y Hk Hf Hd) as [ms [Hl Hin]].
        eapply glookup_gadd_mono; eauto.
      * destruct (Nat.eqb_spec k m) as [->|]; [|discriminate].
        intros E; inversion E; subst y. intros _ _. apply glookup_gadd_same.
    + intros k. rewrite F3, F2, F1, app_length. simpl. rewrite in_app_iff.
      fold (gvals (gadd (m_group x) m (gmeta s))). rewrite gvals_gadd_In.
      intros [H|[H|H]]; [| |subst; fold m; lia].
      * assert (k < length (mtasks s)) by (apply (IM_lt _ M); apply in_or_app; auto). lia.
      * assert (k < length (mtasks s)) by (apply (IM_lt _ M); apply in_or_app; auto). lia.
    + rewrite F3, F2. apply NoDup_app_gadd; auto. apply (IM_nodup _ M).
    + rewrite F2. apply gadd_keys_NoDup. apply (IM_keys _ M).
    + intros _. exact XD.
    + intros k y. rewrite GM. destruct (Nat.ltb k m); [apply (IM_holds _ M)|].
      destruct (Nat.eqb k m); [|discriminate]. intros E; inversion E; subst y. congruence.
  - exact XD.
Qed.

Lemma check_start_None s nc : check_start s nc = None -> closed s = false /\ locked s = false.
Proof.
  unfold check_start. destruct nc; [discriminate|]. destruct (closed s); [discriminate|].
  destruct (locked s); [discriminate|]. auto.
Qed.

Lemma vD_trans s1 s2 s3 : vD s2 = vD s1 -> vD s3 = vD s2 -> vD s3 = vD s1.
Proof. congruence. Qed.

Lemma op_apply_INV s num bad nc w ecb ccb og :
  WF s -> Extra_G s -> INV (do_op s (OpApply num bad nc w ecb ccb og)).
Proof.
  intros W X. cbn [do_op].
  set (s1 := match og with Some g => know s g | None => s end).
  assert (V1 : vD s1 = vD s) by (subst s1; destruct og; [apply vD_know|reflexivity]).
  destruct (check_start s1 nc) eqn:CS.
  - apply (INV_vD s); auto.
  - apply check_start_None in CS. destruct CS as [C L].
    destruct (vD_inv _ _ V1) as [_ [_ [_ [_ [_ [_ [_ [E8 [E9 _]]]]]]]]].
    set (g := match og with Some g => g | None => gen_name s1 0 end).
    destruct (ghas g (groups s1)).
    + apply (INV_vD s); auto.
    + eapply new_meta_INV; eauto; try congruence.
      eapply vD_trans; [exact V1|]. eapply vD_trans; [apply vD_know|]. reflexivity.
Qed.

Lemma op_map_INV s stars els nc noncoro ecb ccb og :
  WF s -> Extra_G s -> INV (do_op s (OpMap stars els nc noncoro ecb ccb og)).
Proof.
  intros W X. cbn [do_op].
  set (s1 := match og with Some g => know s g | None => s end).
  assert (V1 : vD s1 = vD s) by (subst s1; destruct og; [apply vD_know|reflexivity]).
  destruct (check_start s1 noncoro) eqn:CS.
  - apply (INV_vD s); auto.
  - apply check_start_None in CS. destruct CS as [C L].
    destruct (vD_inv _ _ V1) as [_ [_ [_ [_ [_ [_ [_ [E8 [E9 _]]]]]]]]].
    set (g := match og with Some g => g | None => gen_name s1 (meth_of_stars stars) end).
    destruct (Nat.eqb nc 0); [apply (INV_vD s); auto|].
    destruct (ghas g (groups s1)).
    + apply (INV_vD s); auto.
    + eapply new_meta_INV; eauto; try congruence.
      eapply vD_trans; [exact V1|]. eapply vD_trans; [apply vD_know|]. reflexivity.
Qed.

Lemma op_start_INV s num : WF s -> Extra_G s -> INV (do_op s (OpStart num)).
Proof.
  intros W X. cbn [do_op].
  destruct (check_start s false) eqn:CS.
  - apply (INV_vD s); auto.
  - apply check_start_None in CS. destruct CS as [C L].
    eapply new_meta_INV; eauto.
    eapply vD_trans; [apply vD_know|]. reflexivity.
Qed.

(** *** simple operations *)
Lemma op_cancel_INV s ids : WF s -> Extra_G s -> INV (do_op s (OpCancel ids)).
Proof. intros W X. cbn [do_op]. eapply pres_relA; eauto. apply do_cancel_relA. Qed.

Lemma op_stop_INV s n : WF s -> Extra_G s -> INV (do_op s (OpStop n)).
Proof.
  intros W X. cbn [do_op]. eapply pres_relA; eauto.
  set (ids := match n with Some k => firstn_rev k (t_running s) | None => [] end).
  destruct (res (do_cancel s ids)); try apply do_cancel_relA;
    (eapply relA_trans; [apply do_cancel_relA|apply relA_vD; reflexivity]).
Qed.

Lemma op_stopall_INV s : WF s -> Extra_G s -> INV (do_op s OpStopAll).
Proof.
  intros W X. cbn [do_op]. eapply pres_relA; eauto.
  set (ids := firstn_rev (length (t_running s)) (t_running s)).
  destruct (res (do_cancel s ids)); try apply do_cancel_relA;
    (eapply relA_trans; [apply do_cancel_relA|apply relA_vD; reflexivity]).
Qed.

Lemma op_setsize_INV s v : WF s -> Extra_G s -> INV (do_op s (OpSetSize v)).
Proof. intros W X. cbn [do_op]. destruct v; apply (INV_vD s); auto. Qed.

Lemma vD_fold_know gs : forall s, vD (fold_left know gs s) = vD s.
Proof.
  induction gs as [|g t IH]; simpl; intros s; auto. rewrite IH. apply vD_know.
Qed.

Lemma op_getids_INV s gs : WF s -> Extra_G s -> INV (do_op s (OpGetGroupIds gs)).
Proof.
  intros W X. cbn [do_op]. apply (INV_vD s); auto.
  eapply vD_trans; [apply vD_fold_know|]. reflexivity.
Qed.

Lemma op_finish_INV s t h : WF s -> Extra_G s -> INV (do_op s (OpFinish t h)).
Proof.
  intros W X. cbn [do_op]. eapply pres_relA; eauto.
  destruct (get_p s t) as [x|] eqn:G; [|apply relA_refl].
  eapply relA_trans; [|apply sched_ht_relA]. eapply put_p_relA; [exact G|reflexivity].
Qed.

Lemma op_releasecb_INV s t : WF s -> Extra_G s -> INV (do_op s (OpReleaseCb t)).
Proof.
  intros W X. cbn [do_op]. eapply pres_relA; eauto.
  destruct (get_p s t) as [x|] eqn:G; [|apply relA_refl].
  eapply relA_trans; [|apply sched_ht_relA]. eapply put_p_relA; [exact G|reflexivity].
Qed.

(** lock / unlock *)
Lemma set_locked_INV s b :
  WF s -> Extra_G s -> (b = false -> n_gac s = 0) -> INV (set_locked s b).
Proof.
  intros W X Hb. pose proof (wfm _ W) as M. pose proof (wfg _ W) as G.
  assert (NG : b = false -> forall d x re, get_d s d = Some x -> d_kind x = DGatherClose re -> False).
  { intros E d x re H1 H2. pose proof (IG_ngac _ G d x re H1 H2). rewrite (Hb E) in H. lia. }
  split; [|split].
  - destruct M; constructor; assumption.
  - destruct G. constructor; try assumption.
    + intros d x re g H1 H2 H3 H4. destruct b.
      * split; [reflexivity|]. eapply IG_gac1; eauto.
      * exfalso. eapply NG; eauto.
    + intros d x re H1 H2 H3. destruct b.
      * split; [reflexivity|]. eapply IG_gac2; eauto.
      * exfalso. eapply NG; eauto.
  - destruct X; constructor; assumption.
Qed.

Lemma op_lock_INV s : WF s -> Extra_G s -> INV (do_op s OpLock).
Proof. intros W X. cbn [do_op]. apply set_locked_INV; auto. discriminate. Qed.

Lemma op_unlock_INV s : WF s -> Extra_G s -> clean (do_op s OpUnlock) -> INV (do_op s OpUnlock).
Proof.
  intros W X. cbn [do_op]. unfold clean. destruct (Nat.ltb_spec 0 (n_gac s)).
  - cbn. discriminate.
  - intros _. apply set_locked_INV; auto. intros _. lia.
Qed.

(** *** cancelling spawners *)
Definition cancelled (x : mtask) : Prop := m_mc x = true \/ fut_cancelled (m_fw x).

Definition mcn (x x' : mtask) : Prop :=
  m_group x' = m_group x /\ m_dead x' = m_dead x /\ m_final x' = m_final x /\
  m_pc x' = m_pc x /\ m_holds x' = m_holds x /\ (cancelled x -> cancelled x').

Lemma mcn_refl x : mcn x x.
Proof. unfold mcn. repeat split; auto. Qed.

Lemma mcn_trans x y z : mcn x y -> mcn y z -> mcn x z.
Proof.
  unfold mcn. intros [A1 [A2 [A3 [A4 [A5 A6]]]]] [B1 [B2 [B3 [B4 [B5 B6]]]]].
  repeat split; try congruence. auto.
Qed.

(** fields untouched by cancel_m *)
Definition vC (s : state) :=
  (gmeta s, meta_cancelled s, dtasks s, ptasks s, closed_waiters s,
   locked s, closed s, n_gac s, t_running s, t_cancelled s, t_ended s, ctl s).

Record relC (s s' : state) : Prop := {
  c_vs : vC s' = vC s;
  c_ti : taint_iter s = true -> taint_iter s' = true;
  c_len : length (mtasks s') = length (mtasks s);
  c_get : forall k x, get_m s k = Some x -> exists x', get_m s' k = Some x' /\ mcn x x';
  c_hg : forall d c, In (HG d c) (ready s') <-> In (HG d c) (ready s)
}.

Lemma relC_refl s : relC s s.
Proof.
  constructor; auto; [|tauto]. intros k x H. exists x. split; auto. apply mcn_refl.
Qed.

Lemma relC_trans s1 s2 s3 : relC s1 s2 -> relC s2 s3 -> relC s1 s3.
Proof.
  intros [A1 A2 A3 A4 A5] [B1 B2 B3 B4 B5]. constructor; try congruence; auto.
  - intros k x H. destruct (A4 k x H) as [y [Hy My]]. destruct (B4 k y Hy) as [z [Hz Mz]].
    exists z. split; auto. eapply mcn_trans; eauto.
  - intros d c. rewrite B5. apply A5.
Qed.

Lemma cancel_m_relC s m :
  relC s (cancel_m s m) /\
  (forall x, get_m s m = Some x -> m_final x = None ->
             exists x', get_m (cancel_m s m) m = Some x' /\ cancelled x').
Proof.
  unfold cancel_m. destruct (get_m s m) as [x|] eqn:G.
  2:{ split; [apply relC_refl|]. intros; discriminate. }
  destruct (m_final x) eqn:F.
  { split; [apply relC_refl|]. intros y E; inversion E; subst. congruence. }
  set (s1 := if is_current s (TM m) then set_taint_iter s true else s).
  assert (G1 : get_m s1 m = Some x) by (subst s1; destruct (is_current s (TM m)); exact G).
  assert (R1 : relC s s1).
  { subst s1. destruct (is_current s (TM m)); [|apply relC_refl].
    constructor; auto; [|tauto]. intros k y H. exists y. split; auto. apply mcn_refl. }
  assert (PUT : forall x', mcn x x' -> relC s1 (put_m s1 m x')).
  { intros x' Mx. constructor; try reflexivity; auto.
    - unfold put_m; cbn; apply upd_length.
    - intros k y Hk. rewrite get_m_put_m. destruct (Nat.eqb_spec m k) as [->|].
      + rewrite (get_m_lt _ _ _ G1). rewrite G1 in Hk. inversion Hk; subst y. eauto.
      + exists y. split; auto. apply mcn_refl. }
  destruct (fut_pending (m_fw x)) eqn:FP.
  - set (x' := set_m_fw x (Some FCancelled)).
    assert (Mx : mcn x x').
    { subst x'. unfold mcn, cancelled, fut_cancelled. cbn. repeat split; auto. }
    split.
    + eapply relC_trans; [exact R1|]. eapply relC_trans; [apply PUT; exact Mx|].
      destruct (sched_form (put_m s1 m x') (HT (TM m))) as [l EL].
      constructor; try (rewrite EL; reflexivity).
      * rewrite EL. auto.
      * intros k y H. exists y. rewrite get_m_sched. split; auto. apply mcn_refl.
      * intros d c. rewrite sched_ready_In. split; auto. intros [H|H]; auto. discriminate.
    + intros y E _. exists x'. rewrite get_m_sched, get_m_put_m, Nat.eqb_refl, (get_m_lt _ _ _ G1).
      split; auto. subst x'. right. reflexivity.
  - set (x' := set_m_mc x true).
    assert (Mx : mcn x x').
    { subst x'. unfold mcn, cancelled, fut_cancelled. cbn. repeat split; auto. }
    split.
    + eapply relC_trans; [exact R1|]. apply PUT; exact Mx.
    + intros y E _. exists x'. rewrite get_m_put_m, Nat.eqb_refl, (get_m_lt _ _ _ G1).
      split; auto. subst x'. left. reflexivity.
Qed.

Lemma fold_cancel_m_relC ms : forall s,
  relC s (fold_left cancel_m ms s) /\
  (forall k x, In k ms -> get_m s k = Some x -> m_final x = None ->
               exists x', get_m (fold_left cancel_m ms s) k = Some x' /\ cancelled x').
Proof.
  induction ms as [|m t IH]; simpl; intros s.
  - split; [apply relC_refl|]. intros k x [].
  - destruct (cancel_m_relC s m) as [R1 C1]. destruct (IH (cancel_m s m)) as [R2 C2].
    split; [eapply relC_trans; eauto|].
    intros k x [->|Hin] Hk F.
    + destruct (C1 x Hk F) as [x1 [H1 Cx1]].
      destruct (c_get _ _ R2 k x1 H1) as [x2 [H2 [_ [_ [_ [_ [_ M2]]]]]]].
      exists x2. split; auto.
    + destruct (c_get _ _ R1 k x Hk) as [x1 [H1 [_ [_ [F1 _]]]]].
      apply (C2 k x1 Hin H1). congruence.
Qed.

Lemma vC_inv s s' : vC s' = vC s ->
  gmeta s' = gmeta s /\ meta_cancelled s' = meta_cancelled s /\ dtasks s' = dtasks s /\
  ptasks s' = ptasks s /\ closed_waiters s' = closed_waiters s /\ locked s' = locked s /\
  closed s' = closed s /\ n_gac s' = n_gac s /\ t_running s' = t_running s /\
  t_cancelled s' = t_cancelled s /\ t_ended s' = t_ended s /\ ctl s' = ctl s.
Proof. unfold vC. intros H. inversion H. repeat split; auto. Qed.

(** the state after [_cancel_group_meta_tasks] and the ghost marking *)
Definition cgm_dead (s : state) (g : gname) : state := mark_dead (cancel_group_metas s g) g.

Definition dead_after (g : gname) (x : mtask) : mtask :=
  if gname_eqb g (m_group x) then set_m_dead x true else x.

Lemma get_m_mark_dead s g k :
  get_m (mark_dead s g) k = option_map (dead_after g) (get_m s k).
Proof.
  unfold get_m, mark_dead. cbn [mtasks set_mtasks].
  destruct (nth_error (mtasks s) k) eqn:E.
  - erewrite map_nth_error; eauto. reflexivity.
  - apply nth_error_None. rewrite map_length. apply nth_error_None; auto.
Qed.

Record cgm_spec (g : gname) (s s' : state) : Prop := {
  k_gmeta : gmeta s' = match glookup g (gmeta s) with Some _ => gremove g (gmeta s) | None => gmeta s end;
  k_mc : meta_cancelled s' = match glookup g (gmeta s) with
                             | Some ms => fold_left dict_add ms (meta_cancelled s)
                             | None => meta_cancelled s end;
  k_dt : dtasks s' = dtasks s;
  k_pt : ptasks s' = ptasks s;
  k_cw : closed_waiters s' = closed_waiters s;
  k_lk : locked s' = locked s;
  k_cl : closed s' = closed s;
  k_ng : n_gac s' = n_gac s;
  k_regs : regs s' = regs s;
  k_ctl : ctl s' = ctl s;
  k_len : length (mtasks s') = length (mtasks s);
  k_hg : forall d c, In (HG d c) (ready s') <-> In (HG d c) (ready s);
  k_get : forall k x, get_m s k = Some x ->
            exists x1, get_m s' k = Some (dead_after g x1) /\ mcn x x1 /\
              (forall ms, glookup g (gmeta s) = Some ms -> In k ms -> m_final x = None ->
                          cancelled x1)
}.

Lemma cgm_dead_spec s g : cgm_spec g s (cgm_dead s g).
Proof.
  unfold cgm_dead, cancel_group_metas. destruct (glookup g (gmeta s)) as [ms|] eqn:GL.
  - set (s0 := set_gmeta s (gremove g (gmeta s))).
    destruct (fold_cancel_m_relC ms s0) as [R C].
    set (s1 := fold_left cancel_m ms s0) in *. clearbody s1.
    destruct (vC_inv _ _ (c_vs _ _ R)) as [E1 [E2 [E3 [E4 [E5 [E6 [E7 [E8 [E9 [E10 [E11 E12]]]]]]]]]]].
    constructor; rewrite ?GL; try (cbn; assumption).
    + cbn. rewrite E2. reflexivity.
    + unfold regs. cbn. rewrite E9, E10, E11. reflexivity.
    + cbn. rewrite map_length. apply (c_len _ _ R).
    + intros d c. cbn. apply (c_hg _ _ R).
    + intros k x Hk. destruct (c_get _ _ R k x Hk) as [x1 [H1 M1]].
      exists x1. split; [|split; auto].
      * rewrite get_m_mark_dead.
        change (get_m (set_meta_cancelled s1 (fold_left dict_add ms (meta_cancelled s1))) k)
          with (get_m s1 k). rewrite H1. reflexivity.
      * intros ms' E Hin F. inversion E; subst ms'.
        destruct (C k x Hin Hk F) as [x1' [H1' Cx]]. congruence.
  - constructor; rewrite ?GL; try reflexivity.
    + cbn. apply map_length.
    + intros k x Hk. exists x. split; [|split].
      * rewrite get_m_mark_dead, Hk. reflexivity.
      * apply mcn_refl.
      * intros ms E. discriminate.
Qed.

Lemma dead_after_props g x :
  m_group (dead_after g x) = m_group x /\ m_final (dead_after g x) = m_final x /\
  m_pc (dead_after g x) = m_pc x /\ m_holds (dead_after g x) = m_holds x /\
  m_mc (dead_after g x) = m_mc x /\ m_fw (dead_after g x) = m_fw x /\
  (m_dead x = true -> m_dead (dead_after g x) = true) /\
  (m_dead (dead_after g x) = true -> m_dead x = true \/ m_group x = g) /\
  (m_group x = g -> m_dead (dead_after g x) = true).
Proof.
  unfold dead_after. destruct (gname_eqb_spec g (m_group x)); cbn; repeat split; auto; congruence.
Qed.

Lemma cgm_back g s s' k y :
  cgm_spec g s s' -> get_m s' k = Some y ->
  exists x x1, get_m s k = Some x /\ y = dead_after g x1 /\ mcn x x1 /\
    (forall ms, glookup g (gmeta s) = Some ms -> In k ms -> m_final x = None -> cancelled x1).
Proof.
  intros K H. destruct (get_m s k) as [x|] eqn:E.
  - destruct (k_get _ _ _ K k x E) as [x1 [H1 [M1 C1]]]. exists x, x1.
    split; [reflexivity|split; [congruence|split; [exact M1|exact C1]]].
  - unfold get_m in *. apply nth_error_None in E. apply nth_error_lt in H.
    rewrite (k_len _ _ _ K) in H. lia.
Qed.

Lemma cgm_relD g s s' : cgm_spec g s s' -> relD s s'.
Proof.
  intros K. constructor; try (destruct K; assumption).
  - apply gvF_neutral_done; [apply (k_dt _ _ _ K)| |apply (k_hg _ _ _ K)].
    intros c. destruct c as [u|u|u].
    + unfold tref_done, tref_final, get_p. rewrite (k_pt _ _ _ K). reflexivity.
    + unfold tref_done, tref_final. destruct (get_m s u) as [x|] eqn:E.
      * destruct (k_get _ _ _ K u x E) as [x1 [H1 [[_ [_ [F1 _]]] _]]]. rewrite H1.
        destruct (dead_after_props g x1) as [_ [F2 _]]. rewrite F2, F1. reflexivity.
      * destruct (get_m s' u) as [y|] eqn:E'; auto.
        destruct (cgm_back _ _ _ _ _ K E') as [x [_ [Hx _]]]. congruence.
    + unfold tref_done, tref_final, get_d. rewrite (k_dt _ _ _ K). reflexivity.
  - intros k y Hk Hf. destruct (cgm_back _ _ _ _ _ K Hk) as [x [x1 [Hx [-> [[_ [D1 [F1 _]]] _]]]]].
    destruct (dead_after_props g x1) as [_ [F2 [_ [_ [_ [_ [D2 _]]]]]]].
    exists x. split; auto. split; [congruence|]. intros D. apply D2. congruence.
  - intros t. rewrite (k_regs _ _ _ K). auto.
  - intros k. rewrite (k_ctl _ _ _ K). auto.
Qed.

Lemma cgm_IMX g s s' : cgm_spec g s s' -> IM s -> XDead s -> IM s' /\ XDead s'.
Proof.
  intros K M X.
  assert (XD : XDead s').
  { intros k y Hk Dy Fy.
    destruct (cgm_back _ _ _ _ _ K Hk) as [x [x1 [Hx [-> [[G1 [D1 [F1 [_ [_ C1]]]]] CC]]]]].
    destruct (dead_after_props g x1) as [_ [F2 [_ [_ [Mc [Fw [_ [D3 _]]]]]]]].
    assert (Fx : m_final x = None) by congruence.
    assert (CX : cancelled x1).
    { destruct (m_dead x) eqn:Dx.
      - apply C1. apply (X k x Hx Dx Fx).
      - destruct (D3 Dy) as [D|D]; [congruence|].
        destruct (IM_reg _ M k x Hx Fx Dx) as [ms [Hl Hin]].
        rewrite <- G1, D in Hl. eapply CC; eauto. }
    unfold cancelled in *. rewrite Mc, Fw. exact CX. }
  split; [|exact XD]. constructor.
  - intros k y Hk Fy Dy.
    destruct (cgm_back _ _ _ _ _ K Hk) as [x [x1 [Hx [-> [[G1 [D1 [F1 _]]] _]]]]].
    destruct (dead_after_props g x1) as [G2 [F2 [_ [_ [_ [_ [D2 [_ D4]]]]]]]].
    assert (Fx : m_final x = None) by congruence.
    assert (Dx : m_dead x = false).
    { destruct (m_dead x) eqn:E; auto. rewrite D2 in Dy; congruence. }
    assert (Hne : m_group x <> g).
    { intros E. rewrite D4 in Dy; congruence. }
    destruct (IM_reg _ M k x Hx Fx Dx) as [ms [Hl Hin]].
    unfold meta_in_group. rewrite G2, G1, (k_gmeta _ _ _ K).
    destruct (glookup g (gmeta s)); [|eauto].
    rewrite glookup_gremove_other; eauto.
  - intros k. rewrite (k_mc _ _ _ K), (k_gmeta _ _ _ K), (k_len _ _ _ K).
    destruct (glookup g (gmeta s)) as [ms|] eqn:GL; [|apply (IM_lt _ M)].
    intros H. apply (IM_lt _ M). rewrite in_app_iff in *. rewrite fold_dict_add_In in H.
    fold (gvals (gmeta s)). fold (gvals (gremove g (gmeta s))) in H.
    destruct H as [[H|H]|H]; auto.
    + right. eapply glookup_In_gvals; eauto.
    + right. eapply Permutation_in; [apply Permutation_sym, gvals_gremove_perm; eauto|].
      apply in_or_app; auto.
  - rewrite (k_mc _ _ _ K), (k_gmeta _ _ _ K).
    destruct (glookup g (gmeta s)) as [ms|] eqn:GL; [|apply (IM_nodup _ M)].
    pose proof (IM_nodup _ M) as N. fold (gvals (gmeta s)) in N.
    fold (gvals (gremove g (gmeta s))).
    assert (N2 : NoDup (meta_cancelled s ++ ms ++ gvals (gremove g (gmeta s)))).
    { eapply Permutation_NoDup; [|exact N]. apply Permutation_app_head.
      apply gvals_gremove_perm; auto. }
    apply NoDup_app_iff in N2. destruct N2 as [N3 [N4 N5]].
    apply NoDup_app_iff in N4. destruct N4 as [N6 [N7 N8]].
    apply NoDup_app_iff. repeat split; auto.
    + apply fold_dict_add_NoDup; auto.
    + intros y Hy Hy2. apply fold_dict_add_In in Hy. destruct Hy as [Hy|Hy].
      * apply (N5 y Hy). apply in_or_app; auto.
      * apply (N8 y Hy Hy2).
  - rewrite (k_gmeta _ _ _ K). destruct (glookup g (gmeta s)); [|apply (IM_keys _ M)].
    apply gremove_keys_NoDup. apply (IM_keys _ M).
  - intros _. exact XD.
  - intros k y Hk Hy.
    destruct (cgm_back _ _ _ _ _ K Hk) as [x [x1 [Hx [-> [[_ [_ [_ [P1 [H1 _]]]]] _]]]]].
    destruct (dead_after_props g x1) as [_ [_ [P2 [H2 _]]]].
    rewrite P2, P1. apply (IM_holds _ M k x Hx). congruence.
Qed.

Lemma cancel_if_running_relA s t :
  relA s (if mem t (t_running s) then cancel_p s t else s).
Proof. destruct (mem t (t_running s)); [apply cancel_p_relA|apply relA_refl]. Qed.

Lemma cancel_group_body_ok s g ids :
  IM s -> XDead s ->
  relD s (cancel_group_body s g ids) /\ IM (cancel_group_body s g ids) /\
  XDead (cancel_group_body s g ids).
Proof.
  intros M X. unfold cancel_group_body. fold (cgm_dead s g).
  pose proof (cgm_dead_spec s g) as K.
  destruct (cgm_IMX _ _ _ K M X) as [M1 X1].
  pose proof (cgm_relD _ _ _ K) as R1.
  set (f := fun (s : state) (t : nat) => if mem t (t_running s) then cancel_p s t else s).
  assert (R2 : relA (cgm_dead s g) (fold_left f ids (cgm_dead s g))).
  { apply fold_relA. intros s0 a. apply cancel_if_running_relA. }
  split; [|apply (IMX_rel None _ _ M1 X1 (a_rel _ _ R2)); intros k x' E; discriminate].
  eapply relD_trans; [exact R1|apply relA_relD; exact R2].
Qed.

Lemma cancel_all_groups_ok gs : forall s,
  IM s -> XDead s ->
  relD s (cancel_all_groups s gs) /\ IM (cancel_all_groups s gs) /\ XDead (cancel_all_groups s gs).
Proof.
  induction gs as [|[g ids] t IH]; simpl; intros s M X.
  - split; [apply relD_refl|auto].
  - destruct (cancel_group_body_ok s g ids M X) as [R1 [M1 X1]].
    destruct (IH _ M1 X1) as [R2 [M2 X2]].
    split; [eapply relD_trans; eauto|auto].
Qed.

Lemma IM_vD s s' : vD s' = vD s -> IM s -> XDead s -> IM s' /\ XDead s'.
Proof.
  intros H M X. apply (IMX_rel None s s' M X (a_rel _ _ (relA_vD _ _ H))).
  intros k x' E; discriminate.
Qed.

Lemma op_cancelgroup_INV s g : WF s -> Extra_G s -> INV (do_op s (OpCancelGroup g)).
Proof.
  intros W X. cbn [do_op].
  destruct (glookup g (groups (know s g))) as [ids|].
  - set (s1 := set_groups (know s g) (gremove g (groups (know s g)))).
    assert (V1 : vD s1 = vD s) by (eapply vD_trans; [apply vD_know|reflexivity]).
    destruct (IM_vD _ _ V1 (wfm _ W) (X_dead _ X)) as [M1 X1].
    destruct (cancel_group_body_ok s1 g ids M1 X1) as [R [M2 X2]].
    apply (pres_relD s _ W X); auto.
    eapply relD_trans; [apply relA_relD, relA_vD; exact V1|exact R].
  - apply (INV_vD s); auto. eapply vD_trans; [apply vD_know|reflexivity].
Qed.

Lemma op_cancelall_INV s : WF s -> Extra_G s -> INV (do_op s OpCancelAll).
Proof.
  intros W X. cbn [do_op].
  set (s1 := set_groups s []).
  assert (V1 : vD s1 = vD s) by reflexivity.
  destruct (IM_vD _ _ V1 (wfm _ W) (X_dead _ X)) as [M1 X1].
  destruct (cancel_all_groups_ok (rev (groups s)) s1 M1 X1) as [R [M2 X2]].
  apply (pres_relD s _ W X); auto.
  eapply relD_trans; [apply relA_relD, relA_vD; exact V1|exact R].
Qed.
