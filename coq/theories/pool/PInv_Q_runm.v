(** continue_m and run_m *)
From TP Require Export PInv_Q_spawn.
Set Implicit Arguments. Unset Strict Implicit.

Lemma put_m_get s m x x' : get_m s m = Some x -> get_m (put_m s m x') m = Some x'.
Proof. intros H. unfold get_m, put_m in *. cbn. eapply nth_error_upd_same; eauto. Qed.

Lemma put_m_same5 s m x : same5 s (put_m s m x).
Proof. unfold same5, put_m. cbn. auto. Qed.

Lemma continue_m_good s m x :
  SP s -> get_m s m = Some x -> m_pc x = MAtIter -> is_map x = true -> m_final x = None ->
  m_holds x = false -> mc_ok s x -> closed s = false -> SP (continue_m s m).
Proof.
  intros HSP Hx Hpc Hmap Hlive Hho Hmc Hcl. unfold continue_m. rewrite Hx, Hpc.
  pose proof (sp_ir HSP) as HIR.
  pose proof (IR_progress _ HIR _ _ Hx) as Hpr.
  assert (Hmt : mterm x = 0) by (apply mterm_pc; congruence).
  assert (Hk : exists st, m_kind x = MMap st)
    by (unfold is_map in Hmap; destruct (m_kind x); try discriminate; eauto).
  destruct Hk as [st Hk]. unfold req_progress in Hpr. rewrite Hk in Hpr. destruct Hpr as [P1 P2].
  destruct (nth_error (m_els x) (m_idx x)) as [e|] eqn:He.
  2:{ (* StopIteration *)
    eapply finish_good with (x0 := x); eauto using mimm_refl.
    - apply msum_mterm0; auto.
    - congruence.
    - unfold fin_ok, final_of, complete. destruct (m_mc x) eqn:Emc; [apply Hmc; auto|].
      right; right. rewrite Hk. apply nth_error_None in He. lia. }
  assert (Hlt : m_idx x < length (m_els x)) by (apply nth_error_Some; congruence).
  destruct (e_bad e) eqn:Hbad.
  { (* the element's call raises *)
    set (x' := set_m_idx x (S (m_idx x))).
    assert (SP (put_m s m x')) as HSP'.
    { eapply upd_good with (x := x) (x' := x');
        [exact HSP | exact Hx | unfold mimm; cbn; tauto | cbn; lia | reflexivity | reflexivity
        | cbn; auto | | | | apply put_m_same5 | reflexivity].
      - unfold req_progress, x'. cbn_m. rewrite Hk. split; [lia|].
        rewrite (firstn_S_nth He), count_app. simpl. rewrite Hbad. lia.
      - unfold req_final_ok. cbn. rewrite Hlive. auto.
      - eapply mapsem_msum with (x := x); [unfold mimm; cbn; tauto|reflexivity|congruence|].
        apply (IR_mapsem _ HIR _ _ Hx). }
    eapply to_iter_good; [exact HSP' | eapply put_m_get; eauto | exact Hmt]. }
  destruct (m_mapval x) as [|v] eqn:Hmv.
  { eapply suspend_good with (x0 := x); eauto using mimm_refl; try congruence.
    apply msum_mterm0; auto. }
  set (x' := set_m_holds (set_m_mapval x v) true).
  assert (SP (put_m s m x')) as HSP'.
  { eapply upd_quiet with (x := x) (x' := x');
      [exact HSP | exact Hx | unfold mimm; cbn; tauto | reflexivity | reflexivity | reflexivity
      | reflexivity | | congruence | apply put_m_same5 | reflexivity].
    unfold msum, mterm. cbn. rewrite Hmv, Hho. simpl. lia. }
  eapply start_then_next_good with (s0 := put_m s m x');
    [exact HSP' | eapply put_m_get; eauto | apply put_m_same5 | reflexivity | exact Hlive
    | exact Hmt | | | | exact Hcl].
  - unfold can_start. cbn. rewrite Hk. eauto.
  - cbn. auto.
  - unfold mc_ok in *. cbn. auto.
Qed.

Lemma wake_next_get_m s k : ~ In k (sem_waiters s) -> get_m (wake_next s) k = get_m s k.
Proof.
  intros Hn. unfold wake_next.
  destruct (first_pending s (sem_waiters s)) as [m|] eqn:Hf; auto.
  destruct (get_m s m) as [x|] eqn:Hx; auto.
  apply first_pending_In in Hf. destruct Hf as [Hi _].
  unfold get_m. rewrite sched_mtasks. unfold put_m. cbn.
  rewrite nth_error_upd_neq; auto. intros ->. auto.
Qed.

Lemma sem_release_get_m s k : ~ In k (sem_waiters s) -> get_m (sem_release s) k = get_m s k.
Proof. intros Hn. unfold sem_release. rewrite wake_next_get_m; auto. Qed.

Lemma wake_next_same5 s : same5 s (wake_next s).
Proof. unfold same5. autorewrite with fr. auto. Qed.
Lemma sem_release_same5 s : same5 s (sem_release s).
Proof. unfold same5. autorewrite with fr. auto. Qed.

Lemma SP_ssim s s' : SP s -> ssim s s' -> same5 s s' -> SP s'.
Proof.
  intros [HIR HG Hlen] Hs [E1 [E2 [E3 _]]]. constructor.
  - eapply ssim_IR; eauto.
  - eapply ssim_IGr; eauto.
  - congruence.
Qed.

(** What the run of spawner [m] may assume about the pre-state. *)
Record RunPre (s : state) (m : nat) (x0 : mtask) : Prop := {
  rp_ready : m_pc x0 = MNotStarted \/
             ((m_pc x0 = MWaitPool \/ m_pc x0 = MWaitMap) /\ m_fw x0 <> Some FPending);
  rp_mfw : (m_pc x0 = MWaitPool \/ m_pc x0 = MWaitMap) <-> m_fw x0 <> None;
  rp_fut : (m_pc x0 = MWaitPool \/ m_pc x0 = MWaitMap) -> waiting_fut (m_fw x0);
  rp_holds : m_holds x0 = true -> m_pc x0 = MWaitPool;
  rp_live : m_final x0 = None;
  rp_xpc_map : m_pc x0 = MWaitMap -> is_map x0 = true /\ can_start x0;
  rp_xpc_pool : m_pc x0 = MWaitPool -> can_start x0 /\ m_holds x0 = is_map x0;
  rp_canc : (m_mc x0 = true \/ m_fw x0 = Some FCancelled) ->
            m_dead x0 = true \/ taint_iter s = true;
  rp_closed : closed s = true -> m_mc x0 = true \/ m_fw x0 = Some FCancelled;
  rp_wnd : NoDup (sem_waiters s);
  rp_wp : waiters_pool s
}.

Definition clr (x0 : mtask) : mtask := set_m_mc (set_m_fw x0 None) false.

Lemma can_start_clr x0 : can_start (clr x0) <-> can_start x0.
Proof. reflexivity. Qed.

Lemma run_m_eq s m x0 :
  get_m s m = Some x0 ->
  run_m s m =
    let inp := task_input (m_mc x0) (m_fw x0) in
    let fut_cancelled := match m_fw x0 with Some FCancelled => true | _ => false end in
    let x := clr x0 in
    match m_pc x0 with
    | MNotStarted =>
        match inp with
        | InOk => spawn_next (put_m s m (set_m_pc x MLoopHead)) m
        | _ => finish_m s m x (Some ECancelled)
        end
    | MWaitPool =>
        let s := put_m (set_sem_waiters s (remove1 m (sem_waiters s))) m x in
        match inp with
        | InOk =>
            let s := if ninf_pos (sem_value s) then wake_next s else s in
            spawn_next (register s m x) m
        | _ =>
            let s := if fut_cancelled then s else sem_release s in
            let x := if m_holds x then set_m_holds (set_m_mapval x (S (m_mapval x))) false
                     else x in
            finish_m s m x None
        end
    | MWaitMap =>
        match inp with
        | InOk => start_then_next s m (set_m_holds x true)
        | _ =>
            let x := if fut_cancelled then x else set_m_mapval x (S (m_mapval x)) in
            finish_m s m x None
        end
    | _ => s
    end.
Proof. intros H. unfold run_m. rewrite H. reflexivity. Qed.

Lemma clr_quiet s m x0 x' s' :
  SP s -> get_m s m = Some x0 -> mterm x0 = 0 ->
  mimm x0 x' -> m_idx x' = m_idx x0 -> m_ncreated x' = m_ncreated x0 -> m_dead x' = m_dead x0 ->
  m_final x' = m_final x0 -> m_mapval x' = m_mapval x0 -> m_holds x' = m_holds x0 ->
  mterm x' = 0 -> same5 s s' -> mtasks s' = upd (mtasks s) m x' -> SP s'.
Proof.
  intros HSP Hx Hmt Hi Hidx Hn Hd Hf Hv Hh Hmt' Hsame Em.
  eapply upd_quiet with (x := x0) (x' := x'); eauto.
  - unfold msum. rewrite Hv, Hh, Hmt, Hmt'. auto.
  - intros Hm. rewrite Hv, Hh. eapply nonmap_sem; eauto. apply HSP.
Qed.

Lemma run_m_notstarted s m x0 :
  SP s -> get_m s m = Some x0 -> RunPre s m x0 -> m_pc x0 = MNotStarted -> SP (run_m s m).
Proof.
  intros HSP Hx HR Hpc. rewrite (run_m_eq Hx). cbv zeta. rewrite Hpc.
  assert (Hfw : m_fw x0 = None).
  { destruct (m_fw x0) eqn:E; auto. exfalso.
    assert (m_pc x0 = MWaitPool \/ m_pc x0 = MWaitMap) as [H|H]
      by (apply (rp_mfw HR); congruence); congruence. }
  assert (Hmt : mterm x0 = 0) by (apply mterm_pc; congruence).
  rewrite Hfw. unfold task_input. destruct (m_mc x0) eqn:Hmc.
  - (* cancelled before the first step *)
    eapply finish_good with (x0 := x0); eauto.
    + unfold mimm, clr; cbn; tauto.
    + cbn. apply msum_mterm0; auto.
    + intros Hm. cbn. eapply nonmap_sem; eauto. apply HSP.
    + unfold fin_ok, final_of. apply (rp_canc HR). auto.
  - assert (Hcl : closed s = false).
    { destruct (closed s) eqn:E; auto. destruct (rp_closed HR E); congruence. }
    set (x1 := set_m_pc (clr x0) MLoopHead).
    apply spawn_next_good.
    + eapply clr_quiet with (x0 := x0) (x' := x1);
        [exact HSP | exact Hx | exact Hmt | unfold mimm; cbn; tauto | reflexivity | reflexivity
        | reflexivity | reflexivity | reflexivity | reflexivity | reflexivity
        | apply put_m_same5 | reflexivity].
    + exact Hcl.
    + intros x' Hx'. rewrite (put_m_get x1 Hx) in Hx'. inversion Hx'; subst x'.
      repeat split.
      * exact (rp_live HR).
      * unfold mc_ok. cbn. discriminate.
Qed.

Lemma wait_fw s m x0 :
  RunPre s m x0 -> (m_pc x0 = MWaitPool \/ m_pc x0 = MWaitMap) ->
  m_fw x0 = Some FOk \/ m_fw x0 = Some FCancelled.
Proof.
  intros HR Hw. destruct (rp_ready HR) as [H|[_ H]]; [destruct Hw; congruence|].
  destruct (rp_fut HR Hw) as [F|[F|F]]; auto. congruence.
Qed.

Lemma run_m_waitmap s m x0 :
  SP s -> get_m s m = Some x0 -> RunPre s m x0 -> m_pc x0 = MWaitMap -> SP (run_m s m).
Proof.
  intros HSP Hx HR Hpc. rewrite (run_m_eq Hx). cbv zeta. rewrite Hpc.
  destruct (rp_xpc_map HR Hpc) as [Hmap Hcs].
  assert (Hho : m_holds x0 = false).
  { destruct (m_holds x0) eqn:E; auto. pose proof (rp_holds HR E). congruence. }
  destruct (wait_fw HR (or_intror Hpc)) as [Hfw|Hfw]; rewrite Hfw; unfold task_input;
    destruct (m_mc x0) eqn:Hmc.
  - (* woken, but a cancellation is pending: give the slot back *)
    eapply finish_good with (x0 := x0); eauto.
    + unfold mimm, clr; cbn; tauto.
    + unfold msum, mterm. cbn. rewrite Hpc, Hfw, Hho. simpl. lia.
    + congruence.
    + unfold fin_ok, final_of. cbn. pose proof (rp_canc HR (or_introl Hmc)). tauto.
  - (* woken normally *)
    assert (Hcl : closed s = false).
    { destruct (closed s) eqn:E; auto. destruct (rp_closed HR E); congruence. }
    set (x1 := set_m_holds (clr x0) true).
    eapply start_then_next_good with (s0 := put_m s m x1);
      [ | eapply put_m_get; eauto | apply put_m_same5 | reflexivity | exact (rp_live HR)
      | apply mterm_fw; cbn; discriminate | exact Hcs | unfold is_map in *; cbn; congruence
      | unfold mc_ok; cbn; discriminate | exact Hcl].
    eapply upd_quiet with (x := x0) (x' := x1);
      [exact HSP | exact Hx | unfold mimm; cbn; tauto | reflexivity | reflexivity | reflexivity
      | reflexivity | | congruence | apply put_m_same5 | reflexivity].
    unfold msum, mterm. cbn. rewrite Hpc, Hfw, Hho. simpl. lia.
  - eapply finish_good with (x0 := x0); eauto.
    + unfold mimm, clr; cbn; tauto.
    + unfold msum, mterm. cbn. rewrite Hpc, Hfw. lia.
    + congruence.
    + unfold fin_ok, final_of. cbn. pose proof (rp_canc HR (or_introl Hmc)). tauto.
  - eapply finish_good with (x0 := x0); eauto.
    + unfold mimm, clr; cbn; tauto.
    + unfold msum, mterm. cbn. rewrite Hpc, Hfw. lia.
    + congruence.
    + unfold fin_ok, final_of. cbn. pose proof (rp_canc HR (or_intror Hfw)). tauto.
Qed.

Lemma waitpool_s1 s m x0 :
  SP s -> get_m s m = Some x0 -> RunPre s m x0 -> m_pc x0 = MWaitPool ->
  let s1 := put_m (set_sem_waiters s (remove1 m (sem_waiters s))) m (clr x0) in
  SP s1 /\ get_m s1 m = Some (clr x0) /\ ~ In m (sem_waiters s1) /\ waiters_pool s1 /\
  same5 s s1.
Proof.
  intros HSP Hx HR Hpc s1.
  assert (Hmt : mterm x0 = 0) by (apply mterm_pc; congruence).
  assert (Hnin : ~ In m (sem_waiters s1)).
  { unfold s1, put_m. cbn. apply NoDup_remove1_notin. apply (rp_wnd HR). }
  split; [|split; [|split; [exact Hnin|split]]].
  - eapply clr_quiet with (s := s) (x0 := x0) (x' := clr x0);
      [exact HSP | exact Hx | exact Hmt | unfold mimm; cbn; tauto | reflexivity | reflexivity
      | reflexivity | reflexivity | reflexivity | reflexivity
      | apply mterm_fw; cbn; discriminate
      | unfold same5, s1, put_m; cbn; auto | reflexivity].
  - unfold s1, get_m, put_m in *. cbn. apply (nth_error_upd_same _ Hx).
  - intros k y Hk Hy. destruct (Nat.eq_dec k m) as [->|Ne]; [contradiction|].
    unfold s1, get_m, put_m in Hy, Hk. cbn in Hy, Hk.
    rewrite nth_error_upd_neq in Hy by auto.
    apply In_remove1 in Hk. eapply (rp_wp HR); eauto.
  - unfold same5, s1, put_m; cbn; auto.
Qed.

Lemma run_m_waitpool s m x0 :
  SP s -> get_m s m = Some x0 -> RunPre s m x0 -> m_pc x0 = MWaitPool -> SP (run_m s m).
Proof.
  intros HSP Hx HR Hpc. rewrite (run_m_eq Hx). cbv zeta. rewrite Hpc.
  destruct (waitpool_s1 HSP Hx HR Hpc) as [HSP1 [Hx1 [Hnin [Hwp Hs1]]]]. cbv zeta in *.
  set (s1 := put_m (set_sem_waiters s (remove1 m (sem_waiters s))) m (clr x0)) in *.
  destruct (rp_xpc_pool HR Hpc) as [Hcs Hh].
  assert (Hfin : (m_mc x0 = true \/ m_fw x0 = Some FCancelled) ->
    forall s2, SP s2 -> get_m s2 m = Some (clr x0) -> taint_iter s2 = taint_iter s ->
    SP (finish_m s2 m (if m_holds (clr x0)
                       then set_m_holds (set_m_mapval (clr x0) (S (m_mapval (clr x0)))) false
                       else clr x0) None)).
  { intros Hc s2 HSP2 Hx2 Ht. pose proof (rp_canc HR Hc) as Hd.
    assert (mterm (clr x0) = 0) as Hmt by (apply mterm_fw; cbn; discriminate).
    destruct (m_holds (clr x0)) eqn:Eh.
    - eapply finish_good with (x0 := clr x0); eauto.
      + unfold mimm; cbn; tauto.
      + unfold msum. rewrite Hmt, Eh. cbn. lia.
      + intros Hm. destruct (nonmap_sem (sp_ir HSP2) Hx2 Hm). congruence.
      + unfold fin_ok, final_of. cbn. rewrite Ht. tauto.
    - eapply finish_good with (x0 := clr x0); eauto using mimm_refl.
      + apply msum_mterm0; auto.
      + intros Hm. apply (nonmap_sem (sp_ir HSP2) Hx2 Hm).
      + unfold fin_ok, final_of. cbn. rewrite Ht. tauto. }
  assert (Hrel : SP (sem_release s1) /\ get_m (sem_release s1) m = Some (clr x0) /\
                 taint_iter (sem_release s1) = taint_iter s).
  { split; [|split].
    - eapply SP_ssim; [exact HSP1 | apply sem_release_ssim; auto | apply sem_release_same5].
    - rewrite sem_release_get_m; auto.
    - autorewrite with fr. apply Hs1. }
  destruct Hrel as [R1 [R2 R3]].
  assert (Ht1 : taint_iter s1 = taint_iter s) by apply Hs1.
  destruct (wait_fw HR (or_introl Hpc)) as [Hfw|Hfw]; rewrite Hfw; unfold task_input;
    destruct (m_mc x0) eqn:Hmc; auto.
  (* woken normally: take the slot *)
  assert (Hcl : closed s = false).
  { destruct (closed s) eqn:E; auto. destruct (rp_closed HR E); congruence. }
  set (x := clr x0) in *.
  assert (Hs2 : forall s2, s2 = (if ninf_pos (sem_value s1) then wake_next s1 else s1) ->
            SP s2 /\ get_m s2 m = Some x /\ closed s2 = false).
  { intros s2 ->. destruct (ninf_pos (sem_value s1)).
    - split; [|split].
      + eapply SP_ssim; [exact HSP1 | apply wake_next_ssim; auto | apply wake_next_same5].
      + rewrite wake_next_get_m; auto.
      + autorewrite with fr. destruct Hs1 as [_ [_ [_ [_ E]]]]. congruence.
    - split; [|split]; auto; destruct Hs1 as [_ [_ [_ [_ E]]]]; congruence. }
  set (s2 := if ninf_pos (sem_value s1) then wake_next s1 else s1) in *.
  destruct (Hs2 s2 eq_refl) as [HSP2 [Hx2 Hcl2]]. clearbody s2. clear Hs2.
  clear R1 R2 R3.
  destruct (register_fields s2 m x) as [R1 [R2 [R3 [R4 [R5 R6]]]]].
  assert (Hmtx : mterm x = 0) by (apply mterm_fw; cbn; discriminate).
  apply spawn_next_good.
  - destruct HSP2 as [HIR2 HG2 Hlen2]. constructor.
    + eapply IR_reg with (s := s2) (m := m) (x := x); eauto. exact (rp_live HR).
    + eapply IGr_reg with (s := s2) (m := m) (x := x); eauto.
    + rewrite R4, R1, app_length. simpl. lia.
  - congruence.
  - intros x' Hx'. unfold get_m in Hx', Hx2. rewrite R2, (nth_error_upd_same _ Hx2) in Hx'.
    inversion Hx'; subst x'. split; [exact (rp_live HR)|split].
    + apply mterm_pc. cbn. discriminate.
    + unfold mc_ok. cbn. discriminate.
Qed.

Lemma run_m_good s m :
  SP s ->
  (forall x0, get_m s m = Some x0 ->
     m_pc x0 = MNotStarted \/ m_pc x0 = MWaitPool \/ m_pc x0 = MWaitMap -> RunPre s m x0) ->
  SP (run_m s m).
Proof.
  intros HSP H. destruct (get_m s m) as [x0|] eqn:Hx.
  - destruct (m_pc x0) eqn:Hpc;
      try (rewrite (run_m_eq Hx); cbv zeta; rewrite Hpc; exact HSP).
    + apply run_m_notstarted with (x0 := x0); auto.
    + apply run_m_waitmap with (x0 := x0); auto.
    + apply run_m_waitpool with (x0 := x0); auto.
  - unfold run_m. rewrite Hx. exact HSP.
Qed.
