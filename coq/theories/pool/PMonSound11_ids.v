(** Monitor soundness for C11 — model side, part 2: every task id issued in a step is, after that
    step, a member of some group register (task ids are issued by [register] only, which files
    the new id under the group of the request; no step both issues an id and removes a group). *)
From TP Require Import PInv PInv_P_base PInv_G_GL PInv_Q_frame PInv_Q_wsim PInv_Q_drv.

Definition p2 (s : state) := (groups s, num_started s).

Definition GN (n0 : nat) (s : state) : Prop :=
  n0 <= num_started s /\
  forall t, n0 <= t -> t < num_started s ->
            exists g ids, glookup g (groups s) = Some ids /\ In t ids.

Lemma GN_self s : GN (num_started s) s.
Proof. split; [lia|]. intros t H1 H2. lia. Qed.

Lemma GN_p2 n0 s s' : p2 s' = p2 s -> GN n0 s -> GN n0 s'.
Proof. unfold p2, GN. intros E. injection E as -> ->. auto. Qed.

(** ** frame: functions that touch neither the groups nor the id counter *)
Lemma p2_sched s h : p2 (sched s h) = p2 s.
Proof. unfold sched. destruct (is_ready s h); reflexivity. Qed.

Lemma p2_fold {A} (f : state -> A -> state) :
  (forall s a, p2 (f s a) = p2 s) -> forall l s, p2 (fold_left f l s) = p2 s.
Proof. intros H l. induction l as [|a l IH]; simpl; intros s; auto. now rewrite IH, H. Qed.

Lemma p2_sched_cbs s r : p2 (sched_cbs s r) = p2 s.
Proof. unfold sched_cbs. apply p2_fold, p2_sched. Qed.

Lemma p2_wake_next s : p2 (wake_next s) = p2 s.
Proof.
  unfold wake_next. destruct (first_pending _ _) as [m|]; auto. destruct (get_m s m); auto.
  now rewrite p2_sched.
Qed.

Lemma p2_sem_release s : p2 (sem_release s) = p2 s.
Proof. unfold sem_release. now rewrite p2_wake_next. Qed.

Lemma p2_map_release s m : p2 (map_release s m) = p2 s.
Proof.
  unfold map_release. destruct (get_m s m) as [x|]; auto.
  destruct (m_pc x); auto; destruct (m_fw x) as [[]|]; auto; now rewrite p2_sched.
Qed.

Lemma p2_finish_p s t x : p2 (finish_p s t x) = p2 s.
Proof.
  unfold finish_p. transitivity (p2 (sched_cbs (put_p s t
    (set_p_final (set_p_pc (set_p_mc (set_p_fw x None) false) PDone)
                 (Some (final_of (p_exc x) (p_mc x))))) (TP t))); [reflexivity|].
  now rewrite p2_sched_cbs.
Qed.

Lemma p2_finish_m s m x e : p2 (finish_m s m x e) = p2 s.
Proof.
  unfold finish_m. transitivity (p2 (sched_cbs (put_m s m
    (set_m_final (set_m_pc (set_m_mc (set_m_fw x None) false) MDone)
                 (Some (final_of e (m_mc x))))) (TM m))); [reflexivity|].
  now rewrite p2_sched_cbs.
Qed.

Lemma p2_suspend_p s t x pc : p2 (suspend_p s t x pc) = p2 s.
Proof.
  unfold suspend_p. destruct (p_mc x); [|reflexivity].
  transitivity (p2 (sched (put_p s t (set_p_fw (set_p_mc (set_p_pc x pc) false) (Some FCancelled)))
                          (HT (TP t)))); [reflexivity|]. now rewrite p2_sched.
Qed.

Lemma p2_suspend_m s m x pc : p2 (suspend_m s m x pc) = p2 s.
Proof.
  unfold suspend_m. destruct (m_mc x); [|reflexivity].
  transitivity (p2 (sched (put_m s m (set_m_fw (set_m_mc (set_m_pc x pc) false) (Some FCancelled)))
                          (HT (TM m)))); [reflexivity|]. now rewrite p2_sched.
Qed.

Lemma p2_to_iter s m : p2 (to_iter s m) = p2 s.
Proof. unfold to_iter. destruct (get_m s m); reflexivity. Qed.

Lemma p2_enter_end s t x : p2 (enter_end s t x) = p2 s.
Proof.
  unfold enter_end.
  assert (Hm : forall s1, p2 s1 = p2 s ->
     p2 (let s2 := set_t_ended s1 (dict_add (t_ended s1) t) in
         let s3 := sem_release s2 in
         let x0 := set_p_nrel x (S (p_nrel x)) in
         let s4 := if p_ismap x0 then map_release s3 (p_req x0) else s3 in
         match p_ecb x0 with
         | CbNone => finish_p s4 t x0
         | _ => set_ctl (emit (put_p s4 t (set_p_pc (set_p_necb x0 (S (p_necb x0))) PUEndCb))
                              (EvCbBegin KEnd t (classify s4 t))) (CUser (TP t))
         end) = p2 s).
  { intros s1 E1. cbv zeta.
    set (s2 := set_t_ended s1 (dict_add (t_ended s1) t)).
    assert (E2 : p2 s2 = p2 s) by exact E1.
    set (x0 := set_p_nrel x (S (p_nrel x))).
    set (s4 := if p_ismap x0 then map_release (sem_release s2) (p_req x0) else sem_release s2).
    assert (E4 : p2 s4 = p2 s).
    { unfold s4. destruct (p_ismap x0); rewrite ?p2_map_release, p2_sem_release; exact E2. }
    clearbody s4.
    destruct (p_ecb x0); [rewrite p2_finish_p; exact E4|exact E4|exact E4]. }
  destruct (mem t (t_running s)); [|destruct (mem t (t_cancelled s))].
  - apply Hm. reflexivity.
  - apply Hm. reflexivity.
  - apply p2_finish_p.
Qed.

Lemma p2_enter_cancel s t x : p2 (enter_cancel s t x) = p2 s.
Proof.
  unfold enter_cancel. destruct (mem t (t_running s)).
  - cbv zeta. destruct (p_ccb x); [rewrite p2_enter_end|..]; reflexivity.
  - apply p2_enter_end.
Qed.

Ltac p2leaf :=
  rewrite ?p2_enter_end, ?p2_enter_cancel, ?p2_finish_p, ?p2_suspend_p; reflexivity.

Lemma p2_run_p s t : p2 (run_p s t) = p2 s.
Proof. unfold run_p. cbv zeta. repeat (first [reflexivity | dmatch]); p2leaf. Qed.

Lemma p2_continue_p s t : p2 (continue_p s t) = p2 s.
Proof. unfold continue_p. repeat (first [reflexivity | dmatch]); p2leaf. Qed.

Lemma p2_run_d s d : p2 (run_d s d) = p2 s.
Proof. unfold p2. now rewrite run_d_groups, run_d_num_started. Qed.

Lemma p2_run_g s d c : p2 (run_g s d c) = p2 s.
Proof. unfold p2. now rewrite run_g_groups, run_g_num_started. Qed.

(** ** spawners *)
Lemma p2_register s m x :
  groups (register s m x) = gadd (m_group x) (num_started s) (groups s) /\
  num_started (register s m x) = S (num_started s).
Proof.
  unfold register, put_m. cbv zeta. cbn [groups num_started set_mtasks].
  rewrite sched_groups, sched_num_started. cbn. auto.
Qed.

Lemma GN_register n0 s m x : GN n0 s -> GN n0 (register s m x).
Proof.
  intros [Hle H]. destruct (p2_register s m x) as [Eg En]. split; [lia|].
  intros t H1 H2. rewrite Eg, En in *.
  destruct (Nat.eq_dec t (num_started s)) as [->|Hne].
  - exists (m_group x). apply glookup_gadd_same.
  - destruct (H t H1 ltac:(lia)) as (g & ids & Hg & Hin). exists g.
    eapply glookup_gadd_mono; eauto.
Qed.

Lemma GN_try_start n0 s m x : GN n0 s -> GN n0 (fst (try_start s m x)).
Proof.
  intros H. unfold try_start. destruct (closed s); [|destruct (sem_locked s)]; cbn [fst].
  - eapply GN_p2; [apply p2_finish_m|exact H].
  - eapply GN_p2; [apply p2_suspend_m|exact H].
  - apply GN_register. exact H.
Qed.

Lemma GN_apply_loop n0 rem m : forall s, GN n0 s -> GN n0 (apply_loop rem s m).
Proof.
  induction rem as [|r IH]; intros s H; simpl.
  - destruct (get_m s m) as [x|]; auto. eapply GN_p2; [apply p2_finish_m|exact H].
  - destruct (get_m s m) as [x|]; auto. destruct (nth (m_idx x) (m_bad x) false).
    + apply IH. exact H.
    + pose proof (GN_try_start n0 s m x H) as H1.
      destruct (try_start s m x) as [s' cont]. cbn [fst] in H1. destruct cont; auto.
Qed.

Lemma GN_to_iter n0 s m : GN n0 s -> GN n0 (to_iter s m).
Proof. apply GN_p2, p2_to_iter. Qed.

Lemma GN_spawn_next n0 s m : GN n0 s -> GN n0 (spawn_next s m).
Proof.
  intros H. unfold spawn_next. destruct (get_m s m) as [x|]; auto.
  destruct (m_kind x); auto using GN_apply_loop, GN_to_iter.
Qed.

Lemma GN_start_then_next n0 s m x : GN n0 s -> GN n0 (start_then_next s m x).
Proof.
  intros H. unfold start_then_next. pose proof (GN_try_start n0 s m x H) as H1.
  destruct (try_start s m x) as [s' cont]. cbn [fst] in H1. destruct cont; auto.
  now apply GN_spawn_next.
Qed.

Lemma GN_continue_m n0 s m : GN n0 s -> GN n0 (continue_m s m).
Proof.
  intros H. unfold continue_m. destruct (get_m s m) as [x|]; auto.
  destruct (m_pc x); auto. destruct (nth_error _ _) as [e|].
  - destruct (e_bad e).
    + apply GN_to_iter. exact H.
    + destruct (m_mapval x).
      * eapply GN_p2; [apply p2_suspend_m|exact H].
      * now apply GN_start_then_next.
  - eapply GN_p2; [apply p2_finish_m|exact H].
Qed.

Lemma GN_run_m n0 s m : GN n0 s -> GN n0 (run_m s m).
Proof.
  intros H. unfold run_m. destruct (get_m s m) as [x0|]; auto.
  destruct (m_pc x0); auto.
  - destruct (task_input _ _).
    + apply GN_spawn_next. exact H.
    + eapply GN_p2; [apply p2_finish_m|exact H].
    + eapply GN_p2; [apply p2_finish_m|exact H].
  - destruct (task_input _ _).
    + now apply GN_start_then_next.
    + eapply GN_p2; [apply p2_finish_m|exact H].
    + eapply GN_p2; [apply p2_finish_m|exact H].
  - cbv zeta.
    set (s1 := put_m (set_sem_waiters s (remove1 m (sem_waiters s))) m
                     (set_m_mc (set_m_fw x0 None) false)).
    assert (H1 : GN n0 s1) by exact H. clearbody s1.
    destruct (task_input _ _).
    + apply GN_spawn_next, GN_register.
      destruct (ninf_pos _); [eapply GN_p2; [apply p2_wake_next|]|]; exact H1.
    + eapply GN_p2; [apply p2_finish_m|].
      destruct (match m_fw x0 with Some FCancelled => true | _ => false end); auto.
      eapply GN_p2; [apply p2_sem_release|exact H1].
    + eapply GN_p2; [apply p2_finish_m|].
      destruct (match m_fw x0 with Some FCancelled => true | _ => false end); auto.
      eapply GN_p2; [apply p2_sem_release|exact H1].
Qed.

(** ** operations: no id is issued *)
Definition ns (s : state) : nat := num_started s.

Lemma ns_sched s h : ns (sched s h) = ns s.
Proof. apply sched_num_started. Qed.

Lemma ns_fold {A} (f : state -> A -> state) :
  (forall s a, ns (f s a) = ns s) -> forall l s, ns (fold_left f l s) = ns s.
Proof. intros H l. induction l as [|a l IH]; simpl; intros s; auto. now rewrite IH, H. Qed.

Lemma ns_know s g : ns (know s g) = ns s.
Proof. apply know_num_started. Qed.

Lemma ns_cancel_m s m : ns (cancel_m s m) = ns s.
Proof. unfold cancel_m. repeat (first [reflexivity | rewrite ns_sched | dmatch]). Qed.

Lemma ns_cancel_p s t : ns (cancel_p s t) = ns s.
Proof. unfold cancel_p. repeat (first [reflexivity | rewrite ns_sched | dmatch]). Qed.

Lemma ns_cancel_group_metas s g : ns (cancel_group_metas s g) = ns s.
Proof.
  unfold cancel_group_metas. destruct (glookup _ _); auto.
  match goal with |- ns (set_meta_cancelled ?s' _) = _ => change (ns s' = ns s) end.
  rewrite (ns_fold _ ns_cancel_m). reflexivity.
Qed.

Lemma ns_cancel_group_body s g ids : ns (cancel_group_body s g ids) = ns s.
Proof.
  unfold cancel_group_body. rewrite ns_fold.
  - change (ns (cancel_group_metas s g) = ns s). apply ns_cancel_group_metas.
  - intros s0 t. destruct (mem t (t_running s0)); auto using ns_cancel_p.
Qed.

Lemma ns_cancel_all_groups gs : forall s, ns (cancel_all_groups s gs) = ns s.
Proof.
  induction gs as [|[g ids] r IH]; simpl; intros; auto. now rewrite IH, ns_cancel_group_body.
Qed.

Lemma ns_do_cancel s ids : ns (do_cancel s ids) = ns s.
Proof.
  unfold do_cancel. destruct (first_lookup_err s ids); [reflexivity|]. apply ns_fold, ns_cancel_p.
Qed.

Lemma ns_new_meta s x : ns (new_meta s x) = ns s.
Proof. unfold new_meta. now rewrite ns_sched. Qed.

Lemma ns_stop s ids :
  ns (match res (do_cancel s ids) with
      | RErr _ => do_cancel s ids | _ => set_res (do_cancel s ids) (RIds ids) end) = ns s.
Proof.
  transitivity (ns (do_cancel s ids)); [destruct (res _); reflexivity|apply ns_do_cancel].
Qed.

Lemma ns_set_res s r : ns (set_res s r) = ns s.
Proof. reflexivity. Qed.
Lemma ns_set_groups s r : ns (set_groups s r) = ns s.
Proof. reflexivity. Qed.
Lemma ns_set_start_calls s r : ns (set_start_calls s r) = ns s.
Proof. reflexivity. Qed.

Lemma ns_do_op s o : ns (do_op s o) = ns s.
Proof.
  destruct o; unfold do_op.
  - assert (H0 : ns (match g with Some g0 => know s g0 | None => s end) = ns s)
      by (destruct g; [apply ns_know|reflexivity]).
    destruct (check_start _ _); [now rewrite ns_set_res|].
    destruct (ghas _ _); [now rewrite ns_set_res|].
    now rewrite ns_set_res, ns_new_meta, ns_set_groups, ns_know.
  - assert (H0 : ns (match g with Some g0 => know s g0 | None => s end) = ns s)
      by (destruct g; [apply ns_know|reflexivity]).
    destruct (check_start _ _); [now rewrite ns_set_res|].
    destruct (Nat.eqb nc 0); [now rewrite ns_set_res|].
    destruct (ghas _ _); [now rewrite ns_set_res|].
    now rewrite ns_set_res, ns_new_meta, ns_set_groups, ns_know.
  - destruct (check_start s false); [reflexivity|].
    now rewrite ns_set_res, ns_new_meta, ns_set_groups, ns_set_start_calls, ns_know.
  - apply ns_do_cancel.
  - destruct (glookup _ _).
    + now rewrite ns_cancel_group_body, ns_set_groups, ns_know.
    + now rewrite ns_set_res, ns_know.
  - now rewrite ns_cancel_all_groups.
  - apply ns_stop.
  - apply ns_stop.
  - reflexivity.
  - destruct (Nat.ltb _ _); reflexivity.
  - destruct v; reflexivity.
  - rewrite ns_set_res. apply ns_fold, ns_know.
  - rewrite ns_sched. destruct k; reflexivity.
  - destruct (get_p s tid); auto. now rewrite ns_sched.
  - destruct (get_p s tid); auto. now rewrite ns_sched.
Qed.

(** ** one step *)
Theorem new_ids_step s l : GN (num_started s) (step s l).
Proof.
  unfold step. set (s1 := set_res (set_evs s []) RNone).
  assert (H1 : GN (num_started s) s1) by (apply (GN_self s)).
  destruct (negb (enabled s1 l)); [exact H1|].
  destruct l as [h| |o].
  - assert (H2 : GN (num_started s) (unsched s1 h)) by exact H1.
    destruct h as [[t|m|d]|d c]; cbn [run_handle].
    + eapply GN_p2; [apply p2_run_p|exact H2].
    + apply GN_run_m. exact H2.
    + eapply GN_p2; [apply p2_run_d|exact H2].
    + eapply GN_p2; [apply p2_run_g|exact H2].
  - destruct (ctl s1) as [|[t|m|d]]; auto.
    + eapply GN_p2; [apply p2_continue_p|exact H1].
    + apply GN_continue_m. exact H1.
  - pose proof (ns_do_op s1 o) as E. unfold ns in E. change (num_started s1) with (num_started s) in E.
    split; [lia|]. intros t A B. lia.
Qed.
