(** C06 — cancel(ids) is exact and all-or-nothing.  Property theorems only. *)
From TP Require Import PSpecStep PRun PWF PInv_P PStep_A PStep_A_inv PStep_C06 PStep_B_mr PExamples.

(** The operation, for every state in which it can be issued (the step function resets the result
    register before every operation): all-or-nothing, the error of the first offending id, exactly
    the named task records get a request. *)
Theorem C06 : forall s ids, C06_op (reset s) ids.
Proof. intros s ids. apply C06_op_holds. reflexivity. Qed.

Theorem C06_is_step : forall s ids, step s (LOp (OpCancel ids)) = do_op (reset s) (OpCancel ids).
Proof. reflexivity. Qed.

(** Each named task that has started observes exactly one CancelledError at its next step. *)
Theorem C06_delivered : forall c tr t x, clean (run c tr) ->
  get_p (run c tr) t = Some x -> cancel_pending x ->
  In (HT (TP t)) (ready (run c tr)) /\
  (ctl (run c tr) = CIdle ->
   let s' := step (run c tr) (LRun (HT (TP t))) in
   In (EvCancelled t) (evs s') /\ count_ev_cancelled t (evs s') = 1 /\
   exists x', get_p s' t = Some x' /\ p_pc x' = PUCancelled /\ p_mc x' = false /\ p_fw x' = None).
Proof.
  intros c tr t x Hc. destruct (WFx_run c tr Hc). apply PStep_A.C06_delivered; assumption.
Qed.

(** ... and no other task: a worker logs CancelledError in a step only if a request was
    outstanding on it; a request becomes outstanding only through a cancellation operation that
    names the task; it is consumed when delivered. *)
Theorem C06_no_spurious : forall c tr l t, clean (run c (tr ++ [l])) ->
  In (EvCancelled t) (evs (run c (tr ++ [l]))) ->
  exists x, get_p (run c tr) t = Some x /\ p_pc x = PWaitGate /\
            (p_fw x = Some FCancelled \/ p_mc x = true).
Proof.
  intros c tr l t H. destruct (WFx_before_step c tr l H) as [X Hc]. rewrite run_snoc.
  apply PStep_C06.C06_no_spurious; [exact (x_wf _ X)|exact (x_p _ X)|exact Hc].
Qed.

Theorem C06_only_by_cancel : forall c tr l t x x', clean (run c (tr ++ [l])) ->
  get_p (run c tr) t = Some x -> get_p (run c (tr ++ [l])) t = Some x' ->
  ~ cancel_marked x -> cancel_marked x' -> targets (run c tr) l t.
Proof.
  intros c tr l t x x' H. destruct (WFx_before_step c tr l H) as [X Hc]. rewrite run_snoc.
  apply PStep_C06.C06_marked_only_by_cancel; [exact (x_wf _ X)|exact (x_p _ X)|exact Hc].
Qed.

Theorem C06_mark_consumed : forall c tr l t x', clean (run c (tr ++ [l])) ->
  In (EvCancelled t) (evs (run c (tr ++ [l]))) -> get_p (run c (tr ++ [l])) t = Some x' ->
  ~ cancel_marked x'.
Proof.
  intros c tr l t x' H. destruct (WFx_before_step c tr l H) as [X Hc]. rewrite run_snoc.
  apply PStep_C06.C06_mark_consumed; [exact (x_wf _ X)|exact (x_p _ X)|exact Hc].
Qed.

Example C06_example :
  let s := run cfg2 tr_full in
  res (step s (LOp (OpCancel [1; 7]))) = RErr ErrTaskNotFound /\
  res (step s (LOp (OpCancel [1; 0]))) = RNone /\
  map p_fw (ptasks (step s (LOp (OpCancel [1])))) = [Some FPending; Some FCancelled].
Proof. vm_compute. repeat split; reflexivity. Qed.

(** Monitor soundness: the extracted monitor for C06 (all four clauses) never rejects a stream of the model; the P-self hypothesis is necessary (PMonSound_C06.mon_C06_needs_P_self: the D11 run is rejected by clause C06_delivered). *)
From TP Require PMonSound_C06 PObs PMon.
Theorem mon_sound : forall c tr, clean (run c tr) -> taint_self (run c tr) = false -> PMon.ok_C06 c (PObs.observe c tr) = true.
Proof. exact PMonSound_C06.mon_C06_sound. Qed.

Print Assumptions C06.
Print Assumptions C06_delivered.
Print Assumptions C06_no_spurious.
Print Assumptions C06_only_by_cancel.
Print Assumptions C06_mark_consumed.
Print Assumptions mon_sound.
