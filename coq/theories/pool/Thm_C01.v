(** C01 — Pool size is never exceeded.  Property theorem only (proof: PWF.v + PProps_A.v). *)
From TP Require Import PSpec PRun PWF PProps_A PExamples.

(** For every configuration (every pool size incl. 0 and unbounded) and every label sequence —
    every schedule, every placement of every operation — as long as pool_size is not reassigned
    and the pool is not unlocked behind a gather_and_close(): [C01_spec] holds at that instant. *)
Theorem C01 : forall c tr,
  clean (run c tr) -> taint_size (run c tr) = false -> C01_spec (run c tr).
Proof. intros c tr Hc Hs. apply C01_of_WF; [apply WF_run; exact Hc|exact Hs]. Qed.

(** the size in the specification is the one the pool was given *)
Theorem C01_cfg : forall c tr, cfg (run c tr) = c.
Proof. exact cfg_run. Qed.

(** Non-vacuity: a reachable full pool (PExamples.tr_full_state): premises hold, two tasks run on
    a pool of two, is_full is true. *)
Example C01_example :
  let s := run cfg2 tr_full in
  clean s /\ taint_size s = false /\ length (t_running s) = 2 /\ live_workers s = 2 /\
  sem_locked s = true.
Proof. vm_compute. repeat split; reflexivity. Qed.

(** Monitor soundness: the extracted monitor that judges the implementation's observation stream for C01 never rejects a stream of the model (no P-size hypothesis: the monitor switches its C01 clauses off once it has seen an accepted pool_size assignment). *)
From TP Require PMonSound_C01 PObs PMon.
Theorem mon_sound : forall c tr, clean (run c tr) -> PMon.ok_C01 c (PObs.observe c tr) = true.
Proof. exact PMonSound_C01.mon_C01_sound. Qed.

Print Assumptions C01.
Print Assumptions C01_cfg.
Print Assumptions mon_sound.
