(** C03 — Task lifecycle and callbacks are exact and ordered.  Property theorems only. *)
From TP Require Import PSpecStep PRun PWF PProps_A PInv_P PStep_C PExamples.

Theorem C03 : forall c tr, clean (run c tr) -> C03_spec (run c tr).
Proof. intros c tr Hc. apply C03_of_WF. apply WF_run. exact Hc. Qed.

(** every step of every clean run moves a task's classification only along
    running -> cancelled -> ended (-> forgotten), or running -> ended *)
Theorem C03_transitions : forall c tr l t, clean (run c (tr ++ [l])) ->
  class_succ (run c tr) t (classify (run c tr) t) (classify (run c (tr ++ [l])) t).
Proof.
  intros c tr l t H. destruct (WFx_before_step c tr l H) as [X Hc]. rewrite run_snoc.
  apply PStep_C.C03_transitions; [exact (x_wf _ X)|exact (x_p _ X)|exact Hc].
Qed.

(** the cancel callback begins — with the task counted as cancelled — exactly when the worker
    ended by a CancelledError it propagated, or the task was cancelled before it started *)
Theorem C03_cancel_cb_iff : forall c tr l t cl, clean (run c (tr ++ [l])) ->
  In (EvCbBegin KCancel t cl) (evs (run c (tr ++ [l]))) ->
  cl = ClCancelled /\
  exists x, get_p (run c tr) t = Some x /\
    ((p_pc x = PUCancelled /\ w_cancel (p_w x) = WPropagate) \/
     (p_pc x = PCreated /\ p_unst x = UDeferred)).
Proof.
  intros c tr l t cl H. destruct (WFx_before_step c tr l H) as [X Hc]. rewrite run_snoc.
  apply PStep_C.C03_cancel_cb_iff; [exact (x_wf _ X)|exact (x_p _ X)|exact Hc].
Qed.

(** the end callback begins with the task counted as ended *)
Theorem C03_end_cb_class : forall c tr l t cl, clean (run c (tr ++ [l])) ->
  In (EvCbBegin KEnd t cl) (evs (run c (tr ++ [l]))) -> cl = ClEnded.
Proof.
  intros c tr l t cl H. destruct (WFx_before_step c tr l H) as [X Hc]. rewrite run_snoc.
  apply PStep_C.C03_end_cb_class; [exact (x_wf _ X)|exact (x_p _ X)|exact Hc].
Qed.

Example C03_example :
  let s := run cfg2 tr_cancel in
  clean s /\ taint_self s = false /\
  length (t_running s) + length (t_cancelled s) + length (t_ended s) + n_forgotten s = 3.
Proof. vm_compute. repeat split; reflexivity. Qed.

(** Monitor soundness: the extracted monitor for C03 (all nine clauses) never rejects a stream of the model (P-self: open finding D11). *)
From TP Require PMonSound_C03 PObs PMon.
Theorem mon_sound : forall c tr, clean (run c tr) -> taint_self (run c tr) = false -> PMon.ok_C03 c (PObs.observe c tr) = true.
Proof. exact PMonSound_C03.mon_C03_sound. Qed.

Print Assumptions C03.
Print Assumptions C03_transitions.
Print Assumptions C03_cancel_cb_iff.
Print Assumptions C03_end_cb_class.
Print Assumptions mon_sound.
