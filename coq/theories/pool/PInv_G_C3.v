(** Drivers: building blocks for run_d. *)
From Coq Require Import Permutation.
From TP Require Export PInv_G_C2.

Definition vP (s : state) :=
  (mtasks s, ptasks s, gmeta s, meta_cancelled s, locked s, closed s, n_gac s,
   t_running s, t_cancelled s, t_ended s, closed_waiters s).

Lemma vP_inv s s' : vP s' = vP s ->
  mtasks s' = mtasks s /\ ptasks s' = ptasks s /\ gmeta s' = gmeta s /\
  meta_cancelled s' = meta_cancelled s /\ locked s' = locked s /\ closed s' = closed s /\
  n_gac s' = n_gac s /\ regs s' = regs s /\ closed_waiters s' = closed_waiters s.
Proof. unfold vP, regs. intros H. inversion H. repeat split; auto; congruence. Qed.

(** replacing the record of driver [d] *)
Lemma put_d_frame s0 d x0 X s' :
  INV s0 -> get_d s0 d = Some x0 -> Dcl s0 d X ->
  (In d (closed_waiters s0) -> d_pc X = DWaitClosed) ->
  vP s' = vP s0 -> dtasks s' = upd (dtasks s0) d X ->
  (forall d' c', In (HG d' c') (ready s') <-> In (HG d' c') (ready s0)) ->
  ctl_ok s0 s' ->
  INV s'.
Proof.
  intros I Hx D Hcw HV Hd Hr Hc.
  destruct (vP_inv _ _ HV) as [E1 [E2 [E3 [E4 [E5 [E6 [E7 [E8 E9]]]]]]]].
  destruct I as [M [G X']].
  assert (LT : Nat.ltb d (length (dtasks s0)) = true).
  { apply Nat.ltb_lt. unfold get_d in Hx. eapply nth_error_lt; eauto. }
  assert (GD : forall d', get_d s' d' = if Nat.eqb d d' then Some X else get_d s0 d').
  { intros d'. unfold get_d. rewrite Hd, nth_error_upd, LT. reflexivity. }
  apply (driver_frame s0 s' d (conj M (conj G X'))); auto.
  - intros d' Hne. rewrite GD. destruct (Nat.eqb_spec d d'); congruence.
  - lia.
  - intros c'. apply Hr.
  - rewrite E9. apply (X_cwnd _ X').
  - intros d'. rewrite E9. intros H. destruct (X_cw _ X' d' H) as [y [Hy Hp]]. rewrite GD.
    destruct (Nat.eqb_spec d d') as [->|]; [|eauto]. exists X. split; auto.
  - intros y. rewrite GD, Nat.eqb_refl. intros E; inversion E; subst y.
    apply (Dcl_transfer s0 s' d X D); auto; try lia.
    intros t. rewrite E8. auto.
  - intros c' _. rewrite GD, Nat.eqb_refl. eauto.
Qed.

Lemma put_d_INV s0 d x0 X :
  INV s0 -> get_d s0 d = Some x0 -> Dcl s0 d X ->
  (In d (closed_waiters s0) -> d_pc X = DWaitClosed) ->
  INV (set_ctl (put_d s0 d X) CIdle).
Proof.
  intros I Hx D Hcw. eapply put_d_frame; eauto; try reflexivity.
  intros k H. discriminate H.
Qed.

Lemma put_d_emit_INV s0 d x0 X e :
  INV s0 -> get_d s0 d = Some x0 -> Dcl s0 d X ->
  (In d (closed_waiters s0) -> d_pc X = DWaitClosed) ->
  INV (set_ctl (emit (put_d s0 d X) e) CIdle).
Proof.
  intros I Hx D Hcw. eapply put_d_frame; eauto; try reflexivity.
  intros k H. discriminate H.
Qed.

Lemma put_d_sched_INV s0 d x0 X :
  INV s0 -> get_d s0 d = Some x0 -> Dcl s0 d X ->
  (In d (closed_waiters s0) -> d_pc X = DWaitClosed) ->
  INV (sched (put_d s0 d X) (HT (TD d))).
Proof.
  intros I Hx D Hcw. destruct (sched_form (put_d s0 d X) (HT (TD d))) as [l EL].
  pose proof (sched_ready_In (put_d s0 d X) (HT (TD d))) as HS.
  rewrite EL in *. eapply put_d_frame; eauto; try reflexivity.
  - intros d' c'. cbn [ready set_ready] in HS. rewrite HS.
    split; auto. intros [H|H]; auto. discriminate.
  - intros k H. exact H.
Qed.

(** steps that only touch gmeta / meta_cancelled / the registries *)
Lemma pres_small s0 s' :
  INV s0 -> mtasks s' = mtasks s0 -> ptasks s' = ptasks s0 -> dtasks s' = dtasks s0 ->
  closed_waiters s' = closed_waiters s0 -> locked s' = locked s0 -> closed s' = closed s0 ->
  n_gac s' = n_gac s0 -> ctl s' = ctl s0 -> ready s' = ready s0 -> regs_sub s0 s' ->
  IM s' -> INV s'.
Proof.
  intros [M [G X]] Hm Hp Hd Hcw Hl Hcl Hn Hctl Hr Hrg M'.
  assert (GM : forall k, get_m s' k = get_m s0 k) by (intros; unfold get_m; rewrite Hm; auto).
  apply (pres_core s0 s' G X); auto.
  - apply gvF_neutral; auto. intros d c. rewrite Hr. tauto.
  - intros _ k y. rewrite GM. intros Hk Hf. exists y. auto.
  - intros Hs. split; auto. rewrite Hctl. apply (X_nouser _ X Hs).
  - intros k x. rewrite GM. apply (X_dead _ X).
Qed.

Lemma INV_set_locked s0 : INV s0 -> INV (set_locked s0 true).
Proof.
  intros [M [G X]]. split; [|split].
  - destruct M; constructor; assumption.
  - destruct G. constructor; try assumption.
    + intros d x re g H1 H2 H3 H4. split; [reflexivity|]. eapply IG_gac1; eauto.
    + intros d x re H1 H2 H3. split; [reflexivity|]. eapply IG_gac2; eauto.
  - destruct X; constructor; assumption.
Qed.

Lemma INV_clear_mc s0 : INV s0 -> INV (set_meta_cancelled s0 []).
Proof.
  intros I. apply (pres_small s0); auto; try reflexivity.
  - intros t H; exact H.
  - destruct I as [M _]. constructor.
    + apply (IM_reg _ M).
    + intros k H. apply (IM_lt _ M). apply in_or_app. right. exact H.
    + pose proof (IM_nodup _ M) as N. apply NoDup_app_iff in N. tauto.
    + apply (IM_keys _ M).
    + apply (IM_dead _ M).
    + apply (IM_holds _ M).
Qed.

Lemma INV_clear_gmeta s0 :
  INV s0 -> (forall m y, get_m s0 m = Some y -> m_final y = None -> m_dead y = true) ->
  INV (set_gmeta (set_meta_cancelled s0 []) []).
Proof.
  intros I HD. apply (pres_small s0); auto; try reflexivity.
  - intros t H; exact H.
  - destruct I as [M _]. constructor.
    + intros k y Hk Hf Hd. change (get_m s0 k = Some y) in Hk.
      rewrite (HD k y Hk Hf) in Hd. discriminate.
    + intros k [].
    + constructor.
    + constructor.
    + apply (IM_dead _ M).
    + apply (IM_holds _ M).
Qed.

(** *** [_pop_ended_meta_tasks] *)
Lemma pop_ended_snd s l : snd (pop_ended s l) = filter (is_done_m s) (gvals l).
Proof.
  unfold gvals. induction l as [|[g ms] t IH]; simpl; auto.
  destruct (pop_ended s t) as [l' e']. simpl in *. rewrite filter_app, IH. reflexivity.
Qed.

Lemma pop_ended_gvals s l :
  gvals (fst (pop_ended s l)) = filter (fun m => negb (is_done_m s m)) (gvals l).
Proof.
  unfold gvals. induction l as [|[g ms] t IH]; simpl; auto.
  destruct (pop_ended s t) as [l' e']. simpl in *. rewrite filter_app, <- IH.
  destruct (filter (fun m => negb (is_done_m s m)) ms); reflexivity.
Qed.

Lemma pop_ended_keys_In s l k : In k (map fst (fst (pop_ended s l))) -> In k (map fst l).
Proof.
  induction l as [|[g ms] t IH]; simpl; auto.
  destruct (pop_ended s t) as [l' e']. simpl in *.
  destruct (filter (fun m => negb (is_done_m s m)) ms); simpl; intuition.
Qed.

Lemma pop_ended_keys_NoDup s l : NoDup (map fst l) -> NoDup (map fst (fst (pop_ended s l))).
Proof.
  induction l as [|[g ms] t IH]; simpl; intros H; [constructor|].
  inversion H as [|? ? Hnin Hnd]; subst. specialize (IH Hnd).
  pose proof (pop_ended_keys_In s t g) as HK.
  destruct (pop_ended s t) as [l' e']. simpl in *.
  destruct (filter (fun m => negb (is_done_m s m)) ms); simpl; auto.
  constructor; auto.
Qed.

Lemma pop_ended_lookup s l g ms m :
  glookup g l = Some ms -> In m ms -> is_done_m s m = false ->
  exists ms', glookup g (fst (pop_ended s l)) = Some ms' /\ In m ms'.
Proof.
  induction l as [|[h v] t IH]; simpl; [discriminate|].
  destruct (pop_ended s t) as [l' e'] eqn:EP. simpl in *.
  destruct (gname_eqb g h) eqn:E.
  - intros HH Hin Hd. inversion HH; subst v.
    assert (HI : In m (filter (fun m => negb (is_done_m s m)) ms)).
    { apply filter_In. split; auto. rewrite Hd. reflexivity. }
    destruct (filter (fun m => negb (is_done_m s m)) ms) as [|a r] eqn:EF; [destruct HI|].
    simpl. rewrite E. eauto.
  - intros HH Hin Hd. destruct (IH HH Hin Hd) as [ms' [A B]].
    destruct (filter (fun m => negb (is_done_m s m)) v); simpl; [eauto|]. rewrite E. eauto.
Qed.

Lemma NoDup_app_filter {A} (f : A -> bool) a b : NoDup (a ++ b) -> NoDup (a ++ filter f b).
Proof.
  intros H. apply NoDup_app_iff in H. destruct H as [A1 [A2 A3]]. apply NoDup_app_iff.
  repeat split; auto using NoDup_filter. intros x Hx Hf. apply filter_In in Hf. eapply A3; eauto. tauto.
Qed.

Lemma INV_pop_ended s0 : INV s0 -> INV (set_gmeta s0 (fst (pop_ended s0 (gmeta s0)))).
Proof.
  intros I. apply (pres_small s0); auto; try reflexivity.
  - intros t H; exact H.
  - destruct I as [M _]. constructor.
    + intros k y Hk Hf Hd. change (get_m s0 k = Some y) in Hk.
      destruct (IM_reg _ M k y Hk Hf Hd) as [ms [A B]].
      unfold meta_in_group. cbn [gmeta set_gmeta]. eapply pop_ended_lookup; eauto.
      unfold is_done_m, tref_final. rewrite Hk, Hf. reflexivity.
    + intros k. cbn [gmeta set_gmeta meta_cancelled mtasks]. intros H. apply (IM_lt _ M).
      apply in_app_or in H. apply in_or_app. destruct H as [H|H]; auto. right.
      fold (gvals (fst (pop_ended s0 (gmeta s0)))) in H. rewrite pop_ended_gvals in H.
      apply filter_In in H. tauto.
    + cbn [gmeta set_gmeta meta_cancelled]. fold (gvals (fst (pop_ended s0 (gmeta s0)))).
      rewrite pop_ended_gvals. apply NoDup_app_filter. apply (IM_nodup _ M).
    + cbn [gmeta set_gmeta]. apply pop_ended_keys_NoDup. apply (IM_keys _ M).
    + apply (IM_dead _ M).
    + apply (IM_holds _ M).
Qed.

(** *** gather creation *)
Lemma gather_cb_fst re n o nfin outer : fst (gather_cb re n o nfin outer) = S nfin.
Proof.
  unfold gather_cb. destruct outer; try reflexivity.
  destruct (if re then None else match o with OCancelled => Some ECancelled | OExc e => Some e | OResult => None end);
    reflexivity.
Qed.

Lemma gather_cb_ok re n o nfin outer :
  (outer = FOk -> nfin = n) -> snd (gather_cb re n o nfin outer) = FOk -> S nfin = n \/ nfin = n.
Proof.
  unfold gather_cb. intros H. destruct outer; cbn [snd]; try (intros Hs; discriminate Hs); auto.
  destruct (if re then None else match o with OCancelled => Some ECancelled | OExc e => Some e | OResult => None end);
    cbn [snd]; [intros Hs; discriminate Hs|].
  destruct (Nat.eqb_spec (S nfin) n); [auto|intros Hs; discriminate Hs].
Qed.

Lemma gather_cb_re n o nfin outer :
  (outer = FPending \/ outer = FOk) ->
  snd (gather_cb true n o nfin outer) = FPending \/ snd (gather_cb true n o nfin outer) = FOk.
Proof.
  unfold gather_cb. intros [-> | ->]; cbn [snd]; auto. destruct (Nat.eqb (S nfin) n); auto.
Qed.

Lemma gather_eager_spec s re n : forall cs nfin outer cbs nfin' outer' cbs',
  gather_eager s cs re n nfin outer cbs = (nfin', outer', cbs') ->
  nfin' = nfin + count (tref_done s) cs /\
  (forall c, In c cbs' <-> In c cbs \/ (In c cs /\ tref_done s c = false)) /\
  (re = true -> (outer = FPending \/ outer = FOk) -> (outer' = FPending \/ outer' = FOk)).
Proof.
  induction cs as [|c t IH]; simpl; intros nfin outer cbs nfin' outer' cbs' H.
  - inversion H; subst. split; [lia|split; [intros c; simpl; tauto|auto]].
  - unfold tref_done at 1. destruct (tref_final s c) as [o|] eqn:E.
    + destruct (gather_cb re n o nfin outer) as [nf ou] eqn:EG.
      pose proof (gather_cb_fst re n o nfin outer) as F1. rewrite EG in F1. simpl in F1. subst nf.
      destruct (IH _ _ _ _ _ _ H) as [A [B C]]. split; [lia|split].
      * intros c0. rewrite B. split; [tauto|]. intros [K|[[->|K1] K2]]; auto.
        unfold tref_done in K2. rewrite E in K2. discriminate.
      * intros Hre Ho. apply C; auto. subst re.
        pose proof (gather_cb_re n o nfin outer Ho) as K. rewrite EG in K. exact K.
    + destruct (IH _ _ _ _ _ _ H) as [A [B C]]. split; [lia|split].
      * assert (Dc : tref_done s c = false) by (unfold tref_done; rewrite E; reflexivity).
        intros c0. rewrite B, in_app_iff. simpl. split.
        -- intros [[K|[K|[]]]|[K1 K2]]; auto. subst c0. auto.
        -- intros [K|[[->|K1] K2]]; auto.
      * exact C.
Qed.

(** the outer future is Ok only once every child was counted *)
Lemma gather_eager_ok s re n : forall cs nfin outer cbs nfin' outer' cbs',
  gather_eager s cs re n nfin outer cbs = (nfin', outer', cbs') ->
  nfin + length cs <= n -> (outer = FOk -> nfin = n) ->
  outer' = FOk -> nfin' = n.
Proof.
  induction cs as [|c t IH]; simpl; intros nfin outer cbs nfin' outer' cbs' H Hle Hok Ho.
  - inversion H; subst. auto.
  - destruct (tref_final s c) as [o|] eqn:E.
    + destruct (gather_cb re n o nfin outer) as [nf ou] eqn:EG.
      pose proof (gather_cb_fst re n o nfin outer) as F1. rewrite EG in F1. simpl in F1. subst nf.
      eapply IH; eauto; try lia.
      intros Hou. pose proof (gather_cb_ok re n o nfin outer Hok) as K. rewrite EG in K.
      simpl in K. destruct (K Hou); lia.
    + (* a pending child: the outer future cannot be Ok at the end *)
      destruct (gather_eager_spec s re n _ _ _ _ _ _ _ H) as [A _].
      assert (nfin' <= nfin + length t) by (pose proof (count_le_length (tref_done s) t); lia).
      eapply IH in H; eauto; try lia.
Qed.

Lemma make_gather_spec s cs re g outer :
  make_gather s cs re = (g, outer) ->
  g_children g = cs /\ g_re g = re /\
  (forall c, In c (g_cb g) <-> In c cs /\ tref_done s c = false) /\
  g_nfin g = count (tref_done s) cs /\
  (outer = FOk -> forall c, In c cs -> tref_done s c = true) /\
  (re = true -> outer = FPending \/ outer = FOk).
Proof.
  unfold make_gather. destruct cs as [|c0 t].
  - intros H; inversion H; subst. cbn. repeat split; auto; try tauto; try (intros ? []).
  - set (cs := c0 :: t).
    destruct (gather_eager s cs re (length cs) 0 FPending []) as [[nfin ou] cbs] eqn:E.
    clearbody cs.
    intros H; inversion H; subst g outer. cbn.
    destruct (gather_eager_spec _ _ _ _ _ _ _ _ _ _ E) as [A [B C]].
    split; auto. split; auto. split; [|split; [|split]].
    + intros c. rewrite B. simpl. tauto.
    + lia.
    + intros Ho. assert (K : nfin = length cs).
      { eapply gather_eager_ok; eauto; try discriminate; simpl; lia. }
      apply count_full. lia.
    + intros Hre. apply C; auto.
Qed.

Lemma gather_ok_new s d g cs re outer :
  make_gather s cs re = (g, outer) -> NoDup cs ->
  (forall c, In c cs -> ~ In (HG d c) (ready s)) ->
  gather_ok s d g.
Proof.
  intros H N Hr. destruct (make_gather_spec _ _ _ _ _ H) as [A [B [C [D _]]]].
  unfold gather_ok. rewrite A. repeat split; auto.
  - intros c Hc. apply C in Hc. tauto.
  - intros c Hc Hd. apply C. auto.
  - rewrite D. apply count_ext_in. intros c Hc. unfold cb_ran.
    assert (E : existsb (hid_eqb (HG d c)) (ready s) = false) by (apply existsb_hid_false; auto).
    rewrite E. simpl. rewrite andb_true_r. reflexivity.
Qed.
