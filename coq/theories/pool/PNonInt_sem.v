(** Erasure commutes with the semaphores, with finishing and suspending. *)
From TP Require Export PNonInt_base.

Local Notation E := erase_state.

Lemma existsb_ext' {A} (f g : A -> bool) l : (forall a, f a = g a) -> existsb f l = existsb g l.
Proof. intros H. induction l; simpl; auto. rewrite H, IHl. reflexivity. Qed.

Lemma E_m_fw_of s m : m_fw_of (E s) m = m_fw_of s m.
Proof. unfold m_fw_of. rewrite E_get_m. destruct (get_m s m); reflexivity. Qed.

Lemma E_sem_locked s : sem_locked (E s) = sem_locked s.
Proof.
  unfold sem_locked. rewrite Ep_sem_value, Ep_sem_waiters. f_equal.
  apply existsb_ext'. intros m. rewrite E_m_fw_of. reflexivity.
Qed.

Lemma E_first_pending s l : first_pending (E s) l = first_pending s l.
Proof. induction l; simpl; auto. rewrite E_m_fw_of, IHl. reflexivity. Qed.

#[export] Hint Rewrite E_m_fw_of E_sem_locked E_first_pending : er.

Lemma E_wake_next s : E (wake_next s) = wake_next (E s).
Proof.
  unfold wake_next. autorewrite with er.
  destruct (first_pending s (sem_waiters s)) as [m|]; auto.
  autorewrite with er. destruct (get_m s m) as [x|]; simpl; auto.
  autorewrite with er. reflexivity.
Qed.

Lemma E_sem_release s : E (sem_release s) = sem_release (E s).
Proof. unfold sem_release. rewrite E_wake_next. autorewrite with er. reflexivity. Qed.

Lemma E_map_release s m : E (map_release s m) = map_release (E s) m.
Proof.
  unfold map_release. autorewrite with er. destruct (get_m s m) as [x|]; simpl; auto.
  autorewrite with er.
  destruct (m_pc x); autorewrite with er; auto.
  destruct (m_fw x) as [[]|]; autorewrite with er; auto.
Qed.

Lemma E_sched_cbs s r : E (sched_cbs s r) = sched_cbs (E s) r.
Proof. unfold sched_cbs. rewrite (E_fold sched E_sched). reflexivity. Qed.

#[export] Hint Rewrite E_wake_next E_sem_release E_map_release E_sched_cbs : er.

(** ** Outcomes *)
Definition fin_ok (e : option exn) (mc : bool) : Prop := mc = false \/ erase_exc e = e.

Lemma erase_final_of e mc :
  fin_ok e mc -> erase_outcome (final_of e mc) = final_of (erase_exc e) mc.
Proof.
  intros [->|H].
  - destruct e as [[]|]; reflexivity.
  - rewrite H. destruct e as [[]|]; try reflexivity; try discriminate H.
    destruct mc; reflexivity.
Qed.

Lemma E_finish_p s t x :
  fin_ok (p_exc x) (p_mc x) -> E (finish_p s t x) = finish_p (E s) t (erase_ptask x).
Proof.
  intros H. unfold finish_p. autorewrite with er. simpl option_map.
  rewrite erase_final_of by auto. reflexivity.
Qed.

Lemma E_finish_m s m x e : E (finish_m s m x e) = finish_m (E s) m (erase_mtask x) e.
Proof. unfold finish_m. autorewrite with er. reflexivity. Qed.

Lemma E_finish_d s d x e : E (finish_d s d x e) = finish_d (E s) d x e.
Proof. unfold finish_d. autorewrite with er. reflexivity. Qed.

Lemma E_suspend_p s t x pc : E (suspend_p s t x pc) = suspend_p (E s) t (erase_ptask x) pc.
Proof. unfold suspend_p. autorewrite with er. destruct (p_mc x); autorewrite with er; reflexivity. Qed.

Lemma E_suspend_m s m x pc : E (suspend_m s m x pc) = suspend_m (E s) m (erase_mtask x) pc.
Proof. unfold suspend_m. autorewrite with er. destruct (m_mc x); autorewrite with er; reflexivity. Qed.

#[export] Hint Rewrite E_finish_m E_finish_d E_suspend_p E_suspend_m : er.
