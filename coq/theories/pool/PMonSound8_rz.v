(** Monitor soundness, C08 — tracker side, user exceptions: when [k_raised] becomes non-empty
    (pure facts about PMon.v). *)
From TP Require Import PMon PMonSound_trk PMonSound_gen PMonSound_C45_trk PMonSound_C45_trk2
  PMonSound_C13_kd PMonSound8_trk.

Definition NE (k : trk) : Prop := k_raised k <> [].

(** [k'] has noted at least the user exceptions of [k] *)
Definition ext (k k' : trk) : Prop := exists pre, k_raised k' = pre ++ k_raised k.

Lemma ext_same k k' : k_raised k' = k_raised k -> ext k k'.
Proof. intros E. exists []. exact E. Qed.

Lemma ext_refl k : ext k k.
Proof. apply ext_same. reflexivity. Qed.

Lemma ext_trans a b c : ext a b -> ext b c -> ext a c.
Proof. intros [p1 E1] [p2 E2]. exists (p2 ++ p1). rewrite E2, E1, app_assoc. reflexivity. Qed.

Lemma ext_NE k k' : ext k k' -> NE k -> NE k'.
Proof.
  intros [p E] H. unfold NE in *. rewrite E. intros H0. apply app_eq_nil in H0. tauto.
Qed.

Lemma ext_cons k k' a : k_raised k' = a :: k_raised k -> ext k k' /\ NE k'.
Proof. intros E. split; [exists [a]; exact E|]. unfold NE. rewrite E. discriminate. Qed.

(** the worker behaviour the tracker derives for element / invocation [el] of request [x] *)
Definition wof (x : req) (el : nat) : wspec :=
  match r_kind x with
  | MMap _ => match nth_error (r_els x) el with Some e => e_w e | None => r_w x end
  | _ => r_w x
  end.

Definition is_rcb8 (e : event) : bool := match e with EvCbEnd _ _ true => true | _ => false end.

(** ** labels *)
Lemma on_spawn_raised k o first noncoro nc_bad g meth mk :
  (forall n, k_raised (mk n) = k_raised k) ->
  k_raised (fst (on_spawn k o first noncoro nc_bad g meth mk)) = k_raised k.
Proof. intros Hmk. unfold on_spawn. destruct (o_res o); cbn [fst]; auto. Qed.

Lemma on_label_raised c k o :
  ext k (fst (on_label c k o)) /\
  (o_enabled o = true -> forall t, o_label o = LOp (OpFinish t FinRaise) -> NE (fst (on_label c k o))).
Proof.
  unfold on_label. destruct (o_enabled o) eqn:En; cbn [negb].
  2:{ split; [apply ext_refl|discriminate]. }
  destruct (o_label o) as [h| |op]; try (split; [apply ext_refl|intros _ t; discriminate]).
  destruct op; try (split; [apply ext_same|intros _ t0; discriminate]);
    try (apply on_spawn_raised; intros; reflexivity);
    try (destruct (o_res o); reflexivity); try reflexivity.
  - match goal with |- context [on_spawn ?a ?b ?c ?d ?e ?f ?g ?h] =>
      pose proof (on_spawn_raised a b c d e f g h) as Hs;
      destruct (on_spawn a b c d e f g h) as [k1 cs] end.
    simpl in Hs. rewrite <- Hs by (intros; reflexivity). destruct (o_res o); reflexivity.
  - destruct v; reflexivity.
  - destruct k0; reflexivity.
  - destruct h; cbn [fst].
    + split; [apply ext_refl|intros _ t; discriminate].
    + destruct (ext_cons k (set_k_raised k ((tid, SWorker) :: k_raised k)) (tid, SWorker) eq_refl)
        as [A B].
      split; [exact A|intros _ t _; exact B].
Qed.

(** ** events *)
Lemma on_event_raised k o e :
  ext k (fst (on_event k o e)) /\ (is_rcb8 e = true -> NE (fst (on_event k o e))).
Proof.
  destruct e as [t r el|t|t|kd t cl|kd t raised|kd t|r n|d oc]; unfold on_event;
    try (split; [apply ext_same|discriminate]).
  - destruct (nth_error (k_reqs k) r) as [x|]; reflexivity.
  - reflexivity.
  - reflexivity.
  - destruct kd; reflexivity.
  - cbn [fst]. destruct raised; cbn [is_rcb8].
    + destruct (ext_cons k (k_with k (k_reqs k) (k_task k) (k_live k) (k_exited k) (k_cancelled k)
                 (del_cb (k_cbs k) t kd) (k_ccb k)
                 (match kd with KCancel => t :: k_ccd k | KEnd => k_ccd k end) (k_ecb k)
                 (k_target k) (k_expect k) ((t, site_of kd) :: k_raised k) (k_nids k) (k_drvs k))
                 (t, site_of kd) eq_refl) as [A B].
      split; [exact A|intros _; exact B].
    + split; [apply ext_same; reflexivity|discriminate].
  - reflexivity.
  - destruct (nth_error (k_reqs k) r) as [x|]; reflexivity.
  - destruct (on_event_done_same k o d oc) as (_ & _ & E). exact E.
Qed.

Lemma on_events_raised es : forall k o,
  ext k (fst (on_events k o es)) /\ (existsb is_rcb8 es = true -> NE (fst (on_events k o es))).
Proof.
  induction es as [|e es IH]; intros k o; simpl; [split; [apply ext_refl|discriminate]|].
  destruct (on_event_raised k o e) as [A1 A2]. destruct (on_event k o e) as [k1 c1]. simpl in *.
  destruct (IH k1 o) as [B1 B2]. destruct (on_events k1 o es) as [k2 c2]. simpl in *.
  split; [eapply ext_trans; eauto|]. intros H. apply orb_true_iff in H.
  destruct H as [H|H]; [eapply ext_NE; eauto|auto].
Qed.

(** ** workers that raise at once *)
Lemma req_of_raised k v t : req_of (set_k_raised k v) t = req_of k t.
Proof. reflexivity. Qed.

Definition nrs1 (k : trk) (e : event) : trk :=
  match e with
  | EvStart t _ _ =>
      match req_of k t with
      | Some (_, el, x) =>
          match w_first (wof x el) with
          | WRaise => set_k_raised k ((t, SWorker) :: k_raised k)
          | _ => k
          end
      | None => k
      end
  | _ => k
  end.

Lemma note_raising_fold k es : note_raising_starts k es = fold_left nrs1 es k.
Proof. reflexivity. Qed.

Lemma nrs1_spec k e :
  k_task (nrs1 k e) = k_task k /\ k_reqs (nrs1 k e) = k_reqs k /\ ext k (nrs1 k e) /\
  (forall t, req_of (nrs1 k e) t = req_of k t) /\
  (forall t r el r' el' x, e = EvStart t r el -> req_of k t = Some (r', el', x) ->
                           w_first (wof x el') = WRaise -> NE (nrs1 k e)).
Proof.
  destruct e as [t r el|t|t|kd t cl|kd t raised|kd t|r n|d oc];
    try (repeat split; auto using ext_refl; intros; discriminate).
  unfold nrs1. destruct (req_of k t) as [[[r0 el0] x0]|] eqn:Er.
  2:{ repeat split; auto using ext_refl. intros t0 r1 el1 r' el' x E. injection E as <- _ _.
      rewrite Er. discriminate. }
  destruct (w_first (wof x0 el0)) eqn:Ew.
  - repeat split; auto using ext_refl. intros t0 r1 el1 r' el' x E Hr. injection E as <- _ _.
    rewrite Er in Hr. injection Hr as _ <- <-. congruence.
  - repeat split; auto using ext_refl. intros t0 r1 el1 r' el' x E Hr. injection E as <- _ _.
    rewrite Er in Hr. injection Hr as _ <- <-. congruence.
  - destruct (ext_cons k (set_k_raised k ((t, SWorker) :: k_raised k)) (t, SWorker) eq_refl) as [A B].
    repeat split; auto.
Qed.

Lemma nrs_spec es : forall k,
  k_task (fold_left nrs1 es k) = k_task k /\ k_reqs (fold_left nrs1 es k) = k_reqs k /\
  ext k (fold_left nrs1 es k) /\
  (forall t r el r' el' x, In (EvStart t r el) es -> req_of k t = Some (r', el', x) ->
                           w_first (wof x el') = WRaise -> NE (fold_left nrs1 es k)).
Proof.
  induction es as [|e es IH]; intros k; simpl.
  - repeat split; auto using ext_refl. intros t r el r' el' x [].
  - destruct (nrs1_spec k e) as (A1 & A2 & A3 & A4 & A5).
    destruct (IH (nrs1 k e)) as (B1 & B2 & B3 & B4).
    split; [congruence|]. split; [congruence|]. split; [eapply ext_trans; eauto|].
    intros t r el r' el' x [->|Hin] Hr Hw.
    + eapply ext_NE; [exact B3|]. eapply A5; eauto.
    + eapply B4; eauto. rewrite A4. exact Hr.
Qed.

(** ** one monitor step *)
Lemma mon_step_raised c k o :
  let k' := fst (mon_step c k o) in
  ext k k' /\
  (o_enabled o = true -> forall t, o_label o = LOp (OpFinish t FinRaise) -> NE k') /\
  (existsb is_rcb8 (o_events o) = true -> NE k') /\
  (forall t r el r' el' x, In (EvStart t r el) (o_events o) ->
     assoc t (k_task k') = Some (r', el') -> nth_error (k_reqs k') r' = Some x ->
     w_first (wof x el') = WRaise -> NE k').
Proof.
  cbv zeta. unfold mon_step.
  pose proof (on_label_raised c k o) as (L1 & L2).
  destruct (on_label c k o) as [k1 c1]. simpl fst in *.
  pose proof (on_events_raised (o_events o) k1 o) as (E1 & E2).
  destruct (on_events k1 o (o_events o)) as [k2 c2]. simpl fst in *.
  rewrite note_raising_fold.
  destruct (nrs_spec (o_events o) k2) as (N1 & N2 & N3 & N4).
  set (k3 := fold_left nrs1 (o_events o) k2) in *.
  cbn [fst].
  assert (X13 : ext k1 k3) by (eapply ext_trans; eauto).
  change (k_raised (set_k_prev (set_k_nids k3 _) o)) with (k_raised k3).
  assert (HNE : NE k3 -> NE (set_k_prev (set_k_nids k3
                    (k_nids k3 + length (nodup Nat.eq_dec (sorted_new_ids k3 o)))) o)) by (intros H; exact H).
  split; [|split; [|split]].
  - destruct (ext_trans _ _ _ L1 X13) as [p Ep]. exists p. exact Ep.
  - intros En t Hl. apply HNE. eapply ext_NE; [exact X13|]. eapply L2; eauto.
  - intros Hr. apply HNE. eapply ext_NE; [exact N3|]. auto.
  - intros t r el r' el' x Hin Ha Hx Hw. apply HNE.
    change (assoc t (k_task k3) = Some (r', el')) in Ha. change (nth_error (k_reqs k3) r' = Some x) in Hx.
    rewrite N1 in Ha. rewrite N2 in Hx.
    eapply N4; eauto. unfold req_of. rewrite Ha, Hx. reflexivity.
Qed.
