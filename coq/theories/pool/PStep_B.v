(** C07 (group cancellation), C09 (rejected requests, lock / unlock) and C15 (pool_size) — the
    parts about one operation / one step.

    Statement changes w.r.t. the task description:
    - [C07_op_holds] has two more hypotheses: [res s = RNone] (the clause [res s' = RNone] of
      [C07_op] is false otherwise: the operation does not touch the result register; [step]
      resets it before every operation, see [C07_op_step]) and the extra invariant [Extra_C]
      (PStep_B_inv.v; needed for "spawners of other groups are untouched");
    - [C07_no_late_holds] has the extra invariant [Extra_D] (PStep_B_inv.v) as a hypothesis.
    Both extra invariants are proved inductive in PStep_B_inv.v. *)
From TP Require Import PSpecStep PInv_R_base PStep_B_mr PStep_B_inv.
From TP Require Export PStep_B_c09 PStep_B_c07.

Lemma act_Some l s m :
  act l s = Some m -> l = LRun (HT (TM m)) \/ (l = LGo /\ ctl s = CUser (TM m)).
Proof.
  unfold act. destruct l as [[[t|k|d]|d c]| |o]; try discriminate.
  - intros [= ->]. auto.
  - destruct (ctl s) as [|[t|k|d]]; try discriminate. intros [= ->]. auto.
Qed.

Theorem C07_no_late_holds :
  forall s l, WF s -> Extra_D s -> clean (step s l) -> C07_no_late s (step s l).
Proof.
  intros s l W X _ Ht' m y y' Hy Hd Hy'.
  destruct (spawn_l l) eqn:Hs.
  - (* a spawning operation: old records are untouched, no event *)
    destruct (step_spawn s l Hs) as (He & _ & Hm).
    change (evs (reset s)) with (@nil event) in He.
    assert (Heq : y' = y).
    { pose proof (get_m_lt _ _ _ Hy) as Hlt. unfold get_m in Hy, Hy'.
      destruct Hm as [[Hm _]|(x & Hm & _)]; rewrite Hm in Hy';
        change (mtasks (reset s)) with (mtasks s) in Hy'.
      - congruence.
      - rewrite nth_error_app1 in Hy' by auto. congruence. }
    subst y'. rewrite He. repeat split; auto.
  - pose proof (MR_step s l Hs) as [_ Hrec _ Hev Htaint].
    change (evs (reset s)) with (@nil event) in Hev.
    change (length (ptasks (reset s))) with (length (ptasks s)) in Hev.
    assert (Ht : taint_iter s = false).
    { destruct (taint_iter s) eqn:E; auto. rewrite (Htaint E) in Ht'. discriminate. }
    destruct (Hrec m y Hy) as (y'' & Hy'' & _ & _ & Hp).
    rewrite Hy' in Hy''. injection Hy'' as <-.
    assert (Hcases : act l s = Some m \/ act l s <> Some m).
    { destruct (act l s) as [k|]; [|right; discriminate].
      destruct (Nat.eq_dec k m) as [->|Hne]; [left; auto|right; congruence]. }
    destruct Hcases as [Ha|Ha].
    + destruct (act_Some l s m Ha) as [->|[-> Hc]].
      * destruct (step_run_dead s m y W Ht Hy Hd) as (He & y'' & Hy'' & _ & Hi & Hn).
        rewrite Hy' in Hy''. injection Hy'' as <-. rewrite He. repeat split; auto.
      * exfalso. apply (X Ht m y Hy Hd). apply (I5_muser _ (wf5 _ W) m y Hy). auto.
    + destruct (Hp Ha) as (_ & Hi & _ & Hn). repeat split; auto.
      * intros k Hin. destruct (Hev _ Hin) as [[]|Hk]. simpl in Hk. congruence.
      * intros t el.
        destruct (Nat.lt_ge_cases t (num_started s)) as [Hlt|Hge]; auto. left.
        intros Hin. destruct (Hev _ Hin) as [[]|Hk]. simpl in Hk.
        rewrite (I1_len _ (wf1 _ W)) in Hge. lia.
Qed.

(** ** The operation as [step] performs it: on the state with the result register reset *)
Lemma WF_reset s : WF s -> WF (reset s).
Proof.
  intros [[] [] [] [] [] [] [] [] [] []].
  constructor; constructor; assumption.
Qed.

Lemma Extra_C_reset s : Extra_C s -> Extra_C (reset s).
Proof. intros H. exact H. Qed.

Theorem C07_op_step : forall s g, WF s -> Extra_C s -> C07_op (reset s) g.
Proof.
  intros s g W XC. apply C07_op_holds; [apply WF_reset; auto|apply Extra_C_reset; auto|reflexivity].
Qed.

Lemma step_cancel_group s g : step s (LOp (OpCancelGroup g)) = do_op (reset s) (OpCancelGroup g).
Proof. reflexivity. Qed.
