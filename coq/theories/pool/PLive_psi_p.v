(** Eventual completion — the potential [psi] under the moves of a pool task: neither [run_p] nor
    [continue_p] increases it.  No invariant is needed. *)
From TP Require Import PInv PInv_P_base.
From TP Require Export PLive_frame.

Unset Implicit Arguments.

(** ** primitives *)
Lemma psi_sched s h : psi (sched s h) = psi s.
Proof. unfold sched. destruct (is_ready s h); reflexivity. Qed.

Lemma psi_set_ctl s c : psi (set_ctl s c) = psi s. Proof. reflexivity. Qed.
Lemma psi_emit s e : psi (emit s e) = psi s. Proof. reflexivity. Qed.

Lemma psi_fold {A} (f : state -> A -> state) :
  (forall s a, psi (f s a) = psi s) -> forall l s, psi (fold_left f l s) = psi s.
Proof. intros H l. induction l; simpl; intros; auto. now rewrite IHl, H. Qed.

Lemma psi_sched_cbs s r : psi (sched_cbs s r) = psi s.
Proof. unfold sched_cbs. apply psi_fold. apply psi_sched. Qed.

Lemma psi_put_p s t x {xs} :
  get_p s t = Some xs -> psi (put_p s t x) + psi_p xs = psi s + psi_p x.
Proof.
  intros H. unfold psi, put_p. cbn.
  pose proof (lsum_upd psi_p (ptasks s) t x xs H). lia.
Qed.

Lemma psi_put_m s m x {xs} :
  get_m s m = Some xs -> psi (put_m s m x) + psi_m xs = psi s + psi_m x.
Proof.
  intros H. unfold psi, put_m. cbn.
  pose proof (lsum_upd psi_m (mtasks s) m x xs H). lia.
Qed.

Lemma psi_put_m_same s m x xs :
  get_m s m = Some xs -> psi_m x = psi_m xs -> psi (put_m s m x) = psi s.
Proof. intros G E. pose proof (psi_put_m s m x G). lia. Qed.

Lemma psi_wake_next s : psi (wake_next s) = psi s.
Proof.
  unfold wake_next. destruct (first_pending s (sem_waiters s)) as [m|]; auto.
  destruct (get_m s m) as [x|] eqn:G; auto.
  rewrite psi_sched.
  apply (psi_put_m_same (set_sem_value s (ninf_pred (sem_value s))) m _ x G). reflexivity.
Qed.

Lemma psi_sem_release s : psi (sem_release s) = psi s.
Proof. unfold sem_release. rewrite psi_wake_next. reflexivity. Qed.

Lemma psi_map_release s m : psi (map_release s m) = psi s.
Proof.
  unfold map_release. destruct (get_m s m) as [x|] eqn:G; auto.
  assert (Hdef : psi (put_m s m (set_m_mapval x (S (m_mapval x)))) = psi s).
  { apply (psi_put_m_same s m _ x G). reflexivity. }
  destruct (m_pc x); auto. destruct (m_fw x) as [[| | |]|]; auto.
  rewrite psi_sched. apply (psi_put_m_same s m _ x G). reflexivity.
Qed.

(** ** pool tasks *)
Lemma psi_finish_p s t x xs :
  get_p s t = Some xs -> psi (finish_p s t x) + psi_p xs = psi s.
Proof.
  intros G. unfold finish_p. set (x' := set_p_final _ _).
  rewrite psi_set_ctl, psi_sched_cbs.
  pose proof (psi_put_p s t x' G) as H.
  assert (H0 : psi_p x' = 0) by reflexivity. lia.
Qed.

Lemma psi_suspend_p s t x pc xs :
  get_p s t = Some xs -> psi (suspend_p s t x pc) + psi_p xs <= psi s + psi_pc pc + 1.
Proof.
  intros G. unfold suspend_p. destruct (p_mc x); rewrite psi_set_ctl.
  - rewrite psi_sched. set (x' := set_p_fw _ _).
    pose proof (psi_put_p s t x' G) as H.
    assert (H0 : psi_p x' = 0 + psi_pc pc) by reflexivity. lia.
  - set (x' := set_p_fw _ _).
    pose proof (psi_put_p s t x' G) as H.
    assert (H0 : psi_p x' = 1 + psi_pc pc) by reflexivity. lia.
Qed.

Lemma psi_moved s1 t x xs :
  get_p s1 t = Some xs ->
  psi (let s2 := set_t_ended s1 (dict_add (t_ended s1) t) in
       let s3 := sem_release s2 in
       let x := set_p_nrel x (S (p_nrel x)) in
       let s4 := if p_ismap x then map_release s3 (p_req x) else s3 in
       match p_ecb x with
       | CbNone => finish_p s4 t x
       | _ =>
          set_ctl (emit (put_p s4 t (set_p_pc (set_p_necb x (S (p_necb x))) PUEndCb))
                        (EvCbBegin KEnd t (classify s4 t)))
                  (CUser (TP t))
       end) + psi_p xs <= psi s1 + pend (p_fw x) + 1.
Proof.
  intros G. cbv zeta.
  set (s2 := set_t_ended s1 (dict_add (t_ended s1) t)).
  set (s3 := sem_release s2).
  set (x1 := set_p_nrel x (S (p_nrel x))).
  set (s4 := if p_ismap x1 then map_release s3 (p_req x1) else s3).
  assert (M3 : psi s3 = psi s1) by (unfold s3; rewrite psi_sem_release; reflexivity).
  assert (P3 : ptasks s3 = ptasks s1) by (unfold s3; rewrite ptasks_sem_release; reflexivity).
  assert (M4 : psi s4 = psi s1).
  { unfold s4. destruct (p_ismap x1); [rewrite psi_map_release|]; exact M3. }
  assert (P4 : ptasks s4 = ptasks s1).
  { unfold s4. destruct (p_ismap x1); [rewrite ptasks_map_release|]; exact P3. }
  assert (G4 : get_p s4 t = Some xs) by (unfold get_p; rewrite P4; exact G).
  clearbody s4. clear P3 P4 M3. clearbody s3. clearbody s2.
  destruct (p_ecb x1).
  - pose proof (psi_finish_p s4 t x1 xs G4). lia.
  - rewrite psi_set_ctl, psi_emit.
    match goal with |- context [put_p s4 t ?y] =>
      pose proof (psi_put_p s4 t y G4) as H2;
      assert (H3 : psi_p y = pend (p_fw x) + 1) by reflexivity end.
    lia.
  - rewrite psi_set_ctl, psi_emit.
    match goal with |- context [put_p s4 t ?y] =>
      pose proof (psi_put_p s4 t y G4) as H2;
      assert (H3 : psi_p y = pend (p_fw x) + 1) by reflexivity end.
    lia.
Qed.

(** [_task_ending]: what is left is at most the end callback's gate *)
Lemma psi_enter_end s t x xs :
  get_p s t = Some xs -> psi (enter_end s t x) + psi_p xs <= psi s + pend (p_fw x) + 1.
Proof.
  intros G. unfold enter_end.
  destruct (mem t (t_running s)); [|destruct (mem t (t_cancelled s))].
  - apply (psi_moved (set_t_running s (remove1 t (t_running s))) t x xs G).
  - apply (psi_moved (set_t_cancelled s (remove1 t (t_cancelled s))) t x xs G).
  - pose proof (psi_finish_p s t (set_p_exc x (Some EKeyError)) xs G). lia.
Qed.

Lemma psi_enter_cancel s t x xs :
  get_p s t = Some xs -> psi (enter_cancel s t x) + psi_p xs <= psi s + pend (p_fw x) + 2.
Proof.
  intros G. unfold enter_cancel. destruct (mem t (t_running s)).
  - cbv zeta.
    set (s1 := set_t_cancelled (set_t_running s (remove1 t (t_running s)))
                               (dict_add (t_cancelled s) t)).
    assert (G1 : get_p s1 t = Some xs) by exact G.
    assert (M1 : psi s1 = psi s) by reflexivity.
    clearbody s1.
    destruct (p_ccb x).
    + pose proof (psi_enter_end s1 t x xs G1). lia.
    + rewrite psi_set_ctl, psi_emit.
      match goal with |- context [put_p s1 t ?y] =>
        pose proof (psi_put_p s1 t y G1) as H2;
        assert (H3 : psi_p y = pend (p_fw x) + 2) by reflexivity end.
      lia.
    + rewrite psi_set_ctl, psi_emit.
      match goal with |- context [put_p s1 t ?y] =>
        pose proof (psi_put_p s1 t y G1) as H2;
        assert (H3 : psi_p y = pend (p_fw x) + 2) by reflexivity end.
      lia.
  - pose proof (psi_enter_end s t (set_p_exc x (Some EKeyError)) xs G).
    assert (p_fw (set_p_exc x (Some EKeyError)) = p_fw x) by reflexivity.
    replace (pend (p_fw (set_p_exc x (Some EKeyError)))) with (pend (p_fw x)) in H by reflexivity.
    lia.
Qed.

Lemma fw_cb_raise x r st t : p_fw (cb_raise x r st t) = p_fw x.
Proof. unfold cb_raise. destruct r; reflexivity. Qed.

(** pose the accounting fact for the call at the head of the goal *)
Ltac qpose xs G :=
  match goal with
  | |- context [enter_end (emit ?s ?e) ?t ?x] =>
      pose proof (psi_enter_end (emit s e) t x xs G); rewrite ?psi_emit in *
  | |- context [enter_end ?s ?t ?x] => pose proof (psi_enter_end s t x xs G)
  | |- context [enter_cancel (emit ?s ?e) ?t ?x] =>
      pose proof (psi_enter_cancel (emit s e) t x xs G); rewrite ?psi_emit in *
  | |- context [enter_cancel ?s ?t ?x] => pose proof (psi_enter_cancel s t x xs G)
  | |- context [finish_p (emit ?s ?e) ?t ?x] =>
      pose proof (psi_finish_p (emit s e) t x xs G); rewrite ?psi_emit in *
  | |- context [finish_p ?s ?t ?x] => pose proof (psi_finish_p s t x xs G)
  | |- context [suspend_p ?s ?t ?x ?pc] => pose proof (psi_suspend_p s t x pc xs G)
  end.

(** Continuing a pool task from a user point never increases [psi]. *)
Lemma psi_continue_p s t : psi (continue_p s t) <= psi s.
Proof.
  unfold continue_p. destruct (get_p s t) as [xs|] eqn:G; [|lia].
  assert (HP : psi_p xs = pend (p_fw xs) + psi_pc (p_pc xs)) by reflexivity.
  destruct (p_pc xs) eqn:Epc; try lia; cbn [psi_pc] in HP.
  - destruct (w_first (p_w xs)); qpose xs G; cbn [psi_pc p_fw set_p_exc] in *; lia.
  - destruct (p_fin xs); qpose xs G; cbn [p_fw set_p_exc] in *; lia.
  - destruct (w_cancel (p_w xs)); qpose xs G; lia.
  - destruct (p_ccb xs) as [|r|[|] r]; qpose xs G; rewrite ?fw_cb_raise in *;
      cbn [psi_pc] in *; lia.
  - destruct (p_ecb xs) as [|r|[|] r]; qpose xs G; cbn [psi_pc] in *; lia.
Qed.

(** Running the ready handle of a pool task never increases [psi]. *)
Lemma psi_run_p s t : psi (run_p s t) <= psi s.
Proof.
  unfold run_p. destruct (get_p s t) as [x0|] eqn:G; [|lia]. cbv zeta.
  assert (HP : psi_p x0 = pend (p_fw x0) + psi_pc (p_pc x0)) by reflexivity.
  set (x := set_p_mc (set_p_fw x0 None) false).
  assert (HF : pend (p_fw x) = 0) by reflexivity.
  destruct (p_pc x0) eqn:Epc; try lia; cbn [psi_pc] in HP.
  - destruct (task_input (p_mc x0) (p_fw x0)).
    + destruct (p_unst x).
      * rewrite psi_set_ctl, psi_emit.
        match goal with |- context [put_p s t ?y] =>
          pose proof (psi_put_p s t y G) as H2;
          assert (H3 : psi_p y = 3) by reflexivity end. lia.
      * rewrite psi_set_ctl, psi_emit.
        match goal with |- context [put_p s t ?y] =>
          pose proof (psi_put_p s t y G) as H2;
          assert (H3 : psi_p y = 3) by reflexivity end. lia.
      * qpose x0 G. cbn [p_fw set_p_unst] in *. fold x in H. lia.
    + qpose x0 G. lia.
    + qpose x0 G. lia.
  - destruct (task_input (p_mc x0) (p_fw x0)); rewrite psi_set_ctl, ?psi_emit;
      match goal with |- context [put_p s t ?y] =>
        pose proof (psi_put_p s t y G) as H2;
        assert (H3 : psi_p y = 2) by reflexivity end; lia.
  - destruct (task_input (p_mc x0) (p_fw x0)); qpose x0 G; rewrite ?fw_cb_raise in *;
      cbn [p_fw set_p_exc] in *; lia.
  - destruct (task_input (p_mc x0) (p_fw x0)); qpose x0 G; lia.
Qed.
