(** "Nothing is stranded": whenever the loop is idle, nobody is inside a callback and no task is
    filed as running, every spawner has finished, every task is done and the whole capacity of
    the pool is free.  Per-instant, derived from the invariants.

    One hypothesis was added to the statement as given: [Extra_nc s] (PRest_nc.v) — a map request
    was only accepted with num_concurrent >= 1 ([do_op] rejects [nc = 0]; [m_kind] / [m_nc] never
    change).  No clause of [WFx] states it, and without it a consumer with [m_nc = 0] waiting on
    its per-call semaphore would be stranded.  [Extra_nc] is inductive on its own
    ([Extra_nc_init], [Extra_nc_step], [Extra_nc_run]). *)
From TP Require Import PInv PSpec PProps_A PProps_B PProps_B_inv PWF.
From TP Require Export PRest_nc.

Definition at_rest (s : state) : Prop := quiet s /\ t_running s = [].

Lemma count_pos_ex {A} (p : A -> bool) l : count p l <> 0 -> exists a, In a l /\ p a = true.
Proof.
  induction l as [|h r IH]; simpl; [congruence|].
  destruct (p h) eqn:E; [eauto|]. intros H. destruct (IH H) as (a & Ha & Hp). eauto.
Qed.

Lemma rest_task_done s t x :
  WF s -> at_rest s -> get_p s t = Some x -> p_pc x = PDone.
Proof.
  intros W [(_ & _ & Hq) Hr] Hx. pose proof (Hq t x Hx) as Hc. unfold in_callbacks in Hc.
  pose proof (I2_run _ (wf2 _ W) t x Hx) as Hrun. rewrite Hr in Hrun.
  destruct (p_pc x); auto; cbn in *; try discriminate;
    exfalso; apply (proj1 Hrun); reflexivity.
Qed.

Lemma rest_spawner_done s m y :
  WFx s -> Extra_nc s -> taint_size s = false -> cf_size (cfg s) <> Fin 0 -> at_rest s ->
  get_m s m = Some y -> m_final y <> None.
Proof.
  intros X NC Hts Hsz [Q Hr] Hy Hf. pose proof (x_wf _ X) as W.
  destruct (quiet_spawner s m y W Q Hy Hf) as [[Hpc|Hpc] Hfw].
  - (* waiting for a pool slot *)
    assert (Hin : In m (sem_waiters s)) by (apply (I4_in _ (wf4 _ W)); eauto).
    assert (Hmf : m_fw_of s m = Some FPending) by (unfold m_fw_of; now rewrite Hy).
    destruct (I4_wake _ (wf4 _ W) Hts m Hin Hmf) as [Hv|(m' & Hin' & Hok)].
    + pose proof (I3_slots _ (wf3 _ W)) as Hsl. unfold slots_ok in Hsl. rewrite Hv in Hsl.
      pose proof (I3_cap _ (wf3 _ W) Hts) as Hcap.
      rewrite (quiet_in_use s W Q), Hr in Hsl. cbn in Hsl.
      destruct (cap s) as [c|]; [|contradiction]. subst c. congruence.
    + rewrite (quiet_waiters s W Q m' Hin') in Hok. discriminate.
  - (* waiting for a per-call slot *)
    destruct (x_bm _ X) as [XB XM].
    assert (Hmap : is_map y = true) by (apply (XB m y Hy); auto).
    destruct (XM m y Hy Hpc Hfw) as [Hmv Hh].
    pose proof (IR_mapsem _ (wfr _ W) m y Hy) as Hms. unfold mapsem_ok in Hms.
    pose proof (NC m y Hy Hmap) as Hnc.
    unfold is_map in Hmap. destruct (m_kind y); try discriminate.
    rewrite Hmv, Hh, Hpc, Hfw in Hms. cbn in Hms.
    assert (Hu : unreleased_of s m <> 0) by lia.
    unfold unreleased_of in Hu. apply count_pos_ex in Hu. destruct Hu as (x & Hix & Hp).
    apply andb_true_iff in Hp. destruct Hp as [_ Hrel]. apply Nat.eqb_eq in Hrel.
    apply In_nth_error in Hix. destruct Hix as (t & Ht). change (get_p s t = Some x) in Ht.
    pose proof (rest_task_done s t x W (conj Q Hr) Ht) as Hdone.
    pose proof (IH_counts _ (wfh _ W) t x Ht) as Hc. unfold counts_ok in Hc.
    rewrite Hdone in Hc. lia.
Qed.

Theorem no_work_stranded : forall s,
  WFx s -> Extra_nc s -> taint_size s = false -> cf_size (cfg s) <> Fin 0 -> at_rest s ->
  (forall m y, get_m s m = Some y -> m_final y <> None) /\
  (forall t x, get_p s t = Some x -> p_pc x = PDone) /\
  sem_value s = cf_size (cfg s) /\ sem_waiters s = [].
Proof.
  intros s X NC Hts Hsz HR. pose proof (x_wf _ X) as W. destruct HR as [Q Hr].
  assert (HA : forall m y, get_m s m = Some y -> m_final y <> None).
  { intros m y. apply rest_spawner_done; auto. split; auto. }
  split; [exact HA|]. split; [|split].
  - intros t x. apply rest_task_done; auto. split; auto.
  - pose proof (I3_slots _ (wf3 _ W)) as Hsl. unfold slots_ok in Hsl.
    pose proof (I3_cap _ (wf3 _ W) Hts) as Hcap.
    rewrite (quiet_in_use s W Q), Hr in Hsl. cbn in Hsl.
    rewrite <- Hcap. destruct (sem_value s) as [v|], (cap s) as [c|]; try contradiction; auto.
    f_equal. lia.
  - destruct (sem_waiters s) as [|m r] eqn:E; auto. exfalso.
    assert (Hin : In m (sem_waiters s)) by (rewrite E; left; auto).
    apply (I4_in _ (wf4 _ W)) in Hin. destruct Hin as (x & Hx & Hpc).
    pose proof (HA m x Hx) as Hf. apply (I5_mfinal _ (wf5 _ W) m x Hx) in Hf. congruence.
Qed.

Corollary requests_complete_at_rest : forall s,
  WFx s -> Extra_nc s -> taint_size s = false -> taint_iter s = false ->
  cf_size (cfg s) <> Fin 0 -> at_rest s ->
  forall m y, get_m s m = Some y -> m_dead y = false ->
    match m_kind y with
    | MMap _ => m_idx y = length (m_els y) /\
                tasks_of s m + count e_bad (m_els y) = length (m_els y)
    | _ => tasks_of s m = ngood (m_bad y) (m_num y)
    end.
Proof.
  intros s X NC Hts Hti Hsz HR m y Hy Hd. pose proof (x_wf _ X) as W.
  destruct (no_work_stranded s X NC Hts Hsz HR) as (HA & _).
  pose proof (HA m y Hy) as Hf.
  pose proof (IR_final _ (wfr _ W) m y Hy) as Hfin. unfold req_final_ok in Hfin.
  pose proof (IR_progress _ (wfr _ W) m y Hy) as Hp. unfold req_progress in Hp.
  pose proof (IR_ncreated _ (wfr _ W) m y Hy) as Hn.
  destruct (m_final y) as [[|e|]|]; try congruence.
  - destruct Hfin as [H|[H|H]]; try congruence.
    destruct (m_kind y).
    + destruct Hp as [_ Hp]. rewrite H in Hp. congruence.
    + destruct Hp as [Hle Hp]. split; auto. rewrite H, firstn_all in Hp. congruence.
    + destruct Hp as [_ Hp]. rewrite H in Hp. congruence.
  - contradiction.
  - destruct Hfin; congruence.
Qed.

(** the same for every state reached by a clean run *)
Corollary no_work_stranded_run : forall c tr,
  clean (run c tr) -> taint_size (run c tr) = false -> cf_size (cfg (run c tr)) <> Fin 0 ->
  at_rest (run c tr) ->
  (forall m y, get_m (run c tr) m = Some y -> m_final y <> None) /\
  (forall t x, get_p (run c tr) t = Some x -> p_pc x = PDone) /\
  sem_value (run c tr) = cf_size (cfg (run c tr)) /\ sem_waiters (run c tr) = [].
Proof.
  intros c tr Hc. apply no_work_stranded; [now apply WFx_run|apply Extra_nc_run].
Qed.

