(** M1 — failure patterns of an apply()/start() request.

    A request carries a pattern [pat : list bool]: the call [func( *args, **kwargs)] of invocation
    index [i] raises synchronously iff [nth i pat false = true] (indices beyond the pattern do not
    fail).  This file has the counting functions used by the invariant, the specifications and the
    monitor, and their arithmetic (stdlib only). *)
From TP Require Export Base.

(** number of non-failing invocation indices below [n] *)
Fixpoint ngood (pat : list bool) (n : nat) : nat :=
  match n with
  | O => 0
  | S k => ngood pat k + (if nth k pat false then 0 else 1)
  end.

(** number of failing invocation indices below [n] *)
Fixpoint nbad (pat : list bool) (n : nat) : nat :=
  match n with
  | O => 0
  | S k => nbad pat k + (if nth k pat false then 1 else 0)
  end.

(** the non-failing indices below [n], ascending *)
Definition good_indices (pat : list bool) (n : nat) : list nat :=
  filter (fun i => negb (nth i pat false)) (seq 0 n).

Lemma ngood_0 pat : ngood pat 0 = 0.
Proof. reflexivity. Qed.

Lemma ngood_S pat n : ngood pat (S n) = ngood pat n + (if nth n pat false then 0 else 1).
Proof. reflexivity. Qed.

Lemma nbad_S pat n : nbad pat (S n) = nbad pat n + (if nth n pat false then 1 else 0).
Proof. reflexivity. Qed.

Lemma ngood_S_bad pat n : nth n pat false = true -> ngood pat (S n) = ngood pat n.
Proof. intros H. simpl. rewrite H. lia. Qed.

Lemma ngood_S_good pat n : nth n pat false = false -> ngood pat (S n) = S (ngood pat n).
Proof. intros H. simpl. rewrite H. lia. Qed.

Lemma ngood_nbad pat n : ngood pat n + nbad pat n = n.
Proof. induction n as [|n IH]; simpl; auto. destruct (nth n pat false); lia. Qed.

Lemma ngood_le pat n : ngood pat n <= n.
Proof. pose proof (ngood_nbad pat n). lia. Qed.

Lemma nbad_le pat n : nbad pat n <= n.
Proof. pose proof (ngood_nbad pat n). lia. Qed.

Lemma ngood_mono pat n k : n <= k -> ngood pat n <= ngood pat k.
Proof.
  induction 1 as [|k Hle IH]; auto. simpl. lia.
Qed.

Lemma nbad_mono pat n k : n <= k -> nbad pat n <= nbad pat k.
Proof.
  induction 1 as [|k Hle IH]; auto. simpl. lia.
Qed.

(** a non-failing index below [k] not yet counted at [n] makes the count strictly larger *)
Lemma ngood_lt pat n k : n < k -> nth n pat false = false -> ngood pat n < ngood pat k.
Proof.
  intros Hlt Hg. pose proof (ngood_mono pat (S n) k Hlt) as Hm. rewrite (ngood_S_good _ _ Hg) in Hm. lia.
Qed.

Lemma ngood_nil n : ngood [] n = n.
Proof. induction n as [|n IH]; simpl; auto. rewrite IH. destruct n; simpl; lia. Qed.

Lemma nbad_nil n : nbad [] n = 0.
Proof. pose proof (ngood_nbad [] n). rewrite ngood_nil in *. lia. Qed.

Lemma nth_repeat_true i n : i < n -> nth i (repeat true n) false = true.
Proof.
  revert i; induction n as [|n IH]; intros [|i] H; simpl; auto; try lia. apply IH. lia.
Qed.

(** every call below [n] fails: nothing is created *)
Lemma ngood_all_bad pat n : (forall i, i < n -> nth i pat false = true) -> ngood pat n = 0.
Proof.
  induction n as [|n IH]; intros H; simpl; auto.
  rewrite (H n) by lia. rewrite IH; auto.
Qed.

Lemma ngood_repeat_true n k : n <= k -> ngood (repeat true k) n = 0.
Proof. intros H. apply ngood_all_bad. intros i Hi. apply nth_repeat_true. lia. Qed.

(** no call below [n] fails: everything is created *)
Lemma ngood_all_good pat n : (forall i, i < n -> nth i pat false = false) -> ngood pat n = n.
Proof.
  induction n as [|n IH]; intros H; simpl; auto.
  rewrite (H n) by lia. rewrite IH; auto. lia.
Qed.

Lemma ngood_eq_full pat n : ngood pat n = n -> forall i, i < n -> nth i pat false = false.
Proof.
  induction n as [|n IH]; intros H i Hi; [lia|].
  simpl in H. pose proof (ngood_le pat n) as Hle.
  destruct (nth n pat false) eqn:E; [lia|].
  destruct (Nat.eq_dec i n) as [->|Hne]; auto. apply IH; lia.
Qed.

(** the pattern only matters below the bound *)
Lemma ngood_ext pat pat' n :
  (forall i, i < n -> nth i pat false = nth i pat' false) -> ngood pat n = ngood pat' n.
Proof.
  induction n as [|n IH]; intros H; simpl; auto.
  rewrite (H n) by lia. rewrite IH; auto.
Qed.

Lemma good_indices_S pat n :
  good_indices pat (S n) =
  good_indices pat n ++ (if nth n pat false then [] else [n]).
Proof.
  unfold good_indices. rewrite seq_S, filter_app. simpl.
  destruct (nth n pat false); reflexivity.
Qed.

Lemma good_indices_length pat n : length (good_indices pat n) = ngood pat n.
Proof.
  induction n as [|n IH]; auto.
  rewrite good_indices_S, app_length, IH. simpl. destruct (nth n pat false); reflexivity.
Qed.

Lemma good_indices_In pat n i :
  In i (good_indices pat n) <-> i < n /\ nth i pat false = false.
Proof.
  unfold good_indices. rewrite filter_In, in_seq, negb_true_iff. intuition lia.
Qed.

Lemma good_indices_NoDup pat n : NoDup (good_indices pat n).
Proof. apply NoDup_filter, seq_NoDup. Qed.

(** Pigeonhole: a duplicate-free list of non-failing indices below [n] that is as long as there
    are such indices contains every one of them. *)
Lemma good_indices_covered pat n (l : list nat) :
  NoDup l -> (forall i, In i l -> i < n /\ nth i pat false = false) ->
  length l = ngood pat n ->
  forall i, i < n -> nth i pat false = false -> In i l.
Proof.
  intros Hnd Hin Hlen i Hi Hg.
  assert (Hincl : incl l (good_indices pat n)).
  { intros j Hj. apply good_indices_In. auto. }
  assert (Hback : incl (good_indices pat n) l).
  { apply NoDup_length_incl; auto. rewrite good_indices_length. lia. }
  apply Hback, good_indices_In. auto.
Qed.
