(** Generic update of one spawner record. *)
From TP Require Export PInv_Q_cancel.
Set Implicit Arguments. Unset Strict Implicit.

Lemma get_m_upd s s' m x' :
  mtasks s' = upd (mtasks s) m x' ->
  forall k y', get_m s' k = Some y' ->
    (k = m /\ y' = x' /\ exists x, get_m s m = Some x) \/ (k <> m /\ get_m s k = Some y').
Proof.
  intros Em k y' H. unfold get_m in *. rewrite Em, nth_error_upd in H.
  destruct (Nat.eqb_spec m k) as [->|Ne].
  - destruct (k <? length (mtasks s)) eqn:L; [|discriminate].
    inversion H; subst. left. repeat split; auto.
    apply Nat.ltb_lt in L. destruct (nth_error (mtasks s) k) eqn:E; eauto.
    apply nth_error_None in E. lia.
  - right. split; auto.
Qed.

Lemma get_m_upd_l s s' m x x' :
  mtasks s' = upd (mtasks s) m x' -> get_m s m = Some x ->
  forall k y, get_m s k = Some y ->
    exists y', get_m s' k = Some y' /\ (k = m /\ y' = x' /\ y = x \/ k <> m /\ y' = y).
Proof.
  intros Em Hx k y Hy. unfold get_m in *. rewrite Em.
  destruct (Nat.eq_dec m k) as [->|Ne].
  - exists x'. rewrite (nth_error_upd_same _ Hx). split; auto. left. repeat split; congruence.
  - exists y. rewrite nth_error_upd_neq; auto.
Qed.

Lemma IR_put_m s s' m x x' :
  IR s -> get_m s m = Some x -> mimm x x' -> m_idx x <= m_idx x' ->
  m_ncreated x' = m_ncreated x ->
  req_progress s m x' -> req_final_ok s' x' -> mapsem_ok s m x' ->
  ptasks s' = ptasks s -> mtasks s' = upd (mtasks s) m x' ->
  (taint_iter s = true -> taint_iter s' = true) -> IR s'.
Proof.
  intros HIR Hx Hi Hidx Hn Hpr Hfin Hms Ep Em Et.
  assert (Hp : forall t, get_p s' t = get_p s t) by (intros; unfold get_p; rewrite Ep; auto).
  assert (Ht : forall k, tasks_of s' k = tasks_of s k) by (intros; unfold tasks_of; rewrite Ep; auto).
  assert (Hu : forall k, unreleased_of s' k = unreleased_of s k)
    by (intros; unfold unreleased_of; rewrite Ep; auto).
  pose proof (get_m_upd Em) as Hinv. pose proof (get_m_upd_l Em Hx) as Hl.
  constructor.
  - intros t xt Hxt. rewrite Hp in Hxt. destruct (IR_req _ HIR _ _ Hxt) as [y [Hy My]].
    destruct (Hl _ _ Hy) as [y' [Hy' [[E1 [E2 E3]]|[E1 E2]]]]; subst; eauto.
    exists x'. split; auto. eapply matches_transfer; eauto. apply pimm_refl.
  - intros t u a b Ha Hb. rewrite Hp in Ha, Hb. eapply (IR_distinct _ HIR); eauto.
  - intros k y Hy. rewrite Ht. destruct (Hinv _ _ Hy) as [[-> [-> _]]|[_ H]].
    + rewrite Hn. apply (IR_ncreated _ HIR); auto.
    + apply (IR_ncreated _ HIR); auto.
  - intros k y Hy. destruct (Hinv _ _ Hy) as [[-> [-> _]]|[_ H]].
    + exact Hpr.
    + apply (IR_progress _ HIR) in H. exact H.
  - intros k y Hy. destruct (Hinv _ _ Hy) as [[-> [-> _]]|[_ H]].
    + exact Hfin.
    + apply (IR_final _ HIR) in H. eapply finalw_transfer; [apply msimw_refl|exact Et|exact H].
  - intros k y Hy. destruct (Hinv _ _ Hy) as [[-> [-> _]]|[_ H]].
    + unfold mapsem_ok in *. rewrite Hu. exact Hms.
    + apply (IR_mapsem _ HIR) in H. unfold mapsem_ok in *. rewrite Hu. exact H.
Qed.

Lemma IGr_put_m s s' m x x' :
  IGr s -> get_m s m = Some x -> m_group x' = m_group x ->
  (m_dead x' = false -> m_dead x = false) -> (m_final x' = None -> m_final x = None) ->
  ptasks s' = ptasks s -> mtasks s' = upd (mtasks s) m x' ->
  groups s' = groups s -> num_started s' = num_started s -> IGr s'.
Proof.
  intros [G1 G2 G3 G4 G5 G6] Hx Hg Hd Hf Ep Em Eg En.
  assert (Hp : forall t, get_p s' t = get_p s t) by (intros; unfold get_p; rewrite Ep; auto).
  pose proof (get_m_upd Em) as Hinv.
  constructor; rewrite ?Eg, ?En; auto.
  - intros g ids t xt Hl Hi Hxt. rewrite Hp in Hxt. eapply G4; eauto.
  - intros t xt y Hxt Hy Hdd. rewrite Hp in Hxt.
    destruct (Hinv _ _ Hy) as [[E1 [-> _]]|[_ H]].
    + rewrite <- E1 in Hx. rewrite Hg. apply G5; auto.
    + apply G5; auto.
  - intros k y Hy Hff Hdd. destruct (Hinv _ _ Hy) as [[-> [-> _]]|[_ H]].
    + rewrite Hg. eapply G6; eauto.
    + eapply G6; eauto.
Qed.

(** Both at once, for an update that leaves [m_group], [m_dead] alone. *)
Lemma both_put_m s s' m x x' :
  IR s -> IGr s -> get_m s m = Some x -> mimm x x' -> m_idx x <= m_idx x' ->
  m_ncreated x' = m_ncreated x -> m_dead x' = m_dead x ->
  (m_final x' = None -> m_final x = None) ->
  req_progress s m x' -> req_final_ok s' x' -> mapsem_ok s m x' ->
  ptasks s' = ptasks s -> mtasks s' = upd (mtasks s) m x' ->
  groups s' = groups s -> num_started s' = num_started s ->
  (taint_iter s = true -> taint_iter s' = true) -> IR s' /\ IGr s'.
Proof.
  intros. split.
  - eapply IR_put_m; eauto.
  - eapply IGr_put_m with (m := m) (x := x) (x' := x'); eauto; try congruence. apply H2.
Qed.
