(** Monitor soundness, pilot: the executable monitor of PMon.v never reports a violated clause of
    property C01 on the model's own observation stream (for every clean run). *)
From TP Require Import PSpec PMon PRun PWF PProps_A PInv_R_base PMonSound_trk PMonSound_ev.

(** the relation between the model state and the tracker after the same prefix *)
Definition RR (c : config) (s : state) (k : trk) : Prop :=
  (exists tr0, s = run c tr0) /\
  Inv (tview k) s None /\
  (taint_size s = true -> k_setsize k = true).

Lemma RR_init c : RR c (init c) (trk_init c).
Proof.
  split; [exists []; reflexivity|]. split; [|discriminate].
  unfold Inv, tview, cls_at, cls_rec, get_p; cbn.
  split; [constructor|]. split; [intros u []|].
  split; [intros u H; destruct u; discriminate H|].
  split; [intros u H; destruct u; discriminate H|]. intros a vc H; discriminate H.
Qed.

Lemma setsize_enabled s l : is_setsize l = true -> enabled s l = true.
Proof.
  destruct l as [h| |o]; try discriminate. destruct o; try discriminate. reflexivity.
Qed.

Lemma ninf_geb_mono v a b : b <= a -> ninf_geb v a = true -> ninf_geb v b = true.
Proof.
  destruct v as [m|]; simpl; auto. intros Hle H. apply Nat.leb_le in H. apply Nat.leb_le. lia.
Qed.

Lemma ninf_eqb_Fin v n : ninf_eqb v (Fin n) = true <-> v = Fin n.
Proof.
  destruct v as [m|]; simpl; [|split; discriminate].
  rewrite Nat.eqb_eq. split; congruence.
Qed.

Lemma cls_live_running p : cls p = VLive -> running_pc p = true.
Proof. destruct p; simpl; congruence. Qed.

Lemma ctl_obs_idle s : ctl_obs s = OIdle -> ctl s = CIdle.
Proof.
  unfold ctl_obs. destruct (ctl s) as [|[t|m|d]]; auto; try discriminate.
  destruct (get_p s t) as [x|]; [|discriminate]. destruct (p_pc x); discriminate.
Qed.

(** the tracker's notion of a quiet point implies the specification's *)
Lemma quiet_sound s kk l en :
  Inv (tview kk) s None -> PMon.quiet kk (obs_of s l en) = true -> PSpec.quiet s.
Proof.
  intros (_ & _ & H3 & H4 & _) Hq. unfold PMon.quiet in Hq. cbn [o_ctl o_ready_empty obs_of] in Hq.
  destruct (ctl_obs s) eqn:Hc; [|discriminate]. apply ctl_obs_idle in Hc.
  apply andb_true_iff in Hq. destruct Hq as [Hr Hcb].
  split; [exact Hc|]. split.
  - destruct (ready s); [reflexivity|discriminate].
  - intros t x Hx. unfold tview in H3, H4. cbn [snd] in H3, H4.
    destruct (k_cbs kk); [|discriminate].
    unfold in_callbacks.
    destruct (cancel_pc (p_pc x)) eqn:Hcp.
    + exfalso. apply (H3 t). unfold cls_at, cls_rec. rewrite Hx. simpl.
      destruct (p_pc x); simpl in *; congruence.
    + destruct (endcb_pc (p_pc x)) eqn:Hep; [|reflexivity].
      exfalso. apply (H4 t). unfold cls_at, cls_rec. rewrite Hx. simpl.
      destruct (p_pc x); simpl in *; congruence.
Qed.

Lemma c01_part_nil c s kk l en :
  WF s -> cfg s = c -> Inv (tview kk) s None ->
  (taint_size s = true -> k_setsize kk = true) ->
  c01_part c kk (obs_of s l en) = [].
Proof.
  intros W Hcfg HI Hts. unfold c01_part.
  destruct (k_setsize kk) eqn:Hk; [reflexivity|]. simpl negb. cbv iota.
  assert (Hsz : taint_size s = false).
  { destruct (taint_size s); auto. specialize (Hts eq_refl). congruence. }
  pose proof (C01_of_WF s W Hsz) as [C1 C2 C3 C4]. rewrite Hcfg in *.
  cbn [o_nr o_full obs_of].
  assert (B1 : ninf_geb (cf_size c) (length (t_running s)) = true) by exact C1.
  assert (B2 : ninf_geb (cf_size c) (length (k_live kk)) = true).
  { eapply ninf_geb_mono; [|exact B1].
    destruct HI as (Hnd & H2 & _). unfold tview in Hnd, H2. cbn [fst] in Hnd, H2.
    apply NoDup_incl_length; auto.
    intros u Hu. specialize (H2 u Hu). unfold cls_at, cls_rec in H2.
    destruct (get_p s u) as [x|] eqn:Hx; [|discriminate]. simpl in H2.
    apply (I2_run s (wf2 s W) u x Hx). apply cls_live_running. congruence. }
  assert (B3 : match cf_size c with Inf => negb (sem_locked s) | Fin _ => true end = true).
  { destruct (cf_size c) eqn:Hs; auto. rewrite (C3 eq_refl). reflexivity. }
  assert (B4 : negb (PMon.quiet kk (obs_of s l en))
               || Bool.eqb (sem_locked s) (ninf_eqb (cf_size c) (Fin (length (t_running s)))) = true).
  { destruct (PMon.quiet kk (obs_of s l en)) eqn:Hq; [|reflexivity]. simpl.
    pose proof (C4 (quiet_sound s kk l en HI Hq)) as Hiff.
    apply eqb_true_iff.
    destruct (sem_locked s) eqn:Hl.
    - symmetry. apply ninf_eqb_Fin. apply Hiff. reflexivity.
    - destruct (ninf_eqb (cf_size c) (Fin (length (t_running s)))) eqn:He; [|reflexivity].
      apply ninf_eqb_Fin in He. apply Hiff in He. congruence. }
  rewrite B1, B2, B3, B4. reflexivity.
Qed.

(** one observation *)
Lemma mon_step_sound c s k l :
  RR c s k -> clean (step s l) ->
  let o := obs_of (step s l) l (enabled (set_res (set_evs s []) RNone) l) in
  filter (fun cl => Nat.eqb (clause_prop cl) 1) (snd (mon_step c k o)) = [] /\
  RR c (step s l) (fst (mon_step c k o)).
Proof.
  intros ((tr0 & Hs) & HI & Hts) Hc o.
  destruct (mon_step_C01 c k o) as (kk & Hf & Hv & Hz & Hv' & Hz').
  cbv zeta in *.
  change (o_events o) with (evs (step s l)) in Hv.
  change (o_label o) with l in Hz.
  change (o_enabled o) with (enabled (set_res (set_evs s []) RNone) l) in Hz.
  destruct (Inv_step (length (k_reqs (fst (on_label c k o)))) (tview k) s l HI) as [HI' Ht'].
  rewrite <- Hv in HI'.
  assert (Hts' : taint_size (step s l) = true -> k_setsize kk = true).
  { intros H. rewrite Hz. destruct (Ht' H) as [H1|H1].
    - rewrite (Hts H1). reflexivity.
    - rewrite H1, (setsize_enabled _ l H1). apply orb_true_r. }
  assert (Hrun : step s l = run c (tr0 ++ [l])) by (rewrite run_snoc, Hs; reflexivity).
  assert (W : WF (step s l)).
  { rewrite Hrun. apply WF_run. rewrite <- Hrun. exact Hc. }
  split.
  - rewrite Hf. unfold o.
    rewrite (c01_part_nil c (step s l) kk l _ W); auto.
    rewrite Hrun. apply cfg_run.
  - split; [exists (tr0 ++ [l]); exact Hrun|]. split.
    + rewrite Hv'. exact HI'.
    + rewrite Hz'. exact Hts'.
Qed.

Lemma mon_run_sound c : forall tr s k i,
  RR c s k -> clean (fold_left step tr s) -> mon_run c 1 k i (observe_from s tr) = None.
Proof.
  induction tr as [|l tr IH]; intros s k i HR Hc; simpl; auto.
  simpl in Hc.
  assert (Hc1 : clean (step s l)) by (eapply clean_fold_inv; eauto).
  destruct (mon_step_sound c s k l HR Hc1) as [Hf HR'].
  cbv zeta in Hf, HR'.
  destruct (mon_step c k _) as [k' cs]. simpl in Hf, HR'. rewrite Hf.
  apply IH; auto.
Qed.

Theorem mon_C01_sound : forall c tr, clean (run c tr) -> PMon.ok_C01 c (observe c tr) = true.
Proof.
  intros c tr Hc. unfold ok_C01, ok_prop, observe.
  rewrite (mon_run_sound c tr (init c) (trk_init c) 0); auto. apply RR_init.
Qed.
