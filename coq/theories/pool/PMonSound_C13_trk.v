(** Monitor soundness, C13 — tracker side. *)
From TP Require Import PMon PMonSound_trk PMonSound_gen.

Definition dinfo (k : trk) : list (dkind * bool * nat) :=
  map (fun v => (v_kind v, v_quiet v, v_ne v)) (k_drvs k).

Definition isres (oc : outcome) : bool := match oc with OResult => true | _ => false end.

Definition dcl13 (I : list (dkind * bool * nat)) (cbs : list (nat * cbkind)) (prev : option obs)
           (etot : nat) (o : obs) (d : nat) (oc : outcome) : list clause :=
  match nth_error I d with
  | Some (DFlush re, q, ne) =>
      fails (negb re || isres oc) C13_re_never_raises
      ++ match oc with
         | OResult =>
             let '(pnr, pnc, pne) := match prev with
                                     | Some p => (o_nr p, o_nc p, o_ne p)
                                     | None => (0, 0, 0) end in
             fails (Nat.eqb (o_nr o) pnr && Nat.eqb (o_nc o) pnc) C13_not_forgotten_live
             ++ fails (negb q || Nat.leb (o_ne o + ne) etot) C13_forgotten_finished
             ++ fails (Nat.leb (count (fun p => cbk_eqb (snd p) KEnd) cbs) (o_ne o))
                      C13_inflight_kept
         | _ => []
         end
  | _ => []
  end.

Ltac fpsimp :=
  repeat rewrite fp_app;
  repeat first [ rewrite fp_fails by reflexivity | rewrite fp_fails_other by discriminate ];
  cbn [app]; rewrite ?app_nil_r.

Lemma map_upd_same' {A B} (f : A -> B) (l : list A) d x y :
  nth_error l d = Some y -> f x = f y -> map f (upd l d x) = map f l.
Proof.
  revert d. induction l as [|h r IH]; intros [|d] H E; simpl in *; try discriminate.
  - injection H as ->. now rewrite E.
  - f_equal. eapply IH; eauto.
Qed.

Definition d3 (k : trk) := (dinfo k, k_prev k, k_etotal k).

Lemma on_event_13_done k o d oc :
  fp 13 (snd (on_event k o (EvDriverDone d oc))) =
    dcl13 (dinfo k) (k_cbs k) (k_prev k) (k_etotal k) o d oc /\
  d3 (fst (on_event k o (EvDriverDone d oc))) = d3 k /\
  k_cbs (fst (on_event k o (EvDriverDone d oc))) = k_cbs k.
Proof.
  unfold on_event, dcl13, dinfo, d3. rewrite nth_error_map.
  destruct (nth_error (k_drvs k) d) as [v|] eqn:Ev; cbn [option_map fst snd].
  2:{ repeat split. }
  assert (Hm : forall oc', map (fun v0 => (v_kind v0, v_quiet v0, v_ne v0))
            (upd (k_drvs k) d {| v_kind := v_kind v; v_done := oc'; v_quiet := v_quiet v;
                                 v_ne := v_ne v |})
          = map (fun v0 => (v_kind v0, v_quiet v0, v_ne v0)) (k_drvs k)).
  { intros oc'. eapply map_upd_same'; eauto. }
  destruct (v_kind v) eqn:Ek; destruct oc; cbn [fst snd isres];
    try (destruct (k_prev k) as [p|] eqn:Ep; cbn [fst snd]);
    unfold dinfo; cbn [k_drvs set_k_drvs set_k_flags k_with k_prev k_etotal k_cbs];
    rewrite ?Hm, ?Ep; (split; [fpsimp; try reflexivity|split; reflexivity]).
Qed.

Definition is_done (e : event) : bool := match e with EvDriverDone _ _ => true | _ => false end.

Lemma on_event_13_other k o e :
  is_done e = false ->
  fp 13 (snd (on_event k o e)) = [] /\ d3 (fst (on_event k o e)) = d3 k.
Proof.
  destruct e as [t r el|t|t|kd t cl|kd t raised|kd t|r n|d oc]; try discriminate; intros _;
    unfold on_event, d3, dinfo.
  - destruct (nth_error (k_reqs k) r) as [x|]; cbn [fst snd]; split; auto;
      apply NCp_fp; try (destruct (is_map_kind (r_kind x))); ncp.
  - cbn [fst snd]. split; auto. apply NCp_fp. ncp.
  - cbn [fst snd]. split; auto. apply NCp_fp. ncp.
  - destruct kd; cbn [fst snd]; split; auto; apply NCp_fp; ncp.
  - cbn [fst snd]. split; auto. apply NCp_fp. ncp.
  - cbn [fst snd]. split; auto.
  - destruct (nth_error (k_reqs k) r) as [x|]; cbn [fst snd]; split; auto; apply NCp_fp; ncp.
Qed.

Lemma on_events_13_none es : forall k o,
  (forall e, In e es -> is_done e = false) ->
  fp 13 (snd (on_events k o es)) = [] /\ d3 (fst (on_events k o es)) = d3 k.
Proof.
  induction es as [|e es IH]; intros k o H; simpl; auto.
  destruct (on_event_13_other k o e (H e (or_introl eq_refl))) as [A1 A2].
  destruct (on_event k o e) as [k1 c1]. simpl in *.
  destruct (IH k1 o (fun e' He' => H e' (or_intror He'))) as [B1 B2].
  destruct (on_events k1 o es) as [k2 c2]. simpl in *.
  rewrite fp_app, A1, B1, B2, A2. auto.
Qed.

Definition dcls13 (k : trk) (o : obs) (es : list event) : list clause :=
  flat_map (fun e => match e with
                     | EvDriverDone d oc =>
                         dcl13 (dinfo k) (k_cbs k) (k_prev k) (k_etotal k) o d oc
                     | _ => [] end) es.

Lemma on_events_13_done es : forall k o,
  (forall e, In e es -> is_done e = true) ->
  fp 13 (snd (on_events k o es)) = dcls13 k o es /\
  d3 (fst (on_events k o es)) = d3 k /\ k_cbs (fst (on_events k o es)) = k_cbs k.
Proof.
  induction es as [|e es IH]; intros k o H; simpl; auto.
  pose proof (H e (or_introl eq_refl)) as He. destruct e; try discriminate.
  destruct (on_event_13_done k o d o0) as (A1 & A2 & A3).
  destruct (on_event k o (EvDriverDone d o0)) as [k1 c1]. simpl in *.
  destruct (IH k1 o (fun e' He' => H e' (or_intror He'))) as (B1 & B2 & B3).
  destruct (on_events k1 o es) as [k2 c2]. simpl in *.
  rewrite fp_app, A1, B1, B2, B3, A2, A3. repeat split; auto.
  f_equal. unfold dcls13. unfold d3 in A2. injection A2 as E1 E2 E3. rewrite E1, E2, E3, A3.
  reflexivity.
Qed.

Lemma note_raising_13 es : forall k,
  d3 (note_raising_starts k es) = d3 k /\ k_cbs (note_raising_starts k es) = k_cbs k.
Proof.
  unfold note_raising_starts.
  induction es as [|e es IH]; intros k; simpl; auto.
  match goal with |- context [fold_left ?f es ?k1] =>
    destruct (IH k1) as (A & B); rewrite A, B end.
  destruct e; auto.
  destruct (req_of k tid) as [[[r0 el0] x0]|]; auto.
  destruct (w_first _); auto.
Qed.

(** ** labels *)
Definition dnew (k : trk) (o : obs) : list (dkind * bool * nat) :=
  if negb (o_enabled o) then [] else
  match o_label o with
  | LOp (OpDriver kd) =>
      [(kd, if match k_prev k with None => true | Some _ => false end then true
            else PMon.quiet k (prev_or k o), k_etotal k)]
  | _ => []
  end.

Definition dl3 (k k1 : trk) (nw : list (dkind * bool * nat)) : Prop :=
  dinfo k1 = dinfo k ++ nw /\ k_prev k1 = k_prev k /\ k_etotal k1 = k_etotal k.

Lemma dl3_nil k : dl3 k k [].
Proof. unfold dl3. rewrite app_nil_r. auto. Qed.

Lemma on_spawn_13 k o first noncoro nc_bad g meth mk :
  (forall n, dl3 k (mk n) []) ->
  dl3 k (fst (on_spawn k o first noncoro nc_bad g meth mk)) [] /\
  NCp 13 (snd (on_spawn k o first noncoro nc_bad g meth mk)).
Proof.
  intros Hmk. unfold on_spawn. destruct (o_res o); cbn [fst snd]; split; auto using dl3_nil; ncp.
Qed.

Lemma new_req_13 k kind num bad els nc w ecb ccb g :
  dl3 k (new_req k kind num bad els nc w ecb ccb g) [].
Proof. unfold dl3, new_req, dinfo. cbn. rewrite app_nil_r. auto. Qed.

Lemma target_13 k ids : dl3 k (target k ids) [].
Proof. unfold dl3, target, dinfo. cbn. rewrite app_nil_r. auto. Qed.

Lemma on_label_13 c k o :
  dl3 k (fst (on_label c k o)) (dnew k o) /\ fp 13 (snd (on_label c k o)) = [].
Proof.
  unfold on_label, dnew. destruct (negb (o_enabled o)); [split; [apply dl3_nil|reflexivity]|].
  destruct (o_label o) as [h| |op]; try (split; [apply dl3_nil|reflexivity]).
  destruct op.
  - match goal with |- context [on_spawn ?a ?b ?c ?d ?e ?f ?g ?h] =>
      destruct (on_spawn_13 a b c d e f g h) as [A B]; [intros; apply new_req_13|] end.
    split; [exact A|apply NCp_fp, B].
  - match goal with |- context [on_spawn ?a ?b ?c ?d ?e ?f ?g ?h] =>
      destruct (on_spawn_13 a b c d e f g h) as [A B]; [intros; apply new_req_13|] end.
    split; [exact A|apply NCp_fp, B].
  - match goal with |- context [on_spawn ?a ?b ?c ?d ?e ?f ?g ?h] =>
      destruct (on_spawn_13 a b c d e f g h) as [A B]; [intros; apply new_req_13|];
      destruct (on_spawn a b c d e f g h) as [k1 cs] end.
    cbn [fst snd] in A, B. destruct (o_res o); cbn [fst snd]; split; auto;
      try (apply NCp_fp; exact B).
    apply NCp_fp. ncp. exact B.
  - destruct (o_res o); cbn [fst snd]; split; auto using dl3_nil, target_13; apply NCp_fp; ncp.
  - destruct (o_res o); cbn [fst snd]; split; auto using dl3_nil; try (apply NCp_fp; ncp).
    unfold dl3, dinfo. cbn. rewrite app_nil_r. auto.
  - cbn [fst snd]. split; [|apply NCp_fp; ncp]. unfold dl3, dinfo. cbn. rewrite app_nil_r. auto.
  - destruct (o_res o); cbn [fst snd]; split; auto using dl3_nil, target_13; apply NCp_fp; ncp.
  - destruct (o_res o); cbn [fst snd]; split; auto using dl3_nil, target_13; apply NCp_fp; ncp.
  - cbn [fst snd]. split; [apply dl3_nil|apply NCp_fp; ncp].
  - cbn [fst snd]. split; [apply dl3_nil|apply NCp_fp; ncp].
  - destruct v; cbn [fst snd]; split; try (apply NCp_fp; ncp); try apply dl3_nil.
    unfold dl3, dinfo. cbn. rewrite app_nil_r. auto.
  - cbn [fst snd]. split; [apply dl3_nil|apply NCp_fp; ncp].
  - cbn [fst snd]. split; [|reflexivity].
    destruct k0; unfold dl3, dinfo; cbn; rewrite map_app; cbn; auto.
  - destruct h; cbn [fst snd]; split; try reflexivity; try apply dl3_nil.
    unfold dl3, dinfo. cbn. rewrite app_nil_r. auto.
  - split; [apply dl3_nil|reflexivity].
Qed.

Lemma state_clauses_13 c k o : NCp 13 (state_clauses c k o).
Proof.
  unfold state_clauses. cbv zeta. ncp.
  - destruct (negb (k_setsize k)); ncp.
  - apply NCp_flat_map. intros [r x]. destruct (r_kind x); ncp;
      try (destruct (group_ids o (r_group x)); ncp; destruct (r_dead x); ncp).
  - destruct (k_setsize k); ncp.
Qed.

Lemma on_event_pe k o e :
  k_prev (fst (on_event k o e)) = k_prev k /\ k_etotal (fst (on_event k o e)) = k_etotal k.
Proof.
  destruct (is_done e) eqn:Ed.
  - destruct e; try discriminate. destruct (on_event_13_done k o d o0) as (_ & H & _).
    unfold d3 in H. injection H as _ H1 H2. auto.
  - destruct (on_event_13_other k o e Ed) as (_ & H). unfold d3 in H. injection H as _ H1 H2. auto.
Qed.

Lemma on_events_pe es : forall k o,
  k_prev (fst (on_events k o es)) = k_prev k /\ k_etotal (fst (on_events k o es)) = k_etotal k.
Proof.
  induction es as [|e es IH]; intros k o; simpl; auto.
  destruct (on_event_pe k o e) as [A1 A2]. destruct (on_event k o e) as [k1 c1]. simpl in *.
  destruct (IH k1 o) as [B1 B2]. destruct (on_events k1 o es) as [k2 c2]. simpl in *.
  rewrite B1, B2, A1, A2. auto.
Qed.

(** ** one monitor step *)
Lemma mon_step_13 c k o :
  let k1 := fst (on_label c k o) in
  let k' := fst (mon_step c k o) in
  fp 13 (snd (mon_step c k o)) = fp 13 (snd (on_events k1 o (o_events o))) /\
  dl3 k k1 (dnew k o) /\ tview k1 = tview k /\
  dinfo k' = dinfo (fst (on_events k1 o (o_events o))) /\
  tview k' = fold_left (vev (length (k_reqs k1))) (o_events o) (tview k) /\
  k_prev k' = Some o /\
  k_etotal k' = k_etotal k + (match k_prev k with Some p => o_ne o - o_ne p | None => o_ne o end).
Proof.
  cbv zeta. unfold mon_step.
  pose proof (on_label_view c k o) as (L1 & _).
  pose proof (on_label_13 c k o) as (L2 & L3).
  destruct (on_label c k o) as [k1 c1]. simpl fst in *. simpl snd in *.
  pose proof (on_events_view (o_events o) k1 o) as (E1 & _ & _).
  destruct (on_events k1 o (o_events o)) as [k2 c2] eqn:Eo. simpl fst in *. simpl snd in *.
  destruct (note_raising_same (o_events o) k2) as (N1 & _).
  destruct (note_raising_13 (o_events o) k2) as (N2 & N3).
  set (k3 := note_raising_starts k2 (o_events o)) in *.
  cbn [snd fst]. rewrite !fp_app, L3, (NCp_fp 13 _ (state_clauses_13 c _ o)). cbn [app].
  rewrite app_nil_r. split; [reflexivity|]. split; [exact L2|]. split; [exact L1|].
  unfold d3 in N2. injection N2 as M1 M2 M3.
  split; [exact M1|]. split.
  - change (tview k3 = fold_left (vev (length (k_reqs k1))) (o_events o) (tview k)).
    rewrite N1, E1, L1. reflexivity.
  - split; [reflexivity|].
    change (k_etotal k3 + match k_prev k3 with Some p => o_ne o - o_ne p | None => o_ne o end =
            k_etotal k + match k_prev k with Some p => o_ne o - o_ne p | None => o_ne o end).
    destruct L2 as (_ & P1 & P2).
    pose proof (on_events_pe (o_events o) k1 o) as (Q1 & Q2). rewrite Eo in Q1, Q2.
    simpl in Q1, Q2. rewrite M2, M3, Q1, Q2, P1, P2. reflexivity.
Qed.

Lemma on_event_d3 k o e : d3 (fst (on_event k o e)) = d3 k.
Proof.
  destruct (is_done e) eqn:Ed.
  - destruct e; try discriminate. apply (on_event_13_done k o d o0).
  - apply (on_event_13_other k o e Ed).
Qed.

Lemma on_events_d3 es : forall k o, d3 (fst (on_events k o es)) = d3 k.
Proof.
  induction es as [|e es IH]; intros k o; simpl; auto.
  pose proof (on_event_d3 k o e) as A. destruct (on_event k o e) as [k1 c1]. simpl in *.
  pose proof (IH k1 o) as B. destruct (on_events k1 o es) as [k2 c2]. simpl in *. congruence.
Qed.

Lemma In_fails b c cl : In cl (fails b c) -> b = false /\ cl = c.
Proof. unfold fails. destruct b; simpl; intuition. Qed.
