(** M1 — the public observation taken after every label.  Identical in the harness. *)
From TP Require Export PModel.

Inductive upoint := UWStart | UWResume | UWCancelled | UCancelCb | UEndCb | UIter | UOther.

Inductive ctlobs := OIdle | OUser (k : upoint) (id : nat).

Record obs := {
  o_label : label;
  o_enabled : bool;
  o_ctl : ctlobs;
  o_nr : nat;                         (* num_running *)
  o_nc : nat;                         (* num_cancelled *)
  o_ne : nat;                         (* num_ended *)
  o_full : bool;                      (* is_full *)
  o_locked : bool;                    (* is_locked *)
  o_size : ninf;                      (* pool_size (getter) *)
  o_ready_empty : bool;               (* no ready handle in the loop *)
  o_res : result;                     (* result of the operation (RNone for other labels) *)
  o_groups : list (gname * option (list nat));   (* get_group_ids of every known name *)
  o_events : list event
}.

Definition ctl_obs (s : state) : ctlobs :=
  match ctl s with
  | CIdle => OIdle
  | CUser (TP t) =>
      match get_p s t with
      | Some x =>
          match p_pc x with
          | PUStart => OUser UWStart t
          | PUResume => OUser UWResume t
          | PUCancelled => OUser UWCancelled t
          | PUCancelCb => OUser UCancelCb t
          | PUEndCb => OUser UEndCb t
          | _ => OUser UOther t
          end
      | None => OUser UOther t
      end
  | CUser (TM m) => OUser UIter m
  | CUser (TD d) => OUser UOther d
  end.

Definition obs_of (s : state) (l : label) (en : bool) : obs :=
  {| o_label := l; o_enabled := en; o_ctl := ctl_obs s;
     o_nr := length (t_running s); o_nc := length (t_cancelled s); o_ne := length (t_ended s);
     o_full := sem_locked s; o_locked := locked s; o_size := sem_value s;
     o_ready_empty := match ready s with [] => true | _ => false end;
     o_res := res s;
     o_groups := map (fun g => (g, glookup g (groups s))) (known s);
     o_events := evs s |}.

Definition observe1 (s : state) (l : label) : state * obs :=
  let en := enabled (set_res (set_evs s []) RNone) l in
  let s' := step s l in
  (s', obs_of s' l en).

Fixpoint observe_from (s : state) (tr : list label) : list obs :=
  match tr with
  | [] => []
  | l :: t => let '(s', o) := observe1 s l in o :: observe_from s' t
  end.

Definition observe (c : config) (tr : list label) : list obs := observe_from (init c) tr.
