(** C07 — cancel_group_tasks(g): what the operation does ([C07_op]). *)
From TP Require Import PSpecStep PInv_R_base PInv_R_tr PStep_B_mr PStep_B_inv PStep_B_c09.

(** ** Fields no part of the operation touches *)
Definition pf (s : state) :=
  (res s, groups s, t_running s, t_cancelled s, t_ended s, sem_value s).

Lemma pf_sched s h : pf (sched s h) = pf s.
Proof. unfold sched. destruct (is_ready s h); reflexivity. Qed.

Lemma pf_cancel_m s m : pf (cancel_m s m) = pf s.
Proof.
  unfold cancel_m. destruct (get_m s m) as [x|]; auto. destruct (m_final x); auto.
  destruct (fut_pending (m_fw x)); rewrite ?pf_sched; unfold pf; cbn;
    destruct (is_current s (TM m)); reflexivity.
Qed.

Lemma pf_cancel_p s t : pf (cancel_p s t) = pf s.
Proof.
  unfold cancel_p. destruct (get_p s t) as [x|]; auto. destruct (p_unst x); auto.
  destruct (p_final x); auto.
  destruct (fut_pending (p_fw x)); rewrite ?pf_sched; unfold pf; cbn;
    destruct (is_current s (TP t) && final_segment x); reflexivity.
Qed.

Lemma pf_cancel_running s t : pf (cancel_running s t) = pf s.
Proof. unfold cancel_running. destruct (mem t (t_running s)); auto. apply pf_cancel_p. Qed.

Lemma pf_cancel_group_metas s g : pf (cancel_group_metas s g) = pf s.
Proof.
  unfold cancel_group_metas. destruct (glookup g (gmeta s)); auto.
  change (pf (set_meta_cancelled ?a ?b)) with (pf a).
  rewrite (fold_frame cancel_m pf pf_cancel_m). reflexivity.
Qed.

Lemma pf_cancel_group_body s g ids : pf (cancel_group_body s g ids) = pf s.
Proof.
  rewrite cancel_group_body_eq, (fold_frame cancel_running pf pf_cancel_running).
  change (pf (mark_dead (cancel_group_metas s g) g)) with (pf (cancel_group_metas s g)).
  apply pf_cancel_group_metas.
Qed.

(** ** Pool task records *)
Lemma ptasks_cancel_m s m : ptasks (cancel_m s m) = ptasks s.
Proof.
  unfold cancel_m. destruct (get_m s m) as [x|]; auto. destruct (m_final x); auto.
  destruct (fut_pending (m_fw x)); rewrite ?ptasks_sched; cbn;
    destruct (is_current s (TM m)); reflexivity.
Qed.

Lemma ptasks_cancel_group_metas s g : ptasks (cancel_group_metas s g) = ptasks s.
Proof.
  unfold cancel_group_metas. destruct (glookup g (gmeta s)); auto.
  cbn [ptasks set_meta_cancelled].
  rewrite (fold_frame cancel_m ptasks ptasks_cancel_m). reflexivity.
Qed.

Lemma get_p_cancel_p_neq s u t : u <> t -> get_p (cancel_p s u) t = get_p s t.
Proof.
  intros Hne. unfold cancel_p. destruct (get_p s u) as [x|]; auto.
  destruct (p_unst x); try (apply get_p_put_p_neq; auto).
  destruct (p_final x); auto.
  destruct (fut_pending (p_fw x)); rewrite ?get_p_sched, get_p_put_p_neq by auto;
    destruct (is_current s (TP u) && final_segment x); reflexivity.
Qed.

Lemma get_p_cancel_running_neq s u t : u <> t -> get_p (cancel_running s u) t = get_p s t.
Proof.
  intros Hne. unfold cancel_running. destruct (mem u (t_running s)); auto.
  apply get_p_cancel_p_neq; auto.
Qed.

Lemma get_p_fold_cancel_running ids : forall s t,
  ~ In t ids -> get_p (fold_left cancel_running ids s) t = get_p s t.
Proof.
  induction ids as [|u r IH]; intros s t Hn; simpl; auto.
  rewrite IH by (intros H; apply Hn; right; auto).
  apply get_p_cancel_running_neq. intros ->. apply Hn. left; auto.
Qed.

Lemma cancel_p_req s t x :
  get_p s t = Some x -> p_final x = None ->
  exists x', get_p (cancel_p s t) t = Some x' /\ cancel_requested x x'.
Proof.
  intros Hx Hf. pose proof (get_p_lt _ _ _ Hx) as Hlt. unfold cancel_p. rewrite Hx.
  destruct (p_unst x).
  - rewrite Hf.
    set (s1 := if is_current s (TP t) && final_segment x then set_taint_self s true else s).
    assert (Hl1 : t < length (ptasks s1)) by (unfold s1; destruct (_ && _); exact Hlt).
    clearbody s1.
    destruct (fut_pending (p_fw x)); rewrite ?get_p_sched, get_p_put_p_eq by auto;
      eexists; (split; [reflexivity|]); unfold cancel_requested; auto.
  - rewrite get_p_put_p_eq by auto. eexists. split; [reflexivity|]. left. reflexivity.
  - rewrite get_p_put_p_eq by auto. eexists. split; [reflexivity|]. left. reflexivity.
Qed.

Lemma t_running_cancel_running s t : t_running (cancel_running s t) = t_running s.
Proof.
  pose proof (pf_cancel_running s t) as H. unfold pf in H. injection H. auto.
Qed.

Lemma fold_cancel_running_req ids : forall s t x,
  NoDup ids -> In t ids -> In t (t_running s) -> get_p s t = Some x -> p_final x = None ->
  exists x', get_p (fold_left cancel_running ids s) t = Some x' /\ cancel_requested x x'.
Proof.
  induction ids as [|u r IH]; intros s t x Hnd Hin Hr Hx Hf; [destruct Hin|]. simpl.
  inversion Hnd as [|? ? Hnin Hnd']; subst.
  destruct (Nat.eq_dec u t) as [->|Hne].
  - rewrite get_p_fold_cancel_running by auto.
    unfold cancel_running. apply mem_In in Hr. rewrite Hr. apply cancel_p_req; auto.
  - destruct Hin as [?|Hin]; [congruence|].
    apply IH; auto.
    + rewrite t_running_cancel_running. auto.
    + rewrite get_p_cancel_running_neq; auto.
Qed.

(** ** Spawner records *)
Lemma mtasks_cancel_p s t : mtasks (cancel_p s t) = mtasks s.
Proof.
  unfold cancel_p. destruct (get_p s t) as [x|]; auto. destruct (p_unst x); auto.
  destruct (p_final x); auto.
  destruct (fut_pending (p_fw x)); rewrite ?mtasks_sched; cbn;
    destruct (is_current s (TP t) && final_segment x); reflexivity.
Qed.

Lemma mtasks_cancel_running s t : mtasks (cancel_running s t) = mtasks s.
Proof. unfold cancel_running. destruct (mem t (t_running s)); auto. apply mtasks_cancel_p. Qed.

Lemma get_m_cancel_m_neq s k m : k <> m -> get_m (cancel_m s k) m = get_m s m.
Proof.
  intros Hne. unfold cancel_m. destruct (get_m s k) as [x|]; auto. destruct (m_final x); auto.
  destruct (fut_pending (m_fw x)); rewrite ?get_m_sched, get_m_put_m_neq by auto;
    destruct (is_current s (TM k)); reflexivity.
Qed.

Lemma get_m_fold_cancel_m ms : forall s m,
  ~ In m ms -> get_m (fold_left cancel_m ms s) m = get_m s m.
Proof.
  induction ms as [|k r IH]; intros s m Hn; simpl; auto.
  rewrite IH by (intros H; apply Hn; right; auto).
  apply get_m_cancel_m_neq. intros ->. apply Hn. left; auto.
Qed.

Lemma get_m_cancel_group_metas s g m :
  (forall ms, glookup g (gmeta s) = Some ms -> ~ In m ms) ->
  get_m (cancel_group_metas s g) m = get_m s m.
Proof.
  intros H. unfold cancel_group_metas. destruct (glookup g (gmeta s)) as [ms|]; auto.
  change (get_m (set_meta_cancelled ?a ?b) m) with (get_m a m).
  rewrite get_m_fold_cancel_m by (apply H; auto). reflexivity.
Qed.

Lemma NoDup_app_left {A} (a b : list A) : NoDup (a ++ b) -> NoDup a.
Proof.
  induction a as [|h t IH]; simpl; intros H; [constructor|].
  inversion H as [|? ? Hn Hd]; subst. constructor; auto.
  intros Hin. apply Hn. apply in_app_iff. auto.
Qed.

Lemma NoDup_app_right {A} (a b : list A) : NoDup (a ++ b) -> NoDup b.
Proof.
  induction a as [|h t IH]; simpl; intros H; auto.
  inversion H; subst. auto.
Qed.

Lemma NoDup_concat_In {A} (l : list (list A)) x : NoDup (concat l) -> In x l -> NoDup x.
Proof.
  induction l as [|h t IH]; simpl; [intros _ []|].
  intros Hnd [->|Hin].
  - eapply NoDup_app_left; eauto.
  - apply IH; auto. eapply NoDup_app_right; eauto.
Qed.

Lemma do_cancel_group_eq s g :
  do_op s (OpCancelGroup g) =
  match glookup g (groups s) with
  | None => set_res (know s g) (RErr ErrGroupNotFound)
  | Some ids => cancel_group_body (set_groups (know s g) (gremove g (groups s))) g ids
  end.
Proof. unfold do_op. rewrite groups_know. reflexivity. Qed.

Lemma know_fields s g :
  mtasks (know s g) = mtasks s /\ ptasks (know s g) = ptasks s /\ gmeta (know s g) = gmeta s /\
  pf (know s g) = pf s.
Proof. unfold know. destruct (existsb _ _); repeat split. Qed.

Theorem C07_op_holds : forall s g, WF s -> Extra_C s -> res s = RNone -> C07_op s g.
Proof.
  intros s g W XC Hres. constructor.
  - (* unknown *)
    intros Hl. rewrite do_cancel_group_eq, Hl. split; [reflexivity|].
    apply pool_same_set_res, pool_same_know.
  - (* known *)
    intros ids Hl. cbv zeta. rewrite do_cancel_group_eq, Hl.
    destruct (know_fields s g) as (Km & Kp & Kg & Kf).
    set (s2 := set_groups (know s g) (gremove g (groups s))).
    assert (Hm2 : mtasks s2 = mtasks s) by exact Km.
    assert (Hp2 : ptasks s2 = ptasks s) by exact Kp.
    assert (Hg2 : gmeta s2 = gmeta s) by exact Kg.
    assert (Hf2 : pf s2 = (res s, gremove g (groups s), t_running s, t_cancelled s,
                           t_ended s, sem_value s)).
    { unfold pf in *. cbn. injection Kf as -> _ -> -> -> ->. reflexivity. }
    assert (Hr2 : t_running s2 = t_running s) by (injection Hf2; auto).
    clearbody s2.
    pose proof (pf_cancel_group_body s2 g ids) as Hpf. rewrite Hf2 in Hpf.
    unfold pf in Hpf. injection Hpf as E1 E2 E3 E4 E5 E6.
    assert (Hnd : NoDup ids).
    { apply (NoDup_concat_In (map snd (groups s))); [apply (IGr_disj _ (wfgr _ W))|].
      change ids with (snd (g, ids)). apply in_map. apply glookup_In; auto. }
    split; [congruence|]. split.
    { rewrite E2. apply glookup_gremove_eq. apply (IGr_keys _ (wfgr _ W)). }
    split.
    { intros h Hne. rewrite E2. apply glookup_gremove_neq; auto. }
    split.
    { (* dead *)
      intros m y Hy Hgy.
      assert (Hlt : m < length (mtasks s2)).
      { apply get_m_lt in Hy. rewrite len_cancel_group_body in Hy. exact Hy. }
      destruct (lt_get_m _ _ Hlt) as [y0 Hy0].
      destruct (cancel_group_body_rec s2 g ids m y0 Hy0) as (y' & Hy' & Hg & _ & Hd).
      rewrite Hy in Hy'. injection Hy' as <-. rewrite Hd.
      destruct (gname_eqb_spec g (m_group y0)); auto. congruence. }
    split.
    { (* other tasks *)
      intros t Hn. rewrite cancel_group_body_eq, get_p_fold_cancel_running by auto.
      unfold get_p. change (ptasks (mark_dead ?a g)) with (ptasks a).
      rewrite ptasks_cancel_group_metas, Hp2. reflexivity. }
    split.
    { (* other spawners *)
      intros m y Hy Hgy. rewrite cancel_group_body_eq.
      unfold get_m. rewrite (fold_frame cancel_running mtasks mtasks_cancel_running).
      assert (Hy1 : get_m (cancel_group_metas s2 g) m = Some y).
      { rewrite get_m_cancel_group_metas.
        - unfold get_m. rewrite Hm2. exact Hy.
        - intros ms Hms Hin. rewrite Hg2 in Hms. apply Hgy. apply (XC g ms m y Hms Hin Hy). }
      unfold mark_dead; cbn. rewrite nth_error_map. unfold get_m in Hy1. rewrite Hy1. cbn.
      destruct (gname_eqb_spec g (m_group y)); [congruence|reflexivity]. }
    split.
    { (* requests *)
      intros t x Hin Hr Hx Hf. rewrite cancel_group_body_eq.
      apply fold_cancel_running_req; auto.
      - change (t_running (mark_dead ?a g)) with (t_running a).
        pose proof (pf_cancel_group_metas s2 g) as Hq. unfold pf in Hq.
        injection Hq as _ _ -> _ _ _. rewrite Hr2. auto.
      - unfold get_p. change (ptasks (mark_dead ?a g)) with (ptasks a).
        rewrite ptasks_cancel_group_metas, Hp2. exact Hx. }
    auto.
Qed.
