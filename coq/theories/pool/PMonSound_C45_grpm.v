(** [GI] along the run of a spawner. *)
From TP Require Import PInv_Q PMonSound_C45_sc PMonSound_C45_grp.
Set Implicit Arguments. Unset Strict Implicit.

Definition GC (K : Prop) (s : state) : Prop := GI K s /\ num_started s = length (ptasks s).

Definition ceq5 (s s1 : state) : Prop :=
  ptasks s1 = ptasks s /\ mtasks s1 = mtasks s /\ groups s1 = groups s /\
  num_started s1 = num_started s /\ start_calls s1 = start_calls s.

Lemma F2_psim2_refl l : Forall2 psim2 l l.
Proof. apply Forall2_refl. intros x. split; auto. Qed.
Lemma F2_gsim_refl l : Forall2 gsim l l.
Proof. apply Forall2_refl. intros x. split; auto. Qed.

Lemma GC_ceq K s s1 : ceq5 s s1 -> GC K s -> GC K s1.
Proof.
  intros (A & B & C & D & E) [G L]. split; [|congruence].
  eapply GI_quiet; [exact G| | | |]; rewrite ?A, ?B; auto using F2_psim2_refl, F2_gsim_refl. lia.
Qed.

Definition pend2 (s : state) (m : nat) (x : mtask) : Prop :=
  exists x0, get_m s m = Some x0 /\ m_group x = m_group x0 /\ m_dead x = m_dead x0.

Lemma GC_upd K s s' m x' :
  GC K s -> pend2 s m x' -> ptasks s' = ptasks s -> mtasks s' = upd (mtasks s) m x' ->
  groups s' = groups s -> num_started s' = num_started s -> start_calls s' = start_calls s ->
  GC K s' /\ get_m s' m = Some x'.
Proof.
  intros [G L] (x0 & Hx0 & Hg & Hd) Ep Em Eg En Es. split; [split; [|congruence]|].
  - eapply GI_quiet; [exact G| | | |]; rewrite ?Ep, ?Em; auto using F2_psim2_refl; [|lia].
    apply Forall2_upd_self; [intros; split; auto|].
    unfold get_m in Hx0. intros z Hz. replace z with x0 by congruence. split; auto.
  - unfold get_m in *. rewrite Em. eapply nth_error_upd_same; eauto.
Qed.

Lemma GC_upd1 K s s' m x' :
  GC K s -> pend2 s m x' -> ptasks s' = ptasks s -> mtasks s' = upd (mtasks s) m x' ->
  groups s' = groups s -> num_started s' = num_started s -> start_calls s' = start_calls s ->
  GC K s'.
Proof. intros. eapply GC_upd; eauto. Qed.

Lemma pend2_self s m x : get_m s m = Some x -> pend2 s m x.
Proof. intros H. exists x. auto. Qed.

Lemma pend2_ceq s s1 m x : mtasks s1 = mtasks s -> pend2 s m x -> pend2 s1 m x.
Proof. intros E (x0 & A & B). exists x0. unfold get_m in *. rewrite E. auto. Qed.

Lemma pend2_chg s m x x' :
  pend2 s m x -> m_group x' = m_group x -> m_dead x' = m_dead x -> pend2 s m x'.
Proof. intros (x0 & A & B & C) Hg Hd. exists x0. split; auto. split; congruence. Qed.

Lemma C_finish K s m x e : GC K s -> pend2 s m x -> GC K (finish_m s m x e).
Proof.
  intros H Hp. destruct (finish_m_fields s m x e) as [Em (E1 & E2 & E3 & _)].
  eapply (@GC_upd1 K s _ m (fin_x x e));
    [exact H|eapply pend2_chg; eauto|exact E1|exact Em|exact E2|exact E3|apply sc_finish_m].
Qed.

Lemma C_suspend K s m x pc : GC K s -> pend2 s m x -> GC K (suspend_m s m x pc).
Proof.
  intros H Hp. destruct (suspend_m_fields s m x pc) as [Em (E1 & E2 & E3 & _)].
  eapply (@GC_upd1 K s _ m (susp_x x pc));
    [exact H|eapply pend2_chg; eauto; unfold susp_x; destruct (m_mc x); reflexivity
    |exact E1|exact Em|exact E2|exact E3|apply sc_suspend_m].
Qed.

Lemma C_to_iter K s m : GC K s -> GC K (to_iter s m).
Proof.
  intros H. destruct (get_m s m) as [x|] eqn:Hx.
  - destruct (to_iter_fields Hx) as [Em (E1 & E2 & E3 & _)].
    eapply (@GC_upd1 K s _ m (set_m_pc x MAtIter));
      [exact H|eapply pend2_chg; [apply pend2_self; eauto| |]; reflexivity
      |exact E1|exact Em|exact E2|exact E3|apply sc_to_iter].
  - unfold to_iter. rewrite Hx. exact H.
Qed.

Lemma C_register K s m x :
  GC K s -> pend2 s m x -> m_dead x = false ->
  GC K (register s m x) /\ get_m (register s m x) m = Some (reg_x x).
Proof.
  intros [G L] (x0 & Hx0 & Hg & Hd) Hund.
  destruct (register_fields s m x) as (R1 & R2 & R3 & R4 & _).
  split; [split|].
  - eapply GI_register with (s := s) (m := m) (x0 := x0) (x := x); eauto; try congruence.
    apply sc_register.
  - rewrite R4, R1, app_length. simpl. lia.
  - unfold get_m in *. rewrite R2. eapply nth_error_upd_same; eauto.
Qed.

Lemma C_try_start K s m x :
  GC K s -> pend2 s m x -> m_dead x = false ->
  GC K (fst (try_start s m x)) /\
  (snd (try_start s m x) = true -> get_m (fst (try_start s m x)) m = Some (reg_x x)).
Proof.
  intros H Hp Hd. unfold try_start. destruct (closed s); [|destruct (sem_locked s)]; cbn [fst snd].
  - split; [apply C_finish; auto|discriminate].
  - split; [|discriminate]. apply C_suspend.
    + eapply GC_ceq; [|exact H]. unfold ceq5. cbn. auto.
    + eapply pend2_ceq; [|exact Hp]. reflexivity.
  - assert (H1 : GC K (set_sem_value s (ninf_pred (sem_value s))))
      by (eapply GC_ceq; [|exact H]; unfold ceq5; cbn; auto).
    assert (Hp1 : pend2 (set_sem_value s (ninf_pred (sem_value s))) m x)
      by (eapply pend2_ceq; [|exact Hp]; reflexivity).
    destruct (C_register H1 Hp1 Hd) as [A B]. split; auto.
Qed.

Lemma C_apply_loop K m rem : forall s,
  GC K s -> (forall x, get_m s m = Some x -> m_dead x = false) -> GC K (apply_loop rem s m).
Proof.
  induction rem as [|r IH]; intros s H Hund; simpl;
    destruct (get_m s m) as [x|] eqn:Hx; auto.
  - apply C_finish; auto. apply pend2_self; auto.
  - destruct (nth (m_idx x) (m_bad x) false).
    + set (x' := set_m_idx x (S (m_idx x))).
      destruct (@GC_upd K s (put_m s m x') m x' H) as [A B]; try reflexivity.
      { eapply pend2_chg; [apply pend2_self; eauto| |]; reflexivity. }
      apply IH; auto. intros y Hy. rewrite B in Hy. inversion Hy; subst y. cbn. eauto.
    + destruct (@C_try_start K s m x H (pend2_self Hx) (Hund _ eq_refl)) as [A B].
      destruct (try_start s m x) as [s' cont]. cbn [fst snd] in *.
      destruct cont; auto. apply IH; auto.
      intros y Hy. rewrite (B eq_refl) in Hy. inversion Hy; subst y. cbn. eauto.
Qed.

Lemma C_spawn_next K s m :
  GC K s -> (forall x, get_m s m = Some x -> m_dead x = false) -> GC K (spawn_next s m).
Proof.
  intros H Hund. unfold spawn_next. destruct (get_m s m) as [x|] eqn:Hx; auto.
  destruct (m_kind x); [apply C_apply_loop|apply C_to_iter|apply C_apply_loop]; auto;
    intros y Hy; apply Hund; congruence.
Qed.

Lemma C_start_then_next K s m x :
  GC K s -> pend2 s m x -> m_dead x = false -> GC K (start_then_next s m x).
Proof.
  intros H Hp Hd. destruct (@C_try_start K s m x H Hp Hd) as [A B].
  unfold start_then_next. destruct (try_start s m x) as [s' cont]. cbn [fst snd] in *.
  destruct cont; auto. apply C_spawn_next; auto.
  intros y Hy. rewrite (B eq_refl) in Hy. inversion Hy; subst y. cbn. exact Hd.
Qed.

Lemma C_continue_m K s m :
  GC K s -> (forall x, get_m s m = Some x -> m_pc x = MAtIter -> m_dead x = false) ->
  GC K (continue_m s m).
Proof.
  intros H Hund. unfold continue_m. destruct (get_m s m) as [x|] eqn:Hx; auto.
  destruct (m_pc x) eqn:Hpc; auto.
  pose proof (Hund _ eq_refl Hpc) as Hd. pose proof (pend2_self Hx) as Hp.
  destruct (nth_error (m_els x) (m_idx x)) as [e|]; [|apply C_finish; auto].
  destruct (e_bad e).
  - set (x' := set_m_idx x (S (m_idx x))).
    destruct (@GC_upd K s (put_m s m x') m x' H) as [A B]; try reflexivity.
    { eapply pend2_chg; [exact Hp| |]; reflexivity. }
    apply C_to_iter; auto.
  - destruct (m_mapval x); [apply C_suspend; auto|].
    apply C_start_then_next; auto.
Qed.

Lemma C_wake_next K s : GC K s -> GC K (wake_next s).
Proof.
  intros H. unfold wake_next. destruct (first_pending s (sem_waiters s)) as [k|]; auto.
  destruct (get_m s k) as [y|] eqn:Hy; auto.
  eapply GC_ceq with (s := put_m (set_sem_value s (ninf_pred (sem_value s))) k (set_m_fw y (Some FOk))).
  - unfold ceq5. autorewrite with fr. auto.
  - eapply (@GC_upd1 K s _ k (set_m_fw y (Some FOk))); try reflexivity; auto.
    eapply pend2_chg; [apply pend2_self; eauto| |]; reflexivity.
Qed.

Lemma pend2_wake_next s m x : pend2 s m x -> pend2 (wake_next s) m x.
Proof.
  intros (x0 & Hx0 & Hg & Hd). unfold wake_next.
  destruct (first_pending s (sem_waiters s)) as [k|]; [|exists x0; auto].
  destruct (get_m s k) as [y|] eqn:Hy; [|exists x0; auto].
  unfold pend2, get_m. rewrite sched_mtasks. unfold put_m. cbn.
  destruct (Nat.eq_dec k m) as [->|Ne].
  - rewrite (nth_error_upd_same _ Hy). eexists. split; [reflexivity|].
    unfold get_m in *. replace x0 with y in * by congruence. cbn. auto.
  - rewrite nth_error_upd_neq by auto. exists x0. auto.
Qed.

Lemma C_sem_release K s : GC K s -> GC K (sem_release s).
Proof.
  intros H. unfold sem_release. apply C_wake_next. eapply GC_ceq; [|exact H].
  unfold ceq5. cbn. auto.
Qed.

Lemma pend2_sem_release s m x : pend2 s m x -> pend2 (sem_release s) m x.
Proof.
  intros H. unfold sem_release. apply pend2_wake_next. eapply pend2_ceq; [|exact H]. reflexivity.
Qed.

Lemma C_run_m K s m :
  GC K s ->
  (forall x0, get_m s m = Some x0 ->
     m_pc x0 = MNotStarted \/ m_pc x0 = MWaitPool \/ m_pc x0 = MWaitMap ->
     task_input (m_mc x0) (m_fw x0) = InOk -> m_dead x0 = false) ->
  GC K (run_m s m).
Proof.
  intros H Hund. destruct (get_m s m) as [x0|] eqn:Hx; [|unfold run_m; rewrite Hx; exact H].
  rewrite (run_m_eq Hx). cbv zeta.
  pose proof (pend2_self Hx) as Hp0.
  assert (Hp : pend2 s m (clr x0)) by (eapply pend2_chg; [exact Hp0| |]; reflexivity).
  destruct (m_pc x0) eqn:Hpc; auto.
  - destruct (task_input (m_mc x0) (m_fw x0)) eqn:Hin; try (apply C_finish; auto).
    set (x1 := set_m_pc (clr x0) MLoopHead).
    destruct (@GC_upd K s (put_m s m x1) m x1 H) as [A B]; try reflexivity.
    { eapply pend2_chg; [exact Hp| |]; reflexivity. }
    apply C_spawn_next; auto. intros y Hy. rewrite B in Hy. inversion Hy; subst y. cbn.
    apply (Hund _ eq_refl ltac:(rewrite Hpc; auto) Hin).
  - destruct (task_input (m_mc x0) (m_fw x0)) eqn:Hin.
    + apply C_start_then_next; auto. cbn. apply (Hund _ eq_refl ltac:(rewrite Hpc; auto) Hin).
    + apply C_finish; auto. destruct (match m_fw x0 with Some FCancelled => true | _ => false end); auto.
    + apply C_finish; auto. destruct (match m_fw x0 with Some FCancelled => true | _ => false end); auto.
  - set (sw := set_sem_waiters s (remove1 m (sem_waiters s))).
    assert (Hw : GC K sw) by (eapply GC_ceq; [|exact H]; unfold ceq5; cbn; auto).
    assert (Hpw : pend2 sw m (clr x0)) by (eapply pend2_ceq; [|exact Hp]; reflexivity).
    destruct (@GC_upd K sw (put_m sw m (clr x0)) m (clr x0) Hw Hpw) as [A B]; try reflexivity.
    set (s1 := put_m sw m (clr x0)) in *.
    pose proof (pend2_self B) as Hp1.
    destruct (task_input (m_mc x0) (m_fw x0)) eqn:Hin.
    + assert (Hd : m_dead (clr x0) = false) by (cbn; apply (Hund _ eq_refl ltac:(rewrite Hpc; auto) Hin)).
      set (s2 := if ninf_pos (sem_value s1) then wake_next s1 else s1).
      assert (H2 : GC K s2) by (unfold s2; destruct (ninf_pos _); auto using C_wake_next).
      assert (Hp2 : pend2 s2 m (clr x0)) by (unfold s2; destruct (ninf_pos _); auto using pend2_wake_next).
      destruct (C_register H2 Hp2 Hd) as [C D].
      apply C_spawn_next; auto. intros y Hy. rewrite D in Hy. inversion Hy; subst y. exact Hd.
    + apply C_finish.
      * destruct (match m_fw x0 with Some FCancelled => true | _ => false end); auto using C_sem_release.
      * assert (Hq : pend2 (if match m_fw x0 with Some FCancelled => true | _ => false end
                            then s1 else sem_release s1) m (clr x0))
          by (destruct (match m_fw x0 with Some FCancelled => true | _ => false end);
              auto using pend2_sem_release).
        destruct (m_holds (clr x0)); auto.
    + apply C_finish.
      * destruct (match m_fw x0 with Some FCancelled => true | _ => false end); auto using C_sem_release.
      * assert (Hq : pend2 (if match m_fw x0 with Some FCancelled => true | _ => false end
                            then s1 else sem_release s1) m (clr x0))
          by (destruct (match m_fw x0 with Some FCancelled => true | _ => false end);
              auto using pend2_sem_release).
        destruct (m_holds (clr x0)); auto.
Qed.
