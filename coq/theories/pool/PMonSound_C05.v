(** Monitor soundness: the executable monitor of PMon.v never reports a violated clause of
    property C05 on the model's own observation stream (clean runs in which no request was
    cancelled from inside its own argument iterator). *)
From TP Require Import PInv PMon PRun PMonSound_C45_trk PMonSound_C45.

Theorem mon_C05_sound : forall c tr,
  clean (run c tr) -> taint_iter (run c tr) = false -> PMon.ok_C05 c (observe c tr) = true.
Proof.
  intros c tr Hc Ht. unfold ok_C05, ok_prop, observe.
  rewrite (mon_run_sound45 c 5 (or_intror eq_refl) tr (init c) (trk_init c) 0); auto.
  apply RR45_init.
Qed.
