(** View-level relation between the registries before and after a step. *)
From TP Require Import PInv PInv_P_base PInv_P_view PInv_P_inv PInv_P_tok PInv_P_tok2 PSpecStep.

Definition loc (v : pv) (t : nat) : tclass :=
  if mem t (vR v) then ClRunning
  else if mem t (vC v) then ClCancelled
  else if mem t (vE v) then ClEnded
  else ClUnknown.

Lemma classify_loc s t : classify s t = loc (pview s) t.
Proof. reflexivity. Qed.

Definition csucc (ns : nat) (t : nat) (a b : tclass) : Prop :=
  match a, b with
  | ClRunning, (ClRunning | ClCancelled | ClEnded) => True
  | ClCancelled, (ClCancelled | ClEnded) => True
  | ClEnded, (ClEnded | ClUnknown) => True
  | ClUnknown, ClUnknown => True
  | ClUnknown, ClRunning => ns <= t
  | _, _ => False
  end.

Lemma class_succ_csucc s t a b : class_succ s t a b <-> csucc (num_started s) t a b.
Proof. destruct a, b; reflexivity. Qed.

Lemma csucc_refl ns t a : csucc ns t a a.
Proof. destruct a; exact I. Qed.

Definition VRel (v v' : pv) : Prop :=
  forall t, csucc (vns v) t (loc v t) (loc v' t) /\
            (In t (vregs v) -> ~ In t (vregs v') ->
             exists x, vget v t = Some x /\ p_pc x = PDone).

Lemma mem_ext t l l' : (In t l' <-> In t l) -> mem t l' = mem t l.
Proof.
  intros H. destruct (mem t l) eqn:E.
  - apply mem_In. apply H. now apply mem_In.
  - apply mem_false_In. intros H1. apply H in H1. apply mem_In in H1. congruence.
Qed.

Lemma loc_ext v v' t :
  (In t (vR v') <-> In t (vR v)) -> (In t (vC v') <-> In t (vC v)) ->
  (In t (vE v') <-> In t (vE v)) -> loc v' t = loc v t.
Proof. intros a b c. unfold loc. now rewrite (mem_ext _ _ _ a), (mem_ext _ _ _ b), (mem_ext _ _ _ c). Qed.

Lemma VRel_same v v' : vR v' = vR v -> vC v' = vC v -> vE v' = vE v -> VRel v v'.
Proof.
  intros a b c t. split.
  - unfold loc. rewrite a, b, c. apply csucc_refl.
  - unfold vregs. rewrite a, b, c. tauto.
Qed.

Lemma VRel_refl v : VRel v v.
Proof. now apply VRel_same. Qed.

Lemma VRel_pt v v' t :
  (forall u, u <> t -> (In u (vR v') <-> In u (vR v)) /\ (In u (vC v') <-> In u (vC v)) /\
                       (In u (vE v') <-> In u (vE v))) ->
  csucc (vns v) t (loc v t) (loc v' t) -> (In t (vregs v) -> In t (vregs v')) ->
  VRel v v'.
Proof.
  intros Ho Ht Hr u. destruct (Nat.eq_dec u t) as [->|Hne].
  - split; auto. intros a b. tauto.
  - destruct (Ho u Hne) as (a & b & c). split.
    + rewrite (loc_ext v v' u a b c). apply csucc_refl.
    + unfold vregs. rewrite !in_app_iff. tauto.
Qed.

Lemma loc_R v t : In t (vR v) -> loc v t = ClRunning.
Proof. intros H. unfold loc. apply mem_In in H. now rewrite H. Qed.

Lemma loc_C v t : ~ In t (vR v) -> In t (vC v) -> loc v t = ClCancelled.
Proof.
  intros H1 H2. unfold loc. apply mem_false_In in H1. apply mem_In in H2. now rewrite H1, H2.
Qed.

Lemma loc_E v t : ~ In t (vR v) -> ~ In t (vC v) -> In t (vE v) -> loc v t = ClEnded.
Proof.
  intros H1 H2 H3. unfold loc. apply mem_false_In in H1, H2. apply mem_In in H3.
  now rewrite H1, H2, H3.
Qed.

Lemma loc_U v t : ~ In t (vR v) -> ~ In t (vC v) -> ~ In t (vE v) -> loc v t = ClUnknown.
Proof.
  intros H1 H2 H3. unfold loc. apply mem_false_In in H1, H2, H3. now rewrite H1, H2, H3.
Qed.

Lemma loc_vput v t x u : loc (vput v t x) u = loc v u.
Proof. reflexivity. Qed.

Lemma VRel_vput v v' t x : VRel v v' -> VRel v (vput v' t x).
Proof. intros H u. exact (H u). Qed.

(** moves *)
Lemma moveRE_other v t u : I1v v -> u <> t ->
  (In u (vR (moveRE v t)) <-> In u (vR v)) /\ (In u (vC (moveRE v t)) <-> In u (vC v)) /\
  (In u (vE (moveRE v t)) <-> In u (vE v)).
Proof.
  intros H Hne. destruct (I1v_parts _ H) as (nr & _). cbn.
  rewrite In_remove1_iff, In_dict_add by auto. tauto.
Qed.

Lemma moveCE_other v t u : I1v v -> u <> t ->
  (In u (vR (moveCE v t)) <-> In u (vR v)) /\ (In u (vC (moveCE v t)) <-> In u (vC v)) /\
  (In u (vE (moveCE v t)) <-> In u (vE v)).
Proof.
  intros H Hne. destruct (I1v_parts _ H) as (_ & nc & _). cbn.
  rewrite In_remove1_iff, In_dict_add by auto. tauto.
Qed.

Lemma moveRC_other v t u : I1v v -> u <> t ->
  (In u (vR (moveRC v t)) <-> In u (vR v)) /\ (In u (vC (moveRC v t)) <-> In u (vC v)) /\
  (In u (vE (moveRC v t)) <-> In u (vE v)).
Proof.
  intros H Hne. destruct (I1v_parts _ H) as (nr & _). cbn.
  rewrite In_remove1_iff, In_dict_add by auto. tauto.
Qed.

Lemma loc_moveRE v t : I1v v -> In t (vR v) -> loc (moveRE v t) t = ClEnded.
Proof. intros H Hi. destruct (moveRE_mem _ _ H Hi) as (a & b & c). now apply loc_E. Qed.

Lemma loc_moveCE v t : I1v v -> In t (vC v) -> loc (moveCE v t) t = ClEnded.
Proof. intros H Hi. destruct (moveCE_mem _ _ H Hi) as (a & b & c). now apply loc_E. Qed.

Lemma loc_moveRC v t : I1v v -> In t (vR v) -> loc (moveRC v t) t = ClCancelled.
Proof. intros H Hi. destruct (moveRC_mem _ _ H Hi) as (a & b & c). now apply loc_C. Qed.

Lemma VRel_enter_end v t x : I1v v -> VRel v (enter_end_v v t x).
Proof.
  intros H. unfold enter_end_v.
  destruct (mem t (vR v)) eqn:E1; [|destruct (mem t (vC v)) eqn:E2].
  - apply mem_In in E1. change (VRel v (vput (moveRE v t) t (end_x x))). apply VRel_vput.
    apply VRel_pt with (t := t).
    + intros u Hne. now apply moveRE_other.
    + rewrite (loc_R v t E1), loc_moveRE by auto. exact I.
    + intros _. destruct (moveRE_mem _ _ H E1) as (_ & _ & c). unfold vregs.
      rewrite !in_app_iff. auto.
  - apply mem_In in E2. change (VRel v (vput (moveCE v t) t (end_x x))). apply VRel_vput.
    apply VRel_pt with (t := t).
    + intros u Hne. now apply moveCE_other.
    + rewrite loc_moveCE by auto. unfold loc at 1. rewrite E1. apply mem_In in E2. rewrite E2.
      exact I.
    + intros _. destruct (moveCE_mem _ _ H E2) as (_ & _ & c). unfold vregs.
      rewrite !in_app_iff. auto.
  - apply VRel_vput, VRel_refl.
Qed.

Lemma VRel_enter_cancel v t x : I1v v -> VRel v (enter_cancel_v v t x).
Proof.
  intros H. unfold enter_cancel_v.
  destruct (mem t (vR v)) eqn:E1; [|now apply VRel_enter_end].
  apply mem_In in E1.
  change (mkpv (remove1 t (vR v)) (dict_add (vC v) t) (vE v) (vns v) (vpts v) (vnf v) (vts v)
               (vds v) (vtu v)) with (moveRC v t). cbv zeta.
  pose proof (I1v_moveRC _ _ H E1) as H1.
  destruct (moveRC_mem _ _ H E1) as (a & b & c).
  assert (Hcb : VRel v (vput (moveRC v t) t (set_p_pc (set_p_nccb x (S (p_nccb x))) PUCancelCb))).
  { apply VRel_vput. apply VRel_pt with (t := t).
    - intros u Hne. now apply moveRC_other.
    - rewrite (loc_R v t E1), loc_moveRC by auto. exact I.
    - intros _. unfold vregs. rewrite !in_app_iff. auto. }
  destruct (p_ccb x); auto.
  (* CbNone: straight on to the end *)
  unfold enter_end_v. apply mem_false_In in a. apply mem_In in b. rewrite a, b.
  apply mem_In in b.
  change (VRel v (vput (moveCE (moveRC v t) t) t (end_x x))). apply VRel_vput.
  apply VRel_pt with (t := t).
  - intros u Hne. destruct (moveRC_other v t u H Hne) as (p & q & r).
    destruct (moveCE_other (moveRC v t) t u H1 Hne) as (p' & q' & r'). rewrite p', q', r'. tauto.
  - rewrite (loc_R v t E1), loc_moveCE by auto. exact I.
  - intros _. destruct (moveCE_mem _ _ H1 b) as (_ & _ & c'). unfold vregs.
    rewrite !in_app_iff. auto.
Qed.

Lemma VRel_cancel_p v cur t : VRel v (cancel_p_v v cur t).
Proof.
  apply VRel_same; unfold cancel_p_v; repeat (first [reflexivity | dmatch]).
Qed.

(** after_g2 *)
Lemma done_nowhere v u x :
  TOKv v -> vget v u = Some x -> p_final x <> None ->
  p_pc x = PDone /\ ~ In u (vR v) /\ ~ In u (vC v).
Proof.
  intros Hk Hx Hf. destruct (Hk u x Hx) as (r & mi & _).
  assert (Hpc : p_pc x = PDone).
  { destruct (ppc_eq_dec (p_pc x) PDone); auto. exfalso. apply Hf. apply mi. auto. }
  rewrite Hpc in r. destruct r as (r1 & r2 & _). cbn in r1, r2. split; auto. split.
  - intros H. apply r1 in H. discriminate.
  - intros H. apply r2 in H. discriminate.
Qed.

Lemma VRel_flush v snap nf :
  TOKv v -> (forall t, In t snap -> exists x, vget v t = Some x /\ p_final x <> None) ->
  VRel v (mkpv (vR v) (filter (not_in snap) (vC v)) (filter (not_in snap) (vE v)) (vns v) (vpts v)
               nf (vts v) (vds v) (vtu v)).
Proof.
  intros Hk Hd t. set (v' := mkpv _ _ _ _ _ _ _ _ _).
  destruct (mem t snap) eqn:Em.
  - apply mem_In in Em. destruct (Hd t Em) as (x & Hx & Hf).
    destruct (done_nowhere v t x Hk Hx Hf) as (Hpc & nr & nc).
    split; [|eauto].
    assert (Hu : loc v' t = ClUnknown).
    { apply loc_U; subst v'; cbn; auto; rewrite filter_In; unfold not_in;
        apply mem_In in Em; rewrite Em; cbn; intros [_ ?]; discriminate. }
    rewrite Hu. unfold loc. apply mem_false_In in nr, nc. rewrite nr, nc.
    destruct (mem t (vE v)); exact I.
  - assert (Hf : forall l, In t (filter (not_in snap) l) <-> In t l).
    { intros l. rewrite filter_In. unfold not_in. rewrite Em. cbn. tauto. }
    split.
    + rewrite (loc_ext v v' t); [apply csucc_refl|subst v'; cbn; tauto|apply Hf|apply Hf].
    + subst v'. unfold vregs. cbn. rewrite !in_app_iff, !Hf. tauto.
Qed.

Lemma VRel_gac v snap nf :
  TOKv v -> (forall t, In t snap -> exists x, vget v t = Some x /\ p_final x <> None) ->
  (forall t, In t (vregs v) -> In t snap) ->
  VRel v (mkpv [] [] [] (vns v) (vpts v) nf (vts v) (vds v) (vtu v)).
Proof.
  intros Hk Hd Hg t. set (v' := mkpv _ _ _ _ _ _ _ _ _).
  assert (Hu : loc v' t = ClUnknown) by reflexivity. rewrite Hu.
  destruct (in_dec Nat.eq_dec t (vregs v)) as [Hi|Hn].
  - destruct (Hd t (Hg t Hi)) as (x & Hx & Hf).
    destruct (done_nowhere v t x Hk Hx Hf) as (Hpc & nr & nc).
    split; [|eauto].
    unfold loc. apply mem_false_In in nr, nc. rewrite nr, nc. destruct (mem t (vE v)); exact I.
  - split; [|tauto]. unfold vregs in Hn. rewrite !in_app_iff in Hn.
    rewrite loc_U by tauto. exact I.
Qed.

Lemma VRel_after_g2 v k snap outer :
  TOKv v -> ag2pre v k snap outer -> VRel v (after_g2_v v k snap outer).
Proof.
  intros Hk Hp. unfold after_g2_v.
  destruct outer as [| |e|]; try apply VRel_refl.
  - destruct Hp as (Hd & Hg); try congruence. destruct k; try apply VRel_refl.
    + now apply VRel_flush.
    + apply VRel_gac with (snap := snap); auto. eapply Hg; eauto.
  - destruct Hp as (Hd & Hg); try congruence. destruct k; try apply VRel_refl.
    + now apply VRel_flush.
    + apply VRel_gac with (snap := snap); auto. eapply Hg; eauto.
Qed.

Lemma VRel_core v v' : VRel v (vcore v') <-> VRel v v'.
Proof. reflexivity. Qed.
