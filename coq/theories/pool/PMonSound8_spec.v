(** Monitor soundness, C08 — what the state invariants say at the instants the monitor checks a
    clause of property 8. *)
From TP Require Import PInv_P PSpec PSpecStep PMon PRun PWF PStep_D_base PStep_D PProps_C08rc.
From TP Require Import PInv_Q PMonSound_trk PMonSound_C45_trk PMonSound_C45_ev PMonSound_C45_pull
  PMonSound_C45_grp PMonSound_C45_gistep PMonSound_C45_mir PMonSound_C45_prs PMonSound_C45
  PMonSound_C13_trk PMonSound8_trk PMonSound8_mod.

(** a spawn request is rejected by a closed pool *)
Lemma res_know8 s g : res (know s g) = res s.
Proof. unfold know. destruct (existsb _ _); reflexivity. Qed.

Lemma closed_know8 s g : closed (know s g) = closed s.
Proof. unfold know. destruct (existsb _ _); reflexivity. Qed.

Lemma check_start_closed8 s noncoro : closed s = true -> check_start s noncoro <> None.
Proof. intros H. unfold check_start. destruct noncoro; [discriminate|]. rewrite H. discriminate. Qed.

Lemma spawn_closed_rejected s l n :
  closed s = true -> spawn_lab l = true -> res (step s l) <> RName n.
Proof.
  intros Hc Hl. unfold step. fold (pre s). destruct (negb (enabled (pre s) l)); [discriminate|].
  assert (Hc' : closed (pre s) = true) by exact Hc.
  destruct l as [h| |o]; try discriminate. destruct o; try discriminate; unfold do_op.
  - set (s1 := match g with Some g0 => know (pre s) g0 | None => pre s end).
    assert (H1 : closed s1 = true) by (unfold s1; destruct g; [rewrite closed_know8|]; exact Hc').
    pose proof (check_start_closed8 s1 noncoro H1) as Hn.
    destruct (check_start s1 noncoro); [discriminate|congruence].
  - set (s1 := match g with Some g0 => know (pre s) g0 | None => pre s end).
    assert (H1 : closed s1 = true) by (unfold s1; destruct g; [rewrite closed_know8|]; exact Hc').
    pose proof (check_start_closed8 s1 noncoro H1) as Hn.
    destruct (check_start s1 noncoro); [discriminate|congruence].
  - pose proof (check_start_closed8 (pre s) false Hc') as Hn.
    destruct (check_start (pre s) false); [discriminate|congruence].
Qed.

(** until_closed() waiters are all released at a point where nothing is ready *)
Lemma until_released_model s d x :
  WFx s -> ready s = [] -> closed s = true -> get_d s d = Some x -> d_kind x = DUntilClosed ->
  d_final x <> None.
Proof.
  intros X Hr Hc Hx Hk. pose proof (x_wf _ X) as W. pose proof (x_d _ X) as (_ & HD & _).
  pose proof (C08_of_WF s W (x_d _ X)) as S8.
  apply (I5_dfinal _ (wf5 _ W) d x Hx).
  pose proof (I5_d _ (wf5 _ W) d x Hx) as Hrd. rewrite Hr in Hrd.
  destruct (d_pc x) eqn:Epc; auto; exfalso.
  - apply (proj2 Hrd). left. reflexivity.
  - apply (dk_g (HD d x Hx)); auto.
  - apply (dk_g (HD d x Hx)); auto.
  - apply (proj2 Hrd). right. split; [auto|].
    rewrite (c08_until_released _ S8 Hc d x Hx Hk Epc). discriminate.
Qed.

Lemma until_done_model s d x :
  WFx s -> get_d s d = Some x -> d_kind x = DUntilClosed -> d_final x <> None -> closed s = true.
Proof.
  intros X Hx Hk Hf. pose proof (x_wf _ X) as W.
  pose proof (C08_of_WF s W (x_d _ X)) as S8.
  apply (c08_until_not_early _ S8 d x Hx Hk). apply (I5_dfinal _ (wf5 _ W) d x Hx). exact Hf.
Qed.

Lemma gac_done_model s d x re :
  WFx s -> get_d s d = Some x -> d_kind x = DGatherClose re -> d_final x = Some OResult ->
  closed s = true /\ regs s = [].
Proof.
  intros X Hx Hk Hf. pose proof (x_wf _ X) as W.
  pose proof (C08_of_WF s W (x_d _ X)) as S8.
  pose proof (c08_gac_done _ S8 d x re Hx Hk Hf) as Hc. split; [exact Hc|].
  exact (c08_closed_empty _ S8 Hc).
Qed.

Lemma regs_nil s : regs s = [] -> t_running s = [] /\ t_cancelled s = [] /\ t_ended s = [].
Proof.
  unfold regs. intros H. apply app_eq_nil in H. destruct H as [H1 H2].
  apply app_eq_nil in H2. tauto.
Qed.

(** no worker is live once the registries are empty *)
Lemma no_live_model n V s : WFx s -> regs s = [] -> Inv5 n V s None -> v_live V = [].
Proof.
  intros X Hr (_ & H2 & _). pose proof (x_wf _ X) as W.
  destruct (v_live V) as [|u r] eqn:E; [reflexivity|exfalso].
  pose proof (proj1 (H2 u) (or_introl eq_refl)) as Hc.
  unfold cls_at5, cls_rec5 in Hc. destruct (get_p s u) as [x|] eqn:Hx; [|discriminate].
  simpl in Hc. injection Hc as Hc.
  assert (Hrun : running_pc (p_pc x) = true) by (destruct (p_pc x); simpl in *; congruence).
  apply (I2_run _ (wf2 _ W) u x Hx) in Hrun.
  destruct (regs_nil s Hr) as (R1 & _). rewrite R1 in Hrun. destruct Hrun.
Qed.

(** every request is complete when gather_and_close has returned normally *)
Lemma complete_model c tr d x0 re rs l en :
  let s := run c tr in
  clean s -> taint_iter s = false ->
  get_d s d = Some x0 -> d_kind x0 = DGatherClose re -> d_final x0 = Some OResult ->
  MIR rs s -> PRall rs s ->
  forallb (complete8 (obs_of s l en)) rs = true.
Proof.
  intros s Hc Ht Hx0 Hk0 Hf0 [HL HM] HP.
  pose proof (WFx_run c tr Hc) as X. pose proof (x_wf _ X) as W.
  pose proof (@GI_run c tr Hc Ht) as G.
  pose proof (C08_requests_complete_holds c tr d x0 re Hc Ht Hx0 Hk0 Hf0) as [_ Hall].
  cbv zeta in Hall. fold s in Hall, X, W, G.
  apply forallb_forall. intros x Hin. apply In_nth_error in Hin. destruct Hin as [r Hx].
  destruct (@get_m_ex s r) as [y Hy]; [rewrite <- HL; apply nth_error_Some; congruence|].
  destruct (HM _ _ _ Hx Hy) as (Ek & En & Eb & Ee & Ec & Eg & Ed).
  unfold complete8. destruct (negb (r_before_gac x)); [reflexivity|]. cbn [orb].
  destruct (r_dead x) eqn:Hdx; [reflexivity|]. cbn [orb].
  assert (Hdy : m_dead y = false)
    by (destruct (m_dead y) eqn:E; auto; specialize (Ed eq_refl); congruence).
  destruct (Hall r y Hy Hdy) as [Hfin Hcnt].
  assert (Hexp : PMon.expected_created x = ngood (m_bad y) (m_num y))
    by (unfold PMon.expected_created; rewrite Eb, En; reflexivity).
  rewrite Ek. destruct (m_kind y) eqn:Hky.
  - destruct (group_ids (obs_of s l en) (r_group x)) as [ids|] eqn:Hg; [|reflexivity].
    apply group_ids_obs in Hg. rewrite Eg in Hg.
    rewrite (group_size W G Hy Hdy Hg), Hexp, Hcnt. apply Nat.eqb_refl.
  - assert (Hmk : is_map y = true) by (unfold is_map; rewrite Hky; reflexivity).
    pose proof (HP r x y Hx Hy Hmk) as Hv. unfold PRv in Hv.
    assert (Hpc : m_pc y = MDone) by (apply (I5_mfinal _ (wf5 _ W) r y Hy); congruence).
    rewrite Hpc in Hv. destruct Hv as [_ Hv]. rewrite (Hv Hfin), Hcnt, Ee. apply Nat.eqb_refl.
  - destruct (group_ids (obs_of s l en) (r_group x)) as [ids|] eqn:Hg; [|reflexivity].
    apply group_ids_obs in Hg. rewrite Eg in Hg.
    rewrite (group_size W G Hy Hdy Hg), Hexp, Hcnt. apply Nat.eqb_refl.
Qed.
