(** Eventual completion — the potential [psi] under the moves of a spawner: neither [run_m] nor
    [continue_m] increases it.  Creating a task (worth 3) is paid by the iteration it belongs to.
    No invariant is needed (same device as for [mu]: a spawner suspended inside an iteration
    counts [3 + 3 * (Rm - 1)]). *)
From TP Require Import PInv.
From TP Require Export PLive_psi_p.

Unset Implicit Arguments.

Lemma psi_finish_m s m x e xs :
  get_m s m = Some xs -> psi (finish_m s m x e) + psi_m xs = psi s.
Proof.
  intros G. unfold finish_m. set (x' := set_m_final _ _).
  rewrite psi_set_ctl, psi_sched_cbs.
  pose proof (psi_put_m s m x' G) as H.
  assert (H0 : psi_m x' = 0) by reflexivity. lia.
Qed.

Lemma psi_suspend_m s m x pc xs :
  get_m s m = Some xs -> psi (suspend_m s m x pc) + psi_m xs = psi s + psi_mc pc (Rm x).
Proof.
  intros G. unfold suspend_m. destruct (m_mc x); rewrite psi_set_ctl.
  - rewrite psi_sched. set (x' := set_m_fw _ _).
    pose proof (psi_put_m s m x' G) as H.
    assert (H0 : psi_m x' = psi_mc pc (Rm x)) by reflexivity. lia.
  - set (x' := set_m_fw _ _).
    pose proof (psi_put_m s m x' G) as H.
    assert (H0 : psi_m x' = psi_mc pc (Rm x)) by reflexivity. lia.
Qed.

(** creating a task costs 3 and leaves the spawner at the loop head with one iteration less *)
Lemma psi_register s m x xs :
  get_m s m = Some xs ->
  psi (register s m x) + psi_m xs <= psi s + 3 + 3 * (Rm x - 1).
Proof.
  intros G. unfold register. cbv zeta.
  match goal with |- context [put_m (sched ?s0 ?h) m ?y] =>
    set (s1 := s0); set (x' := y) end.
  assert (G1 : get_m (sched s1 (HT (TP (num_started s)))) m = Some xs).
  { rewrite get_m_sched. exact G. }
  pose proof (psi_put_m _ m x' G1) as H1.
  rewrite psi_sched in H1.
  assert (H3 : psi s1 = psi s + 3).
  { unfold psi, s1. cbn. rewrite lsum_app. unfold psi_p. cbn. lia. }
  assert (H4 : psi_m x' = 3 * Rm (reg_x x)) by reflexivity.
  pose proof (Rm_reg x). lia.
Qed.

Lemma psi_to_iter s m x :
  get_m s m = Some x -> psi (to_iter s m) + psi_m x = psi s + 3 * Rm x.
Proof.
  intros G. unfold to_iter. rewrite G. rewrite psi_set_ctl, psi_emit.
  pose proof (psi_put_m s m (set_m_pc x MAtIter) G) as H.
  assert (psi_m (set_m_pc x MAtIter) = 3 * Rm x) by reflexivity. lia.
Qed.

Lemma psi_m_loophead x : m_pc x = MLoopHead -> psi_m x = 3 * Rm x.
Proof. intros H. unfold psi_m. rewrite H. reflexivity. Qed.

(** [for i in range(num)] *)
Lemma psi_apply_loop rem : forall s m x,
  get_m s m = Some x -> m_pc x = MLoopHead -> rem = m_num x - m_idx x ->
  psi (apply_loop rem s m) <= psi s.
Proof.
  induction rem as [|r IH]; intros s m x G Hpc Hrem; simpl; rewrite G.
  - pose proof (psi_finish_m s m x None x G). lia.
  - pose proof (psi_m_loophead x Hpc) as HP.
    pose proof (Rm_pos_num x r Hrem) as HS.
    destruct (nth (m_idx x) (m_bad x) false).
    + set (x1 := set_m_idx x (S (m_idx x))).
      assert (G1 : get_m (put_m s m x1) m = Some x1) by (apply get_m_put_m; congruence).
      specialize (IH (put_m s m x1) m x1 G1 Hpc).
      assert (Hr : r = m_num x1 - m_idx x1) by (unfold x1; cbn; lia).
      specialize (IH Hr).
      pose proof (psi_put_m s m x1 G) as H1.
      assert (H2 : psi_m x1 = 3 * Rm x1).
      { unfold psi_m. unfold x1 at 1. cbn [m_pc set_m_idx]. rewrite Hpc. reflexivity. }
      pose proof (Rm_idx x) as H. fold x1 in H. lia.
    + unfold try_start. destruct (closed s).
      * cbn [fst snd]. pose proof (psi_finish_m s m x (Some EPoolIsClosed) x G). lia.
      * destruct (sem_locked s).
        -- pose proof (psi_suspend_m (set_sem_waiters s (sem_waiters s ++ [m])) m x MWaitPool x G)
             as H1.
           cbn [psi_mc] in H1.
           assert (psi (set_sem_waiters s (sem_waiters s ++ [m])) = psi s) by reflexivity.
           lia.
        -- set (s1 := set_sem_value s (ninf_pred (sem_value s))).
           assert (G1 : get_m s1 m = Some x) by exact G.
           pose proof (get_m_register s1 m x x G1) as G2.
           pose proof (psi_register s1 m x x G1) as H1.
           assert (psi s1 = psi s) by reflexivity.
           specialize (IH (register s1 m x) m (reg_x x) G2 eq_refl).
           assert (Hr : r = m_num (reg_x x) - m_idx (reg_x x)) by (unfold reg_x; cbn; lia).
           specialize (IH Hr). lia.
Qed.

Lemma psi_spawn_next s m x :
  get_m s m = Some x -> m_pc x = MLoopHead -> psi (spawn_next s m) <= psi s.
Proof.
  intros G Hpc. unfold spawn_next. rewrite G.
  destruct (m_kind x).
  - apply (psi_apply_loop _ s m x G Hpc eq_refl).
  - pose proof (psi_to_iter s m x G). pose proof (psi_m_loophead x Hpc). lia.
  - apply (psi_apply_loop _ s m x G Hpc eq_refl).
Qed.

(** [_start_task] and the next turn of the loop, whatever the stored record was worth *)
Lemma psi_start_then_next s m x xs :
  get_m s m = Some xs ->
  psi (start_then_next s m x) + psi_m xs <= psi s + 3 + 3 * (Rm x - 1).
Proof.
  intros G. unfold start_then_next, try_start. destruct (closed s).
  - pose proof (psi_finish_m s m x (Some EPoolIsClosed) xs G). lia.
  - destruct (sem_locked s).
    + pose proof (psi_suspend_m (set_sem_waiters s (sem_waiters s ++ [m])) m x MWaitPool xs G)
        as H1.
      cbn [psi_mc] in H1.
      assert (psi (set_sem_waiters s (sem_waiters s ++ [m])) = psi s) by reflexivity.
      lia.
    + set (s1 := set_sem_value s (ninf_pred (sem_value s))).
      assert (G1 : get_m s1 m = Some xs) by exact G.
      pose proof (get_m_register s1 m x xs G1) as G2.
      pose proof (psi_register s1 m x xs G1) as H1.
      assert (psi s1 = psi s) by reflexivity.
      pose proof (psi_spawn_next (register s1 m x) m (reg_x x) G2 eq_refl).
      lia.
Qed.

(** Continuing a spawner from its argument iterator never increases [psi]. *)
Lemma psi_continue_m s m : psi (continue_m s m) <= psi s.
Proof.
  unfold continue_m. destruct (get_m s m) as [x|] eqn:G; [|lia].
  destruct (m_pc x) eqn:Hpc; try lia.
  assert (HP : psi_m x = 3 * Rm x) by (unfold psi_m; rewrite Hpc; reflexivity).
  destruct (nth_error (m_els x) (m_idx x)) as [e|] eqn:E.
  - pose proof (Rm_pos_els x e E) as HS.
    destruct (e_bad e).
    + set (x1 := set_m_idx x (S (m_idx x))).
      assert (G1 : get_m (put_m s m x1) m = Some x1) by (apply get_m_put_m; congruence).
      pose proof (psi_to_iter (put_m s m x1) m x1 G1) as H1.
      pose proof (psi_put_m s m x1 G) as H2.
      pose proof (Rm_idx x) as H4. fold x1 in H4. lia.
    + destruct (m_mapval x) as [|v].
      * pose proof (psi_suspend_m s m x MWaitMap x G) as H1. cbn [psi_mc] in H1. lia.
      * pose proof (psi_start_then_next s m (set_m_holds (set_m_mapval x v) true) x G) as H1.
        assert (H2 : Rm (set_m_holds (set_m_mapval x v) true) = Rm x) by reflexivity.
        rewrite H2 in H1. lia.
  - pose proof (psi_finish_m s m x None x G). lia.
Qed.

(** Running the ready handle of a spawner never increases [psi]. *)
Lemma psi_run_m s m : psi (run_m s m) <= psi s.
Proof.
  unfold run_m. destruct (get_m s m) as [x0|] eqn:G; [|lia]. cbv zeta.
  set (x := set_m_mc (set_m_fw x0 None) false).
  assert (HR : Rm x = Rm x0) by reflexivity.
  assert (HP : psi_m x0 = psi_mc (m_pc x0) (Rm x0)) by reflexivity.
  destruct (m_pc x0) eqn:Epc; try lia; cbn [psi_mc] in HP.
  - (* MNotStarted *)
    destruct (task_input (m_mc x0) (m_fw x0)).
    + set (x1 := set_m_pc x MLoopHead).
      assert (G1 : get_m (put_m s m x1) m = Some x1) by (apply get_m_put_m; congruence).
      pose proof (psi_spawn_next (put_m s m x1) m x1 G1 eq_refl) as H1.
      pose proof (psi_put_m s m x1 G) as H2.
      assert (H3 : psi_m x1 = 3 * Rm x0) by reflexivity. lia.
    + pose proof (psi_finish_m s m x (Some ECancelled) x0 G). lia.
    + pose proof (psi_finish_m s m x (Some ECancelled) x0 G). lia.
  - (* MWaitMap *)
    destruct (task_input (m_mc x0) (m_fw x0)).
    + pose proof (psi_start_then_next s m (set_m_holds x true) x0 G) as H1.
      assert (H2 : Rm (set_m_holds x true) = Rm x0) by reflexivity. rewrite H2 in H1. lia.
    + match goal with |- context [finish_m s m ?y None] =>
        pose proof (psi_finish_m s m y None x0 G) end. lia.
    + match goal with |- context [finish_m s m ?y None] =>
        pose proof (psi_finish_m s m y None x0 G) end. lia.
  - (* MWaitPool *)
    set (s1 := put_m (set_sem_waiters s (remove1 m (sem_waiters s))) m x).
    assert (G1 : get_m s1 m = Some x).
    { unfold s1. apply get_m_put_m. unfold get_m in *. cbn. congruence. }
    assert (M1 : psi s1 + psi_m x0 = psi s + psi_m x).
    { unfold s1. apply (psi_put_m (set_sem_waiters s (remove1 m (sem_waiters s))) m x G). }
    assert (P1 : psi_m x = 3 + 3 * (Rm x0 - 1)).
    { unfold psi_m. unfold x at 1. cbn [m_pc set_m_mc set_m_fw]. rewrite Epc. reflexivity. }
    assert (F1 : fut_pending (m_fw x) = false) by reflexivity.
    clearbody s1.
    destruct (task_input (m_mc x0) (m_fw x0)).
    + set (s2 := if ninf_pos (sem_value s1) then wake_next s1 else s1).
      assert (M2 : psi s2 = psi s1).
      { unfold s2. destruct (ninf_pos (sem_value s1)); [apply psi_wake_next|reflexivity]. }
      assert (G2 : get_m s2 m = Some x).
      { unfold s2. destruct (ninf_pos (sem_value s1)); auto. apply get_m_wake_next; auto. }
      clearbody s2.
      pose proof (get_m_register s2 m x x G2) as G3.
      pose proof (psi_register s2 m x x G2) as H3.
      pose proof (psi_spawn_next (register s2 m x) m (reg_x x) G3 eq_refl) as H4.
      rewrite HR in H3. lia.
    + set (s2 := if match m_fw x0 with Some FCancelled => true | _ => false end
                 then s1 else sem_release s1).
      assert (M2 : psi s2 = psi s1).
      { unfold s2. destruct (match m_fw x0 with Some FCancelled => true | _ => false end);
          [reflexivity|apply psi_sem_release]. }
      assert (G2 : get_m s2 m = Some x).
      { unfold s2. destruct (match m_fw x0 with Some FCancelled => true | _ => false end); auto.
        apply get_m_sem_release; auto. }
      clearbody s2.
      match goal with |- context [finish_m s2 m ?y None] =>
        pose proof (psi_finish_m s2 m y None x G2) end. lia.
    + set (s2 := if match m_fw x0 with Some FCancelled => true | _ => false end
                 then s1 else sem_release s1).
      assert (M2 : psi s2 = psi s1).
      { unfold s2. destruct (match m_fw x0 with Some FCancelled => true | _ => false end);
          [reflexivity|apply psi_sem_release]. }
      assert (G2 : get_m s2 m = Some x).
      { unfold s2. destruct (match m_fw x0 with Some FCancelled => true | _ => false end); auto.
        apply get_m_sem_release; auto. }
      clearbody s2.
      match goal with |- context [finish_m s2 m ?y None] =>
        pose proof (psi_finish_m s2 m y None x G2) end. lia.
Qed.
