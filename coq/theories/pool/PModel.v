(** M1 — executable model of [asyncio_taskpool.pool] (BaseTaskPool / TaskPool / SimpleTaskPool, as
    repaired by the fix: commits) together with the slice of CPython 3.12 asyncio it leans on
    (Task.cancel / _must_cancel, Semaphore hand-off, gather's eager path, Event).  Transcribed from
    pool.py and from the interpreter's asyncio sources.  Deterministic: all nondeterminism is in
    the choice of labels.  No proofs in this file. *)
From TP Require Export PBad PRecords.

(** ** Access *)
Definition get_p (s : state) (t : nat) := nth_error (ptasks s) t.
Definition get_m (s : state) (m : nat) := nth_error (mtasks s) m.
Definition get_d (s : state) (d : nat) := nth_error (dtasks s) d.
Definition put_p (s : state) (t : nat) (x : ptask) := set_ptasks s (upd (ptasks s) t x).
Definition put_m (s : state) (m : nat) (x : mtask) := set_mtasks s (upd (mtasks s) m x).
Definition put_d (s : state) (d : nat) (x : dtask) := set_dtasks s (upd (dtasks s) d x).

Definition emit (s : state) (e : event) := set_evs s (evs s ++ [e]).
Definition is_ready (s : state) (h : hid) := existsb (hid_eqb h) (ready s).
Definition sched (s : state) (h : hid) :=
  if is_ready s h then s else set_ready s (ready s ++ [h]).
Definition unsched (s : state) (h : hid) :=
  set_ready s (filter (fun x => negb (hid_eqb h x)) (ready s)).

(** insertion-ordered dict keyed by task id (the three task registries) *)
Definition dict_add (l : list nat) (t : nat) : list nat := if mem t l then l else l ++ [t].

(** association lists keyed by group name ([_task_groups], [_group_meta_tasks_running]) *)
Fixpoint glookup (g : gname) (l : list (gname * list nat)) : option (list nat) :=
  match l with
  | [] => None
  | (h, v) :: t => if gname_eqb g h then Some v else glookup g t
  end.
Fixpoint gremove (g : gname) (l : list (gname * list nat)) : list (gname * list nat) :=
  match l with
  | [] => []
  | (h, v) :: t => if gname_eqb g h then t else (h, v) :: gremove g t
  end.
(** [d.setdefault(g, empty).add(x)] *)
Fixpoint gadd (g : gname) (x : nat) (l : list (gname * list nat)) : list (gname * list nat) :=
  match l with
  | [] => [(g, [x])]
  | (h, v) :: t => if gname_eqb g h then (h, dict_add v x) :: t else (h, v) :: gadd g x t
  end.
(** [d.setdefault(g, empty)] *)
Definition gensure (g : gname) (l : list (gname * list nat)) : list (gname * list nat) :=
  match glookup g l with Some _ => l | None => l ++ [(g, [])] end.
Definition ghas (g : gname) (l : list (gname * list nat)) : bool :=
  match glookup g l with Some _ => true | None => false end.

Definition know (s : state) (g : gname) : state :=
  if existsb (gname_eqb g) (known s) then s else set_known s (known s ++ [g]).

(** ** Task outcomes *)
Definition tref_final (s : state) (r : tref) : option outcome :=
  match r with
  | TP t => match get_p s t with Some x => p_final x | None => None end
  | TM m => match get_m s m with Some x => m_final x | None => None end
  | TD d => match get_d s d with Some x => d_final x | None => None end
  end.

Definition final_of (exc : option exn) (mc : bool) : outcome :=
  match exc with
  | None => if mc then OCancelled else OResult
  | Some ECancelled => OCancelled
  | Some e => OExc e
  end.

(** What a task receives when its handle runs ([Task.__step] / [__wakeup]). *)
Inductive input := InOk | InExc (e : exn) | InCancel.

Definition task_input (mc : bool) (fw : option fut) : input :=
  if mc then InCancel else
  match fw with
  | Some FCancelled => InCancel
  | Some (FExc ECancelled) => InCancel
  | Some (FExc e) => InExc e
  | _ => InOk
  end.

(** ** The pool semaphore (asyncio.Semaphore, 3.12) *)
Definition m_fw_of (s : state) (m : nat) : option fut :=
  match get_m s m with Some x => m_fw x | None => None end.

Definition sem_locked (s : state) : bool :=
  ninf_is0 (sem_value s) ||
  existsb (fun m => match m_fw_of s m with Some FCancelled => false | _ => true end)
          (sem_waiters s).

Fixpoint first_pending (s : state) (l : list nat) : option nat :=
  match l with
  | [] => None
  | m :: t => if fut_pending (m_fw_of s m) then Some m else first_pending s t
  end.

(** [_wake_up_next]: the first waiter that is not done gets the slot at once. *)
Definition wake_next (s : state) : state :=
  match first_pending s (sem_waiters s) with
  | Some m =>
      match get_m s m with
      | Some x =>
          sched (put_m (set_sem_value s (ninf_pred (sem_value s))) m (set_m_fw x (Some FOk)))
                (HT (TM m))
      | None => s
      end
  | None => s
  end.

Definition sem_release (s : state) : state :=
  wake_next (set_sem_value s (ninf_succ (sem_value s))).

(** The per-call semaphore of a map request; its only possible waiter is the consumer itself. *)
Definition map_release (s : state) (m : nat) : state :=
  match get_m s m with
  | Some x =>
      match m_pc x, m_fw x with
      | MWaitMap, Some FPending => sched (put_m s m (set_m_fw x (Some FOk))) (HT (TM m))
      | _, _ => put_m s m (set_m_mapval x (S (m_mapval x)))
      end
  | None => s
  end.

(** ** Task completion: schedule the gather callbacks registered on the task *)
Definition gather_has_cb (g : option gather) (r : tref) : bool :=
  match g with Some x => existsb (tref_eqb r) (g_cb x) | None => false end.

Fixpoint cbs_of (ds : list dtask) (d : nat) (r : tref) : list hid :=
  match ds with
  | [] => []
  | x :: t =>
      (if gather_has_cb (d_g1 x) r || gather_has_cb (d_g2 x) r then [HG d r] else [])
      ++ cbs_of t (S d) r
  end.

Definition sched_cbs (s : state) (r : tref) : state :=
  fold_left sched (cbs_of (dtasks s) 0 r) s.

Definition finish_p (s : state) (t : nat) (x : ptask) : state :=
  let x' := set_p_final (set_p_pc (set_p_mc (set_p_fw x None) false) PDone)
                        (Some (final_of (p_exc x) (p_mc x))) in
  set_ctl (sched_cbs (put_p s t x') (TP t)) CIdle.

Definition finish_m (s : state) (m : nat) (x : mtask) (exc : option exn) : state :=
  let x' := set_m_final (set_m_pc (set_m_mc (set_m_fw x None) false) MDone)
                        (Some (final_of exc (m_mc x))) in
  set_ctl (sched_cbs (put_m s m x') (TM m)) CIdle.

Definition finish_d (s : state) (d : nat) (x : dtask) (exc : option exn) : state :=
  let o := final_of exc false in
  let x' := set_d_final (set_d_pc (set_d_fw x None) DDone) (Some o) in
  set_ctl (emit (put_d s d x') (EvDriverDone d o)) CIdle.

(** Suspension on a fresh pending future; a pending [_must_cancel] cancels it at once. *)
Definition suspend_p (s : state) (t : nat) (x : ptask) (pc : ppc) : state :=
  if p_mc x
  then set_ctl (sched (put_p s t (set_p_fw (set_p_mc (set_p_pc x pc) false) (Some FCancelled)))
                      (HT (TP t))) CIdle
  else set_ctl (put_p s t (set_p_fw (set_p_pc x pc) (Some FPending))) CIdle.

Definition suspend_m (s : state) (m : nat) (x : mtask) (pc : mpc) : state :=
  if m_mc x
  then set_ctl (sched (put_m s m (set_m_fw (set_m_mc (set_m_pc x pc) false) (Some FCancelled)))
                      (HT (TM m))) CIdle
  else set_ctl (put_m s m (set_m_fw (set_m_pc x pc) (Some FPending))) CIdle.

(** ** Pool tasks: [_task_wrapper], [_task_cancellation], [_task_ending] *)
Definition classify (s : state) (t : nat) : tclass :=
  if mem t (t_running s) then ClRunning
  else if mem t (t_cancelled s) then ClCancelled
  else if mem t (t_ended s) then ClEnded
  else ClUnknown.

(** [_task_ending] — always runs (it is the wrapper's [finally]). *)
Definition enter_end (s : state) (t : nat) (x : ptask) : state :=
  let moved (s1 : state) :=
    let s2 := set_t_ended s1 (dict_add (t_ended s1) t) in
    let s3 := sem_release s2 in
    let x := set_p_nrel x (S (p_nrel x)) in
    let s4 := if p_ismap x then map_release s3 (p_req x) else s3 in
    match p_ecb x with
    | CbNone => finish_p s4 t x
    | _ =>
        set_ctl (emit (put_p s4 t (set_p_pc (set_p_necb x (S (p_necb x))) PUEndCb))
                      (EvCbBegin KEnd t (classify s4 t)))
                (CUser (TP t))
    end in
  if mem t (t_running s) then moved (set_t_running s (remove1 t (t_running s)))
  else if mem t (t_cancelled s) then moved (set_t_cancelled s (remove1 t (t_cancelled s)))
  else finish_p s t (set_p_exc x (Some EKeyError)).

(** [_task_cancellation] — runs in the wrapper's [except CancelledError]. *)
Definition enter_cancel (s : state) (t : nat) (x : ptask) : state :=
  if mem t (t_running s)
  then
    let s1 := set_t_cancelled (set_t_running s (remove1 t (t_running s)))
                              (dict_add (t_cancelled s) t) in
    match p_ccb x with
    | CbNone => enter_end s1 t x
    | _ =>
        set_ctl (emit (put_p s1 t (set_p_pc (set_p_nccb x (S (p_nccb x))) PUCancelCb))
                      (EvCbBegin KCancel t (classify s1 t)))
                (CUser (TP t))
    end
  else enter_end s t (set_p_exc x (Some EKeyError)).

Definition cb_raise (x : ptask) (raises : bool) (st : site) (t : nat) : ptask :=
  if raises then set_p_exc x (Some (EUser t st)) else x.

(** Continue a pool task from a user point. *)
Definition continue_p (s : state) (t : nat) : state :=
  match get_p s t with
  | None => s
  | Some x =>
      match p_pc x with
      | PUStart =>
          match w_first (p_w x) with
          | WSuspend => suspend_p s t x PWaitGate
          | WReturn => enter_end (emit s (EvExit t)) t x
          | WRaise => enter_end (emit s (EvExit t)) t (set_p_exc x (Some (EUser t SWorker)))
          end
      | PUResume =>
          match p_fin x with
          | FinReturn => enter_end (emit s (EvExit t)) t x
          | FinRaise => enter_end (emit s (EvExit t)) t (set_p_exc x (Some (EUser t SWorker)))
          end
      | PUCancelled =>
          match w_cancel (p_w x) with
          | WPropagate => enter_cancel (emit s (EvExit t)) t x
          | WSwallow => enter_end (emit s (EvExit t)) t x
          end
      | PUCancelCb =>
          match p_ccb x with
          | CbNone => enter_end s t x
          | CbSync raises =>
              enter_end (emit s (EvCbEnd KCancel t raises)) t (cb_raise x raises SCancelCb t)
          | CbAsync slow raises =>
              if slow then suspend_p s t x PWaitCcb
              else enter_end (emit s (EvCbEnd KCancel t raises)) t (cb_raise x raises SCancelCb t)
          end
      | PUEndCb =>
          match p_ecb x with
          | CbNone => finish_p s t x
          | CbSync raises =>
              finish_p (emit s (EvCbEnd KEnd t raises)) t (cb_raise x raises SEndCb t)
          | CbAsync slow raises =>
              if slow then suspend_p s t x PWaitEcb
              else finish_p (emit s (EvCbEnd KEnd t raises)) t (cb_raise x raises SEndCb t)
          end
      | _ => s
      end
  end.

Definition cb_raises (c : cbspec) : bool :=
  match c with CbNone => false | CbSync r => r | CbAsync _ r => r end.

(** Run the ready handle of a pool task. *)
Definition run_p (s : state) (t : nat) : state :=
  match get_p s t with
  | None => s
  | Some x0 =>
      let inp := task_input (p_mc x0) (p_fw x0) in
      let x := set_p_mc (set_p_fw x0 None) false in
      match p_pc x0 with
      | PCreated =>
          match inp with
          | InOk =>
              (* first line of the wrapper's try: pop the id from _tasks_unstarted *)
              match p_unst x with
              | UDeferred => enter_cancel s t (set_p_unst x UNone)
              | _ =>
                  set_ctl (emit (put_p s t (set_p_nstart (set_p_pc (set_p_unst x UNone) PUStart)
                                                         (S (p_nstart x))))
                                (EvStart t (p_req x) (p_el x)))
                          (CUser (TP t))
              end
          | _ =>
              (* CancelledError thrown into the unstarted wrapper: no line of it runs *)
              finish_p s t (set_p_exc x (Some ECancelled))
          end
      | PWaitGate =>
          match inp with
          | InOk => set_ctl (put_p s t (set_p_pc x PUResume)) (CUser (TP t))
          | _ => set_ctl (emit (put_p s t (set_p_pc x PUCancelled)) (EvCancelled t)) (CUser (TP t))
          end
      | PWaitCcb =>
          match inp with
          | InOk =>
              let r := cb_raises (p_ccb x) in
              enter_end (emit s (EvCbEnd KCancel t r)) t (cb_raise x r SCancelCb t)
          | _ => enter_end (emit s (EvCbInterrupted KCancel t)) t (set_p_exc x (Some ECancelled))
          end
      | PWaitEcb =>
          match inp with
          | InOk =>
              let r := cb_raises (p_ecb x) in
              finish_p (emit s (EvCbEnd KEnd t r)) t (cb_raise x r SEndCb t)
          | _ => finish_p (emit s (EvCbInterrupted KEnd t)) t (set_p_exc x (Some ECancelled))
          end
      | _ => s
      end
  end.

(** ** Spawners: [_apply_spawner], [_start_num], [_arg_consumer]; [_start_task] *)
Definition default_w : wspec := {| w_first := WReturn; w_cancel := WPropagate |}.

Definition elem_w (x : mtask) : wspec :=
  match m_kind x with
  | MMap _ => match nth_error (m_els x) (m_idx x) with Some e => e_w e | None => default_w end
  | _ => m_w x
  end.

Definition is_map (x : mtask) : bool := match m_kind x with MMap _ => true | _ => false end.

(** The part of [_start_task] after the semaphore was acquired: create and register the task. *)
Definition register (s : state) (m : nat) (x : mtask) : state :=
  let t := num_started s in
  let pt := mk_ptask m (m_idx x) (m_group x) (elem_w x) (m_ecb x) (m_ccb x) (is_map x)
                     PCreated None false None FinReturn None UPlain 0 0 0 0 in
  let s := set_groups s (gadd (m_group x) t (groups s)) in
  let s := set_num_started s (S t) in
  let s := set_ptasks s (ptasks s ++ [pt]) in
  let s := set_t_running s (dict_add (t_running s) t) in
  let s := sched s (HT (TP t)) in
  let x' := set_m_holds (set_m_ncreated (set_m_idx (set_m_pc x MLoopHead) (S (m_idx x)))
                                        (S (m_ncreated x))) false in
  put_m s m x'.

(** [_start_task]: closed check, semaphore acquire, registration.  [true] = a task was created and
    the spawner goes on; [false] = the spawner finished or suspended. *)
Definition try_start (s : state) (m : nat) (x : mtask) : state * bool :=
  if closed s then (finish_m s m x (Some EPoolIsClosed), false)
  else if sem_locked s
  then (suspend_m (set_sem_waiters s (sem_waiters s ++ [m])) m x MWaitPool, false)
  else (register (set_sem_value s (ninf_pred (sem_value s))) m x, true).

(** [for i in range(num)] of [_apply_spawner] / [_start_num]; [rem] = iterations left. *)
Fixpoint apply_loop (rem : nat) (s : state) (m : nat) : state :=
  match get_m s m with
  | None => s
  | Some x =>
      match rem with
      | O => finish_m s m x None
      | S r =>
          (* the call of func for invocation [m_idx x] raises synchronously: skipped *)
          if nth (m_idx x) (m_bad x) false
          then apply_loop r (put_m s m (set_m_idx x (S (m_idx x)))) m
          else
            let '(s', cont) := try_start s m x in
            if cont then apply_loop r s' m else s'
      end
  end.

(** The map consumer advances its argument iterator: user point inside [__next__]. *)
Definition to_iter (s : state) (m : nat) : state :=
  match get_m s m with
  | Some x =>
      set_ctl (emit (put_m s m (set_m_pc x MAtIter)) (EvPull m (m_idx x))) (CUser (TM m))
  | None => s
  end.

(** What the spawner does next, at the top of its loop. *)
Definition spawn_next (s : state) (m : nat) : state :=
  match get_m s m with
  | Some x =>
      match m_kind x with
      | MMap _ => to_iter s m
      | _ => apply_loop (m_num x - m_idx x) s m
      end
  | None => s
  end.

Definition start_then_next (s : state) (m : nat) (x : mtask) : state :=
  let '(s', cont) := try_start s m x in
  if cont then spawn_next s' m else s'.

(** Continue a map consumer from the iterator's user point. *)
Definition continue_m (s : state) (m : nat) : state :=
  match get_m s m with
  | None => s
  | Some x =>
      match m_pc x with
      | MAtIter =>
          match nth_error (m_els x) (m_idx x) with
          | None => finish_m s m x None            (* StopIteration: the loop ends *)
          | Some e =>
              if e_bad e
              then to_iter (put_m s m (set_m_idx x (S (m_idx x)))) m
              else
                match m_mapval x with
                | O => suspend_m s m x MWaitMap
                | S v => start_then_next s m (set_m_holds (set_m_mapval x v) true)
                end
          end
      | _ => s
      end
  end.

(** Run the ready handle of a spawner. *)
Definition run_m (s : state) (m : nat) : state :=
  match get_m s m with
  | None => s
  | Some x0 =>
      let inp := task_input (m_mc x0) (m_fw x0) in
      let fut_cancelled := match m_fw x0 with Some FCancelled => true | _ => false end in
      let x := set_m_mc (set_m_fw x0 None) false in
      match m_pc x0 with
      | MNotStarted =>
          match inp with
          | InOk => spawn_next (put_m s m (set_m_pc x MLoopHead)) m
          | _ => finish_m s m x (Some ECancelled)
          end
      | MWaitPool =>
          (* Semaphore.acquire resumes: finally: waiters.remove(fut) *)
          let s := put_m (set_sem_waiters s (remove1 m (sem_waiters s))) m x in
          match inp with
          | InOk =>
              let s := if ninf_pos (sem_value s) then wake_next s else s in
              spawn_next (register s m x) m
          | _ =>
              (* except CancelledError: if not fut.cancelled(): value += 1; wake_up_next; raise.
                 The spawner's own handler: coroutine.close(); release the map slot it holds;
                 return *)
              let s := if fut_cancelled then s else sem_release s in
              let x := if m_holds x then set_m_holds (set_m_mapval x (S (m_mapval x))) false
                       else x in
              finish_m s m x None
          end
      | MWaitMap =>
          match inp with
          | InOk => start_then_next s m (set_m_holds x true)
          | _ =>
              let x := if fut_cancelled then x else set_m_mapval x (S (m_mapval x)) in
              finish_m s m x None
          end
      | _ => s
      end
  end.

(** ** gather (3.12: done children are processed synchronously at creation) *)
Definition gather_cb (re : bool) (n : nat) (o : outcome) (nfin : nat) (outer : fut)
  : nat * fut :=
  let nfin' := S nfin in
  match outer with
  | FPending =>
      let fail :=
        if re then None else
        match o with OCancelled => Some ECancelled | OExc e => Some e | OResult => None end in
      match fail with
      | Some e => (nfin', FExc e)
      | None => (nfin', if Nat.eqb nfin' n then FOk else FPending)
      end
  | _ => (nfin', outer)
  end.

Fixpoint gather_eager (s : state) (cs : list tref) (re : bool) (n nfin : nat) (outer : fut)
         (cbs : list tref) : nat * fut * list tref :=
  match cs with
  | [] => (nfin, outer, cbs)
  | c :: t =>
      match tref_final s c with
      | None => gather_eager s t re n nfin outer (cbs ++ [c])
      | Some o =>
          let '(nfin', outer') := gather_cb re n o nfin outer in
          gather_eager s t re n nfin' outer' cbs
      end
  end.

Definition make_gather (s : state) (cs : list tref) (re : bool) : gather * fut :=
  match cs with
  | [] => (mk_gather [] re 0 [], FOk)
  | _ =>
      let '(nfin, outer, cbs) := gather_eager s cs re (length cs) 0 FPending [] in
      (mk_gather cs re nfin cbs, outer)
  end.

(** ** Drivers: flush, gather_and_close, until_closed *)
Definition is_done_m (s : state) (m : nat) : bool :=
  match tref_final s (TM m) with Some _ => true | None => false end.

(** [_pop_ended_meta_tasks] *)
Fixpoint pop_ended (s : state) (l : list (gname * list nat))
  : list (gname * list nat) * list nat :=
  match l with
  | [] => ([], [])
  | (g, ms) :: t =>
      let '(l', e') := pop_ended s t in
      let done := filter (is_done_m s) ms in
      let still := filter (fun m => negb (is_done_m s m)) ms in
      ((match still with [] => l' | _ => (g, still) :: l' end), done ++ e')
  end.

Fixpoint first_exception (s : state) (cs : list tref) : option exn :=
  match cs with
  | [] => None
  | c :: t =>
      match tref_final s c with
      | Some (OExc e) => Some e
      | _ => first_exception s t
      end
  end.

Definition dict_merge (a b : list nat) : list nat := fold_left dict_add b a.

Fixpoint wake_closed (s : state) (ds : list nat) : state :=
  match ds with
  | [] => s
  | d :: t =>
      let s :=
        match get_d s d with
        | Some x =>
            if fut_pending (d_fw x)
            then sched (put_d s d (set_d_fw x (Some FOk))) (HT (TD d))
            else s
        | None => s
        end in
      wake_closed s t
  end.

Definition not_in (l : list nat) (t : nat) : bool := negb (mem t l).

(** After the second gather. *)
Definition after_g2 (s : state) (d : nat) (x : dtask) (outer : fut) : state :=
  match outer with
  | FExc e => finish_d s d x (Some e)
  | FCancelled => finish_d s d x (Some ECancelled)
  | _ =>
      match d_kind x with
      | DFlush _ =>
          let snap := d_snap x in
          let e' := filter (not_in snap) (t_ended s) in
          let c' := filter (not_in snap) (t_cancelled s) in
          let n := (length (t_ended s) - length e') + (length (t_cancelled s) - length c') in
          let s := set_n_forgotten (set_t_cancelled (set_t_ended s e') c') (n_forgotten s + n) in
          finish_d s d x None
      | DGatherClose _ =>
          let n := length (t_ended s) + length (t_cancelled s) + length (t_running s) in
          let s := set_n_forgotten
                     (set_t_running (set_t_cancelled (set_t_ended s []) []) [])
                     (n_forgotten s + n) in
          let s := set_closed s true in
          let s := wake_closed s (closed_waiters s) in
          finish_d s d x None
      | DUntilClosed => finish_d s d x None
      end
  end.

Definition start_g2 (s : state) (d : nat) (x : dtask) (cs : list nat) (re : bool) : state :=
  let '(g, outer) := make_gather s (map TP cs) re in
  let x := set_d_snap (set_d_g2 x (Some g)) cs in
  match outer with
  | FPending => set_ctl (put_d s d (set_d_fw (set_d_pc x DWaitG2) (Some FPending))) CIdle
  | _ => after_g2 s d x outer
  end.

(** After the first gather (of the meta tasks). *)
Definition after_g1 (s : state) (d : nat) (x : dtask) (outer : fut) : state :=
  match d_kind x with
  | DFlush re =>
      let go (s : state) :=
        let s := set_meta_cancelled s [] in
        start_g2 s d x (dict_merge (t_ended s) (t_cancelled s)) re in
      match outer with
      | FExc ECancelled => go s            (* with suppress(CancelledError) *)
      | FCancelled => go s
      | FExc e => finish_d s d x (Some e)
      | _ => go s
      end
  | DGatherClose re =>
      let children := match d_g1 x with Some g => g_children g | None => [] end in
      match (if re then None else first_exception s children) with
      | Some e => finish_d s d x (Some e)
      | None =>
          let s := set_gmeta (set_meta_cancelled s []) [] in
          start_g2 s d x (t_ended s ++ t_cancelled s ++ t_running s) re
      end
  | DUntilClosed => finish_d s d x None
  end.

Definition start_g1 (s : state) (d : nat) (x : dtask) (cs : list nat) (re : bool) : state :=
  let '(g, outer) := make_gather s (map TM cs) re in
  let x := set_d_g1 x (Some g) in
  match outer with
  | FPending => set_ctl (put_d s d (set_d_fw (set_d_pc x DWaitG1) (Some FPending))) CIdle
  | _ => after_g1 s d x outer
  end.

Definition run_d (s : state) (d : nat) : state :=
  match get_d s d with
  | None => s
  | Some x0 =>
      let outer := match d_fw x0 with Some f => f | None => FOk end in
      let x := set_d_fw x0 None in
      match d_pc x0 with
      | DNotStarted =>
          match d_kind x with
          | DFlush re =>
              let '(gm, ended) := pop_ended s (gmeta s) in
              let cs := meta_cancelled s ++ ended in
              start_g1 (set_gmeta s gm) d x cs re
          | DGatherClose _ =>
              let s := set_locked s true in
              let cs := meta_cancelled s ++ concat (map snd (gmeta s)) in
              start_g1 s d x cs true
          | DUntilClosed =>
              if closed s then finish_d s d x None
              else set_ctl (put_d (set_closed_waiters s (closed_waiters s ++ [d])) d
                                  (set_d_fw (set_d_pc x DWaitClosed) (Some FPending))) CIdle
          end
      | DWaitG1 => after_g1 s d x outer
      | DWaitG2 => after_g2 s d x outer
      | DWaitClosed =>
          finish_d (set_closed_waiters s (remove1 d (closed_waiters s))) d x None
      | _ => s
      end
  end.

(** A gather child callback [_done_callback(child)]. *)
Definition run_g (s : state) (d : nat) (c : tref) : state :=
  match get_d s d, tref_final s c with
  | Some x, Some o =>
      let phase1 := match c with TM _ => true | _ => false end in
      let active := match d_pc x, phase1 with
                    | DWaitG1, true | DWaitG2, false => true
                    | _, _ => false end in
      let go := if phase1 then d_g1 x else d_g2 x in
      match go with
      | Some g =>
          match (if active then d_fw x else None) with
          | Some FPending =>
              let '(nfin, outer) := gather_cb (g_re g) (length (g_children g)) o (g_nfin g)
                                              FPending in
              let g' := set_g_nfin g nfin in
              let x := if phase1 then set_d_g1 x (Some g') else set_d_g2 x (Some g') in
              match outer with
              | FPending => put_d s d x
              | _ => sched (put_d s d (set_d_fw x (Some outer))) (HT (TD d))
              end
          | _ =>
              let g' := set_g_nfin g (S (g_nfin g)) in
              put_d s d (if phase1 then set_d_g1 x (Some g') else set_d_g2 x (Some g'))
          end
      | None => s
      end
  | _, _ => s
  end.

(** ** Task.cancel and the pool's [_cancel_task] *)
Definition is_current (s : state) (r : tref) : bool :=
  match ctl s with
  | CUser q => tref_eqb q r
  | CIdle => false
  end.

Definition cancel_m (s : state) (m : nat) : state :=
  match get_m s m with
  | None => s
  | Some x =>
      match m_final x with
      | Some _ => s
      | None =>
          let s := if is_current s (TM m) then set_taint_iter s true else s in
          if fut_pending (m_fw x)
          then sched (put_m s m (set_m_fw x (Some FCancelled))) (HT (TM m))
          else put_m s m (set_m_mc x true)
      end
  end.

(** A worker cancelling itself from a segment after which it returns or raises without suspending
    again leaves [_must_cancel] pending (open finding D11). *)
Definition final_segment (x : ptask) : bool :=
  match p_pc x with
  | PUResume | PUCancelled => true
  | PUStart => match w_first (p_w x) with WSuspend => false | _ => true end
  | _ => false
  end.

Definition cancel_p (s : state) (t : nat) : state :=
  match get_p s t with
  | None => s
  | Some x =>
      match p_unst x with
      | UNone =>
          match p_final x with
          | Some _ => s
          | None =>
              let s := if is_current s (TP t) && final_segment x then set_taint_self s true
                       else s in
              if fut_pending (p_fw x)
              then sched (put_p s t (set_p_fw x (Some FCancelled))) (HT (TP t))
              else put_p s t (set_p_mc x true)
          end
      | _ => put_p s t (set_p_unst x UDeferred)
      end
  end.

(** [_cancel_group_meta_tasks] *)
Definition cancel_group_metas (s : state) (g : gname) : state :=
  match glookup g (gmeta s) with
  | None => s
  | Some ms =>
      let s := set_gmeta s (gremove g (gmeta s)) in
      let s := fold_left cancel_m ms s in
      set_meta_cancelled s (fold_left dict_add ms (meta_cancelled s))
  end.

(** Ghost: every request made for group [g] is marked dead when [g] is cancelled. *)
Definition mark_dead (s : state) (g : gname) : state :=
  set_mtasks s (map (fun x => if gname_eqb g (m_group x) then set_m_dead x true else x)
                    (mtasks s)).

(** [_cancel_and_remove_all_from_group] *)
Definition cancel_group_body (s : state) (g : gname) (ids : list nat) : state :=
  let s := mark_dead (cancel_group_metas s g) g in
  fold_left (fun s t => if mem t (t_running s) then cancel_p s t else s) ids s.

Fixpoint cancel_all_groups (s : state) (gs : list (gname * list nat)) : state :=
  match gs with
  | [] => s
  | (g, ids) :: t => cancel_all_groups (cancel_group_body s g ids) t
  end.

(** ** API operations *)
Definition lookup_err (s : state) (t : nat) : option errclass :=
  if mem t (t_running s) then None
  else if mem t (t_cancelled s) then Some ErrAlreadyCancelled
  else if mem t (t_ended s) then Some ErrAlreadyEnded
  else Some ErrTaskNotFound.

Fixpoint first_lookup_err (s : state) (ids : list nat) : option errclass :=
  match ids with
  | [] => None
  | t :: r => match lookup_err s t with Some e => Some e | None => first_lookup_err s r end
  end.

Definition do_cancel (s : state) (ids : list nat) : state :=
  match first_lookup_err s ids with
  | Some e => set_res s (RErr e)
  | None => fold_left cancel_p ids s
  end.

(** [_generate_group_name]: the least free index. *)
Fixpoint find_free (meth : nat) (gs : list (gname * list nat)) (fuel i : nat) : nat :=
  match fuel with
  | O => i
  | S f => if ghas (GGen meth i) gs then find_free meth gs f (S i) else i
  end.

Definition gen_name (s : state) (meth : nat) : gname :=
  GGen meth (find_free meth (groups s) (S (length (groups s))) 0).

(** [_check_start(function=...)]: type, closed, locked — in this order. *)
Definition check_start (s : state) (noncoro : bool) : option errclass :=
  if noncoro then Some ErrNotCoroutineFunction
  else if closed s then Some ErrPoolIsClosed
  else if locked s then Some ErrPoolIsLocked
  else None.

Definition new_meta (s : state) (x : mtask) : state :=
  let m := length (mtasks s) in
  let g := m_group x in
  let s := set_mtasks s (mtasks s ++ [x]) in
  let s := set_gmeta s (gadd g m (gmeta s)) in
  sched s (HT (TM m)).

Definition default_cb := CbNone.

Definition meth_of_stars (stars : nat) : nat := S stars.

Definition firstn_rev (n : nat) (l : list nat) : list nat := firstn n (rev l).

Definition in_use (s : state) : nat :=
  length (t_running s) + length (t_cancelled s) +
  count (fun m => match m_fw_of s m with Some FOk => true | _ => false end) (sem_waiters s).

Definition ninf_add (v : ninf) (n : nat) : ninf :=
  match v with Fin m => Fin (m + n) | Inf => Inf end.

Definition do_op (s : state) (o : op) : state :=
  match o with
  | OpApply num bad noncoro w ecb ccb og =>
      let s := match og with Some g => know s g | None => s end in
      match check_start s noncoro with
      | Some e => set_res s (RErr e)
      | None =>
          let g := match og with Some g => g | None => gen_name s 0 end in
          if ghas g (groups s) then set_res s (RErr ErrGroupExists)
          else
            let s := know s g in
            let s := set_groups s (gensure g (groups s)) in
            let x := mk_mtask MApply g num bad [] w ecb ccb MNotStarted 0 None false None 0
                              false 0 false 0 in
            set_res (new_meta s x) (RName g)
      end
  | OpMap stars els nc noncoro ecb ccb og =>
      let s := match og with Some g => know s g | None => s end in
      let g := match og with Some g => g | None => gen_name s (meth_of_stars stars) end in
      match check_start s noncoro with
      | Some e => set_res s (RErr e)
      | None =>
          if Nat.eqb nc 0 then set_res s (RErr ErrValueError)
          else if ghas g (groups s) then set_res s (RErr ErrGroupExists)
          else
            let s := know s g in
            let s := set_groups s (gensure g (groups s)) in
            let x := mk_mtask (MMap stars) g 0 [] els default_w ecb ccb MNotStarted 0 None
                              false None nc false 0 false nc in
            set_res (new_meta s x) (RName g)
      end
  | OpStart num =>
      match check_start s false with
      | Some e => set_res s (RErr e)
      | None =>
          let g := GStart (start_calls s) in
          let s := know s g in
          let s := set_start_calls s (S (start_calls s)) in
          let s := set_groups s (gensure g (groups s)) in
          let c := cfg s in
          let x := mk_mtask MStart g num (cf_bad c) [] (cf_w c) (cf_ecb c) (cf_ccb c)
                            MNotStarted 0 None false None 0 false 0 false 0 in
          set_res (new_meta s x) (RName g)
      end
  | OpCancel ids => do_cancel s ids
  | OpCancelGroup g =>
      let s := know s g in
      match glookup g (groups s) with
      | None => set_res s (RErr ErrGroupNotFound)
      | Some ids =>
          let s := set_groups s (gremove g (groups s)) in
          cancel_group_body s g ids
      end
  | OpCancelAll =>
      (* while self._task_groups: popitem() (LIFO) *)
      let gs := rev (groups s) in
      cancel_all_groups (set_groups s []) gs
  | OpStop n =>
      let ids := match n with Some k => firstn_rev k (t_running s) | None => [] end in
      let s := do_cancel s ids in
      match res s with RErr _ => s | _ => set_res s (RIds ids) end
  | OpStopAll =>
      let ids := firstn_rev (length (t_running s)) (t_running s) in
      let s := do_cancel s ids in
      match res s with RErr _ => s | _ => set_res s (RIds ids) end
  | OpLock => set_locked s true
  | OpUnlock =>
      (* ghost: unlocking while a gather_and_close() is (or was) in progress *)
      let s := if Nat.ltb 0 (n_gac s) then set_taint_unlock s true else s in
      set_locked s false
  | OpSetSize v =>
      match v with
      | None => set_res s (RErr ErrValueError)
      | Some v => set_taint_size (set_cap (set_sem_value s v) (ninf_add v (in_use s))) true
      end
  | OpGetGroupIds gs =>
      let s := fold_left know gs s in
      let fix go (l : list gname) (acc : list nat) : result :=
        match l with
        | [] => RIds acc
        | g :: t =>
            match glookup g (groups s) with
            | Some ids => go t (fold_left dict_add ids acc)
            | None => RErr ErrGroupNotFound
            end
        end in
      set_res s (go gs [])
  | OpDriver k =>
      let s := match k with DGatherClose _ => set_n_gac s (S (n_gac s)) | _ => s end in
      let d := length (dtasks s) in
      let s := set_dtasks s (dtasks s ++ [mk_dtask k DNotStarted None None None None []]) in
      sched s (HT (TD d))
  | OpFinish t h =>
      match get_p s t with
      | Some x => sched (put_p s t (set_p_fin (set_p_fw x (Some FOk)) h)) (HT (TP t))
      | None => s
      end
  | OpReleaseCb t =>
      match get_p s t with
      | Some x => sched (put_p s t (set_p_fw x (Some FOk))) (HT (TP t))
      | None => s
      end
  end.

(** ** Enabledness *)
Definition op_enabled (s : state) (o : op) : bool :=
  match o with
  | OpApply _ _ _ _ _ _ _ | OpMap _ _ _ _ _ _ _ =>
      match cf_kind (cfg s) with KTask => true | KSimple => false end
  | OpStart _ | OpStop _ | OpStopAll =>
      match cf_kind (cfg s) with KSimple => true | KTask => false end
  | OpFinish t _ =>
      match get_p s t with
      | Some x => match p_pc x with PWaitGate => fut_pending (p_fw x) | _ => false end
      | None => false
      end
  | OpReleaseCb t =>
      match get_p s t with
      | Some x =>
          match p_pc x with
          | PWaitCcb | PWaitEcb => fut_pending (p_fw x)
          | _ => false
          end
      | None => false
      end
  | _ => true
  end.

Definition enabled (s : state) (l : label) : bool :=
  match l with
  | LRun h => match ctl s with CIdle => is_ready s h | _ => false end
  | LGo => match ctl s with CIdle => false | _ => true end
  | LOp o => op_enabled s o
  end.

Definition run_handle (s : state) (h : hid) : state :=
  match h with
  | HT (TP t) => run_p s t
  | HT (TM m) => run_m s m
  | HT (TD d) => run_d s d
  | HG d c => run_g s d c
  end.

Definition step (s0 : state) (l : label) : state :=
  let s := set_res (set_evs s0 []) RNone in
  if negb (enabled s l) then s else
  match l with
  | LRun h => run_handle (unsched s h) h
  | LGo =>
      match ctl s with
      | CUser (TP t) => continue_p s t
      | CUser (TM m) => continue_m s m
      | _ => s
      end
  | LOp o => do_op s o
  end.

Definition init (c : config) : state :=
  mk_state c 0 false false [] [] [] (cf_size c) [] [] [] [] 0 [] [] [] [] [] CIdle [] RNone []
           (cf_size c) 0 false false false false 0.

Definition run (c : config) (tr : list label) : state := fold_left step tr (init c).
