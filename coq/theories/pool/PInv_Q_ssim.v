(** The "boring" helper functions only make ssim-changes. *)
From TP Require Export PInv_Q_sim.
Set Implicit Arguments. Unset Strict Implicit.

Lemma F2p_refl l : Forall2 psim l l.
Proof. apply Forall2_refl; apply psim_refl. Qed.
Lemma F2m_refl l : Forall2 msim l l.
Proof. apply Forall2_refl; apply msim_refl. Qed.

Lemma F2p_upd s t x x' :
  get_p s t = Some x -> psim x x' -> Forall2 psim (ptasks s) (upd (ptasks s) t x').
Proof.
  intros H P. apply Forall2_upd_self; [apply psim_refl|].
  unfold get_p in H. intros y Hy. congruence.
Qed.

Lemma F2m_upd s m y y' :
  get_m s m = Some y -> msim y y' -> Forall2 msim (mtasks s) (upd (mtasks s) m y').
Proof.
  intros H P. apply Forall2_upd_self; [apply msim_refl|].
  unfold get_m in H. intros z Hz. congruence.
Qed.

Ltac psim_tac := unfold psim, pimm; cbn; tauto.
Ltac msim_tac := unfold msim, mimm, mterm; cbn; tauto.

Ltac ssim_fin :=
  constructor; repeat (progress (autorewrite with fr; cbn));
  try reflexivity; try apply F2p_refl; try apply F2m_refl; auto.

Lemma ssim_ceq s s' :
  ptasks s' = ptasks s -> mtasks s' = mtasks s -> groups s' = groups s ->
  num_started s' = num_started s -> taint_iter s' = taint_iter s -> ssim s s'.
Proof.
  intros A B C D E. constructor; auto; rewrite ?A, ?B; auto using F2p_refl, F2m_refl.
  congruence.
Qed.

Lemma cancel_p_ssim s t : ssim s (cancel_p s t).
Proof.
  unfold cancel_p. destruct (get_p s t) as [x|] eqn:Hx; [|apply ssim_refl].
  destruct (p_unst x).
  - destruct (p_final x); [apply ssim_refl|].
    destruct (is_current s (TP t) && final_segment x);
      destruct (fut_pending (p_fw x)); unfold put_p; ssim_fin;
      (eapply F2p_upd; [eauto|psim_tac]).
  - unfold put_p; ssim_fin. eapply F2p_upd; [eauto|psim_tac].
  - unfold put_p; ssim_fin. eapply F2p_upd; [eauto|psim_tac].
Qed.

Lemma fold_ssim {A} (f : state -> A -> state) l :
  (forall s a, ssim s (f s a)) -> forall s, ssim s (fold_left f l s).
Proof.
  intros H. induction l as [|a l IH]; intros s; simpl; [apply ssim_refl|].
  eapply ssim_trans; [apply H | apply IH].
Qed.

Lemma do_cancel_ssim s ids : ssim s (do_cancel s ids).
Proof.
  unfold do_cancel. destruct (first_lookup_err s ids).
  - ssim_fin.
  - apply fold_ssim. apply cancel_p_ssim.
Qed.

Lemma mterm_pending x f :
  fut_pending (m_fw x) = true -> f <> Some FOk -> mterm (set_m_fw x f) = mterm x.
Proof.
  unfold mterm, fut_pending. cbn. destruct (m_fw x) as [[]|]; try discriminate.
  intros _ H. destruct (m_pc x); auto. destruct f as [[]|]; auto. congruence.
Qed.

Lemma cancel_m_ssim s m : ssim s (cancel_m s m).
Proof.
  unfold cancel_m. destruct (get_m s m) as [x|] eqn:Hx; [|apply ssim_refl].
  destruct (m_final x); [apply ssim_refl|].
  destruct (fut_pending (m_fw x)) eqn:Hp.
  - assert (msim x (set_m_fw x (Some FCancelled))) as Hs.
    { unfold msim, mimm. rewrite mterm_pending; auto; [cbn; tauto|discriminate]. }
    destruct (is_current s (TM m)); unfold put_m; ssim_fin; eapply F2m_upd; eauto.
  - assert (msim x (set_m_mc x true)) as Hs by msim_tac.
    destruct (is_current s (TM m)); unfold put_m; ssim_fin; eapply F2m_upd; eauto.
Qed.

Lemma first_pending_In s l m : first_pending s l = Some m -> In m l /\ fut_pending (m_fw_of s m) = true.
Proof.
  induction l as [|h t IH]; simpl; [discriminate|].
  destruct (fut_pending (m_fw_of s h)) eqn:E.
  - intros H; inversion H; subst; auto.
  - intros H. destruct (IH H); auto.
Qed.

Definition waiters_pool (s : state) : Prop :=
  forall m y, In m (sem_waiters s) -> get_m s m = Some y -> m_pc y = MWaitPool.

Lemma wake_next_ssim s : waiters_pool s -> ssim s (wake_next s).
Proof.
  intros Hw. unfold wake_next. destruct (first_pending s (sem_waiters s)) as [m|] eqn:Hf;
    [|apply ssim_refl].
  destruct (get_m s m) as [x|] eqn:Hx; [|apply ssim_refl].
  apply first_pending_In in Hf. destruct Hf as [Hi Hp].
  pose proof (Hw _ _ Hi Hx) as Hpc.
  unfold put_m; ssim_fin. eapply F2m_upd; eauto.
  unfold msim, mimm, mterm. cbn. rewrite Hpc. tauto.
Qed.

Lemma sem_release_ssim s : waiters_pool s -> ssim s (sem_release s).
Proof.
  intros Hw. unfold sem_release.
  eapply ssim_trans; [|apply wake_next_ssim].
  - ssim_fin.
  - exact Hw.
Qed.

Lemma finish_p_ssim s t x0 x : get_p s t = Some x0 -> psim x0 x -> ssim s (finish_p s t x).
Proof.
  intros H P. unfold finish_p, put_p. ssim_fin. eapply F2p_upd; [exact H|].
  eapply psim_trans; [exact P|psim_tac].
Qed.

Lemma suspend_p_ssim s t x0 x pc :
  get_p s t = Some x0 -> psim x0 x -> ssim s (suspend_p s t x pc).
Proof.
  intros H P. unfold suspend_p, put_p. destruct (p_mc x); ssim_fin;
    (eapply F2p_upd; [exact H|]; eapply psim_trans; [exact P|psim_tac]).
Qed.
