(** Frame rule for drivers: a step that changes (or adds) one driver record. *)
From TP Require Export PInv_G_D.

Definition hg_child (x : dtask) (c : tref) : Prop :=
  match c with
  | TM _ => exists g, d_g1 x = Some g /\ In c (g_children g)
  | TP _ => exists g, d_g2 x = Some g /\ In c (g_children g)
  | TD _ => False
  end.

Record Dcl (s : state) (d : nat) (x : dtask) : Prop := {
  D_g1 : d_pc x = DWaitG1 -> d_fw x = Some FPending ->
         forall g, d_g1 x = Some g -> gather_ok s d g;
  D_g2 : d_pc x = DWaitG2 -> d_fw x = Some FPending ->
         forall g, d_g2 x = Some g -> gather_ok s d g;
  D_has1 : d_pc x = DWaitG1 -> d_g1 x <> None;
  D_has2 : d_pc x = DWaitG2 -> exists g, d_g2 x = Some g /\ g_children g = map TP (d_snap x);
  D_ok1 : d_pc x = DWaitG1 -> d_fw x = Some FOk -> forall g, d_g1 x = Some g ->
          forall c, In c (g_children g) -> tref_done s c = true;
  D_ok2 : d_pc x = DWaitG2 -> d_fw x = Some FOk -> forall g, d_g2 x = Some g ->
          forall c, In c (g_children g) -> tref_done s c = true;
  D_hg : forall c, In (HG d c) (ready s) -> tref_done s c = true /\ hg_child x c;
  D_gac1 : forall re g, d_kind x = DGatherClose re -> d_pc x = DWaitG1 -> d_g1 x = Some g ->
           locked s = true /\
           (forall m y, get_m s m = Some y -> m_final y = None -> m_dead y = false ->
                        In (TM m) (g_children g));
  D_ngac : forall re, d_kind x = DGatherClose re -> 0 < n_gac s;
  D_gac2 : forall re, d_kind x = DGatherClose re -> d_pc x = DWaitG2 ->
           locked s = true /\
           (forall m y, get_m s m = Some y -> m_final y = None -> m_dead y = true) /\
           (forall t, In t (regs s) -> In t (d_snap x));
  D_xgac1 : forall re, d_kind x = DGatherClose re -> d_pc x = DWaitG1 ->
            (d_fw x = Some FPending \/ d_fw x = Some FOk) /\
            forall g, d_g1 x = Some g -> g_re g = true;
  D_nouser : forall re, d_kind x = DGatherClose re -> d_pc x = DWaitG2 ->
             forall m, ctl s <> CUser (TM m);
  D_gath1 : forall g, d_g1 x = Some g ->
            (forall c, In c (g_cb g) -> In c (g_children g)) /\
            (forall c, In c (g_children g) -> exists m, c = TM m);
  D_gath2 : forall g, d_g2 x = Some g ->
            (forall c, In c (g_cb g) -> In c (g_children g)) /\
            (forall c, In c (g_children g) -> exists t, c = TP t);
  D_none1 : d_pc x = DNotStarted -> d_g1 x = None /\ d_g2 x = None;
  D_none2 : d_pc x = DWaitG1 -> d_g2 x = None
}.

(** the driver-indexed clauses of a valid state *)
Lemma Dcl_of s d x : IG s -> Extra_G s -> get_d s d = Some x -> Dcl s d x.
Proof.
  intros G X H. constructor.
  - intros; eapply (IG_g1 _ G); eauto.
  - intros; eapply (IG_g2 _ G); eauto.
  - intros; eapply (IG_has1 _ G); eauto.
  - intros; eapply (IG_has2 _ G); eauto.
  - intros; eapply (IG_ok1 _ G); eauto.
  - intros; eapply (IG_ok2 _ G); eauto.
  - intros c Hc. split; [eapply (IG_hg _ G); eauto|].
    destruct (X_hg _ X d c Hc) as [y [Hy Hch]]. rewrite H in Hy. inversion Hy; subst y. exact Hch.
  - intros; eapply (IG_gac1 _ G); eauto.
  - intros; eapply (IG_ngac _ G); eauto.
  - intros; eapply (IG_gac2 _ G); eauto.
  - intros; eapply (X_gac1 _ X); eauto.
  - intros re H1 H2. apply (X_nouser _ X). right. exists d, x, re. auto.
  - intros; eapply (X_gath1 _ X); eauto.
  - intros; eapply (X_gath2 _ X); eauto.
  - intros; eapply (X_none1 _ X); eauto.
  - intros; eapply (X_none2 _ X); eauto.
Qed.

(** assembling a state's invariant from its driver clauses *)
Lemma INV_of_Dcl s :
  IM s -> XDead s ->
  (forall d x, get_d s d = Some x -> Dcl s d x) ->
  (forall d c, In (HG d c) (ready s) -> exists x, get_d s d = Some x) ->
  (closed s = true -> regs s = []) ->
  (closed s = true -> forall m, ctl s <> CUser (TM m)) ->
  (closed s = true -> forall m y, get_m s m = Some y -> m_final y = None -> m_dead y = true) ->
  NoDup (closed_waiters s) ->
  (forall d, In d (closed_waiters s) -> exists x, get_d s d = Some x /\ d_pc x = DWaitClosed) ->
  INV s.
Proof.
  intros M XD HD HR Hc1 Hc2 Hc3 Hw1 Hw2. split; [exact M|split].
  - constructor.
    + intros d x g H H1 H2 H3. eapply (D_g1 _ _ _ (HD d x H)); eauto.
    + intros d x g H H1 H2 H3. eapply (D_g2 _ _ _ (HD d x H)); eauto.
    + intros d x H. apply (D_has1 _ _ _ (HD d x H)).
    + intros d x H. apply (D_has2 _ _ _ (HD d x H)).
    + intros d x g H H1 H2 H3. eapply (D_ok1 _ _ _ (HD d x H)); eauto.
    + intros d x g H H1 H2 H3. eapply (D_ok2 _ _ _ (HD d x H)); eauto.
    + intros d c H. destruct (HR d c H) as [x Hx]. apply (D_hg _ _ _ (HD d x Hx) c H).
    + intros d x re g H H1 H2 H3. eapply (D_gac1 _ _ _ (HD d x H)); eauto.
    + intros d x re H. apply (D_ngac _ _ _ (HD d x H)).
    + intros d x re H. apply (D_gac2 _ _ _ (HD d x H)).
    + exact Hc1.
  - constructor; auto.
    + intros d x re H. apply (D_xgac1 _ _ _ (HD d x H)).
    + intros [H|[d [x [re [H1 [H2 H3]]]]]]; [auto|]. eapply (D_nouser _ _ _ (HD d x H1)); eauto.
    + intros d c H. destruct (HR d c H) as [x Hx]. exists x. split; auto.
      apply (D_hg _ _ _ (HD d x Hx) c H).
    + intros d x g H. apply (D_gath1 _ _ _ (HD d x H)).
    + intros d x g H. apply (D_gath2 _ _ _ (HD d x H)).
    + intros d x H. apply (D_none1 _ _ _ (HD d x H)).
    + intros d x H. apply (D_none2 _ _ _ (HD d x H)).
Qed.

Lemma existsb_hid_iff h l l' : (In h l <-> In h l') -> existsb (hid_eqb h) l = existsb (hid_eqb h) l'.
Proof.
  intros H. destruct (existsb (hid_eqb h) l') eqn:E.
  - apply existsb_hid_In. apply H. apply existsb_hid_In; auto.
  - apply existsb_hid_false. intros HH. apply H in HH. apply existsb_hid_In in HH. congruence.
Qed.

Lemma tref_done_mp s s' c :
  mtasks s' = mtasks s -> ptasks s' = ptasks s -> (forall k, c <> TD k) ->
  tref_done s' c = tref_done s c.
Proof.
  intros Hm Hp Hc. destruct c as [u|u|u].
  - unfold tref_done, tref_final, get_p. rewrite Hp. reflexivity.
  - unfold tref_done, tref_final, get_m. rewrite Hm. reflexivity.
  - destruct (Hc u eq_refl).
Qed.

Lemma gather_ok_transfer S s' d g :
  mtasks s' = mtasks S -> ptasks s' = ptasks S ->
  (forall c, In c (g_children g) -> forall k, c <> TD k) ->
  (forall c, In (HG d c) (ready s') <-> In (HG d c) (ready S)) ->
  gather_ok S d g -> gather_ok s' d g.
Proof.
  intros Hm Hp Hch Hr [N [C1 [C2 C3]]]. unfold gather_ok. repeat split; auto.
  - intros c Hc Hd. apply C2; auto. rewrite <- Hd. symmetry. apply tref_done_mp; auto.
  - rewrite C3. apply count_ext_in. intros c Hc. unfold cb_ran.
    rewrite (tref_done_mp S s' c); auto. f_equal. f_equal. symmetry. apply existsb_hid_iff. apply Hr.
Qed.

Lemma Dcl_transfer S s' d x :
  Dcl S d x ->
  mtasks s' = mtasks S -> ptasks s' = ptasks S -> locked s' = locked S -> n_gac S <= n_gac s' ->
  regs_sub S s' ->
  (forall c, In (HG d c) (ready s') <-> In (HG d c) (ready S)) ->
  ctl_ok S s' ->
  Dcl s' d x.
Proof.
  intros D Hm Hp Hl Hn Hg Hr Hc.
  assert (TM1 : forall g, d_g1 x = Some g -> forall c, In c (g_children g) -> forall k, c <> TD k).
  { intros g Eg c Hin k. destruct (D_gath1 _ _ _ D g Eg) as [_ B]. destruct (B c Hin) as [m ->]. discriminate. }
  assert (TP2 : forall g, d_g2 x = Some g -> forall c, In c (g_children g) -> forall k, c <> TD k).
  { intros g Eg c Hin k. destruct (D_gath2 _ _ _ D g Eg) as [_ B]. destruct (B c Hin) as [m ->]. discriminate. }
  assert (GM : forall k, get_m s' k = get_m S k) by (intros; unfold get_m; rewrite Hm; auto).
  constructor.
  - intros H1 H2 g Eg. eapply gather_ok_transfer; eauto. eapply (D_g1 _ _ _ D); eauto.
  - intros H1 H2 g Eg. eapply gather_ok_transfer; eauto. eapply (D_g2 _ _ _ D); eauto.
  - apply (D_has1 _ _ _ D).
  - apply (D_has2 _ _ _ D).
  - intros H1 H2 g Eg c Hin. rewrite (tref_done_mp S s' c); eauto. eapply (D_ok1 _ _ _ D); eauto.
  - intros H1 H2 g Eg c Hin. rewrite (tref_done_mp S s' c); eauto. eapply (D_ok2 _ _ _ D); eauto.
  - intros c Hin. apply Hr in Hin. destruct (D_hg _ _ _ D c Hin) as [A B]. split; auto.
    rewrite (tref_done_mp S s' c); auto. intros k ->. exact B.
  - intros re g H1 H2 H3. destruct (D_gac1 _ _ _ D re g H1 H2 H3) as [A B]. split; [congruence|].
    intros m y. rewrite GM. apply B.
  - intros re H1. pose proof (D_ngac _ _ _ D re H1). lia.
  - intros re H1 H2. destruct (D_gac2 _ _ _ D re H1 H2) as [A [B C]]. split; [congruence|split].
    + intros m y. rewrite GM. apply B.
    + intros t Ht. apply C. apply Hg. exact Ht.
  - apply (D_xgac1 _ _ _ D).
  - intros re H1 H2 m Hm'. apply Hc in Hm'. revert Hm'. eapply (D_nouser _ _ _ D); eauto.
  - apply (D_gath1 _ _ _ D).
  - apply (D_gath2 _ _ _ D).
  - apply (D_none1 _ _ _ D).
  - apply (D_none2 _ _ _ D).
Qed.

Lemma IM_eq s s' :
  mtasks s' = mtasks s -> gmeta s' = gmeta s -> meta_cancelled s' = meta_cancelled s ->
  IM s -> XDead s -> IM s' /\ XDead s'.
Proof.
  intros Hm Hg Hc M X.
  assert (GM : forall k, get_m s' k = get_m s k) by (intros; unfold get_m; rewrite Hm; auto).
  assert (XD : XDead s') by (intros k x; rewrite GM; apply X).
  split; auto. constructor.
  - intros k x. rewrite GM. unfold meta_in_group. rewrite Hg. apply (IM_reg _ M).
  - rewrite Hc, Hg, Hm. apply (IM_lt _ M).
  - rewrite Hc, Hg. apply (IM_nodup _ M).
  - rewrite Hg. apply (IM_keys _ M).
  - intros _. exact XD.
  - intros k x. rewrite GM. apply (IM_holds _ M).
Qed.

(** the frame rule: only driver [d] (possibly new) and the closed-waiters list change *)
Theorem driver_frame S s' d :
  INV S ->
  (forall d', d' <> d -> get_d s' d' = get_d S d') ->
  mtasks s' = mtasks S -> ptasks s' = ptasks S -> gmeta s' = gmeta S ->
  meta_cancelled s' = meta_cancelled S -> locked s' = locked S -> closed s' = closed S ->
  n_gac S <= n_gac s' -> regs s' = regs S ->
  (forall d' c, d' <> d -> (In (HG d' c) (ready s') <-> In (HG d' c) (ready S))) ->
  (forall c, In (HG d c) (ready s') -> In (HG d c) (ready S)) ->
  ctl_ok S s' ->
  NoDup (closed_waiters s') ->
  (forall d', In d' (closed_waiters s') -> exists x, get_d s' d' = Some x /\ d_pc x = DWaitClosed) ->
  (forall x, get_d s' d = Some x -> Dcl s' d x) ->
  (forall c, In (HG d c) (ready S) -> exists x, get_d s' d = Some x) ->
  INV s'.
Proof.
  intros [M [G X]] Hoth Hm Hp Hgm Hmc Hl Hcl Hn Hrg Hr Hrd Hc Hw1 Hw2 HD HRd.
  destruct (IM_eq S s' Hm Hgm Hmc M (X_dead _ X)) as [M' XD'].
  assert (GM : forall k, get_m s' k = get_m S k) by (intros; unfold get_m; rewrite Hm; auto).
  apply INV_of_Dcl; auto.
  - intros d0 x H0. destruct (Nat.eq_dec d0 d) as [->|Hne]; [auto|].
    rewrite Hoth in H0 by auto.
    apply (Dcl_transfer S s' d0 x (Dcl_of S d0 x G X H0)); auto.
    intros t. rewrite Hrg. auto.
  - intros d0 c H0. destruct (Nat.eq_dec d0 d) as [->|Hne].
    + apply (HRd c). apply Hrd. exact H0.
    + apply (Hr d0 c Hne) in H0. rewrite Hoth by auto.
      destruct (X_hg _ X d0 c H0) as [x [Hx _]]. eauto.
  - rewrite Hcl, Hrg. apply (IG_closed _ G).
  - rewrite Hcl. intros E m Hm'. apply Hc in Hm'. revert Hm'. apply (X_nouser _ X). left; auto.
  - rewrite Hcl. intros E m y. rewrite GM. apply (X_closed _ X E).
Qed.
