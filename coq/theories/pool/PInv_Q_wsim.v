(** Weak similarity: everything except the per-call semaphore bookkeeping. *)
From TP Require Export PInv_Q_drv.
Set Implicit Arguments. Unset Strict Implicit.

Definition msimw (y y' : mtask) : Prop :=
  mimm y y' /\ m_idx y' = m_idx y /\ m_ncreated y' = m_ncreated y /\ m_final y' = m_final y /\
  (m_dead y = true -> m_dead y' = true).

Record wsim (s s' : state) : Prop := {
  ws_p : Forall2 pimm (ptasks s) (ptasks s');
  ws_m : Forall2 msimw (mtasks s) (mtasks s');
  ws_g : groups s' = groups s;
  ws_n : num_started s' = num_started s;
  ws_t : taint_iter s = true -> taint_iter s' = true
}.

Record IR5 (s : state) : Prop := {
  IR5_req : forall t x, get_p s t = Some x ->
                       exists y, get_m s (p_req x) = Some y /\ task_matches_req x y;
  IR5_distinct : forall t u x y, get_p s t = Some x -> get_p s u = Some y ->
                                p_req x = p_req y -> p_el x = p_el y -> t = u;
  IR5_ncreated : forall m y, get_m s m = Some y -> m_ncreated y = tasks_of s m;
  IR5_progress : forall m y, get_m s m = Some y -> req_progress s m y;
  IR5_final : forall m y, get_m s m = Some y -> req_final_ok s y
}.

Lemma IR_split s : IR s <-> IR5 s /\ (forall m y, get_m s m = Some y -> mapsem_ok s m y).
Proof.
  split.
  - intros []. split; [constructor|]; auto.
  - intros [[] H]. constructor; auto.
Qed.

Lemma msimw_refl y : msimw y y.
Proof. unfold msimw; auto using mimm_refl. Qed.

Lemma wsim_get_p s s' t x' :
  wsim s s' -> get_p s' t = Some x' -> exists x, get_p s t = Some x /\ pimm x x'.
Proof. intros [] H. eapply Forall2_nth_r; eauto. Qed.

Lemma wsim_get_m s s' m y' :
  wsim s s' -> get_m s' m = Some y' -> exists y, get_m s m = Some y /\ msimw y y'.
Proof. intros [] H. eapply Forall2_nth_r; eauto. Qed.

Lemma wsim_get_m_l s s' m y :
  wsim s s' -> get_m s m = Some y -> exists y', get_m s' m = Some y' /\ msimw y y'.
Proof. intros [] H. eapply Forall2_nth_l; eauto. Qed.

Lemma wsim_tasks_of s s' m : wsim s s' -> tasks_of s' m = tasks_of s m.
Proof.
  intros []. unfold tasks_of. symmetry. eapply count_Forall2; eauto.
  intros x y [E _]. simpl. rewrite E. auto.
Qed.

Lemma finalw_transfer s s' y y' :
  msimw y y' -> (taint_iter s = true -> taint_iter s' = true) ->
  req_final_ok s y -> req_final_ok s' y'.
Proof.
  intros [[M1 [M2 [M3 [M4 [M5 [M6 [M7 [M8 M9]]]]]]]] [I [N [F D]]]] Ht.
  unfold req_final_ok. rewrite F, M1, I, M5, M3.
  destruct (m_final y) as [[| |]|]; auto; intuition.
Qed.

Lemma wsim_IR5 s s' : wsim s s' -> IR5 s -> IR5 s'.
Proof.
  intros Hs [R1 R2 R3 R4 R5]. constructor.
  - intros t x' Hx'. destruct (wsim_get_p Hs Hx') as [x [Hx Px]].
    destruct (R1 _ _ Hx) as [y [Hy My]].
    destruct (wsim_get_m_l Hs Hy) as [y' [Hy' Sy]].
    exists y'. pose proof Px as [E _]. rewrite E. split; auto.
    destruct Sy as [Sy [Si _]].
    eapply matches_transfer; eauto. lia.
  - intros t u x y Hx Hy E1 E2.
    destruct (wsim_get_p Hs Hx) as [x0 [Hx0 [A1 [A2 _]]]].
    destruct (wsim_get_p Hs Hy) as [y0 [Hy0 [B1 [B2 _]]]].
    eapply R2; eauto; congruence.
  - intros m y' Hy'. destruct (wsim_get_m Hs Hy') as [y [Hy Sy]].
    rewrite (wsim_tasks_of m Hs). rewrite <- (R3 _ _ Hy). apply Sy.
  - intros m y' Hy'. destruct (wsim_get_m Hs Hy') as [y [Hy Sy]].
    eapply progress_transfer; try apply Sy; eauto.
  - intros m y' Hy'. destruct (wsim_get_m Hs Hy') as [y [Hy Sy]].
    eapply finalw_transfer; [exact Sy | exact (ws_t Hs) | eauto].
Qed.

Lemma wsim_IGr s s' : wsim s s' -> IGr s -> IGr s'.
Proof.
  intros Hs [G1 G2 G3 G4 G5 G6]. pose proof (ws_g Hs) as Eg. pose proof (ws_n Hs) as En.
  constructor; rewrite ?Eg, ?En; auto.
  - intros g ids t x' Hl Hi Hx'. destruct (wsim_get_p Hs Hx') as [x [Hx [_ [_ [E _]]]]].
    rewrite E. eapply G4; eauto.
  - intros t x' y' Hx' Hy' Hd.
    destruct (wsim_get_p Hs Hx') as [x [Hx [E1 [_ [E3 _]]]]].
    rewrite E1 in Hy'. destruct (wsim_get_m Hs Hy') as [y [Hy [[_ [M2 _]] [_ [_ [_ D]]]]]].
    rewrite E3, M2. apply G5; auto. destruct (m_dead y); auto. rewrite D in Hd; auto.
  - intros m y' Hy' Hf Hd.
    destruct (wsim_get_m Hs Hy') as [y [Hy [[_ [M2 _]] [_ [_ [F D]]]]]].
    rewrite M2. eapply G6; eauto; try congruence.
    destruct (m_dead y); auto. rewrite D in Hd; auto.
Qed.

Lemma wake_next_ptasks s : ptasks (wake_next s) = ptasks s.
Proof. unfold wake_next; brute. Qed.
Lemma wake_next_groups s : groups (wake_next s) = groups s.
Proof. unfold wake_next; brute. Qed.
Lemma wake_next_num_started s : num_started (wake_next s) = num_started s.
Proof. unfold wake_next; brute. Qed.
Lemma wake_next_taint_iter s : taint_iter (wake_next s) = taint_iter s.
Proof. unfold wake_next; brute. Qed.
Lemma wake_next_closed s : closed (wake_next s) = closed s.
Proof. unfold wake_next; brute. Qed.
#[export] Hint Rewrite wake_next_ptasks wake_next_groups wake_next_num_started wake_next_taint_iter wake_next_closed : fr.

Lemma sem_release_ptasks s : ptasks (sem_release s) = ptasks s.
Proof. unfold sem_release; brute. Qed.
Lemma sem_release_groups s : groups (sem_release s) = groups s.
Proof. unfold sem_release; brute. Qed.
Lemma sem_release_num_started s : num_started (sem_release s) = num_started s.
Proof. unfold sem_release; brute. Qed.
Lemma sem_release_taint_iter s : taint_iter (sem_release s) = taint_iter s.
Proof. unfold sem_release; brute. Qed.
Lemma sem_release_closed s : closed (sem_release s) = closed s.
Proof. unfold sem_release; brute. Qed.
#[export] Hint Rewrite sem_release_ptasks sem_release_groups sem_release_num_started sem_release_taint_iter sem_release_closed : fr.

Lemma map_release_ptasks s m : ptasks (map_release s m) = ptasks s.
Proof. unfold map_release, put_m; brute. Qed.
Lemma map_release_groups s m : groups (map_release s m) = groups s.
Proof. unfold map_release, put_m; brute. Qed.
Lemma map_release_num_started s m : num_started (map_release s m) = num_started s.
Proof. unfold map_release, put_m; brute. Qed.
Lemma map_release_taint_iter s m : taint_iter (map_release s m) = taint_iter s.
Proof. unfold map_release, put_m; brute. Qed.
Lemma map_release_closed s m : closed (map_release s m) = closed s.
Proof. unfold map_release, put_m; brute. Qed.
#[export] Hint Rewrite map_release_ptasks map_release_groups map_release_num_started map_release_taint_iter map_release_closed : fr.

Lemma wake_next_sem_waiters s : sem_waiters (wake_next s) = sem_waiters s.
Proof. unfold wake_next, sched, put_m; brute. Qed.
Lemma sem_release_sem_waiters s : sem_waiters (sem_release s) = sem_waiters s.
Proof. unfold sem_release. rewrite wake_next_sem_waiters. reflexivity. Qed.

Lemma pimm_of_psim x y : psim x y -> pimm x y.
Proof. intros []; auto. Qed.
Lemma msimw_of_msim x y : msim x y -> msimw x y.
Proof. unfold msim, msimw. tauto. Qed.

Lemma Forall2_impl {A} (R S : A -> A -> Prop) l l' :
  (forall x y, R x y -> S x y) -> Forall2 R l l' -> Forall2 S l l'.
Proof. intros H; induction 1; constructor; auto. Qed.

Lemma ssim_wsim s s' : ssim s s' -> wsim s s'.
Proof.
  intros []. constructor; auto.
  - eapply Forall2_impl; [|eauto]. apply pimm_of_psim.
  - eapply Forall2_impl; [|eauto]. apply msimw_of_msim.
Qed.

Lemma msimw_trans x y z : msimw x y -> msimw y z -> msimw x z.
Proof.
  unfold msimw; intros [A B] [C D]; split; [eapply mimm_trans; eauto|].
  intuition congruence.
Qed.

Lemma wsim_refl s : wsim s s.
Proof. apply ssim_wsim, ssim_refl. Qed.

Lemma wsim_trans s1 s2 s3 : wsim s1 s2 -> wsim s2 s3 -> wsim s1 s3.
Proof.
  intros [] []; constructor; try congruence; auto.
  - eapply Forall2_trans; eauto using pimm_trans.
  - eapply Forall2_trans; eauto using msimw_trans.
Qed.

