(** State-level preservation: I1 and PI (= I1 + per-task invariant) along every kind of step. *)
From TP Require Import PInv PInv_P_base PInv_P_view PInv_P_inv PInv_P_tok PInv_P_tok2
  PInv_P_leaf PInv_P_leaf2 PInv_P_chain.

Definition PIv (v : pv) : Prop := I1v v /\ TOKv v.
Definition PI (s : state) : Prop := PIv (pview s).

Lemma PIv_core v : PIv (vcore v) <-> PIv v.
Proof. split; intros [a b]; split; exact a || exact b. Qed.

Global Hint Rewrite pv_set_ctl pv_emit pv_put_p pv_enter_cancel pv_enter_end pv_finish_p
  pv_suspend_p pv_unsched pv_set_res pv_set_evs pv_sched : pv.

(** ** closure properties of I1 and PI *)
Lemma I1_Qpc : Qpc I1.
Proof.
  intros s s' E H. apply I1_iff. apply I1_iff in H. apply I1v_core. apply I1v_core in H.
  change (I1v (pcore s')). rewrite E. exact H.
Qed.

Lemma I1_Qreg : Qreg I1.
Proof. intros s m x H. apply I1_iff. rewrite pv_register. apply I1v_register, I1_iff, H. Qed.

Lemma I1_Qag2 : Qag2 I1.
Proof.
  intros s d x outer H _. apply I1_iff, I1v_core. change (I1v (pcore (after_g2 s d x outer))).
  rewrite pc_after_g2. apply I1v_core, I1v_after_g2, I1_iff, H.
Qed.

Lemma PI_Qpc : Qpc PI.
Proof.
  intros s s' E H. apply PIv_core. apply PIv_core in H.
  change (PIv (pcore s')). rewrite E. exact H.
Qed.

Lemma PI_Qreg : Qreg PI.
Proof.
  intros s m x [H1 H2]. unfold PI. rewrite pv_register. split.
  - now apply I1v_register.
  - now apply TOK_register.
Qed.

Lemma PI_Qag2 : Qag2 PI.
Proof.
  intros s d x outer [H1 H2] Hp. apply PIv_core. change (PIv (pcore (after_g2 s d x outer))).
  rewrite pc_after_g2. apply PIv_core. split.
  - now apply I1v_after_g2.
  - apply TOK_after_g2; auto.
Qed.

(** ** run_p / continue_p : I1 *)
Ltac i1leaf :=
  apply I1_iff; autorewrite with pv; unfold finish_v, suspend_v;
  auto using I1v_vput, I1v_enter_end, I1v_enter_cancel.

Lemma I1_run_p s t : I1 s -> I1 (run_p s t).
Proof.
  intros H. apply I1_iff in H. unfold run_p. cbv zeta.
  repeat (first [assumption | dmatch]); try (apply I1_iff; assumption); i1leaf.
Qed.

Lemma I1_continue_p s t : I1 s -> I1 (continue_p s t).
Proof.
  intros H. apply I1_iff in H. unfold continue_p.
  repeat (first [assumption | dmatch]); try (apply I1_iff; assumption); i1leaf.
Qed.

(** ** run_p / continue_p : PI *)
Ltac pi_put :=
  unfold PI; autorewrite with pv; unfold finish_v, suspend_v;
  split; [auto using I1v_vput | apply TOK_vput; auto].

Lemma PI_run_p s t :
  PI s -> (forall x, get_p s t = Some x -> pfwc x) -> PI (run_p s t).
Proof.
  intros [H1 Hk] Hf. unfold run_p. destruct (get_p s t) as [x0|] eqn:Ex; [|split; auto].
  pose proof (Hk t x0 Ex) as Ht. cbn [vR vC vE vts pview] in Ht.
  specialize (Hf x0 eq_refl).
  assert (Hex : TOKex t (pview s)) by (apply TOKv_ex; auto).
  cbv zeta. destruct (p_pc x0) eqn:Epc; try (split; assumption).
  - (* PCreated *)
    destruct (L_created _ _ _ _ _ _ Ht Hf Epc) as (hmc & hfw & hin).
    rewrite hmc, hfw. cbn [task_input].
    destruct (p_unst (set_p_mc (set_p_fw x0 None) false)) eqn:Eu.
    + pi_put. apply (L_created_start _ _ _ _ _ _ Ht Epc).
    + pi_put. apply (L_created_start _ _ _ _ _ _ Ht Epc).
    + unfold PI. rewrite pv_enter_cancel. split.
      * now apply I1v_enter_cancel.
      * apply TOK_enter_cancel; auto. apply (L_created_def _ _ _ _ _ _ Ht Epc).
  - (* PWaitGate *)
    destruct (task_input _ _).
    + pi_put. apply (L_gate_ok _ _ _ _ _ _ Ht Epc).
    + pi_put. apply (L_gate_can _ _ _ _ _ _ Ht Epc).
    + pi_put. apply (L_gate_can _ _ _ _ _ _ Ht Epc).
  - (* PWaitCcb *)
    assert (Hint : forall e, PI (enter_end (emit s e) t
                     (set_p_exc (set_p_mc (set_p_fw x0 None) false) (Some ECancelled))) \/
                   task_input (p_mc x0) (p_fw x0) = InOk).
    { intros e. destruct (taint_self s) eqn:Ets.
      - left. unfold PI. rewrite pv_enter_end, pv_emit. split.
        + now apply I1v_enter_end.
        + apply TOK_enter_end; auto.
          * right. apply (L_ccb_ok _ _ _ _ _ _ true Ht Epc).
          * cbn [vts pview]. rewrite Ets. apply (L_ccb_int _ _ _ _ _ Ht Epc).
      - right. eapply L_late_input; eauto. }
    destruct (task_input _ _) eqn:Ei.
    + unfold PI. rewrite pv_enter_end, pv_emit.
      destruct (L_ccb_ok _ _ _ _ _ _ (cb_raises (p_ccb (set_p_mc (set_p_fw x0 None) false))) Ht Epc)
        as (hin & hc).
      split; [now apply I1v_enter_end|apply TOK_enter_end; auto].
    + destruct (Hint (EvCbInterrupted KCancel t)) as [h|h]; [exact h|discriminate].
    + destruct (Hint (EvCbInterrupted KCancel t)) as [h|h]; [exact h|discriminate].
  - (* PWaitEcb *)
    assert (Hint : forall e, PI (finish_p (emit s e) t
                     (set_p_exc (set_p_mc (set_p_fw x0 None) false) (Some ECancelled))) \/
                   task_input (p_mc x0) (p_fw x0) = InOk).
    { intros e. destruct (taint_self s) eqn:Ets.
      - left. pi_put. cbn [vR vC vE vts pview]. rewrite Ets in *.
        destruct (L_ecb_ok _ _ _ _ _ _ true Ht Epc) as (nr & nc & _).
        apply tok_fin_x; auto. apply (L_ecb_int _ _ _ _ _ Ht Epc).
      - right. eapply L_late_input; eauto. }
    destruct (task_input _ _) eqn:Ei.
    + pi_put. cbn [vR vC vE vts pview].
      destruct (L_ecb_ok _ _ _ _ _ _ (cb_raises (p_ecb (set_p_mc (set_p_fw x0 None) false))) Ht Epc)
        as (nr & nc & hc).
      apply tok_fin_x; auto.
    + destruct (Hint (EvCbInterrupted KEnd t)) as [h|h]; [exact h|discriminate].
    + destruct (Hint (EvCbInterrupted KEnd t)) as [h|h]; [exact h|discriminate].
Qed.

Ltac pi_end :=
  unfold PI; rewrite ?pv_enter_end, ?pv_enter_cancel, ?pv_emit;
  split; [auto using I1v_enter_end, I1v_enter_cancel
         | first [apply TOK_enter_end | apply TOK_enter_cancel]; auto].

Lemma PI_continue_p s t :
  PI s -> (forall x, get_p s t = Some x -> pfwc x) -> PI (continue_p s t).
Proof.
  intros [H1 Hk] Hf. unfold continue_p. destruct (get_p s t) as [x|] eqn:Ex; [|split; auto].
  pose proof (Hk t x Ex) as Ht. cbn [vR vC vE vts pview] in Ht.
  specialize (Hf x eq_refl).
  assert (Hex : TOKex t (pview s)) by (apply TOKv_ex; auto).
  destruct (p_pc x) eqn:Epc; try (split; assumption).
  - (* PUStart *)
    destruct (w_first (p_w x)) eqn:Ew.
    + pi_put. apply L_ustart_susp; auto.
    + destruct (L_ustart_end _ _ _ _ _ _ Ht Hf Epc) as (a & b & c); [congruence|]. pi_end.
    + destruct (L_ustart_end _ _ _ _ _ _ Ht Hf Epc) as (a & b & c); [congruence|]. pi_end.
  - (* PUResume *)
    destruct (L_uresume _ _ _ _ _ _ Ht Hf Epc) as (a & b & c). destruct (p_fin x); pi_end.
  - (* PUCancelled *)
    destruct (L_ucancelled _ _ _ _ _ _ Ht Hf Epc) as (a & b & c).
    destruct (w_cancel (p_w x)); pi_end.
  - (* PUCancelCb *)
    destruct (p_ccb x) as [|raises|slow raises] eqn:Ec.
    + destruct (L_ucancelcb _ _ _ _ _ _ false Ht Hf Epc) as (a & b & c). pi_end.
    + destruct (L_ucancelcb _ _ _ _ _ _ raises Ht Hf Epc) as (a & b & c). pi_end.
    + destruct slow.
      * pi_put. apply L_ucancelcb_susp; auto.
      * destruct (L_ucancelcb _ _ _ _ _ _ raises Ht Hf Epc) as (a & b & c). pi_end.
  - (* PUEndCb *)
    destruct (p_ecb x) as [|raises|slow raises] eqn:Ec.
    + destruct (L_uendcb _ _ _ _ _ _ false Ht Hf Epc) as (a & b & c & d).
      pi_put. apply tok_fin_x; auto.
    + destruct (L_uendcb _ _ _ _ _ _ raises Ht Hf Epc) as (a & b & c & d).
      pi_put. apply tok_fin_x; auto.
    + destruct slow.
      * pi_put. apply L_uendcb_susp; auto.
      * destruct (L_uendcb _ _ _ _ _ _ raises Ht Hf Epc) as (a & b & c & d).
        pi_put. apply tok_fin_x; auto.
Qed.

(** ** cancellation *)
Definition PU (s : state) : Prop :=
  forall t x, get_p s t = Some x -> p_user (p_pc x) = true -> ctl s = CUser (TP t).
Definition CI (s : state) : Prop := PI s /\ PU s.

Lemma ctl_sched s h : ctl (sched s h) = ctl s.
Proof. unfold sched. destruct (is_ready s h); reflexivity. Qed.

Lemma ctl_cancel_p s t : ctl (cancel_p s t) = ctl s.
Proof.
  unfold cancel_p. repeat (first [reflexivity | rewrite ctl_sched | dmatch]).
Qed.

Lemma ctl_cancel_m s m : ctl (cancel_m s m) = ctl s.
Proof.
  unfold cancel_m. repeat (first [reflexivity | rewrite ctl_sched | dmatch]).
Qed.

Lemma ctl_fold {A} (f : state -> A -> state) :
  (forall s a, ctl (f s a) = ctl s) -> forall l s, ctl (fold_left f l s) = ctl s.
Proof. intros H l. induction l; simpl; intros; auto. now rewrite IHl, H. Qed.

Lemma ctl_cancel_group_metas s g : ctl (cancel_group_metas s g) = ctl s.
Proof.
  unfold cancel_group_metas. destruct (glookup _ _); auto.
  cbn [ctl set_meta_cancelled]. rewrite (ctl_fold _ ctl_cancel_m). reflexivity.
Qed.

Lemma CI_same s s' : pview s' = pview s -> ctl s' = ctl s -> CI s -> CI s'.
Proof.
  intros E Ec [H1 H2]. split.
  - unfold PI. now rewrite E.
  - intros t x. rewrite (pv_get_p _ _ t (pcore_of_pview _ _ E)), Ec. apply H2.
Qed.

Lemma vget_cancel_p_v v cur t u x' :
  vget (cancel_p_v v cur t) u = Some x' -> exists x, vget v u = Some x /\ p_pc x' = p_pc x.
Proof.
  unfold cancel_p_v. destruct (vget v t) as [x|] eqn:Ex; [|eauto].
  assert (Hgen : forall y v', vpts v' = vpts v -> p_pc y = p_pc x ->
            vget (vput v' t y) u = Some x' -> exists x, vget v u = Some x /\ p_pc x' = p_pc x).
  { intros y v' Ev Ey. unfold vget, vput. cbn [vpts]. rewrite nth_error_upd, Ev.
    destruct (Nat.eqb_spec t u) as [->|].
    - destruct (Nat.ltb _ _); [|discriminate]. intros [= <-]. eauto.
    - eauto. }
  destruct (p_unst x); [destruct (p_final x); [eauto|]|..].
  - apply Hgen; auto. apply cancel_x_pc.
  - apply Hgen; auto.
  - apply Hgen; auto.
Qed.

Lemma vR_cancel_p_v v cur t : vR (cancel_p_v v cur t) = vR v.
Proof. unfold cancel_p_v. repeat (first [reflexivity | dmatch]). Qed.

Lemma vds_cancel_p_v v cur t : vds (cancel_p_v v cur t) = vds v.
Proof. unfold cancel_p_v. repeat (first [reflexivity | dmatch]). Qed.

Lemma CI_cancel_p s t : CI s -> In t (t_running s) -> CI (cancel_p s t).
Proof.
  intros [[H1 Hk] Hu] Hin. split.
  - unfold PI. rewrite pv_cancel_p. split.
    + now apply I1v_cancel_p.
    + apply TOK_cancel_p; auto. intros x Hx Hp. unfold is_current.
      rewrite (Hu t x Hx Hp). cbn. apply Nat.eqb_refl.
  - intros u x' Hx' Hp. rewrite ctl_cancel_p.
    change (vget (pview (cancel_p s t)) u = Some x') in Hx'. rewrite pv_cancel_p in Hx'.
    apply vget_cancel_p_v in Hx'. destruct Hx' as (x & Hx & Epc). rewrite Epc in Hp.
    eapply Hu; eauto.
Qed.

Lemma running_cancel_p s t : t_running (cancel_p s t) = t_running s.
Proof. change (vR (pview (cancel_p s t)) = vR (pview s)). rewrite pv_cancel_p. apply vR_cancel_p_v. Qed.

Lemma CI_fold_cancel ids : forall s,
  CI s -> (forall t, In t ids -> In t (t_running s)) -> CI (fold_left cancel_p ids s).
Proof.
  induction ids as [|t r IH]; simpl; intros s H Hin; auto.
  apply IH.
  - apply CI_cancel_p; auto.
  - intros u Hu. rewrite running_cancel_p. auto.
Qed.

Lemma first_lookup_err_None s ids :
  first_lookup_err s ids = None -> forall t, In t ids -> In t (t_running s).
Proof.
  induction ids as [|u r IH]; simpl; [tauto|].
  unfold lookup_err at 1. destruct (mem u (t_running s)) eqn:E.
  - intros H t [<-|Ht]; auto. now apply mem_In.
  - destruct (mem u (t_cancelled s)); [intros; discriminate|].
    destruct (mem u (t_ended s)); intros; discriminate.
Qed.

Lemma CI_do_cancel s ids : CI s -> CI (do_cancel s ids).
Proof.
  intros H. unfold do_cancel. destruct (first_lookup_err s ids) eqn:E.
  - eapply CI_same; eauto; reflexivity.
  - apply CI_fold_cancel; auto. now apply first_lookup_err_None.
Qed.

Lemma CI_fold_cancel_if ids : forall s,
  CI s -> CI (fold_left (fun s t => if mem t (t_running s) then cancel_p s t else s) ids s).
Proof.
  induction ids as [|t r IH]; simpl; intros s H; auto.
  apply IH. destruct (mem t (t_running s)) eqn:E; auto.
  apply CI_cancel_p; auto. now apply mem_In.
Qed.

Lemma CI_cancel_group_body s g ids : CI s -> CI (cancel_group_body s g ids).
Proof.
  intros H. unfold cancel_group_body. apply CI_fold_cancel_if.
  eapply CI_same; [| |exact H].
  - rewrite pv_mark_dead. apply pv_cancel_group_metas.
  - cbn [ctl mark_dead set_mtasks]. apply ctl_cancel_group_metas.
Qed.

Lemma CI_cancel_all_groups gs : forall s, CI s -> CI (cancel_all_groups s gs).
Proof.
  induction gs as [|[g ids] r IH]; simpl; intros s H; auto.
  apply IH. now apply CI_cancel_group_body.
Qed.

(** ** API operations *)
Definition op_other (o : op) : bool :=
  match o with
  | OpCancel _ | OpCancelGroup _ | OpCancelAll | OpStop _ | OpStopAll | OpFinish _ _
  | OpReleaseCb _ => false
  | _ => true
  end.

Lemma pv_fold_know gs s : pview (fold_left know gs s) = pview s.
Proof. apply pv_fold. apply pv_know. Qed.

Definition op_driver (o : op) : bool :=
  match o with OpDriver _ | OpUnlock => true | _ => false end.

Lemma pv_do_op_other s o :
  op_other o = true -> op_driver o = false -> pview (do_op s o) = pview s.
Proof.
  destruct o; cbn [op_other op_driver]; try discriminate; intros _ _; unfold do_op.
  - (* OpApply *)
    repeat (first [reflexivity | rewrite pv_set_res | rewrite pv_new_meta | rewrite pv_set_groups
                  | rewrite pv_know | dmatch]).
  - (* OpMap *)
    repeat (first [reflexivity | rewrite pv_set_res | rewrite pv_new_meta | rewrite pv_set_groups
                  | rewrite pv_know | dmatch]).
  - (* OpStart *)
    destruct (check_start s false); [reflexivity|].
    rewrite pv_set_res, pv_new_meta, pv_set_groups.
    transitivity (pview (know s (GStart (start_calls s)))); [reflexivity|apply pv_know].
  - reflexivity.
  - destruct v; reflexivity.
  - rewrite pv_set_res. apply pv_fold_know.
Qed.

Lemma pc_do_op_other s o : op_other o = true -> pcore (do_op s o) = pcore s.
Proof.
  intros H. destruct (op_driver o) eqn:Ed.
  - destruct o; try discriminate; unfold do_op, pcore.
    + destruct (Nat.ltb 0 (n_gac s)); reflexivity.
    + rewrite pv_sched. destruct k; reflexivity.
  - now apply pcore_of_pview, pv_do_op_other.
Qed.

Lemma ctl_know s g : ctl (know s g) = ctl s.
Proof. unfold know. destruct (existsb _ _); reflexivity. Qed.

Lemma CI_stop_res s ids :
  CI s -> CI (match res s with RErr _ => s | _ => set_res s (RIds ids) end).
Proof.
  intros H. destruct (res s); auto; eapply CI_same; eauto; reflexivity.
Qed.

Lemma PI_do_op s o : CI s -> PI (do_op s o).
Proof.
  intros H. destruct (op_other o) eqn:Eo.
  { eapply PI_Qpc; [apply pc_do_op_other; auto|apply H]. }
  destruct o; try discriminate; unfold do_op.
  - (* OpCancel *) now apply CI_do_cancel.
  - (* OpCancelGroup *)
    assert (Hk : CI (know s g)) by (eapply CI_same; eauto using pv_know, ctl_know).
    destruct (glookup g (groups (know s g))).
    + apply CI_cancel_group_body. eapply CI_same; [| |exact Hk]; reflexivity.
    + eapply PI_Qpc; [|apply Hk]. reflexivity.
  - (* OpCancelAll *)
    apply CI_cancel_all_groups. eapply CI_same; [| |exact H]; reflexivity.
  - (* OpStop *) apply CI_stop_res. now apply CI_do_cancel.
  - (* OpStopAll *) apply CI_stop_res. now apply CI_do_cancel.
  - (* OpFinish *)
    destruct H as [[H1 Hk] _]. destruct (get_p s tid) as [x|] eqn:Ex; [|split; auto].
    pose proof (Hk tid x Ex) as Ht. pose proof (TOKv_ex _ tid Hk).
    pi_put. apply L_finish. exact Ht.
  - (* OpReleaseCb *)
    destruct H as [[H1 Hk] _]. destruct (get_p s tid) as [x|] eqn:Ex; [|split; auto].
    pose proof (Hk tid x Ex) as Ht. pose proof (TOKv_ex _ tid Hk).
    pi_put. apply L_release. exact Ht.
Qed.

(** I1 for the operations *)
Lemma I1_cancel_p s t : I1 s -> I1 (cancel_p s t).
Proof. intros H. apply I1_iff. rewrite pv_cancel_p. apply I1v_cancel_p, I1_iff, H. Qed.

Lemma fold_inv {A} (P : state -> Prop) (f : state -> A -> state) :
  (forall s a, P s -> P (f s a)) -> forall l s, P s -> P (fold_left f l s).
Proof. intros H l. induction l; simpl; auto. Qed.

Lemma I1_pv s s' : pview s' = pview s -> I1 s -> I1 s'.
Proof. intros E. apply I1_Qpc. now apply pcore_of_pview. Qed.

Lemma I1_do_cancel s ids : I1 s -> I1 (do_cancel s ids).
Proof.
  intros H. unfold do_cancel. destruct (first_lookup_err s ids).
  - eapply I1_pv; [|exact H]. reflexivity.
  - apply fold_inv; auto. intros; now apply I1_cancel_p.
Qed.

Lemma I1_cancel_group_body s g ids : I1 s -> I1 (cancel_group_body s g ids).
Proof.
  intros H. unfold cancel_group_body. apply fold_inv.
  - intros s0 t H0. destruct (mem t (t_running s0)); auto. now apply I1_cancel_p.
  - eapply I1_pv; [|exact H]. rewrite pv_mark_dead. apply pv_cancel_group_metas.
Qed.

Lemma I1_cancel_all_groups gs : forall s, I1 s -> I1 (cancel_all_groups s gs).
Proof.
  induction gs as [|[g ids] r IH]; simpl; intros s H; auto.
  apply IH. now apply I1_cancel_group_body.
Qed.

Lemma I1_stop_res s ids :
  I1 s -> I1 (match res s with RErr _ => s | _ => set_res s (RIds ids) end).
Proof. intros H. destruct (res s); auto; (eapply I1_pv; [|exact H]; reflexivity). Qed.

Lemma I1_do_op s o : I1 s -> I1 (do_op s o).
Proof.
  intros H. destruct (op_other o) eqn:Eo.
  { eapply I1_Qpc; [apply pc_do_op_other; auto|apply H]. }
  destruct o; try discriminate; unfold do_op.
  - now apply I1_do_cancel.
  - assert (Hk : I1 (know s g)) by (eapply I1_pv; eauto using pv_know).
    destruct (glookup g (groups (know s g))).
    + apply I1_cancel_group_body. eapply I1_pv; [|exact Hk]; reflexivity.
    + eapply I1_pv; [|apply Hk]. reflexivity.
  - apply I1_cancel_all_groups. eapply I1_pv; [|exact H]; reflexivity.
  - apply I1_stop_res. now apply I1_do_cancel.
  - apply I1_stop_res. now apply I1_do_cancel.
  - destruct (get_p s tid) as [x|] eqn:Ex; auto. i1leaf. apply I1v_vput, I1_iff, H.
  - destruct (get_p s tid) as [x|] eqn:Ex; auto. i1leaf. apply I1v_vput, I1_iff, H.
Qed.
