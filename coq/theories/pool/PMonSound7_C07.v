(** Monitor soundness for C07, complete: on the model's own observation stream (clean, P-iter
    run) the monitor reports no clause of property 7.

    [PMonSound_C07] covers [C07_forgotten] and [C07_unknown_no_change].  Here: the tracker's
    [r_dead] flag implies the model's ghost [m_dead] (relation [DR7]; the converse is part of
    [MIR], PMonSound_C45_mir), and no step logs [EvStart] / [EvPull] for a request that is dead
    after the step ([no_late_ev], PMonSound7_j), so [C07_no_late_start] and [C07_no_late_pull]
    never fire. *)
From TP Require Import PInv PSpec PMon PRun PWF PInv_Q.
From TP Require Import PMonSound_trk PMonSound_gen PMonSound_kn PMonSound_C06_mod PMonSound_C06
  PMonSound_C07.
From TP Require Import PMonSound_C45_trk PMonSound_C45_trk2 PMonSound_C45_grp PMonSound_C45_gistep
  PMonSound_C45_lab PMonSound_C45_mir.
From TP Require Import PMonSound7_j.

(** ** tracker side: the clauses of property 7 produced by the events *)
Definition ev_ok7 (rs : list req) (e : event) : Prop :=
  match e with
  | EvStart _ r _ | EvPull r _ => forall x, nth_error rs r = Some x -> r_dead x = false
  | _ => True
  end.

Lemma N7_on_event k o e : ev_ok7 (k_reqs k) e -> NCp 7 (snd (on_event k o e)).
Proof.
  destruct e as [t r el|t|t|kd t cl|kd t raised|kd t|r n|d oc]; unfold on_event, ev_ok7; intros H.
  - destruct (nth_error (k_reqs k) r) as [x|]; cbn [snd]; [|ncp].
    rewrite (H x eq_refl). cbn [negb fails app].
    apply NCp_app; [destruct (is_map_kind (r_kind x)); ncp|ncp].
  - cbn [snd]. ncp.
  - cbn [snd]. ncp.
  - destruct kd; cbn [snd]; ncp.
  - cbn [snd]. ncp.
  - cbn [snd]. ncp.
  - destruct (nth_error (k_reqs k) r) as [x|]; cbn [snd]; [|ncp].
    rewrite (H x eq_refl). cbn [negb fails]. rewrite app_nil_r. ncp.
  - destruct (nth_error (k_drvs k) d) as [v|]; cbn [snd]; [|ncp].
    destruct (v_kind v); destruct oc; cbn [snd]; try (destruct (k_prev k) as [p|]; cbn [snd]); ncp.
Qed.

Lemma ev_ok7_rq_ev rs e' e : ev_ok7 rs e -> ev_ok7 (rq_ev rs e') e.
Proof.
  assert (Hd : forall r x', nth_error (rq_ev rs e') r = Some x' ->
             exists x, nth_error rs r = Some x /\ r_dead x' = r_dead x).
  { intros r x' Hx'. destruct (rq_ev_nth _ _ _ _ Hx') as (x & Hx & S & _).
    exists x. split; auto. apply S. }
  destruct e; simpl; auto; intros H x' Hx'; destruct (Hd _ _ Hx') as (x & Hx & ->); auto.
Qed.

Lemma N7_on_events es : forall k o,
  (forall e, In e es -> ev_ok7 (k_reqs k) e) -> NCp 7 (snd (on_events k o es)).
Proof.
  induction es as [|e es IH]; intros k o H; simpl; [apply NCp_nil|].
  pose proof (N7_on_event k o e (H e (or_introl eq_refl))) as A.
  pose proof (on_event_reqs k o e) as B.
  destruct (on_event k o e) as [k1 c1]. simpl in A, B.
  assert (H1 : forall e0, In e0 es -> ev_ok7 (k_reqs k1) e0).
  { intros e0 Hin. rewrite B. apply ev_ok7_rq_ev. apply H. right. exact Hin. }
  pose proof (IH k1 o H1) as C. destruct (on_events k1 o es) as [k2 c2]. simpl in *.
  apply NCp_app; auto.
Qed.

Lemma mon_step_7f c k o :
  lcl7 k o = [] ->
  (forall e, In e (o_events o) -> ev_ok7 (k_reqs (fst (on_label c k o))) e) ->
  fp 7 (snd (mon_step c k o)) = [].
Proof.
  intros Hl He. unfold mon_step.
  pose proof (on_label_7 c k o) as (L1 & _).
  destruct (on_label c k o) as [k1 c1]. simpl fst in *. simpl snd in *.
  pose proof (N7_on_events (o_events o) k1 o He) as E1.
  destruct (on_events k1 o (o_events o)) as [k2 c2]. simpl snd in *.
  cbn [snd]. rewrite !fp_app, L1, Hl, (NCp_fp 7 c2 E1).
  rewrite (NCp_fp 7 _ (NC7_state_clauses c _ o)). reflexivity.
Qed.

(** ** the tracker's dead flag implies the model's *)
Definition DR7 (rs : list req) (s : state) : Prop :=
  forall r x y, nth_error rs r = Some x -> get_m s r = Some y -> r_dead x = true ->
                m_dead y = true.

Lemma DR7_mt_same rs s s' : DR7 rs s -> mt_same s s' -> DR7 rs s'.
Proof.
  intros H [L H'] r x y' Hx Hy' Hd.
  destruct (@get_m_ex s r) as [y Hy]; [rewrite <- L; eapply get_m_len; eauto|].
  destruct (H' _ _ _ Hy Hy') as [_ D]. rewrite D. eapply H; eauto.
Qed.

Lemma DR7_eq rs s s' : mtasks s' = mtasks s -> DR7 rs s -> DR7 rs s'.
Proof. intros E H. eapply DR7_mt_same; eauto. apply mt_same_eq; auto. Qed.

Lemma DR7_app rs s s' x y :
  DR7 rs s -> length rs = length (mtasks s) -> mtasks s' = mtasks s ++ [y] -> r_dead x = false ->
  DR7 (rs ++ [x]) s'.
Proof.
  intros H L E Hx r x' y' Hx' Hy' Hd. unfold get_m in Hy'. rewrite E in Hy'.
  apply nth_error_snoc_inv in Hx'. apply nth_error_snoc_inv in Hy'.
  destruct Hx' as [Hx'|[-> ->]]; destruct Hy' as [Hy'|[E2 ->]].
  - eapply H; eauto.
  - exfalso. assert (r < length rs) by (apply nth_error_Some; congruence). lia.
  - exfalso. assert (length rs < length (mtasks s)) by (apply nth_error_Some; congruence). lia.
  - congruence.
Qed.

Lemma DR7_kill_if rs s s' g :
  MIR rs s -> DR7 rs s -> mt_kill g s s' ->
  DR7 (map (fun x => if gname_eqb g (r_group x) then req_kill x else x) rs) s'.
Proof.
  intros [L M] H [L' H'] r x' y' Hx' Hy' Hd. rewrite nth_error_map in Hx'.
  destruct (nth_error rs r) as [x|] eqn:Hx; [|discriminate]. simpl in Hx'. inversion Hx'; subst x'.
  destruct (@get_m_ex s r) as [y Hy]; [rewrite <- L'; eapply get_m_len; eauto|].
  destruct (H' _ _ _ Hy Hy') as [_ [_ D]]. apply D.
  destruct (M _ _ _ Hx Hy) as (_ & _ & _ & _ & _ & Eg & _).
  destruct (gname_eqb_spec g (r_group x)) as [E|Ne].
  - right. congruence.
  - left. eapply H; eauto.
Qed.

Lemma DR7_all_dead rs s : (forall k y, get_m s k = Some y -> m_dead y = true) -> DR7 rs s.
Proof. intros H r x y _ Hy _. eapply H; eauto. Qed.

Lemma DR7_spawned rs s s' (xm : gname -> mtask) (xr : gname -> req) :
  MIR rs s -> DR7 rs s -> spawned s s' xm -> (forall g, r_dead (xr g) = false) ->
  DR7 (match res s' with RName n => rs ++ [xr n] | _ => rs end) s'.
Proof.
  intros [L _] H [(g & Hr & Em)|(Hr & Em)] Hx.
  - rewrite Hr. eapply DR7_app; eauto.
  - destruct (res s') eqn:E; try (eapply DR7_eq; eauto). exfalso. eapply Hr; eauto.
Qed.

Lemma DR7_events es : forall rs s, DR7 rs s -> DR7 (fold_left rq_ev es rs) s.
Proof.
  intros rs s H r x' y Hx' Hy Hd.
  destruct (fold_rq_ev_nth _ _ _ _ Hx') as (x & Hx & S & _).
  apply (H r x y Hx Hy). destruct S as (_ & _ & _ & _ & _ & _ & S). congruence.
Qed.

Theorem DR7_label c s l rs b :
  WFx s -> cfg s = c -> MIR rs s -> DR7 rs s ->
  VVi (step s l) ->
  DR7 (lab_reqs c rs b (obs_of (step s l) l (enabled (set_res (set_evs s []) RNone) l))) (step s l).
Proof.
  intros X Hc HM HD HV. unfold lab_reqs. cbn [o_enabled o_label o_res obs_of].
  set (sa := set_res (set_evs s []) RNone).
  destruct (enabled sa l) eqn:Hen; cbn [negb].
  2:{ unfold step. fold sa. rewrite Hen. cbn [negb]. eapply DR7_eq; eauto. }
  assert (Hrun : (forall o, l <> LOp o) -> DR7 rs (step s l)).
  { intros. eapply DR7_mt_same; [exact HD|]. apply mt_same_step_run; auto. }
  destruct l as [h| |o]; try (apply Hrun; intros; discriminate).
  assert (Hst : step s (LOp o) = do_op sa o) by (unfold step; fold sa; rewrite Hen; reflexivity).
  assert (HMa : MIR rs sa) by (eapply MIR_eq; [|exact HM]; reflexivity).
  assert (HDa : DR7 rs sa) by (eapply DR7_eq; [|exact HD]; reflexivity).
  destruct o; try (rewrite Hst; eapply DR7_mt_same; [exact HDa|apply simple_op_mt_same; reflexivity]).
  - rewrite Hst.
    apply (DR7_spawned rs sa _ _ (fun n => mk_req MApply num bad [] 0 w ecb ccb n b) HMa HDa
             (spawned_apply sa num bad noncoro w ecb ccb g)).
    intros n. reflexivity.
  - rewrite Hst.
    apply (DR7_spawned rs sa _ _ (fun n => mk_req (MMap stars) 0 [] els nc default_w ecb ccb n b)
             HMa HDa (spawned_map sa stars els nc noncoro ecb ccb g)).
    intros n. reflexivity.
  - rewrite Hst. subst c.
    apply (DR7_spawned rs sa _ _
             (fun n => mk_req MStart num (cf_bad (cfg s)) [] 0 (cf_w (cfg s)) (cf_ecb (cfg s)) (cf_ccb (cfg s)) n b)
             HMa HDa (spawned_start sa num)).
    intros n. reflexivity.
  - rewrite Hst.
    destruct (cancel_group_cases sa g) as [[Hr Hk]|[[e Hr] Em]]; cbv zeta in *.
    + rewrite Hr, res_know. cbn [res sa set_res]. apply (DR7_kill_if rs sa _ g HMa HDa Hk).
    + rewrite Hr. eapply DR7_eq; eauto.
  - apply DR7_all_dead. intros k y Hy.
    destruct (m_dead y) eqn:Hd; auto. exfalso.
    pose proof (HV k y Hy Hd) as Hg.
    assert (Hgr : groups (step s (LOp OpCancelAll)) = []).
    { rewrite Hst. cbn [do_op]. now rewrite gr_cancel_all_groups. }
    rewrite Hgr in Hg. discriminate.
Qed.

(** ** the relation between the model state and the tracker after the same prefix *)
Definition RR7f (c : config) (s : state) (k : trk) : Prop :=
  RR7 c s k /\ MIR (k_reqs k) s /\ DR7 (k_reqs k) s.

Lemma RR7f_init c : RR7f c (init c) (trk_init c).
Proof.
  split; [split; [exists []; reflexivity|left; split; reflexivity]|]. split.
  - split; [reflexivity|]. intros r x y H. destruct r; discriminate H.
  - intros r x y H. destruct r; discriminate H.
Qed.

Lemma mon_step_sound7f c s k l :
  RR7f c s k -> clean (step s l) -> taint_iter (step s l) = false ->
  let o := obs_of (step s l) l (enabled (set_res (set_evs s []) RNone) l) in
  fp 7 (snd (mon_step c k o)) = [] /\ RR7f c (step s l) (fst (mon_step c k o)).
Proof.
  intros (HR & HM & HD) Hc Ht o.
  pose proof HR as ((tr0 & Hs) & _).
  destruct (mon_step_sound7 c s k l HR Hc) as [_ HR'].
  destruct (mon_step_45 c k o) as (kk & _ & Hr1 & Hrk & _ & Hr' & _).
  cbv zeta in *.
  set (rs := k_reqs k) in *. set (b := negb (k_gac_req k)) in *.
  assert (Hcfg : cfg s = c) by (rewrite Hs; apply cfg_run).
  assert (Hrun : step s l = run c (tr0 ++ [l])) by (rewrite run_snoc, Hs; reflexivity).
  assert (Hc0 : clean s) by (eapply clean_step_inv'; eauto).
  assert (Ht0 : taint_iter s = false) by (eapply taint_iter_step_inv; eauto).
  assert (X : WFx s) by (rewrite Hs; apply WFx_run; rewrite <- Hs; exact Hc0).
  assert (HJ : J7 s) by (rewrite Hs; apply J7_run; rewrite <- Hs; auto).
  assert (G' : GI (cf_kind c = KSimple) (step s l))
    by (rewrite Hrun; apply GI_run; rewrite <- Hrun; auto).
  set (s' := step s l) in *.
  change (o_events o) with (evs s') in *.
  set (rs1 := lab_reqs c rs b o) in *.
  assert (HM1 : MIR rs1 s') by (apply (MIR_label c s l rs b X Hcfg HM)).
  assert (HD1 : DR7 rs1 s') by (apply (DR7_label c s l rs b X Hcfg HM HD (gi_vv G'))).
  split.
  - apply mon_step_7f.
    + apply (lcl7_nil c s k l HR Hc).
    + rewrite Hr1. fold rs1. change (o_events o) with (evs s').
      assert (Hno : forall r x1, nth_error rs1 r = Some x1 -> r_dead x1 = true ->
                (forall n, ~ In (EvPull r n) (evs s')) /\
                (forall t el, ~ In (EvStart t r el) (evs s'))).
      { intros r x1 Hx1 Hd1. destruct HM1 as [L1 _].
        destruct (@get_m_ex s' r) as [y' Hy'];
          [rewrite <- L1; apply nth_error_Some; congruence|].
        apply (no_late_ev s l X HJ Hc Ht r y' Hy'). eapply HD1; eauto. }
      intros e Hin. destruct e as [t r el|t|t|kd t cl|kd t raised|kd t|r n|d oc]; simpl; auto.
      * intros x1 Hx1. destruct (r_dead x1) eqn:Hd1; auto. exfalso.
        destruct (Hno r x1 Hx1 Hd1) as [_ Hst]. eapply Hst; eauto.
      * intros x1 Hx1. destruct (r_dead x1) eqn:Hd1; auto. exfalso.
        destruct (Hno r x1 Hx1 Hd1) as [Hpl _]. eapply Hpl; eauto.
  - split; [exact HR'|]. rewrite Hr', Hrk, Hr1. fold rs1.
    change (o_events o) with (evs s'). split.
    + apply MIR_events. exact HM1.
    + apply DR7_events. exact HD1.
Qed.

(** ** whole runs *)
Lemma mon_run_sound7f c : forall tr s k i,
  RR7f c s k -> clean (fold_left step tr s) -> taint_iter (fold_left step tr s) = false ->
  mon_run c 7 k i (observe_from s tr) = None.
Proof.
  induction tr as [|l tr IH]; intros s k i HR Hc Ht; simpl; auto.
  simpl in Hc, Ht.
  assert (Hc1 : clean (step s l)) by (eapply clean_fold_inv; eauto).
  assert (Ht1 : taint_iter (step s l) = false)
    by (eapply (taint_fold_inv taint_iter taint_iter_step_inv); eauto).
  destruct (mon_step_sound7f c s k l HR Hc1 Ht1) as [Hf HR'].
  cbv zeta in Hf, HR'.
  destruct (mon_step c k _) as [k' cs]. simpl in Hf, HR'. unfold fp in Hf.
  rewrite Hf. apply IH; auto.
Qed.

(** Monitor soundness for C07: on the observation stream of a clean run of the model in which no
    group was cancelled from inside its own argument iterator (P-iter), the monitor reports no
    clause of property 7. *)
Theorem mon_C07_sound : forall c tr,
  clean (run c tr) -> taint_iter (run c tr) = false ->
  PMon.ok_C07 c (PObs.observe c tr) = true.
Proof.
  intros c tr Hc Ht. unfold ok_C07, ok_prop, observe.
  rewrite (mon_run_sound7f c tr (init c) (trk_init c) 0 (RR7f_init c) Hc Ht). reflexivity.
Qed.

Print Assumptions mon_C07_sound.
