(** Monitor soundness, C01 pilot — the model side: how the events emitted in one step relate
    to the program counters of the pool tasks.

    [Inv V s ov]: the view [V] (live workers, callbacks in flight — as the tracker computes them
    from the events) is consistent with the task records of [s]:
      - the live list has no duplicates and lists only tasks whose worker is live,
      - every task inside a cancel / end callback is listed as such.
    [ov = Some (a, vc)] overrides the class of the task [a] that is currently executing (its
    record in the state is stale until the final [put_p]). *)
From TP Require Import PMon PInv_R_base PInv_R_tr PMonSound_trk.

Inductive vclass := VLive | VCan | VEnd | VNone.

Definition cls (p : ppc) : vclass :=
  match p with
  | PUStart | PWaitGate | PUResume | PUCancelled => VLive
  | PUCancelCb | PWaitCcb => VCan
  | PUEndCb | PWaitEcb => VEnd
  | PCreated | PDone => VNone
  end.

Definition cls_rec (s : state) (u : nat) : option vclass :=
  option_map (fun x => cls (p_pc x)) (get_p s u).

Definition cls_at (s : state) (ov : option (nat * vclass)) (u : nat) : option vclass :=
  match ov with
  | Some (a, vc) => if Nat.eqb u a then Some vc else cls_rec s u
  | None => cls_rec s u
  end.

Definition Inv (V : view) (s : state) (ov : option (nat * vclass)) : Prop :=
  NoDup (fst V) /\
  (forall u, In u (fst V) -> cls_at s ov u = Some VLive) /\
  (forall u, cls_at s ov u = Some VCan -> In (u, KCancel) (snd V)) /\
  (forall u, cls_at s ov u = Some VEnd -> In (u, KEnd) (snd V)) /\
  (forall a vc, ov = Some (a, vc) -> a < length (ptasks s)).

Definition Q (n : nat) (V0 : view) (ts : bool) (ov : option (nat * vclass)) (s : state) : Prop :=
  Inv (fold_left (vev n) (evs s) V0) s ov /\ taint_size s = ts.

(** ** basic *)
Lemma Q_eq n V0 ts ov s s' :
  ptasks s' = ptasks s -> evs s' = evs s -> taint_size s' = taint_size s ->
  Q n V0 ts ov s -> Q n V0 ts ov s'.
Proof.
  unfold Q, Inv, cls_at, cls_rec, get_p. intros -> -> ->. auto.
Qed.

Lemma Q_sched n V0 ts ov s h : Q n V0 ts ov s -> Q n V0 ts ov (sched s h).
Proof. apply Q_eq; unfold sched; destruct (is_ready s h); reflexivity. Qed.

Lemma Q_fold {A} (f : state -> A -> state) n V0 ts ov :
  (forall s x, Q n V0 ts ov s -> Q n V0 ts ov (f s x)) ->
  forall l s, Q n V0 ts ov s -> Q n V0 ts ov (fold_left f l s).
Proof. intros Hf. induction l as [|x l IH]; simpl; intros s H; auto. Qed.

Lemma Q_sched_cbs n V0 ts ov s r : Q n V0 ts ov s -> Q n V0 ts ov (sched_cbs s r).
Proof. intros H. unfold sched_cbs. apply Q_fold; auto. intros; apply Q_sched; auto. Qed.

Lemma Q_put_m n V0 ts ov s m x : Q n V0 ts ov s -> Q n V0 ts ov (put_m s m x).
Proof. exact (fun H => H). Qed.
Lemma Q_put_d n V0 ts ov s m x : Q n V0 ts ov s -> Q n V0 ts ov (put_d s m x).
Proof. exact (fun H => H). Qed.
Lemma Q_set_ctl n V0 ts ov s c : Q n V0 ts ov s -> Q n V0 ts ov (set_ctl s c).
Proof. exact (fun H => H). Qed.
Lemma Q_set_res n V0 ts ov s r : Q n V0 ts ov s -> Q n V0 ts ov (set_res s r).
Proof. exact (fun H => H). Qed.
Lemma Q_set_groups n V0 ts ov s r : Q n V0 ts ov s -> Q n V0 ts ov (set_groups s r).
Proof. exact (fun H => H). Qed.
Lemma Q_set_start_calls n V0 ts ov s r : Q n V0 ts ov s -> Q n V0 ts ov (set_start_calls s r).
Proof. exact (fun H => H). Qed.

Definition other_ev (e : event) : bool :=
  match e with EvCancelled _ | EvPull _ _ | EvDriverDone _ _ => true | _ => false end.

Lemma Q_emit_other n V0 ts ov s e : other_ev e = true -> Q n V0 ts ov s -> Q n V0 ts ov (emit s e).
Proof.
  intros He [H Ht]. split; [|exact Ht]. unfold emit. cbn [evs set_evs].
  rewrite fold_left_app. simpl.
  replace (vev n (fold_left (vev n) (evs s) V0) e) with (fold_left (vev n) (evs s) V0)
    by (destruct e; simpl in *; congruence).
  exact H.
Qed.

(** records: the executing task's record is irrelevant; other records may change while keeping
    their class *)
Lemma cls_rec_put_neq s t x u : u <> t -> cls_rec (put_p s t x) u = cls_rec s u.
Proof. intros H. unfold cls_rec. rewrite get_p_put_p_neq; auto. Qed.

Lemma Q_put_p_active n V0 ts a vc s x :
  Q n V0 ts (Some (a, vc)) s -> Q n V0 ts (Some (a, vc)) (put_p s a x).
Proof.
  intros [(H1 & H2 & H3 & H4 & H5) Ht]. split; [|exact Ht].
  change (evs (put_p s a x)) with (evs s).
  assert (Hc : forall u, cls_at (put_p s a x) (Some (a, vc)) u = cls_at s (Some (a, vc)) u).
  { intros u. unfold cls_at. destruct (Nat.eqb_spec u a); auto. apply cls_rec_put_neq; auto. }
  split; [exact H1|]. split; [|split; [|split]].
  - intros u Hu. rewrite Hc. auto.
  - intros u Hu. rewrite Hc in Hu. auto.
  - intros u Hu. rewrite Hc in Hu. auto.
  - intros a' vc' [= <- <-]. unfold put_p; cbn. rewrite upd_length. eapply H5; eauto.
Qed.

Lemma Q_put_p_same n V0 ts ov s t x x' :
  Q n V0 ts ov s -> get_p s t = Some x -> cls (p_pc x') = cls (p_pc x) ->
  Q n V0 ts ov (put_p s t x').
Proof.
  intros [(H1 & H2 & H3 & H4 & H5) Ht] Hx Hc. split; [|exact Ht].
  change (evs (put_p s t x')) with (evs s).
  assert (Hr : forall u, cls_rec (put_p s t x') u = cls_rec s u).
  { intros u. destruct (Nat.eq_dec u t) as [->|Hne]; [|apply cls_rec_put_neq; auto].
    unfold cls_rec. rewrite get_p_put_p_eq by (eapply get_p_lt; eauto). rewrite Hx. simpl.
    congruence. }
  assert (Hca : forall u, cls_at (put_p s t x') ov u = cls_at s ov u).
  { intros u. unfold cls_at. destruct ov as [[a vc]|]; auto. destruct (Nat.eqb u a); auto. }
  split; [exact H1|]. split; [|split; [|split]].
  - intros u Hu. rewrite Hca. auto.
  - intros u Hu. rewrite Hca in Hu. auto.
  - intros u Hu. rewrite Hca in Hu. auto.
  - intros a vc E. unfold put_p; cbn. rewrite upd_length. eapply H5; eauto.
Qed.

(** opening / closing the override *)
Lemma Q_open n V0 ts s a x :
  Q n V0 ts None s -> get_p s a = Some x -> Q n V0 ts (Some (a, cls (p_pc x))) s.
Proof.
  intros [(H1 & H2 & H3 & H4 & H5) Ht] Hx. split; [|exact Ht].
  assert (Hc : forall u, cls_at s (Some (a, cls (p_pc x))) u = cls_at s None u).
  { intros u. unfold cls_at. destruct (Nat.eqb_spec u a) as [->|]; auto.
    unfold cls_rec. rewrite Hx. reflexivity. }
  split; [exact H1|]. split; [|split; [|split]].
  - intros u Hu. rewrite Hc. auto.
  - intros u Hu. rewrite Hc in Hu. auto.
  - intros u Hu. rewrite Hc in Hu. auto.
  - intros a' vc' [= <- <-]. eapply get_p_lt; eauto.
Qed.

Lemma Q_close n V0 ts s a vc x :
  Q n V0 ts (Some (a, vc)) s -> get_p s a = Some x -> cls (p_pc x) = vc -> Q n V0 ts None s.
Proof.
  intros [(H1 & H2 & H3 & H4 & H5) Ht] Hx Hv. split; [|exact Ht].
  assert (Hc : forall u, cls_at s (Some (a, vc)) u = cls_at s None u).
  { intros u. unfold cls_at. destruct (Nat.eqb_spec u a) as [->|]; auto.
    unfold cls_rec. rewrite Hx. simpl. congruence. }
  split; [exact H1|]. split; [|split; [|split]].
  - intros u Hu. rewrite <- Hc. auto.
  - intros u Hu. rewrite <- Hc in Hu. auto.
  - intros u Hu. rewrite <- Hc in Hu. auto.
  - intros a' vc' E. discriminate.
Qed.

(** the final [put_p] of the executing task *)
Lemma Q_put_close n V0 ts s a x :
  Q n V0 ts (Some (a, cls (p_pc x))) s -> Q n V0 ts None (put_p s a x).
Proof.
  intros H. pose proof (proj1 H) as (_ & _ & _ & _ & H5).
  eapply Q_close with (a := a) (x := x); [apply Q_put_p_active; exact H| |reflexivity].
  apply get_p_put_p_eq. eapply H5; eauto.
Qed.

(** dropping a callback class (extra entries of the callback list are harmless) *)
Lemma Q_drop n V0 ts s a vc :
  Q n V0 ts (Some (a, vc)) s -> vc <> VLive -> Q n V0 ts (Some (a, VNone)) s.
Proof.
  intros [(H1 & H2 & H3 & H4 & H5) Ht] Hv. split; [|exact Ht].
  split; [exact H1|]. split; [|split; [|split]].
  - intros u Hu. specialize (H2 u Hu). unfold cls_at in *.
    destruct (Nat.eqb u a); auto. congruence.
  - intros u Hu. apply H3. unfold cls_at in *. destruct (Nat.eqb u a); auto. discriminate.
  - intros u Hu. apply H4. unfold cls_at in *. destruct (Nat.eqb u a); auto. discriminate.
  - intros a' vc' [= <- <-]. eapply H5; eauto.
Qed.

(** ** events of the executing task *)
Lemma evs_emit_fold n V0 s e :
  fold_left (vev n) (evs (emit s e)) V0 = vev n (fold_left (vev n) (evs s) V0) e.
Proof. unfold emit. cbn [evs set_evs]. rewrite fold_left_app. reflexivity. Qed.

Lemma cls_at_emit s e ov u : cls_at (emit s e) ov u = cls_at s ov u.
Proof. reflexivity. Qed.

Lemma In_removeall t l u : In u (removeall t l) <-> u <> t /\ In u l.
Proof.
  unfold removeall. rewrite filter_In. destruct (Nat.eqb_spec t u); simpl; intuition congruence.
Qed.

Lemma NoDup_removeall t l : NoDup l -> NoDup (removeall t l).
Proof. intros. unfold removeall. apply NoDup_filter; auto. Qed.

Lemma cbk_eqb_eq a b : cbk_eqb a b = true <-> a = b.
Proof. destruct a, b; simpl; split; congruence. Qed.

Lemma In_del_cb l t k u k' :
  In (u, k') (del_cb l t k) <-> In (u, k') l /\ ~ (u = t /\ k' = k).
Proof.
  unfold del_cb. rewrite filter_In. simpl.
  destruct (Nat.eqb_spec u t) as [->|Hne]; simpl.
  - destruct (cbk_eqb k' k) eqn:Hk; simpl.
    + apply cbk_eqb_eq in Hk. subst. intuition congruence.
    + assert (k' <> k) by (intros ->; destruct k; discriminate). intuition.
  - intuition.
Qed.

Lemma Q_exit n V0 ts s a :
  Q n V0 ts (Some (a, VLive)) s -> Q n V0 ts (Some (a, VNone)) (emit s (EvExit a)).
Proof.
  intros [(H1 & H2 & H3 & H4 & H5) Ht]. split; [|exact Ht].
  rewrite evs_emit_fold. set (V := fold_left (vev n) (evs s) V0) in *.
  simpl vev. cbn [fst snd].
  split; [apply NoDup_removeall; exact H1|]. split; [|split; [|split]].
  - intros u Hu. apply In_removeall in Hu. destruct Hu as [Hne Hu].
    specialize (H2 u Hu). unfold cls_at in *. cbn [cls_rec].
    destruct (Nat.eqb_spec u a); [contradiction|exact H2].
  - intros u Hu. apply H3. unfold cls_at in *. destruct (Nat.eqb u a); [discriminate|exact Hu].
  - intros u Hu. apply H4. unfold cls_at in *. destruct (Nat.eqb u a); [discriminate|exact Hu].
  - intros a' vc' [= <- <-]. eapply H5; eauto.
Qed.

Lemma Q_start n V0 ts s a r el :
  Q n V0 ts (Some (a, VNone)) s -> Q n V0 ts (Some (a, VLive)) (emit s (EvStart a r el)).
Proof.
  intros [(H1 & H2 & H3 & H4 & H5) Ht]. split; [|exact Ht].
  rewrite evs_emit_fold. set (V := fold_left (vev n) (evs s) V0) in *.
  assert (Hna : ~ In a (fst V)).
  { intros Hin. specialize (H2 a Hin). unfold cls_at in H2. rewrite Nat.eqb_refl in H2.
    discriminate. }
  assert (Hother : forall u, u <> a ->
            cls_at (emit s (EvStart a r el)) (Some (a, VLive)) u = cls_at s (Some (a, VNone)) u).
  { intros u Hne. unfold cls_at. destruct (Nat.eqb_spec u a); [contradiction|reflexivity]. }
  simpl vev. destruct (Nat.ltb r n); cbn [fst snd].
  - split; [constructor; auto|]. split; [|split; [|split]].
    + intros u [<-|Hu].
      * unfold cls_at. rewrite Nat.eqb_refl. reflexivity.
      * assert (u <> a) by (intros E; rewrite E in Hu; auto). rewrite Hother; auto.
    + intros u Hu. apply H3. unfold cls_at in *. destruct (Nat.eqb u a); [discriminate|exact Hu].
    + intros u Hu. apply H4. unfold cls_at in *. destruct (Nat.eqb u a); [discriminate|exact Hu].
    + intros a' vc' [= <- <-]. eapply H5; eauto.
  - split; [exact H1|]. split; [|split; [|split]].
    + intros u Hu. assert (u <> a) by (intros E; rewrite E in Hu; auto). rewrite Hother; auto.
    + intros u Hu. apply H3. unfold cls_at in *. destruct (Nat.eqb u a); [discriminate|exact Hu].
    + intros u Hu. apply H4. unfold cls_at in *. destruct (Nat.eqb u a); [discriminate|exact Hu].
    + intros a' vc' [= <- <-]. eapply H5; eauto.
Qed.

Definition kcls (k : cbkind) : vclass := match k with KCancel => VCan | KEnd => VEnd end.

Lemma Q_cbbegin n V0 ts s a k cl :
  Q n V0 ts (Some (a, VNone)) s -> Q n V0 ts (Some (a, kcls k)) (emit s (EvCbBegin k a cl)).
Proof.
  intros [(H1 & H2 & H3 & H4 & H5) Ht]. split; [|exact Ht].
  rewrite evs_emit_fold. set (V := fold_left (vev n) (evs s) V0) in *.
  simpl vev. cbn [fst snd].
  split; [exact H1|]. split; [|split; [|split]].
  - intros u Hu. specialize (H2 u Hu). unfold cls_at in *.
    destruct (Nat.eqb u a); [discriminate|exact H2].
  - intros u Hu. unfold cls_at in Hu. cbn [cls_rec] in Hu.
    destruct (Nat.eqb_spec u a) as [E|Hne]; [subst u|].
    + destruct k; [discriminate|]. left. reflexivity.
    + right. apply H3. unfold cls_at. destruct (Nat.eqb_spec u a); [contradiction|exact Hu].
  - intros u Hu. unfold cls_at in Hu.
    destruct (Nat.eqb_spec u a) as [E|Hne]; [subst u|].
    + destruct k; [|discriminate]. left. reflexivity.
    + right. apply H4. unfold cls_at. destruct (Nat.eqb_spec u a); [contradiction|exact Hu].
  - intros a' vc' [= <- <-]. eapply H5; eauto.
Qed.

Lemma Q_cbdel n V0 ts s a vc e k :
  Q n V0 ts (Some (a, vc)) s -> vc <> VLive ->
  (forall V, vev n V e = (fst V, del_cb (snd V) a k)) ->
  Q n V0 ts (Some (a, VNone)) (emit s e).
Proof.
  intros [(H1 & H2 & H3 & H4 & H5) Ht] Hvc He. split; [|exact Ht].
  rewrite evs_emit_fold. set (V := fold_left (vev n) (evs s) V0) in *.
  rewrite He. cbn [fst snd].
  split; [exact H1|]. split; [|split; [|split]].
  - intros u Hu. specialize (H2 u Hu). unfold cls_at in *.
    destruct (Nat.eqb u a); [congruence|exact H2].
  - intros u Hu. unfold cls_at in Hu. destruct (Nat.eqb_spec u a) as [E|Hne]; [discriminate|].
    apply In_del_cb. split; [|intros [? _]; contradiction].
    apply H3. unfold cls_at. destruct (Nat.eqb_spec u a); [contradiction|exact Hu].
  - intros u Hu. unfold cls_at in Hu. destruct (Nat.eqb_spec u a) as [E|Hne]; [discriminate|].
    apply In_del_cb. split; [|intros [? _]; contradiction].
    apply H4. unfold cls_at. destruct (Nat.eqb_spec u a); [contradiction|exact Hu].
  - intros a' vc' [= <- <-]. eapply H5; eauto.
Qed.

Lemma Q_cbend n V0 ts s a vc k r :
  Q n V0 ts (Some (a, vc)) s -> vc <> VLive ->
  Q n V0 ts (Some (a, VNone)) (emit s (EvCbEnd k a r)).
Proof. intros H Hv. eapply Q_cbdel with (k := k); eauto. Qed.

Lemma Q_cbint n V0 ts s a vc k :
  Q n V0 ts (Some (a, vc)) s -> vc <> VLive ->
  Q n V0 ts (Some (a, VNone)) (emit s (EvCbInterrupted k a)).
Proof. intros H Hv. eapply Q_cbdel with (k := k); eauto. Qed.

(** ** semaphore *)
Lemma Q_wake_next n V0 ts ov s : Q n V0 ts ov s -> Q n V0 ts ov (wake_next s).
Proof.
  intros H. unfold wake_next. destruct (first_pending s (sem_waiters s)); auto.
  destruct (get_m s n0); auto. apply Q_sched. exact H.
Qed.

Lemma Q_sem_release n V0 ts ov s : Q n V0 ts ov s -> Q n V0 ts ov (sem_release s).
Proof. intros H. unfold sem_release. apply Q_wake_next. exact H. Qed.

Lemma Q_map_release n V0 ts ov s m : Q n V0 ts ov s -> Q n V0 ts ov (map_release s m).
Proof.
  intros H. unfold map_release. destruct (get_m s m) as [x|]; auto.
  destruct (m_pc x); try exact H. destruct (m_fw x) as [[| | |]|]; try exact H.
  apply Q_sched. exact H.
Qed.

(** ** pool tasks *)
Lemma Q_finish_p n V0 ts s t x :
  Q n V0 ts (Some (t, VNone)) s -> Q n V0 ts None (finish_p s t x).
Proof.
  intros H. unfold finish_p. apply Q_set_ctl, Q_sched_cbs, Q_put_close. exact H.
Qed.

Lemma Q_suspend_p n V0 ts s t x pc :
  Q n V0 ts (Some (t, cls pc)) s -> Q n V0 ts None (suspend_p s t x pc).
Proof.
  intros H. unfold suspend_p. destruct (p_mc x).
  - apply Q_set_ctl, Q_sched, Q_put_close. exact H.
  - apply Q_set_ctl, Q_put_close. exact H.
Qed.

Lemma Q_user_cb n V0 ts s t x k cl c :
  Q n V0 ts (Some (t, VNone)) s -> cls (p_pc x) = kcls k ->
  Q n V0 ts None (set_ctl (emit (put_p s t x) (EvCbBegin k t cl)) c).
Proof.
  intros H Hc. apply Q_set_ctl.
  eapply Q_close with (a := t) (x := x).
  - apply Q_cbbegin. apply Q_put_p_active. exact H.
  - change (get_p (put_p s t x) t = Some x). apply get_p_put_p_eq.
    destruct H as [(_ & _ & _ & _ & H5) _]. eapply H5; eauto.
  - exact Hc.
Qed.

Lemma Q_user_start n V0 ts s t x r el c :
  Q n V0 ts (Some (t, VNone)) s -> cls (p_pc x) = VLive ->
  Q n V0 ts None (set_ctl (emit (put_p s t x) (EvStart t r el)) c).
Proof.
  intros H Hc. apply Q_set_ctl.
  eapply Q_close with (a := t) (x := x).
  - apply Q_start. apply Q_put_p_active. exact H.
  - change (get_p (put_p s t x) t = Some x). apply get_p_put_p_eq.
    destruct H as [(_ & _ & _ & _ & H5) _]. eapply H5; eauto.
  - exact Hc.
Qed.

Lemma Q_moved n V0 ts s1 t x :
  Q n V0 ts (Some (t, VNone)) s1 ->
  Q n V0 ts None (let s2 := set_t_ended s1 (dict_add (t_ended s1) t) in
     let s3 := sem_release s2 in
     let x := set_p_nrel x (S (p_nrel x)) in
     let s4 := if p_ismap x then map_release s3 (p_req x) else s3 in
     match p_ecb x with
     | CbNone => finish_p s4 t x
     | _ =>
        set_ctl (emit (put_p s4 t (set_p_pc (set_p_necb x (S (p_necb x))) PUEndCb))
                      (EvCbBegin KEnd t (classify s4 t)))
                (CUser (TP t))
     end).
Proof.
  intros H. cbv zeta.
  set (s3 := sem_release (set_t_ended s1 (dict_add (t_ended s1) t))).
  assert (H3 : Q n V0 ts (Some (t, VNone)) s3) by (apply Q_sem_release; exact H).
  set (x1 := set_p_nrel x (S (p_nrel x))).
  set (s4 := if p_ismap x1 then map_release s3 (p_req x1) else s3).
  assert (H4 : Q n V0 ts (Some (t, VNone)) s4).
  { unfold s4. destruct (p_ismap x1); auto. apply Q_map_release; auto. }
  clearbody s4. clear H3. clearbody s3.
  destruct (p_ecb x1).
  - apply Q_finish_p; auto.
  - apply Q_user_cb; auto.
  - apply Q_user_cb; auto.
Qed.

Lemma Q_enter_end n V0 ts s t x :
  Q n V0 ts (Some (t, VNone)) s -> Q n V0 ts None (enter_end s t x).
Proof.
  intros H. unfold enter_end.
  destruct (mem t (t_running s)); [|destruct (mem t (t_cancelled s))].
  - apply Q_moved. exact H.
  - apply Q_moved. exact H.
  - apply Q_finish_p; auto.
Qed.

Lemma Q_enter_cancel n V0 ts s t x :
  Q n V0 ts (Some (t, VNone)) s -> Q n V0 ts None (enter_cancel s t x).
Proof.
  intros H. unfold enter_cancel.
  destruct (mem t (t_running s)).
  - destruct (p_ccb x).
    + apply Q_enter_end. exact H.
    + apply Q_user_cb; auto.
    + apply Q_user_cb; auto.
  - apply Q_enter_end; auto.
Qed.

Lemma Q_continue_p n V0 ts s t : Q n V0 ts None s -> Q n V0 ts None (continue_p s t).
Proof.
  intros H. unfold continue_p.
  destruct (get_p s t) as [x|] eqn:Hx; auto.
  pose proof (Q_open n V0 ts s t x H Hx) as Ho.
  destruct (p_pc x) eqn:Hpc; auto; simpl cls in Ho.
  - (* PUStart *)
    destruct (w_first (p_w x)).
    + apply Q_suspend_p; auto.
    + apply Q_enter_end. apply Q_exit. exact Ho.
    + apply Q_enter_end. apply Q_exit. exact Ho.
  - destruct (p_fin x); apply Q_enter_end; apply Q_exit; exact Ho.
  - destruct (w_cancel (p_w x)); [apply Q_enter_cancel|apply Q_enter_end]; apply Q_exit; exact Ho.
  - (* PUCancelCb *)
    destruct (p_ccb x) as [|r|slow r].
    + apply Q_enter_end. eapply Q_drop; eauto. discriminate.
    + apply Q_enter_end. eapply Q_cbend; eauto. discriminate.
    + destruct slow.
      * apply Q_suspend_p; auto.
      * apply Q_enter_end. eapply Q_cbend; eauto. discriminate.
  - (* PUEndCb *)
    destruct (p_ecb x) as [|r|slow r].
    + apply Q_finish_p. eapply Q_drop; eauto. discriminate.
    + apply Q_finish_p. eapply Q_cbend; eauto. discriminate.
    + destruct slow.
      * apply Q_suspend_p; auto.
      * apply Q_finish_p. eapply Q_cbend; eauto. discriminate.
Qed.

Lemma Q_run_p n V0 ts s t : Q n V0 ts None s -> Q n V0 ts None (run_p s t).
Proof.
  intros H. unfold run_p.
  destruct (get_p s t) as [x0|] eqn:Hx; auto.
  pose proof (Q_open n V0 ts s t x0 H Hx) as Ho.
  set (x := set_p_mc (set_p_fw x0 None) false).
  destruct (p_pc x0) eqn:Hpc; auto; simpl cls in Ho.
  - (* PCreated *)
    destruct (task_input (p_mc x0) (p_fw x0)).
    + destruct (p_unst x).
      * apply Q_user_start; auto.
      * apply Q_user_start; auto.
      * apply Q_enter_cancel; auto.
    + apply Q_finish_p; auto.
    + apply Q_finish_p; auto.
  - (* PWaitGate *)
    destruct (task_input (p_mc x0) (p_fw x0)).
    + apply Q_set_ctl, Q_put_close. exact Ho.
    + apply Q_set_ctl, Q_emit_other; [reflexivity|]. apply Q_put_close. exact Ho.
    + apply Q_set_ctl, Q_emit_other; [reflexivity|]. apply Q_put_close. exact Ho.
  - (* PWaitCcb *)
    destruct (task_input (p_mc x0) (p_fw x0)); apply Q_enter_end.
    + eapply Q_cbend; eauto. discriminate.
    + eapply Q_cbint; eauto. discriminate.
    + eapply Q_cbint; eauto. discriminate.
  - (* PWaitEcb *)
    destruct (task_input (p_mc x0) (p_fw x0)); apply Q_finish_p.
    + eapply Q_cbend; eauto. discriminate.
    + eapply Q_cbint; eauto. discriminate.
    + eapply Q_cbint; eauto. discriminate.
Qed.

(** ** spawners *)
Lemma Q_finish_m n V0 ts ov s m x e : Q n V0 ts ov s -> Q n V0 ts ov (finish_m s m x e).
Proof. intros H. unfold finish_m. apply Q_set_ctl, Q_sched_cbs, Q_put_m. exact H. Qed.

Lemma Q_suspend_m n V0 ts ov s m x pc : Q n V0 ts ov s -> Q n V0 ts ov (suspend_m s m x pc).
Proof.
  intros H. unfold suspend_m. destruct (m_mc x).
  - apply Q_set_ctl, Q_sched, Q_put_m. exact H.
  - exact H.
Qed.

Lemma Q_to_iter n V0 ts ov s m : Q n V0 ts ov s -> Q n V0 ts ov (to_iter s m).
Proof.
  intros H. unfold to_iter. destruct (get_m s m); [|exact H].
  apply Q_set_ctl, Q_emit_other; [reflexivity|]. exact H.
Qed.

Lemma Q_register n V0 ts s m x : Q n V0 ts None s -> Q n V0 ts None (register s m x).
Proof.
  intros [(H1 & H2 & H3 & H4 & H5) Ht]. unfold register. apply Q_put_m, Q_sched.
  split; [|exact Ht]. cbn [evs set_t_running set_ptasks set_num_started set_groups].
  match goal with |- Inv _ ?s' None =>
    assert (Hc : forall u, cls_rec s' u = cls_rec s u \/
                           (cls_rec s' u = Some VNone /\ cls_rec s u = None)) end.
  { intros u. unfold cls_rec, get_p. cbn [ptasks set_t_running set_ptasks].
    destruct (lt_eq_lt_dec u (length (ptasks s))) as [[Hlt|Heq]|Hgt].
    - left. rewrite nth_error_app1; auto.
    - right. subst u. rewrite nth_error_snoc_eq. split; [reflexivity|].
      assert (Hn : nth_error (ptasks s) (length (ptasks s)) = None)
        by (apply nth_error_None; auto).
      rewrite Hn. reflexivity.
    - left.
      assert (Hn : nth_error (ptasks s) u = None) by (apply nth_error_None; lia).
      rewrite Hn. match goal with |- option_map _ ?o = _ => assert (Hn' : o = None) end.
      { apply nth_error_None. rewrite app_length. simpl. lia. }
      rewrite Hn'. reflexivity. }
  unfold Inv, cls_at in *.
  split; [exact H1|]. split; [|split; [|split]].
  - intros u Hu. specialize (H2 u Hu). destruct (Hc u) as [E|[E1 E2]]; congruence.
  - intros u Hu. apply H3. destruct (Hc u) as [E|[E1 E2]]; congruence.
  - intros u Hu. apply H4. destruct (Hc u) as [E|[E1 E2]]; congruence.
  - intros a vc E. discriminate.
Qed.

Lemma Q_apply_loop n V0 ts rem : forall s m,
  Q n V0 ts None s -> Q n V0 ts None (apply_loop rem s m).
Proof.
  induction rem as [|r IH]; intros s m H; simpl.
  - destruct (get_m s m); auto. apply Q_finish_m; auto.
  - destruct (get_m s m) as [x|]; auto.
    destruct (nth (m_idx x) (m_bad x) false).
    + apply IH. exact H.
    + unfold try_start. destruct (closed s).
      * apply Q_finish_m; auto.
      * destruct (sem_locked s).
        -- apply Q_suspend_m. exact H.
        -- apply IH. apply Q_register. exact H.
Qed.

Lemma Q_spawn_next n V0 ts s m : Q n V0 ts None s -> Q n V0 ts None (spawn_next s m).
Proof.
  intros H. unfold spawn_next. destruct (get_m s m) as [x|]; auto.
  destruct (m_kind x); [apply Q_apply_loop|apply Q_to_iter|apply Q_apply_loop]; auto.
Qed.

Lemma Q_start_then_next n V0 ts s m x :
  Q n V0 ts None s -> Q n V0 ts None (start_then_next s m x).
Proof.
  intros H. unfold start_then_next, try_start.
  destruct (closed s).
  - apply Q_finish_m; auto.
  - destruct (sem_locked s).
    + apply Q_suspend_m. exact H.
    + apply Q_spawn_next, Q_register. exact H.
Qed.

Lemma Q_continue_m n V0 ts s m : Q n V0 ts None s -> Q n V0 ts None (continue_m s m).
Proof.
  intros H. unfold continue_m. destruct (get_m s m) as [x|]; auto.
  destruct (m_pc x); auto.
  destruct (nth_error (m_els x) (m_idx x)) as [e|].
  - destruct (e_bad e).
    + apply Q_to_iter. exact H.
    + destruct (m_mapval x).
      * apply Q_suspend_m; auto.
      * apply Q_start_then_next; auto.
  - apply Q_finish_m; auto.
Qed.

Lemma Q_run_m n V0 ts s m : Q n V0 ts None s -> Q n V0 ts None (run_m s m).
Proof.
  intros H. unfold run_m. destruct (get_m s m) as [x0|]; auto.
  destruct (m_pc x0); auto.
  - destruct (task_input (m_mc x0) (m_fw x0)).
    + apply Q_spawn_next. exact H.
    + apply Q_finish_m; auto.
    + apply Q_finish_m; auto.
  - destruct (task_input (m_mc x0) (m_fw x0)).
    + apply Q_start_then_next; auto.
    + apply Q_finish_m; auto.
    + apply Q_finish_m; auto.
  - set (x := set_m_mc (set_m_fw x0 None) false).
    set (s1 := put_m (set_sem_waiters s (remove1 m (sem_waiters s))) m x).
    assert (H1 : Q n V0 ts None s1) by exact H.
    clearbody s1.
    destruct (task_input (m_mc x0) (m_fw x0)).
    + apply Q_spawn_next, Q_register.
      destruct (ninf_pos (sem_value s1)); auto. apply Q_wake_next; auto.
    + apply Q_finish_m.
      destruct (match m_fw x0 with Some FCancelled => true | _ => false end); auto.
      apply Q_sem_release; auto.
    + apply Q_finish_m.
      destruct (match m_fw x0 with Some FCancelled => true | _ => false end); auto.
      apply Q_sem_release; auto.
Qed.

(** ** drivers *)
Lemma Q_finish_d n V0 ts ov s d x e : Q n V0 ts ov s -> Q n V0 ts ov (finish_d s d x e).
Proof.
  intros H. unfold finish_d. apply Q_set_ctl, Q_emit_other; [reflexivity|]. exact H.
Qed.

Lemma Q_wake_closed n V0 ts ov l : forall s, Q n V0 ts ov s -> Q n V0 ts ov (wake_closed s l).
Proof.
  induction l as [|d l IH]; simpl; intros s H; auto.
  apply IH. destruct (get_d s d) as [x|]; auto.
  destruct (fut_pending (d_fw x)); auto. apply Q_sched. exact H.
Qed.

Lemma Q_after_g2 n V0 ts ov s d x outer : Q n V0 ts ov s -> Q n V0 ts ov (after_g2 s d x outer).
Proof.
  intros H. unfold after_g2.
  destruct outer; try (apply Q_finish_d; exact H);
    (destruct (d_kind x); [apply Q_finish_d; exact H| |apply Q_finish_d; exact H]);
    apply Q_finish_d, Q_wake_closed; exact H.
Qed.

Lemma Q_start_g2 n V0 ts ov s d x cs re : Q n V0 ts ov s -> Q n V0 ts ov (start_g2 s d x cs re).
Proof.
  intros H. unfold start_g2. destruct (make_gather s (map TP cs) re) as [g outer].
  destruct outer; try (apply Q_after_g2; exact H). exact H.
Qed.

Lemma Q_after_g1 n V0 ts ov s d x outer : Q n V0 ts ov s -> Q n V0 ts ov (after_g1 s d x outer).
Proof.
  intros H. unfold after_g1. destruct (d_kind x) as [re|re|].
  - destruct outer as [| |[]|]; try (apply Q_finish_d; exact H); apply Q_start_g2; exact H.
  - destruct (if re then None else first_exception s
        (match d_g1 x with Some g => g_children g | None => [] end)).
    + apply Q_finish_d; exact H.
    + apply Q_start_g2; exact H.
  - apply Q_finish_d; exact H.
Qed.

Lemma Q_start_g1 n V0 ts ov s d x cs re : Q n V0 ts ov s -> Q n V0 ts ov (start_g1 s d x cs re).
Proof.
  intros H. unfold start_g1. destruct (make_gather s (map TM cs) re) as [g outer].
  destruct outer; try (apply Q_after_g1; exact H). exact H.
Qed.

Lemma Q_run_d n V0 ts ov s d : Q n V0 ts ov s -> Q n V0 ts ov (run_d s d).
Proof.
  intros H. unfold run_d. destruct (get_d s d) as [x0|]; auto.
  destruct (d_pc x0); auto.
  - cbn [d_kind set_d_fw]. destruct (d_kind x0) as [re|re|].
    + destruct (pop_ended s (gmeta s)) as [gm ended]. apply Q_start_g1. exact H.
    + apply Q_start_g1. exact H.
    + destruct (closed s); [apply Q_finish_d|]; exact H.
  - apply Q_after_g1; auto.
  - apply Q_after_g2; auto.
  - apply Q_finish_d. exact H.
Qed.

Lemma Q_run_g n V0 ts ov s d c : Q n V0 ts ov s -> Q n V0 ts ov (run_g s d c).
Proof.
  intros H. unfold run_g. destruct (get_d s d) as [x|]; auto.
  destruct (tref_final s c) as [o|]; auto.
  destruct (match c with TM _ => true | _ => false end);
    (match goal with |- Q _ _ _ _ (match ?g with Some _ => _ | None => _ end) =>
       destruct g as [g0|]; auto end;
     match goal with |- Q _ _ _ _ (match ?f with Some _ => _ | None => _ end) =>
       destruct f as [[| | |]|]; try exact H end;
     match goal with |- Q _ _ _ _ (let '(_, _) := ?p in _) => destruct p as [nfin outer] end;
     destruct outer; try exact H; apply Q_sched; exact H).
Qed.

(** ** operations *)
Lemma Q_know n V0 ts ov s g : Q n V0 ts ov s -> Q n V0 ts ov (know s g).
Proof. intros H. unfold know. destruct (existsb (gname_eqb g) (known s)); exact H. Qed.

Lemma Q_cancel_m n V0 ts ov s m : Q n V0 ts ov s -> Q n V0 ts ov (cancel_m s m).
Proof.
  intros H. unfold cancel_m. destruct (get_m s m) as [x|]; auto.
  destruct (m_final x); auto.
  destruct (is_current s (TM m)); (destruct (fut_pending (m_fw x)); [apply Q_sched|]; exact H).
Qed.

Lemma Q_cancel_p n V0 ts ov s t : Q n V0 ts ov s -> Q n V0 ts ov (cancel_p s t).
Proof.
  intros H. unfold cancel_p. destruct (get_p s t) as [x|] eqn:Hx; auto.
  destruct (p_unst x); try (eapply Q_put_p_same; eauto; reflexivity).
  destruct (p_final x); auto.
  set (s1 := if is_current s (TP t) && final_segment x then set_taint_self s true else s).
  assert (H1 : Q n V0 ts ov s1)
    by (unfold s1; destruct (is_current s (TP t) && final_segment x); exact H).
  assert (Hx1 : get_p s1 t = Some x)
    by (unfold s1; destruct (is_current s (TP t) && final_segment x); exact Hx).
  clearbody s1.
  destruct (fut_pending (p_fw x)).
  - apply Q_sched. eapply Q_put_p_same; eauto; reflexivity.
  - eapply Q_put_p_same; eauto; reflexivity.
Qed.

Lemma Q_do_cancel n V0 ts ov s ids : Q n V0 ts ov s -> Q n V0 ts ov (do_cancel s ids).
Proof.
  intros H. unfold do_cancel. destruct (first_lookup_err s ids); [exact H|].
  apply Q_fold; auto. intros; apply Q_cancel_p; auto.
Qed.

Lemma Q_cancel_group_metas n V0 ts ov s g :
  Q n V0 ts ov s -> Q n V0 ts ov (cancel_group_metas s g).
Proof.
  intros H. unfold cancel_group_metas. destruct (glookup g (gmeta s)) as [ms|]; auto.
  match goal with |- Q _ _ _ _ (set_meta_cancelled ?s' _) => change (Q n V0 ts ov s') end.
  apply Q_fold; [intros; apply Q_cancel_m; auto|]. exact H.
Qed.

Lemma Q_cancel_group_body n V0 ts ov s g ids :
  Q n V0 ts ov s -> Q n V0 ts ov (cancel_group_body s g ids).
Proof.
  intros H. unfold cancel_group_body. apply Q_fold.
  - intros s' t H'. destruct (mem t (t_running s')); auto. apply Q_cancel_p; auto.
  - change (Q n V0 ts ov (cancel_group_metas s g)). apply Q_cancel_group_metas; auto.
Qed.

Lemma Q_cancel_all_groups n V0 ts ov gs : forall s,
  Q n V0 ts ov s -> Q n V0 ts ov (cancel_all_groups s gs).
Proof.
  induction gs as [|[g ids] gs IH]; simpl; intros s H; auto.
  apply IH. apply Q_cancel_group_body; auto.
Qed.

Lemma Q_new_meta n V0 ts ov s x : Q n V0 ts ov s -> Q n V0 ts ov (new_meta s x).
Proof. intros H. unfold new_meta. apply Q_sched. exact H. Qed.

Definition sets_size (o : op) : bool :=
  match o with OpSetSize (Some _) => true | _ => false end.

Lemma Q_do_op n V0 ts ov s o :
  sets_size o = false -> Q n V0 ts ov s -> Q n V0 ts ov (do_op s o).
Proof.
  intros Hso H. destruct o; unfold do_op; cbv zeta.
  - set (s1 := match g with Some g0 => know s g0 | None => s end).
    assert (H1 : Q n V0 ts ov s1) by (unfold s1; destruct g; [apply Q_know|]; exact H).
    clearbody s1.
    destruct (check_start s1 noncoro); [exact H1|].
    match goal with |- Q _ _ _ _ (if ?c then _ else _) => destruct c end; [exact H1|].
    apply Q_set_res, Q_new_meta, Q_set_groups, Q_know; exact H1.
  - set (s1 := match g with Some g0 => know s g0 | None => s end).
    assert (H1 : Q n V0 ts ov s1) by (unfold s1; destruct g; [apply Q_know|]; exact H).
    clearbody s1.
    destruct (check_start s1 noncoro); [exact H1|].
    destruct (nc =? 0); [exact H1|].
    match goal with |- Q _ _ _ _ (if ?c then _ else _) => destruct c end; [exact H1|].
    apply Q_set_res, Q_new_meta, Q_set_groups, Q_know; exact H1.
  - destruct (check_start s false); [exact H|].
    apply Q_set_res, Q_new_meta, Q_set_groups, Q_set_start_calls, Q_know; exact H.
  - apply Q_do_cancel; auto.
  - pose proof (Q_know n V0 ts ov s g H) as H1.
    destruct (glookup g (groups (know s g))); [|exact H1].
    apply Q_cancel_group_body. exact H1.
  - apply Q_cancel_all_groups. exact H.
  - match goal with |- Q _ _ _ _ (match res ?s' with _ => _ end) =>
      assert (H1 : Q n V0 ts ov s') by (apply Q_do_cancel; exact H);
      destruct (res s'); exact H1 end.
  - match goal with |- Q _ _ _ _ (match res ?s' with _ => _ end) =>
      assert (H1 : Q n V0 ts ov s') by (apply Q_do_cancel; exact H);
      destruct (res s'); exact H1 end.
  - exact H.
  - destruct (0 <? n_gac s); exact H.
  - destruct v; [discriminate Hso|exact H].
  - match goal with |- Q _ _ _ _ (set_res ?s' _) => change (Q n V0 ts ov s') end.
    apply Q_fold; auto. intros; apply Q_know; auto.
  - apply Q_sched. destruct k; exact H.
  - destruct (get_p s tid) as [x|] eqn:Hx; [|exact H].
    apply Q_sched. eapply Q_put_p_same; eauto; reflexivity.
  - destruct (get_p s tid) as [x|] eqn:Hx; [|exact H].
    apply Q_sched. eapply Q_put_p_same; eauto; reflexivity.
Qed.

(** ** one step *)
Lemma is_setsize_label l :
  is_setsize l = match l with LOp o => sets_size o | _ => false end.
Proof. destruct l as [h| |o]; auto. Qed.

Theorem Inv_step n V s l :
  Inv V s None ->
  Inv (fold_left (vev n) (evs (step s l)) V) (step s l) None /\
  (taint_size (step s l) = true -> taint_size s = true \/ is_setsize l = true).
Proof.
  intros H0.
  destruct (is_setsize l) eqn:Hss.
  { (* pool_size = v: tasks and events untouched *)
    destruct l as [h| |o]; try discriminate. destruct o; try discriminate.
    destruct v as [v|]; try discriminate.
    split; [|auto]. exact H0. }
  assert (HQ : Q n V (taint_size s) None (step s l)).
  { unfold step.
    set (s1 := set_res (set_evs s []) RNone).
    assert (H : Q n V (taint_size s) None s1) by (split; [exact H0|reflexivity]).
    clearbody s1.
    destruct (negb (enabled s1 l)); [exact H|].
    destruct l as [h| |o].
    - assert (H2 : Q n V (taint_size s) None (unsched s1 h)) by exact H.
      destruct h as [[t|m|d]|d c]; simpl run_handle.
      + apply Q_run_p; auto.
      + apply Q_run_m; auto.
      + apply Q_run_d; auto.
      + apply Q_run_g; auto.
    - destruct (ctl s1) as [|[t|m|d]]; auto.
      + apply Q_continue_p; auto.
      + apply Q_continue_m; auto.
    - apply Q_do_op; auto. }
  destruct HQ as [HI Ht]. split; [exact HI|]. intros Hs. left. congruence.
Qed.
