(** C02 — No task and no capacity is ever lost.  Property theorem only. *)
From TP Require Import PSpec PRun PWF PProps_A PExamples.

Theorem C02 : forall c tr, clean (run c tr) -> C02_spec (run c tr).
Proof. intros c tr Hc. apply C02_of_WF. apply WF_run. exact Hc. Qed.

(** Non-vacuity: after a cancellation with a slow callback and a flush (tr_cancel) the cancelled
    task released its slot exactly once and its end callback ran exactly once. *)
Example C02_example :
  let s := run cfg2 tr_cancel in
  clean s /\ map (fun x => (p_pc x, p_nrel x, p_necb x, p_nccb x)) (firstn 1 (ptasks s))
             = [(PDone, 1, 1, 1)].
Proof. vm_compute. repeat split; reflexivity. Qed.

(** Monitor soundness: the extracted monitor for C02 (all four clauses) never rejects a stream of the model. *)
From TP Require PMonSound_C02 PObs PMon.
Theorem mon_sound : forall c tr, clean (run c tr) -> PMon.ok_C02 c (PObs.observe c tr) = true.
Proof. exact PMonSound_C02.mon_C02_sound. Qed.

(** "Eventually": the pool cannot livelock.  Without new operations from the environment every
    sequence of internal steps (running ANY ready handle, continuing from a user-code point) from
    a reachable state is finite - its length is bounded by the measure [mu] of the state, whatever
    order the scheduler picks handles in - and it can always be extended to a quiet idle point
    (control idle, no ready handle), at which the at-rest clauses of C02 / C04 apply. *)
From TP Require PProgress_def PProgress.
Theorem C02_no_livelock : forall c tr0, clean (run c tr0) ->
  forall tr, PProgress_def.internal_run (run c tr0) tr ->
  length tr <= PProgress_def.mu (run c tr0) /\
  exists tr', PProgress_def.internal_run (run c tr0) (tr ++ tr') /\
              PProgress_def.quiet (fold_left step (tr ++ tr') (run c tr0)) /\
              length (tr ++ tr') <= PProgress_def.mu (run c tr0).
Proof.
  intros c tr0 Hc tr Hr. split.
  - exact (PProgress.progress_bounded_mu c tr0 Hc tr Hr).
  - exact (PProgress.progress_settles_any c tr0 Hc tr Hr).
Qed.

Print Assumptions C02.
Print Assumptions C02_no_livelock.
Print Assumptions mon_sound.
