(** C02 — No task and no capacity is ever lost.  Property theorem only. *)
From TP Require Import PSpec PRun PWF PProps_A PExamples.

Theorem C02 : forall c tr, clean (run c tr) -> C02_spec (run c tr).
Proof. intros c tr Hc. apply C02_of_WF. apply WF_run. exact Hc. Qed.

(** Non-vacuity: after a cancellation with a slow callback and a flush (tr_cancel) the cancelled
    task released its slot exactly once and its end callback ran exactly once. *)
Example C02_example :
  let s := run cfg2 tr_cancel in
  clean s /\ map (fun x => (p_pc x, p_nrel x, p_necb x, p_nccb x)) (firstn 1 (ptasks s))
             = [(PDone, 1, 1, 1)].
Proof. vm_compute. repeat split; reflexivity. Qed.

(** Monitor soundness: the extracted monitor for C02 (all four clauses) never rejects a stream of the model. *)
From TP Require PMonSound_C02 PObs PMon.
Theorem mon_sound : forall c tr, clean (run c tr) -> PMon.ok_C02 c (PObs.observe c tr) = true.
Proof. exact PMonSound_C02.mon_C02_sound. Qed.

Print Assumptions C02.
Print Assumptions mon_sound.
