(** The observer's list of known group names [known s] never contains duplicates:
    it is written only by [know], which appends a name only when it is absent. *)
From TP Require Import PInv_Q_runm.

Lemma kn10_sched s h : known (sched s h) = known s.
Proof. unfold sched. destruct (is_ready s h); reflexivity. Qed.
Lemma kn10_unsched s h : known (unsched s h) = known s.
Proof. reflexivity. Qed.
Lemma kn10_emit s e : known (emit s e) = known s.
Proof. reflexivity. Qed.
Lemma kn10_fold_sched l : forall s, known (fold_left sched l s) = known s.
Proof. induction l; simpl; intros; auto. rewrite IHl. apply kn10_sched. Qed.
Lemma kn10_sched_cbs s r : known (sched_cbs s r) = known s.
Proof. unfold sched_cbs. apply kn10_fold_sched. Qed.
Lemma kn10_put_d s d x : known (put_d s d x) = known s.
Proof. reflexivity. Qed.
Lemma kn10_finish_d s d x e : known (finish_d s d x e) = known s.
Proof. reflexivity. Qed.
Lemma kn10_wake_closed_cons s d t :
  wake_closed s (d :: t) =
  wake_closed (match get_d s d with
               | Some x => if fut_pending (d_fw x)
                           then sched (put_d s d (set_d_fw x (Some FOk))) (HT (TD d)) else s
               | None => s end) t.
Proof. reflexivity. Qed.

Lemma kn10_wake_closed ds : forall s, known (wake_closed s ds) = known s.
Proof.
  induction ds as [|d t IH]; intros s; [reflexivity|]. rewrite kn10_wake_closed_cons, IH.
  destruct (get_d s d); auto. destruct (fut_pending _); auto. rewrite kn10_sched. reflexivity.
Qed.
#[export] Hint Rewrite kn10_sched kn10_unsched kn10_emit kn10_fold_sched kn10_sched_cbs kn10_put_d
  kn10_finish_d kn10_wake_closed : fr.

Lemma kn10_wake_next s : known (wake_next s) = known s.
Proof. unfold wake_next; brute. Qed.
Lemma kn10_sem_release s : known (sem_release s) = known s.
Proof. unfold sem_release. rewrite kn10_wake_next. reflexivity. Qed.
Lemma kn10_map_release s m : known (map_release s m) = known s.
Proof. unfold map_release, put_m; brute. Qed.
Lemma kn10_finish_p s t x : known (finish_p s t x) = known s.
Proof. unfold finish_p, put_p; brute. Qed.
Lemma kn10_suspend_p s t x pc : known (suspend_p s t x pc) = known s.
Proof. unfold suspend_p, put_p; brute. Qed.
Lemma kn10_finish_m s m x e : known (finish_m s m x e) = known s.
Proof. unfold finish_m, put_m; brute. Qed.
Lemma kn10_suspend_m s m x pc : known (suspend_m s m x pc) = known s.
Proof. unfold suspend_m, put_m; brute. Qed.
Lemma kn10_to_iter s m : known (to_iter s m) = known s.
Proof. unfold to_iter, put_m; brute. Qed.
Lemma kn10_register s m x : known (register s m x) = known s.
Proof. unfold register, put_m. cbv zeta. brute. Qed.
#[export] Hint Rewrite kn10_wake_next kn10_sem_release kn10_map_release kn10_finish_p kn10_suspend_p
  kn10_finish_m kn10_suspend_m kn10_to_iter kn10_register : fr.

Lemma kn10_enter_end s t x : known (enter_end s t x) = known s.
Proof. rewrite enter_end_eq. unfold moved. cbv zeta. brute. Qed.
#[export] Hint Rewrite kn10_enter_end : fr.
Lemma kn10_enter_cancel s t x : known (enter_cancel s t x) = known s.
Proof. unfold enter_cancel, put_p. brute. Qed.
#[export] Hint Rewrite kn10_enter_cancel : fr.
Local Arguments enter_end : simpl never.
Local Arguments enter_cancel : simpl never.

Lemma kn10_continue_p s t : known (continue_p s t) = known s.
Proof. unfold continue_p, put_p. brute. Qed.
Lemma kn10_run_p s t : known (run_p s t) = known s.
Proof. unfold run_p, put_p. cbv zeta. brute. Qed.

Lemma kn10_try_start s m x : known (fst (try_start s m x)) = known s.
Proof. unfold try_start. destruct (closed s); [|destruct (sem_locked s)]; cbn [fst]; autorewrite with fr; reflexivity. Qed.

Lemma kn10_apply_loop rem m : forall s, known (apply_loop rem s m) = known s.
Proof.
  induction rem as [|r IH]; intros s; simpl.
  - destruct (get_m s m); auto. autorewrite with fr. reflexivity.
  - destruct (get_m s m) as [x|]; auto. destruct (nth (m_idx x) (m_bad x) false).
    + rewrite IH. reflexivity.
    + pose proof (kn10_try_start s m x) as H1.
      destruct (try_start s m x) as [s' cont]. cbn [fst] in H1. destruct cont; auto.
      rewrite IH. exact H1.
Qed.

Lemma kn10_spawn_next s m : known (spawn_next s m) = known s.
Proof.
  unfold spawn_next. destruct (get_m s m) as [x|]; auto.
  destruct (m_kind x); rewrite ?kn10_apply_loop; autorewrite with fr; reflexivity.
Qed.

Lemma kn10_start_then_next s m x : known (start_then_next s m x) = known s.
Proof.
  unfold start_then_next. pose proof (kn10_try_start s m x) as H1.
  destruct (try_start s m x) as [s' cont]. cbn [fst] in H1. destruct cont; auto.
  rewrite kn10_spawn_next. exact H1.
Qed.

Lemma kn10_continue_m s m : known (continue_m s m) = known s.
Proof.
  unfold continue_m. destruct (get_m s m) as [x|]; auto. destruct (m_pc x); auto.
  destruct (nth_error _ _) as [e|]; [|autorewrite with fr; reflexivity].
  destruct (e_bad e); [autorewrite with fr; reflexivity|].
  destruct (m_mapval x); [autorewrite with fr; reflexivity|apply kn10_start_then_next].
Qed.

Lemma kn10_run_m s m : known (run_m s m) = known s.
Proof.
  unfold run_m. destruct (get_m s m) as [x0|]; auto. cbv zeta.
  destruct (m_pc x0); auto; destruct (task_input _ _);
    rewrite ?kn10_spawn_next, ?kn10_start_then_next; autorewrite with fr; try reflexivity;
    repeat match goal with |- context [if ?b then _ else _] => destruct b end;
    autorewrite with fr; reflexivity.
Qed.

Lemma kn10_after_g2 s d x o : known (after_g2 s d x o) = known s.
Proof. unfold after_g2; brute. Qed.
Lemma kn10_start_g2 s d x cs re : known (start_g2 s d x cs re) = known s.
Proof. unfold start_g2; brute; apply kn10_after_g2. Qed.
Lemma kn10_after_g1 s d x o : known (after_g1 s d x o) = known s.
Proof. unfold after_g1; brute; rewrite ?kn10_start_g2; reflexivity. Qed.
Lemma kn10_start_g1 s d x cs re : known (start_g1 s d x cs re) = known s.
Proof. unfold start_g1; brute; apply kn10_after_g1. Qed.
Lemma kn10_run_d s d : known (run_d s d) = known s.
Proof. unfold run_d; brute; rewrite ?kn10_start_g1, ?kn10_after_g1, ?kn10_after_g2; reflexivity. Qed.
Lemma kn10_run_g s d c : known (run_g s d c) = known s.
Proof. unfold run_g; brute. Qed.

Lemma kn10_cancel_p s t : known (cancel_p s t) = known s.
Proof. unfold cancel_p, put_p; brute. Qed.
Lemma kn10_cancel_m s m : known (cancel_m s m) = known s.
Proof. unfold cancel_m, put_m; brute. Qed.
Lemma kn10_fold {A} (f : state -> A -> state) :
  (forall s a, known (f s a) = known s) ->
  forall l s, known (fold_left f l s) = known s.
Proof. intros H l. induction l; simpl; intros; auto. rewrite IHl. apply H. Qed.
Lemma kn10_do_cancel s ids : known (do_cancel s ids) = known s.
Proof.
  unfold do_cancel. destruct (first_lookup_err s ids); [reflexivity|]. apply kn10_fold, kn10_cancel_p.
Qed.
Lemma kn10_cancel_group_metas s g : known (cancel_group_metas s g) = known s.
Proof.
  unfold cancel_group_metas. destruct (glookup _ _); auto.
  cbn [known set_meta_cancelled]. rewrite (kn10_fold _ kn10_cancel_m). reflexivity.
Qed.
Lemma kn10_cancel_group_body s g ids : known (cancel_group_body s g ids) = known s.
Proof.
  unfold cancel_group_body. rewrite kn10_fold.
  - cbn [known mark_dead set_mtasks]. apply kn10_cancel_group_metas.
  - intros s0 t. destruct (mem t (t_running s0)); auto using kn10_cancel_p.
Qed.
Lemma kn10_cancel_all_groups gs : forall s, known (cancel_all_groups s gs) = known s.
Proof.
  induction gs as [|[g ids] r IH]; simpl; intros; auto. rewrite IH, kn10_cancel_group_body. reflexivity.
Qed.
Lemma kn10_new_meta s x : known (new_meta s x) = known s.
Proof. unfold new_meta. rewrite kn10_sched. reflexivity. Qed.

(** [know] appends a name only when it is absent *)
Lemma kn10_geqb_spec a b : reflect (a = b) (gname_eqb a b).
Proof.
  destruct a as [m i|i|i], b as [n j|j|j]; simpl; try (constructor; congruence).
  - destruct (Nat.eqb_spec m n), (Nat.eqb_spec i j); simpl; constructor; congruence.
  - destruct (Nat.eqb_spec i j); constructor; congruence.
  - destruct (Nat.eqb_spec i j); constructor; congruence.
Qed.

Lemma nodup_snoc {A} (l : list A) (a : A) : NoDup l -> ~ In a l -> NoDup (l ++ [a]).
Proof.
  intros Hl Ha. induction Hl as [|b l Hb Hl IH]; simpl.
  - constructor; [intros []|constructor].
  - constructor.
    + rewrite in_app_iff. simpl. intros [Hin|[E|[]]]; [exact (Hb Hin)|].
      apply Ha. left. symmetry. exact E.
    + apply IH. intros Hin. apply Ha. right. exact Hin.
Qed.

Lemma nodup_know s g : NoDup (known s) -> NoDup (known (know s g)).
Proof.
  intros H. unfold know. destruct (existsb (gname_eqb g) (known s)) eqn:E; [exact H|].
  cbn [known set_known]. apply nodup_snoc; [exact H|].
  intros Hin. assert (Ht : existsb (gname_eqb g) (known s) = true).
  { apply existsb_exists. exists g. split; [exact Hin|].
    destruct (kn10_geqb_spec g g) as [_|Hne]; [reflexivity|exfalso; apply Hne; reflexivity]. }
  rewrite E in Ht. discriminate Ht.
Qed.

Lemma nodup_fold_know gs : forall s, NoDup (known s) -> NoDup (known (fold_left know gs s)).
Proof.
  induction gs as [|g r IH]; intros s H; simpl; [exact H|]. apply IH, nodup_know, H.
Qed.

Lemma nodup_know_opt s (og : option gname) :
  NoDup (known s) -> NoDup (known (match og with Some g0 => know s g0 | None => s end)).
Proof. intros H. destruct og; [apply nodup_know|]; exact H. Qed.

Lemma kn10_accept s0 x r : known (set_res (new_meta s0 x) r) = known s0.
Proof. change (known (new_meta s0 x) = known s0). apply kn10_new_meta. Qed.

Lemma nodup_do_op s o : NoDup (known s) -> NoDup (known (do_op s o)).
Proof.
  intros H. destruct o; unfold do_op.
  - pose proof (nodup_know_opt s g H) as H0.
    destruct (check_start _ _); [exact H0|]. destruct (ghas _ _); [exact H0|].
    rewrite kn10_accept. cbn [known set_groups].
    apply nodup_know. exact H0.
  - pose proof (nodup_know_opt s g H) as H0.
    destruct (check_start _ _); [exact H0|]. destruct (Nat.eqb nc 0); [exact H0|].
    destruct (ghas _ _); [exact H0|].
    rewrite kn10_accept. cbn [known set_groups].
    apply nodup_know. exact H0.
  - destruct (check_start _ _); [exact H|].
    rewrite kn10_accept. cbn [known set_groups set_start_calls].
    apply nodup_know. exact H.
  - rewrite kn10_do_cancel. exact H.
  - destruct (glookup _ _).
    + rewrite kn10_cancel_group_body. cbn [known set_groups]. apply nodup_know, H.
    + cbn [known set_res]. apply nodup_know, H.
  - rewrite kn10_cancel_all_groups. exact H.
  - destruct (res _); cbn [known set_res]; rewrite kn10_do_cancel; exact H.
  - destruct (res _); cbn [known set_res]; rewrite kn10_do_cancel; exact H.
  - exact H.
  - destruct (Nat.ltb _ _); exact H.
  - destruct v; exact H.
  - cbn [known set_res]. apply nodup_fold_know, H.
  - rewrite kn10_sched. destruct k; exact H.
  - destruct (get_p s tid); [|exact H]. rewrite kn10_sched. exact H.
  - destruct (get_p s tid); [|exact H]. rewrite kn10_sched. exact H.
Qed.

Lemma known_step_nodup s l : NoDup (known s) -> NoDup (known (step s l)).
Proof.
  intros H. unfold step. set (s1 := set_res (set_evs s []) RNone).
  change (NoDup (known s1)) in H. clearbody s1.
  destruct (negb (enabled s1 l)); [exact H|].
  destruct l as [h| |o].
  - destruct h as [[t|m|d]|d c]; cbn [run_handle].
    + rewrite kn10_run_p. exact H.
    + rewrite kn10_run_m. exact H.
    + rewrite kn10_run_d. exact H.
    + rewrite kn10_run_g. exact H.
  - destruct (ctl s1) as [|[t|m|d]]; rewrite ?kn10_continue_p, ?kn10_continue_m; exact H.
  - apply nodup_do_op, H.
Qed.

Theorem known_nodup_run c tr : NoDup (known (run c tr)).
Proof.
  unfold run. assert (Hg : forall s, NoDup (known s) -> NoDup (known (fold_left step tr s))).
  { induction tr as [|l r IH]; intros s Hs; simpl; [exact Hs|]. apply IH, known_step_nodup, Hs. }
  apply Hg. cbn. constructor.
Qed.

Print Assumptions known_nodup_run.
