(** Monitor soundness, C12 — model side: every user exception stored in a task record, every
    worker told to finish by raising and every started worker that raises at once is covered by
    a set [R] of (task, site) pairs — or by an event of the current step ([EvCbEnd _ _ true],
    [EvStart]) from which the tracker will learn it. *)
From TP Require Import PInv PInv_P_base PInv_P_view PInv_P_chain PInv_P_step PStep_C_ev PMon.
From TP Require PInv_Q_drv.

Definition okx (R : list (nat * site)) (E : list event) (t : nat) (x : ptask) : Prop :=
  (forall u st, p_exc x = Some (EUser u st) ->
     In (u, st) R \/ exists kd, u = t /\ st = site_of kd /\ In (EvCbEnd kd t true) E) /\
  (p_fin x = FinRaise -> In (t, SWorker) R) /\
  (p_pc x = PUStart -> w_first (p_w x) = WRaise ->
     In (t, SWorker) R \/ exists r el, In (EvStart t r el) E).

Definition X (R : list (nat * site)) (s : state) : Prop :=
  forall t x, get_p s t = Some x -> okx R (evs s) t x.

Definition J (R : list (nat * site)) (s : state) : Prop :=
  forall t x, get_p s t = Some x -> okx R [] t x.

(** ** the per-task predicate *)
Lemma okx_mono R E E' t x : (forall e, In e E -> In e E') -> okx R E t x -> okx R E' t x.
Proof.
  intros Hi (A & B & C). split; [|split; auto].
  - intros u st He. destruct (A u st He) as [H|(kd & H1 & H2 & H3)]; auto.
    right. exists kd. auto.
  - intros Hp Hw. destruct (C Hp Hw) as [H|(r & el & H)]; auto. right. exists r, el. auto.
Qed.

Lemma okx_incl R R' E t x : (forall p, In p R -> In p R') -> okx R E t x -> okx R' E t x.
Proof.
  intros Hi (A & B & C). split; [|split; auto].
  - intros u st He. destruct (A u st He) as [H|H]; auto.
  - intros Hp Hw. destruct (C Hp Hw) as [H|H]; auto.
Qed.

Lemma okx_keep R E t x x' :
  p_exc x' = p_exc x -> p_fin x' = p_fin x -> p_w x' = p_w x ->
  (p_pc x' = PUStart -> p_pc x = PUStart) -> okx R E t x -> okx R E t x'.
Proof.
  intros E1 E2 E3 E4 (A & B & C). unfold okx. rewrite E1, E2, E3. split; [|split]; auto.
Qed.

Lemma okx_exc R E t x e :
  (forall u st, e = EUser u st ->
     In (u, st) R \/ exists kd, u = t /\ st = site_of kd /\ In (EvCbEnd kd t true) E) ->
  okx R E t x -> okx R E t (set_p_exc x (Some e)).
Proof.
  intros He (A & B & C). split; [|split]; auto.
  intros u st Hx. cbn in Hx. injection Hx as Hx. auto.
Qed.

Lemma okx_cb_raise R E t x r kd :
  okx R E t x -> In (EvCbEnd kd t r) E -> okx R E t (cb_raise x r (site_of kd) t).
Proof.
  intros H Hi. unfold cb_raise. destruct r; auto. apply okx_exc; auto.
  intros u st Hx. injection Hx as <- <-. right. exists kd. auto.
Qed.

(** ** frame lemmas for [X] *)
Lemma X_fr R s s' : ptasks s' = ptasks s -> evs s' = evs s -> X R s -> X R s'.
Proof. intros Ep Ee H t x G. unfold get_p in G. rewrite Ep in G. rewrite Ee. apply (H t x G). Qed.

Lemma X_pv R s s' : pview s' = pview s -> evs s' = evs s -> X R s -> X R s'.
Proof. intros Ep. apply X_fr. exact (f_equal vpts Ep). Qed.

Lemma X_upd R s s' t x' :
  ptasks s' = upd (ptasks s) t x' -> (forall e, In e (evs s) -> In e (evs s')) ->
  X R s -> okx R (evs s') t x' -> X R s'.
Proof.
  intros Ep Ee H Hx u y G. unfold get_p in G. rewrite Ep in G.
  destruct (Nat.eq_dec t u) as [<-|Hne].
  - destruct (Nat.lt_ge_cases t (length (ptasks s))) as [Hl|Hl].
    + rewrite nth_error_upd_eq in G by auto. injection G as <-. exact Hx.
    + rewrite upd_out in G by auto. eapply okx_mono; [exact Ee|]. apply (H t y G).
  - rewrite nth_error_upd_neq in G by auto. eapply okx_mono; [exact Ee|]. apply (H u y G).
Qed.

Lemma X_emit R s e : X R s -> X R (emit s e).
Proof.
  intros H t x G. eapply okx_mono; [|apply (H t x G)].
  intros e' Hi. cbn. apply in_app_iff. auto.
Qed.

Lemma X_set_ctl R s v : X R s -> X R (set_ctl s v).
Proof. apply X_fr; reflexivity. Qed.
Lemma X_set_t_running R s v : X R s -> X R (set_t_running s v).
Proof. apply X_fr; reflexivity. Qed.
Lemma X_set_t_cancelled R s v : X R s -> X R (set_t_cancelled s v).
Proof. apply X_fr; reflexivity. Qed.
Lemma X_set_t_ended R s v : X R s -> X R (set_t_ended s v).
Proof. apply X_fr; reflexivity. Qed.

Lemma X_finish_p R s t x : X R s -> okx R (evs s) t x -> X R (finish_p s t x).
Proof.
  intros H Hx. apply (X_upd R s _ t (fin_x x)).
  - exact (f_equal vpts (pv_finish_p s t x)).
  - rewrite ev_finish_p. auto.
  - exact H.
  - rewrite ev_finish_p. eapply okx_keep; [..|exact Hx]; try reflexivity. discriminate.
Qed.

Lemma X_suspend_p R s t x pc :
  X R s -> okx R (evs s) t x -> pc <> PUStart -> X R (suspend_p s t x pc).
Proof.
  intros H Hx Hpc. apply (X_upd R s _ t (suspend_x x pc)).
  - exact (f_equal vpts (pv_suspend_p s t x pc)).
  - rewrite ev_suspend_p. auto.
  - exact H.
  - rewrite ev_suspend_p. eapply okx_keep; [..|exact Hx];
      unfold suspend_x; destruct (p_mc x); try reflexivity; cbn; congruence.
Qed.

Lemma X_moved R s1 t x :
  X R s1 -> okx R (evs s1) t x ->
  let s3 := sem_release s1 in
  let x' := set_p_nrel x (S (p_nrel x)) in
  let s4 := if p_ismap x' then map_release s3 (p_req x') else s3 in
  X R (match p_ecb x' with
       | CbNone => finish_p s4 t x'
       | _ =>
           set_ctl (emit (put_p s4 t (set_p_pc (set_p_necb x' (S (p_necb x'))) PUEndCb))
                         (EvCbBegin KEnd t (classify s4 t)))
                   (CUser (TP t))
       end).
Proof.
  intros H Hx s3 x' s4.
  assert (E4 : pview s4 = pview s1 /\ evs s4 = evs s1).
  { unfold s4, s3. destruct (p_ismap x');
      rewrite ?pv_map_release, ?ev_map_release, pv_sem_release, ev_sem_release; auto. }
  destruct E4 as [Ep Ee].
  assert (H4 : X R s4) by (eapply X_pv; eauto).
  assert (Hx' : okx R (evs s4) t x').
  { rewrite Ee. eapply okx_keep; [..|exact Hx]; auto. }
  clearbody s4.
  assert (B : X R (set_ctl (emit (put_p s4 t (set_p_pc (set_p_necb x' (S (p_necb x'))) PUEndCb))
                                 (EvCbBegin KEnd t (classify s4 t))) (CUser (TP t)))).
  { apply (X_upd R s4 _ t (set_p_pc (set_p_necb x' (S (p_necb x'))) PUEndCb)).
    - reflexivity.
    - intros e Hi. cbn. apply in_app_iff. auto.
    - exact H4.
    - eapply okx_mono; [|eapply okx_keep; [..|exact Hx']]; try reflexivity.
      + intros e Hi. cbn. apply in_app_iff. auto.
      + discriminate. }
  destruct (p_ecb x'); [apply X_finish_p; auto|exact B|exact B].
Qed.

Lemma X_enter_end R s t x : X R s -> okx R (evs s) t x -> X R (enter_end s t x).
Proof.
  intros H Hx. unfold enter_end.
  destruct (mem t (t_running s)); [|destruct (mem t (t_cancelled s))].
  - apply (X_moved R (set_t_ended (set_t_running s (remove1 t (t_running s)))
                        (dict_add (t_ended (set_t_running s (remove1 t (t_running s)))) t)) t x);
      [apply X_set_t_ended, X_set_t_running, H|exact Hx].
  - apply (X_moved R (set_t_ended (set_t_cancelled s (remove1 t (t_cancelled s)))
                        (dict_add (t_ended (set_t_cancelled s (remove1 t (t_cancelled s)))) t)) t x);
      [apply X_set_t_ended, X_set_t_cancelled, H|exact Hx].
  - apply X_finish_p; auto. apply okx_exc; auto. discriminate.
Qed.

Lemma X_enter_cancel R s t x : X R s -> okx R (evs s) t x -> X R (enter_cancel s t x).
Proof.
  intros H Hx. unfold enter_cancel. cbv zeta.
  destruct (mem t (t_running s)).
  - set (s1 := set_t_cancelled (set_t_running s (remove1 t (t_running s)))
                               (dict_add (t_cancelled s) t)).
    assert (H1 : X R s1) by (apply X_set_t_cancelled, X_set_t_running, H).
    assert (B : X R (set_ctl (emit (put_p s1 t (set_p_pc (set_p_nccb x (S (p_nccb x))) PUCancelCb))
                                   (EvCbBegin KCancel t (classify s1 t))) (CUser (TP t)))).
    { apply (X_upd R s1 _ t (set_p_pc (set_p_nccb x (S (p_nccb x))) PUCancelCb)).
      - reflexivity.
      - intros e Hi. cbn. apply in_app_iff. auto.
      - exact H1.
      - eapply okx_mono; [|eapply okx_keep; [..|exact Hx]]; try reflexivity.
        + intros e Hi. cbn. apply in_app_iff. auto.
        + discriminate. }
    destruct (p_ccb x); [apply X_enter_end; auto|exact B|exact B].
  - apply X_enter_end; auto. apply okx_exc; auto. discriminate.
Qed.

Lemma In_emit_new s e : In e (evs (emit s e)).
Proof. cbn. apply in_app_iff. right. left. reflexivity. Qed.

Lemma okx_emit R s e t x : okx R (evs s) t x -> okx R (evs (emit s e)) t x.
Proof. apply okx_mono. intros e' Hi. cbn. apply in_app_iff. auto. Qed.

Lemma X_continue_p R s t : X R s -> evs s = [] -> X R (continue_p s t).
Proof.
  intros H E0. unfold continue_p. destruct (get_p s t) as [x|] eqn:G; auto.
  pose proof (H t x G) as Hx.
  assert (He : forall e, X R (emit s e)) by (intros e; apply X_emit, H).
  assert (Hxe : forall e, okx R (evs (emit s e)) t x) by (intros e; apply okx_emit, Hx).
  destruct (p_pc x) eqn:Epc; auto.
  - (* PUStart *)
    destruct (w_first (p_w x)) eqn:W.
    + apply X_suspend_p; auto. discriminate.
    + apply X_enter_end; auto.
    + apply X_enter_end; auto. apply okx_exc; auto.
      intros u st Hu. injection Hu as <- <-. left.
      destruct Hx as (_ & _ & C). destruct (C Epc W) as [Hr|(r & el & Hr)]; auto.
      rewrite E0 in Hr. destruct Hr.
  - (* PUResume *)
    destruct (p_fin x) eqn:W.
    + apply X_enter_end; auto.
    + apply X_enter_end; auto. apply okx_exc; auto.
      intros u st Hu. injection Hu as <- <-. left. destruct Hx as (_ & B & _). auto.
  - (* PUCancelled *)
    destruct (w_cancel (p_w x)).
    + apply X_enter_cancel; auto.
    + apply X_enter_end; auto.
  - (* PUCancelCb *)
    destruct (p_ccb x) as [|r|sl r] eqn:C.
    + apply X_enter_end; auto.
    + apply X_enter_end; auto. apply (okx_cb_raise R _ t x r KCancel); auto. apply In_emit_new.
    + destruct sl.
      * apply X_suspend_p; auto. discriminate.
      * apply X_enter_end; auto. apply (okx_cb_raise R _ t x r KCancel); auto. apply In_emit_new.
  - (* PUEndCb *)
    destruct (p_ecb x) as [|r|sl r] eqn:C.
    + apply X_finish_p; auto.
    + apply X_finish_p; auto. apply (okx_cb_raise R _ t x r KEnd); auto. apply In_emit_new.
    + destruct sl.
      * apply X_suspend_p; auto. discriminate.
      * apply X_finish_p; auto. apply (okx_cb_raise R _ t x r KEnd); auto. apply In_emit_new.
Qed.

Lemma X_run_p R s t : X R s -> X R (run_p s t).
Proof.
  intros H. unfold run_p. destruct (get_p s t) as [x0|] eqn:G; auto. cbv zeta.
  pose proof (H t x0 G) as Hx0.
  set (x := set_p_mc (set_p_fw x0 None) false).
  assert (Hx : okx R (evs s) t x) by (eapply okx_keep; [..|exact Hx0]; auto).
  assert (He : forall e, X R (emit s e)) by (intros e; apply X_emit, H).
  assert (Hxe : forall e, okx R (evs (emit s e)) t x) by (intros e; apply okx_emit, Hx).
  assert (Hst : forall x1, p_exc x1 = p_exc x -> p_fin x1 = p_fin x -> p_w x1 = p_w x ->
            X R (set_ctl (emit (put_p s t x1) (EvStart t (p_req x) (p_el x))) (CUser (TP t)))).
  { intros x1 E1 E2 E3. apply (X_upd R s _ t x1).
    - reflexivity.
    - intros e Hi. cbn. apply in_app_iff. auto.
    - exact H.
    - destruct Hx as (A & B & _). unfold okx. rewrite E1, E2, E3. split; [|split]; auto.
      + intros u st Hu. destruct (A u st Hu) as [Hr|(kd & H1 & H2 & H3)]; auto.
        right. exists kd. repeat split; auto. cbn. apply in_app_iff. auto.
      + intros _ _. right. exists (p_req x), (p_el x). cbn. apply in_app_iff. right. left.
        reflexivity. }
  destruct (p_pc x0) eqn:Epc; auto.
  - (* PCreated *)
    destruct (task_input (p_mc x0) (p_fw x0));
      try (apply X_finish_p; auto; apply okx_exc; auto; discriminate).
    cbn [p_unst x set_p_mc set_p_fw].
    destruct (p_unst x0).
    + apply Hst; reflexivity.
    + apply Hst; reflexivity.
    + apply X_enter_cancel; [exact H|]. eapply okx_keep; [..|exact Hx0]; auto.
  - (* PWaitGate *)
    destruct (task_input (p_mc x0) (p_fw x0)).
    + apply X_set_ctl. apply (X_upd R s _ t (set_p_pc x PUResume)).
      * reflexivity.
      * auto.
      * exact H.
      * eapply okx_keep; [..|exact Hx]; try reflexivity. discriminate.
    + apply X_set_ctl. apply (X_upd R s _ t (set_p_pc x PUCancelled)).
      * reflexivity.
      * intros ev Hi. cbn. apply in_app_iff. auto.
      * exact H.
      * eapply okx_keep; [..|apply Hxe]; try reflexivity. discriminate.
    + apply X_set_ctl. apply (X_upd R s _ t (set_p_pc x PUCancelled)).
      * reflexivity.
      * intros ev Hi. cbn. apply in_app_iff. auto.
      * exact H.
      * eapply okx_keep; [..|apply Hxe]; try reflexivity. discriminate.
  - (* PWaitCcb *)
    destruct (task_input (p_mc x0) (p_fw x0)); apply X_enter_end; auto;
      try (apply okx_exc; auto; discriminate).
    apply (okx_cb_raise R _ t x _ KCancel); auto. apply In_emit_new.
  - (* PWaitEcb *)
    destruct (task_input (p_mc x0) (p_fw x0)); apply X_finish_p; auto;
      try (apply okx_exc; auto; discriminate).
    apply (okx_cb_raise R _ t x _ KEnd); auto. apply In_emit_new.
Qed.

(** ** the event-free version: spawners, drivers, operations *)
Lemma J_fr R s s' : ptasks s' = ptasks s -> J R s -> J R s'.
Proof. intros Ep H t x G. unfold get_p in G. rewrite Ep in G. apply (H t x G). Qed.

Lemma J_Qpv R : Qpv (J R).
Proof. intros s s' E. apply J_fr. exact (f_equal vpts E). Qed.

Lemma J_pc R s s' : pcore s' = pcore s -> J R s -> J R s'.
Proof. intros E. apply J_fr. apply pcore_inv in E. tauto. Qed.

Lemma J_upd R s s' t x' :
  ptasks s' = upd (ptasks s) t x' -> J R s -> okx R [] t x' -> J R s'.
Proof.
  intros Ep H Hx u y G. unfold get_p in G. rewrite Ep in G.
  destruct (Nat.eq_dec t u) as [<-|Hne].
  - destruct (Nat.lt_ge_cases t (length (ptasks s))) as [Hl|Hl].
    + rewrite nth_error_upd_eq in G by auto. injection G as <-. exact Hx.
    + rewrite upd_out in G by auto. apply (H t y G).
  - rewrite nth_error_upd_neq in G by auto. apply (H u y G).
Qed.

Lemma J_Qreg R : Qreg (J R).
Proof.
  intros s m x H t y G. unfold get_p in G.
  assert (Ep : ptasks (register s m x) = ptasks s ++ [new_pt m x])
    by exact (f_equal vpts (pv_register s m x)).
  rewrite Ep, nth_error_snoc in G.
  destruct (Nat.ltb t (length (ptasks s))); [apply (H t y G)|].
  destruct (Nat.eqb t (length (ptasks s))); [|discriminate]. injection G as <-.
  unfold okx, new_pt. cbn. split; [|split]; discriminate.
Qed.

Lemma X_of_J R s : J R s -> X R s.
Proof. intros H t x G. eapply okx_mono; [|apply (H t x G)]. intros e []. Qed.

Lemma J_of_X R s : evs s = [] -> X R s -> J R s.
Proof. intros E H t x G. rewrite <- E. apply (H t x G). Qed.

Lemma J_cancel_p R s t : J R s -> J R (cancel_p s t).
Proof.
  intros H.
  assert (Ep : ptasks (cancel_p s t) = vpts (cancel_p_v (pview s) (is_current s (TP t)) t))
    by exact (f_equal vpts (pv_cancel_p s t)).
  unfold cancel_p_v, vget in Ep. cbn [vpts pview] in Ep.
  destruct (nth_error (ptasks s) t) as [x|] eqn:G; [|eapply J_fr; [exact Ep|exact H]].
  pose proof (H t x G) as Hx.
  destruct (p_unst x).
  - destruct (p_final x); [eapply J_fr; [exact Ep|exact H]|].
    eapply J_upd; [exact Ep|exact H|].
    eapply okx_keep; [..|exact Hx]; unfold cancel_x; destruct (fut_pending (p_fw x)); auto.
  - eapply J_upd; [exact Ep|exact H|]. eapply okx_keep; [..|exact Hx]; auto.
  - eapply J_upd; [exact Ep|exact H|]. eapply okx_keep; [..|exact Hx]; auto.
Qed.

Lemma J_fold {A} R (f : state -> A -> state) :
  (forall s a, J R s -> J R (f s a)) -> forall l s, J R s -> J R (fold_left f l s).
Proof. intros Hf l. induction l; simpl; intros; auto. Qed.

Lemma J_do_cancel R s ids : J R s -> J R (do_cancel s ids).
Proof.
  intros H. unfold do_cancel. destruct (first_lookup_err s ids).
  - eapply J_fr; [|exact H]. reflexivity.
  - apply J_fold; auto. intros; apply J_cancel_p; auto.
Qed.

Lemma J_cancel_group_body R s g ids : J R s -> J R (cancel_group_body s g ids).
Proof.
  intros H. unfold cancel_group_body. apply J_fold.
  - intros s1 a H1. destruct (mem a (t_running s1)); auto. apply J_cancel_p; auto.
  - eapply (J_Qpv R); [|exact H]. rewrite pv_mark_dead. apply pv_cancel_group_metas.
Qed.

Lemma J_cancel_all_groups R gs : forall s, J R s -> J R (cancel_all_groups s gs).
Proof.
  induction gs as [|[g ids] r IH]; simpl; intros; auto. apply IH, J_cancel_group_body; auto.
Qed.

Lemma J_sched R s h : J R s -> J R (sched s h).
Proof. apply (J_Qpv R), pv_sched. Qed.

Lemma J_do_op R s o :
  J R s -> (forall t, o = OpFinish t FinRaise -> In (t, SWorker) R) -> J R (do_op s o).
Proof.
  intros H Hf. destruct (op_other o) eqn:Eo.
  { eapply J_pc; [apply pc_do_op_other; exact Eo|exact H]. }
  destruct o; try discriminate; unfold do_op.
  - apply J_do_cancel; auto.
  - assert (Hk : J R (know s g)) by (eapply (J_Qpv R); [apply pv_know|exact H]).
    destruct (glookup g (groups (know s g))).
    + apply J_cancel_group_body. eapply J_fr; [|exact Hk]. reflexivity.
    + eapply J_fr; [|exact Hk]. reflexivity.
  - apply J_cancel_all_groups. eapply J_fr; [|exact H]. reflexivity.
  - match goal with |- J _ (match res ?s1 with _ => _ end) =>
      assert (H1 : J R s1) by (apply J_do_cancel; auto);
      destruct (res s1); auto; (eapply J_fr; [|exact H1]; reflexivity) end.
  - match goal with |- J _ (match res ?s1 with _ => _ end) =>
      assert (H1 : J R s1) by (apply J_do_cancel; auto);
      destruct (res s1); auto; (eapply J_fr; [|exact H1]; reflexivity) end.
  - destruct (get_p s tid) as [x|] eqn:G; auto. pose proof (H tid x G) as (A & B & C).
    apply J_sched. eapply J_upd; [reflexivity|exact H|].
    unfold okx. cbn. split; [|split]; auto. intros ->. apply Hf. reflexivity.
  - destruct (get_p s tid) as [x|] eqn:G; auto. pose proof (H tid x G) as Hx.
    apply J_sched. eapply J_upd; [reflexivity|exact H|].
    eapply okx_keep; [..|exact Hx]; auto.
Qed.

(** ** one step *)
Theorem X_step R s l :
  J R s ->
  (forall t, l = LOp (OpFinish t FinRaise) -> enabled (set_res (set_evs s []) RNone) l = true ->
             In (t, SWorker) R) ->
  X R (step s l).
Proof.
  intros H Hf. unfold step. set (s1 := set_res (set_evs s []) RNone) in *.
  assert (H1 : J R s1) by (eapply J_fr; [|exact H]; reflexivity).
  assert (E1 : evs s1 = []) by reflexivity.
  destruct (enabled s1 l) eqn:En; cbn [negb]; [|apply X_of_J; exact H1].
  clearbody s1.
  destruct l as [h| |o].
  - assert (H2 : J R (unsched s1 h)) by (eapply J_fr; [|exact H1]; reflexivity).
    destruct h as [[t|m|d]|d c]; cbn [run_handle].
    + apply X_run_p. apply X_of_J. exact H2.
    + apply X_of_J. apply (Q_run_m (J R) (J_Qpv R) (J_Qreg R)). exact H2.
    + apply X_of_J. eapply J_fr; [apply PInv_Q_drv.run_d_ptasks|exact H2].
    + apply X_of_J. eapply J_pc; [apply pc_run_g|exact H2].
  - destruct (ctl s1) as [|[t|m|d]]; try (apply X_of_J; exact H1).
    + apply X_continue_p; auto. apply X_of_J. exact H1.
    + apply X_of_J. apply (Q_continue_m (J R) (J_Qpv R) (J_Qreg R)). exact H1.
  - apply X_of_J. apply J_do_op; auto. intros t ->. apply Hf; auto.
Qed.

Lemma J_incl R R' s : (forall p, In p R -> In p R') -> J R s -> J R' s.
Proof. intros Hi H t x G. eapply okx_incl; [exact Hi|]. apply (H t x G). Qed.

Lemma J_init R c : J R (init c).
Proof. intros t x G. unfold get_p in G. cbn in G. destruct t; discriminate. Qed.

(** closing the step: every event the tracker learns from is covered by the new set *)
Lemma J_close R R' s :
  X R s -> (forall p, In p R -> In p R') ->
  (forall kd t, In (EvCbEnd kd t true) (evs s) -> In (t, site_of kd) R') ->
  (forall t x r el, get_p s t = Some x -> p_pc x = PUStart -> w_first (p_w x) = WRaise ->
     In (EvStart t r el) (evs s) -> In (t, SWorker) R') ->
  J R' s.
Proof.
  intros H Hi Hc Hs t x G. destruct (H t x G) as (A & B & C). split; [|split].
  - intros u st He. left. destruct (A u st He) as [Hr|(kd & -> & -> & Hr)]; auto.
  - auto.
  - intros Hp Hw. left. destruct (C Hp Hw) as [Hr|(r & el & Hr)]; eauto.
Qed.
